#!/usr/bin/env python3
"""Type pool generator.

A type term (`Ty`) is a nested tuple mirroring the Lean `Ty` inductive:

  ('bool',) ('int', kind) ('char',) ('enum', n, kind) ('f32',) ('f64',)
  ('str', nom, cb) ('seq', flavor, T)   flavor: ('vector',) ('array', N) ('carray', N)
                                                ('lbuf', cap, kind, unb, 'array'|'carray')
  ('pair', A, B) ('tuple', [T..]) ('struct', [T..]) ('map', ord, K, V)
  ('opt', T) ('result', en, kind, T) ('variant', [T..]) ('handle', policy, htype, kind)
  ('wrap', T) ('table', hash, [(id, 'a'|'d', T)..])

For a list of such terms this module emits a C++ header that defines every helper
struct / enum / policy the terms need, a `PoolType<I>` registry (C++ type, the term's
s-expression for the Lean driver, feature flags) and nothing else.  The harness's
generic code (support/*.h) does the rest through the `nopv_*` visitors emitted here.
"""
import random

KINDS = {'u8': 'std::uint8_t', 'u16': 'std::uint16_t', 'u32': 'std::uint32_t', 'u64': 'std::uint64_t',
         'i8': 'std::int8_t', 'i16': 'std::int16_t', 'i32': 'std::int32_t', 'i64': 'std::int64_t'}
KBYTES = {'u8': 1, 'u16': 2, 'u32': 4, 'u64': 8, 'i8': 1, 'i16': 2, 'i32': 4, 'i64': 8}
STRS = {(0, 1): 'std::string', (1, 2): 'std::u16string', (2, 4): 'std::u32string', (3, 4): 'std::wstring'}


def sexp(t):
    k = t[0]
    if k in ('bool', 'f32', 'f64'):
        return k
    if k == 'int':
        return '(int %s)' % t[1]
    if k == 'char':
        return '(char)'
    if k == 'enum':
        return '(enum %d %s)' % (t[1], t[2])
    if k == 'str':
        return '(str %d %d)' % (t[1], t[2])
    if k == 'seq':
        f = t[1]
        if f[0] == 'vector':
            fs = 'vector'
        elif f[0] in ('array', 'carray'):
            fs = '(%s %d)' % (f[0], f[1])
        else:
            fs = '(lbuf %d %s %d)' % (f[1], f[2], 1 if f[3] else 0)
        return '(seq %s %s)' % (fs, sexp(t[2]))
    if k == 'pair':
        return '(pair %s %s)' % (sexp(t[1]), sexp(t[2]))
    if k in ('tuple', 'struct', 'variant'):
        return '(%s%s)' % (k, ''.join(' ' + sexp(x) for x in t[1]))
    if k == 'map':
        return '(map %s %s %s)' % ('ord' if t[1] else 'unord', sexp(t[2]), sexp(t[3]))
    if k == 'opt':
        return '(opt %s)' % sexp(t[1])
    if k == 'result':
        return '(result %d %s %s)' % (t[1], t[2], sexp(t[3]))
    if k == 'handle':
        return '(handle %d %d %s)' % (t[1], t[2], t[3])
    if k == 'wrap':
        return '(wrap %s)' % sexp(t[1])
    if k == 'table':
        return '(table %d%s)' % (t[1], ''.join(' (e %d %s %s)' % (i, ad, sexp(x)) for (i, ad, x) in t[2]))
    raise ValueError(t)


def integral(t):
    return t[0] in ('bool', 'int', 'char')


def children(t):
    k = t[0]
    if k == 'seq':
        return [t[2]]
    if k == 'pair':
        return [t[1], t[2]]
    if k in ('tuple', 'struct', 'variant'):
        return list(t[1])
    if k == 'map':
        return [t[2], t[3]]
    if k == 'opt' or k == 'wrap':
        return [t[1]]
    if k == 'result':
        return [t[3]]
    if k == 'table':
        return [x for (_, _, x) in t[2]]
    return []


def any_node(t, pred):
    return pred(t) or any(any_node(c, pred) for c in children(t))


def flags(t):
    has_table = any_node(t, lambda x: x[0] == 'table')
    has_float = any_node(t, lambda x: x[0] in ('f32', 'f64'))
    has_handle = any_node(t, lambda x: x[0] == 'handle')
    # ConstexprBufferWriter has WriteElement overloads only for char and the 8 fixed-width
    # integer types: block writes of bool / wide characters do not compile.
    bad_block = any_node(t, lambda x: (x[0] == 'seq' and x[2][0] == 'bool') or (x[0] == 'str' and x[2] != 1))
    has_unordered = any_node(t, lambda x: x[0] == 'map' and not x[1])
    return dict(has_table=has_table, has_float=has_float, has_handle=has_handle,
                constexpr_ok=not (has_float or bad_block), has_unordered=has_unordered)


class Emitter:
    """Turns terms into C++ spellings, emitting helper definitions once each."""

    def __init__(self, prefix):
        self.prefix = prefix
        self.defs = []
        self.memo = {}
        self.enums = {}
        self.policies = {}
        self.counter = 0

    def fresh(self, stem):
        self.counter += 1
        return '%s_%s%d' % (self.prefix, stem, self.counter)

    def cpp(self, t):
        key = repr(t)
        if key in self.memo:
            return self.memo[key]
        r = self._cpp(t)
        self.memo[key] = r
        return r

    def _cpp(self, t):
        k = t[0]
        if k == 'bool':
            return 'bool'
        if k == 'int':
            return KINDS[t[1]]
        if k == 'char':
            return 'char'
        if k in ('f32', 'f64'):
            return 'float' if k == 'f32' else 'double'
        if k == 'enum':
            key = (t[1], t[2])
            if key not in self.enums:
                name = 'Enum%d_%s' % key
                self.enums[key] = name
                self.defs.append('#ifndef NOPV_%s\n#define NOPV_%s\nenum class %s : %s { None = 0, A = 1 };\n#endif\n'
                                 % (name.upper(), name.upper(), name, KINDS[t[2]]))
            return self.enums[key]
        if k == 'str':
            return STRS[(t[1], t[2])]
        if k == 'seq':
            f = t[1]
            e = self.cpp(t[2])
            if f[0] == 'vector':
                return 'std::vector<%s>' % e
            if f[0] == 'array':
                return 'std::array<%s, %d>' % (e, f[1])
            raise ValueError('carray / lbuf only as struct members: %r' % (t,))
        if k == 'pair':
            return 'std::pair<%s, %s>' % (self.cpp(t[1]), self.cpp(t[2]))
        if k == 'tuple':
            return 'std::tuple<%s>' % ', '.join(self.cpp(x) for x in t[1])
        if k == 'map':
            return '%s<%s, %s>' % ('std::map' if t[1] else 'std::unordered_map', self.cpp(t[2]), self.cpp(t[3]))
        if k == 'opt':
            return 'nop::Optional<%s>' % self.cpp(t[1])
        if k == 'result':
            return 'nop::Result<%s, %s>' % (self.cpp(('enum', t[1], t[2])), self.cpp(t[3]))
        if k == 'variant':
            return 'nop::Variant<%s>' % ', '.join(self.cpp(x) for x in t[1])
        if k == 'handle':
            key = (t[1], t[2], t[3])
            if key not in self.policies:
                name = 'Policy%d_%d_%s' % key
                self.policies[key] = name
                self.defs.append(
                    '#ifndef NOPV_%s\n#define NOPV_%s\n'
                    'struct %s {\n  using Type = int;\n  static constexpr int Default() { return -1; }\n'
                    '  static bool IsValid(const int& v) { return v >= 0; }\n'
                    '  static void Close(int* v) { *v = -1; }\n'
                    '  static int Release(int* v) { int t = *v; *v = -1; return t; }\n'
                    '  static constexpr %s HandleType() { return %d; }\n};\n#endif\n'
                    % (name.upper(), name.upper(), name, KINDS[t[3]], t[2]))
            return 'nop::Handle<%s>' % self.policies[key]
        if k == 'wrap':
            name = self.fresh('W')
            inner = t[1]
            self.defs.append(self.struct_def(name, [inner], wrap=True))
            return name
        if k == 'struct':
            name = self.fresh('S')
            self.defs.append(self.struct_def(name, t[1]))
            return name
        if k == 'table':
            name = self.fresh('T')
            lines = ['struct %s {' % name, '  using nopv_kind = nopv::TableTag;']
            ents = []
            for j, (eid, ad, x) in enumerate(t[2]):
                dele = ', nop::DeletedEntry' if ad == 'd' else ''
                lines.append('  nop::Entry<%s, %d%s> e%d;' % (self.cpp(x), eid, dele, j))
                ents.append('e%d' % j)
            lines.append('  template <class F> void nopv_entries(F&& f) { %s }' %
                         ' '.join('f(e%d);' % j for j in range(len(ents))))
            lines.append('  template <class F> void nopv_entries(F&& f) const { %s }' %
                         ' '.join('f(e%d);' % j for j in range(len(ents))))
            if ents:
                lines.append('  NOP_TABLE_HASH(%dULL, %s, %s);' % (t[1], name, ', '.join(ents)))
            else:
                raise ValueError('empty table not supported by the macros')
            lines.append('};\n')
            self.defs.append('\n'.join(lines))
            return name
        raise ValueError(t)

    def struct_def(self, name, members, wrap=False):
        lines = ['struct %s {' % name,
                 '  using nopv_kind = nopv::%s;' % ('WrapTag' if wrap else 'StructTag')]
        visit = []
        macro = []
        for j, m in enumerate(members):
            if m[0] == 'seq' and m[1][0] == 'lbuf':
                cap, sk, unb, how = m[1][1], m[1][2], m[1][3], m[1][4]
                e = self.cpp(m[2])
                if how == 'array':
                    lines.append('  std::array<%s, %d> m%d{};' % (e, cap, j))
                else:
                    lines.append('  %s m%d[%d]{};' % (e, j, cap))
                lines.append('  %s m%dn{0};' % (KINDS[sk], j))
                visit.append('f(nopv::lbuf(m%d, m%dn));' % (j, j))
                macro.append('(m%d, m%dn)' % (j, j))
            elif m[0] == 'seq' and m[1][0] == 'carray':
                lines.append('  %s m%d[%d]{};' % (self.cpp(m[2]), j, m[1][1]))
                visit.append('f(m%d);' % j)
                macro.append('m%d' % j)
            else:
                lines.append('  %s m%d{};' % (self.cpp(m), j))
                visit.append('f(m%d);' % j)
                macro.append('m%d' % j)
        lines.append('  template <class F> void nopv_members(F&& f) { %s }' % ' '.join(visit))
        lines.append('  template <class F> void nopv_members(F&& f) const { %s }' % ' '.join(visit))
        if wrap:
            lines.append('  NOP_VALUE(%s, %s);' % (name, macro[0]))
        elif macro:
            lines.append('  NOP_STRUCTURE(%s, %s);' % (name, ', '.join(macro)))
        else:
            lines.append('  NOP_STRUCTURE(%s);' % name)
        lines.append('};\n')
        return '\n'.join(lines)


def emit_header(pool_name, terms, path, pairs=None):
    em = Emitter(pool_name)
    entries = []
    for i, t in enumerate(terms):
        cpp = em.cpp(t)
        fl = flags(t)
        entries.append((i, cpp, sexp(t), fl))
    out = ['// Generated by gen/pool.py -- do not edit.', '#pragma once', '#include "support/common.h"', '',
           'namespace pool_%s {' % pool_name, '']
    out += em.defs
    out.append('template <int I> struct PoolType;')
    for (i, cpp, sx, fl) in entries:
        out.append('template <> struct PoolType<%d> {\n  using type = %s;\n  static constexpr const char* sexp = "%s";\n'
                   '  static constexpr bool has_table = %s, has_float = %s, has_handle = %s, constexpr_ok = %s, has_unordered = %s;\n};'
                   % (i, cpp, sx, *(str(fl[k]).lower() for k in
                                   ('has_table', 'has_float', 'has_handle', 'constexpr_ok', 'has_unordered'))))
    out.append('constexpr int kPoolSize = %d;' % len(entries))
    if pairs is not None:
        out.append('template <int K> struct PairAt;')
        for k, (a, b, tag) in enumerate(pairs):
            out.append('template <> struct PairAt<%d> { static constexpr int a = %d, b = %d; static constexpr const char* tag = "%s"; };' % (k, a, b, tag))
        out.append('constexpr int kPairCount = %d;' % len(pairs))
    out.append('}  // namespace pool_%s' % pool_name)
    with open(path, 'w') as f:
        f.write('\n'.join(out) + '\n')
    return entries


# ---------------------------------------------------------------------------------------
# Pools
# ---------------------------------------------------------------------------------------

def I(k):
    return ('int', k)


def vec(t):
    return ('seq', ('vector',), t)


def arr(n, t):
    return ('seq', ('array', n), t)


def carr(n, t):
    return ('seq', ('carray', n), t)


def lbuf(cap, sk, t, how='array'):
    return ('seq', ('lbuf', cap, sk, False, how), t)


STR = ('str', 0, 1)


def pool_a():
    """Deterministic pool A: every constructor, every scalar kind, nestings."""
    ts = [('bool',), ('char',)]
    ts += [I(k) for k in KINDS]
    ts += [('enum', 1, 'u8'), ('enum', 2, 'i32'), ('enum', 3, 'u64'), ('enum', 4, 'i16')]
    ts += [('f32',), ('f64',)]
    ts += [STR, ('str', 1, 2), ('str', 2, 4), ('str', 3, 4)]
    # sequences: integral and non-integral elements
    ts += [vec(I('u8')), vec(I('i32')), vec(I('u64')), vec(('char',)), vec(STR), vec(('f64',)),
           vec(('enum', 2, 'i32')), vec(vec(I('i16')))]
    ts += [arr(3, I('u16')), arr(4, ('bool',)), arr(2, STR), arr(0, I('i32')), arr(2, ('opt', I('i8')))]
    ts += [('struct', [carr(3, I('i64'))]), ('struct', [carr(2, STR), I('u8')])]
    ts += [('pair', I('i32'), STR), ('tuple', []), ('tuple', [I('u8')]),
           ('tuple', [I('i64'), ('f32',), STR, ('bool',)])]
    ts += [('struct', []), ('struct', [I('u32')]), ('struct', [I('i8'), STR, vec(I('u16'))]),
           ('struct', [('struct', [I('u8'), ('struct', [STR])]), ('opt', ('struct', [I('i32')]))])]
    # logical buffers over every size-member kind
    for sk in ('u8', 'u16', 'u32', 'u64', 'i8', 'i16', 'i32', 'i64'):
        ts.append(('struct', [lbuf(5, sk, I('i32'))]))
    ts += [('struct', [lbuf(3, 'u8', STR), I('u8')]), ('struct', [lbuf(4, 'i32', I('u8'), 'carray')]),
           ('struct', [lbuf(2, 'u64', ('opt', I('u16')), 'carray')]),
           ('struct', [lbuf(100, 'u8', I('i32'))]), ('struct', [lbuf(200, 'i32', I('u8'))])]
    ts += [('map', True, I('i32'), STR), ('map', False, I('u16'), I('i64')), ('map', True, STR, vec(I('u8'))),
           ('map', False, STR, ('opt', I('i32'))), ('map', True, ('pair', I('i8'), I('i8')), ('bool',))]
    ts += [('opt', I('i32')), ('opt', STR), ('opt', vec(I('u8'))), ('opt', ('struct', [I('u8'), ('f32',)]))]
    ts += [('result', 2, 'i32', I('u32')), ('result', 1, 'u8', STR), ('result', 4, 'i16', vec(STR))]
    ts += [('variant', [I('i32')]), ('variant', [I('i32'), STR]), ('variant', [STR, ('f32',), vec(I('u8')), ('bool',)]),
           ('variant', [('struct', [I('u8')]), ('opt', I('i64')), ('map', True, I('u8'), STR)])]
    ts += [('wrap', I('u32')), ('wrap', STR), ('wrap', vec(I('i16'))), vec(('wrap', I('i32'))),
           ('struct', [('wrap', ('f64',)), ('wrap', ('wrap', I('u8')))])]
    ts += [('table', 0, [(1, 'a', I('i32'))]),
           ('table', 12345678901234567890, [(1, 'a', STR), (2, 'a', vec(I('u16'))), (5, 'd', I('u8')), (9, 'a', ('opt', I('i8')))]),
           ('table', 7, [(300, 'a', ('table', 8, [(1, 'a', I('u64')), (2, 'a', STR)])), (2, 'a', ('f64',))]),
           vec(('table', 3, [(0, 'a', I('u8')), (70000, 'a', STR)])),
           ('struct', [('table', 4, [(1, 'a', ('struct', [I('i16'), STR]))]), I('u8')]),
           ('table', 5, [(1, 'a', ('variant', [I('i32'), STR])), (2, 'a', ('map', True, I('u8'), I('u8'))),
                         (3, 'a', ('result', 2, 'i32', STR))])]
    # C arrays of floating point / bool / wide elements, logical buffers whose byte length leaves the size member's range
    ts += [('struct', [carr(3, ('f32',))]), ('struct', [carr(2, ('f64',)), I('u8')]), ('struct', [carr(2, ('bool',))]),
           ('struct', [lbuf(200, 'u8', I('u16'))]), ('struct', [lbuf(100, 'i8', I('u64'), 'carray')]), ('struct', [lbuf(3, 'u8', ('f64',))]),
           ('table', 21, [(1, 'a', ('str', 1, 2)), (2, 'a', ('str', 2, 4)), (3, 'a', I('u32'))])]
    ts += [('handle', 0, 0, 'u64'), ('struct', [('handle', 0, 0, 'u64'), I('u8'), ('handle', 1, 77, 'u32')]),
           vec(('handle', 0, 0, 'u64')), ('opt', ('handle', 1, 77, 'u32')),
           ('variant', [I('u8'), ('handle', 0, 0, 'u64')]),
           ('table', 9, [(1, 'a', ('handle', 0, 0, 'u64')), (2, 'a', vec(('handle', 1, 77, 'u32'))), (3, 'a', STR)])]
    return ts


def random_type(rng, depth, allow_handle=False, top=True, key=False):
    """A random term; `key` restricts to types usable as map keys."""
    scalars = [('bool',), ('char',)] + [I(k) for k in KINDS] + [('enum', 2, 'i32'), ('f32',), ('f64',), STR,
                                                               ('str', 1, 2)]
    if key:
        return rng.choice([I('u8'), I('i32'), I('u64'), STR, I('i16')])
    if depth <= 0 or rng.random() < 0.25:
        return rng.choice(scalars)
    sub = lambda: random_type(rng, depth - 1, allow_handle, False)
    k = rng.choice(['vec', 'arr', 'pair', 'tuple', 'struct', 'map', 'opt', 'result', 'variant', 'wrap', 'table',
                    'lbuf'] + (['handle'] if allow_handle else []))
    if k == 'vec':
        e = sub()
        while e == ('bool',):      # std::vector<bool> has no data(): not supported by libnop
            e = sub()
        return vec(e)
    if k == 'arr':
        return arr(rng.choice([0, 1, 2, 3]), sub())
    if k == 'pair':
        return ('pair', sub(), sub())
    if k == 'tuple':
        return ('tuple', [sub() for _ in range(rng.randint(0, 3))])
    if k == 'struct':
        return ('struct', [sub() for _ in range(rng.randint(0, 3))])
    if k == 'map':
        return ('map', rng.random() < 0.6, random_type(rng, 0, key=True), sub())
    if k == 'opt':
        t = sub()
        while t[0] in ('opt', 'result', 'wrap'):   # K1: payload must not itself start with NIL / ERR
            t = sub()
        return ('opt', t)
    if k == 'result':
        t = sub()
        while t[0] in ('opt', 'result', 'wrap') or t == ('enum', 2, 'i32'):
            t = sub()
        return ('result', 2, 'i32', t)
    if k == 'variant':
        alts = []
        for _ in range(rng.randint(1, 3)):
            t = sub()
            while t[0] == 'variant' or repr(t) in [repr(a) for a in alts]:
                t = sub()
            alts.append(t)
        return ('variant', alts)
    if k == 'wrap':
        return ('wrap', sub())
    if k == 'handle':
        return ('handle', 0, 0, 'u64')
    if k == 'lbuf':
        e = rng.choice([I('u8'), I('i32'), STR, I('u16')])
        return ('struct', [lbuf(rng.choice([1, 3, 6]), rng.choice(list(KINDS)), e, rng.choice(['array', 'carray']))])
    if k == 'table':
        ids = rng.sample(range(0, 400), rng.randint(1, 3))
        return ('table', rng.choice([0, 1, 2 ** 40 + 5]),
                [(i, 'd' if rng.random() < 0.2 else 'a', sub_noopt(rng, depth - 1, allow_handle)) for i in ids])
    raise AssertionError


def sub_noopt(rng, depth, allow_handle):
    t = random_type(rng, depth, allow_handle, False)
    return t


def pool_random(seed, n, depth=3):
    rng = random.Random(seed)
    return [random_type(rng, depth, allow_handle=(i % 4 == 0)) for i in range(n)]


def pool_h():
    """handle-centric pool (C15): handles at every kind of nesting position"""
    H0 = ('handle', 0, 0, 'u64')
    H1 = ('handle', 1, 77, 'u32')
    ts = [H0, H1,
          ('struct', [H0]), ('struct', [H0, H1, H0]), ('struct', [I('u8'), H0, STR, H1]),
          ('struct', [('struct', [H0, ('struct', [H1])]), H0]),
          vec(H0), vec(H1), vec(('struct', [H0, I('u8')])), vec(vec(H0)), arr(2, H0), arr(3, ('opt', H1)),
          ('pair', H0, H1), ('tuple', [H0, STR, H1]), ('tuple', [vec(H0), ('opt', H0)]),
          ('opt', H0), ('opt', H1), ('opt', ('struct', [H0, H0])), ('opt', vec(H1)),
          ('variant', [H0]), ('variant', [I('u8'), H0]), ('variant', [H0, H1, STR]), ('variant', [vec(H0), ('struct', [H1, I('i32')])]),
          ('map', True, I('u8'), H0), ('map', False, STR, H1), ('map', True, I('i32'), vec(H0)),
          ('result', 2, 'i32', H0), ('result', 2, 'i32', vec(H1)),
          ('wrap', H0), vec(('wrap', H1)),
          ('table', 9, [(1, 'a', H0)]),
          ('table', 9, [(1, 'a', H0), (2, 'a', H1), (3, 'a', STR)]),
          ('table', 10, [(1, 'a', vec(H0)), (7, 'd', I('u8')), (2, 'a', ('struct', [H1, H0]))]),
          ('table', 11, [(5, 'a', ('table', 12, [(1, 'a', H0), (2, 'a', I('u8'))])), (6, 'a', H1)]),
          vec(('table', 13, [(1, 'a', H0), (2, 'a', ('opt', H1))])),
          ('struct', [('table', 14, [(1, 'a', ('variant', [H0, STR]))]), H1]),
          ('table', 15, [(1, 'a', ('map', True, I('u8'), H0)), (2, 'a', ('tuple', [H0, H1]))])]
    rng = random.Random(20260930)
    has = lambda t: any_node(t, lambda x: x[0] == 'handle')
    n = 0
    while n < 24:
        t = random_type(rng, 3, allow_handle=True)
        if has(t):
            ts.append(t)
            n += 1
    return ts


def pool_x():
    """version families of tables (C07/C08): (terms, pairs); pairs = (writer idx, reader idx, tag)"""
    rng = random.Random(20261001)
    inner_a = ('table', 200, [(1, 'a', I('u64')), (2, 'a', STR)])
    inner_b = ('table', 200, [(2, 'a', STR), (7, 'a', I('i8')), (1, 'd', I('u64'))])
    fam1 = {1: [I('u32')], 2: [STR], 3: [vec(I('i16'))], 4: [('opt', I('i8'))],
            5: [('struct', [I('u8'), STR])], 6: [('pair', I('u8'), I('i32')), ('tuple', [I('u8'), I('i32')])],
            8: [inner_a, inner_b], 70000: [('map', True, I('u8'), STR), ('map', False, I('u8'), STR)],
            9: [('wrap', I('u16')), I('u16')]}
    fam2 = {0: [I('u8')], 1: [('variant', [I('i32'), STR])], 2: [vec(STR)], 3: [('f64',)],
            4: [('result', 2, 'i32', I('u8'))], 300: [('tuple', [STR, I('i8')]), ('pair', STR, I('i8'))]}

    def versions(hash_, fam, n):
        vs = []
        ids = sorted(fam)
        # the full definition in id order, and its reverse
        vs.append(('table', hash_, [(i, 'a', fam[i][0]) for i in ids]))
        vs.append(('table', hash_, [(i, 'a', fam[i][-1]) for i in reversed(ids)]))
        while len(vs) < n:
            sub = rng.sample(ids, rng.randint(1, len(ids)))
            ents = [(i, 'd' if rng.random() < 0.25 else 'a', rng.choice(fam[i])) for i in sub]
            if all(e[1] == 'd' for e in ents):
                continue
            t = ('table', hash_, ents)
            if repr(t) not in [repr(v) for v in vs]:
                vs.append(t)
        return vs

    terms, pairs = [], []
    f1 = versions(100, fam1, 7)
    f2 = versions(2 ** 63 + 11, fam2, 5)
    for fam in (f1, f2):
        base = len(terms)
        terms += fam
        for a in range(len(fam)):
            for b in range(len(fam)):
                pairs.append((base + a, base + b, 'version'))
    # the same versions nested in a structure (followed by a member), a vector and another table's entry
    ctxs = [lambda v: ('struct', [v, I('u8'), STR]), lambda v: vec(v),
            lambda v: ('table', 300, [(1, 'a', v), (2, 'a', I('u8'))]),
            lambda v: ('tuple', [I('u8'), ('opt', v), v])]
    for ci, ctx in enumerate(ctxs):
        for fam in (f1, f2):
            picks = rng.sample(range(len(fam)), 3)
            base = len(terms)
            terms += [ctx(fam[i]) for i in picks]
            for a in range(3):
                for b in range(3):
                    if a != b:
                        pairs.append((base + a, base + b, 'nested'))
    return terms, pairs


def pool_f():
    """fungibility pool (C09): families of types around each IsFungible rule; all ordered pairs
    within a family plus random cross-family pairs"""
    rng = random.Random(20261002)
    E = ('enum', 2, 'i32')
    S1 = ('struct', [I('u8'), STR])
    S1b = ('struct', [('wrap', I('u8')), STR])
    fams = [
        # integral sequences (BINARY container)
        [vec(I('i32')), arr(3, I('i32')), arr(2, I('i32')), ('struct', [carr(3, I('i32'))]), ('struct', [lbuf(3, 'u8', I('i32'))]),
         ('struct', [lbuf(3, 'u64', I('i32'), 'carray')]), ('struct', [lbuf(6, 'i16', I('i32'))]), ('tuple', [I('i32'), I('i32'), I('i32')]),
         vec(I('u32')), vec(E), arr(3, E), ('tuple', [E, E, E]), ('pair', I('i32'), I('i32')),
         ('struct', [vec(I('i32'))]), ('struct', [arr(3, I('i32'))]), ('struct', [lbuf(3, 'u8', E)]), ('struct', [vec(E)]),
         ('tuple', [I('i32'), ('wrap', I('i32')), I('i32')]), ('tuple', [('wrap', I('i32'))]), vec(('wrap', I('i32'))),
         ('tuple', [('wrap', I('i32')), ('wrap', ('wrap', I('i32'))), ('wrap', I('i32'))])],
        # floating point sequences: ARRAY container everywhere
        [vec(('f32',)), arr(3, ('f32',)), ('struct', [lbuf(3, 'u8', ('f32',))]), ('struct', [vec(('f32',))]), ('struct', [arr(3, ('f32',))]),
         ('tuple', [('f32',), ('f32',), ('f32',)]), vec(('f64',)), ('struct', [lbuf(3, 'u16', ('f64',), 'carray')]), ('struct', [vec(('f64',))]),
         ('struct', [lbuf(2, 'i8', ('bool',))]), ('struct', [vec(('char',))]), ('struct', [lbuf(4, 'u8', ('char',))]),
         ('struct', [carr(3, ('f32',))])],
        # logical buffers long enough for the byte length to leave the size member's range
        [('struct', [lbuf(120, 'u8', I('u32'))]), ('struct', [vec(I('u32'))]), ('struct', [lbuf(120, 'u64', I('u32'), 'carray')]),
         ('struct', [lbuf(70, 'i8', I('i16'))]), ('struct', [vec(I('i16'))])],
        # non-integral sequences (ARRAY container) and tuples
        [vec(STR), arr(2, STR), arr(3, STR), ('tuple', [STR, STR]), ('pair', STR, STR), ('tuple', [STR, STR, STR]), ('tuple', []),
         ('struct', [STR, STR]), ('struct', [carr(2, STR)]), ('struct', [lbuf(2, 'u8', STR)]), vec(('wrap', STR)), ('tuple', [('wrap', STR), STR])],
        # nested sequences, maps
        [vec(vec(I('u8'))), vec(arr(2, I('u8'))), arr(2, vec(I('u8'))), ('tuple', [vec(I('u8')), arr(2, I('u8'))]),
         ('map', True, I('u8'), STR), ('map', False, I('u8'), STR), ('map', True, I('u8'), ('wrap', STR)), ('map', True, I('u16'), STR)],
        # scalars and wrappers
        [I('u8'), ('wrap', I('u8')), ('wrap', ('wrap', I('u8'))), ('char',), ('bool',), I('i8'), ('enum', 1, 'u8'), ('enum', 3, 'u8'),
         ('f32',), ('f64',), STR, ('str', 1, 2), ('wrap', STR)],
        # optional / result / variant
        [('opt', I('u8')), ('opt', ('wrap', I('u8'))), ('opt', I('i8')), ('opt', vec(STR)), ('opt', arr(2, STR)),
         ('result', 2, 'i32', I('u8')), ('result', 2, 'i32', ('wrap', I('u8'))), ('result', 1, 'u8', I('u8')),
         ('variant', [I('u8'), STR]), ('variant', [('wrap', I('u8')), STR]), ('variant', [I('u8')]), ('variant', [STR, I('u8')]),
         ('variant', [vec(I('i16')), ('pair', STR, STR)]), ('variant', [arr(2, I('i16')), ('tuple', [STR, STR])])],
        # structures and tables
        [S1, S1b, ('struct', [I('u8'), STR, I('u8')]), ('struct', [STR, I('u8')]), ('tuple', [I('u8'), STR]),
         ('struct', [S1, vec(S1)]), ('struct', [S1b, arr(2, S1)]),
         ('table', 5, [(1, 'a', I('u8')), (2, 'a', vec(STR))]), ('table', 5, [(1, 'a', ('wrap', I('u8'))), (2, 'a', arr(2, STR))]),
         ('table', 6, [(1, 'a', I('u8')), (2, 'a', vec(STR))]), ('table', 5, [(1, 'a', I('u8')), (3, 'a', vec(STR))]),
         ('table', 5, [(1, 'a', I('u8')), (2, 'd', vec(STR))]), ('table', 5, [(2, 'a', vec(STR)), (1, 'a', I('u8'))]),
         ('table', 5, [(1, 'a', I('u8'))])],
        # table entries holding an integral sequence in its fungible forms: the entry's declared size is Size() of
        # the form being written, so re-encoding under the other form exercises that form's Size()
        [('table', 7, [(1, 'a', ('struct', [vec(I('u32'))])), (2, 'a', I('u8'))]),
         ('table', 7, [(1, 'a', ('struct', [lbuf(120, 'u8', I('u32'))])), (2, 'a', I('u8'))]),
         ('table', 7, [(1, 'a', ('struct', [lbuf(120, 'u64', I('u32'), 'carray')])), (2, 'a', ('wrap', I('u8')))]),
         ('table', 7, [(1, 'a', ('struct', [vec(I('i16'))])), (2, 'a', I('u8'))]),
         ('table', 7, [(1, 'a', ('struct', [lbuf(70, 'i8', I('i16'))])), (2, 'a', I('u8'))])],
        # value wrappers around C arrays (the extent is part of the type: no decay to a pointer)
        [('wrap', carr(4, ('f32',))), ('wrap', carr(3, ('f32',))), arr(4, ('f32',)), arr(3, ('f32',)), vec(('f32',)),
         ('struct', [carr(3, ('f32',))]), ('wrap', carr(3, I('i32'))), vec(I('i32')), arr(3, I('i32'))],
        # ... and a non-integral sequence (ARRAY container): a partly filled logical buffer must size itself by the
        # elements in use
        [('table', 8, [(1, 'a', ('struct', [vec(STR)])), (2, 'a', I('u8'))]),
         ('table', 8, [(1, 'a', ('struct', [lbuf(4, 'u8', STR)])), (2, 'a', I('u8'))]),
         ('table', 8, [(1, 'a', ('struct', [lbuf(6, 'u32', STR, 'carray')])), (2, 'a', ('wrap', I('u8')))])],
    ]
    terms, pairs = [], []
    ranges = []
    for fam in fams:
        base = len(terms)
        terms += fam
        ranges.append((base, len(fam)))
        for a in range(len(fam)):
            for b in range(len(fam)):
                pairs.append((base + a, base + b, 'family'))
    seen = {(a, b) for (a, b, _) in pairs}
    n = 0
    while n < 120:
        a, b = rng.randrange(len(terms)), rng.randrange(len(terms))
        if (a, b) not in seen:
            seen.add((a, b)); pairs.append((a, b, 'cross')); n += 1
    return terms, pairs


def pool_r():
    """RPC pool (C14): for method k, type 2k is the argument tuple and 2k+1 the return type"""
    S = ('struct', [I('u8'), STR])
    methods = [
        ([I('i32'), I('i32')], I('i64')),
        ([STR], I('u32')),
        ([vec(I('i32')), STR], vec(STR)),
        ([], STR),
        ([S, ('opt', I('i8'))], S),
        ([('table', 5, [(1, 'a', I('u8')), (2, 'a', vec(STR))])], ('bool',)),
        ([('variant', [I('i32'), STR])], ('result', 2, 'i32', I('u8'))),
        ([('map', True, I('u8'), STR)], ('tuple', [I('u8'), STR])),
        ([('pair', I('u8'), I('i32')), arr(2, I('u16'))], vec(I('u16'))),
        ([I('i32')], I('i32')),
        ([STR, I('u8')], STR),
    ]
    terms = []
    for (args, ret) in methods:
        terms.append(('tuple', args))
        terms.append(ret)
    return terms


if __name__ == '__main__':
    import sys
    name, out = sys.argv[1], sys.argv[2]
    if name == 'a':
        terms = pool_a() + pool_random(20260929, 20)
    elif name == 'h':
        terms = pool_h()
    elif name in ('x', 'f'):
        terms = []
    elif name == 'r':
        terms = pool_r()
    else:
        terms = pool_random(int(sys.argv[3]), int(sys.argv[4]))
    pairs = None
    if name == 'x':
        terms, pairs = pool_x()
    if name == 'f':
        terms, pairs = pool_f()
    es = emit_header(name, terms, out, pairs)
    print('%d types' % len(es))
