// Codec engine of the correspondence harness.
//
// For every type of the compiled pool shard it generates values, drives the *shipped*
// readers and writers of /repo/include through Serializer / Deserializer and prints
//   M <op>        an operation for the Lean model driver (same line protocol),
//   I <result>    what the implementation did for the preceding M line,
//   X <kind> ...  a property violation observed directly on the implementation,
//   S <key> <n>   statistics for the evidence file.
// Compile with -DPOOL_HEADER="\"pools/pool_a.h\"" -DPOOL_NS=pool_a -DNSHARD=n -DSHARD=k.
#include <cstdio>
#include <cstdlib>
#include <new>
#include <set>
#include <stdexcept>
#include <memory>
#include <thread>

#include "support/common.h"
#include "support/gen.h"
#include "support/io.h"
#include "support/val.h"
#include POOL_HEADER

using namespace nopv;
namespace pool = POOL_NS;

// ---- allocation accounting (global operator new) -----------------------------------
namespace nopv {
AllocStats& alloc_stats() { static AllocStats s; return s; }
}
void* operator new(std::size_t n) {
  AllocStats& a = alloc_stats();
  if (a.active) {
    a.total += n;
    if (n > a.max_single) a.max_single = n;
    if (n > a.limit || a.total > a.limit) { a.over_limit = true; throw std::bad_alloc(); }
  }
  void* p = std::malloc(n ? n : 1);
  if (!p) throw std::bad_alloc();
  return p;
}
void operator delete(void* p) noexcept { std::free(p); }
void operator delete(void* p, std::size_t) noexcept { std::free(p); }

// ---- output -----------------------------------------------------------------------------
struct Ctx {
  std::string mode;
  std::uint64_t seed = 1;
  bool thorough = false;
  int nvalues = 24;
  std::string out;
  std::map<std::string, long long> stats;
  void line(char tag, const std::string& s) {
    out.push_back(tag); out.push_back(' '); out += s; out.push_back('\n');
    if (out.size() > (1u << 20)) flush();
  }
  void flush() { std::fwrite(out.data(), 1, out.size(), stdout); out.clear(); }
  void stat(const std::string& k, long long n = 1) { stats[k] += n; }
};

static std::string join(const std::vector<long long>& v) {
  if (v.empty()) return "-";
  std::string s;
  for (std::size_t i = 0; i < v.size(); i++) { if (i) s += ','; s += std::to_string(v[i]); }
  return s;
}

// ---- writers ------------------------------------------------------------------------------
enum WK { W_BUF, W_PED, W_STREAM, W_FD, W_BOUNDED, W_CONSTEXPR, W_PTR, W_UPTR, W_COUNT };
static const char* wk_name[] = {"buf", "ped", "stream", "fd", "bounded", "constexpr", "buf-via-pointer", "buf-via-unique_ptr"};

struct WResult {
  bool ok = false;
  nop::ErrorStatus err = nop::ErrorStatus::None;
  std::vector<std::uint8_t> bytes;   // bytes produced (buffer writers: the first size() bytes)
  std::size_t reported = 0;          // writer.size() where available
  bool guard_ok = true;
  std::vector<long long> pushed;
};

static const std::size_t kGuard = 32;

template <typename W, typename T>
WResult write_buffer_like(const T& v, std::size_t cap, const std::vector<nop::Status<nop::HandleReference>>& script) {
  WResult r;
  std::vector<std::uint8_t> buf(cap + kGuard, 0xA5);
  HandleOut chan; chan.script = script;
  nop::Serializer<HW<W>> ser{buf.data(), cap};
  ser.writer().chan = &chan;
  auto st = ser.Write(v);
  r.ok = static_cast<bool>(st); r.err = st.error();
  r.reported = ser.writer().size();
  for (std::size_t i = cap; i < cap + kGuard; i++) if (buf[i] != 0xA5) r.guard_ok = false;
  std::size_t n = r.reported <= cap ? r.reported : cap;
  r.bytes.assign(buf.begin(), buf.begin() + n);
  r.pushed = chan.pushed;
  return r;
}

// the Serializer<Writer*> and Serializer<std::unique_ptr<Writer>> forms over a buffer writer
template <typename T>
WResult write_indirect(bool unique, const T& v, std::size_t cap, const std::vector<nop::Status<nop::HandleReference>>& script) {
  WResult r;
  std::vector<std::uint8_t> buf(cap + kGuard, 0xA5);
  HandleOut chan; chan.script = script;
  nop::Status<void> st;
  if (unique) {
    auto w = std::make_unique<HW<nop::BufferWriter>>(buf.data(), cap);
    w->chan = &chan;
    nop::Serializer<std::unique_ptr<HW<nop::BufferWriter>>> ser{std::move(w)};
    st = ser.Write(v);
    r.reported = ser.writer().size();
  } else {
    HW<nop::BufferWriter> w{buf.data(), cap};
    w.chan = &chan;
    nop::Serializer<HW<nop::BufferWriter>*> ser{&w};
    st = ser.Write(v);
    r.reported = w.size();
  }
  r.ok = static_cast<bool>(st); r.err = st.error();
  for (std::size_t i = cap; i < cap + kGuard; i++) if (buf[i] != 0xA5) r.guard_ok = false;
  std::size_t n = r.reported <= cap ? r.reported : cap;
  r.bytes.assign(buf.begin(), buf.begin() + n);
  r.pushed = chan.pushed;
  return r;
}

template <typename T>
WResult write_bounded(const T& v, std::size_t limit, std::size_t inner_cap,
                      const std::vector<nop::Status<nop::HandleReference>>& script) {
  WResult r;
  std::vector<std::uint8_t> buf(inner_cap + kGuard, 0xA5);
  HandleOut chan; chan.script = script;
  HW<nop::BufferWriter> inner{buf.data(), inner_cap};
  inner.chan = &chan;
  nop::Serializer<nop::BoundedWriter<HW<nop::BufferWriter>>> ser{&inner, limit};
  auto st = ser.Write(v);
  r.ok = static_cast<bool>(st); r.err = st.error();
  r.reported = inner.size();
  for (std::size_t i = inner_cap; i < inner_cap + kGuard; i++) if (buf[i] != 0xA5) r.guard_ok = false;
  std::size_t n = r.reported <= inner_cap ? r.reported : inner_cap;
  r.bytes.assign(buf.begin(), buf.begin() + n);
  r.pushed = chan.pushed;
  return r;
}

template <typename T>
WResult write_stream(const T& v, const std::vector<nop::Status<nop::HandleReference>>& script) {
  WResult r;
  HandleOut chan; chan.script = script;
  nop::Serializer<HW<nop::StreamWriter<std::stringstream>>> ser;
  ser.writer().chan = &chan;
  auto st = ser.Write(v);
  r.ok = static_cast<bool>(st); r.err = st.error();
  std::string s = ser.writer().stream().str();
  r.bytes.assign(s.begin(), s.end());
  r.reported = r.bytes.size();
  r.pushed = chan.pushed;
  return r;
}

template <typename T>
WResult write_fd(const T& v, const std::vector<nop::Status<nop::HandleReference>>& script) {
  WResult r;
  HandleOut chan; chan.script = script;
  int fd = make_memfd();
  {
    nop::Serializer<HW<nop::FdWriter>> ser{dup(fd)};
    ser.writer().chan = &chan;
    auto st = ser.Write(v);
    r.ok = static_cast<bool>(st); r.err = st.error();
  }
  off_t n = lseek(fd, 0, SEEK_END);
  r.bytes.resize(static_cast<std::size_t>(n));
  if (n > 0 && pread(fd, r.bytes.data(), static_cast<std::size_t>(n), 0) != n) r.ok = false;
  close(fd);
  r.reported = r.bytes.size();
  r.pushed = chan.pushed;
  return r;
}

template <typename P, typename T>
WResult write_kind(int wk, const T& v, std::size_t cap, const std::vector<nop::Status<nop::HandleReference>>& script) {
  current_input() = std::string("write type=") + P::sexp + " writer=" + wk_name[wk] + " capacity=" + std::to_string(cap) + " (value: see the preceding operations of this type)";
  switch (wk) {
    case W_BUF: return write_buffer_like<nop::BufferWriter>(v, cap, script);
    case W_PED: return write_buffer_like<nop::PedanticBufferWriter>(v, cap, script);
    case W_STREAM: return write_stream(v, script);
    case W_FD:
      if constexpr (!P::has_table) return write_fd(v, script);
      break;
    case W_BOUNDED: return write_bounded(v, cap, cap, script);
    case W_PTR: return write_indirect(false, v, cap, script);
    case W_UPTR: return write_indirect(true, v, cap, script);
    case W_CONSTEXPR:
      if constexpr (P::constexpr_ok) return write_buffer_like<nop::ConstexprBufferWriter>(v, cap, script);
      break;
  }
  return WResult{};
}
template <typename P>
bool writer_supported(int wk) {
  if (wk == W_FD) return !P::has_table;
  if (wk == W_CONSTEXPR) return P::constexpr_ok;
  return true;
}

// ---- readers ------------------------------------------------------------------------------
struct RResult {
  bool ok = false;
  nop::ErrorStatus err = nop::ErrorStatus::None;
  std::size_t consumed = 0;
  std::string text;  // "ok <val> <consumed>" | "err <Status>" | "exc <what>"
};

template <typename T>
void finish(RResult& r, const nop::Status<void>& st, const T& dest, std::size_t consumed) {
  r.ok = static_cast<bool>(st); r.err = st.error(); r.consumed = consumed;
  if (r.ok) r.text = "ok " + dump_str(dest, true) + " " + std::to_string(consumed);
  else r.text = std::string("err ") + status_name(r.err);
}

// reader token -> decode `bytes` into `dest`; tokens: buf ped stream fd b:<limit>:buf
template <typename P, typename T>
RResult read_kind(const std::string& rk, const std::vector<std::uint8_t>& bytes, T& dest,
                  const std::vector<long long>& handles) {
  RResult r;
  HandleIn chan; chan.table = handles;
  current_input() = std::string("read type=") + P::sexp + " reader=" + rk + " bytes=" + hex(bytes);
  try {
    if (rk == "buf") {
      Heap h(bytes);
      nop::Deserializer<HR<nop::BufferReader>> de{h.p, h.n};
      de.reader().chan = &chan;
      auto st = de.Read(&dest);
      finish(r, st, dest, h.n - de.reader().remaining());
    } else if (rk == "ped") {
      Heap h(bytes);
      nop::Deserializer<HR<nop::PedanticBufferReader>> de{h.p, h.n};
      de.reader().chan = &chan;
      auto st = de.Read(&dest);
      finish(r, st, dest, h.n - de.reader().remaining());
    } else if (rk == "stream") {
      nop::Deserializer<HR<nop::StreamReader<std::stringstream>>> de{
          std::string(bytes.begin(), bytes.end())};
      de.reader().chan = &chan;
      auto st = de.Read(&dest);
      std::size_t pos = 0;
      if (st) { de.reader().stream().clear(); pos = static_cast<std::size_t>(de.reader().stream().tellg()); }
      finish(r, st, dest, pos);
    } else if (rk == "fd") {
      if constexpr (!P::has_table) {
        int fd = make_memfd();
        if (!bytes.empty() && write(fd, bytes.data(), bytes.size()) != static_cast<ssize_t>(bytes.size())) std::abort();
        lseek(fd, 0, SEEK_SET);
        std::size_t pos = 0;
        nop::Status<void> st;
        {
          nop::Deserializer<HR<nop::FdReader>> de{dup(fd)};
          de.reader().chan = &chan;
          st = de.Read(&dest);
          pos = static_cast<std::size_t>(lseek(fd, 0, SEEK_CUR));
        }
        close(fd);
        finish(r, st, dest, pos);
      }
    } else if (rk == "fdpipe") {
      // an FdReader on a pipe whose writer delivers the bytes in small pieces
      if constexpr (!P::has_table) {
        int fds[2];
        if (pipe(fds) != 0) std::abort();
        std::uint64_t seed = bytes.size() * 2654435761u + 17;
        std::thread feeder([&bytes, fds, seed]() mutable {
          std::size_t at = 0;
          while (at < bytes.size()) {
            seed = seed * 6364136223846793005ULL + 1442695040888963407ULL;
            std::size_t n = 1 + static_cast<std::size_t>((seed >> 33) % 7);
            if (n > bytes.size() - at) n = bytes.size() - at;
            ssize_t w = write(fds[1], bytes.data() + at, n);
            if (w <= 0) break;
            at += static_cast<std::size_t>(w);
            if ((seed >> 20) % 3 == 0) std::this_thread::yield();
          }
          close(fds[1]);
        });
        nop::Status<void> st;
        std::size_t left = 0;
        {
          nop::Deserializer<HR<nop::FdReader>> de{fds[0]};
          de.reader().chan = &chan;
          nopv::short_read_fd() = fds[0];     // every read(2) on the pipe is a short one
          st = de.Read(&dest);
          nopv::short_read_fd() = -1;
          // what the reader did not consume is still in the pipe
          std::uint8_t tmp[256];
          feeder.join();
          for (;;) { ssize_t n = read(fds[0], tmp, sizeof(tmp)); if (n <= 0) break; left += static_cast<std::size_t>(n); }
        }
        finish(r, st, dest, bytes.size() - left);
      }
    } else if (rk == "ptr" || rk == "uptr") {
      Heap h(bytes);
      if (rk == "ptr") {
        HR<nop::BufferReader> inner{h.p, h.n};
        inner.chan = &chan;
        nop::Deserializer<HR<nop::BufferReader>*> de{&inner};
        auto st = de.Read(&dest);
        finish(r, st, dest, h.n - inner.remaining());
      } else {
        auto inner = std::make_unique<HR<nop::BufferReader>>(h.p, h.n);
        inner->chan = &chan;
        nop::Deserializer<std::unique_ptr<HR<nop::BufferReader>>> de{std::move(inner)};
        auto st = de.Read(&dest);
        finish(r, st, dest, h.n - de.reader().remaining());
      }
    } else if (rk.rfind("b:", 0) == 0 && rk.size() > 7 && rk.compare(rk.size() - 7, 7, ":stream") == 0) {
      // BoundedReader over a StreamReader: the wrapped reader's Ensure never refuses, the budget is the only guard
      std::size_t limit = std::strtoull(rk.c_str() + 2, nullptr, 10);
      HR<nop::StreamReader<std::stringstream>> inner{std::string(bytes.begin(), bytes.end())};
      inner.chan = &chan;
      nop::Deserializer<nop::BoundedReader<HR<nop::StreamReader<std::stringstream>>>> de{&inner, limit};
      auto st = de.Read(&dest);
      std::size_t pos = 0;
      if (st) { inner.stream().clear(); pos = static_cast<std::size_t>(inner.stream().tellg()); }
      finish(r, st, dest, pos);
    } else if (rk.rfind("b:", 0) == 0) {
      std::size_t limit = std::strtoull(rk.c_str() + 2, nullptr, 10);
      Heap h(bytes);
      HR<nop::BufferReader> inner{h.p, h.n};
      inner.chan = &chan;
      nop::Deserializer<nop::BoundedReader<HR<nop::BufferReader>>> de{&inner, limit};
      auto st = de.Read(&dest);
      finish(r, st, dest, h.n - inner.remaining());
    } else {
      std::abort();
    }
  } catch (const std::bad_alloc&) {
    r.ok = false; r.text = "exc bad_alloc";
  } catch (const std::length_error&) {
    r.ok = false; r.text = "exc length_error";
  }
  return r;
}

// ---- per-type driver -------------------------------------------------------------------
template <int I>
struct TypeRunner {
  using P = pool::PoolType<I>;
  using T = typename P::type;
  Ctx& c;
  Rng rng;
  std::string tid = std::to_string(I);
  explicit TypeRunner(Ctx& ctx) : c(ctx), rng(ctx.seed * 1000003ULL + static_cast<std::uint64_t>(I) * 7919ULL) {}

  std::vector<std::string> readers(std::size_t len, bool fd_ok = true) {
    std::vector<std::string> rs = {"buf", "ped", "stream", "ptr", "uptr"};
    if (!P::has_table && fd_ok && len <= 4096) { rs.push_back("fd"); if (len <= 600) rs.push_back("fdpipe"); }
    rs.push_back("b:" + std::to_string(len) + ":buf");
    return rs;
  }

  // Encode with every supported writer; cross-check; returns the BufferWriter result.
  WResult encode_all(const T& v, const std::vector<nop::Status<nop::HandleReference>>& script, bool cross = true) {
    nop::Serializer<nop::BufferWriter*> sizer;
    const std::size_t size = sizer.GetSize(v);
    WResult ref = write_kind<P>(W_BUF, v, size, script);
    if (!ref.guard_ok) c.line('X', "C06 write-past-capacity type=" + tid + " writer=buf cap=" + std::to_string(size) + " val=" + dump_str(v, false));
    if (ref.ok && ref.bytes.size() > size)
      c.line('X', "C06 getsize-underestimates type=" + tid + " size=" + std::to_string(size) + " written=" + std::to_string(ref.bytes.size()) + " val=" + dump_str(v, false));
    if (ref.ok && !P::has_handle && ref.bytes.size() != size)
      c.line('X', "C06 getsize-not-exact type=" + tid + " size=" + std::to_string(size) + " written=" + std::to_string(ref.bytes.size()) + " val=" + dump_str(v, false));
    if (cross) {
      for (int wk = W_PED; wk < W_COUNT; wk++) {
        if (!writer_supported<P>(wk)) continue;
        if (wk == W_FD && size > 4096) continue;
        WResult o = write_kind<P>(wk, v, size, script);
        c.stat("writer_runs");
        if (o.ok != ref.ok || (o.ok && (o.bytes != ref.bytes || o.pushed != ref.pushed)) || (!o.ok && o.err != ref.err))
          c.line('X', std::string("C17 writers-differ type=") + tid + " writer=" + wk_name[wk] + " val=" + dump_str(v, false) +
                          " buf=" + (ref.ok ? hex(ref.bytes) : status_name(ref.err)) + " other=" + (o.ok ? hex(o.bytes) : status_name(o.err)));
      }
    }
    ref.reported = size;
    return ref;
  }

  std::string enc_result(const WResult& w) {
    if (!w.ok) return std::string("err ") + status_name(w.err);
    return "ok " + hex(w.bytes) + " " + std::to_string(w.reported) + " " + join(w.pushed);
  }

  // any_code: the input carries more than one injected defect (or is hostile), so that *which* error the
  // implementation reports depends on the order of its checks, which the properties leave open: the model
  // must reject too, the code is not compared
  void dec_lines(const std::string& rk, const std::vector<std::uint8_t>& bytes, const std::vector<long long>& handles,
                 RResult* out = nullptr, bool any_code = false) {
    T dest{};
    RResult r = read_kind<P>(rk, bytes, dest, handles);
    c.line('M', "dec " + tid + " " + rk + " " + hex(bytes) + " - " + join(handles));
    c.line('I', (any_code && !r.ok && r.text.rfind("err ", 0) == 0) ? std::string("err *") : r.text);
    c.stat("dec_ops");
    if (out) *out = r;
  }

  // ---- C01: round trip through every writer/reader pairing ----
  void mode_rt(const T& v) {
    WResult w = encode_all(v, {});
    if (!w.ok) {  // only logical buffers over capacity may be refused; the generator never makes those
      c.line('X', "C01 encode-failed type=" + tid + " status=" + status_name(w.err) + " val=" + dump_str(v, false));
      return;
    }
    const std::string want = dump_str(v, true);
    // every other writer paired with a reader: what it produced must read back to v as well
    for (int wk = W_PED; wk < W_COUNT; wk++) {
      if (!writer_supported<P>(wk)) continue;
      if (wk == W_FD && w.reported > 4096) continue;
      WResult o = write_kind<P>(wk, v, w.reported, {});
      if (o.ok && o.bytes == w.bytes) continue;   // identical bytes: covered by the reads below
      T dest{};
      RResult r = o.ok ? read_kind<P>("buf", o.bytes, dest, o.pushed) : RResult{};
      const std::string expect = "ok " + want + " " + std::to_string(o.bytes.size());
      if (!o.ok || r.text != expect)
        c.line('X', std::string("C01 roundtrip type=") + tid + " writer=" + wk_name[wk] + " reader=buf val=" + dump_str(v, false) +
                        " bytes=" + (o.ok ? hex(o.bytes) : status_name(o.err)) + " got=" + r.text);
    }
    for (const auto& rk : readers(w.bytes.size())) {
      RResult r;
      dec_lines(rk, w.bytes, w.pushed, &r);
      const std::string expect = "ok " + want + " " + std::to_string(w.bytes.size());
      if (r.text != expect)
        c.line('X', "C01 roundtrip type=" + tid + " reader=" + rk + " bytes=" + hex(w.bytes) + " want=" + want + " got=" + r.text);
    }
    c.stat("rt_values");
  }

  // several values back to back on one stream
  struct Box { T v{}; };  // std::vector<bool> is a different beast
  void mode_rt_seq(const std::vector<Box>& vs) {
    std::vector<std::uint8_t> all; std::vector<long long> pushed; std::vector<std::size_t> lens; std::vector<std::string> wants;
    for (const Box& bx : vs) {
      const T& v = bx.v;
      std::vector<nop::Status<nop::HandleReference>> script;
      // references continue numbering across values
      WResult probe = encode_all(v, {}, false);
      for (std::size_t i = 0; i < probe.pushed.size(); i++) script.push_back(static_cast<nop::HandleReference>(pushed.size() + i));
      WResult w = encode_all(v, script, false);
      if (!w.ok) return;
      all.insert(all.end(), w.bytes.begin(), w.bytes.end());
      pushed.insert(pushed.end(), w.pushed.begin(), w.pushed.end());
      lens.push_back(w.bytes.size()); wants.push_back(dump_str(v, true));
    }
    // the model sees the first value followed by trailing data
    dec_lines("buf", all, pushed);
    // implementation: read them all back from one reader of each kind
    HandleIn chan; chan.table = pushed;
    {
      Heap h(all);
      nop::Deserializer<HR<nop::BufferReader>> de{h.p, h.n};
      de.reader().chan = &chan;
      std::size_t pos = 0;
      for (std::size_t i = 0; i < vs.size(); i++) {
        T dest{};
        auto st = de.Read(&dest);
        pos += lens[i];
        std::size_t at = h.n - de.reader().remaining();
        if (!st || dump_str(dest, true) != wants[i] || at != pos) {
          c.line('X', "C01 stream-sequence type=" + tid + " reader=buf index=" + std::to_string(i) + " bytes=" + hex(all) + " want=" + wants[i] +
                          " got=" + (st ? dump_str(dest, true) : status_name(st.error())) + " at=" + std::to_string(at));
          break;
        }
      }
    }
    {
      nop::Deserializer<HR<nop::StreamReader<std::stringstream>>> de{std::string(all.begin(), all.end())};
      de.reader().chan = &chan;
      for (std::size_t i = 0; i < vs.size(); i++) {
        T dest{};
        auto st = de.Read(&dest);
        if (!st || dump_str(dest, true) != wants[i]) {
          c.line('X', "C01 stream-sequence type=" + tid + " reader=stream index=" + std::to_string(i) + " bytes=" + hex(all) + " want=" + wants[i]);
          break;
        }
      }
    }
    c.stat("rt_sequences");
  }

  // ---- C03: bytes are exactly the model's; same object twice gives the same bytes ----
  void mode_bytes(const T& v) {
    std::vector<nop::Status<nop::HandleReference>> script;
    std::string refs = "-";
    if (P::has_handle) {
      WResult probe = encode_all(v, {}, false);
      refs.clear();
      for (std::size_t i = 0; i < probe.pushed.size(); i++) {
        static const long long pool_refs[] = {0, 1, -1, 127, 128, -64, -65, 300, 70000, 5000000000LL, INT64_MAX, INT64_MIN, -129};
        long long ref = pool_refs[rng.below(sizeof(pool_refs) / sizeof(pool_refs[0]))];
        script.push_back(static_cast<nop::HandleReference>(ref));
        if (i) refs += ',';
        refs += std::to_string(ref);
      }
      if (refs.empty()) refs = "-";
    }
    WResult w = encode_all(v, script);
    c.line('M', "enc " + tid + " " + dump_str(v, false) + " " + refs);
    c.line('I', enc_result(w));
    WResult again = write_kind<P>(W_BUF, v, w.reported, script);
    if (again.ok != w.ok || again.bytes != w.bytes)
      c.line('X', "C03 not-deterministic type=" + tid + " val=" + dump_str(v, false) + " first=" + hex(w.bytes) + " second=" + hex(again.bytes));
    c.stat("enc_ops");
  }

  // ---- C15: handles travel out of band intact ----
  void mode_handles(const T& v) {
    if constexpr (P::has_handle) {
      WResult probe = encode_all(v, {}, false);
      if (!probe.ok) return;
      const std::size_t nh = probe.pushed.size();
      c.stat("handles in value: " + std::to_string(nh > 4 ? 5 : nh) + (nh > 4 ? "+" : ""));
      static const nop::ErrorStatus errs[] = {nop::ErrorStatus::IOError, nop::ErrorStatus::InvalidHandleValue, nop::ErrorStatus::SystemError,
                                              nop::ErrorStatus::WriteLimitReached, nop::ErrorStatus::ProtocolError};
      // (1) the writer answers each PushHandle with an arbitrary reference, or fails one of them
      for (int round = 0; round < 2; round++) {
        std::vector<nop::Status<nop::HandleReference>> script;
        std::vector<long long> want_refs;
        std::string refs;
        const long long fail_at = (nh && round == 1) ? static_cast<long long>(rng.below(nh)) : -1;
        nop::ErrorStatus fe = errs[rng.below(sizeof(errs) / sizeof(errs[0]))];
        for (std::size_t i = 0; i < nh; i++) {
          if (i) refs += ',';
          if (static_cast<long long>(i) == fail_at) { script.push_back(fe); refs += status_name(fe); continue; }
          static const long long pool_refs[] = {0, 1, -1, 2, 127, 128, -64, -65, 300, 70000, 5000000000LL, INT64_MAX, INT64_MIN, -129};
          long long ref = rng.chance(60) ? pool_refs[rng.below(sizeof(pool_refs) / sizeof(pool_refs[0]))] : static_cast<long long>(rng.next());
          script.push_back(static_cast<nop::HandleReference>(ref));
          want_refs.push_back(ref);
          refs += std::to_string(ref);
        }
        if (refs.empty()) refs = "-";
        WResult w = encode_all(v, script);
        c.line('M', "enc " + tid + " " + dump_str(v, false) + " " + refs);
        c.line('I', enc_result(w));
        c.stat("enc_ops");
        if (fail_at < 0) {
          if (!w.ok || w.pushed != probe.pushed)
            c.line('X', "C15 push-order-or-count type=" + tid + " val=" + dump_str(v, false) + " pushed=" + join(w.pushed) + " expected=" + join(probe.pushed));
          else {
            // the references presented to GetHandle on read = the ones PushHandle returned, in order
            HandleIn chan; chan.echo = true;
            Heap h(w.bytes);
            nop::Deserializer<HR<nop::BufferReader>> de{h.p, h.n};
            de.reader().chan = &chan;
            T dest{};
            auto st = de.Read(&dest);
            if (!st || chan.seen != want_refs)
              c.line('X', "C15 reference-not-intact type=" + tid + " val=" + dump_str(v, false) + " returned-by-writer=" + join(want_refs) +
                              " presented-to-reader=" + join(chan.seen) + " status=" + (st ? "ok" : status_name(st.error())));
            c.stat("reference echo reads");
          }
        } else {
          std::vector<long long> upto(probe.pushed.begin(), probe.pushed.begin() + fail_at + 1);
          if (w.ok || w.err != fe || w.pushed != upto)
            c.line('X', "C15 push-error-not-returned type=" + tid + " val=" + dump_str(v, false) + " injected=" + status_name(fe) +
                            " returned=" + (w.ok ? "ok" : status_name(w.err)) + " pushed=" + join(w.pushed));
          c.stat("failing PushHandle");
        }
      }
      // (2) a resolution error is returned unchanged and stops the read
      for (std::size_t k = 0; k < nh && k < 6; k++) {
        nop::ErrorStatus fe = errs[rng.below(sizeof(errs) / sizeof(errs[0]))];
        HandleIn chan; chan.table = probe.pushed; chan.fail_at = static_cast<long long>(k); chan.fail_err = fe;
        Heap h(probe.bytes);
        nop::Deserializer<HR<nop::BufferReader>> de{h.p, h.n};
        de.reader().chan = &chan;
        T dest{};
        auto st = de.Read(&dest);
        if (st || st.error() != fe || chan.seen.size() != k + 1)
          c.line('X', "C15 resolution-error-changed type=" + tid + " call=" + std::to_string(k) + " injected=" + status_name(fe) +
                          " returned=" + (st ? "ok" : status_name(st.error())) + " resolutions=" + std::to_string(chan.seen.size()) + " bytes=" + hex(probe.bytes));
        c.stat("failing GetHandle");
      }
      // (3) handle tables that resolve only some of the references
      for (std::size_t cut : {static_cast<std::size_t>(0), nh / 2, nh}) {
        std::vector<long long> table(probe.pushed.begin(), probe.pushed.begin() + cut);
        dec_lines(rng.chance(50) ? "buf" : "b:" + std::to_string(probe.bytes.size()) + ":buf", probe.bytes, table);
      }
      // (4) corrupted type tags / references / everything else
      for (auto& m : mutations(probe.bytes, c.thorough ? 256 : 6)) {
        dec_lines("buf", m, probe.pushed);
        c.stat("mutants");
      }
    }
  }

  // ---- C05: every strict prefix is rejected by every reader ----
  void mode_cut(const T& v) {
    WResult w = encode_all(v, {}, false);
    if (!w.ok) return;
    const std::size_t len = w.bytes.size();
    std::vector<std::size_t> cuts;
    const std::size_t edge = c.thorough ? 300 : 40;      // every cut of encodings up to 2*edge+16 bytes
    if (len <= 2 * edge + 16) for (std::size_t k = 0; k < len; k++) cuts.push_back(k);
    else {
      for (std::size_t k = 0; k < edge; k++) cuts.push_back(k);
      for (std::size_t k = len - edge; k < len; k++) cuts.push_back(k);
      for (std::size_t j = 0; j < (c.thorough ? 200u : 16u); j++) cuts.push_back(edge + rng.below(len - 2 * edge));
    }
    for (std::size_t k : cuts) {
      std::vector<std::uint8_t> cut(w.bytes.begin(), w.bytes.begin() + k);
      std::vector<std::string> rs = readers(k, len <= 512);
      rs.push_back("b:" + std::to_string(len) + ":buf");   // budget for the whole message, data cut short
      for (const auto& rk : rs) {
        RResult r;
        dec_lines(rk, cut, w.pushed, &r);
        c.stat("cuts");
        if (r.ok)
          c.line('X', "C05 truncated-accepted type=" + tid + " reader=" + rk + " cut=" + std::to_string(k) + " of=" + std::to_string(len) +
                          " bytes=" + hex(w.bytes) + " got=" + r.text);
      }
    }
  }

  // capacities at which the run is also replayed on the writer model: all of them for small values, the
  // two ends and a sample otherwise (each replay line carries the whole value)
  bool tie_cap(std::size_t cap, std::size_t size) {
    if (size <= 96) return true;
    return cap < 8 || cap + 10 >= size || rng.chance(3);
  }

  // ---- C06: every capacity from 0 to GetSize+1, every buffer writer ----
  void mode_cap(const T& v) {
    nop::Serializer<nop::BufferWriter*> sizer;
    const std::size_t size = sizer.GetSize(v);
    WResult full = encode_all(v, {}, false);
    if (!full.ok) return;
    std::string cap_refs;
    for (std::size_t i = 0; i < full.pushed.size(); i++) { if (i) cap_refs += ','; cap_refs += std::to_string(i); }
    if (cap_refs.empty()) cap_refs = "-";
    c.line('M', "enc " + tid + " " + dump_str(v, false) + " " + cap_refs);
    c.line('I', enc_result(full));
    std::vector<std::size_t> caps;
    if (size <= 200 || (c.thorough && size <= 3000)) for (std::size_t k = 0; k <= size + 1; k++) caps.push_back(k);
    else {
      for (std::size_t k = 0; k < 24; k++) caps.push_back(k);
      for (std::size_t k = size - 24; k <= size + 1; k++) caps.push_back(k);
      for (int j = 0; j < 16; j++) caps.push_back(24 + rng.below(size - 48));
    }
    const int kinds[] = {W_BUF, W_PED, W_CONSTEXPR, W_BOUNDED, W_PTR, W_UPTR};
    for (std::size_t cap : caps) {
      for (int wk : kinds) {
        if (!writer_supported<P>(wk)) continue;
        WResult r = write_kind<P>(wk, v, cap, {});
        c.stat("cap_runs");
        bool want_ok = cap >= size;
        std::string why;
        if (!r.guard_ok) why = "wrote-beyond-end";
        else if (want_ok && !r.ok) why = std::string("refused-with-enough-room:") + status_name(r.err);
        else if (!want_ok && r.ok) why = "accepted-without-room";
        else if (!want_ok && r.err != nop::ErrorStatus::WriteLimitReached) why = std::string("wrong-status:") + status_name(r.err);
        else if (!want_ok && r.reported != 0) why = "bytes-written-after-failed-prepare:" + std::to_string(r.reported);
        else if (want_ok && r.bytes != full.bytes) why = "bytes-differ";
        if (!why.empty())
          c.line('X', std::string("C06 capacity type=") + tid + " writer=" + wk_name[wk] + " cap=" + std::to_string(cap) + " size=" + std::to_string(size) +
                          " why=" + why + " val=" + dump_str(v, false));
        if (wk == W_PED && tie_cap(cap, size)) {   // the call-level writer model (Snk with this capacity) against the checked writer
          c.line('M', "wcap " + tid + " " + std::to_string(cap) + " - " + dump_str(v, false) + " " + cap_refs);
          c.line('I', r.ok ? "ok " + hex(r.bytes) : std::string("err ") + status_name(r.err) + " " + std::to_string(r.reported));
        }
      }
      // BoundedWriter with a generous budget over a buffer of `cap` bytes
      {
        WResult r = write_bounded(v, size + 8, cap, {});
        if (tie_cap(cap, size)) {
          c.line('M', "wcap " + tid + " " + std::to_string(cap) + " " + std::to_string(size + 8) + " " + dump_str(v, false) + " " + cap_refs);
          c.line('I', r.ok ? "ok " + hex(r.bytes) : std::string("err ") + status_name(r.err) + " " + std::to_string(r.reported));
        }
        bool want_ok = cap >= size;
        if (!r.guard_ok || r.ok != want_ok || (!want_ok && r.reported != 0))
          c.line('X', "C06 capacity type=" + tid + " writer=bounded-over-small-buffer cap=" + std::to_string(cap) + " size=" + std::to_string(size) +
                          " val=" + dump_str(v, false));
      }
    }
  }

  // mutated / hostile inputs derived from a valid encoding
  std::vector<std::vector<std::uint8_t>> mutations(const std::vector<std::uint8_t>& e, int per_pos) {
    std::vector<std::vector<std::uint8_t>> out;
    static const std::uint8_t interesting[] = {0x00, 0x01, 0x02, 0x7f, 0x80, 0x81, 0x82, 0x83, 0x84, 0x85, 0x86, 0x87, 0x88, 0x89,
                                               0x8a, 0xb4, 0xb5, 0xb6, 0xb7, 0xb8, 0xb9, 0xba, 0xbb, 0xbc, 0xbd, 0xbe, 0xbf, 0xc0, 0xfe, 0xff};
    const std::size_t n = e.size();
    std::vector<std::size_t> pos;
    // every position of short encodings; the head and a sample of the rest of long ones (the set of
    // mutants is held in memory: bounded by ~limit * per_pos * n bytes)
    const std::size_t limit = c.thorough ? 160 : 48;
    if (n <= limit) for (std::size_t i = 0; i < n; i++) pos.push_back(i);
    else { for (std::size_t i = 0; i < limit / 2; i++) pos.push_back(i); for (std::size_t j = 0; j < limit / 2; j++) pos.push_back(limit / 2 + rng.below(n - limit / 2)); }
    if (per_pos >= 256 && n > 64) per_pos = 24;   // all 256 values only on short encodings
    for (std::size_t i : pos) {
      std::set<int> vals;
      vals.insert((e[i] + 1) & 0xff); vals.insert((e[i] + 0xff) & 0xff);
      if (per_pos >= 256) for (int b = 0; b < 256; b++) vals.insert(b);
      else for (int j = 0; j < per_pos; j++) vals.insert(interesting[rng.below(sizeof(interesting))]);
      vals.erase(e[i]);
      for (int b : vals) { auto m = e; m[i] = static_cast<std::uint8_t>(b); out.push_back(std::move(m)); }
      if (rng.chance(per_pos >= 256 ? 100 : 35)) {
        // inflate: a maximal integer of each class in place of byte i
        static const std::vector<std::vector<std::uint8_t>> infl = {
            {0x83, 0xff, 0xff, 0xff, 0xff, 0xff, 0xff, 0xff, 0xff}, {0x83, 0, 0, 0, 0, 0, 0, 0, 0x80}, {0x82, 0xff, 0xff, 0xff, 0xff},
            {0x82, 0xff, 0xff, 0xff, 0x7f}, {0x81, 0xff, 0xff}, {0x80, 0xff}, {0x87, 0xff, 0xff, 0xff, 0xff, 0xff, 0xff, 0xff, 0x7f},
            {0x83, 0, 0, 0, 0, 1, 0, 0, 0}};
        const auto& x = infl[rng.below(infl.size())];
        std::vector<std::uint8_t> m(e.begin(), e.begin() + i);
        m.insert(m.end(), x.begin(), x.end());
        m.insert(m.end(), e.begin() + i + 1, e.end());
        out.push_back(std::move(m));
      }
      if (rng.chance(15)) { auto m = e; m.erase(m.begin() + i); out.push_back(std::move(m)); }
      if (rng.chance(15)) { auto m = e; m.insert(m.begin() + i, e[i]); out.push_back(std::move(m)); }
    }
    for (int j = 0; j < 3; j++) {
      std::vector<std::uint8_t> m(rng.below(20));
      for (auto& b : m) b = rng.chance(50) ? interesting[rng.below(sizeof(interesting))] : static_cast<std::uint8_t>(rng.next());
      out.push_back(std::move(m));
    }
    return out;
  }

  // ---- C04: accept / reject / value / consumed / category on mutated inputs ----
  void mode_lang(const T& v) {
    WResult w = encode_all(v, {}, false);
    if (!w.ok) return;
    std::vector<long long> handles = w.pushed;
    // the bytes themselves, read into a destination that already holds another value: what is
    // decoded is what the bytes denote, nothing of the previous contents
    {
      T dest{}; fill(rng, dest, 0);
      const std::string prior_text = dump_str(dest, false);
      RResult r = read_kind<P>("buf", w.bytes, dest, handles);
      c.line('M', "dec " + tid + " buf " + hex(w.bytes) + " " + prior_text + " " + join(handles));
      c.line('I', r.text);
      c.stat("dec_ops");
    }
    for (auto& m : mutations(w.bytes, c.thorough ? 256 : 5)) {
      const char* rks[] = {"buf", "ped"};
      // a single injected defect = one byte of a valid encoding changed; everything else (inflated lengths,
      // insertions, deletions, random bytes) may break several rules at once
      bool single = m.size() == w.bytes.size();
      if (single) { std::size_t d = 0; for (std::size_t i = 0; i < m.size(); i++) d += m[i] != w.bytes[i]; single = d == 1; }
      c.stat(single ? "single-defect mutants" : "multi-defect mutants");
      dec_lines(rks[rng.below(2)], m, handles, nullptr, !single);
      if (rng.chance(30)) {
        std::size_t lim = rng.chance(50) ? m.size() : (rng.chance(50) ? w.bytes.size() : rng.below(m.size() + 3));
        dec_lines("b:" + std::to_string(lim) + ":buf", m, handles, nullptr, true);   // a budget is a second constraint
      }
      c.stat("mutants");
    }
  }

  // ---- C02: hostile input on bounded readers: no crash, bounded allocation, reusable destination ----
  void mode_hostile(const T& v, const T& other) {
    WResult w = encode_all(v, {}, false);
    WResult wo = encode_all(other, {}, false);
    if (!w.ok || !wo.ok) return;
    const std::string want_other = dump_str(other, true);
    for (auto& m : mutations(w.bytes, c.thorough ? 40 : 4)) {
      std::string rk = rng.chance(40) ? "buf" : (rng.chance(50) ? "ped" : "b:" + std::to_string(rng.chance(50) ? m.size() : rng.below(m.size() + 9)) + (rng.chance(35) ? ":stream" : ":buf"));
      T dest{};
      AllocStats& a = alloc_stats();
      const std::size_t bound = 64 * sizeof(T) * (m.size() + 1) + 4096 * (m.size() + 1);
      a = AllocStats{}; a.limit = bound; a.active = true;
      RResult r = read_kind<P>(rk, m, dest, w.pushed);
      a.active = false;
      c.line('M', "dec " + tid + " " + rk + " " + hex(m) + " - " + join(w.pushed));
      c.line('I', (!r.ok && r.text.rfind("err ", 0) == 0) ? std::string("err *") : r.text);   // C02 does not fix the code
      c.stat("hostile_inputs");
      if (a.over_limit || r.text.rfind("exc", 0) == 0)
        c.line('X', "C02 over-allocation type=" + tid + " reader=" + rk + " bytes=" + hex(m) + " requested=" + std::to_string(a.max_single) +
                        " total=" + std::to_string(a.total) + " bound=" + std::to_string(bound) + " result=" + r.text);
      // the destination must be inspectable, readable into again, and destructible
      std::string touched = dump_str(dest, true);
      (void)touched;
      RResult again = read_kind<P>("buf", wo.bytes, dest, wo.pushed);
      const std::string expect = "ok " + want_other + " " + std::to_string(wo.bytes.size());
      if (again.text != expect)
        c.line('X', "C02 destination-not-reusable type=" + tid + " after=" + hex(m) + " then=" + hex(wo.bytes) + " want=" + want_other + " got=" + again.text);
    }
  }

  // ---- C11: decoding into an object that already holds something ----
  void mode_prior(const T& v, const T& prior_val) {
    WResult w = encode_all(v, {}, false);
    if (!w.ok) return;
    std::vector<std::vector<std::uint8_t>> inputs;
    inputs.push_back(w.bytes);
    auto ms = mutations(w.bytes, 2);
    for (std::size_t j = 0; j < ms.size() && j < 6; j++) inputs.push_back(ms[rng.below(ms.size())]);
    for (const auto& in : inputs) {
      // priors: an assigned value, and that value after a read which failed at a random cut
      for (int how = 0; how < 3; how++) {
        T dest = prior_val;
        if (how >= 1) {
          WResult wp = encode_all(how == 1 ? v : prior_val, {}, false);
          if (!wp.ok || wp.bytes.empty()) continue;
          std::vector<std::uint8_t> cut(wp.bytes.begin(), wp.bytes.begin() + rng.below(wp.bytes.size()));
          read_kind<P>("buf", cut, dest, wp.pushed);
        }
        const std::string prior_text = dump_str(dest, false);
        RResult r = read_kind<P>("buf", in, dest, w.pushed);
        T fresh{};
        RResult f = read_kind<P>("buf", in, fresh, w.pushed);
        c.line('M', "dec " + tid + " buf " + hex(in) + " " + prior_text + " " + join(w.pushed));
        c.line('I', r.text);
        c.stat("prior_runs");
        if (r.text != f.text)
          c.line('X', "C11 prior-dependence type=" + tid + " bytes=" + hex(in) + " prior=" + prior_text + " into-prior=" + r.text + " into-fresh=" + f.text);
      }
    }
  }

  // ---- C10: fault at every primitive call ----
  void mode_fault(const T& v) {
    WResult w = encode_all(v, {}, false);
    if (!w.ok) return;
    static const nop::ErrorStatus errs[] = {nop::ErrorStatus::IOError, nop::ErrorStatus::StreamError, nop::ErrorStatus::ReadLimitReached,
                                            nop::ErrorStatus::WriteLimitReached, nop::ErrorStatus::SystemError, nop::ErrorStatus::ProtocolError};
    // reads
    HandleIn chan; chan.table = w.pushed;
    std::size_t ncalls = 0;
    {
      Trace t;
      Heap h(w.bytes);
      HR<nop::BufferReader> base{h.p, h.n}; base.chan = &chan;
      nop::Deserializer<InstrReader<HR<nop::BufferReader>>> de{base, &t};
      T dest{};
      auto st = de.Read(&dest);
      ncalls = t.calls;
      if (!st) c.line('X', "C10 clean-instrumented-read-failed type=" + tid + " bytes=" + hex(w.bytes));
    }
    for (std::size_t k = 0; k < ncalls; k++) {
      if (ncalls > 400 && !c.thorough && k > 100 && k + 100 < ncalls && !rng.chance(10)) continue;
      nop::ErrorStatus e = errs[rng.below(sizeof(errs) / sizeof(errs[0]))];
      Trace t; t.fault_at = static_cast<long long>(k); t.fault_err = e;
      Heap h(w.bytes);
      HR<nop::BufferReader> base{h.p, h.n}; base.chan = &chan;
      nop::Deserializer<InstrReader<HR<nop::BufferReader>>> de{base, &t};
      T dest{};
      auto st = de.Read(&dest);
      c.stat("read_faults");
      if (st || st.error() != e || t.calls_after_failure != 0)
        c.line('X', "C10 read-fault type=" + tid + " call=" + std::to_string(k) + " of=" + std::to_string(ncalls) + " injected=" + status_name(e) +
                        " returned=" + (st ? "ok" : status_name(st.error())) + " calls-after=" + std::to_string(t.calls_after_failure) + " bytes=" + hex(w.bytes));
      c.line('M', "fault r " + tid + " " + std::to_string(k) + " " + status_name(e) + " " + hex(w.bytes) + " " + join(w.pushed));
      c.line('I', std::string("err ") + (st ? "none" : status_name(st.error())) + " clean");
    }
    // writes
    std::size_t wcalls = 0;
    std::string wrefs;
    for (std::size_t i = 0; i < w.pushed.size(); i++) { if (i) wrefs += ','; wrefs += std::to_string(i); }
    if (wrefs.empty()) wrefs = "-";
    {
      WTrace t;
      std::vector<std::uint8_t> buf(w.reported + kGuard);
      HandleOut co;
      HW<nop::BufferWriter> base{buf.data(), w.reported}; base.chan = &co;
      nop::Serializer<InstrWriter<HW<nop::BufferWriter>>> ser{base, &t};
      auto st = ser.Write(v);
      wcalls = t.calls;
      if (!st) c.line('X', "C10 clean-instrumented-write-failed type=" + tid);
    }
    for (std::size_t k = 0; k < wcalls; k++) {
      if (wcalls > 400 && !c.thorough && k > 100 && k + 100 < wcalls && !rng.chance(10)) continue;
      nop::ErrorStatus e = errs[rng.below(sizeof(errs) / sizeof(errs[0]))];
      WTrace t; t.fault_at = static_cast<long long>(k); t.fault_err = e;
      std::vector<std::uint8_t> buf(w.reported + kGuard);
      HandleOut co;
      HW<nop::BufferWriter> base{buf.data(), w.reported}; base.chan = &co;
      nop::Serializer<InstrWriter<HW<nop::BufferWriter>>> ser{base, &t};
      auto st = ser.Write(v);
      c.stat("write_faults");
      if (st || st.error() != e || t.calls_after_failure != 0 || t.writes_after_failed_prepare != 0)
        c.line('X', "C10 write-fault type=" + tid + " call=" + std::to_string(k) + " of=" + std::to_string(wcalls) + " injected=" + status_name(e) +
                        " returned=" + (st ? "ok" : status_name(st.error())) + " calls-after=" + std::to_string(t.calls_after_failure) + " val=" + dump_str(v, false));
      c.line('M', "fault w " + tid + " " + std::to_string(k) + " " + status_name(e) + " " + dump_str(v, false) + " " + wrefs);
      c.line('I', std::string("err ") + (st ? "none" : status_name(st.error())) + " clean");
    }
  }

  void run() {
    c.line('M', "T " + tid + " " + P::sexp);
    const std::string& m = c.mode;
    for (int i = 0; i < c.nvalues; i++) {
      T v{}; fill(rng, v, 0);
      if (m == "rt") {
        mode_rt(v);
        if (i % 4 == 3) {
          std::vector<Box> vs(2 + rng.below(3));
          for (auto& x : vs) fill(rng, x.v, 1);
          mode_rt_seq(vs);
        }
      } else if (m == "bytes") mode_bytes(v);
      else if (m == "cut") mode_cut(v);
      else if (m == "cap") mode_cap(v);
      else if (m == "lang") mode_lang(v);
      else if (m == "hostile") { T o{}; fill(rng, o, 0); mode_hostile(v, o); }
      else if (m == "prior") { T p{}; fill(rng, p, 0); mode_prior(v, p); }
      else if (m == "fault") mode_fault(v);
      else if (m == "handles") mode_handles(v);
      else { std::fprintf(stderr, "unknown mode %s\n", m.c_str()); std::exit(2); }
      c.stat("values");
    }
    c.stat("types");
  }
};

template <int I>
void run_from(Ctx& c, int only) {
  if constexpr (I < pool::kPoolSize) {
    if constexpr (I % NSHARD == SHARD) {
      if (only < 0 || only == I) { TypeRunner<I> r(c); r.run(); }
    }
    run_from<I + 1>(c, only);
  }
}

#ifndef NOPV_NO_MAIN
int main(int argc, char** argv) {
  install_death_hooks();
  Ctx c;
  int only = -1;
  for (int i = 1; i < argc; i++) {
    std::string a = argv[i];
    if (a == "--mode" && i + 1 < argc) c.mode = argv[++i];
    else if (a == "--seed" && i + 1 < argc) c.seed = std::strtoull(argv[++i], nullptr, 10);
    else if (a == "--thorough") c.thorough = true;
    else if (a == "--values" && i + 1 < argc) c.nvalues = std::atoi(argv[++i]);
    else if (a == "--type" && i + 1 < argc) only = std::atoi(argv[++i]);
    else { std::fprintf(stderr, "bad arg %s\n", a.c_str()); return 2; }
  }
  run_from<0>(c, only);
  for (auto& kv : c.stats) c.line('S', kv.first + " " + std::to_string(kv.second));
  c.flush();
  return 0;
}
#endif  // NOPV_NO_MAIN
