// Lifetime-machine engine of the correspondence harness (C12, C13).
//   --mode life   operation histories over several interacting nop::Variant / Optional / Entry /
//                 Result objects living in raw storage, with element types that track their own
//                 lifetime; bounded-exhaustive (all histories up to a depth over a finite op
//                 alphabet) and random (long histories). Every history is sent to the model
//                 (`M life ...`) together with what the real objects did (`I ...`): per-operation
//                 observation, final state of every object, live elements, event log, misuse flag.
//   --mode cmp    the 18 Optional comparison operators on all operand-state pairs.
// Output protocol as in codec_main.cpp (M / I / X / S lines).
#include <array>
#include <cstdint>
#include <cstdio>
#include <functional>
#include <limits>
#include <cstdlib>
#include <cstring>
#include <map>
#include <new>
#include <string>
#include <tuple>
#include <type_traits>
#include <utility>
#include <vector>

#include <nop/table.h>
#include <nop/types/optional.h>
#include <nop/types/result.h>
#include <nop/types/variant.h>
#include <nop/types/handle.h>

struct Ctx {
  std::string mode;
  std::uint64_t seed = 1;
  bool thorough = false;
  unsigned shard = 0, nshard = 1;
  std::string out;
  std::map<std::string, long long> stats;
  void line(char tag, const std::string& s) { out.push_back(tag); out.push_back(' '); out += s; out.push_back('\n'); if (out.size() > (1u << 20)) flush(); }
  void flush() { std::fwrite(out.data(), 1, out.size(), stdout); out.clear(); }
  void stat(const std::string& k, long long n = 1) { stats[k] += n; }
};

struct Rng {
  std::uint64_t s;
  explicit Rng(std::uint64_t seed) : s(seed * 0x9e3779b97f4a7c15ULL + 0x1234567ULL) {}
  std::uint64_t next() {
    std::uint64_t z = (s += 0x9e3779b97f4a7c15ULL);
    z = (z ^ (z >> 30)) * 0xbf58476d1ce4e5b9ULL;
    z = (z ^ (z >> 27)) * 0x94d049bb133111ebULL;
    return z ^ (z >> 31);
  }
  std::uint64_t below(std::uint64_t n) { return n ? next() % n : 0; }
  bool chance(unsigned pct) { return below(100) < pct; }
};

// what is being executed, for the sanitizer death callback (so that a crash names its input)
static std::string g_current;
extern "C" void __sanitizer_set_death_callback(void (*callback)(void));
static void on_death() {
  std::string m = "\nCURRENT-INPUT: " + g_current + "\n";
  std::fwrite(m.data(), 1, m.size(), stderr);
  std::fflush(stderr);
}

extern "C" void __ubsan_on_report(void) { on_death(); }   // libubsan has its own runtime copy under g++

// ---- the tracked world ---------------------------------------------------------------------
namespace life {

constexpr int kSlots = 3;
constexpr std::size_t kSlotBytes = 128;

struct Boom {};

struct World {
  alignas(16) unsigned char buf[kSlots][kSlotBytes];
  bool throw_next = false;
  long next_id = 1;
  std::vector<long> live;
  std::string log;
  bool ub = false;
  bool in(const void* p) const {
    auto c = static_cast<const unsigned char*>(p);
    return c >= &buf[0][0] && c < &buf[0][0] + sizeof(buf);
  }
  void ev(char k, long id) { if (!log.empty()) log += ','; log += k; log += std::to_string(id); }
  void reset() { throw_next = false; next_id = 1; live.clear(); log.clear(); ub = false; std::memset(buf, 0xA5, sizeof(buf)); }
};
static World g;

template <int Tag> struct Mk { int v; };

// Element type that tracks its own lifetime when it lives inside a slot of the world;
// temporaries and locals (outside the slots) are inert.
template <int Tag>
struct Tr {
  int val;
  long id;
  Tr() : val(0), id(0) { born(); }
  Tr(const Mk<Tag>& m) : val(m.v), id(0) { born(); }  // NOLINT: implicit on purpose (converting assignment)
  Tr(const Tr& o) : val(o.val), id(0) { born(); }
  Tr(Tr&& o) : val(o.val), id(0) { born(); }
  Tr& operator=(const Tr& o) { val = o.val; touched(); return *this; }
  Tr& operator=(Tr&& o) { val = o.val; touched(); return *this; }
  ~Tr() { died(); }
  bool operator==(const Tr& o) const { return val == o.val; }
  bool operator<(const Tr& o) const { return val < o.val; }

 private:
  void born() {
    if (!g.in(this)) return;
    if (g.throw_next) { g.throw_next = false; throw Boom{}; }
    id = g.next_id++;
    g.live.push_back(id);
    g.ev('c', id);
  }
  void touched() { if (g.in(this)) g.ev('a', id); }
  void died() {
    if (!g.in(this)) return;
    bool found = false;
    for (std::size_t i = 0; i < g.live.size(); i++)
      if (g.live[i] == id) { g.live.erase(g.live.begin() + static_cast<long>(i)); found = true; break; }
    if (!found) g.ub = true;
    g.ev('d', id);
  }
};

template <typename T> struct Make;
template <int Tag> struct Make<Tr<Tag>> { static Tr<Tag> of(int x) { return Tr<Tag>(Mk<Tag>{x}); } };
template <> struct Make<int> { static int of(int x) { return x; } };

inline std::string elem(int alt, long id, int val) {
  return "(" + std::to_string(alt) + "," + std::to_string(id) + "," + std::to_string(val) + ")";
}
template <int Tag> std::string elem_of(int alt, const Tr<Tag>& t) { return elem(alt, t.id, t.val); }
inline std::string elem_of(int alt, const int& v) { return elem(alt, 0, v); }

struct Op {
  std::string name;
  int v = 0, src = 0, a = 0, x = 0, i = 0, e = 0;
  bool t = false;
  int how = 0;  // which C++ spelling of the same abstract operation
  std::string cv;  // conversion table (source alternative -> constructed alternative)
  std::string tok() const {
    auto S = [](long n) { return std::to_string(n); };
    const std::string& n = name;
    if (n == "mkE" || n == "aE" || n == "vis" || n == "del" || n == "has" || n == "err") return n + "." + S(v);
    if (n == "mkV" || n == "aV") return n + "." + S(v) + "." + S(a) + "." + S(x) + "." + S(t);
    if (n == "mkC" || n == "mkM" || n == "aC" || n == "aM" || n == "oM" || n == "rMC" || n == "rAC") return n + "." + S(v) + "." + S(src) + "." + S(t);
    if (n == "bc") return n + "." + S(v) + "." + S(i) + "." + S(t);
    if (n == "get") return n + "." + S(v) + "." + S(a);
    if (n == "rE" || n == "rAE") return n + "." + S(v) + "." + S(e);
    if (n == "xK" || n == "xA" || n == "xM") return n + "." + S(v) + "." + S(src) + "." + cv + "." + S(t);
    return "?";
  }
};

// ---- Variant kinds ---------------------------------------------------------------------------
// A kind has two object types: Main (even slots) and Other (odd slots; = Main when the kind has
// no second type). The model's alternatives are Main's followed by Other's.
template <typename T> struct AltInfo;
template <int Tag> struct AltInfo<Tr<Tag>> { static constexpr bool tracked = true; using Conv = Mk<Tag>; static int dom(int x) { return x; } };
template <> struct AltInfo<int> { static constexpr bool tracked = false; using Conv = short; static int dom(int x) { return x; } };
template <> struct AltInfo<bool> { static constexpr bool tracked = false; using Conv = bool; static int dom(int x) { return x & 1; } };
template <> struct AltInfo<short> { static constexpr bool tracked = false; using Conv = short; static int dom(int x) { return x; } };
template <int Tag> struct AltInfo<Mk<Tag>> { static constexpr bool tracked = false; using Conv = Mk<Tag>; static int dom(int x) { return x; } };
template <> struct Make<bool> { static bool of(int x) { return (x & 1) != 0; } };
template <> struct Make<short> { static short of(int x) { return static_cast<short>(x); } };
template <int Tag> struct Make<Mk<Tag>> { static Mk<Tag> of(int x) { return Mk<Tag>{x}; } };
inline std::string elem_of(int alt, const bool& v) { return elem(alt, 0, v ? 1 : 0); }
inline std::string elem_of(int alt, const short& v) { return elem(alt, 0, v); }
template <int Tag> std::string elem_of(int alt, const Mk<Tag>& m) { return elem(alt, 0, m.v); }

template <typename... Ts> struct TL { static constexpr int size = sizeof...(Ts); };

template <typename T, typename... Ts> struct IndexOf;
template <typename T, typename... Rest> struct IndexOf<T, T, Rest...> { static constexpr int value = 0; };
template <typename T, typename F, typename... Rest> struct IndexOf<T, F, Rest...> { static constexpr int value = 1 + IndexOf<T, Rest...>::value; };

// One object type of a kind: nop::Variant<Ts...> whose alternative j is the model's Base + j.
// ConvHow = true: the third spelling of value construction/assignment goes through a conversion.
template <int Base, bool ConvHow, typename... Ts>
struct VObj {
  using V = nop::Variant<Ts...>;
  static constexpr int n = sizeof...(Ts);
  template <std::size_t I> using Alt = std::tuple_element_t<I, std::tuple<Ts...>>;
  static V* at(int v) { return reinterpret_cast<V*>(g.buf[v]); }

  struct Show {
    std::string* out; int* calls;
    template <typename T> void operator()(const T& t) const { ++*calls; *out = elem_of(Base + IndexOf<T, Ts...>::value, t); }
    void operator()(nop::EmptyVariant) const { ++*calls; *out = "-"; }
  };
  static long widx(const V* p) { return p->index() < 0 ? p->index() : Base + p->index(); }
  static std::string state(int v) {
    std::string e; int calls = 0;
    static_cast<const V*>(at(v))->Visit(Show{&e, &calls});
    return std::to_string(widx(at(v))) + ":" + (e == "-" ? std::string("_") : e) + ":0";
  }
  static std::string idx(int v) { return "i" + std::to_string(widx(at(v))); }

  template <typename T> static void mkconv(V* p, int x, std::true_type) { new (p) V(Make<typename AltInfo<T>::Conv>::of(x)); }
  template <typename T> static void mkconv(V* p, int x, std::false_type) { T l = Make<T>::of(x); new (p) V(l); }
  template <typename T> static void asconv(V* p, int x, std::true_type) { *p = Make<typename AltInfo<T>::Conv>::of(x); }
  template <typename T> static void asconv(V* p, int x, std::false_type) { T l = Make<T>::of(x); *p = l; }
  template <std::size_t I> static void mk1(V* p, int x, int how) {
    using T = Alt<I>;
    if (how == 0) new (p) V(Make<T>::of(x));
    else if (how == 1) { T l = Make<T>::of(x); new (p) V(l); }
    else mkconv<T>(p, x, std::integral_constant<bool, ConvHow>{});
  }
  template <std::size_t I> static void as1(V* p, int x, int how) {
    using T = Alt<I>;
    if (how == 0) *p = Make<T>::of(x);
    else if (how == 1) { T l = Make<T>::of(x); *p = l; }
    else asconv<T>(p, x, std::integral_constant<bool, ConvHow>{});
  }
  template <std::size_t I> static void get1(V* p, Ctx& c, std::string* r) {
    using T = Alt<I>;
    if (auto* q = p->template get<T>()) *r = "g" + elem_of(Base + static_cast<int>(I), *q);
    const bool nn = *r != "g-";
    if ((p->template get<I>() != nullptr) != nn) c.line('X', "C12 get<I>-disagrees-with-get<T>");
    if ((static_cast<const V*>(p)->template get<T>() != nullptr) != nn) c.line('X', "C12 const-get-disagrees-with-get");
    if (p->template is<T>() != nn) c.line('X', "C12 is<T>-disagrees-with-get<T>");
    if (p->template index_of<T>() != static_cast<int>(I)) c.line('X', "C12 index_of<T>-wrong");
  }
  template <std::size_t... Is> static void mk(V* p, int a, int x, int how, std::index_sequence<Is...>) {
    int d[] = {0, (a == static_cast<int>(Is) ? (mk1<Is>(p, x, how), 0) : 0)...}; (void)d;
  }
  template <std::size_t... Is> static void as(V* p, int a, int x, int how, std::index_sequence<Is...>) {
    int d[] = {0, (a == static_cast<int>(Is) ? (as1<Is>(p, x, how), 0) : 0)...}; (void)d;
  }
  template <std::size_t... Is> static void get(V* p, int a, Ctx& c, std::string* r, std::index_sequence<Is...>) {
    int d[] = {0, (a == static_cast<int>(Is) ? (get1<Is>(p, c, r), 0) : 0)...}; (void)d;
  }
  template <std::size_t... Is> static void doms(int* out, int x, std::index_sequence<Is...>) {
    int d[] = {0, (out[Is] = AltInfo<Alt<Is>>::dom(x), 0)...}; (void)d;
  }
  template <std::size_t... Is> static int maskbits(std::index_sequence<Is...>) {
    int m = 0; int d[] = {0, (m |= (AltInfo<Alt<Is>>::tracked ? 1 : 0) << (Base + Is), 0)...}; (void)d; return m;
  }
  using Seq = std::make_index_sequence<sizeof...(Ts)>;

  // operations whose source (if any) has this same type
  static std::string exec(const Op& o, bool* exists, Ctx& c, int nworld) {
    V* p = at(o.v);
    const std::string& nm = o.name;
    if (nm == "mkE") {
      if (o.how == 0) new (p) V(); else new (p) V(nop::EmptyVariant{});
      exists[o.v] = true; return idx(o.v);
    }
    if (nm == "mkV") {
      try { mk(p, o.a - Base, o.x, o.how, Seq{}); }
      catch (const Boom&) { c.stat("life threw in constructor"); return "-"; }
      exists[o.v] = true; return idx(o.v);
    }
    if (nm == "mkC" || nm == "mkM") {
      try { if (nm == "mkC") new (p) V(*static_cast<const V*>(at(o.src))); else new (p) V(std::move(*at(o.src))); }
      catch (const Boom&) { c.stat("life threw in constructor"); return "-"; }
      exists[o.v] = true; return idx(o.v);
    }
    if (nm == "aV") {
      try { as(p, o.a - Base, o.x, o.how, Seq{}); } catch (const Boom&) { c.stat("life threw in assignment"); }
      return idx(o.v);
    }
    if (nm == "aC") { try { *p = *static_cast<const V*>(at(o.src)); } catch (const Boom&) { c.stat("life threw in assignment"); } return idx(o.v); }
    if (nm == "aM") { try { *p = std::move(*at(o.src)); } catch (const Boom&) { c.stat("life threw in assignment"); } return idx(o.v); }
    if (nm == "aE") { *p = nop::EmptyVariant{}; return idx(o.v); }
    if (nm == "bc") {
      // the model's index -> this type's index (out of range stays out of range)
      int real = (o.i >= Base && o.i < Base + n) ? o.i - Base : (o.i < 0 ? o.i : n + (o.i - nworld));
      try { p->Become(real); } catch (const Boom&) { c.stat("life threw in Become"); return "-"; }
      return idx(o.v);
    }
    if (nm == "vis") {
      std::string e; int calls = 0;
      if (o.how == 0) p->Visit(Show{&e, &calls}); else static_cast<const V*>(p)->Visit(Show{&e, &calls});
      if (calls != 1) c.line('X', "C12 Visit-called-the-visitor-" + std::to_string(calls) + "-times");
      return "v" + e;
    }
    if (nm == "get") {
      std::string r = "g-";
      get(p, o.a - Base, c, &r, Seq{});
      if (p->empty() != (p->index() == -1)) c.line('X', "C12 empty()-disagrees-with-index()");
      return r;
    }
    if (nm == "del") { p->~V(); std::memset(g.buf[o.v], 0xA5, kSlotBytes); exists[o.v] = false; return "-"; }
    return "?";
  }
};

template <typename U, typename... Ts> struct ConvTarget {
  // the single alternative of Ts... constructible from U
  static int index() {
    const bool ok[] = {std::is_constructible<Ts, const U&>::value...};
    int found = -1, cnt = 0;
    for (int i = 0; i < static_cast<int>(sizeof...(Ts)); i++) if (ok[i]) { if (found < 0) found = i; cnt++; }
    return cnt == 1 ? found : -1;
  }
};

template <bool ConvHow, typename MainList, typename OtherList> struct VariantKind;
template <bool ConvHow, typename... Ms, typename... Os>
struct VariantKind<ConvHow, TL<Ms...>, TL<Os...>> {
  static constexpr bool is_variant = true;
  static constexpr bool two = !std::is_same<TL<Ms...>, TL<Os...>>::value;
  static constexpr int nmain = sizeof...(Ms);
  static constexpr int n = two ? nmain + static_cast<int>(sizeof...(Os)) : nmain;
  using MainObj = VObj<0, ConvHow, Ms...>;
  using OtherObj = VObj<two ? nmain : 0, false, Os...>;
  static const int mask;
  static bool is_other(int v) { return two && (v % 2 == 1); }
  static std::string state(int v) { return is_other(v) ? OtherObj::state(v) : MainObj::state(v); }
  static std::string conv() {
    std::string s;
    const int t[] = {ConvTarget<Os, Ms...>::index()...};
    for (int w = 0; w < n; w++) {
      if (w) s += '_';
      s += std::to_string(w >= nmain && t[w - nmain] >= 0 ? t[w - nmain] : n);
    }
    return s;
  }
  static std::string exec(const Op& o, bool* exists, Ctx& c) {
    if (o.name == "xK" || o.name == "xA") {
      typename MainObj::V* p = MainObj::at(o.v);
      typename OtherObj::V* q = OtherObj::at(o.src);
      if (o.name == "xK") {
        try { if (o.how == 0) new (p) typename MainObj::V(*static_cast<const typename OtherObj::V*>(q)); else new (p) typename MainObj::V(std::move(*q)); }
        catch (const Boom&) { c.stat("life threw in constructor"); return "-"; }
        exists[o.v] = true; return MainObj::idx(o.v);
      }
      try { if (o.how == 0) *p = *static_cast<const typename OtherObj::V*>(q); else *p = std::move(*q); }
      catch (const Boom&) { c.stat("life threw in assignment"); }
      return MainObj::idx(o.v);
    }
    return is_other(o.v) ? OtherObj::exec(o, exists, c, n) : MainObj::exec(o, exists, c, n);
  }
  static void alphabet(const bool* exists, int k, bool full, std::vector<Op>& out) {
    int dm[16];
    for (int v = 0; v < k; v++) {
      const bool oth = is_other(v);
      const int base = oth ? nmain : 0, cnt = oth ? static_cast<int>(sizeof...(Os)) : nmain;
      if (!exists[v]) {
        out.push_back(Op{"mkE", v});
        for (int a = 0; a < cnt; a++)
          for (int t = 0; t < 2; t++) { Op o{"mkV", v}; o.a = base + a; o.x = 5 + a; o.t = t; out.push_back(o); }
        for (int s = 0; s < k; s++)
          if (s != v && exists[s] && is_other(s) == oth)
            for (int t = 0; t < 2; t++) {
              Op o{"mkC", v}; o.src = s; o.t = t; out.push_back(o);
              if (full || t == 0) { Op m{"mkM", v}; m.src = s; m.t = t; out.push_back(m); }
            }
          else if (s != v && exists[s] && !oth && is_other(s))
            for (int t = 0; t < 2; t++) { Op o{"xK", v}; o.src = s; o.t = t; o.cv = conv(); out.push_back(o); }
      } else {
        for (int a = 0; a < cnt; a++)
          for (int t = 0; t < 2; t++) { Op o{"aV", v}; o.a = base + a; o.x = 7 + a; o.t = t; out.push_back(o); }
        for (int s = 0; s < k; s++)
          if (exists[s] && is_other(s) == oth)
            for (int t = 0; t < 2; t++) {
              Op o{"aC", v}; o.src = s; o.t = t; out.push_back(o);
              if (full || t == 0) { Op m{"aM", v}; m.src = s; m.t = t; out.push_back(m); }
            }
          else if (exists[s] && !oth && is_other(s))
            for (int t = 0; t < 2; t++) { Op o{"xA", v}; o.src = s; o.t = t; o.cv = conv(); out.push_back(o); }
        out.push_back(Op{"aE", v});
        if (!oth || full) {
          for (int i : {-2, -1, 0, 1, 2, 3, 4}) {
            int wi = i < 0 ? i : (i < cnt ? base + i : n + (i - cnt));
            for (int t = 0; t < 2; t++) { if (t == 1 && !(i >= 0 && i < cnt)) continue; Op o{"bc", v}; o.i = wi; o.t = t; out.push_back(o); }
          }
        }
        out.push_back(Op{"vis", v});
        if (full) for (int a = 0; a < cnt; a++) { Op o{"get", v}; o.a = base + a; out.push_back(o); }
        else { Op o{"get", v}; o.a = base + (cnt > 1 ? 1 : 0); out.push_back(o); }
        out.push_back(Op{"del", v});
      }
    }
    (void)dm;
    for (auto& o : out) fixdom(o);
  }
  static void vary(Op& o, Rng& r) {
    o.how = static_cast<int>(r.below(3));
    if (o.name == "mkE" || o.name == "vis" || o.name == "xK" || o.name == "xA") o.how = static_cast<int>(r.below(2));
    if (o.name == "mkV" || o.name == "aV") {
      int x = static_cast<int>(r.below(2000)) - 1000;
      int dm[16] = {0}, dofs[16] = {0};
      MainObj::doms(dm, x, typename MainObj::Seq{});
      OtherObj::doms(dofs, x, typename OtherObj::Seq{});
      o.x = (two && o.a >= nmain) ? dofs[o.a - nmain] : dm[o.a];
    }
    if (o.name == "bc" && r.chance(20)) { o.i = r.chance(50) ? -static_cast<int>(r.below(1000)) - 2 : n + static_cast<int>(r.below(1000)); o.t = false; }
  }
  static void fixdom(Op& o) {   // values of the fixed alphabet brought into the alternative's domain
    if (o.name == "mkV" || o.name == "aV") {
      int dm[16] = {0}, dofs[16] = {0};
      MainObj::doms(dm, o.x, typename MainObj::Seq{});
      OtherObj::doms(dofs, o.x, typename OtherObj::Seq{});
      o.x = (two && o.a >= nmain) ? dofs[o.a - nmain] : dm[o.a];
    }
  }
};
template <bool ConvHow, typename... Ms, typename... Os>
const int VariantKind<ConvHow, TL<Ms...>, TL<Os...>>::mask =
    VariantKind<ConvHow, TL<Ms...>, TL<Os...>>::MainObj::maskbits(std::make_index_sequence<sizeof...(Ms)>{}) |
    (VariantKind<ConvHow, TL<Ms...>, TL<Os...>>::two ? VariantKind<ConvHow, TL<Ms...>, TL<Os...>>::OtherObj::maskbits(std::make_index_sequence<sizeof...(Os)>{}) : 0);

// ---- Optional<T> / Entry<T, Id> ---------------------------------------------------------------
// Main = O_ (even slots, the model's alternative 0); Other = OU (odd slots, alternative 1) when
// the kind has a second Optional type whose value converts to T.
template <typename O, typename T, int Alt>
struct OObj {
  static O* at(int v) { return reinterpret_cast<O*>(g.buf[v]); }
  static std::string state(int v) {
    const O* p = at(v);
    return p->empty() ? std::string("-1:_:0") : std::to_string(Alt) + ":" + elem_of(Alt, p->get()) + ":0";
  }
  static std::string idx(int v) { return at(v)->empty() ? "i-1" : "i" + std::to_string(Alt); }
  static std::string exec(const Op& o, bool* exists, Ctx& c) {
    O* p = at(o.v);
    const std::string& n = o.name;
    if (n == "mkE") { new (p) O(); exists[o.v] = true; return idx(o.v); }
    if (n == "mkV") {   // (Storage's forwarding constructor is noexcept: no throwing here)
      if (o.how == 0) new (p) O(Make<T>::of(o.x)); else { T l = Make<T>::of(o.x); new (p) O(l); }
      exists[o.v] = true; return idx(o.v);
    }
    if (n == "mkC" || n == "mkM") {
      try { if (n == "mkC") new (p) O(*static_cast<const O*>(at(o.src))); else new (p) O(std::move(*at(o.src))); }
      catch (const Boom&) { c.stat("life threw in constructor"); return "-"; }
      exists[o.v] = true; return idx(o.v);
    }
    if (n == "aV") {
      try { if (o.how == 0) *p = Make<T>::of(o.x); else { T l = Make<T>::of(o.x); *p = l; } }
      catch (const Boom&) { c.stat("life threw in assignment"); }
      return idx(o.v);
    }
    if (n == "rAC") { try { *p = *static_cast<const O*>(at(o.src)); } catch (const Boom&) { c.stat("life threw in assignment"); } return idx(o.v); }
    if (n == "oM") { try { *p = std::move(*at(o.src)); } catch (const Boom&) { c.stat("life threw in assignment"); } return idx(o.v); }
    if (n == "aE") { p->clear(); return idx(o.v); }
    if (n == "has") {
      bool h = !p->empty();
      if (static_cast<bool>(*p) != h) c.line('X', "C13 operator-bool-disagrees-with-empty()");
      return h ? "f1" : "f0";
    }
    if (n == "get") {   // only generated when engaged (get()/take() on an empty Optional is outside the contract)
      if (o.how == 0) return "g" + elem_of(Alt, static_cast<const O*>(p)->get());
      if (o.how == 1) return "g" + elem_of(Alt, p->get());
      T moved = p->take(); (void)moved;
      return "g" + elem_of(Alt, p->get());
    }
    if (n == "del") { p->~O(); std::memset(g.buf[o.v], 0xA5, kSlotBytes); exists[o.v] = false; return "-"; }
    return "?";
  }
};

template <typename O_, typename T, int Mask, typename OU = O_, typename U = T>
struct OptionalKind {
  static constexpr bool is_variant = false;
  static constexpr bool two = !std::is_same<O_, OU>::value;
  static constexpr int n = two ? 2 : 1;
  static constexpr int mask = Mask;
  using MainObj = OObj<O_, T, 0>;
  using OtherObj = OObj<OU, U, two ? 1 : 0>;
  static bool is_other(int v) { return two && (v % 2 == 1); }
  static std::string state(int v) { return is_other(v) ? OtherObj::state(v) : MainObj::state(v); }
  static bool engaged(int v) { return is_other(v) ? !OtherObj::at(v)->empty() : !MainObj::at(v)->empty(); }
  template <bool Two = two>
  static std::enable_if_t<Two, std::string> cross(const Op& o, Ctx& c) {
    O_* p = MainObj::at(o.v);
    OU* q = OtherObj::at(o.src);
    try { if (o.name == "xA") *p = *static_cast<const OU*>(q); else *p = std::move(*q); }
    catch (const Boom&) { c.stat("life threw in assignment"); }
    return MainObj::idx(o.v);
  }
  template <bool Two = two>
  static std::enable_if_t<!Two, std::string> cross(const Op&, Ctx&) { return "?"; }
  static std::string exec(const Op& o, bool* exists, Ctx& c) {
    if (o.name == "xA" || o.name == "xM") return cross(o, c);
    return is_other(o.v) ? OtherObj::exec(o, exists, c) : MainObj::exec(o, exists, c);
  }
  static void alphabet(const bool* exists, int k, bool full, std::vector<Op>& out) {
    for (int v = 0; v < k; v++) {
      const bool oth = is_other(v);
      const bool tracked = !oth && Mask != 0;
      const int alt = oth ? 1 : 0;
      if (!exists[v]) {
        out.push_back(Op{"mkE", v});
        { Op o{"mkV", v}; o.a = alt; o.x = 5; out.push_back(o); }
        for (int s = 0; s < k; s++)
          if (s != v && exists[s] && is_other(s) == oth)
            for (int t = 0; t < (tracked ? 2 : 1); t++) {
              Op o{"mkC", v}; o.src = s; o.t = t; out.push_back(o);
              Op m{"mkM", v}; m.src = s; m.t = t; out.push_back(m);
            }
      } else {
        for (int t = 0; t < (tracked ? 2 : 1); t++) { Op o{"aV", v}; o.a = alt; o.x = 7; o.t = t; out.push_back(o); }
        for (int s = 0; s < k; s++)
          if (exists[s] && is_other(s) == oth)
            for (int t = 0; t < (tracked ? 2 : 1); t++) {
              Op o{"rAC", v}; o.src = s; o.t = t; out.push_back(o);
              Op m{"oM", v}; m.src = s; m.t = t; out.push_back(m);
            }
          else if (exists[s] && !oth && is_other(s))
            for (int t = 0; t < (tracked ? 2 : 1); t++) {
              Op o{"xA", v}; o.src = s; o.t = t; o.cv = "2_0"; out.push_back(o);
              Op m{"xM", v}; m.src = s; m.t = t; m.cv = "2_0"; out.push_back(m);
            }
        out.push_back(Op{"aE", v});
        out.push_back(Op{"has", v});
        if (engaged(v)) { Op o{"get", v}; o.a = alt; out.push_back(o); }
        out.push_back(Op{"del", v});
      }
    }
    (void)full;
  }
  static void vary(Op& o, Rng& r) {
    o.how = static_cast<int>(r.below(o.name == "get" ? 3 : 2));
    if (o.name == "mkV" || o.name == "aV") o.x = static_cast<int>(r.below(2000)) - 1000;
  }
};

// ---- Result<E, T> ------------------------------------------------------------------------------
enum class E : int { None = 0, A = 1, B = 2, C = 3 };

template <typename T, int Mask>
struct ResultKind {
  using R = nop::Result<E, T>;
  static constexpr bool is_variant = false;
  static constexpr int n = 1;
  static constexpr int mask = Mask;
  static R* at(int v) { return reinterpret_cast<R*>(g.buf[v]); }
  static std::string state(int v) {
    const R* p = at(v);
    if (p->has_value()) return "0:" + elem_of(0, p->get()) + ":0";
    return "-1:_:" + std::to_string(static_cast<int>(p->error()));
  }
  static std::string idx(int v) { return at(v)->has_value() ? "i0" : "i-1"; }
  static std::string exec(const Op& o, bool* exists, Ctx& c) {
    R* p = at(o.v);
    const std::string& n = o.name;
    if (n == "mkE") { new (p) R(); exists[o.v] = true; return idx(o.v); }
    if (n == "mkV") {
      try { if (o.how == 0) new (p) R(Make<T>::of(o.x)); else { T l = Make<T>::of(o.x); new (p) R(l); } }
      catch (const Boom&) { c.stat("life threw in constructor"); return "-"; }
      exists[o.v] = true; return idx(o.v);
    }
    if (n == "mkC" || n == "rMC") {
      try { if (n == "mkC") new (p) R(*static_cast<const R*>(at(o.src))); else new (p) R(std::move(*at(o.src))); }
      catch (const Boom&) { c.stat("life threw in constructor"); return "-"; }
      exists[o.v] = true; return idx(o.v);
    }
    if (n == "rE") { new (p) R(static_cast<E>(o.e)); exists[o.v] = true; return idx(o.v); }
    if (n == "aV") {
      try { if (o.how == 0) *p = Make<T>::of(o.x); else { T l = Make<T>::of(o.x); *p = l; } }
      catch (const Boom&) { c.stat("life threw in assignment"); }
      return idx(o.v);
    }
    if (n == "rAC") { try { *p = *static_cast<const R*>(at(o.src)); } catch (const Boom&) { c.stat("life threw in assignment"); } return idx(o.v); }
    if (n == "oM") { try { *p = std::move(*at(o.src)); } catch (const Boom&) { c.stat("life threw in assignment"); } return idx(o.v); }
    if (n == "rAE") { *p = static_cast<E>(o.e); return idx(o.v); }
    if (n == "aE") { p->clear(); return idx(o.v); }
    if (n == "has") {
      bool h = p->has_value();
      if (static_cast<bool>(*p) != h) c.line('X', "C13 operator bool disagrees with has_value()");
      return h ? "f1" : "f0";
    }
    if (n == "err") {
      // exactly one of empty / value / error: the error state carries an error, the others report none
      const bool he = p->has_error(), hv = p->has_value();
      const int code = static_cast<int>(p->error());
      if (he && hv) c.line('X', "C13 result-both-value-and-error");
      if (he && code == 0) c.line('X', "C13 error-state-without-an-error-code");
      if (!he && code != 0) c.line('X', "C13 error-code-outside-the-error-state code=" + std::to_string(code));
      return std::string("e") + (he ? "1" : "0") + ":" + std::to_string(code);
    }
    if (n == "get") {
      if (o.how == 0) return "g" + elem_of(0, static_cast<const R*>(p)->get());
      if (o.how == 1) return "g" + elem_of(0, p->get());
      T moved = p->take(); (void)moved;
      return "g" + elem_of(0, p->get());
    }
    if (n == "del") { p->~R(); std::memset(g.buf[o.v], 0xA5, kSlotBytes); exists[o.v] = false; return "-"; }
    return "?";
  }
  static void alphabet(const bool* exists, int k, bool full, std::vector<Op>& out) {
    const bool tracked = Mask != 0;
    const int T2 = tracked ? 2 : 1;
    for (int v = 0; v < k; v++) {
      if (!exists[v]) {
        out.push_back(Op{"mkE", v});
        for (int t = 0; t < T2; t++) { Op o{"mkV", v}; o.x = 5; o.t = t; out.push_back(o); }
        for (int e : {0, 2}) { Op o{"rE", v}; o.e = e; out.push_back(o); }
        for (int s = 0; s < k; s++)
          if (s != v && exists[s])
            for (int t = 0; t < T2; t++) {
              Op o{"mkC", v}; o.src = s; o.t = t; out.push_back(o);
              Op m{"rMC", v}; m.src = s; m.t = t; out.push_back(m);
            }
      } else {
        for (int t = 0; t < T2; t++) { Op o{"aV", v}; o.x = 7; o.t = t; out.push_back(o); }
        for (int s = 0; s < k; s++)
          if (exists[s])
            for (int t = 0; t < T2; t++) {
              Op o{"rAC", v}; o.src = s; o.t = t; out.push_back(o);
              Op m{"oM", v}; m.src = s; m.t = t; out.push_back(m);
            }
        for (int e : {0, 3}) { Op o{"rAE", v}; o.e = e; out.push_back(o); }
        out.push_back(Op{"aE", v});
        out.push_back(Op{"has", v});
        out.push_back(Op{"err", v});
        if (at(v)->has_value()) { Op o{"get", v}; out.push_back(o); }
        out.push_back(Op{"del", v});
      }
    }
    (void)full;
  }
  static void vary(Op& o, Rng& r) {
    o.how = static_cast<int>(r.below(o.name == "get" ? 3 : 2));
    if (o.name == "mkV" || o.name == "aV") o.x = static_cast<int>(r.below(2000)) - 1000;
    if (o.name == "rE" || o.name == "rAE") o.e = static_cast<int>(r.below(4));
  }
};

// ---- running histories ---------------------------------------------------------------------------
template <typename K>
struct Runner {
  Ctx& c;
  const char* label;
  int k;
  bool exists[kSlots];
  std::vector<std::string> toks, obs;

  void begin() { g.reset(); for (bool& e : exists) e = false; toks.clear(); obs.clear(); }

  struct Probe { long idx = -1; bool has = false; long alt = 0, id = 0, val = 0, err = 0; };
  static Probe probe(int v) {
    Probe p;
    std::string s = K::state(v);
    long a = 0, b = 0, cc = 0, d = 0, e = 0;
    if (std::sscanf(s.c_str(), "%ld:(%ld,%ld,%ld):%ld", &a, &b, &cc, &d, &e) == 5) { p.idx = a; p.has = true; p.alt = b; p.id = cc; p.val = d; p.err = e; }
    else if (std::sscanf(s.c_str(), "%ld:_:%ld", &a, &e) == 2) { p.idx = a; p.err = e; }
    return p;
  }
  std::string history() const { std::string m; for (auto& t : toks) { m += ' '; m += t; } return m; }
  void fail(const std::string& what) {
    c.line('X', std::string(K::is_variant ? "C12 " : "C13 ") + what + " [" + label + "] after:" + history());
  }

  void apply(const Op& o) {
    if (toks.empty()) g_current = "life " + std::to_string(K::n) + " " + std::to_string(K::mask) + " " + std::to_string(k);
    g_current += ' '; g_current += o.tok();
    g.throw_next = o.t;
    std::string ob = K::exec(o, exists, c);
    const bool threw = o.t && !g.throw_next;
    g.throw_next = false;
    toks.push_back(o.tok());
    obs.push_back(ob);
    // the property's own clauses, checked on the real objects
    const std::string& n = o.name;
    if ((n == "mkV" || n == "aV") && !threw && exists[o.v] && probe(o.v).idx != o.a) fail("value-construction-selected-another-alternative");
    if ((n == "aC" || n == "rAC") && !threw && o.v != o.src) {
      Probe a = probe(o.v), b = probe(o.src);
      if (a.idx != b.idx || a.has != b.has || a.val != b.val || a.alt != b.alt || a.err != b.err) fail("copy-assignment-does-not-equal-its-source");
    }
    if ((n == "mkC") && exists[o.v]) {
      Probe a = probe(o.v), b = probe(o.src);
      if (a.idx != b.idx || a.has != b.has || a.val != b.val || a.alt != b.alt || a.err != b.err) fail("copy-does-not-equal-its-source");
    }
    if (n == "bc" && (o.i < 0 || o.i >= K::n) && probe(o.v).idx != -1) fail("Become-out-of-range-not-empty");
    if (n == "bc" && o.i >= 0 && o.i < K::n && !threw && probe(o.v).idx != o.i) fail("Become-did-not-select-the-alternative");
    if ((n == "oM" || n == "rMC" || n == "xM") && o.v != o.src && !threw && exists[o.v]) {
      Probe b = probe(o.src);
      if (b.idx != -1 || b.has || b.err != 0) fail("moved-from-object-not-empty");
    }
    if (n == "get" && K::is_variant) {
      Probe a = probe(o.v);
      if ((ob != "g-") != (a.idx == o.a)) fail("get-non-null-mismatch");
    }
    if ((n == "rAE" || n == "rE") && exists[o.v]) {
      Probe a = probe(o.v);
      if (a.idx != -1 || a.has || a.err != o.e) fail("error-assignment-not-reported");
    }
    if (n == "aE" && (probe(o.v).idx != -1 || probe(o.v).has || probe(o.v).err != 0)) fail("clear-did-not-empty");
    invariant();
  }

  // either empty with index -1, or exactly one alive element of the type the index names;
  // every live tracked element is owned by exactly one object and every owned one is live
  void invariant() {
    std::vector<long> owned;
    for (int v = 0; v < k; v++) {
      if (!exists[v]) continue;
      Probe p = probe(v);
      if ((p.idx == -1) == p.has) { fail("index-and-content-disagree"); return; }
      if (p.has && p.alt != p.idx) { fail("index-names-another-type"); return; }
      if (p.idx < -1 || p.idx >= K::n) { fail("index-out-of-range"); return; }
      if (p.has && p.id != 0) owned.push_back(p.id);
    }
    for (long id : owned) {
      int cnt = 0, lv = 0;
      for (long o2 : owned) cnt += o2 == id;
      for (long l : g.live) lv += l == id;
      if (cnt != 1) { fail("element-owned-twice"); return; }
      if (lv != 1) { fail("held-element-is-not-alive"); return; }
    }
    for (long l : g.live) {
      bool found = false;
      for (long o2 : owned) found = found || o2 == l;
      if (!found) { fail("element-leaked"); return; }
    }
    if (g.ub) { fail("destructor-ran-on-dead-element"); g.ub = false; ub_seen = true; }
  }
  bool ub_seen = false;
  void finish() {
    std::string m = "life " + std::to_string(K::n) + " " + std::to_string(K::mask) + " " + std::to_string(k);
    for (auto& t : toks) { m += ' '; m += t; }
    std::string i;
    for (std::size_t j = 0; j < obs.size(); j++) { if (j) i += ' '; i += obs[j]; }
    i += " |";
    for (int v = 0; v < k; v++) { i += ' '; i += exists[v] ? K::state(v) : std::string("-"); }
    std::string lv;
    for (long id : g.live) { if (!lv.empty()) lv += ','; lv += std::to_string(id); }
    i += " | live=" + (lv.empty() ? std::string("-") : lv) + " log=" + (g.log.empty() ? std::string("-") : g.log) + " ub=" + ((g.ub || ub_seen) ? "1" : "0");
    ub_seen = false;
    c.line('M', m);
    c.line('I', i);
    // leave no object behind (and check that this balances the books)
    for (int v = 0; v < k; v++) if (exists[v]) { Op d{"del", v}; K::exec(d, exists, c); }
    if (!g.live.empty()) fail("elements-alive-after-all-objects-destroyed");
    if (g.ub) fail("destructor-ran-on-dead-element");
    c.stat(std::string("life histories ") + label);
    c.stat(std::string("life operations ") + label, static_cast<long long>(toks.size()));
  }

  // all histories of exactly `depth` operations (every shorter history is a prefix of one)
  long long counter = 0;
  void exhaustive(std::vector<Op>& prefix, int depth) {
    if (static_cast<int>(prefix.size()) == depth) {
      if (counter++ % c.nshard != c.shard) return;
      begin();
      for (auto& o : prefix) apply(o);
      finish();
      return;
    }
    // replay the prefix to learn which operations are applicable next
    begin();
    for (auto& o : prefix) { g.throw_next = o.t; K::exec(o, exists, c); g.throw_next = false; }
    std::vector<Op> next;
    K::alphabet(exists, k, false, next);
    for (int v = 0; v < k; v++) if (exists[v]) { Op d{"del", v}; K::exec(d, exists, c); }
    for (auto& o : next) { prefix.push_back(o); exhaustive(prefix, depth); prefix.pop_back(); }
  }

  void random(Rng& r, int len) {
    begin();
    for (int j = 0; j < len; j++) {
      std::vector<Op> next;
      K::alphabet(exists, k, true, next);
      // bias: fewer destroys and throws so that objects live long enough to interact
      Op o;
      for (int tries = 0; tries < 4; tries++) {
        o = next[r.below(next.size())];
        if (o.name == "del" && !r.chance(25)) continue;
        if (o.t && !r.chance(50)) continue;
        break;
      }
      K::vary(o, r);
      apply(o);
    }
    finish();
  }
};

template <typename K>
void run_kind(Ctx& c, const char* label, int depth, int nrandom, int maxlen) {
  {
    Runner<K> r{c, label, 2};
    std::vector<Op> prefix;
    r.exhaustive(prefix, depth);
  }
  Rng rng(c.seed * 1000003ULL + c.shard * 7919ULL + std::hash<std::string>{}(label));
  Runner<K> r{c, label, kSlots};
  for (int j = 0; j < nrandom; j++) r.random(rng, 1 + static_cast<int>(rng.below(static_cast<std::uint64_t>(maxlen))));
}

}  // namespace life

static void mode_life(Ctx& c, const std::string& which) {
  using namespace life;
  const bool th = c.thorough;
  const int ns = static_cast<int>(c.nshard);
  if (which == "variant" || which == "all") {
    using A = Tr<0>; using B = Tr<1>;
    run_kind<VariantKind<true, TL<A, B, int>, TL<A, B, int>>>(c, "Variant<A,B,int>", th ? 4 : 3, (th ? 40000 : 1500) / ns + 1, 60);
    run_kind<VariantKind<false, TL<A, int, B>, TL<A, int, B>>>(c, "Variant<A,int,B>", th ? 3 : 2, (th ? 20000 : 600) / ns + 1, 60);
    run_kind<VariantKind<false, TL<int, A, B>, TL<int, A, B>>>(c, "Variant<int,A,B>", th ? 3 : 2, (th ? 20000 : 400) / ns + 1, 60);
    run_kind<VariantKind<false, TL<A, int, bool, B>, TL<A, int, bool, B>>>(c, "Variant<A,int,bool,B>", th ? 3 : 2, (th ? 20000 : 600) / ns + 1, 60);
    run_kind<VariantKind<true, TL<A>, TL<A>>>(c, "Variant<A>", th ? 4 : 3, (th ? 10000 : 200) / ns + 1, 40);
    run_kind<VariantKind<true, TL<int, A>, TL<int, A>>>(c, "Variant<int,A>", th ? 3 : 2, (th ? 10000 : 300) / ns + 1, 40);
    // a second Variant type whose elements convert to the first one's
    run_kind<VariantKind<true, TL<A, B, int>, TL<Mk<0>, short, Mk<1>>>>(c, "Variant<A,B,int><-Variant<MkA,short,MkB>", th ? 4 : 3, (th ? 30000 : 1000) / ns + 1, 60);
  }
  if (which == "optional" || which == "all") {
    run_kind<OptionalKind<nop::Optional<Tr<0>>, Tr<0>, 1>>(c, "Optional<Tr>", th ? 5 : 4, (th ? 20000 : 800) / ns + 1, 60);
    run_kind<OptionalKind<nop::Optional<int>, int, 0>>(c, "Optional<int>", th ? 5 : 3, (th ? 10000 : 300) / ns + 1, 40);
    run_kind<OptionalKind<nop::Entry<Tr<0>, 7>, Tr<0>, 1>>(c, "Entry<Tr,7>", th ? 5 : 3, (th ? 20000 : 800) / ns + 1, 60);
    run_kind<OptionalKind<nop::Optional<Tr<0>>, Tr<0>, 1, nop::Optional<Mk<0>>, Mk<0>>>(c, "Optional<Tr><-Optional<Mk>", th ? 5 : 4, (th ? 20000 : 800) / ns + 1, 60);
    run_kind<OptionalKind<nop::Entry<Tr<0>, 7>, Tr<0>, 1, nop::Entry<Mk<0>, 9>, Mk<0>>>(c, "Entry<Tr,7><-Entry<Mk,9>", th ? 4 : 3, (th ? 10000 : 400) / ns + 1, 60);
    run_kind<OptionalKind<nop::Optional<int>, int, 0, nop::Optional<short>, short>>(c, "Optional<int><-Optional<short>", th ? 4 : 3, (th ? 10000 : 300) / ns + 1, 40);
    run_kind<ResultKind<Tr<0>, 1>>(c, "Result<E,Tr>", th ? 4 : 3, (th ? 30000 : 1200) / ns + 1, 60);
    run_kind<ResultKind<int, 0>>(c, "Result<E,int>", th ? 4 : 3, (th ? 10000 : 300) / ns + 1, 40);
  }
}

// ---- UniqueHandle over a counting policy (C15) ---------------------------------------------------
namespace uh {
struct Books {
  std::vector<long> closed, released;
  long next = 0;
  void reset() { closed.clear(); released.clear(); next = 0; }
};
static Books bk;
struct CountingPolicy {
  using Type = int;
  static constexpr int Default() { return -1; }
  static bool IsValid(const int& v) { return v >= 0; }
  static void Close(int* v) { if (IsValid(*v)) bk.closed.push_back(*v); *v = -1; }
  static int Release(int* v) { int t = *v; *v = -1; if (t >= 0) bk.released.push_back(t); return t; }
  static constexpr std::uint64_t HandleType() { return 5; }
};
using UH = nop::UniqueHandle<CountingPolicy>;
constexpr int kSlots = 3;
alignas(16) static unsigned char buf[kSlots][32];
static UH* at(int v) { return reinterpret_cast<UH*>(buf[v]); }

struct Op { std::string name; int v = 0, src = 0;
  std::string tok() const { return (name == "mC" || name == "mA") ? name + "." + std::to_string(v) + "." + std::to_string(src) : name + "." + std::to_string(v); } };

struct Runner {
  Ctx& c;
  int k;
  bool exists[kSlots];
  std::vector<std::string> toks, obs;
  void begin() { bk.reset(); for (bool& e : exists) e = false; toks.clear(); obs.clear(); std::memset(buf, 0xA5, sizeof(buf)); }
  std::string exec(const Op& o) {
    UH* p = at(o.v);
    if (o.name == "mkE") { new (p) UH(); exists[o.v] = true; return std::to_string(p->get()); }
    if (o.name == "mkV") { new (p) UH(static_cast<int>(bk.next++)); exists[o.v] = true; return std::to_string(p->get()); }
    if (o.name == "mC") { new (p) UH(std::move(*at(o.src))); exists[o.v] = true; return std::to_string(p->get()); }
    if (o.name == "mA") { *p = std::move(*at(o.src)); return std::to_string(p->get()); }
    if (o.name == "cl") { p->close(); return std::to_string(p->get()); }
    if (o.name == "rl") { int r = p->release(); if (p->get() != -1) fail("release-left-a-value"); return std::to_string(r); }
    if (o.name == "del") { p->~UH(); std::memset(buf[o.v], 0xA5, sizeof(buf[o.v])); exists[o.v] = false; return "-"; }
    if (o.name == "get") { if (static_cast<bool>(*p) != (p->get() >= 0)) fail("bool-disagrees-with-get"); return std::to_string(p->get()); }
    return "?";
  }
  std::string history() const { std::string m; for (auto& t : toks) { m += ' '; m += t; } return m; }
  void fail(const std::string& what) { c.line('X', "C15 " + what + " after:" + history()); }
  void invariant() {
    auto count = [](const std::vector<long>& l, long x) { long n = 0; for (long y : l) n += y == x; return n; };
    for (long x = 0; x < bk.next; x++) {
      long owners = 0;
      for (int v = 0; v < k; v++) if (exists[v] && at(v)->get() == x) owners++;
      const long cl = count(bk.closed, x), rl = count(bk.released, x);
      if (cl > 1) { fail("resource-closed-twice"); return; }
      if (owners > 1) { fail("resource-owned-twice"); return; }
      if (cl && rl) { fail("released-resource-closed"); return; }
      if (cl && owners) { fail("owned-resource-already-closed"); return; }
      if (rl && owners) { fail("released-resource-still-owned"); return; }
      if (!cl && !rl && !owners) { fail("resource-lost-without-close"); return; }
    }
  }
  void apply(const Op& o) {
    if (toks.empty()) g_current = "uh " + std::to_string(k);
    g_current += ' '; g_current += o.tok();
    toks.push_back(o.tok());
    const bool closing = (o.name == "mA" && o.v != o.src) || o.name == "cl" || o.name == "del";
    const int owned_before = (closing && exists[o.v]) ? at(o.v)->get() : -1;
    const int src_before = ((o.name == "mA" || o.name == "mC") && o.v != o.src) ? at(o.src)->get() : -1;
    obs.push_back(exec(o));
    // closes what it owns on destruction, move-assignment over it, or close() - at that point
    if (owned_before >= 0) {
      long n = 0; for (long y : bk.closed) n += y == owned_before;
      if (n != 1) fail("owned-resource-not-closed-by-" + o.name);
    }
    if ((o.name == "mA" || o.name == "mC") && o.v != o.src) {
      if (at(o.v)->get() != src_before) fail("move-did-not-transfer-the-resource");
      if (at(o.src)->get() != -1) fail("moved-from-handle-not-empty");
    }
    invariant();
  }
  void alphabet(std::vector<Op>& out) {
    for (int v = 0; v < k; v++) {
      if (!exists[v]) {
        out.push_back(Op{"mkE", v}); out.push_back(Op{"mkV", v});
        for (int s = 0; s < k; s++) if (s != v && exists[s]) out.push_back(Op{"mC", v, s});
      } else {
        for (int s = 0; s < k; s++) if (exists[s]) out.push_back(Op{"mA", v, s});
        out.push_back(Op{"cl", v}); out.push_back(Op{"rl", v}); out.push_back(Op{"get", v}); out.push_back(Op{"del", v});
      }
    }
  }
  void finish() {
    std::string m = "uh " + std::to_string(k) + history();
    std::string i;
    for (std::size_t j = 0; j < obs.size(); j++) { if (j) i += ' '; i += obs[j]; }
    i += " |";
    for (int v = 0; v < k; v++) { i += ' '; i += exists[v] ? std::to_string(at(v)->get()) : std::string("-"); }
    auto join = [](const std::vector<long>& l) { std::string s; for (long x : l) { if (!s.empty()) s += ','; s += std::to_string(x); } return s.empty() ? std::string("-") : s; };
    i += " | closed=" + join(bk.closed) + " released=" + join(bk.released) + " next=" + std::to_string(bk.next);
    c.line('M', m);
    c.line('I', i);
    for (int v = 0; v < k; v++) if (exists[v]) { at(v)->~UH(); exists[v] = false; }
    invariant();   // with no object left: every resource closed exactly once or released
    c.stat("uh histories");
    c.stat("uh operations", static_cast<long long>(toks.size()));
  }
  long long counter = 0;
  void exhaustive(std::vector<Op>& prefix, int depth) {
    if (static_cast<int>(prefix.size()) == depth) {
      if (counter++ % c.nshard != c.shard) return;
      begin();
      for (auto& o : prefix) apply(o);
      finish();
      return;
    }
    begin();
    for (auto& o : prefix) exec(o);
    std::vector<Op> next;
    alphabet(next);
    for (int v = 0; v < k; v++) if (exists[v]) { at(v)->~UH(); exists[v] = false; }
    for (auto& o : next) { prefix.push_back(o); exhaustive(prefix, depth); prefix.pop_back(); }
  }
  void random(Rng& r, int len) {
    begin();
    for (int j = 0; j < len; j++) {
      std::vector<Op> next;
      alphabet(next);
      Op o;
      for (int tries = 0; tries < 4; tries++) {
        o = next[r.below(next.size())];
        if ((o.name == "del" || o.name == "cl" || o.name == "rl") && !r.chance(30)) continue;
        break;
      }
      apply(o);
    }
    finish();
  }
};
}  // namespace uh

static void mode_uh(Ctx& c) {
  {
    uh::Runner r{c, 2};
    std::vector<uh::Op> prefix;
    r.exhaustive(prefix, c.thorough ? 6 : 5);
  }
  {
    uh::Runner r{c, 3};
    std::vector<uh::Op> prefix;
    r.exhaustive(prefix, c.thorough ? 5 : 4);
  }
  Rng rng(c.seed * 1000003ULL + c.shard * 7919ULL + 15);
  uh::Runner r{c, uh::kSlots};
  const int n = (c.thorough ? 60000 : 3000) / static_cast<int>(c.nshard) + 1;
  for (int j = 0; j < n; j++) r.random(rng, 1 + static_cast<int>(rng.below(80)));
}

// ---- the 18 comparison operators ---------------------------------------------------------------
template <typename A, typename B>
static void cmp_six(Ctx& c, const char* pre, const std::string& sa, const std::string& sb, const A& a, const B& b) {
  auto emit = [&](const char* op, bool r) {
    c.line('M', std::string("cmp ") + pre + op + " " + sa + " " + sb);
    c.line('I', r ? "1" : "0");
    c.stat(std::string("cmp ") + pre + op);
  };
  emit("==", a == b); emit("!=", a != b); emit("<", a < b); emit(">", a > b); emit("<=", a <= b); emit(">=", a >= b);
}

static void mode_cmp(Ctx& c) {
  std::vector<long long> vals = {-2147483647LL - 1, -1000, -2, -1, 0, 1, 2, 3, 1000, 2147483647LL};
  Rng r(c.seed);
  for (int j = 0; j < (c.thorough ? 400 : 30); j++) vals.push_back(static_cast<int>(r.next()));
  using O = nop::Optional<int>;
  using OL = nop::Optional<long long>;
  auto name = [](long long v) { return std::to_string(v); };
  for (std::size_t i = 0; i <= vals.size(); i++)
    for (std::size_t j = 0; j <= vals.size(); j++) {
      const bool ea = i == vals.size(), eb = j == vals.size();
      O a = ea ? O{} : O{static_cast<int>(vals[i])};
      O b = eb ? O{} : O{static_cast<int>(vals[j])};
      const std::string sa = ea ? "e" : name(vals[i]), sb = eb ? "e" : name(vals[j]);
      cmp_six(c, "oo", sa, sb, a, b);
      // mixed element types (Optional<int> against Optional<long long>)
      OL bl = eb ? OL{} : OL{vals[j]};
      cmp_six(c, "oo", sa, sb, a, bl);
      if (!eb) { cmp_six(c, "ov", sa, sb, a, static_cast<int>(vals[j])); cmp_six(c, "ov", sa, sb, a, vals[j]); }
      if (!ea) { cmp_six(c, "vo", sa, sb, static_cast<int>(vals[i]), b); cmp_six(c, "vo", sa, sb, vals[i], b); }
    }
  // Entry<T, Id> inherits the same operators
  nop::Entry<int, 3> e1{4}, e2;
  cmp_six(c, "oo", "4", "e", static_cast<const nop::Optional<int>&>(e1), static_cast<const nop::Optional<int>&>(e2));
}

// Become(index, args...): the alternative named by the index is the one constructed from the arguments,
// whatever else the arguments could also construct (a pointer converts to bool and to std::string)
static void become_with_arguments(Ctx& c) {
  // (the arguments must be able to construct every alternative: the index is a run-time value)
  using V = nop::Variant<bool, std::string>;
  static const char* const kText = "a literal long enough to live on the heap, not in the small-string buffer";
  g_current = "Variant<bool,std::string>::Become(index, const char*)";
  auto check = [&](const char* what, V& v, int want) {
    c.stat("Become with arguments");
    if (v.index() != want) c.line('X', std::string("C12 Become-with-arguments-selected-another-alternative ") + what + " index=" + std::to_string(v.index()));
  };
  { V v; v.Become(0, kText); check("Become(0, const char*)", v, 0);
    if (v.is<bool>() && *v.get<bool>() != true) c.line('X', "C12 Become-with-arguments-wrong-value Become(0, const char*)"); }
  { V v{std::string("x")}; v.Become(0, kText); check("Become(0, const char*) over a string", v, 0);
    if (v.is<bool>() && *v.get<bool>() != true) c.line('X', "C12 Become-with-arguments-wrong-value Become(0, const char*) over a string"); }
  { V v; v.Become(1, kText); check("Become(1, const char*)", v, 1);
    if (v.is<std::string>() && *v.get<std::string>() != kText) c.line('X', "C12 Become-with-arguments-wrong-value Become(1, const char*)"); }
  { V v{true}; v.Become(1, kText); check("Become(1, const char*) over a bool", v, 1);
    if (v.is<std::string>() && *v.get<std::string>() != kText) c.line('X', "C12 Become-with-arguments-wrong-value Become(1, const char*) over a bool"); }
}

int main(int argc, char** argv) {
  Ctx c;
  std::string which = "all";
  for (int i = 1; i < argc; i++) {
    std::string a = argv[i];
    if (a == "--mode" && i + 1 < argc) c.mode = argv[++i];
    else if (a == "--seed" && i + 1 < argc) c.seed = std::strtoull(argv[++i], nullptr, 10);
    else if (a == "--thorough") c.thorough = true;
    else if (a == "--shard" && i + 1 < argc) c.shard = static_cast<unsigned>(std::atoi(argv[++i]));
    else if (a == "--nshard" && i + 1 < argc) c.nshard = static_cast<unsigned>(std::atoi(argv[++i]));
    else if (a == "--which" && i + 1 < argc) which = argv[++i];
  }
  __sanitizer_set_death_callback(on_death);
  if (c.mode == "life") {
    if (c.shard == 0 && which != "optional") become_with_arguments(c);
    mode_life(c, which);
  }
  else if (c.mode == "cmp") { if (c.shard == 0) mode_cmp(c); }
  else if (c.mode == "uh") mode_uh(c);
  else { std::fprintf(stderr, "unknown mode\n"); return 2; }
  for (auto& kv : c.stats) c.line('S', kv.first + " " + std::to_string(kv.second));
  c.flush();
  return 0;
}
