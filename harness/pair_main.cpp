// Type-pair engine of the correspondence harness: one type's encodings read as another type.
//   --mode xver    C07: (writer version, reader version) pairs of table definitions
//   --mode xcut    C05: every strict prefix of version A's encoding read as version B
//   --mode frame   C08: structural mutations of table framing (permuted / duplicated entries,
//                  changed hash, shrunk / grown declared sizes with and without padding,
//                  corrupted entry bytes) read by the same definition
//   --mode fung    C09: pairs (A, B): the IsFungible<A,B> trait vs the model's relation, and for
//                  fungible pairs A's encodings read as B and re-encoded
// Compile with -DPOOL_HEADER=... -DPOOL_NS=... -DNSHARD=n -DSHARD=k. Output protocol as in
// codec_main.cpp (which this file reuses for writers, readers, value generation and dumping).
#define NOPV_NO_MAIN
#include "codec_main.cpp"

#include <nop/traits/is_fungible.h>

namespace {

std::set<int> g_defined;
template <int I>
void define_type(Ctx& c) {
  if (g_defined.insert(I).second) c.line('M', "T " + std::to_string(I) + " " + pool::PoolType<I>::sexp);
}

// ---- minimal wire reader used to locate a top-level table's entries ------------------------
struct Cursor {
  const std::vector<std::uint8_t>& b;
  std::size_t i = 0;
  bool ok = true;
  std::uint64_t uint() {
    if (i >= b.size()) { ok = false; return 0; }
    std::uint8_t p = b[i++];
    if (p < 0x80) return p;
    int n = p == 0x80 ? 1 : p == 0x81 ? 2 : p == 0x82 ? 4 : p == 0x83 ? 8 : -1;
    if (n < 0 || i + static_cast<std::size_t>(n) > b.size()) { ok = false; return 0; }
    std::uint64_t v = 0;
    for (int k = 0; k < n; k++) v |= static_cast<std::uint64_t>(b[i + static_cast<std::size_t>(k)]) << (8 * k);
    i += static_cast<std::size_t>(n);
    return v;
  }
};
struct EntrySpan { std::size_t begin, size_at, payload, end; std::uint64_t id, size; };
struct TableLayout {
  bool ok = false;
  std::size_t hash_at = 0, hash_end = 0, count_at = 0, count_end = 0;
  std::uint64_t count = 0;
  std::vector<EntrySpan> entries;
};
TableLayout parse_table(const std::vector<std::uint8_t>& b) {
  TableLayout t;
  if (b.empty() || b[0] != 0xb5) return t;
  Cursor c{b, 1};
  t.hash_at = 1; c.uint(); t.hash_end = c.i;
  t.count_at = c.i; t.count = c.uint(); t.count_end = c.i;
  if (!c.ok) return t;
  for (std::uint64_t k = 0; k < t.count; k++) {
    EntrySpan e{};
    e.begin = c.i; e.id = c.uint(); e.size_at = c.i; e.size = c.uint(); e.payload = c.i;
    if (!c.ok || c.i + e.size > b.size()) return t;
    c.i += static_cast<std::size_t>(e.size); e.end = c.i;
    t.entries.push_back(e);
  }
  t.ok = c.i == b.size();
  return t;
}
std::vector<std::uint8_t> enc_uint(std::uint64_t v) {
  std::vector<std::uint8_t> o;
  if (v < 0x80) { o.push_back(static_cast<std::uint8_t>(v)); return o; }
  int n = v <= 0xff ? 1 : v <= 0xffff ? 2 : v <= 0xffffffffULL ? 4 : 8;
  o.push_back(static_cast<std::uint8_t>(n == 1 ? 0x80 : n == 2 ? 0x81 : n == 4 ? 0x82 : 0x83));
  for (int k = 0; k < n; k++) o.push_back(static_cast<std::uint8_t>(v >> (8 * k)));
  return o;
}
void append(std::vector<std::uint8_t>& o, const std::vector<std::uint8_t>& b, std::size_t from, std::size_t to) {
  o.insert(o.end(), b.begin() + static_cast<long>(from), b.begin() + static_cast<long>(to));
}

// ---- C07 ---------------------------------------------------------------------------------------
template <int K>
struct PairRunner {
  using PK = pool::PairAt<K>;
  using PA = pool::PoolType<PK::a>;
  using PB = pool::PoolType<PK::b>;
  using TA = typename PA::type;
  using TB = typename PB::type;
  Ctx& c;
  Rng rng;
  const std::string ta = std::to_string(PK::a), tb = std::to_string(PK::b);
  explicit PairRunner(Ctx& ctx) : c(ctx), rng(ctx.seed * 1000003ULL + static_cast<std::uint64_t>(K) * 7919ULL + 77) {}

  void xver() {
    define_type<PK::a>(c); define_type<PK::b>(c);
    for (int i = 0; i < c.nvalues; i++) {
      TA v{}; fill(rng, v, 0);
      nop::Serializer<nop::BufferWriter*> sizer;
      WResult w = write_kind<PA>(W_BUF, v, sizer.GetSize(v), {});
      if (!w.ok) { c.line('X', "C07 writer-failed pair=" + ta + "->" + tb + " val=" + dump_str(v, false)); continue; }
      std::vector<std::uint8_t> trailing = w.bytes;
      trailing.push_back(0xEE); trailing.push_back(0x01);
      struct Run { std::string rk; const std::vector<std::uint8_t>* in; };
      std::vector<Run> runs = {{"buf", &w.bytes}, {"stream", &w.bytes}, {"buf", &trailing}, {"ped", &trailing},
                               {"b:" + std::to_string(w.bytes.size()) + ":buf", &trailing}};
      for (auto& run : runs) {
        TB dest{};
        std::string prior = "-";
        if (rng.chance(40)) { fill(rng, dest, 0); prior = dump_str(dest, false); }   // entries already set: must be cleared
        RResult r = read_kind<PB>(run.rk, *run.in, dest, {});
        c.line('M', "dec " + tb + " " + run.rk + " " + hex(*run.in) + " " + prior + " -");
        c.line('I', r.text);
        c.stat(std::string("xver reads ") + PK::tag);
        if (!r.ok || r.consumed != w.bytes.size())
          c.line('X', "C07 cross-version-read pair=" + ta + "->" + tb + " reader=" + run.rk + " writer-type=" + PA::sexp + " reader-type=" + PB::sexp +
                          " bytes=" + hex(*run.in) + " result=" + r.text + " table-bytes=" + std::to_string(w.bytes.size()));
      }
      c.stat("xver values");
    }
  }

  // ---- C05 across versions: every strict prefix of what version A wrote is rejected by version B,
  // wherever the cut falls (inside an entry B skips, inside padding, between entries) ----
  void xcut() {
    define_type<PK::a>(c); define_type<PK::b>(c);
    for (int i = 0; i < c.nvalues; i++) {
      TA v{}; fill(rng, v, 0);
      nop::Serializer<nop::BufferWriter*> sizer;
      WResult w = write_kind<PA>(W_BUF, v, sizer.GetSize(v), {});
      if (!w.ok) continue;
      const std::size_t n = w.bytes.size();
      static const char* readers[] = {"buf", "ped", "stream"};   // FdReader has no Skip(): it cannot read tables
      for (std::size_t k = 0; k < n; k++) {
        if (n > 160 && !c.thorough && k > 40 && k + 40 < n && !rng.chance(15)) continue;
        std::vector<std::uint8_t> cut(w.bytes.begin(), w.bytes.begin() + static_cast<long>(k));
        const std::string rk = readers[(k + static_cast<std::size_t>(i)) % 3];
        TB dest{};
        RResult r = read_kind<PB>(rk, cut, dest, {});
        c.line('M', "dec " + tb + " " + rk + " " + hex(cut) + " - -");
        c.line('I', r.text);
        c.stat("xcut reads");
        if (r.ok)
          c.line('X', "C05 truncated-accepted-cross-version pair=" + ta + "->" + tb + " reader=" + rk + " cut=" + std::to_string(k) + " of=" + std::to_string(n) +
                          " writer-type=" + PA::sexp + " reader-type=" + PB::sexp + " bytes=" + hex(cut) + " result=" + r.text);
      }
      c.stat("xcut values");
    }
  }

  // ---- C09: the trait and, when it holds, wire compatibility ----
  void fung() {
    define_type<PK::a>(c); define_type<PK::b>(c);
    constexpr bool ab = nop::IsFungible<TA, TB>::value, ba = nop::IsFungible<TB, TA>::value;
    c.line('M', "fung " + ta + " " + tb);
    c.line('I', ab ? "1" : "0");
    c.stat(ab ? "fungible pairs" : "non-fungible pairs");
    if (ab != ba) c.line('X', "C09 not-symmetric A=" + std::string(PA::sexp) + " B=" + PB::sexp + " AB=" + std::to_string(ab) + " BA=" + std::to_string(ba));
    if (PK::a == PK::b && !ab) c.line('X', "C09 not-reflexive A=" + std::string(PA::sexp));
    fung_values(std::integral_constant<bool, ab>{});
  }
  void fung_values(std::false_type) {}
  void fung_values(std::true_type) {
    for (int i = 0; i < c.nvalues; i++) {
      TA v{}; fill(rng, v, 0);
      nop::Serializer<nop::BufferWriter*> sizer;
      WResult w = write_kind<PA>(W_BUF, v, sizer.GetSize(v), {});
      if (!w.ok) {
        // a generated value is well-typed and within every capacity: Write into GetSize() bytes must succeed
        c.line('X', "C01/C06/C09 writer-refused-valid-value A=" + std::string(PA::sexp) + " status=" + status_name(w.err) + " val=" + dump_str(v, false));
        continue;
      }
      TB dest{};
      RResult r = read_kind<PB>("buf", w.bytes, dest, w.pushed);
      c.line('M', "dec " + tb + " buf " + hex(w.bytes) + " - " + join(w.pushed));
      c.line('I', r.text);
      c.stat("fungible reads");
      if (!r.ok) {
        // admissible only when A's element counts do not fit B's capacity: the model decides (it
        // returns the same error); counted so that the evidence shows how often this happens
        c.stat("fungible reads refused (capacity)");
        continue;
      }
      if (r.consumed != w.bytes.size())
        c.line('X', "C09 fungible-read-consumed A=" + std::string(PA::sexp) + " B=" + PB::sexp + " bytes=" + hex(w.bytes) + " result=" + r.text);
      // the B value is "the corresponding value": same abstract dump, and re-encoding reproduces the bytes
      WResult w2 = write_kind<PB>(W_BUF, dest, sizer.GetSize(dest), {});
      if (!w2.ok || w2.bytes != w.bytes) {
        // unordered containers iterate in their own order: same entries, permuted bytes (known finding K4)
        bool permuted = false;
        if ((PA::has_unordered || PB::has_unordered) && w2.ok && w2.bytes.size() == w.bytes.size()) {
          TB again{};
          RResult r2 = read_kind<PB>("buf", w2.bytes, again, w.pushed);
          permuted = r2.ok && dump_str(again, true) == dump_str(dest, true);
        }
        c.line('X', std::string("C09 ") + (permuted ? "fungible-reencode-permuted-unordered" : "fungible-reencode-differs") + " A=" + std::string(PA::sexp) +
                        " B=" + PB::sexp + " bytes=" + hex(w.bytes) + " reencoded=" + (w2.ok ? hex(w2.bytes) : status_name(w2.err)));
      }
      if (dump_str(dest, true) != dump_str(v, true))
        c.stat("fungible reads with a differently-shaped dump");
    }
  }
};

// ---- C08 ---------------------------------------------------------------------------------------
template <int I>
struct FrameRunner {
  using P = pool::PoolType<I>;
  using T = typename P::type;
  Ctx& c;
  Rng rng;
  const std::string tid = std::to_string(I);
  explicit FrameRunner(Ctx& ctx) : c(ctx), rng(ctx.seed * 1000003ULL + static_cast<std::uint64_t>(I) * 104729ULL + 8) {}

  RResult read(const std::string& rk, const std::vector<std::uint8_t>& in, const char* what) {
    T dest{};
    RResult r = read_kind<P>(rk, in, dest, {});
    c.line('M', "dec " + tid + " " + rk + " " + hex(in) + " - -");
    c.line('I', r.text);
    c.stat(std::string("frame ") + what);
    return r;
  }
  void expect(bool cond, const char* what, const std::vector<std::uint8_t>& in, const RResult& r) {
    if (!cond) c.line('X', std::string("C08 ") + what + " type=" + P::sexp + " bytes=" + hex(in) + " result=" + r.text);
  }

  void run() {
    if (std::string(P::sexp).rfind("(table ", 0) != 0) return;
    define_type<I>(c);
    for (int i = 0; i < c.nvalues; i++) {
      T v{}; fill(rng, v, 0);
      nop::Serializer<nop::BufferWriter*> sizer;
      WResult w = write_kind<P>(W_BUF, v, sizer.GetSize(v), {});
      if (!w.ok) continue;
      const auto& b = w.bytes;
      TableLayout lay = parse_table(b);
      if (!lay.ok) { c.line('X', "C08 harness-cannot-parse-table type=" + std::string(P::sexp) + " bytes=" + hex(b)); continue; }
      const std::string want = "ok " + dump_str(v, true) + " ";
      const char* rks[] = {"buf", "ped", "stream"};
      auto rk = [&]() { return std::string(rks[rng.below(3)]); };
      // (a) entries in any order
      if (lay.entries.size() >= 2) {
        std::vector<std::size_t> perm(lay.entries.size());
        for (std::size_t k = 0; k < perm.size(); k++) perm[k] = k;
        for (std::size_t k = perm.size(); k > 1; k--) std::swap(perm[k - 1], perm[rng.below(k)]);
        std::vector<std::uint8_t> m; append(m, b, 0, lay.count_end);
        for (std::size_t k : perm) append(m, b, lay.entries[k].begin, lay.entries[k].end);
        RResult r = read(rk(), m, "permuted");
        expect(r.text == want + std::to_string(m.size()), "permuted-entries-not-accepted", m, r);
      }
      // (b) a recognised entry twice (anywhere after the first occurrence)
      if (!lay.entries.empty()) {
        std::size_t d = rng.below(lay.entries.size());
        std::size_t at = d + 1 + rng.below(lay.entries.size() - d);
        std::vector<std::uint8_t> m; append(m, b, 0, lay.count_at);
        auto cnt = enc_uint(lay.count + 1); m.insert(m.end(), cnt.begin(), cnt.end());
        for (std::size_t k = 0; k <= lay.entries.size(); k++) {
          if (k == at) append(m, b, lay.entries[d].begin, lay.entries[d].end);
          if (k < lay.entries.size()) append(m, b, lay.entries[k].begin, lay.entries[k].end);
        }
        RResult r = read(rk(), m, "duplicated");
        expect(!r.ok && r.err == nop::ErrorStatus::DuplicateTableEntry, "duplicate-entry-not-rejected", m, r);
      }
      // (c) another hash: boundary values (0 = what NOP_TABLE() emits), neighbours, bit flips, random
      {
        Cursor cur{b, 1}; const std::uint64_t h = cur.uint();
        std::vector<std::uint64_t> others = {0, 1, h + 1, h - 1, ~h, h ^ (1ULL << rng.below(64)), rng.next(), 0x7f, 0x80, ~0ULL};
        for (std::uint64_t h2 : others) {
          if (h2 == h) continue;
          if (!(h2 == 0 || h2 == h + 1) && !c.thorough && !rng.chance(35)) continue;
          std::vector<std::uint8_t> m; m.push_back(0xb5);
          auto e = enc_uint(h2);
          if (rng.chance(25)) { e.assign(1, 0x83); for (int k = 0; k < 8; k++) e.push_back(static_cast<std::uint8_t>(h2 >> (8 * k))); }   // widest class
          m.insert(m.end(), e.begin(), e.end());
          append(m, b, lay.hash_end, b.size());
          RResult r = read(rk(), m, "hash changed");
          expect(!r.ok && r.err == nop::ErrorStatus::InvalidTableHash, "wrong-hash-not-rejected", m, r);
        }
      }
      for (std::size_t k = 0; k < lay.entries.size(); k++) {
        const EntrySpan& e = lay.entries[k];
        auto rebuild = [&](std::uint64_t new_size, const std::vector<std::uint8_t>& payload) {
          std::vector<std::uint8_t> m; append(m, b, 0, e.size_at);
          auto s = enc_uint(new_size); m.insert(m.end(), s.begin(), s.end());
          m.insert(m.end(), payload.begin(), payload.end());
          append(m, b, e.end, b.size());
          return m;
        };
        std::vector<std::uint8_t> payload(b.begin() + static_cast<long>(e.payload), b.begin() + static_cast<long>(e.end));
        // (d) declared size larger than the value, the surplus present: accepted, surplus skipped
        {
          std::size_t extra = 1 + rng.below(rng.chance(80) ? 4 : 200);
          auto p2 = payload;
          for (std::size_t j = 0; j < extra; j++) p2.push_back(rng.chance(50) ? 0 : static_cast<std::uint8_t>(rng.next()));
          auto m = rebuild(e.size + extra, p2);
          RResult r = read(rk(), m, "size grown with padding");
          expect(r.text == want + std::to_string(m.size()), "larger-declared-size-not-accepted", m, r);
        }
        // (e) declared size smaller than the value needs (the writer pads nothing: size == need)
        if (e.size > 0) {
          std::uint64_t cut = 1 + rng.below(e.size);
          auto m = rebuild(e.size - cut, payload);
          RResult r = read(rk(), m, "size shrunk");
          expect(!r.ok, "smaller-declared-size-accepted", m, r);
          // ... also with the payload truncated to match
          auto p3 = payload; p3.resize(static_cast<std::size_t>(e.size - cut));
          auto m3 = rebuild(e.size - cut, p3);
          RResult r3 = read(rk(), m3, "size shrunk, payload cut");
          expect(!r3.ok, "truncated-entry-accepted", m3, r3);
        }
        // (f) declared size larger, no padding supplied: model decides
        { auto m = rebuild(e.size + 1 + rng.below(3), payload); read(rk(), m, "size grown without padding"); }
        // (g) a corrupted byte inside the entry: an error there is the table's result (model decides which)
        if (e.size > 0) {
          auto m = b;
          std::size_t at = e.payload + rng.below(e.size);
          m[at] = static_cast<std::uint8_t>(m[at] ^ (1u << rng.below(8)));
          RResult r = read(rk(), m, "entry byte corrupted");
          (void)r;
        }
      }
      c.stat("frame values");
    }
  }
};

// ---- C09: nested arrays (not expressible as pool members): the trait on all ordered pairs ----
template <typename A, typename B>
void nested_pair(Ctx& c, int ia, int ib) {
  c.line('M', "fung " + std::to_string(ia) + " " + std::to_string(ib));
  c.line('I', nop::IsFungible<A, B>::value ? "1" : "0");
  c.stat("nested-array pairs");
}
template <typename A>
void nested_row(Ctx& c, int ia) {
  nested_pair<A, std::int32_t[2][3]>(c, ia, 9001);
  nested_pair<A, std::int32_t[2][4]>(c, ia, 9002);
  nested_pair<A, std::array<std::array<std::int32_t, 3>, 2>>(c, ia, 9003);
  nested_pair<A, std::array<std::int32_t[3], 2>>(c, ia, 9004);
  nested_pair<A, std::array<std::int32_t[4], 2>>(c, ia, 9005);
  nested_pair<A, std::vector<std::array<std::int32_t, 3>>>(c, ia, 9006);
}
void nested_arrays(Ctx& c) {
  c.line('M', "T 9001 (seq (carray 2) (seq (carray 3) (int i32)))");
  c.line('M', "T 9002 (seq (carray 2) (seq (carray 4) (int i32)))");
  c.line('M', "T 9003 (seq (array 2) (seq (array 3) (int i32)))");
  c.line('M', "T 9004 (seq (array 2) (seq (carray 3) (int i32)))");
  c.line('M', "T 9005 (seq (array 2) (seq (carray 4) (int i32)))");
  c.line('M', "T 9006 (seq vector (seq (array 3) (int i32)))");
  nested_row<std::int32_t[2][3]>(c, 9001);
  nested_row<std::int32_t[2][4]>(c, 9002);
  nested_row<std::array<std::array<std::int32_t, 3>, 2>>(c, 9003);
  nested_row<std::array<std::int32_t[3], 2>>(c, 9004);
  nested_row<std::array<std::int32_t[4], 2>>(c, 9005);
  nested_row<std::vector<std::array<std::int32_t, 3>>>(c, 9006);
}

template <int K>
void run_pairs(Ctx& c) {
  if constexpr (K < pool::kPairCount) {
    if constexpr (K % NSHARD == SHARD) {
      PairRunner<K> r(c);
      if (c.mode == "xver") r.xver(); else if (c.mode == "xcut") r.xcut(); else r.fung();
    }
    run_pairs<K + 1>(c);
  }
}
template <int I>
void run_frames(Ctx& c) {
  if constexpr (I < pool::kPoolSize) {
    if constexpr (I % NSHARD == SHARD) { FrameRunner<I> r(c); r.run(); }
    run_frames<I + 1>(c);
  }
}

}  // namespace

int main(int argc, char** argv) {
  install_death_hooks();
  Ctx c;
  for (int i = 1; i < argc; i++) {
    std::string a = argv[i];
    if (a == "--mode" && i + 1 < argc) c.mode = argv[++i];
    else if (a == "--seed" && i + 1 < argc) c.seed = std::strtoull(argv[++i], nullptr, 10);
    else if (a == "--thorough") c.thorough = true;
    else if (a == "--values" && i + 1 < argc) c.nvalues = std::atoi(argv[++i]);
    else { std::fprintf(stderr, "bad arg %s\n", a.c_str()); return 2; }
  }
  if (c.mode == "fung" && SHARD == 0) nested_arrays(c);
  if (c.mode == "xver" || c.mode == "fung" || c.mode == "xcut") run_pairs<0>(c);
  else if (c.mode == "frame") run_frames<0>(c);
  else { std::fprintf(stderr, "unknown mode\n"); return 2; }
  for (auto& kv : c.stats) c.line('S', kv.first + " " + std::to_string(kv.second));
  c.flush();
  return 0;
}
