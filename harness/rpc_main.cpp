// RPC engine of the correspondence harness (C14): the shipped InterfaceMethod / BindInterface /
// SimpleMethodSender / SimpleMethodReceiver over an in-process loopback.
//   --mode rpc   single calls (bound, unbound and raw unknown selectors; function, lambda and
//                method-pointer bindings; partial tables; passthrough arguments; fungible handler
//                and conforming caller argument types; 32- and 64-bit selectors), pipelined calls
//                on one connection, truncated and corrupted requests
// Every dispatch is also sent to the model (`M rpc ...`) with what the real dispatcher did
// (`I status | handler calls | bytes sent back | bytes consumed`).
// Compile with -DPOOL_HEADER="pools/pool_r.h" -DPOOL_NS=pool_r -DNSHARD=1 -DSHARD=0.
#define NOPV_NO_MAIN
#include "codec_main.cpp"

#include <unordered_map>

#include <nop/rpc/interface.h>
#include <nop/rpc/simple_method_receiver.h>
#include <nop/rpc/simple_method_sender.h>

namespace rpc {

constexpr int kMethods = 11;
template <int K> using ArgsT = typename pool::PoolType<2 * K>::type;
template <int K> using RetT = typename pool::PoolType<2 * K + 1>::type;

template <typename R, typename Tuple> struct Sig;
template <typename R, typename... A> struct Sig<R, std::tuple<A...>> { using type = R(A...); };

struct IfaceA {
  NOP_INTERFACE("io.nopv.harness.IfaceA");
  NOP_METHOD(M0, typename Sig<RetT<0>, ArgsT<0>>::type);
  NOP_METHOD(M1, typename Sig<RetT<1>, ArgsT<1>>::type);
  NOP_METHOD(M2, typename Sig<RetT<2>, ArgsT<2>>::type);
  NOP_METHOD(M3, typename Sig<RetT<3>, ArgsT<3>>::type);
  NOP_METHOD(M4, typename Sig<RetT<4>, ArgsT<4>>::type);
  NOP_METHOD(M5, typename Sig<RetT<5>, ArgsT<5>>::type);
  NOP_INTERFACE_API(M0, M1, M2, M3, M4, M5);
};
struct IfaceB {
  NOP_INTERFACE32("io.nopv.harness.IfaceB");
  NOP_METHOD(M6, typename Sig<RetT<6>, ArgsT<6>>::type);
  NOP_METHOD(M7, typename Sig<RetT<7>, ArgsT<7>>::type);
  NOP_METHOD_SEL(1234, M8, typename Sig<RetT<8>, ArgsT<8>>::type);
  NOP_INTERFACE_API(M6, M7, M8);
};
// an interface whose name is not ASCII: the name hash sees bytes >= 0x80
struct IfaceC {
  NOP_INTERFACE("io.nopv.harn\xc3\xa9ss.Gr\xc3\xbc\xc3\x9fe.IfaceC");
  NOP_METHOD(M9, typename Sig<RetT<9>, ArgsT<9>>::type);
  NOP_METHOD(M10, typename Sig<RetT<10>, ArgsT<10>>::type);
  NOP_INTERFACE_API(M9, M10);
};
template <int K> struct MethodOf;
template <> struct MethodOf<0> { using type = IfaceA::M0; };
template <> struct MethodOf<1> { using type = IfaceA::M1; };
template <> struct MethodOf<2> { using type = IfaceA::M2; };
template <> struct MethodOf<3> { using type = IfaceA::M3; };
template <> struct MethodOf<4> { using type = IfaceA::M4; };
template <> struct MethodOf<5> { using type = IfaceA::M5; };
template <> struct MethodOf<6> { using type = IfaceB::M6; };
template <> struct MethodOf<7> { using type = IfaceB::M7; };
template <> struct MethodOf<8> { using type = IfaceB::M8; };
template <> struct MethodOf<9> { using type = IfaceC::M9; };
template <> struct MethodOf<10> { using type = IfaceC::M10; };
template <int K> std::uint64_t selector() { return static_cast<std::uint64_t>(MethodOf<K>::type::Selector); }

// ---- server state ---------------------------------------------------------------------------------
struct Server {
  std::vector<std::string> calls;     // "<selector>:<argument tuple dump>"
  bool passthrough_ok = true;
};
static Server g_srv;
template <int K> struct Slot { static RetT<K> ret; };
template <int K> RetT<K> Slot<K>::ret{};

struct Obj;
static Obj* g_obj = nullptr;

template <int K, typename... A>
RetT<K> record(const A&... a) {
  ArgsT<K> t{a...};
  g_srv.calls.push_back(std::to_string(selector<K>()) + ":" + dump_str(t, true));
  return Slot<K>::ret;
}
inline void check_pass(const Obj* o) { if (o != g_obj) g_srv.passthrough_ok = false; }

template <int K, typename Tuple> struct Fn;
template <int K, typename... A>
struct Fn<K, std::tuple<A...>> {
  static RetT<K> plain(A... a) { return record<K>(a...); }
  static auto lambda() { return [](const A&... a) -> RetT<K> { return record<K>(a...); }; }
};
// handlers that are methods of a class: the instance pointer is the passthrough argument
// (function handlers cannot take passthrough arguments: Helper::Dispatch derives the wire
// argument tuple from the handler's whole signature, so such a binding does not compile)
struct Obj {
  int tag = 77;
  RetT<6> m6(nop::Variant<std::int32_t, std::string> v) { check_pass(this); return record<6>(v); }
  RetT<7> m7(std::unordered_map<std::uint8_t, std::string> m) {   // fungible with the protocol's std::map
    check_pass(this);
    return record<7>(std::map<std::uint8_t, std::string>(m.begin(), m.end()));
  }
  RetT<8> m8(std::pair<std::uint8_t, std::int32_t> p, std::array<std::uint16_t, 2> a) const { check_pass(this); return record<8>(p, a); }
};

// ---- transport ------------------------------------------------------------------------------------
// A reader for the caller's Deserializer that runs the server the first time the reply is needed.
struct PumpReader {
  std::function<std::vector<std::uint8_t>()>* pump = nullptr;
  std::vector<std::uint8_t> data;
  std::size_t pos = 0;
  bool pumped = false;
  void fill() { if (!pumped) { pumped = true; data = (*pump)(); } }
  nop::Status<void> Ensure(std::size_t n) { fill(); return data.size() - pos >= n ? nop::Status<void>{} : nop::ErrorStatus::ReadLimitReached; }
  nop::Status<void> Read(std::uint8_t* b) { fill(); if (pos >= data.size()) return nop::ErrorStatus::ReadLimitReached; *b = data[pos++]; return {}; }
  template <typename T> nop::Status<void> Read(T* b, T* e) {
    fill();
    std::size_t n = static_cast<std::size_t>(e - b) * sizeof(T);
    if (data.size() - pos < n) return nop::ErrorStatus::ReadLimitReached;
    if (n) std::memcpy(static_cast<void*>(b), data.data() + pos, n);
    pos += n;
    return {};
  }
  nop::Status<void> Skip(std::size_t n) { fill(); if (data.size() - pos < n) return nop::ErrorStatus::ReadLimitReached; pos += n; return {}; }
};

using SrvSer = nop::Serializer<nop::StreamWriter<std::stringstream>>;
using SrvDes = nop::Deserializer<nop::BufferReader>;
using Receiver = nop::SimpleMethodReceiver<SrvSer, SrvDes>;

struct Table {
  const char* name;
  const char* sk;
  std::vector<int> bound;                                  // method numbers
  std::function<nop::Status<void>(Receiver*)> dispatch;
};

struct Outcome { bool ok; nop::ErrorStatus err; std::vector<std::string> calls; std::vector<std::uint8_t> sent; std::size_t consumed; };

template <int K> void slot_desc(std::string& s) {
  s += " (b " + std::to_string(selector<K>()) + " " + std::to_string(2 * K) + " " + std::to_string(2 * K + 1) + " " + dump_str(Slot<K>::ret, false) + ")";
}
static std::string bindings_desc(const Table& t) {
  std::string s = "(bs";
  for (int k : t.bound) {
    switch (k) {
      case 0: slot_desc<0>(s); break; case 1: slot_desc<1>(s); break; case 2: slot_desc<2>(s); break;
      case 3: slot_desc<3>(s); break; case 4: slot_desc<4>(s); break; case 5: slot_desc<5>(s); break;
      case 6: slot_desc<6>(s); break; case 7: slot_desc<7>(s); break; case 8: slot_desc<8>(s); break;
      case 9: slot_desc<9>(s); break; case 10: slot_desc<10>(s); break;
    }
  }
  return s + ")";
}

// one dispatch on `buf` starting at `from`; prints the M / I pair
static Outcome serve_once(Ctx& c, const Table& t, const std::vector<std::uint8_t>& buf, std::size_t from, const char* what) {
  std::vector<std::uint8_t> rest(buf.begin() + static_cast<long>(from), buf.end());
  current_input() = std::string("rpc dispatch table=") + t.name + " request=" + hex(rest);
  Heap h(rest);
  SrvDes des{h.p, h.n};
  SrvSer ser;
  Receiver recv{&ser, &des};
  g_srv.calls.clear();
  auto st = t.dispatch(&recv);
  Outcome o;
  o.ok = static_cast<bool>(st); o.err = st.error();
  o.calls = g_srv.calls;
  std::string sent = ser.writer().stream().str();
  o.sent.assign(sent.begin(), sent.end());
  o.consumed = h.n - des.reader().remaining();
  std::string calls = "-";
  if (!o.calls.empty()) { calls.clear(); for (std::size_t i = 0; i < o.calls.size(); i++) { if (i) calls += ' '; calls += o.calls[i]; } }
  c.line('M', std::string("rpc ") + (std::string(t.sk) == "u32" ? "u32" : "u64") + " " + bindings_desc(t) + " " + hex(rest));
  c.line('I', std::string(o.ok ? "ok" : status_name(o.err)) + " | " + calls + " | " + hex(o.sent) + " | " + std::to_string(o.consumed));
  c.stat(std::string("rpc dispatch ") + what);
  if (!o.ok && (!o.calls.empty() || !o.sent.empty()))
    c.line('X', std::string("C14 failed-dispatch-ran-a-handler-or-replied table=") + t.name + " status=" + status_name(o.err) + " calls=" + calls + " sent=" + hex(o.sent) + " request=" + hex(rest));
  if (o.calls.size() > 1) c.line('X', std::string("C14 more-than-one-handler-call table=") + t.name + " calls=" + calls + " request=" + hex(rest));
  if (!g_srv.passthrough_ok) { c.line('X', std::string("C14 passthrough-arguments-not-passed table=") + t.name); g_srv.passthrough_ok = true; }
  return o;
}

// return values: depth 1 most of the time (a reply is echoed on every successful dispatch of its method: a
// 64K-element reply would dominate the run), depth 0 - with the long container lengths - occasionally
template <int K> void refill_slot(Rng& r) { RetT<K> v{}; fill(r, v, r.chance(4) ? 0 : 1); Slot<K>::ret = v; }
static void refill_all(Rng& r) {
  refill_slot<0>(r); refill_slot<1>(r); refill_slot<2>(r); refill_slot<3>(r); refill_slot<4>(r);
  refill_slot<5>(r); refill_slot<6>(r); refill_slot<7>(r); refill_slot<8>(r); refill_slot<9>(r); refill_slot<10>(r);
}

using CliSer = nop::Serializer<nop::StreamWriter<std::stringstream>>;
using CliDes = nop::Deserializer<PumpReader>;
using Sender = nop::SimpleMethodSender<CliSer, CliDes>;

template <int K, std::size_t... Is>
nop::Status<RetT<K>> invoke_tuple(Sender* s, const ArgsT<K>& a, std::index_sequence<Is...>) {
  return MethodOf<K>::type::Invoke(s, std::get<Is>(a)...);
}
// the same call spelled with conforming / fungible argument types where the method has such a spelling
template <int K> nop::Status<RetT<K>> invoke_alt(Sender* s, const ArgsT<K>& a) {
  return invoke_tuple<K>(s, a, std::make_index_sequence<std::tuple_size<ArgsT<K>>::value>{});
}
template <> nop::Status<RetT<1>> invoke_alt<1>(Sender* s, const ArgsT<1>& a) {
  if (std::get<0>(a).find('\0') != std::string::npos) return IfaceA::M1::Invoke(s, std::get<0>(a));
  return IfaceA::M1::Invoke(s, std::get<0>(a).c_str());           // const char* for std::string
}
template <> nop::Status<RetT<8>> invoke_alt<8>(Sender* s, const ArgsT<8>& a) {
  // a tuple for the pair and a vector for the array (fungible types must be passed as rvalues)
  return IfaceB::M8::Invoke(s, std::make_tuple(std::get<0>(a).first, std::get<0>(a).second),
                            std::vector<std::uint16_t>(std::get<1>(a).begin(), std::get<1>(a).end()));
}

// a full call through the real sender; returns the request bytes it produced
template <int K>
std::vector<std::uint8_t> call(Ctx& c, Rng& rng, const Table& t, bool bound) {
  ArgsT<K> args{}; fill(rng, args, 0);
  refill_all(rng);
  const std::string want_call = std::to_string(selector<K>()) + ":" + dump_str(args, true);
  const std::string want_ret = dump_str(Slot<K>::ret, true);
  CliSer ser;
  CliDes des;
  std::vector<std::uint8_t> request;
  Outcome out{};
  std::function<std::vector<std::uint8_t>()> pump = [&]() {
    std::string r = ser.writer().stream().str();
    request.assign(r.begin(), r.end());
    std::vector<std::uint8_t> wire = request;
    wire.push_back(0xEE); wire.push_back(0x01);           // whatever follows on the connection
    out = serve_once(c, t, wire, 0, bound ? "bound" : "unbound");
    return out.sent;
  };
  des.reader().pump = &pump;
  Sender sender{&ser, &des};
  nop::Status<RetT<K>> st = rng.chance(50) ? invoke_tuple<K>(&sender, args, std::make_index_sequence<std::tuple_size<ArgsT<K>>::value>{})
                                           : invoke_alt<K>(&sender, args);
  if (!des.reader().pumped) { c.line('X', std::string("C14 invoke-never-read-the-reply method=") + std::to_string(K)); return request; }
  const std::string ctx = std::string(" table=") + t.name + " method=" + std::to_string(K) + " request=" + hex(request);
  if (bound) {
    if (!out.ok) c.line('X', "C14 bound-method-not-dispatched status=" + std::string(status_name(out.err)) + ctx);
    if (out.calls.size() != 1 || out.calls[0] != want_call)
      c.line('X', "C14 wrong-handler-or-arguments expected=" + want_call + " got=" + (out.calls.empty() ? std::string("-") : out.calls[0]) + ctx);
    if (out.consumed != request.size()) c.line('X', "C14 request-not-consumed-exactly consumed=" + std::to_string(out.consumed) + ctx);
    if (!st || dump_str(st.get(), true) != want_ret)
      c.line('X', "C14 invoke-return-differs expected=" + want_ret + " got=" + (st ? dump_str(st.get(), true) : std::string(status_name(st.error()))) + ctx);
    if (des.reader().pos != des.reader().data.size()) c.line('X', "C14 reply-not-consumed-exactly" + ctx);
  } else {
    if (out.ok || out.err != nop::ErrorStatus::InvalidInterfaceMethod) c.line('X', "C14 unbound-selector-not-refused status=" + std::string(out.ok ? "ok" : status_name(out.err)) + ctx);
    if (st) c.line('X', "C14 invoke-succeeded-on-unbound-method" + ctx);
  }
  return request;
}

template <int K> void call_k(Ctx& c, Rng& rng, const Table& t, std::vector<std::uint8_t>* req) {
  bool bound = false; for (int b : t.bound) bound = bound || b == K;
  *req = call<K>(c, rng, t, bound);
}
static std::vector<std::uint8_t> call_any(Ctx& c, Rng& rng, const Table& t, int k) {
  std::vector<std::uint8_t> r;
  switch (k) {
    case 0: call_k<0>(c, rng, t, &r); break; case 1: call_k<1>(c, rng, t, &r); break; case 2: call_k<2>(c, rng, t, &r); break;
    case 3: call_k<3>(c, rng, t, &r); break; case 4: call_k<4>(c, rng, t, &r); break; case 5: call_k<5>(c, rng, t, &r); break;
    case 6: call_k<6>(c, rng, t, &r); break; case 7: call_k<7>(c, rng, t, &r); break; case 8: call_k<8>(c, rng, t, &r); break;
    case 9: call_k<9>(c, rng, t, &r); break; case 10: call_k<10>(c, rng, t, &r); break;
  }
  return r;
}

static std::vector<std::uint8_t> enc_sel(std::uint64_t v, bool wide64) {
  std::vector<std::uint8_t> o;
  if (v < 0x80) { o.push_back(static_cast<std::uint8_t>(v)); return o; }
  int n = v <= 0xff ? 1 : v <= 0xffff ? 2 : v <= 0xffffffffULL ? 4 : 8;
  if (!wide64 && n == 8) n = 4;
  o.push_back(static_cast<std::uint8_t>(n == 1 ? 0x80 : n == 2 ? 0x81 : n == 4 ? 0x82 : 0x83));
  for (int k = 0; k < n; k++) o.push_back(static_cast<std::uint8_t>(v >> (8 * k)));
  return o;
}

static void run(Ctx& c) {
  Rng rng(c.seed * 1000003ULL + 14);
  Obj obj; g_obj = &obj;
  c.line('M', "T 0 " + std::string(pool::PoolType<0>::sexp));
  // type definitions for the model
  {
    std::string s;
#define NOPV_T(I) c.line('M', "T " #I " " + std::string(pool::PoolType<I>::sexp));
    NOPV_T(1) NOPV_T(2) NOPV_T(3) NOPV_T(4) NOPV_T(5) NOPV_T(6) NOPV_T(7) NOPV_T(8) NOPV_T(9)
    NOPV_T(10) NOPV_T(11) NOPV_T(12) NOPV_T(13) NOPV_T(14) NOPV_T(15) NOPV_T(16) NOPV_T(17) NOPV_T(18) NOPV_T(19) NOPV_T(20) NOPV_T(21)
#undef NOPV_T
  }
  auto t1 = nop::BindInterface(IfaceA::M0::Bind(&Fn<0, ArgsT<0>>::plain), IfaceA::M1::Bind(Fn<1, ArgsT<1>>::lambda()),
                               IfaceA::M2::Bind(Fn<2, ArgsT<2>>::lambda()), IfaceA::M3::Bind(&Fn<3, ArgsT<3>>::plain),
                               IfaceA::M4::Bind(Fn<4, ArgsT<4>>::lambda()), IfaceA::M5::Bind(&Fn<5, ArgsT<5>>::plain));
  auto t2 = nop::BindInterface(IfaceA::M3::Bind(Fn<3, ArgsT<3>>::lambda()), IfaceA::M0::Bind(Fn<0, ArgsT<0>>::lambda()));
  auto t3 = nop::BindInterface<Obj*>(IfaceB::M6::Bind(&Obj::m6), IfaceB::M7::Bind(&Obj::m7), IfaceB::M8::Bind(&Obj::m8));
  auto t4 = nop::BindInterface<Obj*>(IfaceB::M8::Bind(&Obj::m8));
  auto t5 = nop::BindInterface(IfaceC::M9::Bind(Fn<9, ArgsT<9>>::lambda()), IfaceC::M10::Bind(&Fn<10, ArgsT<10>>::plain));
  // the selectors are the documented hash of interface and method name (tie to the SipHash model)
  {
    auto hx = [](const char* s) { return hex(reinterpret_cast<const std::uint8_t*>(s), std::strlen(s)); };
    struct Sel { const char* iface; const char* method; std::uint64_t sel; bool wide; };
    const Sel sels[] = {
        {"io.nopv.harness.IfaceA", "M0", selector<0>(), true}, {"io.nopv.harness.IfaceA", "M3", selector<3>(), true},
        {"io.nopv.harness.IfaceA", "M5", selector<5>(), true}, {"io.nopv.harness.IfaceB", "M6", selector<6>(), false},
        {"io.nopv.harness.IfaceB", "M7", selector<7>(), false},
        {"io.nopv.harn\xc3\xa9ss.Gr\xc3\xbc\xc3\x9fe.IfaceC", "M9", selector<9>(), true},
        {"io.nopv.harn\xc3\xa9ss.Gr\xc3\xbc\xc3\x9fe.IfaceC", "M10", selector<10>(), true}};
    for (const Sel& x : sels) {
      c.line('M', std::string(x.wide ? "sel64 " : "sel32 ") + hx(x.iface) + " " + hx(x.method));
      c.line('I', std::to_string(x.sel));
      c.stat("rpc selector = hash of the names");
    }
  }
  std::vector<Table> tables;
  tables.push_back(Table{"A-all", "u64", {0, 1, 2, 3, 4, 5}, [&](Receiver* r) { return t1(r); }});
  tables.push_back(Table{"A-partial", "u64", {3, 0}, [&](Receiver* r) { return t2(r); }});
  tables.push_back(Table{"C-all-nonascii", "u64c", {9, 10}, [&](Receiver* r) { return t5(r); }});
  tables.push_back(Table{"B-all-passthrough", "u32", {6, 7, 8}, [&](Receiver* r) { return t3(r, static_cast<Obj*>(&obj)); }});
  tables.push_back(Table{"B-partial-passthrough", "u32", {8}, [&](Receiver* r) { return t4(r, static_cast<Obj*>(&obj)); }});

  const int rounds = c.thorough ? 60 : 4;   // per shard (16 shards with different seeds)
  for (int round = 0; round < rounds; round++) {
    for (const Table& t : tables) {
      const bool a = std::string(t.sk) != "u32";
      const int first = std::string(t.sk) == "u64" ? 0 : (std::string(t.sk) == "u32" ? 6 : 9);
      const int last = std::string(t.sk) == "u64" ? 6 : (std::string(t.sk) == "u32" ? 9 : 11);
      // every method of the table's interface: bound ones are dispatched, the others refused
      std::vector<std::vector<std::uint8_t>> requests;
      for (int k = first; k < last; k++) requests.push_back(call_any(c, rng, t, k));
      // selector values that belong to no method at all
      for (int j = 0; j < 3; j++) {
        refill_all(rng);
        std::uint64_t sel = j == 0 ? 0 : (j == 1 ? (a ? ~0ULL : 0xffffffffULL) : (a ? rng.next() : (rng.next() & 0xffffffffULL)));
        bool is_method = false;
        for (int k = 0; k < kMethods; k++) {
          std::uint64_t s = 0;
          switch (k) { case 0: s = selector<0>(); break; case 1: s = selector<1>(); break; case 2: s = selector<2>(); break; case 3: s = selector<3>(); break;
                       case 4: s = selector<4>(); break; case 5: s = selector<5>(); break; case 6: s = selector<6>(); break; case 7: s = selector<7>(); break; case 8: s = selector<8>(); break;
                       case 9: s = selector<9>(); break; case 10: s = selector<10>(); break; }
          if (s == sel) is_method = true;
        }
        if (is_method) continue;
        std::vector<std::uint8_t> w = enc_sel(sel, a);
        w.push_back(0xba); w.push_back(0x00);
        Outcome o = serve_once(c, t, w, 0, "unknown selector");
        if (o.ok || o.err != nop::ErrorStatus::InvalidInterfaceMethod)
          c.line('X', std::string("C14 unknown-selector-not-refused table=") + t.name + " request=" + hex(w));
      }
      // truncations and corruptions of the requests of bound methods
      for (std::size_t qi = 0; qi < requests.size(); qi++) {
        const auto& q = requests[qi];
        if (q.empty()) continue;
        refill_all(rng);
        for (std::size_t cut = 0; cut < q.size(); cut++) {
          if (q.size() > 24 && !c.thorough && cut > 8 && cut + 4 < q.size() && !rng.chance(15)) continue;
          // every cut of a long request would be quadratic in its length: the two ends and a sample of the middle
          if (q.size() > 400 && cut > 64 && cut + 64 < q.size() && rng.below(q.size()) >= 200) continue;
          std::vector<std::uint8_t> w(q.begin(), q.begin() + static_cast<long>(cut));
          Outcome o = serve_once(c, t, w, 0, "truncated");
          if (o.ok) c.line('X', std::string("C14 truncated-request-dispatched table=") + t.name + " request=" + hex(w));
        }
        for (int j = 0; j < (c.thorough ? 40 : 6); j++) {
          std::vector<std::uint8_t> w = q;
          std::size_t at = rng.below(w.size());
          w[at] = rng.chance(50) ? static_cast<std::uint8_t>(w[at] ^ (1u << rng.below(8))) : static_cast<std::uint8_t>(rng.next());
          serve_once(c, t, w, 0, "corrupted");
        }
      }
      // pipelined: several requests back to back, served in a loop; every call must stay in frame
      {
        std::vector<int> bound = t.bound;
        std::vector<std::uint8_t> wire;
        std::vector<std::size_t> ends;
        for (int j = 0; j < 4; j++) {
          int k = bound[rng.below(bound.size())];
          const auto& q = requests[static_cast<std::size_t>(k - first)];
          wire.insert(wire.end(), q.begin(), q.end());
          ends.push_back(wire.size());
        }
        refill_all(rng);
        std::size_t pos = 0;
        for (std::size_t j = 0; j < ends.size(); j++) {
          Outcome o = serve_once(c, t, wire, pos, "pipelined");
          if (!o.ok || pos + o.consumed != ends[j] || o.calls.size() != 1) {
            c.line('X', std::string("C14 pipelined-call-out-of-frame table=") + t.name + " call=" + std::to_string(j) + " position=" + std::to_string(pos + o.consumed) +
                            " expected=" + std::to_string(ends[j]) + " wire=" + hex(wire));
            break;
          }
          pos += o.consumed;
        }
      }
    }
  }
}

// ---- C10 on the sending side: a writer fault while the request is being sent ------------------
// SendMethod must return exactly the writer's error, stop, and never go on to read a reply.
using FaultSer = nop::Serializer<InstrWriter<HW<nop::BufferWriter>>>;
using FaultSender = nop::SimpleMethodSender<FaultSer, CliDes>;

template <typename Ret, typename ArgsTuple>
void send_faults(Ctx& c, Rng& rng, const char* what, std::uint64_t selector_value, const ArgsTuple& args) {
  static const nop::ErrorStatus errs[] = {nop::ErrorStatus::IOError, nop::ErrorStatus::WriteLimitReached, nop::ErrorStatus::SystemError,
                                          nop::ErrorStatus::StreamError, nop::ErrorStatus::ProtocolError};
  std::size_t ncalls = 0;
  for (long long k = -1; k == -1 || static_cast<std::size_t>(k) < ncalls; k++) {
    std::vector<std::uint8_t> buf(1 << 16);
    HandleOut co;
    HW<nop::BufferWriter> base{buf.data(), buf.size()}; base.chan = &co;
    WTrace t; t.fault_at = k;
    const nop::ErrorStatus e = errs[rng.below(sizeof(errs) / sizeof(errs[0]))];
    t.fault_err = e;
    FaultSer ser{base, &t};
    CliDes des;
    bool reply_read = false;
    std::function<std::vector<std::uint8_t>()> pump = [&]() { reply_read = true; return std::vector<std::uint8_t>{}; };
    des.reader().pump = &pump;
    FaultSender sender{&ser, &des};
    nop::Status<Ret> ret;
    sender.SendMethod(selector_value, &ret, args);
    if (k < 0) { ncalls = t.calls; continue; }    // the clean run: how many writer calls a request makes
    c.stat("rpc send faults");
    if (ret || ret.error() != e || t.calls_after_failure != 0 || reply_read)
      c.line('X', std::string("C10 rpc-send-fault method=") + what + " call=" + std::to_string(k) + " of=" + std::to_string(ncalls) +
                      " injected=" + status_name(e) + " returned=" + (ret ? "ok" : status_name(ret.error())) +
                      " calls-after=" + std::to_string(t.calls_after_failure) + " reply-read=" + (reply_read ? "yes" : "no"));
  }
}

static void run_faults(Ctx& c) {
  Rng rng(c.seed * 1000003ULL + 10);
  const int rounds = c.thorough ? 40 : 4;
  for (int r = 0; r < rounds; r++) {
    { ArgsT<0> a{}; fill(rng, a, 0); send_faults<RetT<0>>(c, rng, "value-returning (i32,i32)->i64", selector<0>(), a); }
    { ArgsT<2> a{}; fill(rng, a, 0); send_faults<RetT<2>>(c, rng, "value-returning (vector,string)->vector", selector<2>(), a); }
    { ArgsT<4> a{}; fill(rng, a, 0); send_faults<RetT<4>>(c, rng, "value-returning (struct,optional)->struct", selector<4>(), a); }
    // a method without a return value: the Status<void> slot
    { ArgsT<1> a{}; fill(rng, a, 0); send_faults<void>(c, rng, "void-returning (string)", 77, a); }
    { ArgsT<8> a{}; fill(rng, a, 0); send_faults<void>(c, rng, "void-returning (pair,array)", 78, a); }
  }
}

}  // namespace rpc

int main(int argc, char** argv) {
  install_death_hooks();
  Ctx c;
  for (int i = 1; i < argc; i++) {
    std::string a = argv[i];
    if (a == "--mode" && i + 1 < argc) c.mode = argv[++i];
    else if (a == "--seed" && i + 1 < argc) c.seed = std::strtoull(argv[++i], nullptr, 10);
    else if (a == "--thorough") c.thorough = true;
    else if ((a == "--shard" || a == "--nshard") && i + 1 < argc) { if (a == "--shard") c.seed += 1000 * static_cast<std::uint64_t>(std::atoi(argv[i + 1])); ++i; }
    else { std::fprintf(stderr, "bad arg %s\n", a.c_str()); return 2; }
  }
  if (c.mode == "rpcfault") rpc::run_faults(c); else rpc::run(c);
  for (auto& kv : c.stats) c.line('S', kv.first + " " + std::to_string(kv.second));
  c.flush();
  return 0;
}
