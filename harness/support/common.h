// Shared definitions for the correspondence harness. Only public libnop headers are used.
#pragma once
#include <array>
#include <cstdint>
#include <cstdio>
#include <cstring>
#include <functional>
#include <map>
#include <string>
#include <tuple>
#include <type_traits>
#include <unordered_map>
#include <utility>
#include <vector>

#include <nop/serializer.h>
#include <nop/structure.h>
#include <nop/table.h>
#include <nop/value.h>
#include <nop/types/handle.h>
#include <nop/types/optional.h>
#include <nop/types/result.h>
#include <nop/types/variant.h>
#include <nop/base/handle.h>
#include <nop/base/table.h>
#include <nop/base/variant.h>
#include <nop/base/optional.h>
#include <nop/base/result.h>
#include <nop/base/value.h>

namespace nopv {

struct StructTag {};
struct WrapTag {};
struct TableTag {};

// View of an (array, size) member pair: the logical value is the first `n` elements.
template <typename A, typename N>
struct LBuf {
  A& data;
  N& n;
};
template <typename A, typename N>
LBuf<A, N> lbuf(A& a, N& n) { return {a, n}; }
template <typename A, typename N>
LBuf<const A, const N> lbuf(const A& a, const N& n) { return {a, n}; }

template <typename T> struct ArrLen;
template <typename T, std::size_t N> struct ArrLen<T[N]> { static constexpr std::size_t value = N; using Elem = T; };
template <typename T, std::size_t N> struct ArrLen<std::array<T, N>> { static constexpr std::size_t value = N; using Elem = T; };
template <typename T, std::size_t N> struct ArrLen<const T[N]> { static constexpr std::size_t value = N; using Elem = T; };
template <typename T, std::size_t N> struct ArrLen<const std::array<T, N>> { static constexpr std::size_t value = N; using Elem = T; };

// splitmix64 / xorshift PRNG: every random choice derives from one seed.
struct Rng {
  std::uint64_t s;
  explicit Rng(std::uint64_t seed) : s(seed * 0x9e3779b97f4a7c15ULL + 0x1234567ULL) {}
  std::uint64_t next() {
    std::uint64_t z = (s += 0x9e3779b97f4a7c15ULL);
    z = (z ^ (z >> 30)) * 0xbf58476d1ce4e5b9ULL;
    z = (z ^ (z >> 27)) * 0x94d049bb133111ebULL;
    return z ^ (z >> 31);
  }
  std::uint64_t below(std::uint64_t n) { return n ? next() % n : 0; }
  bool chance(unsigned pct) { return below(100) < pct; }
};

// What is being executed, for the sanitizers' death callbacks: a crash then names its input.
inline std::string& current_input() { static std::string s; return s; }
inline void on_death() {
  std::string m = "\nCURRENT-INPUT: " + current_input() + "\n";
  std::fwrite(m.data(), 1, m.size(), stderr);
  std::fflush(stderr);
}

template <typename T, typename = void> struct has_kind : std::false_type {};
template <typename T> struct has_kind<T, nop::Void<typename T::nopv_kind>> : std::true_type {};
template <typename T, typename Tag, typename = void> struct is_kind : std::false_type {};
template <typename T, typename Tag>
struct is_kind<T, Tag, nop::Void<typename T::nopv_kind>> : std::is_same<typename T::nopv_kind, Tag> {};

inline std::string hex(const std::uint8_t* p, std::size_t n) {
  if (n == 0) return "-";
  static const char* d = "0123456789abcdef";
  std::string s;
  s.reserve(2 * n);
  for (std::size_t i = 0; i < n; i++) { s.push_back(d[p[i] >> 4]); s.push_back(d[p[i] & 15]); }
  return s;
}
inline std::string hex(const std::vector<std::uint8_t>& v) { return hex(v.data(), v.size()); }

inline const char* status_name(nop::ErrorStatus e) {
  switch (e) {
    case nop::ErrorStatus::None: return "None";
    case nop::ErrorStatus::UnexpectedEncodingType: return "UnexpectedEncodingType";
    case nop::ErrorStatus::UnexpectedHandleType: return "UnexpectedHandleType";
    case nop::ErrorStatus::UnexpectedVariantType: return "UnexpectedVariantType";
    case nop::ErrorStatus::InvalidContainerLength: return "InvalidContainerLength";
    case nop::ErrorStatus::InvalidMemberCount: return "InvalidMemberCount";
    case nop::ErrorStatus::InvalidStringLength: return "InvalidStringLength";
    case nop::ErrorStatus::InvalidTableHash: return "InvalidTableHash";
    case nop::ErrorStatus::InvalidHandleReference: return "InvalidHandleReference";
    case nop::ErrorStatus::InvalidHandleValue: return "InvalidHandleValue";
    case nop::ErrorStatus::InvalidInterfaceMethod: return "InvalidInterfaceMethod";
    case nop::ErrorStatus::DuplicateTableEntry: return "DuplicateTableEntry";
    case nop::ErrorStatus::ReadLimitReached: return "ReadLimitReached";
    case nop::ErrorStatus::WriteLimitReached: return "WriteLimitReached";
    case nop::ErrorStatus::StreamError: return "StreamError";
    case nop::ErrorStatus::ProtocolError: return "ProtocolError";
    case nop::ErrorStatus::IOError: return "IOError";
    case nop::ErrorStatus::SystemError: return "SystemError";
    case nop::ErrorStatus::DebugError: return "DebugError";
  }
  return "Unknown";
}

}  // namespace nopv

#if defined(__SANITIZE_ADDRESS__) || defined(__SANITIZE_THREAD__)
#define NOPV_HAVE_SANITIZER 1
extern "C" void __sanitizer_set_death_callback(void (*callback)(void));
#endif
// libubsan has its own runtime copy under g++: its reports come through this hook
extern "C" __attribute__((used)) inline void __ubsan_on_report(void) { nopv::on_death(); }
namespace nopv {
inline void install_death_hooks() {
#ifdef NOPV_HAVE_SANITIZER
  __sanitizer_set_death_callback(on_death);
#endif
}
}
