// Type-directed value generation: boundary-biased, mostly valid values of any pool type.
#pragma once
#include "support/common.h"

namespace nopv {

template <typename T, typename Enable = void> struct Gen;

template <typename T>
void fill(Rng& r, T& out, int depth) { Gen<T>::fill(r, out, depth); }

inline std::uint64_t edge_bits(Rng& r) {
  static const std::int64_t e[] = {
      0, 1, -1, 2, 63, 64, -63, -64, -65, -66, 126, 127, 128, 129, -127, -128, -129, -130, 254, 255, 256, 257,
      32766, 32767, 32768, 32769, -32767, -32768, -32769, -32770, 65534, 65535, 65536, 65537,
      2147483646LL, 2147483647LL, 2147483648LL, 2147483649LL, -2147483647LL, -2147483648LL, -2147483649LL,
      -2147483650LL, 4294967294LL, 4294967295LL, 4294967296LL, 4294967297LL,
      INT64_MAX, INT64_MAX - 1, INT64_MIN, INT64_MIN + 1};
  const std::size_t n = sizeof(e) / sizeof(e[0]);
  std::uint64_t k = r.below(n + 6);
  if (k < n) return static_cast<std::uint64_t>(e[k]);
  if (k == n) return UINT64_MAX;
  if (k == n + 1) return UINT64_MAX - 1;
  if (k == n + 2) return 0x8000000000000000ULL;
  return r.next() >> r.below(64);
}

template <> struct Gen<bool> {
  static void fill(Rng& r, bool& out, int) { out = r.chance(50); }
};
template <typename T>
struct Gen<T, std::enable_if_t<std::is_integral<T>::value && !std::is_same<T, bool>::value>> {
  static void fill(Rng& r, T& out, int) { out = static_cast<T>(edge_bits(r)); }
};
template <typename T>
struct Gen<T, std::enable_if_t<std::is_enum<T>::value>> {
  static void fill(Rng& r, T& out, int d) {
    std::underlying_type_t<T> u;
    Gen<decltype(u)>::fill(r, u, d);
    std::memcpy(&out, &u, sizeof(u));
  }
};
template <> struct Gen<float> {
  static void fill(Rng& r, float& out, int) {
    static const std::uint32_t e[] = {0, 0x80000000u, 0x3f800000u, 0xbf800000u, 0x7f800000u, 0xff800000u,
                                      0x7fc00000u, 0x7fc00001u, 0xffc12345u, 0x7f800001u, 1u, 0x007fffffu,
                                      0x7f7fffffu};
    std::uint32_t b = r.chance(70) ? e[r.below(sizeof(e) / 4)] : static_cast<std::uint32_t>(r.next());
    std::memcpy(&out, &b, 4);
  }
};
template <> struct Gen<double> {
  static void fill(Rng& r, double& out, int) {
    static const std::uint64_t e[] = {0, 0x8000000000000000ULL, 0x3ff0000000000000ULL, 0x7ff0000000000000ULL,
                                      0xfff0000000000000ULL, 0x7ff8000000000000ULL, 0x7ff8000000000001ULL,
                                      0xfff8123456789abcULL, 0x7ff0000000000001ULL, 1ULL, 0x7fefffffffffffffULL};
    std::uint64_t b = r.chance(70) ? e[r.below(sizeof(e) / 8)] : r.next();
    std::memcpy(&out, &b, 8);
  }
};
inline std::size_t pick_len(Rng& r, int depth, std::size_t elem_cost) {
  // container lengths: small most of the time, class boundaries of the length field sometimes
  std::uint64_t k = r.below(100);
  if (k < 18) return 0;
  if (k < 38) return 1;
  if (k < 55) return 2;
  if (k < 75) return 3 + r.below(4);
  if (depth >= 2 || elem_cost > 16) {
    // rarely a long leaf (string, byte vector) deep inside: sizes of enclosing table entries, BoundedWriter
    // budgets and length classes of nested containers then cross the 128 / 256 boundaries too
    if (elem_cost <= 2 && k >= 92) return (k % 4 == 0 ? 124 : k % 4 == 1 ? 126 : k % 4 == 2 ? 254 : 127) + r.below(4);
    if (elem_cost <= 8 && k >= 92) return (k % 3 == 0 ? 15 : k % 3 == 1 ? 31 : 63) + r.below(3);   // byte length around 128 / 256
    return r.below(6);
  }
  if (k < 85) return 126 + r.below(4);          // 126..129 : fixint / U8 boundary
  if (k < 93) return 254 + r.below(4);          // 254..257 : U8 / U16 boundary
  if (elem_cost > 2 || depth >= 1) return 7 + r.below(20);
  if (k < 97) return 65534 + r.below(4);        // U16 / U32 boundary
  return 300 + r.below(700);
}
template <typename C, typename Tr, typename A>
struct Gen<std::basic_string<C, Tr, A>> {
  static void fill(Rng& r, std::basic_string<C, Tr, A>& out, int depth) {
    std::size_t n = pick_len(r, depth, sizeof(C));
    out.clear();
    out.reserve(n);
    for (std::size_t i = 0; i < n; i++) {
      std::uint64_t b = r.chance(60) ? (32 + r.below(95)) : r.next();
      out.push_back(static_cast<C>(b));
    }
  }
};
template <typename T, typename A>
struct Gen<std::vector<T, A>> {
  static void fill(Rng& r, std::vector<T, A>& out, int depth) {
    std::size_t n = pick_len(r, depth, std::is_integral<T>::value ? sizeof(T) : 64);
    out.clear();
    out.resize(n);
    for (auto& e : out) nopv::fill(r, e, depth + 1);
  }
};
template <typename T, std::size_t N>
struct Gen<std::array<T, N>> {
  static void fill(Rng& r, std::array<T, N>& out, int depth) {
    for (std::size_t i = 0; i < N; i++) nopv::fill(r, out[i], depth + 1);
  }
};
template <typename T, std::size_t N>
struct Gen<T[N]> {
  static void fill(Rng& r, T (&out)[N], int depth) {
    for (std::size_t i = 0; i < N; i++) nopv::fill(r, out[i], depth + 1);
  }
};
template <typename A, typename N>
struct Gen<LBuf<A, N>> {
  static void fill(Rng& r, LBuf<A, N> out, int depth) {
    constexpr std::size_t cap = ArrLen<A>::value;
    std::size_t n = r.chance(25) ? cap : r.below(cap + 1);
    out.n = static_cast<N>(n);
    for (std::size_t i = 0; i < n; i++) nopv::fill(r, out.data[i], depth + 1);
  }
};
template <typename A, typename B>
struct Gen<std::pair<A, B>> {
  static void fill(Rng& r, std::pair<A, B>& out, int depth) {
    nopv::fill(r, out.first, depth + 1);
    nopv::fill(r, out.second, depth + 1);
  }
};
template <typename... Ts>
struct Gen<std::tuple<Ts...>> {
  template <std::size_t... Is>
  static void go(Rng& r, std::tuple<Ts...>& out, int depth, std::index_sequence<Is...>) {
    (void)r; (void)out; (void)depth;
    (void)std::initializer_list<int>{(nopv::fill(r, std::get<Is>(out), depth + 1), 0)...};
  }
  static void fill(Rng& r, std::tuple<Ts...>& out, int depth) { go(r, out, depth, std::index_sequence_for<Ts...>{}); }
};
template <typename M, typename K, typename V>
void fill_map(Rng& r, M& out, int depth) {
  std::size_t n = pick_len(r, depth + 1, 64);
  if (n > 40) n = 40;
  out.clear();
  for (std::size_t i = 0; i < n; i++) {
    K k{}; V v{};
    nopv::fill(r, k, depth + 1);
    nopv::fill(r, v, depth + 1);
    out.emplace(std::move(k), std::move(v));
  }
}
template <typename K, typename V, typename... R>
struct Gen<std::map<K, V, R...>> {
  static void fill(Rng& r, std::map<K, V, R...>& out, int depth) { fill_map<std::map<K, V, R...>, K, V>(r, out, depth); }
};
template <typename K, typename V, typename... R>
struct Gen<std::unordered_map<K, V, R...>> {
  static void fill(Rng& r, std::unordered_map<K, V, R...>& out, int depth) {
    fill_map<std::unordered_map<K, V, R...>, K, V>(r, out, depth);
  }
};
template <typename T>
struct Gen<nop::Optional<T>> {
  static void fill(Rng& r, nop::Optional<T>& out, int depth) {
    if (r.chance(30)) { out.clear(); return; }
    out = nop::Optional<T>(nop::InPlace{});
    nopv::fill(r, out.get(), depth + 1);
  }
};
template <typename T, std::uint64_t Id>
struct Gen<nop::Entry<T, Id, nop::ActiveEntry>> {
  static void fill(Rng& r, nop::Entry<T, Id, nop::ActiveEntry>& out, int depth) {
    if (r.chance(35)) { out.clear(); return; }
    nop::Entry<T, Id, nop::ActiveEntry> tmp{nop::InPlace{}};
    out = std::move(tmp);
    nopv::fill(r, out.get(), depth + 1);
  }
};
template <typename T, std::uint64_t Id>
struct Gen<nop::Entry<T, Id, nop::DeletedEntry>> {
  static void fill(Rng&, nop::Entry<T, Id, nop::DeletedEntry>&, int) {}
};
template <typename E, typename T>
struct Gen<nop::Result<E, T>> {
  static void fill(Rng& r, nop::Result<E, T>& out, int depth) {
    std::uint64_t k = r.below(100);
    if (k < 12) { out.clear(); return; }
    if (k < 40) { E e; nopv::fill(r, e, depth); out = e; return; }
    out = T{};
    nopv::fill(r, out.get(), depth + 1);
  }
};
struct FillVisitor {
  Rng& r; int depth;
  void operator()(nop::EmptyVariant) const {}
  template <typename U> void operator()(U& u) const { nopv::fill(r, u, depth + 1); }
};
template <typename... Ts>
struct Gen<nop::Variant<Ts...>> {
  static void fill(Rng& r, nop::Variant<Ts...>& out, int depth) {
    std::int32_t idx = static_cast<std::int32_t>(r.below(sizeof...(Ts) + 1)) - 1;
    if (idx < 0) { out = nop::EmptyVariant{}; return; }
    out.Become(idx);
    out.Visit(FillVisitor{r, depth});
  }
};
template <typename P>
struct Gen<nop::Handle<P>> {
  static void fill(Rng& r, nop::Handle<P>& out, int) {
    out = r.chance(20) ? nop::Handle<P>{} : nop::Handle<P>{static_cast<int>(100 + r.below(900))};
  }
};
struct MemberFill {
  Rng& r; int depth;
  template <typename U> void operator()(U& u) const { nopv::fill(r, u, depth + 1); }
  template <typename A, typename N> void operator()(LBuf<A, N> u) const { Gen<LBuf<A, N>>::fill(r, u, depth + 1); }
};
template <typename T>
struct Gen<T, std::enable_if_t<has_kind<T>::value && !is_kind<T, TableTag>::value>> {
  static void fill(Rng& r, T& out, int depth) { out.nopv_members(MemberFill{r, depth}); }
};
template <typename T>
struct Gen<T, std::enable_if_t<is_kind<T, TableTag>::value>> {
  static void fill(Rng& r, T& out, int depth) { out.nopv_entries(MemberFill{r, depth}); }
};

}  // namespace nopv
