// Reader / writer adaptors owned by the harness: out-of-band handle channel, call
// logging, fault injection, allocation counting.
#pragma once
#include <fcntl.h>
#include <sys/mman.h>
#include <unistd.h>
#include <cstdlib>
#include <sstream>

#include <nop/utility/bounded_reader.h>
#include <nop/utility/bounded_writer.h>
#include <nop/utility/buffer_reader.h>
#include <nop/utility/buffer_writer.h>
#include <nop/utility/constexpr_buffer_writer.h>
#include <nop/utility/fd_reader.h>
#include <nop/utility/fd_writer.h>
#include <nop/utility/pedantic_buffer_reader.h>
#include <nop/utility/pedantic_buffer_writer.h>
#include <nop/utility/stream_reader.h>
#include <nop/utility/stream_writer.h>

#include "support/common.h"

namespace nopv {

// ---- out-of-band handle channel ------------------------------------------------------
struct HandleOut {
  std::vector<long long> pushed;                          // handle values, in push order
  std::vector<nop::Status<nop::HandleReference>> script;  // answers; empty => 0,1,2,...
  std::size_t next = 0;
  template <typename H>
  nop::Status<nop::HandleReference> push(const H& h) {
    pushed.push_back(static_cast<long long>(h.get()));
    if (next < script.size()) return script[next++];
    return static_cast<nop::HandleReference>(pushed.size() - 1);
  }
};
struct HandleIn {
  std::vector<long long> table;
  bool echo = false;                 // resolve every reference to a handle carrying the reference itself
  long long fail_at = -1;            // the n-th resolution fails ...
  nop::ErrorStatus fail_err = nop::ErrorStatus::IOError;  // ... with this error
  std::vector<long long> seen;       // references presented, in order
  template <typename H>
  nop::Status<H> get(nop::HandleReference ref) {
    seen.push_back(static_cast<long long>(ref));
    if (static_cast<long long>(seen.size()) - 1 == fail_at) return fail_err;
    if (echo) return H{static_cast<typename H::Type>(ref)};
    if (ref == nop::kEmptyHandleReference) return H{};
    if (ref >= 0 && static_cast<std::size_t>(ref) < table.size())
      return H{static_cast<typename H::Type>(table[static_cast<std::size_t>(ref)])};
    return nop::ErrorStatus::InvalidHandleReference;
  }
};

template <typename W>
struct HW : W {
  using W::W;
  HandleOut* chan = nullptr;
  template <typename H>
  nop::Status<nop::HandleReference> PushHandle(const H& h) { return chan->push(h); }
};
template <typename R>
struct HR : R {
  using R::R;
  HandleIn* chan = nullptr;
  template <typename H>
  nop::Status<H> GetHandle(nop::HandleReference ref) { return chan->template get<H>(ref); }
};

// ---- instrumented reader: canonical trace + fault at the k-th primitive call ------------
struct Trace {
  std::string text;        // canonical: merged reads "r<n>", skips "s<n>", handles "h<ref>"
  std::size_t calls = 0;   // primitive calls issued so far
  long long fault_at = -1; // fail the call with this index ...
  nop::ErrorStatus fault_err = nop::ErrorStatus::IOError;  // ... with this error
  bool failed = false;
  std::size_t calls_after_failure = 0;
  std::size_t pending_read = 0;
  void flush() {
    if (pending_read) { text += "r" + std::to_string(pending_read) + " "; pending_read = 0; }
  }
  // returns true when this call must fail
  bool enter() {
    if (failed) calls_after_failure++;
    bool f = (static_cast<long long>(calls) == fault_at);
    calls++;
    if (f) failed = true;
    return f;
  }
};

template <typename R>
class InstrReader {
 public:
  InstrReader(R base, Trace* t) : base_(std::move(base)), t_(t) {}
  nop::Status<void> Ensure(std::size_t n) {
    if (t_->enter()) return t_->fault_err;
    return base_.Ensure(n);
  }
  nop::Status<void> Read(std::uint8_t* b) {
    if (t_->enter()) return t_->fault_err;
    auto s = base_.Read(b);
    if (s) t_->pending_read += 1; else { t_->flush(); t_->text += "r!1 "; }
    return s;
  }
  template <typename T>
  nop::Status<void> Read(T* b, T* e) {
    if (t_->enter()) return t_->fault_err;
    auto s = base_.Read(b, e);
    std::size_t n = static_cast<std::size_t>(e - b) * sizeof(T);
    if (s) t_->pending_read += n; else { t_->flush(); t_->text += "r!" + std::to_string(n) + " "; }
    return s;
  }
  nop::Status<void> Skip(std::size_t n) {
    if (t_->enter()) return t_->fault_err;
    auto s = base_.Skip(n);
    t_->flush();
    t_->text += (s ? "s" : "s!") + std::to_string(n) + " ";
    return s;
  }
  template <typename H>
  nop::Status<H> GetHandle(nop::HandleReference ref) {
    if (t_->enter()) return t_->fault_err;
    t_->flush();
    t_->text += "h" + std::to_string(ref) + " ";
    return base_.template GetHandle<H>(ref);
  }
  R& base() { return base_; }
 private:
  R base_;
  Trace* t_;
};

struct WTrace {
  std::size_t calls = 0;
  long long fault_at = -1;
  nop::ErrorStatus fault_err = nop::ErrorStatus::IOError;
  bool failed = false;
  std::size_t calls_after_failure = 0;
  std::size_t writes_after_failed_prepare = 0;
  bool prepare_failed = false;
  bool enter(bool is_prepare) {
    if (failed) calls_after_failure++;
    if (prepare_failed && !is_prepare) writes_after_failed_prepare++;
    bool f = (static_cast<long long>(calls) == fault_at);
    calls++;
    if (f) { failed = true; if (is_prepare) prepare_failed = true; }
    return f;
  }
};
template <typename W>
class InstrWriter {
 public:
  InstrWriter(W base, WTrace* t) : base_(std::move(base)), t_(t) {}
  nop::Status<void> Prepare(std::size_t n) {
    if (t_->enter(true)) return t_->fault_err;
    return base_.Prepare(n);
  }
  nop::Status<void> Write(std::uint8_t b) {
    if (t_->enter(false)) return t_->fault_err;
    return base_.Write(b);
  }
  template <typename T>
  nop::Status<void> Write(const T* b, const T* e) {
    if (t_->enter(false)) return t_->fault_err;
    return base_.Write(b, e);
  }
  nop::Status<void> Skip(std::size_t n, std::uint8_t pad = 0x00) {
    if (t_->enter(false)) return t_->fault_err;
    return base_.Skip(n, pad);
  }
  template <typename H>
  nop::Status<nop::HandleReference> PushHandle(const H& h) {
    if (t_->enter(false)) return t_->fault_err;
    return base_.PushHandle(h);
  }
  W& base() { return base_; }
 private:
  W base_;
  WTrace* t_;
};

// ---- allocation accounting -----------------------------------------------------------
struct AllocStats {
  std::size_t total = 0;
  std::size_t max_single = 0;
  std::size_t limit = SIZE_MAX;   // a request above this throws std::bad_alloc
  bool over_limit = false;
  bool active = false;
};
AllocStats& alloc_stats();

// exactly-sized heap block: ASan sees one byte past the end
struct Heap {
  std::uint8_t* p; std::size_t n;
  explicit Heap(const std::vector<std::uint8_t>& v) : p(static_cast<std::uint8_t*>(std::malloc(v.size() ? v.size() : 1))), n(v.size()) {
    if (n) std::memcpy(p, v.data(), n);
  }
  ~Heap() { std::free(p); }
  Heap(const Heap&) = delete;
};

// memfd-backed file descriptors for FdReader / FdWriter (no pipe capacity limits)
inline int make_memfd() { return memfd_create("nopv", 0); }

// Deterministic short reads: read(2) on the designated descriptor hands over at most a few bytes
// per call, as a pipe or socket fed in pieces does (a reader that assumes a full transfer shows).
inline int& short_read_fd() { static int fd = -1; return fd; }
inline unsigned& short_read_tick() { static unsigned t = 0; return t; }

}  // namespace nopv

#include <sys/syscall.h>
extern "C" inline ssize_t read(int fd, void* buf, size_t n) {
  if (fd >= 0 && fd == nopv::short_read_fd() && n > 1) n = 1 + (nopv::short_read_tick()++ % 3);
  return syscall(SYS_read, fd, buf, n);
}
