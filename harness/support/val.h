// Dump C++ objects as the neutral `Val` text of the line protocol, independently of
// libnop's own reflection (only the generated nopv_* visitors are used).
#pragma once
#include <algorithm>
#include "support/common.h"

namespace nopv {

template <typename T, typename Enable = void> struct Conv;

// canon = true: maps printed with entries sorted by their text (comparison form);
// canon = false: maps printed in the container's own iteration order (encoder input).
template <typename T>
void dump(const T& v, std::string& out, bool canon) { Conv<T>::dump(v, out, canon); }
template <typename T>
std::string dump_str(const T& v, bool canon) { std::string s; dump(v, s, canon); return s; }

template <> struct Conv<bool> {
  static void dump(const bool& v, std::string& out, bool) {
    unsigned char c;  // read the object representation: a hostile BIN payload may have put
    std::memcpy(&c, &v, 1);  // a byte other than 0/1 there (K3)
    out += std::to_string(static_cast<unsigned>(c));
  }
};
template <typename T>
struct Conv<T, std::enable_if_t<std::is_integral<T>::value && !std::is_same<T, bool>::value>> {
  static void dump(const T& v, std::string& out, bool) {
    if (std::is_same<T, char>::value) out += std::to_string(static_cast<unsigned>(static_cast<unsigned char>(v)));
    else if (std::is_signed<T>::value) out += std::to_string(static_cast<long long>(v));
    else out += std::to_string(static_cast<unsigned long long>(v));
  }
};
template <typename T>
struct Conv<T, std::enable_if_t<std::is_enum<T>::value>> {
  static void dump(const T& v, std::string& out, bool c) {
    using U = std::underlying_type_t<T>;
    U u;
    std::memcpy(&u, &v, sizeof(u));
    Conv<U>::dump(u, out, c);
  }
};
template <> struct Conv<float> {
  static void dump(const float& v, std::string& out, bool) {
    std::uint32_t b; std::memcpy(&b, &v, 4); out += std::to_string(b);
  }
};
template <> struct Conv<double> {
  static void dump(const double& v, std::string& out, bool) {
    std::uint64_t b; std::memcpy(&b, &v, 8); out += std::to_string(b);
  }
};
template <typename C, typename Tr, typename A>
struct Conv<std::basic_string<C, Tr, A>> {
  static void dump(const std::basic_string<C, Tr, A>& v, std::string& out, bool) {
    out += "(l";
    for (C ch : v) {
      out += ' ';
      out += std::to_string(static_cast<unsigned long long>(static_cast<std::make_unsigned_t<C>>(ch)));
    }
    out += ')';
  }
};
template <typename It>
void dump_range(It b, It e, std::string& out, bool canon) {
  out += "(l";
  for (; b != e; ++b) { out += ' '; dump(*b, out, canon); }
  out += ')';
}
template <typename T, typename A>
struct Conv<std::vector<T, A>> {
  static void dump(const std::vector<T, A>& v, std::string& out, bool c) { dump_range(v.begin(), v.end(), out, c); }
};
template <typename T, std::size_t N>
struct Conv<std::array<T, N>> {
  static void dump(const std::array<T, N>& v, std::string& out, bool c) { dump_range(v.begin(), v.end(), out, c); }
};
template <typename T, std::size_t N>
struct Conv<T[N]> {
  static void dump(const T (&v)[N], std::string& out, bool c) { dump_range(&v[0], &v[0] + N, out, c); }
};
template <typename A, typename N>
struct Conv<LBuf<A, N>> {
  static void dump(const LBuf<A, N>& v, std::string& out, bool c) {
    long long n = static_cast<long long>(v.n);
    constexpr long long cap = static_cast<long long>(ArrLen<std::remove_const_t<A>>::value);
    if (n < 0) n = 0;
    if (n > cap) n = cap;  // never touch memory beyond the array
    out += "(l";
    for (long long i = 0; i < n; i++) { out += ' '; nopv::dump(v.data[i], out, c); }
    out += ')';
  }
};
template <typename A, typename B>
struct Conv<std::pair<A, B>> {
  static void dump(const std::pair<A, B>& v, std::string& out, bool c) {
    out += "(l "; nopv::dump(v.first, out, c); out += ' '; nopv::dump(v.second, out, c); out += ')';
  }
};
template <typename... Ts>
struct Conv<std::tuple<Ts...>> {
  template <std::size_t... Is>
  static void go(const std::tuple<Ts...>& v, std::string& out, bool c, std::index_sequence<Is...>) {
    (void)v; (void)c;
    (void)std::initializer_list<int>{((out += ' '), nopv::dump(std::get<Is>(v), out, c), 0)...};
  }
  static void dump(const std::tuple<Ts...>& v, std::string& out, bool c) {
    out += "(l"; go(v, out, c, std::index_sequence_for<Ts...>{}); out += ')';
  }
};
template <typename M>
void dump_map(const M& m, std::string& out, bool canon) {
  std::vector<std::string> es;
  for (const auto& kv : m) {
    std::string e = "(l ";
    dump(kv.first, e, canon); e += ' '; dump(kv.second, e, canon); e += ')';
    es.push_back(std::move(e));
  }
  if (canon) std::sort(es.begin(), es.end());
  out += "(l";
  for (auto& e : es) { out += ' '; out += e; }
  out += ')';
}
template <typename K, typename V, typename... R>
struct Conv<std::map<K, V, R...>> {
  static void dump(const std::map<K, V, R...>& v, std::string& out, bool c) { dump_map(v, out, c); }
};
template <typename K, typename V, typename... R>
struct Conv<std::unordered_map<K, V, R...>> {
  static void dump(const std::unordered_map<K, V, R...>& v, std::string& out, bool c) { dump_map(v, out, c); }
};
template <typename T>
struct Conv<nop::Optional<T>> {
  static void dump(const nop::Optional<T>& v, std::string& out, bool c) {
    if (v.empty()) out += "nil";
    else { out += "(t 1 "; nopv::dump(v.get(), out, c); out += ')'; }
  }
};
template <typename T, std::uint64_t Id>
struct Conv<nop::Entry<T, Id, nop::ActiveEntry>> {
  static void dump(const nop::Entry<T, Id, nop::ActiveEntry>& v, std::string& out, bool c) {
    if (v.empty()) out += "nil";
    else { out += "(t 1 "; nopv::dump(v.get(), out, c); out += ')'; }
  }
};
template <typename T, std::uint64_t Id>
struct Conv<nop::Entry<T, Id, nop::DeletedEntry>> {
  static void dump(const nop::Entry<T, Id, nop::DeletedEntry>&, std::string& out, bool) { out += "nil"; }
};
template <typename E, typename T>
struct Conv<nop::Result<E, T>> {
  static void dump(const nop::Result<E, T>& v, std::string& out, bool c) {
    if (v.has_value()) { out += "(t 1 "; nopv::dump(v.get(), out, c); out += ')'; }
    else { out += "(t 0 "; nopv::dump(v.error(), out, c); out += ')'; }
  }
};
struct DumpVisitor {
  std::string& out; bool c;
  void operator()(nop::EmptyVariant) const { out += "nil"; }
  template <typename U> void operator()(const U& u) const { nopv::dump(u, out, c); }
};
template <typename... Ts>
struct Conv<nop::Variant<Ts...>> {
  static void dump(const nop::Variant<Ts...>& v, std::string& out, bool c) {
    out += "(t "; out += std::to_string(v.index()); out += ' ';
    v.Visit(DumpVisitor{out, c});
    out += ')';
  }
};
template <typename P>
struct Conv<nop::Handle<P>> {
  static void dump(const nop::Handle<P>& v, std::string& out, bool) { out += std::to_string(v.get()); }
};
struct MemberDump {
  std::string& out; bool c;
  template <typename U> void operator()(const U& u) const { out += ' '; nopv::dump(u, out, c); }
};
template <typename T>
struct Conv<T, std::enable_if_t<is_kind<T, StructTag>::value>> {
  static void dump(const T& v, std::string& out, bool c) {
    out += "(l"; v.nopv_members(MemberDump{out, c}); out += ')';
  }
};
struct WrapDump {
  std::string& out; bool c;
  template <typename U> void operator()(const U& u) const { nopv::dump(u, out, c); }
};
template <typename T>
struct Conv<T, std::enable_if_t<is_kind<T, WrapTag>::value>> {
  static void dump(const T& v, std::string& out, bool c) { v.nopv_members(WrapDump{out, c}); }
};
template <typename T>
struct Conv<T, std::enable_if_t<is_kind<T, TableTag>::value>> {
  static void dump(const T& v, std::string& out, bool c) {
    out += "(l"; v.nopv_entries(MemberDump{out, c}); out += ')';
  }
};

}  // namespace nopv
