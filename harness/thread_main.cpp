// Concurrency engine of the correspondence harness (C19), built with -fsanitize=thread.
// N threads start together and each runs, on its own objects only:
//   * codec round trips (structures, containers, optional, variant, table) through buffer and
//     stream writers / readers, and RPC dispatch over its own connection buffers;
//   * ThreadLocal<T, Slot> construction / Initialize / Get / Clear on slot types shared by all
//     threads.
// Results per thread are compared with the same work done sequentially (X lines on a difference),
// ThreadLocal observations are sent to the model (M tl ... / I ...), and ThreadSanitizer aborts
// the run (non-zero exit) on any data race.
#include <array>
#include <atomic>
#include <cstdint>
#include <cstdio>
#include <cstdlib>
#include <functional>
#include <limits>
#include <map>
#include <sstream>
#include <string>
#include <thread>
#include <vector>

#include <nop/rpc/interface.h>
#include <nop/rpc/simple_method_receiver.h>
#include <nop/serializer.h>
#include <nop/structure.h>
#include <nop/table.h>
#include <nop/types/optional.h>
#include <nop/types/thread_local.h>
#include <nop/types/variant.h>
#include <nop/utility/buffer_reader.h>
#include <nop/utility/buffer_writer.h>
#include <nop/utility/stream_reader.h>
#include <nop/utility/stream_writer.h>

struct Rng {
  std::uint64_t s;
  explicit Rng(std::uint64_t seed) : s(seed * 0x9e3779b97f4a7c15ULL + 0x1234567ULL) {}
  std::uint64_t next() {
    std::uint64_t z = (s += 0x9e3779b97f4a7c15ULL);
    z = (z ^ (z >> 30)) * 0xbf58476d1ce4e5b9ULL;
    z = (z ^ (z >> 27)) * 0x94d049bb133111ebULL;
    return z ^ (z >> 31);
  }
  std::uint64_t below(std::uint64_t n) { return n ? next() % n : 0; }
};

struct Inner { std::uint8_t a; std::string s; NOP_STRUCTURE(Inner, a, s); };
struct Tab { nop::Entry<std::uint32_t, 1> x; nop::Entry<std::vector<std::string>, 2> names; NOP_TABLE_HASH(77, Tab, x, names); };
struct Msg {
  std::int64_t id;
  std::vector<std::int32_t> nums;
  std::map<std::uint8_t, std::string> dict;
  nop::Optional<Inner> inner;
  nop::Variant<std::int32_t, std::string, Inner> var;
  Tab tab;
  NOP_STRUCTURE(Msg, id, nums, dict, inner, var, tab);
};

static std::string rstr(Rng& r) { std::string s(r.below(12), 'x'); for (auto& ch : s) ch = static_cast<char>('a' + r.below(26)); return s; }
static Msg make(Rng& r) {
  Msg m;
  m.id = static_cast<std::int64_t>(r.next());
  m.nums.resize(r.below(20)); for (auto& n : m.nums) n = static_cast<std::int32_t>(r.next());
  for (std::uint64_t i = r.below(5); i > 0; i--) m.dict[static_cast<std::uint8_t>(r.next())] = rstr(r);
  if (r.below(2)) m.inner = Inner{static_cast<std::uint8_t>(r.next()), rstr(r)};
  switch (r.below(4)) { case 0: m.var = static_cast<std::int32_t>(r.next()); break; case 1: m.var = rstr(r); break; case 2: m.var = Inner{7, rstr(r)}; break; default: break; }
  if (r.below(2)) m.tab.x = static_cast<std::uint32_t>(r.next());
  if (r.below(2)) { std::vector<std::string> v(r.below(4)); for (auto& s : v) s = rstr(r); m.tab.names = v; }
  return m;
}
static std::uint64_t fnv(const std::string& s, std::uint64_t h = 1469598103934665603ULL) { for (unsigned char ch : s) { h ^= ch; h *= 1099511628211ULL; } return h; }

struct Calc {
  NOP_INTERFACE("io.nopv.harness.Calc");
  NOP_METHOD(Add, std::int64_t(std::int32_t, std::int32_t));
  NOP_METHOD(Cat, std::string(std::string, std::vector<std::string>));
  NOP_INTERFACE_API(Add, Cat);
};

// the work one thread does on its own objects; returns a digest of everything it produced
static std::uint64_t codec_work(std::uint64_t seed, int rounds) {
  Rng r(seed);
  std::uint64_t digest = 0;
  auto bindings = nop::BindInterface(
      Calc::Add::Bind([](std::int32_t a, std::int32_t b) { return static_cast<std::int64_t>(a) + b; }),
      Calc::Cat::Bind([](const std::string& a, const std::vector<std::string>& v) { std::string s = a; for (auto& x : v) s += x; return s; }));
  for (int i = 0; i < rounds; i++) {
    Msg m = make(r);
    std::vector<std::uint8_t> buf(4096);
    nop::Serializer<nop::BufferWriter> ser{buf.data(), buf.size()};
    if (!ser.Write(m)) return ~0ULL;
    const std::size_t n = ser.writer().size();
    digest = fnv(std::string(buf.begin(), buf.begin() + static_cast<long>(n)), digest ^ n);
    nop::Deserializer<nop::BufferReader> des{buf.data(), n};
    Msg back;
    if (!des.Read(&back)) return ~0ULL - 1;
    nop::Serializer<nop::StreamWriter<std::stringstream>> ser2;
    if (!ser2.Write(back)) return ~0ULL - 2;
    std::string again = ser2.writer().stream().str();
    if (again != std::string(buf.begin(), buf.begin() + static_cast<long>(n))) return ~0ULL - 3;
    nop::Deserializer<nop::StreamReader<std::stringstream>> des2{again};
    Msg back2;
    if (!des2.Read(&back2) || back2.id != m.id || back2.nums != m.nums || back2.dict != m.dict) return ~0ULL - 4;
    // an RPC on this thread's own connection buffers
    {
      std::stringstream req;
      nop::Serializer<nop::StreamWriter<std::stringstream>> cs;
      const std::int32_t a = static_cast<std::int32_t>(r.next()), b = static_cast<std::int32_t>(r.next());
      const bool add = r.below(2) == 0;
      if (add) { if (!cs.Write(Calc::Add::Selector) || !cs.Write(std::make_tuple(a, b))) return ~0ULL - 5; }
      else { if (!cs.Write(Calc::Cat::Selector) || !cs.Write(std::make_tuple(rstr(r), m.tab.names ? m.tab.names.get() : std::vector<std::string>{}))) return ~0ULL - 5; }
      std::string wire = cs.writer().stream().str();
      nop::Deserializer<nop::BufferReader> sd{wire.data(), wire.size()};
      nop::Serializer<nop::StreamWriter<std::stringstream>> ss;
      auto recv = nop::MakeSimpleMethodReceiver(&ss, &sd);
      if (!bindings(&recv)) return ~0ULL - 6;
      digest = fnv(ss.writer().stream().str(), digest);
      if (add) {
        std::string reply = ss.writer().stream().str();
        nop::Deserializer<nop::BufferReader> rd{reply.data(), reply.size()};
        std::int64_t sum = 0;
        if (!rd.Read(&sum) || sum != static_cast<std::int64_t>(a) + b) return ~0ULL - 7;
      }
    }
  }
  return digest;
}

// ---- ThreadLocal ------------------------------------------------------------------------------
template <int Slot> struct TLType;
template <> struct TLType<0> { using type = nop::ThreadLocal<long, nop::ThreadLocalIndexSlot<0>>; };
template <> struct TLType<1> { using type = nop::ThreadLocal<long, nop::ThreadLocalIndexSlot<1>>; };
template <> struct TLType<2> { using type = nop::ThreadLocal<int, nop::ThreadLocalIndexSlot<0>>; };      // other T, same index
template <> struct TLType<3> { using type = nop::ThreadLocal<long>; };                                     // default slot
constexpr int kSlots = 4;

struct TLTrace { std::string ops, obs; };

template <int Slot>
void tl_op(int kind, long v, bool* has, TLTrace* t) {
  using TL = typename TLType<Slot>::type;
  using VT = typename TL::ValueType;
  auto put = [&](const std::string& op, const std::string& ob) { if (!t->ops.empty()) { t->ops += ' '; t->obs += ' '; } t->ops += op; t->obs += ob; };
  // the initialiser is passed as an rvalue, an lvalue or a const lvalue in turn: one slot per (T, Slot),
  // whatever the shape of the arguments
  VT lv = static_cast<VT>(v); const VT clv = static_cast<VT>(v);
  VT lv1 = static_cast<VT>(v + 1); const VT clv1 = static_cast<VT>(v + 1);
  if (kind == 0) {              // a ThreadLocal object constructed with a value (initialises when empty)
    long got = 0;
    if (v % 3 == 0) { TL tl{static_cast<VT>(v)}; got = static_cast<long>(tl.Get()); }
    else if (v % 3 == 1) { TL tl{lv}; got = static_cast<long>(tl.Get()); }
    else { TL tl{clv}; got = static_cast<long>(tl.Get()); }
    has[Slot] = true;
    put("i." + std::to_string(Slot) + "." + std::to_string(v), std::to_string(got));
  } else if (kind == 1) {       // Initialize through an object constructed with a value: same rule, twice
    TL tl{clv};
    if (v % 3 == 0) tl.Initialize(static_cast<VT>(v + 1)); else if (v % 3 == 1) tl.Initialize(lv1); else tl.Initialize(clv1);
    has[Slot] = true;
    put("i." + std::to_string(Slot) + "." + std::to_string(v), std::to_string(static_cast<long>(tl.Get())));
    put("i." + std::to_string(Slot) + "." + std::to_string(v + 1), std::to_string(static_cast<long>(tl.Get())));
  } else if (kind == 2) {       // Get (only defined when a value is there)
    if (!has[Slot]) { put("g." + std::to_string(Slot), "-"); return; }
    TL tl{static_cast<VT>(-999)};
    put("g." + std::to_string(Slot), std::to_string(static_cast<long>(tl.Get())));
  } else {                      // Clear
    if (!has[Slot]) { put("c." + std::to_string(Slot), "-"); return; }
    TL tl{static_cast<VT>(-999)};
    tl.Clear();
    has[Slot] = false;
    put("c." + std::to_string(Slot), "-");
  }
}

static TLTrace tl_work(std::uint64_t seed, int nops) {
  Rng r(seed);
  TLTrace t;
  bool has[kSlots] = {false, false, false, false};
  for (int i = 0; i < nops; i++) {
    int slot = static_cast<int>(r.below(kSlots)), kind = static_cast<int>(r.below(4));
    long v = static_cast<long>(r.below(100000));
    switch (slot) {
      case 0: tl_op<0>(kind, v, has, &t); break; case 1: tl_op<1>(kind, v, has, &t); break;
      case 2: tl_op<2>(kind, v, has, &t); break; default: tl_op<3>(kind, v, has, &t); break;
    }
    if (r.below(8) == 0) std::this_thread::yield();
  }
  return t;
}

int main(int argc, char** argv) {
  std::uint64_t seed = 1; bool thorough = false; unsigned shard = 0;
  for (int i = 1; i < argc; i++) {
    std::string a = argv[i];
    if (a == "--seed" && i + 1 < argc) seed = std::strtoull(argv[++i], nullptr, 10);
    else if (a == "--thorough") thorough = true;
    else if (a == "--shard" && i + 1 < argc) shard = static_cast<unsigned>(std::atoi(argv[++i]));
    else if ((a == "--nshard" || a == "--mode") && i + 1 < argc) ++i;
  }
  const int nthreads = 6;
  const int batches = thorough ? 40 : 6;
  const int rounds = thorough ? 120 : 40, nops = thorough ? 400 : 120;
  std::string out;
  long long races_free_batches = 0, tl_ops = 0, codec_rounds = 0;
  for (int b = 0; b < batches; b++) {
    const std::uint64_t base = seed * 7919ULL + shard * 104729ULL + static_cast<std::uint64_t>(b) * 1000003ULL;
    // the sequential reference
    std::vector<std::uint64_t> want(nthreads);
    for (int t = 0; t < nthreads; t++) want[static_cast<std::size_t>(t)] = codec_work(base + static_cast<std::uint64_t>(t), rounds);
    std::vector<std::uint64_t> got(nthreads);
    std::vector<TLTrace> traces(nthreads);
    std::atomic<int> ready{0};
    std::vector<std::thread> th;
    for (int t = 0; t < nthreads; t++)
      th.emplace_back([&, t] {
        ready.fetch_add(1);
        while (ready.load() < nthreads) {}      // start together
        got[static_cast<std::size_t>(t)] = codec_work(base + static_cast<std::uint64_t>(t), rounds);
        traces[static_cast<std::size_t>(t)] = tl_work(base * 31 + static_cast<std::uint64_t>(t), nops);
      });
    for (auto& x : th) x.join();
    for (int t = 0; t < nthreads; t++) {
      if (got[static_cast<std::size_t>(t)] != want[static_cast<std::size_t>(t)])
        out += "X C19 concurrent-result-differs-from-sequential thread=" + std::to_string(t) + " seed=" + std::to_string(base + static_cast<std::uint64_t>(t)) + "\n";
      out += "M tl " + traces[static_cast<std::size_t>(t)].ops + "\n";
      out += "I " + traces[static_cast<std::size_t>(t)].obs + "\n";
      tl_ops += nops; codec_rounds += rounds;
    }
    races_free_batches++;
  }
  out += "S thread batches (6 threads each) " + std::to_string(races_free_batches) + "\n";
  out += "S ThreadLocal operations " + std::to_string(tl_ops) + "\n";
  out += "S concurrent codec+rpc rounds " + std::to_string(codec_rounds) + "\n";
  std::fwrite(out.data(), 1, out.size(), stdout);
  return 0;
}
