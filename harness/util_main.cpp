// Primitive-call, SipHash and HostEndian engine of the correspondence harness.
//   --mode rseq    C16/C17: call sequences on every shipped reader (and BoundedReader over each,
//                  and over a scripted reader that fails at chosen calls)
//   --mode wseq    C16/C17: the same for writers, plus compile-time vs run-time serialization
//   --mode sip     C18: SipHash::Compute at run time / compile time, table hashes, selectors
//   --mode endian  C20: HostEndian<T> for every width, signedness and float/double
// Output protocol as in codec_main.cpp (M / I / X / S lines).
#include <cstdio>
#include <cstdlib>
#include <cstring>
#include <sstream>
#include <string>

#include "support/common.h"
#include "support/io.h"
#include <nop/rpc/interface.h>
#include <nop/utility/endian.h>
#include <nop/utility/sip_hash.h>

using namespace nopv;

struct Ctx {
  std::string mode;
  std::uint64_t seed = 1;
  bool thorough = false;
  std::string out;
  std::map<std::string, long long> stats;
  void line(char tag, const std::string& s) { out.push_back(tag); out.push_back(' '); out += s; out.push_back('\n'); if (out.size() > (1u << 20)) flush(); }
  void flush() { std::fwrite(out.data(), 1, out.size(), stdout); out.clear(); }
  void stat(const std::string& k, long long n = 1) { stats[k] += n; }
};

static std::string tok(const nop::Status<void>& s) { return s ? "ok" : std::string("E:") + status_name(s.error()); }

// ---- scripted wrapped reader / writer: answers from a script, logs every call --------------
struct Script {
  std::vector<nop::ErrorStatus> answers;  // None = succeed; exhausted = succeed
  std::size_t next = 0;
  std::string log;
  std::uint64_t consumed = 0;
  nop::Status<void> answer(char kind, std::uint64_t n, bool counts) {
    nop::ErrorStatus e = next < answers.size() ? answers[next] : nop::ErrorStatus::None;
    next++;
    if (!log.empty()) log += ',';
    log += kind; log += std::to_string(n); log += (e == nop::ErrorStatus::None ? '+' : '-');
    if (e == nop::ErrorStatus::None) { if (counts) consumed += n; return {}; }
    return e;
  }
};
struct ScriptedReader {
  Script* s;
  nop::Status<void> Ensure(std::size_t n) { return s->answer('e', n, false); }
  nop::Status<void> Read(std::uint8_t* b) { auto st = s->answer('r', 1, true); if (st) *b = 0; return st; }
  template <typename T> nop::Status<void> Read(T* b, T* e) {
    auto st = s->answer('r', static_cast<std::uint64_t>(e - b) * sizeof(T), true);
    if (st) std::memset(static_cast<void*>(b), 0, static_cast<std::size_t>(e - b) * sizeof(T));
    return st;
  }
  nop::Status<void> Skip(std::size_t n) { return s->answer('s', n, true); }
};
struct ScriptedWriter {
  Script* s;
  nop::Status<void> Prepare(std::size_t n) { return s->answer('p', n, false); }
  nop::Status<void> Write(std::uint8_t) { return s->answer('w', 1, true); }
  template <typename T> nop::Status<void> Write(const T* b, const T* e) {
    return s->answer('w', static_cast<std::uint64_t>(e - b) * sizeof(T), true);
  }
  nop::Status<void> Skip(std::size_t n, std::uint8_t = 0) { return s->answer('s', n, true); }
};

// ---- running one op on any reader ------------------------------------------------------------
struct ROp { char kind; std::uint64_t n; int w; int c; };  // e,n | r,w,c | s,n | p

static std::string rop_str(const ROp& o) {
  if (o.kind == 'r') return "r" + std::to_string(o.w) + "x" + std::to_string(o.c);
  if (o.kind == 'p') return "p";
  return std::string(1, o.kind) + std::to_string(o.n);
}

template <typename T, typename R>
std::string do_read_w(R& r, int c) {
  std::vector<T> tmp(static_cast<std::size_t>(c) + 1);
  auto st = r.Read(tmp.data(), tmp.data() + c);
  if (!st) return tok(st);
  return "ok:" + hex(reinterpret_cast<const std::uint8_t*>(tmp.data()), static_cast<std::size_t>(c) * sizeof(T));
}
template <typename R>
std::string do_read(R& r, int w, int c) {
  if (w == 1 && c == 1) { std::uint8_t b = 0; auto st = r.Read(&b); return st ? "ok:" + hex(&b, 1) : tok(st); }
  switch (w) {
    case 1: return do_read_w<std::uint8_t>(r, c);
    case 2: return do_read_w<std::uint16_t>(r, c);
    case 4: return do_read_w<std::uint32_t>(r, c);
    default: return do_read_w<std::uint64_t>(r, c);
  }
}
template <typename R> struct has_pad : std::false_type {};
template <typename R> struct has_pad<nop::BoundedReader<R>> : std::true_type {};
template <typename R> struct can_skip : std::true_type {};
template <> struct can_skip<nop::FdReader> : std::false_type {};

template <typename R>
std::string run_rops(R& r, const std::vector<ROp>& ops) {
  std::string out;
  for (const ROp& o : ops) {
    if (!out.empty()) out += ' ';
    if (o.kind == 'e') out += tok(r.Ensure(static_cast<std::size_t>(o.n)));
    else if (o.kind == 'r') out += do_read(r, o.w, o.c);
    else if (o.kind == 's') { if constexpr (can_skip<R>::value) out += tok(r.Skip(static_cast<std::size_t>(o.n))); else std::abort(); }
    else if (o.kind == 'p') { if constexpr (has_pad<R>::value) out += tok(r.ReadPadding()); else std::abort(); }
  }
  return out;
}

// stream / fd readers: behaviour after the first failing call is outside the contract
// ("equivalence is required up to and including the first failing call"): cut the sequence there
template <typename Op>
static void cut_after_failure(std::vector<Op>& ops, std::string& res) {
  std::istringstream is(res); std::string t; std::size_t i = 0; std::string kept;
  while (is >> t) {
    if (!kept.empty()) kept += ' ';
    kept += t; i++;
    if (t.rfind("E:", 0) == 0) break;
  }
  ops.resize(i); res = kept;
}

// limits of a bounded wrapper over a scripted (memory-less) reader / writer: small most of the time, sometimes
// around the 32-bit boundary or near the top of the 64-bit range, so that counters narrower than size_t show
static std::uint64_t pick_limit(Rng& g) {
  switch (g.below(12)) {
    case 0: return (1ULL << 32) - 4 + g.below(24);
    case 1: return (1ULL << 32) + 16;
    case 2: return (1ULL << 33) + g.below(9);
    case 3: return (1ULL << 63) + g.below(5);
    case 4: return UINT64_MAX - g.below(9);
    default: return g.below(24);
  }
}

static std::uint64_t pick_size(Rng& g, std::uint64_t rem) {
  switch (g.below(10)) {
    case 0: return 0;
    case 1: return 1;
    case 2: return rem;
    case 3: return rem + 1;
    case 4: return rem > 0 ? rem - 1 : 0;
    case 5: return UINT64_MAX;
    case 6: return 1ULL << 63;
    case 7: return UINT64_MAX - g.below(16);
    default: return g.below(rem + 4);
  }
}

static std::vector<ROp> gen_rops(Rng& g, std::size_t srclen, bool skips, bool pads, bool huge, int maxlen) {
  std::vector<ROp> ops;
  int n = 1 + static_cast<int>(g.below(static_cast<std::uint64_t>(maxlen)));
  std::uint64_t rem = srclen;
  for (int i = 0; i < n; i++) {
    ROp o{};
    std::uint64_t k = g.below(100);
    if (k < 25) { o.kind = 'e'; o.n = huge ? pick_size(g, rem) : g.below(rem + 4); }
    else if (k < 65 || !skips) {
      o.kind = 'r';
      static const int ws[] = {1, 2, 4, 8};
      o.w = ws[g.below(4)];
      o.c = static_cast<int>(g.below(5));
      if (g.chance(25) && rem / static_cast<std::uint64_t>(o.w) < 12) o.c = static_cast<int>(rem / static_cast<std::uint64_t>(o.w)) + static_cast<int>(g.below(2));
      std::uint64_t bytes = static_cast<std::uint64_t>(o.w) * static_cast<std::uint64_t>(o.c);
      if (bytes <= rem) rem -= bytes;
    } else if (k < 92 || !pads) {
      o.kind = 's'; o.n = huge ? pick_size(g, rem) : g.below(rem + 4);
      if (o.n <= rem) rem -= o.n;
    } else { o.kind = 'p'; }
    ops.push_back(o);
  }
  return ops;
}

static void mode_rseq(Ctx& c) {
  Rng g(c.seed * 7 + 11);
  const int rounds = c.thorough ? 60000 : 4000;
  for (int it = 0; it < rounds; it++) {
    std::vector<std::uint8_t> src(g.below(40));
    for (auto& b : src) b = static_cast<std::uint8_t>(g.next());
    const std::string srch = hex(src);
    // the same call sequence on every base reader (no skips for fd: it has none)
    bool use_skip = g.chance(70);
    auto ops = gen_rops(g, src.size(), use_skip, false, true, 6);
    std::string opstr; for (auto& o : ops) { opstr += ' '; opstr += rop_str(o); }
    std::vector<std::pair<std::string, std::string>> results;
    {
      Heap h(src); nop::BufferReader r{h.p, h.n};
      results.emplace_back("buf", run_rops(r, ops));
    }
    {
      Heap h(src); nop::PedanticBufferReader r{h.p, h.n};
      results.emplace_back("ped", run_rops(r, ops));
    }
    {
      nop::StreamReader<std::stringstream> r{std::string(src.begin(), src.end())};
      results.emplace_back("stream", run_rops(r, ops));
    }
    if (!use_skip) {
      int fd = make_memfd();
      if (!src.empty() && write(fd, src.data(), src.size()) != static_cast<ssize_t>(src.size())) std::abort();
      lseek(fd, 0, SEEK_SET);
      nop::FdReader r{fd};
      if (it % 2 == 0) nopv::short_read_fd() = fd;   // half of the sequences see short reads
      results.emplace_back("fd", run_rops(r, ops));
      nopv::short_read_fd() = -1;
    }
    for (auto& kv : results) {
      if (kv.first == "stream" || kv.first == "fd") {
        auto cops = ops; std::string cres = kv.second;
        cut_after_failure(cops, cres);
        std::string cstr; for (auto& o : cops) { cstr += ' '; cstr += rop_str(o); }
        c.line('M', "rseq " + kv.first + " " + srch + cstr);
        c.line('I', cres + " log=-");
      } else {
        c.line('M', "rseq " + kv.first + " " + srch + opstr);
        c.line('I', kv.second + " log=-");
      }
      c.stat("reader_sequences");
    }
    // one contract: up to and including the first failing call all readers agree (modulo the error code)
    {
      auto strip = [](const std::string& s) {  // results up to and including first failure, codes erased
        std::string o; std::istringstream is(s); std::string t;
        while (is >> t) { if (t.rfind("E:", 0) == 0) { o += "E "; break; } o += t + " "; }
        return o;
      };
      // Ensure is unconditional on stream/fd readers by documented design: compare without ensure results
      auto noens = [&](const std::string& s) {
        std::string o; std::istringstream is(s); std::string t; std::size_t i = 0;
        while (is >> t) { if (ops[i].kind != 'e') { if (t.rfind("E:", 0) == 0) { o += "E "; break; } o += t + " "; } i++; }
        return o;
      };
      if (strip(results[0].second) != strip(results[1].second))
        c.line('X', "C17 readers-differ src=" + srch + " ops=" + opstr + " buf=" + results[0].second + " ped=" + results[1].second);
      for (std::size_t k = 2; k < results.size(); k++)
        if (noens(results[0].second) != noens(results[k].second))
          c.line('X', "C17 readers-differ src=" + srch + " ops=" + opstr + " buf=" + results[0].second + " " + results[k].first + "=" + results[k].second);
    }
    // BoundedReader over each base reader
    {
      std::uint64_t limit = g.chance(30) ? src.size() : g.below(src.size() + 4);
      auto bops = gen_rops(g, static_cast<std::size_t>(limit), true, true, true, 6);
      std::string bopstr; for (auto& o : bops) { bopstr += ' '; bopstr += rop_str(o); }
      {
        Heap h(src); nop::BufferReader inner{h.p, h.n};
        nop::BoundedReader<nop::BufferReader> r{&inner, static_cast<std::size_t>(limit)};
        std::string res = run_rops(r, bops);
        c.line('M', "rseq b:" + std::to_string(limit) + ":buf " + srch + bopstr);
        c.line('I', res + " log=-");
        if (src.size() - inner.remaining() > limit)
          c.line('X', "C16 limit-exceeded limit=" + std::to_string(limit) + " consumed=" + std::to_string(src.size() - inner.remaining()) + " ops=" + bopstr);
      }
      {
        nop::StreamReader<std::stringstream> inner{std::string(src.begin(), src.end())};
        nop::BoundedReader<nop::StreamReader<std::stringstream>> r{&inner, static_cast<std::size_t>(limit)};
        std::string res = run_rops(r, bops);
        auto cops = bops; cut_after_failure(cops, res);
        std::string cstr; for (auto& o : cops) { cstr += ' '; cstr += rop_str(o); }
        c.line('M', "rseq b:" + std::to_string(limit) + ":stream " + srch + cstr);
        c.line('I', res + " log=-");
      }
      c.stat("bounded_reader_sequences", 2);
    }
    // BoundedReader over a scripted reader that fails where told
    {
      std::uint64_t limit = pick_limit(g);
      Script sc;
      std::string ans;
      int na = static_cast<int>(g.below(5));
      static const nop::ErrorStatus errs[] = {nop::ErrorStatus::IOError, nop::ErrorStatus::StreamError, nop::ErrorStatus::ReadLimitReached};
      for (int i = 0; i < na; i++) {
        nop::ErrorStatus e = g.chance(45) ? errs[g.below(3)] : nop::ErrorStatus::None;
        sc.answers.push_back(e);
        if (i) ans += ',';
        ans += (e == nop::ErrorStatus::None ? "0" : status_name(e));
      }
      if (ans.empty()) ans = "-";
      auto sops = gen_rops(g, static_cast<std::size_t>(limit), true, true, true, 7);
      std::string sopstr; for (auto& o : sops) { sopstr += ' '; sopstr += rop_str(o); }
      ScriptedReader inner{&sc};
      nop::BoundedReader<ScriptedReader> r{&inner, static_cast<std::size_t>(limit)};
      std::string res = run_rops(r, sops);
      c.line('M', "rseq bs:" + std::to_string(limit) + ":" + ans + " -" + sopstr);
      c.line('I', res + " log=" + (sc.log.empty() ? "-" : sc.log));
      if (sc.consumed > limit)
        c.line('X', "C16 limit-exceeded limit=" + std::to_string(limit) + " consumed=" + std::to_string(sc.consumed) + " ops=" + sopstr + " log=" + sc.log);
      if (sc.consumed != r.size())
        c.line('X', "C16 budget-miscounted limit=" + std::to_string(limit) + " charged=" + std::to_string(r.size()) + " consumed=" + std::to_string(sc.consumed) + " ops=" + sopstr + " log=" + sc.log);
      c.stat("scripted_reader_sequences");
    }
  }
}

// ---- writers -----------------------------------------------------------------------------------
struct WOp { char kind; std::uint64_t n; int pad; int w; std::vector<std::uint8_t> bytes; };  // p,n | w,bytes | s,n,pad | P,pad
static std::string wop_str(const WOp& o) {
  if (o.kind == 'p') return "p" + std::to_string(o.n);
  if (o.kind == 'w') return "w" + hex(o.bytes);
  if (o.kind == 's') return "s" + std::to_string(o.n) + "/" + std::to_string(o.pad);
  return "P" + std::to_string(o.pad);
}
template <typename T, typename Wt>
nop::Status<void> do_write_w(Wt& w, const std::vector<std::uint8_t>& b) {
  std::vector<T> tmp(b.size() / sizeof(T) + 1);
  if (!b.empty()) std::memcpy(tmp.data(), b.data(), b.size());
  return w.Write(tmp.data(), tmp.data() + b.size() / sizeof(T));
}
template <typename Wt> struct has_wpad : std::false_type {};
template <typename Wt> struct has_wpad<nop::BoundedWriter<Wt>> : std::true_type {};
template <typename Wt> struct can_wskip : std::true_type {};
template <> struct can_wskip<nop::FdWriter> : std::false_type {};

template <typename Wt>
std::string run_wops(Wt& w, const std::vector<WOp>& ops) {
  std::string out;
  for (const WOp& o : ops) {
    if (!out.empty()) out += ' ';
    if (o.kind == 'p') out += tok(w.Prepare(static_cast<std::size_t>(o.n)));
    else if (o.kind == 'w') {
      if (o.bytes.size() == 1 && o.w == 1) out += tok(w.Write(o.bytes[0]));
      else switch (o.w) {
        case 1: out += tok(do_write_w<std::uint8_t>(w, o.bytes)); break;
        case 2: out += tok(do_write_w<std::uint16_t>(w, o.bytes)); break;
        case 4: out += tok(do_write_w<std::uint32_t>(w, o.bytes)); break;
        default: out += tok(do_write_w<std::uint64_t>(w, o.bytes)); break;
      }
    } else if (o.kind == 's') { if constexpr (can_wskip<Wt>::value) out += tok(w.Skip(static_cast<std::size_t>(o.n), static_cast<std::uint8_t>(o.pad))); else std::abort(); }
    else { if constexpr (has_wpad<Wt>::value) out += tok(w.WritePadding(static_cast<std::uint8_t>(o.pad))); else std::abort(); }
  }
  return out;
}

// `room` = bytes that may still be written without leaving the buffer; when `inbounds` the generator
// never asks an unchecked writer for more (the BufferWriter contract: Prepare first)
static std::vector<WOp> gen_wops(Rng& g, std::uint64_t room, bool inbounds, bool skips, bool pads, bool huge, int maxlen, bool bigskips = false) {
  std::vector<WOp> ops;
  int n = 1 + static_cast<int>(g.below(static_cast<std::uint64_t>(maxlen)));
  for (int i = 0; i < n; i++) {
    WOp o{};
    std::uint64_t k = g.below(100);
    if (k < 25) { o.kind = 'p'; o.n = huge ? pick_size(g, room) : g.below(room + 4); }
    else if (k < 65 || !skips) {
      o.kind = 'w';
      static const int ws[] = {1, 2, 4, 8};
      o.w = ws[g.below(4)];
      std::uint64_t cnt = g.below(4);
      std::uint64_t bytes = cnt * static_cast<std::uint64_t>(o.w);
      if (inbounds && bytes > room) { cnt = room / static_cast<std::uint64_t>(o.w); bytes = cnt * static_cast<std::uint64_t>(o.w); }
      o.bytes.resize(static_cast<std::size_t>(bytes));
      for (auto& b : o.bytes) b = static_cast<std::uint8_t>(g.next());
      if (bytes <= room) room -= bytes;
    } else if (k < 92 || !pads) {
      o.kind = 's'; o.pad = static_cast<int>(g.below(256));
      o.n = inbounds ? g.below(room + 1) : (huge ? pick_size(g, room) : g.below(room + 4));
      if (!bigskips && o.n > 64 && o.n <= room) o.n = 64 < room ? 64 : room;
      if (o.n <= room) room -= o.n;
    } else { o.kind = 'P'; o.pad = static_cast<int>(g.below(256)); }
    ops.push_back(o);
  }
  return ops;
}

template <typename Wt>
void buffer_writer_case(Ctx& c, const char* name, std::size_t cap, const std::vector<WOp>& ops, const std::string& opstr) {
  std::vector<std::uint8_t> buf(cap + 32, 0xA5);
  Wt w{buf.data(), cap};
  std::string res = run_wops(w, ops);
  bool guard = true;
  for (std::size_t i = cap; i < cap + 32; i++) if (buf[i] != 0xA5) guard = false;
  std::size_t n = w.size() <= cap ? w.size() : cap;
  c.line('M', std::string("wseq ") + name + " " + std::to_string(cap) + opstr);
  c.line('I', res + " out=" + hex(buf.data(), n) + " log=-");
  if (!guard) c.line('X', std::string("C17 wrote-beyond-capacity writer=") + name + " cap=" + std::to_string(cap) + " ops=" + opstr);
  c.stat("writer_sequences");
}

// compile-time serialization (ConstexprBufferWriter in a constant expression)
struct CxS { std::uint8_t a; std::int16_t b; std::uint32_t c; std::int64_t d; NOP_STRUCTURE(CxS, a, b, c, d); };
template <std::size_t N> struct CxBuf { std::uint8_t d[N]; std::size_t n; };
template <std::size_t N, typename T>
constexpr CxBuf<N> cx_serialize(const T& v) {
  CxBuf<N> r{};
  nop::Serializer<nop::ConstexprBufferWriter> ser{r.d, N};
  auto st = ser.Write(v);
  r.n = st ? ser.writer().size() : 0;
  return r;
}
template <typename T>
std::vector<std::uint8_t> rt_serialize(const T& v) {
  std::vector<std::uint8_t> buf(256);
  nop::Serializer<nop::BufferWriter> ser{buf.data(), buf.size()};
  if (!ser.Write(v)) return {};
  buf.resize(ser.writer().size());
  return buf;
}
#define CX_CASE(TYPE, EXPR, SEXP, VAL)                                                              \
  {                                                                                                 \
    constexpr TYPE cv = EXPR;                                                                       \
    constexpr auto cb = cx_serialize<64>(cv);                                                       \
    auto rb = rt_serialize(cv);                                                                     \
    std::vector<std::uint8_t> cbv(cb.d, cb.d + cb.n);                                               \
    c.line('M', std::string("T ") + std::to_string(tid) + " " + SEXP);                              \
    c.line('M', std::string("enc ") + std::to_string(tid) + " " + VAL + " -");                      \
    c.line('I', "ok " + hex(cbv) + " " + std::to_string(cbv.size()) + " -");                        \
    if (cbv != rb) c.line('X', std::string("C17 compile-time-differs type=") + SEXP + " compile=" + hex(cbv) + " run=" + hex(rb)); \
    tid++; c.stat("constexpr_cases");                                                               \
  }

static void mode_wseq(Ctx& c) {
  Rng g(c.seed * 13 + 5);
  const int rounds = c.thorough ? 60000 : 4000;
  for (int it = 0; it < rounds; it++) {
    std::size_t cap = static_cast<std::size_t>(g.below(40));
    // checked writers: anything goes
    {
      auto ops = gen_wops(g, cap, false, true, false, true, 6);
      std::string opstr; for (auto& o : ops) { opstr += ' '; opstr += wop_str(o); }
      buffer_writer_case<nop::PedanticBufferWriter>(c, "ped", cap, ops, opstr);
      buffer_writer_case<nop::ConstexprBufferWriter>(c, "cex", cap, ops, opstr);
    }
    // all writers, in-bounds sequences: same byte stream everywhere
    {
      auto ops = gen_wops(g, cap, true, false, false, true, 6);
      std::string opstr; for (auto& o : ops) { opstr += ' '; opstr += wop_str(o); }
      buffer_writer_case<nop::BufferWriter>(c, "buf", cap, ops, opstr);
      buffer_writer_case<nop::PedanticBufferWriter>(c, "ped", cap, ops, opstr);
      buffer_writer_case<nop::ConstexprBufferWriter>(c, "cex", cap, ops, opstr);
      {
        nop::StreamWriter<std::stringstream> w;
        std::string res = run_wops(w, ops);
        std::string s = w.stream().str();
        c.line('M', "wseq stream " + std::to_string(cap) + opstr);
        c.line('I', res + " out=" + hex(reinterpret_cast<const std::uint8_t*>(s.data()), s.size()) + " log=-");
      }
      {
        int fd = make_memfd();
        std::string res;
        { nop::FdWriter w{dup(fd)}; res = run_wops(w, ops); }
        off_t n = lseek(fd, 0, SEEK_END);
        std::vector<std::uint8_t> b(static_cast<std::size_t>(n));
        if (n > 0 && pread(fd, b.data(), b.size(), 0) != n) std::abort();
        close(fd);
        c.line('M', "wseq fd " + std::to_string(cap) + opstr);
        c.line('I', res + " out=" + hex(b) + " log=-");
      }
      c.stat("writer_sequences", 2);
    }
    // BoundedWriter over checked buffer writers
    {
      std::uint64_t limit = g.below(cap + 6);
      auto ops = gen_wops(g, limit, false, true, true, true, 6);
      std::string opstr; for (auto& o : ops) { opstr += ' '; opstr += wop_str(o); }
      {
        std::vector<std::uint8_t> buf(cap + 32, 0xA5);
        nop::PedanticBufferWriter inner{buf.data(), cap};
        nop::BoundedWriter<nop::PedanticBufferWriter> w{&inner, static_cast<std::size_t>(limit)};
        std::string res = run_wops(w, ops);
        c.line('M', "wseq b:" + std::to_string(limit) + ":ped " + std::to_string(cap) + opstr);
        c.line('I', res + " out=" + hex(buf.data(), inner.size() <= cap ? inner.size() : cap) + " log=-");
        if (inner.size() > limit) c.line('X', "C16 write-limit-exceeded limit=" + std::to_string(limit) + " written=" + std::to_string(inner.size()) + " ops=" + opstr);
      }
      {
        nop::StreamWriter<std::stringstream> inner;
        nop::BoundedWriter<nop::StreamWriter<std::stringstream>> w{&inner, static_cast<std::size_t>(limit)};
        bool big = false; for (auto& o : ops) if (o.kind == 's' && o.n > 4096 && o.n <= limit) big = true;
        if (!big) {
          std::string res = run_wops(w, ops);
          std::string s = inner.stream().str();
          c.line('M', "wseq b:" + std::to_string(limit) + ":stream " + std::to_string(cap) + opstr);
          c.line('I', res + " out=" + hex(reinterpret_cast<const std::uint8_t*>(s.data()), s.size()) + " log=-");
        }
      }
      c.stat("bounded_writer_sequences", 2);
    }
    // BoundedWriter over a scripted writer
    {
      std::uint64_t limit = pick_limit(g);
      Script sc; std::string ans;
      int na = static_cast<int>(g.below(5));
      static const nop::ErrorStatus errs[] = {nop::ErrorStatus::IOError, nop::ErrorStatus::StreamError, nop::ErrorStatus::WriteLimitReached};
      for (int i = 0; i < na; i++) {
        nop::ErrorStatus e = g.chance(45) ? errs[g.below(3)] : nop::ErrorStatus::None;
        sc.answers.push_back(e);
        if (i) ans += ',';
        ans += (e == nop::ErrorStatus::None ? "0" : status_name(e));
      }
      if (ans.empty()) ans = "-";
      auto ops = gen_wops(g, limit, false, true, true, true, 7, true);
      std::string opstr; for (auto& o : ops) { opstr += ' '; opstr += wop_str(o); }
      ScriptedWriter inner{&sc};
      nop::BoundedWriter<ScriptedWriter> w{&inner, static_cast<std::size_t>(limit)};
      std::string res = run_wops(w, ops);
      c.line('M', "wseq bs:" + std::to_string(limit) + ":" + ans + " 0" + opstr);
      c.line('I', res + " out=- log=" + (sc.log.empty() ? "-" : sc.log));
      if (sc.consumed > limit)
        c.line('X', "C16 write-limit-exceeded limit=" + std::to_string(limit) + " accepted=" + std::to_string(sc.consumed) + " ops=" + opstr + " log=" + sc.log);
      if (sc.consumed != w.size())
        c.line('X', "C16 budget-miscounted limit=" + std::to_string(limit) + " charged=" + std::to_string(w.size()) + " accepted=" + std::to_string(sc.consumed) + " ops=" + opstr + " log=" + sc.log);
      c.stat("scripted_writer_sequences");
    }
  }
  int tid = 0;
  CX_CASE(std::uint8_t, 200, "(int u8)", "200")
  CX_CASE(std::int8_t, -100, "(int i8)", "-100")
  CX_CASE(std::uint16_t, 0xbeef, "(int u16)", "48879")
  CX_CASE(std::int16_t, -30000, "(int i16)", "-30000")
  CX_CASE(std::uint32_t, 0xdeadbeefu, "(int u32)", "3735928559")
  CX_CASE(std::int32_t, -2000000000, "(int i32)", "-2000000000")
  CX_CASE(std::uint64_t, 0x0123456789abcdefULL, "(int u64)", "81985529216486895")
  CX_CASE(std::int64_t, -0x0123456789abcdefLL, "(int i64)", "-81985529216486895")
  {
    using A = std::array<std::uint32_t, 3>;
    CX_CASE(A, (A{{0x01020304u, 0xa0b0c0d0u, 7u}}), "(seq (array 3) (int u32))", "(l 16909060 2695938256 7)")
  }
  {
    using A = std::array<std::int16_t, 2>;
    CX_CASE(A, (A{{-2, 0x1234}}), "(seq (array 2) (int i16))", "(l -2 4660)")
  }
  {
    using A = std::array<std::uint64_t, 2>;
    CX_CASE(A, (A{{0x1122334455667788ULL, 1ULL}}), "(seq (array 2) (int u64))", "(l 1234605616436508552 1)")
  }
  CX_CASE(CxS, (CxS{255, -129, 65536, -2147483649LL}), "(struct (int u8) (int i16) (int u32) (int i64))", "(l 255 -129 65536 -2147483649)")
}

// ---- SipHash ----------------------------------------------------------------------------------
#define SIP_NAMES(X) \
  X(n0, "") X(n1, "a") X(n2, "Table") X(n3, "1234567") X(n4, "12345678") X(n5, "123456789") \
  X(n6, "com.example.Service.VeryLongInterfaceNameThatSpansSeveralBlocks") \
  X(n7, "\xc3\xa9t\xc3\xa9") X(n8, "\xff\x80\x81 high bytes \xfe") \
  X(n9, "0123456789abcdef0123456789abcdef0123456789abcdef0123456789abcdef0123456789abcdef0123456789abcdef0123456789abcdef0123456789abcdef0123456789abcdef0123456789abcdef0123456789abcdef0123456789abcdef0123456789abcdef0123456789abcdef0123456789abcdef0123456789abcdef-over-255")

#define DECL_TABLE(id, name) struct Tab_##id { nop::Entry<int, 1> e; NOP_TABLE_NS(name, Tab_##id, e); };
SIP_NAMES(DECL_TABLE)
#define DECL_IFACE(id, name)                                           \
  struct If64_##id : nop::Interface<If64_##id> {                       \
    NOP_INTERFACE(name);                                               \
    NOP_METHOD(Alpha, int(int));                                       \
    NOP_METHOD(Beta_method_with_a_longer_name, void(const std::string&)); \
    NOP_INTERFACE_API(Alpha, Beta_method_with_a_longer_name);          \
  };                                                                   \
  struct If32_##id : nop::Interface<If32_##id> {                       \
    NOP_INTERFACE32(name);                                             \
    NOP_METHOD(Alpha, int(int));                                       \
    NOP_METHOD(Beta_method_with_a_longer_name, void(const std::string&)); \
    NOP_INTERFACE_API(Alpha, Beta_method_with_a_longer_name);          \
  };
SIP_NAMES(DECL_IFACE)

static std::string name_hex(const char* s, std::size_t n) { return hex(reinterpret_cast<const std::uint8_t*>(s), n); }

static void mode_sip(Ctx& c) {
  Rng g(c.seed * 17 + 3);
  const int maxlen = c.thorough ? 1100 : 300;
  for (int len = 0; len <= maxlen; len++) {
    int reps = c.thorough ? 8 : 2;
    for (int rep = 0; rep < reps; rep++) {
      std::vector<std::uint8_t> m(static_cast<std::size_t>(len));
      for (auto& b : m) b = rep == 0 ? static_cast<std::uint8_t>(0x80 | g.next()) : static_cast<std::uint8_t>(g.next());
      std::uint64_t k0 = g.next(), k1 = g.next();
      std::uint64_t hu = nop::SipHash::Compute(nop::BlockReader<std::uint8_t>(m.data(), m.size()), k0, k1);
      std::uint64_t hc = nop::SipHash::Compute(nop::BlockReader<char>(reinterpret_cast<const char*>(m.data()), m.size()), k0, k1);
      std::uint64_t hs = nop::SipHash::Compute(nop::BlockReader<signed char>(reinterpret_cast<const signed char*>(m.data()), m.size()), k0, k1);
      c.line('M', "sip " + hex(m) + " " + std::to_string(k0) + " " + std::to_string(k1));
      c.line('I', std::to_string(hu));
      c.line('M', "sipspec " + hex(m) + " " + std::to_string(k0) + " " + std::to_string(k1));
      c.line('I', std::to_string(hc));
      if (hu != hc || hu != hs)
        c.line('X', "C18 element-type-dependent len=" + std::to_string(len) + " bytes=" + hex(m) + " uint8=" + std::to_string(hu) + " char=" + std::to_string(hc) + " schar=" + std::to_string(hs));
      c.stat("sip_inputs");
    }
  }
  // compile time = run time = model, on literals (including their terminating NUL)
#define SIP_LIT(id, name)                                                                              \
  {                                                                                                    \
    constexpr std::uint64_t ct = nop::SipHash::Compute(name, 0x0706050403020100ULL, 0x0f0e0d0c0b0a0908ULL); \
    const char lit[] = name;                                                                           \
    std::uint64_t rt = nop::SipHash::Compute(nop::BlockReader<char>(lit, sizeof(lit)), 0x0706050403020100ULL, 0x0f0e0d0c0b0a0908ULL); \
    c.line('M', "sip " + name_hex(lit, sizeof(lit)) + " 506097522914230528 1084818905618843912");      \
    c.line('I', std::to_string(ct));                                                                   \
    if (ct != rt) c.line('X', std::string("C18 compile-time-differs name=") + name_hex(lit, sizeof(lit) - 1) + " compile=" + std::to_string(ct) + " run=" + std::to_string(rt)); \
    c.line('M', "tabhash " + name_hex(lit, sizeof(lit) - 1));                                          \
    c.line('I', std::to_string(static_cast<std::uint64_t>(nop::EntryListTraits<Tab_##id>::EntryList::Hash))); \
    c.line('M', "ifchash " + name_hex(lit, sizeof(lit) - 1));                                          \
    c.line('I', std::to_string(If64_##id::GetInterfaceHash()));                                        \
    c.line('M', "ifchash " + name_hex(lit, sizeof(lit) - 1));                                          \
    c.line('I', std::to_string(If32_##id::GetInterfaceHash()));                                        \
    c.line('M', "sel64 " + name_hex(lit, sizeof(lit) - 1) + " " + name_hex("Alpha", 5));              \
    c.line('I', std::to_string(static_cast<std::uint64_t>(If64_##id::Alpha::Selector)));              \
    c.line('M', "sel64 " + name_hex(lit, sizeof(lit) - 1) + " " + name_hex("Beta_method_with_a_longer_name", 30)); \
    c.line('I', std::to_string(static_cast<std::uint64_t>(If64_##id::Beta_method_with_a_longer_name::Selector))); \
    c.line('M', "sel32 " + name_hex(lit, sizeof(lit) - 1) + " " + name_hex("Alpha", 5));              \
    c.line('I', std::to_string(static_cast<std::uint64_t>(If32_##id::Alpha::Selector)));              \
    c.line('M', "sel32 " + name_hex(lit, sizeof(lit) - 1) + " " + name_hex("Beta_method_with_a_longer_name", 30)); \
    c.line('I', std::to_string(static_cast<std::uint64_t>(If32_##id::Beta_method_with_a_longer_name::Selector))); \
    c.stat("sip_names");                                                                               \
  }
  SIP_NAMES(SIP_LIT)
}

// ---- HostEndian ---------------------------------------------------------------------------------
template <typename U, typename S>
void endian_case(Ctx& c, U x) {
  using H = nop::HostEndian<U>;
  U fl = H::FromLittle(x), fb = H::FromBig(x), tl = H::ToLittle(x), tb = H::ToBig(x);
  c.line('M', "endian " + std::to_string(sizeof(U)) + " " + std::to_string(static_cast<unsigned long long>(x)));
  c.line('I', std::to_string(static_cast<unsigned long long>(fl)) + " " + std::to_string(static_cast<unsigned long long>(fb)));
  S sx; std::memcpy(&sx, &x, sizeof(U));
  S sfl = nop::HostEndian<S>::FromLittle(sx), sfb = nop::HostEndian<S>::FromBig(sx);
  S stl = nop::HostEndian<S>::ToLittle(sx), stb = nop::HostEndian<S>::ToBig(sx);
  U ufl, ufb, utl, utb;
  std::memcpy(&ufl, &sfl, sizeof(U)); std::memcpy(&ufb, &sfb, sizeof(U));
  std::memcpy(&utl, &stl, sizeof(U)); std::memcpy(&utb, &stb, sizeof(U));
  std::string why;
  if (tl != fl || tb != fb) why = "to-differs-from-from";
  else if (ufl != fl || ufb != fb || utl != fl || utb != fb) why = "signed-differs-from-unsigned";
  else if (H::FromBig(H::ToBig(x)) != x || H::FromLittle(H::ToLittle(x)) != x) why = "not-inverse";
  if (!why.empty())
    c.line('X', "C20 " + why + " width=" + std::to_string(sizeof(U)) + " x=" + std::to_string(static_cast<unsigned long long>(x)));
  c.stat("endian_values");
}
template <typename F, typename U>
void endian_float_case(Ctx& c, U bits) {
  F f; std::memcpy(&f, &bits, sizeof(U));
  using H = nop::HostEndian<F>;
  F fl = H::FromLittle(f), fb = H::FromBig(f), tl = H::ToLittle(f), tb = H::ToBig(f);
  U ufl, ufb, utl, utb;
  std::memcpy(&ufl, &fl, sizeof(U)); std::memcpy(&ufb, &fb, sizeof(U)); std::memcpy(&utl, &tl, sizeof(U)); std::memcpy(&utb, &tb, sizeof(U));
  c.line('M', "endian " + std::to_string(sizeof(U)) + " " + std::to_string(static_cast<unsigned long long>(bits)));
  c.line('I', std::to_string(static_cast<unsigned long long>(ufl)) + " " + std::to_string(static_cast<unsigned long long>(ufb)));
  F back = H::FromBig(H::ToBig(f)); U ub; std::memcpy(&ub, &back, sizeof(U));
  if (utl != ufl || utb != ufb || ub != bits)
    c.line('X', "C20 float-conversion width=" + std::to_string(sizeof(U)) + " bits=" + std::to_string(static_cast<unsigned long long>(bits)));
  c.stat("endian_float_values");
}

static void mode_endian(Ctx& c) {
  Rng g(c.seed * 19 + 1);
  for (unsigned x = 0; x < 256; x++) endian_case<std::uint8_t, std::int8_t>(c, static_cast<std::uint8_t>(x));
  for (unsigned x = 0; x < 65536; x += (c.thorough ? 1 : 1)) endian_case<std::uint16_t, std::int16_t>(c, static_cast<std::uint16_t>(x));
  const int n = c.thorough ? 2000000 : 30000;
  static const std::uint64_t pats[] = {0, 1, 0x80, 0xff, 0x8000, 0x00ff00ffULL, 0xff00ff00ULL, 0x80000000ULL, 0xffffffffULL, 0x01020304ULL,
                                       0x0102030405060708ULL, 0x8000000000000000ULL, 0xffffffffffffffffULL, 0x00000000ffffffffULL,
                                       0xff00000000000000ULL, 0x3f800000ULL, 0x7fc00001ULL, 0xffc12345ULL, 0x7ff8000000000001ULL, 0xfff8123456789abcULL,
                                       0x80000000ULL, 0x8000000000000000ULL, 0x00000080ULL};
  for (std::uint64_t p : pats) {
    endian_case<std::uint32_t, std::int32_t>(c, static_cast<std::uint32_t>(p));
    endian_case<std::uint64_t, std::int64_t>(c, p);
    endian_float_case<float, std::uint32_t>(c, static_cast<std::uint32_t>(p));
    endian_float_case<double, std::uint64_t>(c, p);
  }
  for (int i = 0; i < n; i++) {
    std::uint64_t r = g.next();
    if (g.chance(30)) r &= g.next();       // sparse patterns
    if (g.chance(10)) r |= 0x8080808080808080ULL;
    endian_case<std::uint32_t, std::int32_t>(c, static_cast<std::uint32_t>(r));
    endian_case<std::uint64_t, std::int64_t>(c, r);
    if (i % 4 == 0) {
      endian_float_case<float, std::uint32_t>(c, static_cast<std::uint32_t>(r >> 7));
      endian_float_case<double, std::uint64_t>(c, r);
    }
  }
}

int main(int argc, char** argv) {
  install_death_hooks();
  Ctx c;
  for (int i = 1; i < argc; i++) {
    std::string a = argv[i];
    if (a == "--mode" && i + 1 < argc) c.mode = argv[++i];
    else if (a == "--seed" && i + 1 < argc) c.seed = std::strtoull(argv[++i], nullptr, 10);
    else if (a == "--thorough") c.thorough = true;
    else { std::fprintf(stderr, "bad arg %s\n", a.c_str()); return 2; }
  }
  if (c.mode == "rseq") mode_rseq(c);
  else if (c.mode == "wseq") mode_wseq(c);
  else if (c.mode == "sip") mode_sip(c);
  else if (c.mode == "endian") mode_endian(c);
  else { std::fprintf(stderr, "unknown mode\n"); return 2; }
  for (auto& kv : c.stats) c.line('S', kv.first + " " + std::to_string(kv.second));
  c.flush();
  return 0;
}
