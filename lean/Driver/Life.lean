import NopModel.Variant
import NopModel.OptCmp
import NopModel.Handle
import NopModel.Threads
/-! Driver engine for the lifetime machines (Variant / Optional / Entry / Result) and the
Optional comparison operators. -/
namespace Nop.Driver
open Nop.Life

def elemStr (e : Elem) : String := s!"({e.alt},{e.id},{e.val})"

def obsStr : Obs → String
  | .none => "-"
  | .index i => s!"i{i}"
  | .visited none => "v-"
  | .visited (some e) => "v" ++ elemStr e
  | .got none => "g-"
  | .got (some e) => "g" ++ elemStr e
  | .flag b => if b then "f1" else "f0"
  | .error h e => s!"e{if h then 1 else 0}:{e}"
  | .skipped => "skip"

def evStr : Ev → String
  | .ctor id => s!"c{id}"
  | .assign id => s!"a{id}"
  | .dtor id => s!"d{id}"

def varStr : Option VState → String
  | none => "-"
  | some s => match s.slot with
    | some e => s!"{s.index}:{elemStr e}:{s.err}"
    | none => s!"{s.index}:_:{s.err}"

def parseOp (tok : String) : Option Op :=
  let b (s : String) : Option Bool := if s == "1" then some true else if s == "0" then some false else none
  match tok.splitOn "." with
  | ["mkE", v] => do pure (.mkEmpty (← v.toNat?))
  | ["mkV", v, a, x, t] => do pure (.mkValue (← v.toNat?) (← a.toNat?) (← x.toInt?) (← b t))
  | ["mkC", v, s, t] => do pure (.mkCopy (← v.toNat?) (← s.toNat?) (← b t))
  | ["mkM", v, s, t] => do pure (.mkMove (← v.toNat?) (← s.toNat?) (← b t))
  | ["aV", v, a, x, t] => do pure (.assignValue (← v.toNat?) (← a.toNat?) (← x.toInt?) (← b t))
  | ["aC", v, s, t] => do pure (.assignCopy (← v.toNat?) (← s.toNat?) (← b t))
  | ["aM", v, s, t] => do pure (.assignMove (← v.toNat?) (← s.toNat?) (← b t))
  | ["aE", v] => do pure (.assignEmpty (← v.toNat?))
  | ["bc", v, i, t] => do pure (.become (← v.toNat?) (← i.toInt?) (← b t))
  | ["vis", v] => do pure (.visit (← v.toNat?))
  | ["get", v, a] => do pure (.get (← v.toNat?) (← a.toNat?))
  | ["del", v] => do pure (.destroy (← v.toNat?))
  | ["oM", v, s, t] => do pure (.oMoveAssign (← v.toNat?) (← s.toNat?) (← b t))
  | ["rMC", v, s, t] => do pure (.rMoveCtor (← v.toNat?) (← s.toNat?) (← b t))
  | ["rE", v, e] => do pure (.rMkErr (← v.toNat?) (← e.toInt?))
  | ["rAE", v, e] => do pure (.rAssignErr (← v.toNat?) (← e.toInt?))
  | ["rAC", v, s, t] => do pure (.rAssignCopy (← v.toNat?) (← s.toNat?) (← b t))
  | ["xK", v, s, cv, t] => do pure (.cMkCopy (← v.toNat?) (← s.toNat?) (← (cv.splitOn "_").mapM (·.toNat?)) (← b t))
  | ["xA", v, s, cv, t] => do pure (.cAssign (← v.toNat?) (← s.toNat?) (← (cv.splitOn "_").mapM (·.toNat?)) (← b t))
  | ["xM", v, s, cv, t] => do pure (.cMoveAssign (← v.toNat?) (← s.toNat?) (← (cv.splitOn "_").mapM (·.toNat?)) (← b t))
  | ["has", v] => do pure (.has (← v.toNat?))
  | ["err", v] => do pure (.errOf (← v.toNat?))
  | _ => none

def joinOr (l : List String) : String := if l.isEmpty then "-" else ",".intercalate l

def parseO (s : String) : Option Nop.Cmp.O := if s == "e" then some none else s.toInt?.map some

def lifeStep (toks : List String) : Option String :=
  match toks with
  | "life" :: n :: mask :: k :: ops => do
    let n ← n.toNat?
    let mask ← mask.toNat?
    let k ← k.toNat?
    let ops ← ops.mapM parseOp
    let w0 := World.init n (fun a => mask.testBit a) k
    let (w, obs) := ops.foldl (fun (acc : World × Array String) op =>
      let (w', o) := step2 acc.1 op
      (w', acc.2.push (obsStr o))) (w0, #[])
    pure (" ".intercalate obs.toList ++ " | " ++ " ".intercalate (w.vars.map varStr) ++
      " | live=" ++ joinOr (w.live.map toString) ++ " log=" ++ joinOr (w.log.map evStr) ++
      " ub=" ++ (if w.ub then "1" else "0"))
  | "uh" :: k :: ops => do
    let k ← k.toNat?
    let parse (tok : String) : Option UH.Op :=
      match tok.splitOn "." with
      | ["mkE", v] => do pure (.mkEmpty (← v.toNat?))
      | ["mkV", v] => do pure (.mkValue (← v.toNat?))
      | ["mC", v, s] => do pure (.moveCtor (← v.toNat?) (← s.toNat?))
      | ["mA", v, s] => do pure (.moveAssign (← v.toNat?) (← s.toNat?))
      | ["cl", v] => do pure (.close (← v.toNat?))
      | ["rl", v] => do pure (.release (← v.toNat?))
      | ["del", v] => do pure (.destroy (← v.toNat?))
      | ["get", v] => do pure (.get (← v.toNat?))
      | _ => none
    let ops ← ops.mapM parse
    let (w, obs) := ops.foldl (fun (acc : UH.W × Array String) op =>
      let (w', o) := UH.step acc.1 op
      (w', acc.2.push (match o with | .none => "-" | .value x => toString x | .skipped => "skip"))) (UH.W.init, #[])
    let vars := (List.range k).map (fun v => match w.vars v with | none => "-" | some x => toString x)
    pure (" ".intercalate obs.toList ++ " | " ++ " ".intercalate vars ++ " | closed=" ++ joinOr (w.closed.map toString) ++
      " released=" ++ joinOr (w.released.map toString) ++ " next=" ++ toString w.next)
  | "tl" :: ops => do
    -- one thread's operations over several (T, Slot) instantiations: `i.<slot>.<v>`, `g.<slot>`, `c.<slot>`
    let parse (tok : String) : Option (Threads.Ev Nat Threads.TLOp) :=
      match tok.splitOn "." with
      | ["i", k, v] => do pure ((← k.toNat?), .init (← v.toInt?))
      | ["g", k] => do pure ((← k.toNat?), .get)
      | ["c", k] => do pure ((← k.toNat?), .clear)
      | _ => none
    let evs ← ops.mapM parse
    let (_, obs) := Threads.run (Threads.tlSys Nat) (fun _ => none) evs
    pure (" ".intercalate (obs.map (fun p => match p.2 with | none => "-" | some x => toString x)))
  | ["cmp", op, a, b] => do
    let a ← parseO a
    let b ← parseO b
    let r ← Nop.Cmp.evalOp op a b
    pure (if r then "1" else "0")
  | _ => none

end Nop.Driver
