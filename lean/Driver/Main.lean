import Driver.Sexp
import Driver.Util
import Driver.Life
import NopModel.Fungible
import NopModel.Rpc
import NopModel.EncW
open Nop Nop.Driver

structure DState where
  types : Array (Option Ty) := #[]

def DState.ty? (d : DState) (s : String) : Option Ty := do
  let i ← s.toNat?
  (← d.types[i]?)

/-- reader token: buf | ped | stream | fd | b:<limit>:<inner> -/
partial def mkSrc (tok : String) (bytes : Bytes) (handles : List Int) : Option Src :=
  match tok.splitOn ":" with
  | ["buf"] | ["ped"] | ["ptr"] | ["uptr"] => some { bytes, handles }
  | ["stream"] => some { bytes, handles, eof := .streamError, ensureChecks := false }
  | ["fd"] | ["fdpipe"] => some { bytes, handles, eof := .readLimitReached, ensureChecks := false }
  | "b" :: lim :: rest => do
    let n ← lim.toNat?
    let s ← mkSrc (":".intercalate rest) bytes handles
    pure { s with frames := n :: s.frames }
  | _ => none

def atomStr : Sexp → Option String
  | .atom s => some s
  | _ => none

def parseRefs (s : String) : Option (List (Except Err Int)) :=
  if s == "-" then some [] else
  (s.splitOn ",").mapM (fun t => match t.toInt? with
    | some i => some (Except.ok i)
    | none => (Err.ofName? t).map Except.error)

def step (d : DState) (line : String) : DState × Option String :=
  match parseLine line with
  | none => (d, some "bad-op")
  | some [] => (d, none)
  | some (.atom "T" :: .atom id :: ty :: []) =>
    match id.toNat?, toTy ty with
    | some i, some t =>
      let types := if i < d.types.size then d.types.set! i (some t)
        else (d.types ++ Array.replicate (i - d.types.size) none).push (some t)
      ({ d with types }, none)
    | _, _ => (d, some "bad-op")
  | some [.atom "enc", .atom tid, v, .atom refs] =>
    match d.ty? tid, toVal v, parseRefs refs with
    | some t, some v, some rs =>
      match encode t v { refs := rs } with
      | .ok (bs, h) => (d, some s!"ok {toHex bs} {size t v} {showIntList (h.pushed.map (·.1))}")
      | .error e => (d, some s!"err {e.name}")
    | _, _, _ => (d, some "bad-op")
  | some [.atom "dec", .atom tid, .atom rd, .atom hex, prior, .atom hs] =>
    match d.ty? tid, fromHex hex, parseIntList hs with
    | some t, some bs, some handles =>
      let pr? : Option Val := match prior with
        | .atom "-" => some (dflt t)
        | p => toVal p
      match pr?, mkSrc rd bs handles with
      | some pr, some s =>
        match decInto t pr s with
        | (.ok v, s') => (d, some s!"ok {showVal (canon t v)} {bs.length - s'.bytes.length}")
        | (.error e, _) => (d, some s!"err {e.name}")
      | _, _ => (d, some "bad-op")
    | _, _, _ => (d, some "bad-op")
  | some [.atom "fault", .atom "r", .atom tid, .atom k, .atom en, .atom hex, .atom hs] =>
    match d.ty? tid, k.toNat?, Err.ofName? en, fromHex hex, parseIntList hs with
    | some t, some k, some e, some bs, some handles =>
      let s : Src := { bytes := bs, handles, fault := .armed k e }
      match decInto t (dflt t) s with
      | (.ok _, s') =>
        (d, some s!"err none {match s'.fault with | .zombie _ => "zombie" | _ => "clean"}")
      | (.error e', s') =>
        (d, some s!"err {e'.name} {match s'.fault with | .zombie _ => "zombie" | _ => "clean"}")
    | _, _, _, _, _ => (d, some "bad-op")
  | some [.atom "wcap", .atom tid, .atom cap, .atom budget, v, .atom refs] =>
    match d.ty? tid, cap.toNat?, toVal v, parseRefs refs with
    | some t, some c, some v, some rs =>
      let frames := match budget.toNat? with | some b => [b] | none => []
      let s : Snk := { cap := some c, frames, chan := { refs := rs } }
      match serialize t v s with
      | (.ok _, s') => (d, some s!"ok {toHex s'.out}")
      | (.error e, s') => (d, some s!"err {e.name} {s'.out.length}")
    | _, _, _, _ => (d, some "bad-op")
  | some [.atom "fault", .atom "w", .atom tid, .atom k, .atom en, v, .atom refs] =>
    match d.ty? tid, k.toNat?, Err.ofName? en, toVal v, parseRefs refs with
    | some t, some k, some e, some v, some rs =>
      let s : Snk := { chan := { refs := rs }, fault := .armed k e }
      match serialize t v s with
      | (.ok _, s') =>
        (d, some s!"err none {match s'.fault with | .zombie _ => "zombie" | _ => "clean"}")
      | (.error e', s') =>
        (d, some s!"err {e'.name} {match s'.fault with | .zombie _ => "zombie" | _ => "clean"}")
    | _, _, _, _, _ => (d, some "bad-op")
  | some [.atom "rpc", .atom sk, .list (.atom "bs" :: bsx), .atom hex] =>
    let mk (x : Sexp) : Option Rpc.Bound :=
      match x with
      | .list [.atom "b", .atom sel, .atom ta, .atom tr, rv] => do
        let sel ← sel.toNat?
        let a ← d.ty? ta
        let r ← d.ty? tr
        let v ← toVal rv
        let args ← (match a with | .prod _ ts => some ts | _ => none)
        pure { m := { sel, args, ret := r }, handler := fun _ => v }
      | _ => none
    match IntKind.ofName? sk, bsx.mapM mk, fromHex hex with
    | some k, some bs, some bytes =>
      let (r, s') := Rpc.dispatch k bs { bytes := bytes }
      let st := match r.status with | none => "ok" | some e => e.name
      let calls := if r.calls.isEmpty then "-" else
        " ".intercalate (r.calls.map (fun c =>
          let ty := (bs.find? (fun b => b.m.sel == c.1)).map (·.m.argsTy)
          s!"{c.1}:{showVal (match ty with | some t => canon t c.2 | none => c.2)}"))
      (d, some s!"{st} | {calls} | {toHex r.sent} | {bytes.length - s'.bytes.length}")
    | _, _, _ => (d, some "bad-op")
  | some [.atom "fung", .atom ta, .atom tb] =>
    match d.ty? ta, d.ty? tb with
    | some a, some b => (d, some (if fungible a b then "1" else "0"))
    | _, _ => (d, some "bad-op")
  | some [.atom "valid", .atom tid, v] =>
    match d.ty? tid, toVal v with
    | some t, some v => (d, some (if valid t v then "valid" else "invalid"))
    | _, _ => (d, some "bad-op")
  | some (.atom op :: rest) =>
    if ["rseq", "wseq", "sip", "sipspec", "tabhash", "ifchash", "sel64", "sel32", "endian"].contains op then
      match rest.mapM atomStr with
      | some toks => (d, some ((utilStep (op :: toks)).getD "bad-op"))
      | none => (d, some "bad-op")
    else if ["life", "cmp", "uh", "tl"].contains op then
      match rest.mapM atomStr with
      | some toks => (d, some ((lifeStep (op :: toks)).getD "bad-op"))
      | none => (d, some "bad-op")
    else (d, some "bad-op")
  | _ => (d, some "bad-op")

partial def loop (h : IO.FS.Stream) (out : IO.FS.Stream) (d : DState) : IO Unit := do
  let line ← h.getLine
  if line.isEmpty then return ()
  let (d', r) := step d line
  match r with
  | some s => out.putStrLn s
  | none => pure ()
  loop h out d'

def main : IO Unit := do
  let stdin ← IO.getStdin
  let stdout ← IO.getStdout
  loop stdin stdout {}
  stdout.flush
