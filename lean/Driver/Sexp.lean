import NopModel.Codec
/-! S-expression reader/printer for the line protocol. Never defaults: any parse
failure is reported as `none` and the driver answers `bad-op`. -/
namespace Nop.Driver
open Nop

inductive Sexp
  | atom (s : String)
  | list (xs : List Sexp)
  deriving Repr, Inhabited

partial def tokenize (cs : List Char) (cur : String) (acc : Array String) : Array String :=
  match cs with
  | [] => if cur.isEmpty then acc else acc.push cur
  | c :: rest =>
    if c == '(' || c == ')' then
      let acc := if cur.isEmpty then acc else acc.push cur
      tokenize rest "" (acc.push (String.singleton c))
    else if c == ' ' || c == '\t' || c == '\n' || c == '\r' then
      tokenize rest "" (if cur.isEmpty then acc else acc.push cur)
    else tokenize rest (cur.push c) acc

/-- parse one s-expression starting at token `i`; returns it and the next index -/
partial def parseAt (toks : Array String) (i : Nat) : Option (Sexp × Nat) :=
  if h : i < toks.size then
    let t := toks[i]
    if t == "(" then
      let rec go (j : Nat) (acc : Array Sexp) : Option (Sexp × Nat) :=
        if h2 : j < toks.size then
          if toks[j] == ")" then some (.list acc.toList, j + 1)
          else match parseAt toks j with
            | some (x, j') => go j' (acc.push x)
            | none => none
        else none
      go (i + 1) #[]
    else if t == ")" then none
    else some (.atom t, i + 1)
  else none

partial def parseAll (toks : Array String) (i : Nat) (acc : Array Sexp) : Option (Array Sexp) :=
  if i ≥ toks.size then some acc else
  match parseAt toks i with
  | some (x, j) => parseAll toks j (acc.push x)
  | none => none

def parseLine (line : String) : Option (List Sexp) :=
  (parseAll (tokenize line.toList "" #[]) 0 #[]).map (·.toList)

def Sexp.nat? : Sexp → Option Nat
  | .atom s => s.toNat?
  | _ => none
def Sexp.int? : Sexp → Option Int
  | .atom s => s.toInt?
  | _ => none
def Sexp.kind? : Sexp → Option IntKind
  | .atom s => IntKind.ofName? s
  | _ => none

mutual
partial def toTy : Sexp → Option Ty
  | .atom "bool" => some .bool
  | .atom "f32" => some (.float false)
  | .atom "f64" => some (.float true)
  | .list [.atom "int", k] => do pure (.int (← k.kind?) .plain)
  | .list [.atom "char"] => some (.int .u8 .char)
  | .list [.atom "enum", n, k] => do pure (.int (← k.kind?) (.enum (← n.nat?)))
  | .list [.atom "str", n, cb] => do pure (.str (← n.nat?) (← cb.nat?))
  | .list [.atom "seq", f, e] => do
    let fl ← match f with
      | .atom "vector" => some Flavor.vector
      | .list [.atom "array", n] => do pure (Flavor.array (← n.nat?))
      | .list [.atom "carray", n] => do pure (Flavor.carray (← n.nat?))
      | .list [.atom "lbuf", c, k, u] => do pure (Flavor.lbuf (← c.nat?) (← k.kind?) ((← u.nat?) != 0))
      | _ => none
    pure (.seq fl (← toTy e))
  | .list [.atom "pair", a, b] => do pure (.prod .pair [← toTy a, ← toTy b])
  | .list (.atom "tuple" :: ts) => do pure (.prod .tuple (← toTys ts))
  | .list (.atom "struct" :: ts) => do pure (.prod .struct (← toTys ts))
  | .list [.atom "map", .atom o, k, v] =>
    if o == "ord" || o == "unord" then do pure (.map (o == "ord") (← toTy k) (← toTy v)) else none
  | .list [.atom "opt", t] => do pure (.opt (← toTy t))
  | .list [.atom "result", en, k, t] => do pure (.result (← en.nat?) (← k.kind?) (← toTy t))
  | .list (.atom "variant" :: ts) => do pure (.variant (← toTys ts))
  | .list [.atom "handle", p, h, k] => do pure (.handle (← p.nat?) (← h.nat?) (← k.kind?))
  | .list [.atom "wrap", t] => do pure (.wrap (← toTy t))
  | .list [.atom "ref", t] => do pure (.ref (← toTy t))
  | .list (.atom "table" :: h :: es) => do
    let (ents, tys) ← toEnts es
    pure (.table (← h.nat?) ents tys)
  | _ => none
partial def toTys : List Sexp → Option (List Ty)
  | [] => some []
  | x :: xs => do pure ((← toTy x) :: (← toTys xs))
partial def toEnts : List Sexp → Option (List (Nat × Bool) × List Ty)
  | [] => some ([], [])
  | .list [.atom "e", id, .atom ad, t] :: xs =>
    if ad == "a" || ad == "d" then do
      let (es, ts) ← toEnts xs
      pure ((← id.nat?, ad == "d") :: es, (← toTy t) :: ts)
    else none
  | _ => none
end

mutual
partial def toVal : Sexp → Option Val
  | .atom "nil" => some .nil
  | .atom s => (s.toInt?).map Val.int
  | .list (.atom "l" :: xs) => do pure (.list (← toVals xs))
  | .list [.atom "t", i, v] => do pure (.tag (← i.int?) (← toVal v))
  | _ => none
partial def toVals : List Sexp → Option (List Val)
  | [] => some []
  | x :: xs => do pure ((← toVal x) :: (← toVals xs))
end

partial def showVal : Val → String
  | .int i => toString i
  | .nil => "nil"
  | .tag i v => s!"(t {i} {showVal v})"
  | .list vs => "(l" ++ String.join (vs.map (fun v => " " ++ showVal v)) ++ ")"

/-- canonical form for comparison: entries of maps sorted by their printed form -/
partial def canon : Ty → Val → Val
  | .seq _ e, .list vs => .list (vs.map (canon e))
  | .prod _ ts, .list vs => .list (List.zipWith canon ts vs)
  | .map _ k v, .list kvs =>
    let es := kvs.map (fun kv => match kv with
      | .list [a, b] => Val.list [canon k a, canon v b]
      | x => x)
    .list ((es.toArray.qsort (fun a b => showVal a < showVal b)).toList)
  | .opt t, .tag i v => .tag i (canon t v)
  | .result _ _ t, .tag 1 v => .tag 1 (canon t v)
  | .variant ts, .tag i v =>
    if i < 0 then .tag i v else match ts[i.toNat]? with
      | some t => .tag i (canon t v)
      | none => .tag i v
  | .wrap t, v => canon t v
  | .ref t, v => canon t v
  | .table _ _ tys, .list vs =>
    .list (List.zipWith (fun t v => match v with
      | .tag i x => Val.tag i (canon t x)
      | y => y) tys vs)
  | _, v => v

def hexDigit (n : Nat) : Char := if n < 10 then Char.ofNat (48 + n) else Char.ofNat (87 + n)
def toHex (bs : Bytes) : String :=
  if bs.isEmpty then "-" else
  String.mk (bs.flatMap (fun b => [hexDigit (b.toNat / 16), hexDigit (b.toNat % 16)]))
def hexVal (c : Char) : Option Nat :=
  if '0' ≤ c && c ≤ '9' then some (c.toNat - 48)
  else if 'a' ≤ c && c ≤ 'f' then some (c.toNat - 87)
  else none
partial def fromHexChars : List Char → Option Bytes
  | [] => some []
  | a :: b :: rest => do
    let x ← hexVal a; let y ← hexVal b
    pure (UInt8.ofNat (x * 16 + y) :: (← fromHexChars rest))
  | _ => none
def fromHex (s : String) : Option Bytes := if s == "-" then some [] else fromHexChars s.toList

def parseIntList (s : String) : Option (List Int) :=
  if s == "-" then some [] else (s.splitOn ",").mapM (·.toInt?)
def showIntList (l : List Int) : String :=
  if l.isEmpty then "-" else ",".intercalate (l.map toString)

end Nop.Driver
