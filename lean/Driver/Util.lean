import Driver.Sexp
import NopModel.Io
import NopModel.Endian
import NopModel.SipHash
/-! Driver engines for the primitive-call machines, SipHash and HostEndian. -/
namespace Nop.Driver
open Nop Nop.Io

def dropN (s : String) (n : Nat) : String := String.ofList (s.toList.drop n)

def errTok : Option Err → String
  | none => "ok"
  | some e => "E:" ++ e.name

def callTok : Call × Bool → String
  | (.ensure n, b) => s!"e{n}{if b then "+" else "-"}"
  | (.read n, b) => s!"r{n}{if b then "+" else "-"}"
  | (.skip n, b) => s!"s{n}{if b then "+" else "-"}"
  | (.prepare n, b) => s!"p{n}{if b then "+" else "-"}"
  | (.write n, b) => s!"w{n}{if b then "+" else "-"}"

def logStr (l : List (Call × Bool)) : String := if l.isEmpty then "-" else ",".intercalate (l.map callTok)

/-- a reader under test: a machine and its current state -/
inductive RM
  | buf (s : BufR)
  | bbuf (s : Bounded BufR)
  | stream (s : StreamR)
  | bstream (s : Bounded StreamR)
  | fd (s : FdR)
  | bfd (s : Bounded FdR)
  | scr (s : Scripted)
  | bscr (s : Bounded Scripted)
def RM.ensure : RM → Nat → Option Err × RM
  | .buf s, n => let (e, s') := bufRd.ensure n s; (e, .buf s')
  | .bbuf s, n => let (e, s') := (boundedRd bufRd).ensure n s; (e, .bbuf s')
  | .stream s, n => let (e, s') := streamRd.ensure n s; (e, .stream s')
  | .bstream s, n => let (e, s') := (boundedRd streamRd).ensure n s; (e, .bstream s')
  | .fd s, n => let (e, s') := fdRd.ensure n s; (e, .fd s')
  | .bfd s, n => let (e, s') := (boundedRd fdRd).ensure n s; (e, .bfd s')
  | .scr s, n => let (e, s') := scriptedRd.ensure n s; (e, .scr s')
  | .bscr s, n => let (e, s') := (boundedRd scriptedRd).ensure n s; (e, .bscr s')
def RM.read : RM → Nat → Except Err Bytes × RM
  | .buf s, n => let (x, s') := bufRd.read n s; (x, .buf s')
  | .bbuf s, n => let (x, s') := (boundedRd bufRd).read n s; (x, .bbuf s')
  | .stream s, n => let (x, s') := streamRd.read n s; (x, .stream s')
  | .bstream s, n => let (x, s') := (boundedRd streamRd).read n s; (x, .bstream s')
  | .fd s, n => let (x, s') := fdRd.read n s; (x, .fd s')
  | .bfd s, n => let (x, s') := (boundedRd fdRd).read n s; (x, .bfd s')
  | .scr s, n => let (x, s') := scriptedRd.read n s; (x, .scr s')
  | .bscr s, n => let (x, s') := (boundedRd scriptedRd).read n s; (x, .bscr s')
def RM.skip : RM → Nat → Option Err × RM
  | .buf s, n => let (e, s') := bufRd.skip n s; (e, .buf s')
  | .bbuf s, n => let (e, s') := (boundedRd bufRd).skip n s; (e, .bbuf s')
  | .stream s, n => let (e, s') := streamRd.skip n s; (e, .stream s')
  | .bstream s, n => let (e, s') := (boundedRd streamRd).skip n s; (e, .bstream s')
  | .fd s, n => let (e, s') := fdRd.skip n s; (e, .fd s')
  | .bfd s, n => let (e, s') := (boundedRd fdRd).skip n s; (e, .bfd s')
  | .scr s, n => let (e, s') := scriptedRd.skip n s; (e, .scr s')
  | .bscr s, n => let (e, s') := (boundedRd scriptedRd).skip n s; (e, .bscr s')
def RM.pad : RM → Option (Option Err × RM)
  | .bbuf s => some (let (e, s') := readPadding bufRd s; (e, .bbuf s'))
  | .bstream s => some (let (e, s') := readPadding streamRd s; (e, .bstream s'))
  | .bfd s => some (let (e, s') := readPadding fdRd s; (e, .bfd s'))
  | .bscr s => some (let (e, s') := readPadding scriptedRd s; (e, .bscr s'))
  | _ => none
def RM.log : RM → String
  | .scr s => logStr s.log
  | .bscr s => logStr s.inner.log
  | _ => "-"

def parseAnswers (s : String) : Option (List (Option Err)) :=
  if s == "-" then some [] else
  (s.splitOn ",").mapM (fun t => if t == "0" then some none else (Err.ofName? t).map some)

def mkReader (tok : String) (src : Bytes) : Option RM :=
  match tok.splitOn ":" with
  | ["buf"] | ["ped"] => some (.buf { data := src })
  | ["stream"] => some (.stream { data := src })
  | ["fd"] => some (.fd { data := src })
  | ["b", lim, inner] => do
    let n ← lim.toNat?
    match inner with
    | "buf" | "ped" => some (.bbuf { inner := { data := src }, size := n })
    | "stream" => some (.bstream { inner := { data := src }, size := n })
    | "fd" => some (.bfd { inner := { data := src }, size := n })
    | _ => none
  | ["bs", lim, ans] => do
    let n ← lim.toNat?
    let a ← parseAnswers ans
    some (.bscr { inner := { answers := a }, size := n })
  | _ => none

partial def runR (m : RM) (ops : List String) (acc : Array String) : Option (Array String × RM) :=
  match ops with
  | [] => some (acc, m)
  | op :: rest =>
    if op.startsWith "e" then do
      let n ← (dropN op 1).toNat?
      let (e, m') := m.ensure n
      runR m' rest (acc.push (errTok e))
    else if op.startsWith "s" then do
      let n ← (dropN op 1).toNat?
      let (e, m') := m.skip n
      runR m' rest (acc.push (errTok e))
    else if op.startsWith "r" then
      match (dropN op 1).splitOn "x" with
      | [w, c] => do
        let w ← w.toNat?
        let c ← c.toNat?
        match m.read (w * c) with
        | (.ok bs, m') => runR m' rest (acc.push ("ok:" ++ toHex bs))
        | (.error e, m') => runR m' rest (acc.push ("E:" ++ e.name))
      | _ => none
    else if op == "p" then do
      let (e, m') ← m.pad
      runR m' rest (acc.push (errTok e))
    else none

/-- a writer under test -/
inductive WM
  | buf (s : BufW)
  | bbuf (s : Bounded BufW)
  | sink (s : SinkW)
  | bsink (s : Bounded SinkW)
  | scr (s : Scripted)
  | bscr (s : Bounded Scripted)
def WM.prepare : WM → Nat → Option Err × WM
  | .buf s, n => let (e, s') := bufWr.prepare n s; (e, .buf s')
  | .bbuf s, n => let (e, s') := (boundedWr bufWr).prepare n s; (e, .bbuf s')
  | .sink s, n => let (e, s') := sinkWr.prepare n s; (e, .sink s')
  | .bsink s, n => let (e, s') := (boundedWr sinkWr).prepare n s; (e, .bsink s')
  | .scr s, n => let (e, s') := scriptedWr.prepare n s; (e, .scr s')
  | .bscr s, n => let (e, s') := (boundedWr scriptedWr).prepare n s; (e, .bscr s')
def WM.write : WM → Bytes → Option Err × WM
  | .buf s, bs => let (e, s') := bufWr.write bs s; (e, .buf s')
  | .bbuf s, bs => let (e, s') := (boundedWr bufWr).write bs s; (e, .bbuf s')
  | .sink s, bs => let (e, s') := sinkWr.write bs s; (e, .sink s')
  | .bsink s, bs => let (e, s') := (boundedWr sinkWr).write bs s; (e, .bsink s')
  | .scr s, bs => let (e, s') := scriptedWr.write bs s; (e, .scr s')
  | .bscr s, bs => let (e, s') := (boundedWr scriptedWr).write bs s; (e, .bscr s')
def WM.skip : WM → Nat → UInt8 → Option Err × WM
  | .buf s, n, p => let (e, s') := bufWr.skip n p s; (e, .buf s')
  | .bbuf s, n, p => let (e, s') := (boundedWr bufWr).skip n p s; (e, .bbuf s')
  | .sink s, n, p => let (e, s') := sinkWr.skip n p s; (e, .sink s')
  | .bsink s, n, p => let (e, s') := (boundedWr sinkWr).skip n p s; (e, .bsink s')
  | .scr s, n, p => let (e, s') := scriptedWr.skip n p s; (e, .scr s')
  | .bscr s, n, p => let (e, s') := (boundedWr scriptedWr).skip n p s; (e, .bscr s')
def WM.pad : WM → UInt8 → Option (Option Err × WM)
  | .bbuf s, p => some (let (e, s') := writePadding bufWr p s; (e, .bbuf s'))
  | .bsink s, p => some (let (e, s') := writePadding sinkWr p s; (e, .bsink s'))
  | .bscr s, p => some (let (e, s') := writePadding scriptedWr p s; (e, .bscr s'))
  | _, _ => none
def bufOut (s : BufW) : String := toHex s.out ++ (if s.oob then " OOB" else "")
def WM.out : WM → String
  | .buf s => bufOut s
  | .bbuf s => bufOut s.inner
  | .sink s => toHex s.out
  | .bsink s => toHex s.inner.out
  | _ => "-"
def WM.log : WM → String
  | .scr s => logStr s.log
  | .bscr s => logStr s.inner.log
  | _ => "-"

def mkWriter (tok : String) (cap : Nat) : Option WM :=
  match tok.splitOn ":" with
  | ["buf"] => some (.buf { cap, checked := false })
  | ["ped"] | ["cex"] => some (.buf { cap, checked := true })
  | ["stream"] | ["fd"] => some (.sink {})
  | ["b", lim, inner] => do
    let n ← lim.toNat?
    match inner with
    | "buf" => some (.bbuf { inner := { cap, checked := false }, size := n })
    | "ped" | "cex" => some (.bbuf { inner := { cap, checked := true }, size := n })
    | "stream" | "fd" => some (.bsink { inner := {}, size := n })
    | _ => none
  | ["bs", lim, ans] => do
    let n ← lim.toNat?
    let a ← parseAnswers ans
    some (.bscr { inner := { answers := a }, size := n })
  | _ => none

partial def runW (m : WM) (ops : List String) (acc : Array String) : Option (Array String × WM) :=
  match ops with
  | [] => some (acc, m)
  | op :: rest =>
    if op.startsWith "p" then do
      let n ← (dropN op 1).toNat?
      let (e, m') := m.prepare n
      runW m' rest (acc.push (errTok e))
    else if op.startsWith "w" then do
      let bs ← fromHex (dropN op 1)
      let (e, m') := m.write bs
      runW m' rest (acc.push (errTok e))
    else if op.startsWith "s" then
      match (dropN op 1).splitOn "/" with
      | [n, p] => do
        let n ← n.toNat?
        let p ← p.toNat?
        let (e, m') := m.skip n (UInt8.ofNat p)
        runW m' rest (acc.push (errTok e))
      | _ => none
    else if op.startsWith "P" then do
      let p ← (dropN op 1).toNat?
      let (e, m') ← m.pad (UInt8.ofNat p)
      runW m' rest (acc.push (errTok e))
    else none

def utilStep (toks : List String) : Option String :=
  match toks with
  | "rseq" :: rd :: src :: ops => do
    let bs ← fromHex src
    let m ← mkReader rd bs
    let (acc, m') ← runR m ops #[]
    pure (" ".intercalate acc.toList ++ " log=" ++ m'.log)
  | "wseq" :: wr :: cap :: ops => do
    let c ← cap.toNat?
    let m ← mkWriter wr c
    let (acc, m') ← runW m ops #[]
    pure (" ".intercalate acc.toList ++ " out=" ++ m'.out ++ " log=" ++ m'.log)
  | ["sip", hex, k0, k1] => do
    let bs ← fromHex hex
    let a ← k0.toNat?
    let b ← k1.toNat?
    pure (toString (Sip.compute bs (UInt64.ofNat a) (UInt64.ofNat b)).toNat)
  | ["sipspec", hex, k0, k1] => do
    let bs ← fromHex hex
    let a ← k0.toNat?
    let b ← k1.toNat?
    pure (toString (Sip.sipHash24 (UInt64.ofNat a) (UInt64.ofNat b) bs).toNat)
  | ["tabhash", hex] => do pure (toString (Sip.tableHash (← fromHex hex)).toNat)
  | ["ifchash", hex] => do pure (toString (Sip.interfaceHash (← fromHex hex)).toNat)
  | ["sel64", i, m] => do pure (toString (Sip.methodSelector64 (← fromHex i) (← fromHex m)).toNat)
  | ["sel32", i, m] => do pure (toString (Sip.methodSelector32 (← fromHex i) (← fromHex m)).toNat)
  | ["endian", n, x] => do
    let n ← n.toNat?
    let x ← x.toNat?
    pure s!"{Endian.fromLittle true n x} {Endian.fromBig true n x}"
  | _ => none

end Nop.Driver
