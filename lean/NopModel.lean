import NopModel.Wire
import NopModel.Src
import NopModel.Ty
import NopModel.Codec
