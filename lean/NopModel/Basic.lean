def hello := "world"
