/-
  The codec model: `Encoding<T>::{Match, ReadPayload, Read, Write, Size}` for every
  supported `T`, following the headers under include/nop/base function by function.
-/
import NopModel.Src
import NopModel.Ty
namespace Nop

/-! ### raw (BIN / STR) element transfer -/

/-- value of one raw little-endian element of an integral element type -/
def rawToVal (t : Ty) (bs : Bytes) : Val :=
  match t with
  | .int k _ => .int (rawToInt k bs)
  | _ => .int (ofLE bs)             -- bool: the byte itself; string code units: unsigned

def valToRaw (t : Ty) (v : Val) : Bytes :=
  match t, v with
  | .int k _, .int i => intToRaw k i
  | _, .int i => leBytes t.width (toU (8 * t.width) i)
  | _, _ => []

/-- split `n` raw elements of width `w` off a block -/
def rawElems (f : Bytes → Val) (w : Nat) : Nat → Bytes → List Val
  | 0, _ => []
  | n + 1, bs => f (bs.take w) :: rawElems f w n (bs.drop w)

def unitToRaw (cb : Nat) (v : Val) : Bytes :=
  match v with
  | .int i => leBytes cb (toU (8 * cb) i)
  | _ => []

/-! ### `Match` -/

def matchP : Ty → UInt8 → Bool
  | .bool, p => p == 0 || p == 1
  | .int k _, p => intMatch k p
  | .float w, p => if w then p == 0x89 else p == 0x88
  | .str _ _, p => p == 0xbd
  | .seq _ e, p => if e.integral then p == 0xbc else p == 0xba
  | .prod k _, p => if k == .struct then p == 0xb9 else p == 0xba
  | .map _ _ _, p => p == 0xbb
  | .opt t, p => p == 0xbe || matchP t p
  | .result _ _ t, p => p == 0xb6 || matchP t p
  | .variant _, p => p == 0xb8
  | .handle _ _ _, p => p == 0xb7
  | .wrap t, p => matchP t p
  | .ref t, p => matchP t p
  | .table _ _ _, p => p == 0xb5

/-! ### `ReadPayload` -/

/-- key / mapped value of a map entry value `(l k v)` -/
def kvKey (kv : Val) : Val := kv.elems.headD .nil
def kvVal (kv : Val) : Val := kv.elems.tail.headD .nil

/-- keep the first entry for each key (`std::map::emplace` does not overwrite) -/
def dedupKeys : List Val → List Val
  | [] => []
  | kv :: rest =>
    kv :: (dedupKeys rest).filter (fun kv' => !(kvKey kv' == kvKey kv))

/-- BIN payload of an integral-element sequence (vector.h / array.h / logical_buffer.h) -/
def decBin (f : Flavor) (e : Ty) : M Val := do
  let w := e.width
  let sz ← decSize
  match f with
  | .vector =>
    if sz % w != 0 then M.fail .invalidContainerLength else do
      rEnsure sz
      let bs ← rRead sz
      pure (.list (rawElems (rawToVal e) w (sz / w) bs))
  | .array n | .carray n =>
    if sz != n * w then M.fail .invalidContainerLength else do
      let bs ← rRead (n * w)
      pure (.list (rawElems (rawToVal e) w n bs))
  | .lbuf cap sk unb =>
    if (!unb && sz > cap * w) || sz % w != 0 then M.fail .invalidContainerLength
    else if (sk.maxVal : Int) < (sz / w : Nat) then M.fail .invalidContainerLength
    else do
      let bs ← rRead (sz / w * w)
      pure (.list (rawElems (rawToVal e) w (sz / w) bs))

/-- `SkipEntry` (base/table.h) -/
def skipEntry : M Unit := do
  let sz ← decSize
  rSkip sz

mutual
def decPayload : Ty → UInt8 → Val → M Val
  | .bool, p, _ => pure (.int p.toNat)
  | .int k _, p, _ => do let i ← decIntPayload k p; pure (.int i)
  | .float w, _, _ => do let bs ← rRead (if w then 8 else 4); pure (.int (ofLE bs))
  | .str _ cb, _, _ => do
    let lb ← decSize
    if lb % cb != 0 then M.fail .invalidStringLength else do
      rEnsure (lb / cb)            -- string.h ensures the *character count*
      let bs ← rRead (lb / cb * cb)
      pure (.list (rawElems (fun b => .int (ofLE b)) cb (lb / cb) bs))
  | .seq f e, _, prior =>
    if e.integral then decBin f e else
    match f with
    | .vector => do
      let n ← decSize
      let vs ← repM n (withPrefix (matchP e) (fun p => decPayload e p (dflt e)))
      pure (.list vs)
    | .array len | .carray len => do
      let n ← decSize
      if n != len then M.fail .invalidContainerLength else do
        let vs ← repP len prior.elems (dflt e) (fun pr => withPrefix (matchP e) (fun p => decPayload e p pr))
        pure (.list vs)
    | .lbuf cap sk unb => do
      let n ← decSize
      if (!unb && n > cap) || (sk.maxVal : Int) < (n : Nat) then M.fail .invalidContainerLength else do
        let vs ← repP n prior.elems (dflt e) (fun pr => withPrefix (matchP e) (fun p => decPayload e p pr))
        pure (.list vs)
  | .prod k ts, _, prior => do
    let n ← decSize
    if n != ts.length then
      M.fail (if k == .struct then .invalidMemberCount else .invalidContainerLength)
    else do
      let vs ← decProd ts prior.elems
      pure (.list vs)
  | .map _ k v, _, _ => do
    let n ← decSize
    let kvs ← repM n (do
      let a ← withPrefix (matchP k) (fun p => decPayload k p (dflt k))
      let b ← withPrefix (matchP v) (fun p => decPayload v p (dflt v))
      pure (Val.list [a, b]))
    pure (.list (dedupKeys kvs))
  | .opt t, p, _ =>
    if p == 0xbe then pure .nil else do
      let v ← decPayload t p (dflt t)
      pure (.tag 1 v)
  | .result _ ek t, p, _ =>
    if p == 0xb6 then do
      let e ← decInt ek
      pure (.tag 0 (.int e))
    else do
      let v ← decPayload t p (dflt t)
      pure (.tag 1 v)
  | .variant ts, _, prior => do
    let idx ← decInt .i32
    if idx < -1 || (ts.length : Int) ≤ idx then M.fail .unexpectedVariantType
    else if idx == -1 then
      withPrefix (fun p => p == 0xbe) (fun _ => pure (.tag (-1) .nil))
    else do
      let pr : Option Val := match prior with
        | .tag i v => if i == idx then some v else none
        | _ => none
      let v ← decAlt ts idx.toNat pr
      pure (.tag idx v)
  | .handle _ ht tk, _, _ => do
    let h ← decInt tk
    if h != (ht : Int) then M.fail .unexpectedHandleType else do
      let r ← decInt .i64
      let v ← rGetHandle r
      pure (.int v)
  | .wrap t, p, prior => decPayload t p prior
  | .ref t, p, prior => decPayload t p prior
  | .table hash ents tys, _, _ => do
    let h ← decInt .u64
    if h != (hash : Int) then M.fail .invalidTableHash else do
      let n ← decSize
      let vs ← itM n (fun cur => do
        let id ← decInt .u64
        decEntry ents tys id.toNat cur) (List.replicate tys.length .nil)
      pure (.list vs)
/-- tuple elements / structure members, read in place -/
def decProd : List Ty → List Val → M (List Val)
  | [], _ => pure []
  | t :: ts, prs => do
    let v ← withPrefix (matchP t) (fun p => decPayload t p (prs.headD (dflt t)))
    let vs ← decProd ts prs.tail
    pure (v :: vs)
/-- the `i`-th alternative of a variant; `pr` is the element already alive in the
destination when `Become` was a no-op -/
def decAlt : List Ty → Nat → Option Val → M Val
  | [], _, _ => M.fail .unexpectedVariantType
  | t :: _, 0, pr => withPrefix (matchP t) (fun p => decPayload t p (pr.getD (dflt t)))
  | _ :: ts, i + 1, pr => decAlt ts i pr
/-- `ReadEntryForId` + `ReadEntry` / `SkipEntry` -/
def decEntry : List (Nat × Bool) → List Ty → Nat → List Val → M (List Val)
  | (eid, del) :: es, t :: ts, id, c :: cs =>
    if eid == id then
      if del then do skipEntry; pure (c :: cs)
      else if !c.isNil then M.fail .duplicateTableEntry
      else do
        let sz ← decSize
        rPush sz
        let v ← withPrefix (matchP t) (fun p => decPayload t p (dflt t))
        rPadPop
        pure (.tag 1 v :: cs)
    else do
      let r ← decEntry es ts id cs
      pure (c :: r)
  | _, _, _, cur => do skipEntry; pure cur
end

/-- `Encoding<T>::Read` into a destination currently holding `prior` -/
def decInto (t : Ty) (prior : Val) : M Val :=
  withPrefix (matchP t) (fun p => decPayload t p prior)

/-- `Deserializer::Read` into a freshly constructed object -/
def dec (t : Ty) : M Val := decInto t (dflt t)

/-! ### `Write` (prefix + payload) as a pure function to bytes

`hs` is the writer's out-of-band channel: `refs` are the answers `PushHandle` will
give (in order), `pushed` logs the handles handed over. -/

structure HChan where
  refs : List (Except Err Int) := []
  /-- (handle value, reference the writer returned for it), in push order -/
  pushed : List (Int × Int) := []
  deriving Inhabited

abbrev E (α : Type) := HChan → Except Err (α × HChan)

def encSize (n : Nat) : Bytes := encInt .u64 n

/-- a logical buffer whose size member exceeds the array capacity is refused by `Write` -/
def lbufOver : Flavor → Nat → Bool
  | .lbuf cap _ unb, n => !unb && cap < n
  | _, _ => false

/-- fold an encoder over a list, concatenating -/
def encAll {α} (f : α → HChan → Except Err (Bytes × HChan)) : List α → HChan → Except Err (Bytes × HChan)
  | [], h => .ok ([], h)
  | a :: as, h =>
    match f a h with
    | .ok (b, h') =>
      match encAll f as h' with
      | .ok (bs, h'') => .ok (b ++ bs, h'')
      | .error e => .error e
    | .error e => .error e

/-- encode one map entry `(l k v)`: key then mapped value -/
def pairEnc (fk fv : Val → HChan → Except Err (Bytes × HChan)) (kv : Val) (h : HChan) :
    Except Err (Bytes × HChan) :=
  match fk (kvKey kv) h with
  | .ok (a, h') =>
    match fv (kvVal kv) h' with
    | .ok (b, h'') => .ok (a ++ b, h'')
    | .error err => .error err
  | .error err => .error err

def sumMap {α} (f : α → Nat) : List α → Nat
  | [] => 0
  | a :: as => f a + sumMap f as

/-- number of non-empty entries (`ActiveEntryCount`) -/
def activeCount : List Val → Nat
  | [] => 0
  | v :: vs => (if v.isNil then 0 else 1) + activeCount vs

mutual
/-- `Encoding<T>::Size` -/
def size : Ty → Val → Nat
  | .bool, _ => 1
  | .int k _, .int i => (encInt k i).length
  | .float w, _ => if w then 9 else 5
  | .str _ cb, .list vs => 1 + (encSize (vs.length * cb)).length + vs.length * cb
  | .seq _ e, .list vs =>
    if e.integral then 1 + (encSize (vs.length * e.width)).length + vs.length * e.width
    else 1 + (encSize vs.length).length + sumMap (size e) vs
  | .prod _ ts, .list vs => 1 + (encSize ts.length).length + sizeProd ts vs
  | .map _ k v, .list kvs =>
    1 + (encSize kvs.length).length
      + sumMap (fun kv => size k (kvKey kv) + size v (kvVal kv)) kvs
  | .opt _, .nil => 1
  | .opt t, .tag _ v => size t v
  | .result _ ek _, .tag 0 (.int e) => 1 + (encInt ek e).length
  | .result _ _ t, .tag _ v => size t v
  | .variant ts, .tag i v =>
    1 + (encInt .i32 i).length + (if i < 0 then 1 else sizeAlt ts i.toNat v)
  | .handle _ ht tk, _ => 1 + (encInt tk ht).length + 9
  | .wrap t, v => size t v
  | .ref t, v => size t v
  | .table hash ents tys, .list vs =>
    1 + (encInt .u64 hash).length + (encSize (activeCount vs)).length + sizeEntries ents tys vs
  | _, _ => 0
def sizeProd : List Ty → List Val → Nat
  | t :: ts, v :: vs => size t v + sizeProd ts vs
  | _, _ => 0
def sizeAlt : List Ty → Nat → Val → Nat
  | t :: _, 0, v => size t v
  | _ :: ts, i + 1, v => sizeAlt ts i v
  | [], _, _ => 0
def sizeEntries : List (Nat × Bool) → List Ty → List Val → Nat
  | (eid, _) :: es, t :: ts, v :: vs =>
    (match v with
     | .tag _ x => (encInt .u64 eid).length + (encSize (size t x)).length + size t x
     | _ => 0) + sizeEntries es ts vs
  | _, _, _ => 0
end

mutual
/-- `Encoding<T>::Write` -/
def encode : Ty → Val → HChan → Except Err (Bytes × HChan)
  | .bool, .int i, h => .ok ([if i == 0 then 0 else 1], h)
  | .int k _, .int i, h => .ok (encInt k i, h)
  | .float w, .int i, h =>
    .ok ((if w then 0x89 else 0x88) :: leBytes (if w then 8 else 4) i.toNat, h)
  | .str _ cb, .list vs, h =>
    .ok (0xbd :: encSize (vs.length * cb) ++ vs.flatMap (unitToRaw cb), h)
  | .seq f e, .list vs, h =>
    if lbufOver f vs.length then .error .invalidContainerLength
    else if e.integral then
      .ok (0xbc :: encSize (vs.length * e.width) ++ vs.flatMap (valToRaw e), h)
    else
      match encAll (encode e) vs h with
      | .ok (bs, h') => .ok (0xba :: encSize vs.length ++ bs, h')
      | .error err => .error err
  | .prod k ts, .list vs, h =>
    match encProd ts vs h with
    | .ok (bs, h') => .ok ((if k == .struct then 0xb9 else 0xba) :: encSize ts.length ++ bs, h')
    | .error err => .error err
  | .map _ k v, .list kvs, h =>
    match encAll (pairEnc (encode k) (encode v)) kvs h with
    | .ok (bs, h') => .ok (0xbb :: encSize kvs.length ++ bs, h')
    | .error err => .error err
  | .opt _, .nil, h => .ok ([0xbe], h)
  | .opt t, .tag _ v, h => encode t v h
  | .result _ ek _, .tag 0 (.int e), h => .ok (0xb6 :: encInt ek e, h)
  | .result _ _ t, .tag _ v, h => encode t v h
  | .variant ts, .tag i v, h =>
    if i < 0 then .ok (0xb8 :: encInt .i32 i ++ [0xbe], h)
    else
      match encAlt ts i.toNat v h with
      | .ok (bs, h') => .ok (0xb8 :: encInt .i32 i ++ bs, h')
      | .error err => .error err
  | .handle _ ht tk, .int hv, h =>
    match h.refs with
    | [] => .error .invalidHandleValue
    | .error err :: _ => .error err
    | .ok r :: rest =>
      -- HandleReference is std::int64_t: a writer cannot return anything else
      if !IntKind.i64.inRange r then .error .invalidHandleReference else
      .ok (0xb7 :: encInt tk ht ++ encInt .i64 r, { refs := rest, pushed := h.pushed ++ [(hv, r)] })
  | .wrap t, v, h => encode t v h
  | .ref t, v, h => encode t v h
  | .table hash ents tys, .list vs, h =>
    match encEntries ents tys vs h with
    | .ok (bs, h') => .ok (0xb5 :: encInt .u64 hash ++ encSize (activeCount vs) ++ bs, h')
    | .error err => .error err
  | _, _, _ => .error .debugError
def encProd : List Ty → List Val → HChan → Except Err (Bytes × HChan)
  | [], [], h => .ok ([], h)
  | t :: ts, v :: vs, h =>
    match encode t v h with
    | .ok (a, h') =>
      match encProd ts vs h' with
      | .ok (b, h'') => .ok (a ++ b, h'')
      | .error err => .error err
    | .error err => .error err
  | _, _, _ => .error .debugError
def encAlt : List Ty → Nat → Val → HChan → Except Err (Bytes × HChan)
  | t :: _, 0, v, h => encode t v h
  | _ :: ts, i + 1, v, h => encAlt ts i v h
  | [], _, _, _ => .error .debugError
/-- `WriteEntries`: each non-empty active entry is id, declared size, the value written
through a `BoundedWriter` of that size, then `WritePadding` (zero bytes). -/
def encEntries : List (Nat × Bool) → List Ty → List Val → HChan → Except Err (Bytes × HChan)
  | [], [], [], h => .ok ([], h)
  | (eid, _) :: es, t :: ts, v :: vs, h =>
    match v with
    | .tag _ x =>
      match encode t x h with
      | .ok (vb, h') =>
        if size t x < vb.length then .error .writeLimitReached else
        match encEntries es ts vs h' with
        | .ok (rest, h'') =>
          .ok (encInt .u64 eid ++ encSize (size t x) ++ vb
                ++ List.replicate (size t x - vb.length) 0 ++ rest, h'')
        | .error err => .error err
      | .error err => .error err
    | _ => encEntries es ts vs h
  | _, _, _, _ => .error .debugError
end

/-! ### Well-formed schemas

The explicit side conditions the theorems need: `Optional<T>` / `Result<E,T>` payloads must
not themselves start with NIL / ERR (K1: the format cannot tell them apart), table ids are
distinct (a `static_assert` in table.h), counts that are compile-time constants fit their
wire fields. -/

def idsDistinct : List (Nat × Bool) → Bool
  | [] => true
  | (i, _) :: es => es.all (fun e => e.1 != i) && idsDistinct es

mutual
def Ty.wf : Ty → Bool
  | .bool => true
  | .int _ _ => true
  | .float _ => true
  | .str _ cb => 0 < cb
  | .seq _ e => e.wf
  | .prod k ts => wfL ts && ts.length < 2 ^ 64 && (k != .pair || ts.length == 2)
  | .map _ k v => k.wf && v.wf
  | .opt t => t.wf && !matchP t 0xbe
  | .result _ _ t => t.wf && !matchP t 0xb6
  | .variant ts => wfL ts && ts.length ≤ 2 ^ 31
  | .handle _ ht tk => tk.inRange ht
  | .wrap t => t.wf
  | .ref t => t.wf
  | .table hash ents tys =>
    wfL tys && hash < 2 ^ 64 && ents.length == tys.length && idsDistinct ents &&
      ents.all (fun e => e.1 < 2 ^ 64) && tys.length < 2 ^ 64
def wfL : List Ty → Bool
  | [] => true
  | t :: ts => t.wf && wfL ts
end

/-! ### Well-typed values -/

def unitOk (cb : Nat) : Val → Bool
  | .int i => 0 ≤ i && i < (2 ^ (8 * cb) : Nat)
  | _ => false

def allP {α} (f : α → Bool) : List α → Bool
  | [] => true
  | a :: as => f a && allP f as

def keysDistinct : List Val → Bool
  | [] => true
  | kv :: rest => rest.all (fun kv' => !(kvKey kv' == kvKey kv)) && keysDistinct rest

mutual
def valid : Ty → Val → Bool
  | .bool, .int i => i == 0 || i == 1
  | .int k _, .int i => k.inRange i
  | .float w, .int i => 0 ≤ i && i < (2 ^ (if w then 64 else 32) : Nat)
  | .str _ cb, .list vs => allP (unitOk cb) vs && vs.length * cb < 2 ^ 64
  | .seq f e, .list vs =>
    (match f with
     | .vector => true
     | .array n | .carray n => vs.length == n
     | .lbuf cap sk unb => (unb || vs.length ≤ cap) && ((vs.length : Int) ≤ sk.maxVal)) &&
    allP (valid e) vs && vs.length * e.width < 2 ^ 64
  | .prod _ ts, .list vs => validProd ts vs
  | .map _ k v, .list kvs =>
    allP (fun kv => match kv with
      | .list [a, b] => valid k a && valid v b
      | _ => false) kvs && keysDistinct kvs && kvs.length < 2 ^ 64
  | .opt _, .nil => true
  | .opt t, .tag 1 v => valid t v
  | .result _ ek _, .tag 0 (.int e) => ek.inRange e
  | .result _ _ t, .tag 1 v => valid t v
  | .variant ts, .tag i v => if i == -1 then v.isNil else 0 ≤ i && validAlt ts i.toNat v
  | .handle _ _ _, .int _ => true
  | .wrap t, v => valid t v
  | .ref t, v => valid t v
  | .table _ ents tys, .list vs => validEntries ents tys vs
  | _, _ => false
def validProd : List Ty → List Val → Bool
  | [], [] => true
  | t :: ts, v :: vs => valid t v && validProd ts vs
  | _, _ => false
def validAlt : List Ty → Nat → Val → Bool
  | t :: _, 0, v => valid t v
  | _ :: ts, i + 1, v => validAlt ts i v
  | [], _, _ => false
def validEntries : List (Nat × Bool) → List Ty → List Val → Bool
  | [], [], [] => true
  | (_, del) :: es, t :: ts, v :: vs =>
    (match v with
     | .nil => true
     | .tag 1 x => !del && valid t x && size t x < 2 ^ 64
     | _ => false) && validEntries es ts vs
  | _, _, _ => false
end

end Nop
