/-
  Call-level model of the write side: `Encoding<T>::Write` as the sequence of primitive calls
  it issues on a writer (`Prepare`, `Write(byte)`, `Write(begin, end)`, `Skip`, `PushHandle`),
  following include/nop/base/*.h call by call.  The pure encoder `encode` of Codec.lean is what
  these calls add up to (Lemmas/EncW.lean: `encW_emits`); this file is where a failing call, a
  `BoundedWriter` budget or a full buffer can be talked about.

  * `out`     bytes the underlying writer has accepted, in order,
  * `frames`  remaining budgets of the enclosing `BoundedWriter`s, innermost first (one per table
              entry being written),
  * `cap`     storage of the underlying writer (`BufferWriter` family); `none` for stream / fd,
  * `checked` whether every `Write` / `Skip` is checked against `cap` (Pedantic / Constexpr buffer
              writers) or only `Prepare` is (`BufferWriter`: an over-long write is a memory error,
              which shows in this model as `out` growing past `cap`),
  * `chan`    the out-of-band handle channel (`PushHandle` answers and log),
  * `fault`   fault-injection script for C10: the k-th call reaching the underlying writer fails.
-/
import NopModel.Codec
namespace Nop

structure Snk where
  out : Bytes := []
  frames : List Nat := []
  cap : Option Nat := none
  checked : Bool := true
  chan : HChan := {}
  fault : Fault := .none
  deriving Inhabited

/-- state-and-error monad over a sink; the state is returned on error too -/
def MW (α : Type) := Snk → Except Err α × Snk

@[inline] def MW.pure {α} (a : α) : MW α := fun s => (.ok a, s)
@[inline] def MW.bind {α β} (x : MW α) (f : α → MW β) : MW β := fun s =>
  match x s with
  | (.ok a, s') => f a s'
  | (.error e, s') => (.error e, s')
@[inline] def MW.fail {α} (e : Err) : MW α := fun s => (.error e, s)

instance : Monad MW where
  pure := MW.pure
  bind := MW.bind

/-- prologue of a call that reaches the underlying writer: consult the fault script -/
def Snk.pre (s : Snk) : Option Err × Snk :=
  match s.fault with
  | .none => (none, s)
  | .armed 0 e => (some e, { s with fault := .dead e })
  | .armed (k + 1) e => (none, { s with fault := .armed k e })
  | .dead e => (some e, { s with fault := .zombie e })
  | .zombie e => (some e, s)

/-- the underlying writer has room for `n` more bytes -/
def Snk.room (s : Snk) (n : Nat) : Bool :=
  match s.cap with
  | none => true
  | some c => s.out.length + n ≤ c

/-- accept `bs`: appended to the output, charged to every enclosing budget -/
def Snk.acc (s : Snk) (bs : Bytes) : Snk :=
  { s with out := s.out ++ bs, frames := s.frames.map (· - bs.length) }

/-- `Writer::Prepare(n)`: every `BoundedWriter` checks its budget, then forwards -/
def wPrepare (n : Nat) : MW Unit := fun s =>
  if !framesOk n s.frames then (.error .writeLimitReached, s) else
  match s.pre with
  | (some e, s') => (.error e, s')
  | (none, s') => if s'.room n then (.ok (), s') else (.error .writeLimitReached, s')

/-- `Writer::Write(byte)` / `Writer::Write(begin, end)` of the bytes `bs` (one call) -/
def wWrite (bs : Bytes) : MW Unit := fun s =>
  if !framesOk bs.length s.frames then (.error .writeLimitReached, s) else
  match s.pre with
  | (some e, s') => (.error e, s')
  | (none, s') =>
    if !s'.checked || s'.room bs.length then (.ok (), s'.acc bs) else (.error .writeLimitReached, s')

/-- `Writer::Skip(n, pad)` -/
def wSkip (n : Nat) (pad : UInt8) : MW Unit := wWrite (List.replicate n pad)

/-- `Writer::PushHandle`; a `BoundedWriter` forwards without touching its budget -/
def wPushHandle (hv : Int) : MW Int := fun s =>
  match s.pre with
  | (some e, s') => (.error e, s')
  | (none, s') =>
    match s'.chan.refs with
    | [] => (.error .invalidHandleValue, s')
    | .error err :: _ => (.error err, s')
    | .ok r :: rest => (.ok r, { s' with chan := { refs := rest, pushed := s'.chan.pushed ++ [(hv, r)] } })

/-- construct `BoundedWriter{writer, n}` -/
def wPush (n : Nat) : MW Unit := fun s => (.ok (), { s with frames := n :: s.frames })

/-- `BoundedWriter::WritePadding()` and drop the bounded writer: the remaining budget is
skipped (zero bytes) on the wrapped writer, so it is charged to the outer budgets only -/
def wPadPop : MW Unit := fun s =>
  match s.frames with
  | [] => (.ok (), s)
  | b :: fs =>
    match wSkip b 0 { s with frames := fs } with
    | (.ok _, s') => (.ok (), s')
    | (.error e, s') => (.error e, { s' with frames := b :: s'.frames })

/-- `Encoding<intN_t>::Write`: the prefix byte, then (unless the prefix is the value) the
payload as one block -/
def wInt (k : IntKind) (i : Int) : MW Unit :=
  match encInt k i with
  | [] => pure ()
  | p :: pl => do
    wWrite [p]
    if pl.isEmpty then pure () else wWrite pl

/-- a `for` loop that stops at the first error -/
def forW {α} (f : α → MW Unit) : List α → MW Unit
  | [] => pure ()
  | a :: as => do f a; forW f as

mutual
/-- `Encoding<T>::Write` -/
def encW : Ty → Val → MW Unit
  | .bool, .int i => wWrite [if i == 0 then 0 else 1]
  | .int k _, .int i => wInt k i
  | .float w, .int i => do
    wWrite [if w then 0x89 else 0x88]
    wWrite (leBytes (if w then 8 else 4) i.toNat)
  | .str _ cb, .list vs => do
    wWrite [0xbd]
    wInt .u64 (vs.length * cb : Nat)
    wWrite (vs.flatMap (unitToRaw cb))
  | .seq f e, .list vs =>
    if e.integral then do
      wWrite [0xbc]
      if lbufOver f vs.length then MW.fail .invalidContainerLength else do
        wInt .u64 (vs.length * e.width : Nat)
        wWrite (vs.flatMap (valToRaw e))
    else do
      wWrite [0xba]
      if lbufOver f vs.length then MW.fail .invalidContainerLength else do
        wInt .u64 (vs.length : Nat)
        forW (encW e) vs
  | .prod k ts, .list vs => do
    wWrite [if k == .struct then 0xb9 else 0xba]
    wInt .u64 (ts.length : Nat)
    encProdW ts vs
  | .map _ k v, .list kvs => do
    wWrite [0xbb]
    wInt .u64 (kvs.length : Nat)
    forW (fun kv => do encW k (kvKey kv); encW v (kvVal kv)) kvs
  | .opt _, .nil => wWrite [0xbe]
  | .opt t, .tag _ v => encW t v
  | .result _ ek _, .tag 0 (.int e) => do wWrite [0xb6]; wInt ek e
  | .result _ _ t, .tag _ v => encW t v
  | .variant ts, .tag i v => do
    wWrite [0xb8]
    wInt .i32 i
    if i < 0 then wWrite [0xbe] else encAltW ts i.toNat v
  | .handle _ ht tk, .int hv => do
    wWrite [0xb7]
    wInt tk ht
    let r ← wPushHandle hv
    if !IntKind.i64.inRange r then MW.fail .invalidHandleReference else wInt .i64 r
  | .wrap t, v => encW t v
  | .ref t, v => encW t v
  | .table hash ents tys, .list vs => do
    wWrite [0xb5]
    wInt .u64 (hash : Nat)
    wInt .u64 (activeCount vs : Nat)
    encEntriesW ents tys vs
  | _, _ => MW.fail .debugError
def encProdW : List Ty → List Val → MW Unit
  | [], [] => pure ()
  | t :: ts, v :: vs => do encW t v; encProdW ts vs
  | _, _ => MW.fail .debugError
def encAltW : List Ty → Nat → Val → MW Unit
  | t :: _, 0, v => encW t v
  | _ :: ts, i + 1, v => encAltW ts i v
  | [], _, _ => MW.fail .debugError
/-- `WriteEntries`: id, declared size, the value through a `BoundedWriter` of that size,
`WritePadding` -/
def encEntriesW : List (Nat × Bool) → List Ty → List Val → MW Unit
  | [], [], [] => pure ()
  | (eid, _) :: es, t :: ts, v :: vs =>
    match v with
    | .tag _ x => do
      wInt .u64 (eid : Nat)
      wInt .u64 (size t x : Nat)
      wPush (size t x)
      encW t x
      wPadPop
      encEntriesW es ts vs
    | _ => encEntriesW es ts vs
  | _, _, _ => MW.fail .debugError
end

/-- `Serializer::Write`: `Prepare(Size(value))`, then `Encoding<T>::Write` -/
def serialize (t : Ty) (v : Val) : MW Unit := do
  wPrepare (size t v)
  encW t v

end Nop
