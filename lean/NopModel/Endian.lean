/-
  `HostEndian<T>` (include/nop/utility/endian.h): the value is viewed as `N` bytes in host
  order and reassembled by shift-or, `FromLittle` with shifts `Is*8`, `FromBig` with shifts
  `(N-Is-1)*8`.  Values are `8N`-bit patterns (floats: their bit pattern, the same code
  path through the integral converter).
-/
import NopModel.Wire
namespace Nop.Endian

/-- `out |= static_cast<T>(value[Is]) << shift(Is)` over all `Is`, as the fold in the header -/
def orShift (shift : Nat → Nat) : Nat → Bytes → Nat
  | _, [] => 0
  | i, b :: r => (b.toNat <<< shift i) ||| orShift shift (i + 1) r

/-- `FromLittle(const uint8_t (&value)[N], index_sequence<Is...>)` -/
def fromLittleBytes (bs : Bytes) : Nat := orShift (fun i => i * 8) 0 bs
/-- `FromBig(const uint8_t (&value)[N], index_sequence<Is...>)` -/
def fromBigBytes (bs : Bytes) : Nat := orShift (fun i => (bs.length - i - 1) * 8) 0 bs

/-- the object representation of an `8n`-bit pattern `x` on a host of the given byte order -/
def hostBytes (littleHost : Bool) (n x : Nat) : Bytes :=
  if littleHost then leBytes n x else (leBytes n x).reverse

/-- `HostEndian<T>::FromLittle(x)` = `ToLittle(x)` on a host of the given byte order -/
def fromLittle (littleHost : Bool) (n x : Nat) : Nat := fromLittleBytes (hostBytes littleHost n x)
/-- `HostEndian<T>::FromBig(x)` = `ToBig(x)` -/
def fromBig (littleHost : Bool) (n x : Nat) : Nat := fromBigBytes (hostBytes littleHost n x)

/-- reversing the `n` bytes of an `8n`-bit pattern -/
def byteReverse (n x : Nat) : Nat := ofLE (leBytes n x).reverse

end Nop.Endian
