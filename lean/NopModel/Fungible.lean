import NopModel.Ty
/-!
  `nop::IsFungible<A, B>` (include/nop/traits/is_fungible.h) as a relation on schema terms.

  The C++ trait is a set of partial specialisations falling back on `std::is_same`; here it is
  one function by recursion on the first type. Value wrappers are transparent on either side
  (the three wrapper rules strip one wrapper at a time), so the second type is consulted
  through `peel`.
-/
namespace Nop

/-- the wrapped type under any number of NOP_VALUE wrappers -/
def peel : Ty → Ty
  | .wrap t => peel t
  | t => t

/-- which two sequence containers share a rule (element comparison comes on top) -/
def seqOk : Flavor → Flavor → Bool
  | .vector, .vector => true
  | .vector, .array _ => true
  | .array _, .vector => true
  | .vector, .carray _ => true
  | .carray _, .vector => true
  | .array n, .array m => n == m
  | .carray n, .carray m => n == m
  | .array n, .carray m => n == m
  | .carray n, .array m => n == m
  -- LogicalBuffer<A,...> ~ LogicalBuffer<B,...> compares the two array types: equal capacities
  | .lbuf c _ _, .lbuf c' _ _ => c == c'
  -- std::vector<A> ~ LogicalBuffer<B,...> compares the vector with the array type
  | .vector, .lbuf _ _ _ => true
  | .lbuf _ _ _, .vector => true
  | _, _ => false

/-- a sequence container against an n-element tuple -/
def seqTup : Flavor → Nat → Bool
  | .vector, _ => true
  | .array m, n => m == n
  | .carray m, n => m == n
  | .lbuf _ _ _, _ => false

def prodOk : PKind → PKind → Bool
  | .struct, .struct => true
  | .struct, _ => false
  | _, .struct => false
  | _, _ => true          -- pair / tuple in any combination (the element lists must match in length)

mutual
def fungible : Ty → Ty → Bool
  | .wrap a, b => fungible a b
  | .bool, b => match peel b with
    | .bool => true
    | _ => false
  | .int k n, b => match peel b with
    | .int k' n' => k == k' && n == n'
    | _ => false
  | .float w, b => match peel b with
    | .float w' => w == w'
    | _ => false
  | .str n cb, b => match peel b with
    | .str n' cb' => n == n' && cb == cb'
    | _ => false
  | .handle p h k, b => match peel b with
    | .handle p' h' k' => p == p' && h == h' && k == k'
    | _ => false
  | .seq fa a, b => match peel b with
    | .seq fb b' => seqOk fa fb && (a.integral == b'.integral) && fungible a b'
    | .prod .tuple ts => seqTup fa ts.length && !a.integral && ts.all (fun t => fungible a t)
    | _ => false
  | .prod ka as, b => match peel b with
    | .prod kb bs => prodOk ka kb && fungL as bs
    | .seq fb b' => ka == .tuple && seqTup fb as.length && !b'.integral && fungAllR as b'
    | _ => false
  | .map _ k v, b => match peel b with
    | .map _ k' v' => fungible k k' && fungible v v'
    | _ => false
  | .opt a, b => match peel b with
    | .opt b' => fungible a b'
    | _ => false
  | .result en ek a, b => match peel b with
    | .result en' ek' b' => en == en' && ek == ek' && fungible a b'
    | _ => false
  | .variant as, b => match peel b with
    | .variant bs => fungL as bs
    | _ => false
  | .ref a, b => match peel b with
    | .ref b' => fungible a b'
    | _ => false
  | .table h ea ta, b => match peel b with
    | .table h' eb tb => h == h' && ea == eb && fungL ta tb
    | _ => false
def fungL : List Ty → List Ty → Bool
  | [], [] => true
  | a :: as, b :: bs => fungible a b && fungL as bs
  | _, _ => false
def fungAllR : List Ty → Ty → Bool
  | [], _ => true
  | a :: as, b => fungible a b && fungAllR as b
end

end Nop
