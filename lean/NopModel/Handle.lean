/-
  `nop::UniqueHandle<Policy>` (include/nop/types/handle.h:97-125) over a counting policy:
  a world of several handle objects and the resources they own.
  The value -1 is the policy's empty value (`Policy::Default()`).
-/
namespace Nop.UH

structure W where
  vars : Nat → Option Int       -- object slots: none = no UniqueHandle object; some (-1) = empty handle
  next : Nat := 0               -- resources created so far are 0 .. next-1
  closed : List Int := []       -- Policy::Close calls on a valid value, in order
  released : List Int := []     -- values handed out by release()

def W.init : W := { vars := fun _ => none }

def W.set (w : W) (v : Nat) (x : Option Int) : W := { w with vars := fun u => if u = v then x else w.vars u }

/-- `Policy::Close(&value_)`: a valid value is closed (counted); the caller then stores Empty -/
def closeVal (w : W) (x : Int) : W := if x = -1 then w else { w with closed := w.closed ++ [x] }

inductive Op
  | mkEmpty (v : Nat)            -- UniqueHandle()
  | mkValue (v : Nat)            -- UniqueHandle(fresh resource)
  | moveCtor (v src : Nat)       -- UniqueHandle(UniqueHandle&&): UniqueHandle() then *this = std::move(other)
  | moveAssign (v src : Nat)     -- a = std::move(b): if (this != &other) { close(); swap(value_, other.value_); }
  | close (v : Nat)              -- close()
  | release (v : Nat)            -- release()
  | destroy (v : Nat)            -- ~UniqueHandle(): close()
  | get (v : Nat)                -- get(), operator bool
  deriving Repr

inductive Obs | none | value (x : Int) | skipped
  deriving Repr, DecidableEq

def step (w : W) : Op → W × Obs
  | .mkEmpty v =>
    match w.vars v with
    | none => (w.set v (some (-1)), .value (-1))
    | some _ => (w, .skipped)
  | .mkValue v =>
    match w.vars v with
    | none => ({ w.set v (some (w.next : Int)) with next := w.next + 1 }, .value w.next)
    | some _ => (w, .skipped)
  | .moveCtor v src =>
    match w.vars v, w.vars src with
    | none, some x => if v = src then (w, .skipped) else ((w.set v (some x)).set src (some (-1)), .value x)
    | _, _ => (w, .skipped)
  | .moveAssign v src =>
    match w.vars v, w.vars src with
    | some y, some x =>
      if v = src then (w, .value y)
      else (((closeVal w y).set v (some x)).set src (some (-1)), .value x)
    | _, _ => (w, .skipped)
  | .close v =>
    match w.vars v with
    | some y => ((closeVal w y).set v (some (-1)), .value (-1))
    | none => (w, .skipped)
  | .release v =>
    match w.vars v with
    | some y => ({ (w.set v (some (-1))) with released := if y = -1 then w.released else w.released ++ [y] }, .value y)
    | none => (w, .skipped)
  | .destroy v =>
    match w.vars v with
    | some y => ((closeVal w y).set v none, .none)
    | none => (w, .skipped)
  | .get v =>
    match w.vars v with
    | some y => (w, .value y)
    | none => (w, .skipped)

def run (w : W) (ops : List Op) : W := ops.foldl (fun w op => (step w op).1) w

end Nop.UH
