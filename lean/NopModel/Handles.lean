import NopModel.Codec
/-! The handles contained in a value, in encounter order: structure members and tuple elements
in declaration order, sequence elements in index order, map entries in order (key before mapped
value), the engaged Optional / Result value, the active Variant alternative, table entries in
declaration order (non-empty ones only). This is the specification `PushHandle` calls are
compared against. -/
namespace Nop

mutual
def handlesOf : Ty → Val → List Int
  | .seq _ e, .list vs => if e.integral then [] else vs.flatMap (handlesOf e)
  | .prod _ ts, .list vs => handlesProd ts vs
  | .map _ k v, .list kvs => kvs.flatMap (fun kv => handlesOf k (kvKey kv) ++ handlesOf v (kvVal kv))
  | .opt t, .tag _ v => handlesOf t v
  | .result _ _ _, .tag 0 (.int _) => []
  | .result _ _ t, .tag _ v => handlesOf t v
  | .variant ts, .tag i v => if i < 0 then [] else handlesAlt ts i.toNat v
  | .handle _ _ _, .int hv => [hv]
  | .wrap t, v => handlesOf t v
  | .ref t, v => handlesOf t v
  | .table _ _ tys, .list vs => handlesEntries tys vs
  | _, _ => []
def handlesProd : List Ty → List Val → List Int
  | t :: ts, v :: vs => handlesOf t v ++ handlesProd ts vs
  | _, _ => []
def handlesAlt : List Ty → Nat → Val → List Int
  | t :: _, 0, v => handlesOf t v
  | _ :: ts, i + 1, v => handlesAlt ts i v
  | [], _, _ => []
def handlesEntries : List Ty → List Val → List Int
  | t :: ts, v :: vs =>
    (match v with
     | .tag _ x => handlesOf t x
     | _ => []) ++ handlesEntries ts vs
  | _, _ => []
end

/-- writing took exactly the references `rs` from the writer, one per handle of `hs`, in order,
and logged exactly those (handle, reference) pairs -/
def Pushes (hs : List Int) (h h' : HChan) : Prop :=
  ∃ rs : List Int, rs.length = hs.length ∧ h.refs = rs.map Except.ok ++ h'.refs ∧ h'.pushed = h.pushed ++ hs.zip rs

theorem Pushes.nil (h : HChan) : Pushes [] h h := ⟨[], rfl, by simp, by simp⟩

theorem Pushes.append {a b : List Int} {h h1 h2 : HChan} (p : Pushes a h h1) (q : Pushes b h1 h2) :
    Pushes (a ++ b) h h2 := by
  obtain ⟨ra, la, ea, pa⟩ := p
  obtain ⟨rb, lb, eb, pb⟩ := q
  refine ⟨ra ++ rb, by simp [la, lb], ?_, ?_⟩
  · rw [ea, eb]; simp
  · rw [pb, pa, List.zip_append la.symm]; simp

end Nop
