/-
  Primitive-call models of the shipped readers and writers (include/nop/utility/*), with
  the code's own index arithmetic: `std::size_t` operations are taken modulo 2^64 wherever
  the C++ expression can wrap.
-/
import NopModel.Wire
namespace Nop.Io

def W : Nat := 2 ^ 64
/-- `a - b` on `std::size_t` (operands < 2^64): wraps to `a + 2^64 - b` when `b > a`.
Written with a comparison instead of `% 2^64` so that unfolding it on symbolic arguments
stays cheap for the kernel; `wsub_mod` / `wadd_mod` in Lemmas/Io.lean state the modular form. -/
def wsub (a b : Nat) : Nat := if b ≤ a then a - b else a + W - b
/-- `a + b` on `std::size_t` (operands < 2^64) -/
def wadd (a b : Nat) : Nat := if a + b < W then a + b else a + b - W

/-- a reader as `Encoding<T>::Read` sees it: three primitives over some state -/
structure Rd (σ : Type) where
  ensure : Nat → σ → Option Err × σ
  read : Nat → σ → Except Err Bytes × σ
  skip : Nat → σ → Option Err × σ

/-! ### BufferReader and PedanticBufferReader (identical since the bounds fix) -/

structure BufR where
  data : Bytes
  index : Nat := 0
  deriving Repr

def BufR.size (s : BufR) : Nat := s.data.length

def bufRd : Rd BufR where
  ensure n s := if wsub s.size s.index < n then (some .readLimitReached, s) else (none, s)
  read n s :=
    if n > wsub s.size s.index then (.error .readLimitReached, s)
    else (.ok ((s.data.drop s.index).take n), { s with index := wadd s.index n })
  skip n s :=
    if n > wsub s.size s.index then (some .readLimitReached, s)
    else (none, { s with index := wadd s.index n })

/-! ### StreamReader over an in-memory stream: sticky fail state -/

structure StreamR where
  data : Bytes
  pos : Nat := 0
  failed : Bool := false
  deriving Repr

def streamRd : Rd StreamR where
  ensure _ s := (none, s)
  read n s :=
    if s.failed then (.error .streamError, s)
    else if n ≤ s.data.length - s.pos then (.ok ((s.data.drop s.pos).take n), { s with pos := s.pos + n })
    else (.error .streamError, { s with pos := s.data.length, failed := true })
  skip n s :=
    if s.failed then (some .streamError, s)
    else if n ≤ s.data.length - s.pos then (none, { s with pos := s.pos + n })
    else (some .streamError, { s with pos := s.data.length, failed := true })

/-! ### FdReader: one `read(2)` per byte, `ReadLimitReached` at end of file, no Skip -/

structure FdR where
  data : Bytes
  pos : Nat := 0
  deriving Repr

def fdRd : Rd FdR where
  ensure _ s := (none, s)
  read n s :=
    if n ≤ s.data.length - s.pos then (.ok ((s.data.drop s.pos).take n), { s with pos := s.pos + n })
    else (.error .readLimitReached, { s with pos := s.data.length })   -- the bytes before EOF were consumed
  skip _ s := (some .debugError, s)   -- does not exist: not callable

/-! ### BoundedReader<R> -/

structure Bounded (σ : Type) where
  inner : σ
  size : Nat
  index : Nat := 0

def boundedRd {σ} (r : Rd σ) : Rd (Bounded σ) where
  ensure n s :=
    if wsub s.size s.index < n then (some .readLimitReached, s)
    else match r.ensure n s.inner with
      | (e, i) => (e, { s with inner := i })
  read n s :=
    if n > wsub s.size s.index then (.error .readLimitReached, s)
    else match r.read n s.inner with
      | (.ok bs, i) => (.ok bs, { s with inner := i, index := wadd s.index n })
      | (.error e, i) => (.error e, { s with inner := i })
  skip n s :=
    if n > wsub s.size s.index then (some .readLimitReached, s)
    else match r.skip n s.inner with
      | (none, i) => (none, { s with inner := i, index := wadd s.index n })
      | (some e, i) => (some e, { s with inner := i })

/-- `BoundedReader::ReadPadding` -/
def readPadding {σ} (r : Rd σ) (s : Bounded σ) : Option Err × Bounded σ :=
  match r.skip (wsub s.size s.index) s.inner with
  | (none, i) => (none, { s with inner := i, index := wadd s.index (wsub s.size s.index) })
  | (some e, i) => (some e, { s with inner := i })

/-! ### Writers -/

structure Wr (σ : Type) where
  prepare : Nat → σ → Option Err × σ
  write : Bytes → σ → Option Err × σ
  skip : Nat → UInt8 → σ → Option Err × σ

/-- Buffer writers: `cap` bytes of storage, `out` = bytes written so far (index = out.length).
`checked` distinguishes Pedantic/Constexpr (every Write/Skip is checked) from BufferWriter
(only Prepare checks; an over-long write is a memory error, recorded in `oob`). -/
structure BufW where
  cap : Nat
  out : Bytes := []
  checked : Bool := true
  oob : Bool := false
  deriving Repr

def bufWr : Wr BufW where
  prepare n s := if n > wsub s.cap s.out.length then (some .writeLimitReached, s) else (none, s)
  write bs s :=
    if s.checked then
      if bs.length > wsub s.cap s.out.length then (some .writeLimitReached, s)
      else (none, { s with out := s.out ++ bs })
    else
      (none, { s with out := s.out ++ bs, oob := s.oob || decide (s.cap < s.out.length + bs.length) })
  skip n pad s :=
    if s.checked then
      if n > wsub s.cap s.out.length then (some .writeLimitReached, s)
      else (none, { s with out := s.out ++ List.replicate n pad })
    else
      (none, { s with out := s.out ++ List.replicate n pad, oob := s.oob || decide (s.cap < s.out.length + n) })

/-- Stream / fd writers over an unbounded sink -/
structure SinkW where
  out : Bytes := []
  deriving Repr

def sinkWr : Wr SinkW where
  prepare _ s := (none, s)
  write bs s := (none, { s with out := s.out ++ bs })
  skip n pad s := (none, { s with out := s.out ++ List.replicate n pad })

def boundedWr {σ} (w : Wr σ) : Wr (Bounded σ) where
  prepare n s :=
    if n > wsub s.size s.index then (some .writeLimitReached, s)
    else match w.prepare n s.inner with
      | (e, i) => (e, { s with inner := i })
  write bs s :=
    if bs.length > wsub s.size s.index then (some .writeLimitReached, s)
    else match w.write bs s.inner with
      | (none, i) => (none, { s with inner := i, index := wadd s.index bs.length })
      | (some e, i) => (some e, { s with inner := i })
  skip n pad s :=
    if n > wsub s.size s.index then (some .writeLimitReached, s)
    else match w.skip n pad s.inner with
      | (none, i) => (none, { s with inner := i, index := wadd s.index n })
      | (some e, i) => (some e, { s with inner := i })

/-- `BoundedWriter::WritePadding` -/
def writePadding {σ} (w : Wr σ) (pad : UInt8) (s : Bounded σ) : Option Err × Bounded σ :=
  match w.skip (wsub s.size s.index) pad s.inner with
  | (none, i) => (none, { s with inner := i, index := wadd s.index (wsub s.size s.index) })
  | (some e, i) => (some e, { s with inner := i })

/-! ### A scripted reader/writer: answers from a list, logs every call (the wrapped object
"that itself succeeds or fails at any call") -/

inductive Call | ensure (n : Nat) | read (n : Nat) | skip (n : Nat) | prepare (n : Nat) | write (n : Nat)
  deriving Repr, DecidableEq

structure Scripted where
  answers : List (Option Err)     -- none = succeed; exhausted = succeed
  log : List (Call × Bool) := []  -- call and whether it succeeded
  deriving Repr

def Scripted.answer (s : Scripted) : Option Err × List (Option Err) :=
  match s.answers with
  | [] => (none, [])
  | a :: rest => (a, rest)

def scriptedRd : Rd Scripted where
  ensure n s := match s.answer with
    | (e, rest) => (e, { answers := rest, log := s.log ++ [(.ensure n, e.isNone)] })
  read n s := match s.answer with
    | (none, rest) => (.ok (List.replicate n 0), { answers := rest, log := s.log ++ [(.read n, true)] })
    | (some e, rest) => (.error e, { answers := rest, log := s.log ++ [(.read n, false)] })
  skip n s := match s.answer with
    | (e, rest) => (e, { answers := rest, log := s.log ++ [(.skip n, e.isNone)] })

def scriptedWr : Wr Scripted where
  prepare n s := match s.answer with
    | (e, rest) => (e, { answers := rest, log := s.log ++ [(.prepare n, e.isNone)] })
  write bs s := match s.answer with
    | (e, rest) => (e, { answers := rest, log := s.log ++ [(.write bs.length, e.isNone)] })
  skip n _ s := match s.answer with
    | (e, rest) => (e, { answers := rest, log := s.log ++ [(.skip n, e.isNone)] })

/-- bytes consumed from a scripted reader: sizes of its successful reads and skips -/
def consumed : List (Call × Bool) → Nat
  | [] => 0
  | (.read n, true) :: r => n + consumed r
  | (.skip n, true) :: r => n + consumed r
  | (.write n, true) :: r => n + consumed r
  | _ :: r => consumed r

end Nop.Io
