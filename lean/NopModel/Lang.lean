/-
  The documented wire language, as a grammar: `Lang hs t v bs` — "the bytes `bs` are a
  well-formed encoding, under docs/format.md, of a `t`, and denote the value `v`" (`hs` is the
  handle table references are resolved in).  Written declaratively (existentials over the parts of
  an encoding), independently of the decoder's control flow: no reader state, no budgets, no
  Ensure, no order of checks.  Properties/C04.lean proves the decoder accepts exactly this
  language.

  What the grammar says, construct by construct:
  * an integer field may use *any* class of the same signedness no wider than the field
    (`specIntAccept`), not only the minimal one the encoder picks;
  * strings / BIN payloads: a byte length that is a multiple of the element size (and, for
    arrays, exactly the capacity; for logical buffers, at most the capacity and within the range
    of the size member);
  * arrays, tuples, structures: exactly the declared number of elements / members;
  * maps: any entries; the denoted map keeps the first entry of each key;
  * optional / result: NIL / ERR marker, or an element encoding not starting with that marker;
  * variant: index in [-1, n); -1 is followed by NIL;
  * handle: the declared handle type and a reference the table resolves;
  * table: hash, then `n` wire entries `id size payload`: a live id must not repeat and its
    payload is the value followed by padding up to `size`; deleted and unknown ids are skipped.
-/
import NopModel.Codec
namespace Nop

/-- the documented rule: an integer of kind `k` accepts a fixint (negative fixints only for
signed kinds) or an explicit class of the *same signedness* that is *no wider* than `k` -/
def specIntAccept (k : IntKind) (n : Nat) : Bool :=
  if n < 0x80 then true
  else if 0xc0 ≤ n then k.signed
  else if 0x80 ≤ n && n ≤ 0x83 then !k.signed && 2 ^ (n - 0x80) ≤ k.bytes
  else if 0x84 ≤ n && n ≤ 0x87 then k.signed && 2 ^ (n - 0x84) ≤ k.bytes
  else false

/-- an integer field of kind `k` denoting `i`, in any admissible class -/
def LInt (k : IntKind) (i : Int) (bs : Bytes) : Prop :=
  ∃ (p : UInt8) (pl : Bytes), bs = p :: pl ∧ specIntAccept k p.toNat = true ∧
    pl.length = intPayloadLen k p ∧ i = intOfPayload k p pl

/-- a SizeType field -/
def LSize (n : Nat) (bs : Bytes) : Prop := ∃ i, LInt .u64 i bs ∧ n = i.toNat

/-- a skipped table entry: declared size, that many bytes -/
def LSkip (bs : Bytes) : Prop := ∃ (sz : Nat) (szb pl : Bytes), bs = szb ++ pl ∧ LSize sz szb ∧ pl.length = sz

/-- prefix byte admitted by `mt`, then a payload in `L` -/
def LPre (mt : UInt8 → Bool) (L : UInt8 → Val → Bytes → Prop) (v : Val) (bs : Bytes) : Prop :=
  ∃ (p : UInt8) (pl : Bytes), bs = p :: pl ∧ mt p = true ∧ L p v pl

/-- a run of encodings, one per value -/
def LAll {α} (L : α → Bytes → Prop) : List α → Bytes → Prop
  | [], bs => bs = []
  | v :: vs, bs => ∃ b1 b2, bs = b1 ++ b2 ∧ L v b1 ∧ LAll L vs b2

/-- `n` wire entries of a table, threading the slot state -/
def LIter (E : Nat → List Val → List Val → Bytes → Prop) : Nat → List Val → List Val → Bytes → Prop
  | 0, cur, out, bs => bs = [] ∧ out = cur
  | n + 1, cur, out, bs => ∃ (id : Int) (ib b1 rest : Bytes) (cur' : List Val),
      bs = ib ++ (b1 ++ rest) ∧ LInt .u64 id ib ∧ E id.toNat cur cur' b1 ∧ LIter E n cur' out rest

/-- byte length of a BIN payload accepted for the sequence flavour, and the element count it denotes -/
def binCount (f : Flavor) (w sz : Nat) : Option Nat :=
  match f with
  | .vector => if sz % w != 0 then none else some (sz / w)
  | .array n | .carray n => if sz != n * w then none else some n
  | .lbuf cap sk unb =>
    if (!unb && sz > cap * w) || sz % w != 0 then none
    else if (sk.maxVal : Int) < (sz / w : Nat) then none
    else some (sz / w)

/-- element count accepted for a non-integral sequence flavour -/
def countOk (f : Flavor) (n : Nat) : Bool :=
  match f with
  | .vector => true
  | .array len | .carray len => n == len
  | .lbuf cap sk unb => !((!unb && n > cap) || (sk.maxVal : Int) < (n : Nat))

mutual
/-- payload language: what may follow the (already admitted) prefix byte `p` -/
def LangP (hs : List Int) : Ty → UInt8 → Val → Bytes → Prop
  | .bool, p, v, bs => bs = [] ∧ v = .int p.toNat
  | .int k _, p, v, bs => bs.length = intPayloadLen k p ∧ v = .int (intOfPayload k p bs)
  | .float w, _, v, bs => bs.length = (if w then 8 else 4) ∧ v = .int (ofLE bs)
  | .str _ cb, _, v, bs => ∃ (lb : Nat) (szb pl : Bytes), bs = szb ++ pl ∧ LSize lb szb ∧ lb % cb = 0 ∧
      pl.length = lb / cb * cb ∧ v = .list (rawElems (fun b => .int (ofLE b)) cb (lb / cb) pl)
  | .seq f e, _, v, bs =>
    if e.integral then
      ∃ (sz n : Nat) (szb pl : Bytes), bs = szb ++ pl ∧ LSize sz szb ∧ binCount f e.width sz = some n ∧
        pl.length = n * e.width ∧ v = .list (rawElems (rawToVal e) e.width n pl)
    else
      ∃ (n : Nat) (szb body : Bytes) (vs : List Val), bs = szb ++ body ∧ LSize n szb ∧ countOk f n = true ∧
        vs.length = n ∧ LAll (LPre (matchP e) (LangP hs e)) vs body ∧ v = .list vs
  | .prod _ ts, _, v, bs =>
    ∃ (szb body : Bytes) (vs : List Val), bs = szb ++ body ∧ LSize ts.length szb ∧ LangProd hs ts vs body ∧ v = .list vs
  | .map _ k v', _, v, bs =>
    ∃ (n : Nat) (szb body : Bytes) (kvs : List Val), bs = szb ++ body ∧ LSize n szb ∧ kvs.length = n ∧
      LAll (fun kv b => ∃ a c b1 b2, kv = .list [a, c] ∧ b = b1 ++ b2 ∧
        LPre (matchP k) (LangP hs k) a b1 ∧ LPre (matchP v') (LangP hs v') c b2) kvs body ∧
      v = .list (dedupKeys kvs)
  | .opt t, p, v, bs =>
    if p == 0xbe then bs = [] ∧ v = .nil else ∃ x, LangP hs t p x bs ∧ v = .tag 1 x
  | .result _ ek t, p, v, bs =>
    if p == 0xb6 then ∃ e, LInt ek e bs ∧ v = .tag 0 (.int e) else ∃ x, LangP hs t p x bs ∧ v = .tag 1 x
  | .variant ts, _, v, bs =>
    ∃ (idx : Int) (ib rest : Bytes), bs = ib ++ rest ∧ LInt .i32 idx ib ∧ -1 ≤ idx ∧ idx < ts.length ∧
      ((idx = -1 ∧ rest = [0xbe] ∧ v = .tag (-1) .nil) ∨
       (0 ≤ idx ∧ ∃ x, LangAlt hs ts idx.toNat x rest ∧ v = .tag idx x))
  | .handle _ ht tk, _, v, bs =>
    ∃ (hb rb : Bytes) (r hv : Int), bs = hb ++ rb ∧ LInt tk ht hb ∧ LInt .i64 r rb ∧
      resolveHandle hs r = .ok hv ∧ v = .int hv
  | .wrap t, p, v, bs => LangP hs t p v bs
  | .ref t, p, v, bs => LangP hs t p v bs
  | .table hash ents tys, _, v, bs =>
    ∃ (n : Nat) (hb szb body : Bytes) (vs : List Val), bs = hb ++ (szb ++ body) ∧ LInt .u64 hash hb ∧ LSize n szb ∧
      LIter (LangEntry hs ents tys) n (List.replicate tys.length .nil) vs body ∧ v = .list vs
/-- members of a tuple / structure, in order -/
def LangProd (hs : List Int) : List Ty → List Val → Bytes → Prop
  | [], vs, bs => vs = [] ∧ bs = []
  | t :: ts, vs, bs => ∃ v vs' b1 b2, vs = v :: vs' ∧ bs = b1 ++ b2 ∧
      LPre (matchP t) (LangP hs t) v b1 ∧ LangProd hs ts vs' b2
/-- the `i`-th alternative of a variant -/
def LangAlt (hs : List Int) : List Ty → Nat → Val → Bytes → Prop
  | [], _, _, _ => False
  | t :: _, 0, v, bs => LPre (matchP t) (LangP hs t) v bs
  | _ :: ts, i + 1, v, bs => LangAlt hs ts i v bs
/-- one wire entry (after its id) against the table's declared entries: slots `cur` become `out` -/
def LangEntry (hs : List Int) : List (Nat × Bool) → List Ty → Nat → List Val → List Val → Bytes → Prop
  | (eid, del) :: es, t :: ts, id, c :: cs, out, bs =>
    if eid == id then
      if del then LSkip bs ∧ out = c :: cs
      else c.isNil = true ∧ ∃ (sz : Nat) (szb vb pad : Bytes) (x : Val), bs = szb ++ (vb ++ pad) ∧ LSize sz szb ∧
        LPre (matchP t) (LangP hs t) x vb ∧ vb.length + pad.length = sz ∧ out = .tag 1 x :: cs
    else ∃ r, LangEntry hs es ts id cs r bs ∧ out = c :: r
  | [], _, _, cur, out, bs => LSkip bs ∧ out = cur
  | _ :: _, [], _, cur, out, bs => LSkip bs ∧ out = cur
  | _ :: _, _ :: _, _, [], out, bs => LSkip bs ∧ out = []
end

/-- **the documented language**: a prefix byte admitted for `t`, then its payload -/
def Lang (hs : List Int) (t : Ty) (v : Val) (bs : Bytes) : Prop := LPre (matchP t) (LangP hs t) v bs

end Nop
