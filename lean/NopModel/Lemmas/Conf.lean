import NopModel.Codec
import NopModel.Lemmas.Src
/-! Budget accounting of a successful read: every enclosing `BoundedReader` budget admitted
the bytes consumed and was charged exactly that much; and the outer budgets played no other
role — dropping any number of outermost budgets gives the same successful read. -/
namespace Nop

def Src.withFrames (s : Src) (fs : List Nat) : Src := { s with frames := fs }

@[simp] theorem wf_frames (s : Src) (fs : List Nat) : (s.withFrames fs).frames = fs := rfl
@[simp] theorem wf_bytes (s : Src) (fs : List Nat) : (s.withFrames fs).bytes = s.bytes := rfl
@[simp] theorem wf_fault (s : Src) (fs : List Nat) : (s.withFrames fs).fault = s.fault := rfl
@[simp] theorem wf_eof (s : Src) (fs : List Nat) : (s.withFrames fs).eof = s.eof := rfl
@[simp] theorem wf_ensureChecks (s : Src) (fs : List Nat) : (s.withFrames fs).ensureChecks = s.ensureChecks := rfl
@[simp] theorem wf_handles (s : Src) (fs : List Nat) : (s.withFrames fs).handles = s.handles := rfl
@[simp] theorem wf_wf (s : Src) (a b : List Nat) : (s.withFrames a).withFrames b = s.withFrames b := rfl
theorem wf_self (s : Src) : s.withFrames s.frames = s := rfl

theorem pre_withFrames (s : Src) (fs : List Nat) :
    (s.withFrames fs).pre = (s.pre.1, s.pre.2.withFrames fs) := by
  unfold Src.pre Src.withFrames
  cases hf : s.fault with
  | none => simp [hf]
  | armed k e => cases k <;> simp [hf]
  | dead e => simp [hf]
  | zombie e => simp [hf]

theorem pre_frames (s : Src) : s.pre.2.frames = s.frames := by
  unfold Src.pre
  cases hf : s.fault with
  | none => rfl
  | armed k e => cases k <;> rfl
  | dead e => rfl
  | zombie e => rfl

theorem pre_bytes' (s : Src) : s.pre.2.bytes = s.bytes := by
  unfold Src.pre
  cases hf : s.fault with
  | none => rfl
  | armed k e => cases k <;> rfl
  | dead e => rfl
  | zombie e => rfl

theorem adv_withFrames (s : Src) (n : Nat) (fs : List Nat) :
    (s.withFrames fs).adv n = (s.adv n).withFrames (fs.map (· - n)) := rfl

theorem framesOk_append (n : Nat) (a b : List Nat) : framesOk n (a ++ b) = (framesOk n a && framesOk n b) := by
  simp [framesOk, List.all_append]

theorem framesOk_add {a b : Nat} {fs : List Nat} (h1 : framesOk a fs = true) (h2 : framesOk b (fs.map (· - a)) = true) :
    framesOk (a + b) fs = true := by
  rw [framesOk_iff] at *
  intro x hx
  have := h1 x hx
  have := h2 (x - a) (List.mem_map.2 ⟨x, hx, rfl⟩)
  omega

theorem map_sub_sub (fs : List Nat) (a b : Nat) : (fs.map (· - a)).map (· - b) = fs.map (· - (a + b)) := by
  rw [List.map_map]
  apply List.map_congr_left
  intro x _
  simp only [Function.comp]
  omega

/-- the successful runs of `m` consume `c` bytes from the front, within every budget, charging
every budget `c`; and they do not depend on the outer budgets `O` of any split `I ++ O` -/
def Conf {α} (m : M α) : Prop :=
  ∀ (s : Src) (a : α) (s' : Src), m s = (.ok a, s') →
    ∃ c, c ≤ s.bytes.length ∧ s'.bytes = s.bytes.drop c ∧ framesOk c s.frames = true ∧
      s'.frames = s.frames.map (· - c) ∧
      ∀ I O, s.frames = I ++ O → m (s.withFrames I) = (.ok a, s'.withFrames (I.map (· - c)))

namespace Conf
variable {α β : Type}

theorem pure (a : α) : Conf (Pure.pure a : M α) := by
  intro s b s' h
  simp only [pure_run, Prod.mk.injEq, Except.ok.injEq] at h
  obtain ⟨rfl, rfl⟩ := h
  refine ⟨0, by omega, by simp, framesOk_zero _, by simp, ?_⟩
  intro I O _
  simp [pure_run]

theorem fail (e : Err) : Conf (M.fail e : M α) := by
  intro s b s' h
  simp at h

theorem bind {m : M α} {f : α → M β} (hm : Conf m) (hf : ∀ a, Conf (f a)) : Conf (m >>= f) := by
  intro s b s' h
  rw [bind_run] at h
  cases hms : m s with
  | mk r s1 =>
    cases r with
    | error e => simp [hms] at h
    | ok a =>
      simp only [hms] at h
      obtain ⟨c1, l1, b1, f1, fr1, L1⟩ := hm s a s1 hms
      obtain ⟨c2, l2, b2, f2, fr2, L2⟩ := hf a s1 b s' h
      refine ⟨c1 + c2, ?_, ?_, ?_, ?_, ?_⟩
      · rw [b1] at l2; simp at l2; omega
      · rw [b2, b1, List.drop_drop]
      · exact framesOk_add f1 (by rw [← fr1]; exact f2)
      · rw [fr2, fr1, map_sub_sub]
      · intro I O hIO
        rw [bind_run, L1 I O hIO]
        simp only
        have hs1 : s1.frames = I.map (· - c1) ++ O.map (· - c1) := by rw [fr1, hIO, List.map_append]
        have := L2 (I.map (· - c1)) (O.map (· - c1)) hs1
        rw [map_sub_sub] at this
        have e1 : (s1.withFrames (I.map (· - c1))).withFrames (I.map (· - c1)) = s1.withFrames (I.map (· - c1)) := rfl
        exact this

theorem ite {c : Prop} [Decidable c] {a b : M α} (ha : Conf a) (hb : Conf b) : Conf (if c then a else b) := by
  split <;> assumption

/-- shared proof for the three byte-moving primitives -/
theorem prim {α} (n : Nat) (k : Src → Nat) (res : Src → α) (m : M α)
    (hdef : ∀ s, m s = if !framesOk n s.frames then (.error .readLimitReached, s) else
      match s.pre with
      | (some e, s') => (.error e, s')
      | (none, s') => if s'.bytes.length < n then (.error s'.eof, s') else (.ok (res s'), s'.adv n))
    (hres : ∀ s fs, res (s.withFrames fs) = res s) : Conf m := by
  intro s a s' h
  rw [hdef] at h
  by_cases hf : framesOk n s.frames = true
  · simp only [hf, Bool.not_true, Bool.false_eq_true, ↓reduceIte] at h
    cases hp : s.pre with
    | mk e sp =>
      have hpf : sp.frames = s.frames := by have := pre_frames s; rw [hp] at this; exact this
      have hpb : sp.bytes = s.bytes := by have := pre_bytes' s; rw [hp] at this; exact this
      cases e with
      | some e => simp [hp] at h
      | none =>
        simp only [hp] at h
        by_cases hl : sp.bytes.length < n
        · simp [hl] at h
        · simp only [hl, ↓reduceIte, Prod.mk.injEq, Except.ok.injEq] at h
          obtain ⟨rfl, rfl⟩ := h
          refine ⟨n, by rw [← hpb]; omega, by simp [hpb], hf, by simp [hpf], ?_⟩
          intro I O hIO
          rw [hdef]
          have hfI : framesOk n I = true := by
            rw [hIO, framesOk_append] at hf
            simp only [Bool.and_eq_true] at hf
            exact hf.1
          simp only [wf_frames, hfI, Bool.not_true, Bool.false_eq_true, ↓reduceIte, pre_withFrames, hp, wf_bytes, hl, hres]
          rfl
  · simp [hf] at h

theorem rRead (n : Nat) : Conf (Nop.rRead n) :=
  prim n (fun _ => n) (fun s => s.bytes.take n) (Nop.rRead n) (fun _ => rfl) (fun _ _ => rfl)

theorem rSkip (n : Nat) : Conf (Nop.rSkip n) :=
  prim n (fun _ => n) (fun _ => ()) (Nop.rSkip n) (fun _ => rfl) (fun _ _ => rfl)

theorem rEnsure (n : Nat) : Conf (Nop.rEnsure n) := by
  intro s a s' h
  unfold Nop.rEnsure at h
  by_cases hf : framesOk n s.frames = true
  · simp only [hf, Bool.not_true, Bool.false_eq_true, ↓reduceIte] at h
    cases hp : s.pre with
    | mk e sp =>
      have hpf : sp.frames = s.frames := by have := pre_frames s; rw [hp] at this; exact this
      have hpb : sp.bytes = s.bytes := by have := pre_bytes' s; rw [hp] at this; exact this
      cases e with
      | some e => simp [hp] at h
      | none =>
        simp only [hp] at h
        split at h
        · simp at h
        · rename_i hcond
          simp only [Prod.mk.injEq, Except.ok.injEq, true_and] at h
          subst h
          refine ⟨0, by omega, by simp [hpb], framesOk_zero _, by simp [hpf], ?_⟩
          intro I O hIO
          unfold Nop.rEnsure
          have hfI : framesOk n I = true := by
            rw [hIO, framesOk_append] at hf
            simp only [Bool.and_eq_true] at hf
            exact hf.1
          simp only [wf_frames, hfI, Bool.not_true, Bool.false_eq_true, ↓reduceIte, pre_withFrames, hp]
          have hcond' : ¬ ((sp.withFrames I).ensureChecks && decide ((sp.withFrames I).bytes.length < n)) = true := hcond
          rw [if_neg hcond']
          simp
  · simp [hf] at h

theorem rGetHandle (r : Int) : Conf (Nop.rGetHandle r) := by
  intro s a s' h
  unfold Nop.rGetHandle at h
  cases hp : s.pre with
  | mk e sp =>
    have hpf : sp.frames = s.frames := by have := pre_frames s; rw [hp] at this; exact this
    have hpb : sp.bytes = s.bytes := by have := pre_bytes' s; rw [hp] at this; exact this
    cases e with
    | some e => simp [hp] at h
    | none =>
      simp only [hp, Prod.mk.injEq] at h
      obtain ⟨h1, rfl⟩ := h
      refine ⟨0, by omega, by simp [hpb], framesOk_zero _, by simp [hpf], ?_⟩
      intro I O _
      unfold Nop.rGetHandle
      simp only [pre_withFrames, hp, wf_handles, h1]
      simp

theorem map_ok {m : M α} {g : α → β} (hm : Conf m)
    (k : M β) (hk : ∀ s, k s = match m s with | (.ok a, s') => (.ok (g a), s') | (.error e, s') => (.error e, s')) :
    Conf k := by
  intro s b s' h
  rw [hk] at h
  cases hms : m s with
  | mk r s1 =>
    cases r with
    | error e => simp [hms] at h
    | ok a =>
      simp only [hms, Prod.mk.injEq, Except.ok.injEq] at h
      obtain ⟨rfl, rfl⟩ := h
      obtain ⟨c, l, bb, f, fr, L⟩ := hm s a s1 hms
      refine ⟨c, l, bb, f, fr, ?_⟩
      intro I O hIO
      rw [hk, L I O hIO]

theorem rByte : Conf Nop.rByte :=
  map_ok (g := fun bs => bs.headD 0) (rRead 1) Nop.rByte
    (fun s => by unfold Nop.rByte; cases Nop.rRead 1 s with | mk r s1 => cases r <;> rfl)

theorem withPrefix {mt : UInt8 → Bool} {k : UInt8 → M α} (hk : ∀ p, Conf (k p)) : Conf (Nop.withPrefix mt k) := by
  have : Nop.withPrefix mt k = (Nop.rByte >>= fun p => if mt p then k p else M.fail .unexpectedEncodingType) := by
    funext s
    simp only [Nop.withPrefix, bind_run]
    cases Nop.rByte s with
    | mk r s1 =>
      cases r with
      | error e => rfl
      | ok p => by_cases hm : mt p = true <;> simp [hm]
  rw [this]
  exact bind rByte (fun p => ite (hk p) (fail _))

theorem decIntPayload (k : IntKind) (p : UInt8) : Conf (Nop.decIntPayload k p) := by
  by_cases h0 : (intPayloadLen k p == 0) = true
  · have : Nop.decIntPayload k p = (Pure.pure (intOfPayload k p []) : M Int) := by
      funext s; simp [Nop.decIntPayload, h0]
    rw [this]; exact pure _
  · exact map_ok (g := fun bs => intOfPayload k p bs) (rRead (intPayloadLen k p)) _
      (fun s => by
        unfold Nop.decIntPayload
        rw [if_neg h0]
        cases Nop.rRead (intPayloadLen k p) s with | mk r s1 => cases r <;> rfl)

theorem decInt (k : IntKind) : Conf (Nop.decInt k) := withPrefix (fun p => decIntPayload k p)

theorem decSize : Conf Nop.decSize :=
  map_ok (g := fun i : Int => i.toNat) (decInt .u64) Nop.decSize
    (fun s => by unfold Nop.decSize; cases Nop.decInt .u64 s with | mk r s1 => cases r <;> rfl)

theorem repM {f : M α} (hf : Conf f) : ∀ n, Conf (Nop.repM n f)
  | 0 => by
    have : Nop.repM 0 f = (Pure.pure [] : M (List α)) := by funext s; simp [Nop.repM]
    rw [this]; exact pure _
  | n + 1 => by
    have : Nop.repM (n + 1) f = (f >>= fun a => Nop.repM n f >>= fun as => Pure.pure (a :: as)) := by
      funext s
      simp only [Nop.repM, bind_run]
      cases f s with
      | mk r s1 =>
        cases r with
        | error e => rfl
        | ok a =>
          simp only
          cases Nop.repM n f s1 with
          | mk r2 s2 => cases r2 <;> rfl
    rw [this]
    exact bind hf (fun a => bind (repM hf n) (fun _ => pure _))

theorem repP {f : α → M α} (d : α) (hf : ∀ a, Conf (f a)) : ∀ n pr, Conf (Nop.repP n pr d f)
  | 0, pr => by
    have : Nop.repP 0 pr d f = (Pure.pure [] : M (List α)) := by funext s; simp [Nop.repP]
    rw [this]; exact pure _
  | n + 1, pr => by
    have : Nop.repP (n + 1) pr d f = (f (pr.headD d) >>= fun a => Nop.repP n pr.tail d f >>= fun as => Pure.pure (a :: as)) := by
      funext s
      simp only [Nop.repP, bind_run]
      cases f (pr.headD d) s with
      | mk r s1 =>
        cases r with
        | error e => rfl
        | ok a =>
          simp only
          cases Nop.repP n pr.tail d f s1 with
          | mk r2 s2 => cases r2 <;> rfl
    rw [this]
    exact bind (hf _) (fun a => bind (repP d hf n _) (fun _ => pure _))

theorem itM {f : α → M α} (hf : ∀ a, Conf (f a)) : ∀ n a, Conf (Nop.itM n f a)
  | 0, a => by
    have : Nop.itM 0 f a = (Pure.pure a : M α) := by funext s; simp [Nop.itM]
    rw [this]; exact pure _
  | n + 1, a => by
    have : Nop.itM (n + 1) f a = (f a >>= fun a' => Nop.itM n f a') := by
      funext s
      simp only [Nop.itM, bind_run]
      cases f a s with
      | mk r s1 => cases r <;> rfl
    rw [this]
    exact bind (hf a) (fun a' => itM hf n a')

/-- the bracket `BoundedReader{reader, sz}` … `ReadPadding()` around a confined read -/
theorem framed {m : M α} (hm : Conf m) (sz : Nat) (g : α → β) :
    Conf (Nop.rPush sz >>= fun _ => m >>= fun v => Nop.rPadPop >>= fun _ => Pure.pure (g v)) := by
  intro s b s' h
  have hpush : Nop.rPush sz s = (.ok (), s.withFrames (sz :: s.frames)) := rfl
  rw [bind_ok hpush, bind_run] at h
  cases hms : m (s.withFrames (sz :: s.frames)) with
  | mk r s1 =>
    cases r with
    | error e => simp [hms] at h
    | ok a =>
      simp only [hms] at h
      obtain ⟨c, l, bb, f, fr, L⟩ := hm _ a s1 hms
      simp only [wf_frames, wf_bytes] at l bb f fr
      rw [bind_run] at h
      -- ReadPadding: skip what is left of the entry's budget, checked against the outer budgets
      unfold Nop.rPadPop at h
      simp only [fr, List.map_cons] at h
      cases hsk : Nop.rSkip (sz - c) (s1.withFrames (s.frames.map (· - c))) with
      | mk r2 s2 =>
        have hsk' : Nop.rSkip (sz - c) { s1 with frames := s.frames.map (· - c) } = (r2, s2) := hsk
        rw [hsk'] at h
        cases r2 with
        | error e => simp at h
        | ok u =>
          simp only [pure_run, Prod.mk.injEq, Except.ok.injEq] at h
          obtain ⟨rfl, rfl⟩ := h
          obtain ⟨c2, l2, b2, f2, fr2, L2⟩ := rSkip (sz - c) _ u s2 hsk
          simp only [wf_frames, wf_bytes] at l2 b2 f2 fr2
          have hcsz : c ≤ sz := by
            have := (framesOk_iff c (sz :: s.frames)).1 f sz (List.mem_cons_self ..)
            exact this
          -- the skip consumed exactly the rest of the budget
          have hc2 : c2 = sz - c := by
            unfold Nop.rSkip at hsk
            split at hsk
            · simp at hsk
            · cases hp : (s1.withFrames (s.frames.map (· - c))).pre with
              | mk e sp =>
                have hpb : sp.bytes = s1.bytes := by
                  have := pre_bytes' (s1.withFrames (s.frames.map (· - c))); rw [hp] at this; exact this
                cases e with
                | some e => simp [hp] at hsk
                | none =>
                  simp only [hp] at hsk
                  split at hsk
                  · simp at hsk
                  · rename_i hl
                    simp only [Prod.mk.injEq, Except.ok.injEq, true_and] at hsk
                    have hb3 : s2.bytes = s1.bytes.drop (sz - c) := by rw [← hsk]; simp [hpb]
                    have hlen : s2.bytes.length = s1.bytes.length - (sz - c) := by rw [hb3]; simp
                    have hlen2 : s2.bytes.length = s1.bytes.length - c2 := by rw [b2]; simp
                    rw [hpb] at hl
                    omega
          subst hc2
          have hfs : framesOk c s.frames = true := by
            rw [framesOk_iff] at f ⊢
            intro x hx; exact f x (List.mem_cons_of_mem _ hx)
          refine ⟨c + (sz - c), ?_, ?_, ?_, ?_, ?_⟩
          · rw [bb] at l2; simp at l2; omega
          · rw [b2, bb, List.drop_drop]
          · exact framesOk_add hfs f2
          · rw [fr2, map_sub_sub]
          · intro I O hIO
            have hpushI : Nop.rPush sz (s.withFrames I) = (.ok (), s.withFrames (sz :: I)) := rfl
            rw [bind_ok hpushI, bind_run]
            have hL := L (sz :: I) O (by simp [hIO])
            simp only [wf_wf] at hL
            rw [hL]
            simp only
            rw [bind_run]
            unfold Nop.rPadPop
            simp only [wf_frames, List.map_cons]
            have hL2 := L2 (I.map (· - c)) (O.map (· - c)) (by simp [hIO])
            simp only [wf_wf] at hL2
            have hL2' : Nop.rSkip (sz - c) { s1.withFrames ((sz - c) :: I.map (· - c)) with frames := I.map (· - c) }
                = (.ok u, s2.withFrames ((I.map (· - c)).map (· - (sz - c)))) := hL2
            rw [hL2']
            simp only [pure_run, bind_run, map_sub_sub]

end Conf
end Nop
