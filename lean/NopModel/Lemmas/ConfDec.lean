import NopModel.Lemmas.Conf
namespace Nop

macro "conf_step" : tactic => `(tactic| first
  | exact Conf.pure _ | exact Conf.fail _ | exact Conf.rRead _ | exact Conf.rSkip _ | exact Conf.rEnsure _
  | exact Conf.rGetHandle _ | exact Conf.decInt _ | exact Conf.decSize
  | exact Conf.decIntPayload _ _ | exact Conf.rByte
  | apply Conf.bind | apply Conf.ite | apply Conf.withPrefix | apply Conf.repM | apply Conf.repP | apply Conf.itM
  | intro _)

theorem conf_decBin (f : Flavor) (e : Ty) : Conf (decBin f e) := by
  unfold decBin
  apply Conf.bind Conf.decSize
  intro sz
  cases f <;> simp only <;> repeat conf_step

theorem conf_skipEntry : Conf skipEntry := by
  unfold skipEntry
  repeat conf_step

mutual
theorem conf_decPayload : ∀ (t : Ty) (p : UInt8) (prior : Val), Conf (decPayload t p prior)
  | .bool, p, pr => by simp only [decPayload]; repeat conf_step
  | .int k nom, p, pr => by simp only [decPayload]; repeat conf_step
  | .float w, p, pr => by simp only [decPayload]; repeat conf_step
  | .str n cb, p, pr => by simp only [decPayload]; repeat conf_step
  | .seq f e, p, pr => by
    simp only [decPayload]
    split
    · exact conf_decBin f e
    · cases f <;> simp only
      · apply Conf.bind Conf.decSize; intro n
        apply Conf.bind
        · apply Conf.repM
          apply Conf.withPrefix; intro q; exact conf_decPayload e q _
        · intro _; exact Conf.pure _
      all_goals
        apply Conf.bind Conf.decSize; intro n
        apply Conf.ite (Conf.fail _)
        apply Conf.bind
        · apply Conf.repP
          intro a; apply Conf.withPrefix; intro q; exact conf_decPayload e q _
        · intro _; exact Conf.pure _
  | .prod k ts, p, pr => by
    simp only [decPayload]
    apply Conf.bind Conf.decSize; intro n
    apply Conf.ite (Conf.fail _)
    apply Conf.bind (conf_decProd ts _)
    intro _; exact Conf.pure _
  | .map o k v, p, pr => by
    simp only [decPayload]
    apply Conf.bind Conf.decSize; intro n
    apply Conf.bind
    · apply Conf.repM
      apply Conf.bind
      · apply Conf.withPrefix; intro q; exact conf_decPayload k q _
      · intro a
        apply Conf.bind
        · apply Conf.withPrefix; intro q; exact conf_decPayload v q _
        · intro _; exact Conf.pure _
    · intro _; exact Conf.pure _
  | .opt t, p, pr => by
    simp only [decPayload]
    apply Conf.ite (Conf.pure _)
    apply Conf.bind (conf_decPayload t p _)
    intro _; exact Conf.pure _
  | .result en ek t, p, pr => by
    simp only [decPayload]
    apply Conf.ite
    · repeat conf_step
    · apply Conf.bind (conf_decPayload t p _)
      intro _; exact Conf.pure _
  | .variant ts, p, pr => by
    simp only [decPayload]
    apply Conf.bind (Conf.decInt _); intro idx
    apply Conf.ite (Conf.fail _)
    apply Conf.ite
    · repeat conf_step
    · apply Conf.bind (conf_decAlt ts _ _)
      intro _; exact Conf.pure _
  | .handle pol ht tk, p, pr => by simp only [decPayload]; repeat conf_step
  | .wrap t, p, pr => by simp only [decPayload]; exact conf_decPayload t p pr
  | .ref t, p, pr => by simp only [decPayload]; exact conf_decPayload t p pr
  | .table hash ents tys, p, pr => by
    simp only [decPayload]
    apply Conf.bind (Conf.decInt _); intro h
    apply Conf.ite (Conf.fail _)
    apply Conf.bind Conf.decSize; intro n
    apply Conf.bind
    · apply Conf.itM
      intro cur
      apply Conf.bind (Conf.decInt _); intro id
      exact conf_decEntry ents tys _ cur
    · intro _; exact Conf.pure _
theorem conf_decProd : ∀ (ts : List Ty) (prs : List Val), Conf (decProd ts prs)
  | [], prs => by simp only [decProd]; exact Conf.pure _
  | t :: ts, prs => by
    simp only [decProd]
    apply Conf.bind
    · apply Conf.withPrefix; intro q; exact conf_decPayload t q _
    · intro v
      apply Conf.bind (conf_decProd ts _)
      intro _; exact Conf.pure _
theorem conf_decAlt : ∀ (ts : List Ty) (i : Nat) (pr : Option Val), Conf (decAlt ts i pr)
  | [], i, pr => by simp only [decAlt]; exact Conf.fail _
  | t :: ts, 0, pr => by
    simp only [decAlt]
    apply Conf.withPrefix; intro q; exact conf_decPayload t q _
  | t :: ts, i + 1, pr => by simp only [decAlt]; exact conf_decAlt ts i pr
theorem conf_decEntry : ∀ (ents : List (Nat × Bool)) (ts : List Ty) (id : Nat) (cur : List Val),
    Conf (decEntry ents ts id cur)
  | [], ts, id, cur => by
    simp only [decEntry]
    apply Conf.bind conf_skipEntry; intro _; exact Conf.pure _
  | (eid, del) :: es, [], id, cur => by
    simp only [decEntry]
    apply Conf.bind conf_skipEntry; intro _; exact Conf.pure _
  | (eid, del) :: es, t :: ts, id, [] => by
    simp only [decEntry]
    apply Conf.bind conf_skipEntry; intro _; exact Conf.pure _
  | (eid, del) :: es, t :: ts, id, c :: cs => by
    simp only [decEntry]
    apply Conf.ite
    · apply Conf.ite
      · apply Conf.bind conf_skipEntry; intro _; exact Conf.pure _
      · apply Conf.ite (Conf.fail _)
        apply Conf.bind Conf.decSize; intro sz
        exact Conf.framed (Conf.withPrefix (fun q => conf_decPayload t q _)) sz _
    · apply Conf.bind (conf_decEntry es ts id cs)
      intro _; exact Conf.pure _
end

theorem conf_decInto (t : Ty) (prior : Val) : Conf (decInto t prior) :=
  Conf.withPrefix (fun p => conf_decPayload t p prior)

end Nop
