import NopModel.Codec
import NopModel.Lemmas.Src
import NopModel.Lemmas.Loop
/-! C02 (reader side): a decoder run only ever moves forward through the source: whatever
happens, the bytes left afterwards are a suffix of the bytes it started with — it never
reads before the start, past the end, or anything that is not in the source. -/
namespace Nop

/-- `m` leaves a suffix of the source -/
def Fwd {α} (m : M α) : Prop := ∀ (s : Src) (r : Except Err α) (s' : Src), m s = (r, s') → s'.bytes <:+ s.bytes

namespace Fwd
variable {α β : Type}

theorem pure (a : α) : Fwd (Pure.pure a : M α) := by
  intro s r s' h; simp only [pure_run, Prod.mk.injEq] at h; rw [← h.2]; exact List.suffix_refl _
theorem fail (e : Err) : Fwd (M.fail e : M α) := by
  intro s r s' h; simp only [fail_run, Prod.mk.injEq] at h; rw [← h.2]; exact List.suffix_refl _

theorem bind {m : M α} {f : α → M β} (hm : Fwd m) (hf : ∀ a, Fwd (f a)) : Fwd (m >>= f) := by
  intro s r s' h
  rw [bind_run] at h
  cases hms : m s with
  | mk r1 s1 =>
    have h1 := hm s r1 s1 hms
    cases r1 with
    | error e => simp only [hms, Prod.mk.injEq] at h; rw [← h.2]; exact h1
    | ok a => simp only [hms] at h; exact (hf a s1 r s' h).trans h1

theorem ite {c : Prop} [Decidable c] {a b : M α} (ha : Fwd a) (hb : Fwd b) : Fwd (if c then a else b) := by
  split <;> assumption

theorem pre_bytes (s : Src) : s.pre.2.bytes = s.bytes := by
  unfold Src.pre; split <;> rfl

theorem rRead (n : Nat) : Fwd (Nop.rRead n) := by
  intro s r s' h
  unfold Nop.rRead at h
  split at h
  · simp only [Prod.mk.injEq] at h; rw [← h.2]; exact List.suffix_refl _
  · have hb := pre_bytes s
    split at h
    · rename_i e s1 hp
      simp only [Prod.mk.injEq] at h; rw [← h.2]
      rw [hp] at hb; simp only at hb; rw [hb]; exact List.suffix_refl _
    · rename_i s1 hp
      rw [hp] at hb; simp only at hb
      split at h
      · simp only [Prod.mk.injEq] at h; rw [← h.2, hb]; exact List.suffix_refl _
      · simp only [Prod.mk.injEq] at h; rw [← h.2]; simp only [adv_bytes, hb]; exact List.drop_suffix _ _

theorem rSkip (n : Nat) : Fwd (Nop.rSkip n) := by
  intro s r s' h
  unfold Nop.rSkip at h
  split at h
  · simp only [Prod.mk.injEq] at h; rw [← h.2]; exact List.suffix_refl _
  · have hb := pre_bytes s
    split at h
    · rename_i e s1 hp
      simp only [Prod.mk.injEq] at h; rw [← h.2]
      rw [hp] at hb; simp only at hb; rw [hb]; exact List.suffix_refl _
    · rename_i s1 hp
      rw [hp] at hb; simp only at hb
      split at h
      · simp only [Prod.mk.injEq] at h; rw [← h.2, hb]; exact List.suffix_refl _
      · simp only [Prod.mk.injEq] at h; rw [← h.2]; simp only [adv_bytes, hb]; exact List.drop_suffix _ _

theorem rEnsure (n : Nat) : Fwd (Nop.rEnsure n) := by
  intro s r s' h
  unfold Nop.rEnsure at h
  split at h
  · simp only [Prod.mk.injEq] at h; rw [← h.2]; exact List.suffix_refl _
  · have hb := pre_bytes s
    split at h
    · rename_i e s1 hp
      simp only [Prod.mk.injEq] at h; rw [← h.2]
      rw [hp] at hb; simp only at hb; rw [hb]; exact List.suffix_refl _
    · rename_i s1 hp
      rw [hp] at hb; simp only at hb
      split at h <;> (simp only [Prod.mk.injEq] at h; rw [← h.2, hb]; exact List.suffix_refl _)

theorem rGetHandle (ref : Int) : Fwd (Nop.rGetHandle ref) := by
  intro s r s' h
  unfold Nop.rGetHandle at h
  have hb := pre_bytes s
  split at h
  · rename_i e s1 hp
    simp only [Prod.mk.injEq] at h; rw [← h.2]
    rw [hp] at hb; simp only at hb; rw [hb]; exact List.suffix_refl _
  · rename_i s1 hp
    rw [hp] at hb; simp only at hb
    simp only [Prod.mk.injEq] at h; rw [← h.2, hb]; exact List.suffix_refl _

theorem rPush (n : Nat) : Fwd (Nop.rPush n) := by
  intro s r s' h
  simp only [Nop.rPush, Prod.mk.injEq] at h; rw [← h.2]; exact List.suffix_refl _

theorem rPadPop : Fwd Nop.rPadPop := by
  intro s r s' h
  unfold Nop.rPadPop at h
  split at h
  · simp only [Prod.mk.injEq] at h; rw [← h.2]; exact List.suffix_refl _
  · rename_i b fs hfr
    cases hsk : Nop.rSkip b { s with frames := fs } with
    | mk r1 s1 =>
      have h1 := Fwd.rSkip b { s with frames := fs } r1 s1 hsk
      cases r1 with
      | ok u => simp only [hsk, Prod.mk.injEq] at h; rw [← h.2]; exact h1
      | error e => simp only [hsk, Prod.mk.injEq] at h; rw [← h.2]; exact h1

theorem map_ok {m : M α} {g : α → β} (hm : Fwd m)
    {m' : M β} (h : ∀ s, m' s = match m s with
      | (.ok a, s') => (.ok (g a), s')
      | (.error e, s') => (.error e, s')) : Fwd m' := by
  intro s r s' hr
  rw [h s] at hr
  cases hms : m s with
  | mk r1 s1 =>
    have h1 := hm s r1 s1 hms
    cases r1 <;> (simp only [hms, Prod.mk.injEq] at hr; rw [← hr.2]; exact h1)

theorem rByte : Fwd Nop.rByte :=
  map_ok (g := fun bs => bs.headD 0) (Fwd.rRead 1) (fun s => by
    unfold Nop.rByte; cases Nop.rRead 1 s with | mk r s' => cases r <;> rfl)

theorem withPrefix {mt : UInt8 → Bool} {k : UInt8 → M α} (hk : ∀ p, Fwd (k p)) :
    Fwd (Nop.withPrefix mt k) := by
  have : Nop.withPrefix mt k = (Nop.rByte >>= fun p => if mt p then k p else M.fail .unexpectedEncodingType) := by
    funext s
    unfold Nop.withPrefix
    rw [bind_run]
    cases Nop.rByte s with
    | mk r s' =>
      cases r with
      | error e => rfl
      | ok p => simp only; split <;> rfl
  rw [this]
  exact bind rByte (fun p => ite (hk p) (fail _))

theorem decIntPayload (k : IntKind) (p : UInt8) : Fwd (Nop.decIntPayload k p) := by
  unfold Nop.decIntPayload
  by_cases h0 : (intPayloadLen k p == 0) = true
  · intro s r s' h
    simp only [h0, ↓reduceIte, Prod.mk.injEq] at h
    rw [← h.2]; exact List.suffix_refl _
  · simp only [h0, Bool.false_eq_true, ↓reduceIte]
    exact map_ok (g := fun bs => intOfPayload k p bs) (Fwd.rRead _) (fun s => by
      cases Nop.rRead (intPayloadLen k p) s with | mk r s' => cases r <;> rfl)

theorem decInt (k : IntKind) : Fwd (Nop.decInt k) := Fwd.withPrefix (fun p => Fwd.decIntPayload k p)

theorem decSize : Fwd Nop.decSize :=
  map_ok (g := fun i => i.toNat) (Fwd.decInt .u64) (fun s => by
    unfold Nop.decSize; cases Nop.decInt .u64 s with | mk r s' => cases r <;> rfl)

theorem repM {f : M α} (hf : Fwd f) : ∀ n, Fwd (Nop.repM n f)
  | 0 => by rw [repM_zero]; exact Fwd.pure _
  | n + 1 => by
    rw [repM_succ]
    exact Fwd.bind hf (fun a => Fwd.bind (repM hf n) (fun _ => Fwd.pure _))
theorem repP {f : α → M α} (d : α) (hf : ∀ a, Fwd (f a)) : ∀ n pr, Fwd (Nop.repP n pr d f)
  | 0, pr => by rw [repP_zero]; exact Fwd.pure _
  | n + 1, pr => by
    rw [repP_succ]
    exact Fwd.bind (hf _) (fun a => Fwd.bind (repP d hf n _) (fun _ => Fwd.pure _))
theorem itM {f : α → M α} (hf : ∀ a, Fwd (f a)) : ∀ n a, Fwd (Nop.itM n f a)
  | 0, a => by rw [itM_zero]; exact Fwd.pure _
  | n + 1, a => by
    rw [itM_succ]
    exact Fwd.bind (hf a) (fun a' => itM hf n a')

end Fwd
end Nop
