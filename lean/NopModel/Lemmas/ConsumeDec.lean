import NopModel.Lemmas.Consume
namespace Nop

macro "fwd_step" : tactic => `(tactic| first
  | exact Fwd.pure _ | exact Fwd.fail _ | exact Fwd.rRead _ | exact Fwd.rSkip _ | exact Fwd.rEnsure _
  | exact Fwd.rGetHandle _ | exact Fwd.rPush _ | exact Fwd.rPadPop | exact Fwd.decInt _ | exact Fwd.decSize
  | exact Fwd.decIntPayload _ _ | exact Fwd.rByte
  | apply Fwd.bind | apply Fwd.ite | apply Fwd.withPrefix | apply Fwd.repM | apply Fwd.repP | apply Fwd.itM
  | intro _)

theorem fwd_decBin (f : Flavor) (e : Ty) : Fwd (decBin f e) := by
  unfold decBin
  apply Fwd.bind Fwd.decSize
  intro sz
  cases f <;> simp only <;> repeat fwd_step

theorem fwd_skipEntry : Fwd skipEntry := by
  unfold skipEntry
  repeat fwd_step

mutual
theorem fwd_decPayload : ∀ (t : Ty) (p : UInt8) (prior : Val), Fwd (decPayload t p prior)
  | .bool, p, pr => by simp only [decPayload]; repeat fwd_step
  | .int k nom, p, pr => by simp only [decPayload]; repeat fwd_step
  | .float w, p, pr => by simp only [decPayload]; repeat fwd_step
  | .str n cb, p, pr => by simp only [decPayload]; repeat fwd_step
  | .seq f e, p, pr => by
    simp only [decPayload]
    split
    · exact fwd_decBin f e
    · cases f <;> simp only
      · apply Fwd.bind Fwd.decSize; intro n
        apply Fwd.bind
        · apply Fwd.repM
          apply Fwd.withPrefix; intro q; exact fwd_decPayload e q _
        · intro _; exact Fwd.pure _
      all_goals
        apply Fwd.bind Fwd.decSize; intro n
        apply Fwd.ite (Fwd.fail _)
        apply Fwd.bind
        · apply Fwd.repP
          intro a; apply Fwd.withPrefix; intro q; exact fwd_decPayload e q _
        · intro _; exact Fwd.pure _
  | .prod k ts, p, pr => by
    simp only [decPayload]
    apply Fwd.bind Fwd.decSize; intro n
    apply Fwd.ite (Fwd.fail _)
    apply Fwd.bind (fwd_decProd ts _)
    intro _; exact Fwd.pure _
  | .map o k v, p, pr => by
    simp only [decPayload]
    apply Fwd.bind Fwd.decSize; intro n
    apply Fwd.bind
    · apply Fwd.repM
      apply Fwd.bind
      · apply Fwd.withPrefix; intro q; exact fwd_decPayload k q _
      · intro a
        apply Fwd.bind
        · apply Fwd.withPrefix; intro q; exact fwd_decPayload v q _
        · intro _; exact Fwd.pure _
    · intro _; exact Fwd.pure _
  | .opt t, p, pr => by
    simp only [decPayload]
    apply Fwd.ite (Fwd.pure _)
    apply Fwd.bind (fwd_decPayload t p _)
    intro _; exact Fwd.pure _
  | .result en ek t, p, pr => by
    simp only [decPayload]
    apply Fwd.ite
    · repeat fwd_step
    · apply Fwd.bind (fwd_decPayload t p _)
      intro _; exact Fwd.pure _
  | .variant ts, p, pr => by
    simp only [decPayload]
    apply Fwd.bind (Fwd.decInt _); intro idx
    apply Fwd.ite (Fwd.fail _)
    apply Fwd.ite
    · repeat fwd_step
    · apply Fwd.bind (fwd_decAlt ts _ _)
      intro _; exact Fwd.pure _
  | .handle pol ht tk, p, pr => by simp only [decPayload]; repeat fwd_step
  | .wrap t, p, pr => by simp only [decPayload]; exact fwd_decPayload t p pr
  | .ref t, p, pr => by simp only [decPayload]; exact fwd_decPayload t p pr
  | .table hash ents tys, p, pr => by
    simp only [decPayload]
    apply Fwd.bind (Fwd.decInt _); intro h
    apply Fwd.ite (Fwd.fail _)
    apply Fwd.bind Fwd.decSize; intro n
    apply Fwd.bind
    · apply Fwd.itM
      intro cur
      apply Fwd.bind (Fwd.decInt _); intro id
      exact fwd_decEntry ents tys _ cur
    · intro _; exact Fwd.pure _
theorem fwd_decProd : ∀ (ts : List Ty) (prs : List Val), Fwd (decProd ts prs)
  | [], prs => by simp only [decProd]; exact Fwd.pure _
  | t :: ts, prs => by
    simp only [decProd]
    apply Fwd.bind
    · apply Fwd.withPrefix; intro q; exact fwd_decPayload t q _
    · intro v
      apply Fwd.bind (fwd_decProd ts _)
      intro _; exact Fwd.pure _
theorem fwd_decAlt : ∀ (ts : List Ty) (i : Nat) (pr : Option Val), Fwd (decAlt ts i pr)
  | [], i, pr => by simp only [decAlt]; exact Fwd.fail _
  | t :: ts, 0, pr => by
    simp only [decAlt]
    apply Fwd.withPrefix; intro q; exact fwd_decPayload t q _
  | t :: ts, i + 1, pr => by simp only [decAlt]; exact fwd_decAlt ts i pr
theorem fwd_decEntry : ∀ (ents : List (Nat × Bool)) (ts : List Ty) (id : Nat) (cur : List Val),
    Fwd (decEntry ents ts id cur)
  | [], ts, id, cur => by
    simp only [decEntry]
    apply Fwd.bind fwd_skipEntry; intro _; exact Fwd.pure _
  | (eid, del) :: es, [], id, cur => by
    simp only [decEntry]
    apply Fwd.bind fwd_skipEntry; intro _; exact Fwd.pure _
  | (eid, del) :: es, t :: ts, id, [] => by
    simp only [decEntry]
    apply Fwd.bind fwd_skipEntry; intro _; exact Fwd.pure _
  | (eid, del) :: es, t :: ts, id, c :: cs => by
    simp only [decEntry]
    apply Fwd.ite
    · apply Fwd.ite
      · apply Fwd.bind fwd_skipEntry; intro _; exact Fwd.pure _
      · apply Fwd.ite (Fwd.fail _)
        apply Fwd.bind Fwd.decSize; intro sz
        apply Fwd.bind (Fwd.rPush _); intro _
        apply Fwd.bind
        · apply Fwd.withPrefix; intro q; exact fwd_decPayload t q _
        · intro v
          apply Fwd.bind Fwd.rPadPop; intro _; exact Fwd.pure _
    · apply Fwd.bind (fwd_decEntry es ts id cs)
      intro _; exact Fwd.pure _
end

theorem fwd_decInto (t : Ty) (prior : Val) : Fwd (decInto t prior) :=
  Fwd.withPrefix (fun p => fwd_decPayload t p prior)

end Nop
