import NopModel.Codec
import NopModel.Lemmas.Int
import NopModel.Lemmas.Mono
/-! Compositional "this decoder step reads value `a` from exactly the bytes `bs`" judgement
and its combinators; the round-trip theorem is assembled from these. -/
namespace Nop

/-- the reader's handle table resolves every pushed (value, reference) pair -/
def Resolves (hs : List Int) (l : List (Int × Int)) : Prop :=
  ∀ p ∈ l, resolveHandle hs p.2 = .ok p.1

theorem Resolves.mono {hs : List Int} {l l' : List (Int × Int)} (h : Resolves hs l') (hp : l <+: l') :
    Resolves hs l := fun p hm => h p (hp.subset hm)

/-- on every clean source that starts with `bs`, has budget for it and resolves the handles
in `ps`, `m` succeeds with `a` and consumes exactly `bs` -/
def DecOK {α} (m : M α) (a : α) (bs : Bytes) (ps : List (Int × Int)) : Prop :=
  ∀ (s : Src) (rest : Bytes), s.fault = .none → s.bytes = bs ++ rest →
    framesOk bs.length s.frames = true → Resolves s.handles ps →
    m s = (.ok a, s.adv bs.length)

namespace DecOK
variable {α β : Type} {ps : List (Int × Int)}

theorem weaken {m : M α} {a : α} {bs : Bytes} {ps' : List (Int × Int)}
    (h : DecOK m a bs ps) (hp : ps <+: ps') : DecOK m a bs ps' :=
  fun s rest hc hb hf hr => h s rest hc hb hf (hr.mono hp)

theorem pure (a : α) : DecOK (Pure.pure a : M α) a [] ps := by
  intro s rest _ _ _ _
  simp

theorem bind {m : M α} {f : α → M β} {a : α} {c : β} {b1 b2 bs : Bytes}
    (h1 : DecOK m a b1 ps) (h2 : DecOK (f a) c b2 ps) (hbs : bs = b1 ++ b2) :
    DecOK (m >>= f) c bs ps := by
  subst hbs
  intro s rest hc hb hf hr
  have hb1 : s.bytes = b1 ++ (b2 ++ rest) := by rw [hb, List.append_assoc]
  have hf1 : framesOk b1.length s.frames = true :=
    framesOk_mono (by simp) hf
  rw [bind_ok (h1 s (b2 ++ rest) hc hb1 hf1 hr)]
  have hf2 : framesOk b2.length (s.adv b1.length).frames = true := by
    apply framesOk_adv (a := b1.length)
    simpa using hf
  rw [h2 (s.adv b1.length) rest (by simpa using hc) (by simp [hb1]) hf2 (by simpa using hr)]
  simp [adv_adv]

theorem map {m : M α} {g : α → β} {a : α} {bs : Bytes} (h : DecOK m a bs ps) :
    DecOK (m >>= fun x => Pure.pure (g x)) (g a) bs ps :=
  bind h (pure (g a)) (by simp)

theorem decInt {k : IntKind} {i : Int} (hr : k.inRange i = true) : DecOK (Nop.decInt k) i (encInt k i) ps :=
  fun _ _ hc hb hf _ => decInt_encInt hr hc hb hf

theorem decSize {n : Nat} (hn : n < 2 ^ 64) : DecOK Nop.decSize n (encSize n) ps := by
  intro s rest hc hb hf hr
  unfold Nop.decSize
  have : IntKind.u64.inRange (n : Int) = true := by
    simp [IntKind.inRange, IntKind.minVal, IntKind.maxVal, IntKind.signed, IntKind.bits, IntKind.bytes]
    omega
  rw [decInt_encInt this hc hb hf]
  simp [encSize]

theorem read {bs : Bytes} {n : Nat} (hn : bs.length = n) : DecOK (rRead n) bs bs ps := by
  intro s rest hc hb hf _
  subst hn
  rw [rRead_ok hc (by simp [hb]) hf]
  simp [hb]

theorem ensureThen {m : M α} {a : α} {bs : Bytes} {n : Nat} (hn : n ≤ bs.length) (h : DecOK m a bs ps) :
    DecOK (rEnsure n >>= fun _ => m) a bs ps := by
  intro s rest hc hb hf hr
  rw [bind_ok (rEnsure_ok hc (by simp [hb]; omega) (framesOk_mono hn hf))]
  exact h s rest hc hb hf hr

theorem withPrefix {mt : UInt8 → Bool} {k : UInt8 → M α} {p : UInt8} {a : α} {b : Bytes}
    (hm : mt p = true) (h : DecOK (k p) a b ps) : DecOK (Nop.withPrefix mt k) a (p :: b) ps := by
  intro s rest hc hb hf hr
  have hf1 : framesOk 1 s.frames = true := framesOk_mono (by simp) hf
  rw [withPrefix_ok hc (by simpa using hb) hf1 hm]
  have hf2 : framesOk b.length (s.adv 1).frames = true := by
    apply framesOk_adv (a := 1)
    simpa [Nat.add_comm] using hf
  rw [h (s.adv 1) rest (by simpa using hc) (by simp [hb]) hf2 (by simpa using hr)]
  simp [adv_adv, Nat.add_comm]

theorem getHandle {hv r : Int} (hm : (hv, r) ∈ ps) : DecOK (rGetHandle r) hv [] ps := by
  intro s rest hc _ _ hr
  unfold rGetHandle
  rw [pre_clean hc]
  simp [hr (hv, r) hm]

end DecOK

end Nop
