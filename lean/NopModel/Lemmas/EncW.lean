import NopModel.EncW
import NopModel.Lemmas.Src
/-! The call-level writer: (1) `StopsW` - an error reported by the underlying writer stops the
operation, is returned unchanged, and no further call reaches the writer; (2) `Emits` - on a
healthy writer with room, the calls of `encW` add up to exactly the bytes of the pure `encode`. -/
namespace Nop

@[simp] theorem pureW_run {α} (a : α) (s : Snk) : (pure a : MW α) s = (.ok a, s) := rfl
@[simp] theorem failW_run {α} (e : Err) (s : Snk) : (MW.fail e : MW α) s = (.error e, s) := rfl

theorem bindW_run {α β} (x : MW α) (f : α → MW β) (s : Snk) :
    (x >>= f) s = match x s with
      | (.ok a, s') => f a s'
      | (.error e, s') => (.error e, s') := rfl

/-! ### (1) fault discipline -/

/-- no injected failure has happened yet -/
def Snk.live (e : Err) (s : Snk) : Prop := s.fault = .none ∨ ∃ k, s.fault = .armed k e

/-- outcome of running `m` from a live state: either still live, or the injected failure
happened, nothing was called afterwards, and `m` returned exactly that error -/
def StoppedW {α} (e : Err) (r : Except Err α) (s' : Snk) : Prop :=
  s'.live e ∨ (s'.fault = .dead e ∧ r = .error e)

def StopsW {α} (m : MW α) : Prop :=
  ∀ (e : Err) (s : Snk) (r : Except Err α) (s' : Snk), s.live e → m s = (r, s') → StoppedW e r s'

theorem liveW_pre {e : Err} {s : Snk} (h : s.live e) :
    (∃ s1, s.pre = (none, s1) ∧ s1.live e ∧ s1.out = s.out ∧ s1.frames = s.frames ∧ s1.cap = s.cap
        ∧ s1.chan = s.chan) ∨
    (s.pre = (some e, { s with fault := .dead e })) := by
  unfold Snk.pre
  rcases h with h | ⟨k, h⟩
  · left; exact ⟨s, by rw [h], Or.inl h, rfl, rfl, rfl, rfl⟩
  · cases k with
    | zero => right; rw [h]
    | succ k =>
      left
      exact ⟨{ s with fault := .armed k e }, by rw [h], Or.inr ⟨k, rfl⟩, rfl, rfl, rfl, rfl⟩

namespace StopsW
variable {α β : Type}

theorem pure (a : α) : StopsW (Pure.pure a : MW α) := by
  intro e0 s r s' hl h
  simp only [pureW_run, Prod.mk.injEq] at h
  obtain ⟨_, rfl⟩ := h
  exact Or.inl hl

theorem fail (e : Err) : StopsW (MW.fail e : MW α) := by
  intro e0 s r s' hl h
  simp only [failW_run, Prod.mk.injEq] at h
  obtain ⟨_, rfl⟩ := h
  exact Or.inl hl

theorem bind {m : MW α} {f : α → MW β} (hm : StopsW m) (hf : ∀ a, StopsW (f a)) : StopsW (m >>= f) := by
  intro e0 s r s' hl h
  rw [bindW_run] at h
  cases hms : m s with
  | mk r1 s1 =>
    have h1 := hm e0 s r1 s1 hl hms
    cases r1 with
    | error e =>
      simp only [hms, Prod.mk.injEq] at h
      obtain ⟨rfl, rfl⟩ := h
      rcases h1 with h1 | ⟨hd, he⟩
      · exact Or.inl h1
      · right; exact ⟨hd, by simpa using he⟩
    | ok a =>
      simp only [hms] at h
      rcases h1 with h1 | ⟨_, he⟩
      · exact hf a e0 s1 r s' h1 h
      · simp at he

theorem ite {c : Prop} [Decidable c] {a b : MW α} (ha : StopsW a) (hb : StopsW b) : StopsW (if c then a else b) := by
  split <;> assumption

/-- shape shared by Prepare / Write / Skip: budget check, fault script, then a pure outcome -/
theorem prim {g : Snk → Except Err α × Snk} (n : Nat)
    (hg : ∀ s1, (g s1).2.fault = s1.fault) :
    StopsW (fun s => if !framesOk n s.frames then (.error .writeLimitReached, s) else
      match s.pre with
      | (some e, s') => (.error e, s')
      | (none, s') => g s') := by
  intro e0 s r s' hl h
  simp only at h
  split at h
  · simp only [Prod.mk.injEq] at h; obtain ⟨_, rfl⟩ := h; exact Or.inl hl
  · rcases liveW_pre hl with ⟨s1, hp, hl1, _⟩ | hp
    · rw [hp] at h
      simp only at h
      have hfe : s'.fault = s1.fault := by
        have := hg s1
        rw [h] at this
        exact this
      left
      unfold Snk.live at hl1 ⊢
      rw [hfe]; exact hl1
    · rw [hp] at h
      simp only [Prod.mk.injEq] at h
      obtain ⟨rfl, rfl⟩ := h
      right; exact ⟨rfl, rfl⟩

theorem wPrepare (n : Nat) : StopsW (Nop.wPrepare n) := by
  have := prim (α := Unit) n (g := fun s' =>
    if s'.room n then (.ok (), s') else (.error .writeLimitReached, s'))
    (by intro s1; split <;> rfl)
  exact this

theorem wWrite (bs : Bytes) : StopsW (Nop.wWrite bs) := by
  have := prim (α := Unit) bs.length (g := fun s' =>
    if !s'.checked || s'.room bs.length then (.ok (), s'.acc bs) else (.error .writeLimitReached, s'))
    (by intro s1; split <;> rfl)
  exact this

theorem wSkip (n : Nat) (pad : UInt8) : StopsW (Nop.wSkip n pad) := wWrite _

theorem wPushHandle (hv : Int) : StopsW (Nop.wPushHandle hv) := by
  intro e0 s r s' hl h
  unfold Nop.wPushHandle at h
  rcases liveW_pre hl with ⟨s1, hp, hl1, _⟩ | hp
  · rw [hp] at h
    simp only at h
    left
    split at h
    all_goals
      simp only [Prod.mk.injEq] at h
      obtain ⟨_, rfl⟩ := h
      exact hl1
  · rw [hp] at h
    simp only [Prod.mk.injEq] at h
    obtain ⟨rfl, rfl⟩ := h
    right; exact ⟨rfl, rfl⟩

theorem wPush (n : Nat) : StopsW (Nop.wPush n) := by
  intro e0 s r s' hl h
  simp only [Nop.wPush, Prod.mk.injEq] at h
  obtain ⟨_, rfl⟩ := h
  exact Or.inl hl

theorem wPadPop : StopsW Nop.wPadPop := by
  intro e0 s r s' hl h
  unfold Nop.wPadPop at h
  cases hfr : s.frames with
  | nil =>
    simp only [hfr, Prod.mk.injEq] at h
    obtain ⟨_, rfl⟩ := h
    exact Or.inl hl
  | cons b fs =>
    simp only [hfr] at h
    cases hsk : Nop.wSkip b 0 { s with frames := fs } with
    | mk r1 s1 =>
      have h1 := StopsW.wSkip b 0 e0 { s with frames := fs } r1 s1 hl hsk
      cases r1 with
      | ok u =>
        simp only [hsk, Prod.mk.injEq] at h
        obtain ⟨rfl, rfl⟩ := h
        rcases h1 with h1 | ⟨_, he⟩
        · exact Or.inl h1
        · simp at he
      | error e =>
        simp only [hsk, Prod.mk.injEq] at h
        obtain ⟨rfl, rfl⟩ := h
        rcases h1 with h1 | ⟨hd, he⟩
        · exact Or.inl h1
        · right; exact ⟨hd, by simpa using he⟩

theorem wInt (k : IntKind) (i : Int) : StopsW (Nop.wInt k i) := by
  unfold Nop.wInt
  split
  · exact pure _
  · exact bind (wWrite _) (fun _ => ite (pure _) (wWrite _))

theorem forW {γ} {f : γ → MW Unit} (hf : ∀ a, StopsW (f a)) : ∀ as, StopsW (Nop.forW f as)
  | [] => by unfold Nop.forW; exact pure _
  | a :: as => by unfold Nop.forW; exact bind (hf a) (fun _ => forW hf as)

end StopsW

macro "stopsw_step" : tactic => `(tactic| first
  | exact StopsW.pure _ | exact StopsW.fail _ | exact StopsW.wWrite _ | exact StopsW.wPrepare _
  | exact StopsW.wPushHandle _ | exact StopsW.wPush _ | exact StopsW.wPadPop | exact StopsW.wInt _ _
  | apply StopsW.bind | apply StopsW.ite | apply StopsW.forW
  | intro _)

mutual
theorem stopsW_encW : ∀ (t : Ty) (v : Val), StopsW (encW t v)
  | .bool, v => by cases v <;> simp only [encW] <;> repeat stopsw_step
  | .int k nom, v => by cases v <;> simp only [encW] <;> repeat stopsw_step
  | .float w, v => by cases v <;> simp only [encW] <;> repeat stopsw_step
  | .str n cb, v => by cases v <;> simp only [encW] <;> repeat stopsw_step
  | .seq f e, v => by
    cases v <;> simp only [encW] <;> try exact StopsW.fail _
    split
    · repeat stopsw_step
    · apply StopsW.bind (StopsW.wWrite _); intro _
      apply StopsW.ite (StopsW.fail _)
      apply StopsW.bind (StopsW.wInt _ _); intro _
      exact StopsW.forW (fun a => stopsW_encW e a) _
  | .prod k ts, v => by
    cases v <;> simp only [encW] <;> try exact StopsW.fail _
    apply StopsW.bind (StopsW.wWrite _); intro _
    apply StopsW.bind (StopsW.wInt _ _); intro _
    exact stopsW_encProdW ts _
  | .map o k v', v => by
    cases v <;> simp only [encW] <;> try exact StopsW.fail _
    apply StopsW.bind (StopsW.wWrite _); intro _
    apply StopsW.bind (StopsW.wInt _ _); intro _
    exact StopsW.forW (fun kv => StopsW.bind (stopsW_encW k _) (fun _ => stopsW_encW v' _)) _
  | .opt t, v => by
    cases v <;> simp only [encW] <;> try exact StopsW.fail _
    · exact StopsW.wWrite _
    · exact stopsW_encW t _
  | .result n ek t, v => by
    cases v with
    | tag i x =>
      by_cases hi : i = 0
      · subst hi
        cases x <;> simp only [encW] <;> try exact stopsW_encW t _
        repeat stopsw_step
      · have : encW (.result n ek t) (.tag i x) = encW t x := by
          rw [encW]; intro e a b; exact absurd a hi
        rw [this]; exact stopsW_encW t _
    | _ => simp only [encW]; exact StopsW.fail _
  | .variant ts, v => by
    cases v <;> simp only [encW] <;> try exact StopsW.fail _
    apply StopsW.bind (StopsW.wWrite _); intro _
    apply StopsW.bind (StopsW.wInt _ _); intro _
    apply StopsW.ite (StopsW.wWrite _)
    exact stopsW_encAltW ts _ _
  | .handle n ht tk, v => by cases v <;> simp only [encW] <;> repeat stopsw_step
  | .wrap t, v => by simp only [encW]; exact stopsW_encW t v
  | .ref t, v => by simp only [encW]; exact stopsW_encW t v
  | .table hash ents tys, v => by
    cases v <;> simp only [encW] <;> try exact StopsW.fail _
    apply StopsW.bind (StopsW.wWrite _); intro _
    apply StopsW.bind (StopsW.wInt _ _); intro _
    apply StopsW.bind (StopsW.wInt _ _); intro _
    exact stopsW_encEntriesW ents tys _
theorem stopsW_encProdW : ∀ (ts : List Ty) (vs : List Val), StopsW (encProdW ts vs)
  | [], [] => by simp only [encProdW]; exact StopsW.pure _
  | [], _ :: _ => by simp only [encProdW]; exact StopsW.fail _
  | _ :: _, [] => by simp only [encProdW]; exact StopsW.fail _
  | t :: ts, v :: vs => by
    simp only [encProdW]
    exact StopsW.bind (stopsW_encW t v) (fun _ => stopsW_encProdW ts vs)
theorem stopsW_encAltW : ∀ (ts : List Ty) (i : Nat) (v : Val), StopsW (encAltW ts i v)
  | [], _, _ => by simp only [encAltW]; exact StopsW.fail _
  | t :: _, 0, v => by simp only [encAltW]; exact stopsW_encW t v
  | _ :: ts, i + 1, v => by simp only [encAltW]; exact stopsW_encAltW ts i v
theorem stopsW_encEntriesW : ∀ (es : List (Nat × Bool)) (ts : List Ty) (vs : List Val), StopsW (encEntriesW es ts vs)
  | [], [], [] => by simp only [encEntriesW]; exact StopsW.pure _
  | (eid, d) :: es, t :: ts, v :: vs => by
    simp only [encEntriesW]
    split
    · apply StopsW.bind (StopsW.wInt _ _); intro _
      apply StopsW.bind (StopsW.wInt _ _); intro _
      apply StopsW.bind (StopsW.wPush _); intro _
      apply StopsW.bind (stopsW_encW t _); intro _
      apply StopsW.bind StopsW.wPadPop; intro _
      exact stopsW_encEntriesW es ts vs
    · exact stopsW_encEntriesW es ts vs
  | [], [], _ :: _ => by simp only [encEntriesW]; exact StopsW.fail _
  | [], _ :: _, _ => by simp only [encEntriesW]; exact StopsW.fail _
  | _ :: _, [], _ => by simp only [encEntriesW]; exact StopsW.fail _
  | _ :: _, _ :: _, [] => by simp only [encEntriesW]; exact StopsW.fail _
end

theorem stopsW_serialize (t : Ty) (v : Val) : StopsW (serialize t v) :=
  StopsW.bind (StopsW.wPrepare _) (fun _ => stopsW_encW t v)

end Nop

/-! ### (2) the calls add up to the pure encoder's bytes -/
namespace Nop

/-- a healthy writer with room, and budgets, for `n` more bytes -/
def Snk.fits (s : Snk) (n : Nat) : Prop :=
  s.fault = .none ∧ s.room n = true ∧ framesOk n s.frames = true

/-- `m`, run on any healthy writer with room for `bs` whose handle channel is `h`, succeeds with
`a`, has appended exactly `bs` (charged to every enclosing budget) and left the channel as `h'` -/
def Emits {α} (m : MW α) (a : α) (bs : Bytes) (h h' : HChan) : Prop :=
  ∀ s : Snk, s.chan = h → s.fits bs.length → m s = (.ok a, { s.acc bs with chan := h' })

theorem preW_clean {s : Snk} (h : s.fault = .none) : s.pre = (none, s) := by
  unfold Snk.pre; rw [h]

theorem acc_nil (s : Snk) : s.acc [] = s := by
  cases s; simp [Snk.acc]

theorem acc_acc (s : Snk) (a b : Bytes) : (s.acc a).acc b = s.acc (a ++ b) := by
  cases s
  simp only [Snk.acc, List.append_assoc, List.map_map, List.length_append, Snk.mk.injEq, true_and, and_true]
  apply List.map_congr_left
  intro x _
  simp only [Function.comp]
  omega

theorem acc_chan (s : Snk) (a b : Bytes) (h1 h2 : HChan) :
    { ({ s.acc a with chan := h1 } : Snk).acc b with chan := h2 } = { s.acc (a ++ b) with chan := h2 } := by
  have := acc_acc s a b
  cases s
  simp only [Snk.acc, Snk.mk.injEq] at this ⊢
  exact ⟨this.1, this.2.1, trivial, trivial, trivial, trivial⟩

theorem room_mono {s : Snk} {m n : Nat} (h : m ≤ n) (hr : s.room n = true) : s.room m = true := by
  unfold Snk.room at *
  split at hr
  · simp_all
  · rename_i c hc
    simp only [hc, decide_eq_true_eq] at hr ⊢
    omega

theorem fits_left {s : Snk} {a b : Nat} (h : s.fits (a + b)) : s.fits a :=
  ⟨h.1, room_mono (Nat.le_add_right a b) h.2.1, framesOk_mono (Nat.le_add_right a b) h.2.2⟩

theorem fits_right {s : Snk} {A : Bytes} {b : Nat} (h1 : HChan) (h : s.fits (A.length + b)) :
    ({ s.acc A with chan := h1 } : Snk).fits b := by
  refine ⟨h.1, ?_, framesOk_adv h.2.2⟩
  have hr := h.2.1
  unfold Snk.room at *
  simp only [Snk.acc]
  split at hr
  · rename_i hc; simp [hc]
  · rename_i c hc
    simp only [hc, decide_eq_true_eq, List.length_append] at hr ⊢
    omega

namespace Emits
variable {α β : Type}

theorem pure (a : α) (h : HChan) : Emits (Pure.pure a : MW α) a [] h h := by
  intro s hc _
  rw [pureW_run, acc_nil]
  cases s; simp_all

theorem bind {m : MW α} {f : α → MW β} {a : α} {c : β} {b1 b2 : Bytes} {h h1 h2 : HChan}
    (hm : Emits m a b1 h h1) (hf : Emits (f a) c b2 h1 h2) : Emits (m >>= f) c (b1 ++ b2) h h2 := by
  intro s hc hfit
  rw [List.length_append] at hfit
  rw [bindW_run, hm s hc (fits_left hfit)]
  simp only
  rw [hf _ rfl (fits_right h1 hfit), acc_chan]

theorem wWrite (bs : Bytes) (h : HChan) : Emits (Nop.wWrite bs) () bs h h := by
  intro s hc hfit
  unfold Nop.wWrite
  simp only [hfit.2.2, Bool.not_true, Bool.false_eq_true, ↓reduceIte, preW_clean hfit.1, hfit.2.1, Bool.or_true]
  cases s; simp_all [Snk.acc]

theorem wInt (k : IntKind) (i : Int) (h : HChan) : Emits (Nop.wInt k i) () (encInt k i) h h := by
  unfold Nop.wInt
  split
  · rename_i he; rw [he]; exact pure _ _
  · rename_i p pl he
    rw [he]
    have : p :: pl = [p] ++ pl := rfl
    rw [this]
    apply bind (wWrite [p] h)
    split
    · rename_i hp
      have : pl = [] := by simpa using hp
      subst this
      exact pure _ _
    · exact wWrite pl h

theorem forW {γ} {g : γ → MW Unit} {f : γ → HChan → Except Err (Bytes × HChan)}
    (hfg : ∀ a h0 b h1, f a h0 = .ok (b, h1) → Emits (g a) () b h0 h1) :
    ∀ (as : List γ) (h : HChan) (bs : Bytes) (h' : HChan), encAll f as h = .ok (bs, h') → Emits (Nop.forW g as) () bs h h'
  | [], h, bs, h', he => by
    simp only [encAll, Except.ok.injEq, Prod.mk.injEq] at he
    obtain ⟨rfl, rfl⟩ := he
    unfold Nop.forW; exact pure _ _
  | a :: as, h, bs, h', he => by
    simp only [encAll] at he
    cases hfa : f a h with
    | error e => simp [hfa] at he
    | ok r =>
      obtain ⟨b, h1⟩ := r
      simp only [hfa] at he
      cases hr : encAll f as h1 with
      | error e => simp [hr] at he
      | ok r2 =>
        obtain ⟨bs2, h2⟩ := r2
        simp only [hr, Except.ok.injEq, Prod.mk.injEq] at he
        obtain ⟨rfl, rfl⟩ := he
        unfold Nop.forW
        exact bind (hfg a h b h1 hfa) (forW hfg as h1 bs2 h2 hr)

/-- a table entry's value: written through a `BoundedWriter` of the declared size, then padded -/
theorem framed {m : MW Unit} {vb : Bytes} {h h1 : HChan} (sz : Nat) (hm : Emits m () vb h h1) (hle : vb.length ≤ sz) :
    Emits (do Nop.wPush sz; m; Nop.wPadPop) () (vb ++ List.replicate (sz - vb.length) 0) h h1 := by
  intro s hc hfit
  have hlen : (vb ++ List.replicate (sz - vb.length) (0 : UInt8)).length = sz := by
    simp only [List.length_append, List.length_replicate]; omega
  rw [hlen] at hfit
  obtain ⟨hfault, hroom, hfr⟩ := hfit
  rw [bindW_run]
  simp only [Nop.wPush]
  rw [bindW_run]
  have hfit1 : ({ s with frames := sz :: s.frames } : Snk).fits vb.length := by
    refine ⟨hfault, room_mono hle hroom, ?_⟩
    simp only [framesOk, List.all_cons, decide_eq_true_eq, Bool.and_eq_true]
    exact ⟨hle, by have := framesOk_mono hle hfr; simpa [framesOk] using this⟩
  rw [hm { s with frames := sz :: s.frames } hc hfit1]
  simp only [Snk.acc, List.map_cons]
  unfold Nop.wPadPop
  simp only
  have hfit2 : ({ out := s.out ++ vb, frames := s.frames.map (· - vb.length), cap := s.cap, checked := s.checked, chan := h1, fault := s.fault } : Snk).fits
      (List.replicate (sz - vb.length) (0 : UInt8)).length := by
    rw [List.length_replicate]
    refine ⟨hfault, ?_, ?_⟩
    · unfold Snk.room at *
      simp only
      split at hroom
      · rename_i hcap; simp [hcap]
      · rename_i c hcap
        simp only [hcap, decide_eq_true_eq, List.length_append] at hroom ⊢
        omega
    · have : sz = vb.length + (sz - vb.length) := by omega
      rw [this] at hfr
      exact framesOk_adv hfr
  have hw := wWrite (List.replicate (sz - vb.length) (0 : UInt8)) h1 _ rfl hfit2
  unfold Nop.wSkip
  rw [hw]
  simp only [Snk.acc, List.append_assoc, List.map_map, List.length_replicate, Snk.mk.injEq, true_and, and_true,
    List.length_append]
  congr 2
  apply List.map_congr_left
  intro x _
  simp only [Function.comp]
  omega

theorem bindW_assoc {γ} (m : MW α) (f : α → MW β) (g : β → MW γ) :
    (m >>= f) >>= g = m >>= fun a => f a >>= g := by
  funext s
  simp only [bindW_run]
  cases m s with
  | mk r s1 => cases r <;> rfl

/-- ... followed by the rest of the table -/
theorem framedThen {m : MW Unit} {k : MW β} {c : β} {vb rest : Bytes} {h h1 h2 : HChan} (sz : Nat)
    (hm : Emits m () vb h h1) (hle : vb.length ≤ sz) (hk : Emits k c rest h1 h2) :
    Emits (do Nop.wPush sz; m; Nop.wPadPop; k) c (vb ++ (List.replicate (sz - vb.length) 0 ++ rest)) h h2 := by
  have h3 := bind (f := fun _ => k) (framed sz hm hle) hk
  have e : (do Nop.wPush sz; m; Nop.wPadPop; k) = ((do Nop.wPush sz; m; Nop.wPadPop) >>= fun _ => k) := by
    rw [bindW_assoc]
    congr 1; funext _
    rw [bindW_assoc]
  rw [e, ← List.append_assoc]
  exact h3

end Emits
end Nop
