import NopModel.Lemmas.EncW
import NopModel.Lemmas.Size
/-! On *every* path - success, a refused value, a failing call, an exhausted budget - the calls
of `encW t v` hand the writer at most `size t v` bytes.  With `Prepare(Size(value))` in front
this is why an unchecked `BufferWriter` is never written past its end (C06). -/
namespace Nop

/-- `m` appends at most `n` bytes whatever happens, never removes any, leaves capacity and
checking mode alone, and on success has charged every enclosing budget what it appended -/
def Bnd {α} (m : MW α) (n : Nat) : Prop :=
  ∀ (s : Snk) (r : Except Err α) (s' : Snk), m s = (r, s') →
    s.out.length ≤ s'.out.length ∧ s'.out.length ≤ s.out.length + n ∧ s'.cap = s.cap ∧ s'.checked = s.checked ∧
    (∀ a, r = .ok a → s'.frames = s.frames.map (· - (s'.out.length - s.out.length)))

theorem preW_same (s : Snk) : s.pre.2.out = s.out ∧ s.pre.2.frames = s.frames ∧ s.pre.2.cap = s.cap ∧
    s.pre.2.checked = s.checked ∧ s.pre.2.chan = s.chan := by
  unfold Snk.pre
  cases hf : s.fault with
  | none => simp
  | armed k e => cases k <;> simp
  | dead e => simp
  | zombie e => simp

namespace Bnd
variable {α β : Type}

theorem pure (a : α) : Bnd (Pure.pure a : MW α) 0 := by
  intro s r s' h
  simp only [pureW_run, Prod.mk.injEq] at h
  obtain ⟨_, rfl⟩ := h
  simp

theorem fail (e : Err) : Bnd (MW.fail e : MW α) 0 := by
  intro s r s' h
  simp only [failW_run, Prod.mk.injEq] at h
  obtain ⟨rfl, rfl⟩ := h
  simp

theorem mono {m : MW α} {n n' : Nat} (h : Bnd m n) (hle : n ≤ n') : Bnd m n' := by
  intro s r s' hm
  obtain ⟨h1, h2, h3, h4, h5⟩ := h s r s' hm
  exact ⟨h1, by omega, h3, h4, h5⟩

theorem bind {m : MW α} {f : α → MW β} {a b : Nat} (hm : Bnd m a) (hf : ∀ x, Bnd (f x) b) : Bnd (m >>= f) (a + b) := by
  intro s r s' h
  rw [bindW_run] at h
  cases hms : m s with
  | mk r1 s1 =>
    obtain ⟨h1, h2, h3, h4, h5⟩ := hm s r1 s1 hms
    cases r1 with
    | error e =>
      simp only [hms, Prod.mk.injEq] at h
      obtain ⟨rfl, rfl⟩ := h
      exact ⟨h1, by omega, h3, h4, by intro a ha; cases ha⟩
    | ok x =>
      simp only [hms] at h
      obtain ⟨g1, g2, g3, g4, g5⟩ := hf x s1 r s' h
      refine ⟨by omega, by omega, by rw [g3, h3], by rw [g4, h4], ?_⟩
      intro y hy
      rw [g5 y hy, h5 x rfl, List.map_map]
      apply List.map_congr_left
      intro z _
      simp only [Function.comp]
      omega

theorem ite {c : Prop} [Decidable c] {x y : MW α} {n : Nat} (hx : Bnd x n) (hy : Bnd y n) : Bnd (if c then x else y) n := by
  split <;> assumption

theorem wWrite (bs : Bytes) : Bnd (Nop.wWrite bs) bs.length := by
  intro s r s' h
  unfold Nop.wWrite at h
  split at h
  · simp only [Prod.mk.injEq] at h; obtain ⟨rfl, rfl⟩ := h; simp
  · obtain ⟨p1, p2, p3, p4, _⟩ := preW_same s
    cases hp : s.pre with
    | mk e s1 =>
      rw [hp] at h p1 p2 p3 p4
      simp only at p1 p2 p3 p4
      have q1 : s1.out.length = s.out.length := by rw [p1]
      cases e with
      | some e =>
        simp only [Prod.mk.injEq] at h; obtain ⟨rfl, rfl⟩ := h
        exact ⟨by omega, by omega, p3, p4, by intro a ha; cases ha⟩
      | none =>
        simp only at h
        split at h
        · simp only [Prod.mk.injEq] at h; obtain ⟨rfl, rfl⟩ := h
          simp only [Snk.acc, List.length_append]
          refine ⟨by omega, by omega, p3, p4, ?_⟩
          intro a _
          rw [p2, p1]
          apply List.map_congr_left
          intro z _
          omega
        · simp only [Prod.mk.injEq] at h; obtain ⟨rfl, rfl⟩ := h
          exact ⟨by omega, by omega, p3, p4, by intro a ha; cases ha⟩

theorem wPushHandle (hv : Int) : Bnd (Nop.wPushHandle hv) 0 := by
  intro s r s' h
  unfold Nop.wPushHandle at h
  obtain ⟨p1, p2, p3, p4, _⟩ := preW_same s
  cases hp : s.pre with
  | mk e s1 =>
    rw [hp] at h p1 p2 p3 p4
    simp only at p1 p2 p3 p4
    have q1 : s1.out.length = s.out.length := by rw [p1]
    cases e with
    | some e =>
      simp only [Prod.mk.injEq] at h; obtain ⟨rfl, rfl⟩ := h
      exact ⟨by omega, by omega, p3, p4, by intro a ha; cases ha⟩
    | none =>
      simp only at h
      split at h
      all_goals
        simp only [Prod.mk.injEq] at h; obtain ⟨_, rfl⟩ := h
        refine ⟨by simp [p1], by simp [p1], p3, p4, ?_⟩
        intro a _
        simp [p1, p2]

theorem wInt (k : IntKind) (i : Int) : Bnd (Nop.wInt k i) (encInt k i).length := by
  unfold Nop.wInt
  split
  · rename_i he; rw [he]; exact pure _
  · rename_i p pl he
    rw [he]
    have h := bind (wWrite [p]) (fun _ => ite (c := pl.isEmpty = true) (mono (pure ()) (Nat.zero_le pl.length)) (wWrite pl))
    simpa [Nat.add_comm] using h

theorem forW {γ} {f : γ → MW Unit} {n : γ → Nat} (hf : ∀ a, Bnd (f a) (n a)) :
    ∀ as, Bnd (Nop.forW f as) (sumMap n as)
  | [] => by unfold Nop.forW; simp only [sumMap]; exact pure _
  | a :: as => by unfold Nop.forW; simp only [sumMap]; exact bind (hf a) (fun _ => forW hf as)

/-- a table entry's value through its `BoundedWriter`, then the padding: exactly the declared
size on success, never more on failure -/
theorem framed {m : MW Unit} {k : Nat} (sz : Nat) (hm : Bnd m k) (hk : k ≤ sz) :
    Bnd (do Nop.wPush sz; m; Nop.wPadPop) sz := by
  intro s r s' h
  rw [bindW_run] at h
  simp only [Nop.wPush] at h
  rw [bindW_run] at h
  cases hms : m { s with frames := sz :: s.frames } with
  | mk r1 s1 =>
    obtain ⟨h1, h2, h3, h4, h5⟩ := hm _ r1 s1 hms
    simp only at h1 h2 h3 h4
    cases r1 with
    | error e =>
      simp only [hms, Prod.mk.injEq] at h
      obtain ⟨rfl, rfl⟩ := h
      exact ⟨h1, by omega, h3, h4, by intro a ha; cases ha⟩
    | ok u =>
      simp only [hms] at h
      have hfr := h5 u rfl
      simp only [List.map_cons] at hfr
      unfold Nop.wPadPop at h
      rw [hfr] at h
      simp only at h
      cases hsk : Nop.wSkip (sz - (s1.out.length - s.out.length)) 0
          { s1 with frames := s.frames.map (· - (s1.out.length - s.out.length)) } with
      | mk r2 s2 =>
        obtain ⟨g1, g2, g3, g4, g5⟩ := wWrite _ _ r2 s2 hsk
        simp only [List.length_replicate] at g1 g2 g3 g4
        cases r2 with
        | error e =>
          simp only [hsk, Prod.mk.injEq] at h
          obtain ⟨rfl, rfl⟩ := h
          simp only
          exact ⟨by omega, by omega, by rw [g3, h3], by rw [g4, h4], by intro a ha; cases ha⟩
        | ok u2 =>
          simp only [hsk, Prod.mk.injEq] at h
          obtain ⟨rfl, rfl⟩ := h
          refine ⟨by omega, by omega, by rw [g3, h3], by rw [g4, h4], ?_⟩
          intro a _
          rw [g5 u2 rfl]
          simp only [List.map_map]
          apply List.map_congr_left
          intro z _
          simp only [Function.comp]
          omega

theorem bindAssoc3 (a : MW Unit) (b : MW Unit) (c : MW Unit) (d : MW β) :
    (do a; b; c; d) = ((do a; b; c) >>= fun _ => d) := by
  rw [Emits.bindW_assoc]
  congr 1; funext _
  rw [Emits.bindW_assoc]

end Bnd
end Nop

namespace Nop

theorem encSize_len (n : Nat) : (encSize n).length = (encInt .u64 (n : Int)).length := rfl

mutual
theorem bnd_encW : ∀ (t : Ty) (v : Val), Bnd (encW t v) (size t v)
  | .bool, v => by
    cases v <;> simp only [encW, size] <;> first | exact Bnd.wWrite _ | exact Bnd.mono (Bnd.fail _) (Nat.zero_le _)
  | .int k nom, v => by
    cases v <;> simp only [encW, size] <;> first | exact Bnd.wInt _ _ | exact Bnd.fail _
  | .float w, v => by
    cases v with
    | int i =>
      simp only [encW, size]
      have h := Bnd.bind (Bnd.wWrite [if w then 0x89 else 0x88]) (fun _ => Bnd.wWrite (leBytes (if w then 8 else 4) i.toNat))
      refine Bnd.mono h ?_
      have : (leBytes (if w then 8 else 4) i.toNat).length = (if w then 8 else 4) := leBytes_length _ _
      rw [this]; cases w <;> simp
    | _ => simp only [encW, size]; first | exact Bnd.mono (Bnd.fail _) (Nat.zero_le _)
  | .str n cb, v => by
    cases v with
    | list vs =>
      simp only [encW, size]
      have h := Bnd.bind (Bnd.wWrite [0xbd]) (fun _ => Bnd.bind (Bnd.wInt .u64 ((vs.length * cb : Nat) : Int))
        (fun _ => Bnd.wWrite (vs.flatMap (unitToRaw cb))))
      refine Bnd.mono h ?_
      have := flatMap_length_le (unitToRaw cb) cb (unitToRaw_length_le cb) vs
      simp only [List.length_singleton, encSize_len]
      omega
    | _ => simp only [encW, size]; exact Bnd.fail _
  | .seq f e, v => by
    cases v with
    | list vs =>
      simp only [encW, size]
      by_cases hi : e.integral = true
      · simp only [hi, ↓reduceIte]
        have h := Bnd.bind (Bnd.wWrite [0xbc]) (fun _ => Bnd.ite (c := lbufOver f vs.length = true)
          (Bnd.mono (Bnd.fail .invalidContainerLength) (Nat.zero_le _))
          (Bnd.bind (Bnd.wInt .u64 ((vs.length * e.width : Nat) : Int)) (fun _ => Bnd.wWrite (vs.flatMap (valToRaw e)))))
        refine Bnd.mono h ?_
        have := flatMap_length_le (valToRaw e) e.width (valToRaw_length_le e) vs
        simp only [List.length_singleton, encSize_len]
        omega
      · simp only [hi, Bool.false_eq_true, ↓reduceIte]
        have h := Bnd.bind (Bnd.wWrite [0xba]) (fun _ => Bnd.ite (c := lbufOver f vs.length = true)
          (Bnd.mono (Bnd.fail .invalidContainerLength) (Nat.zero_le _))
          (Bnd.bind (Bnd.wInt .u64 ((vs.length : Nat) : Int)) (fun _ => Bnd.forW (fun a => bnd_encW e a) vs)))
        refine Bnd.mono h ?_
        simp only [List.length_singleton, encSize_len]
        omega
    | _ => simp only [encW, size]; exact Bnd.fail _
  | .prod k ts, v => by
    cases v with
    | list vs =>
      simp only [encW, size]
      have h := Bnd.bind (Bnd.wWrite [if k == .struct then 0xb9 else 0xba]) (fun _ =>
        Bnd.bind (Bnd.wInt .u64 ((ts.length : Nat) : Int)) (fun _ => bnd_encProdW ts vs))
      refine Bnd.mono h ?_
      simp only [List.length_singleton, encSize_len]
      omega
    | _ => simp only [encW, size]; exact Bnd.fail _
  | .map o k v', v => by
    cases v with
    | list kvs =>
      simp only [encW, size]
      have h := Bnd.bind (Bnd.wWrite [0xbb]) (fun _ => Bnd.bind (Bnd.wInt .u64 ((kvs.length : Nat) : Int)) (fun _ =>
        Bnd.forW (n := fun kv => size k (kvKey kv) + size v' (kvVal kv))
          (fun kv => Bnd.bind (bnd_encW k (kvKey kv)) (fun _ => bnd_encW v' (kvVal kv))) kvs))
      refine Bnd.mono h ?_
      simp only [List.length_singleton, encSize_len]
      omega
    | _ => simp only [encW, size]; exact Bnd.fail _
  | .opt t, v => by
    cases v with
    | nil => simp only [encW, size]; exact Bnd.wWrite _
    | tag i x => simp only [encW, size]; exact bnd_encW t x
    | _ => simp only [encW, size]; exact Bnd.fail _
  | .result en ek t, v => by
    cases v with
    | tag i x =>
      by_cases hi : i = 0
      · subst hi
        cases x with
        | int e =>
          simp only [encW, size]
          have h := Bnd.bind (Bnd.wWrite [0xb6]) (fun _ => Bnd.wInt ek e)
          exact Bnd.mono h (by simp)
        | _ => simp only [encW, size] <;> exact bnd_encW t _
      · have h1 : encW (.result en ek t) (.tag i x) = encW t x := by
          rw [encW]; intro e a b; exact absurd a hi
        have h2 : size (.result en ek t) (.tag i x) = size t x := by
          rw [size]; intro e a b; exact absurd a hi
        rw [h1, h2]; exact bnd_encW t x
    | _ => simp only [encW, size]; exact Bnd.fail _
  | .variant ts, v => by
    cases v with
    | tag i x =>
      simp only [encW, size]
      have htail : Bnd (if i < 0 then wWrite [0xbe] else encAltW ts i.toNat x)
          (if i < 0 then 1 else sizeAlt ts i.toNat x) := by
        by_cases hi : i < 0
        · rw [if_pos hi, if_pos hi]; exact Bnd.wWrite [0xbe]
        · rw [if_neg hi, if_neg hi]; exact bnd_encAltW ts i.toNat x
      have h := Bnd.bind (Bnd.wWrite [0xb8]) (fun _ => Bnd.bind (Bnd.wInt .i32 i) (fun _ => htail))
      refine Bnd.mono h ?_
      simp only [List.length_singleton]
      omega
    | _ => simp only [encW, size]; exact Bnd.fail _
  | .handle n ht tk, v => by
    cases v with
    | int hv =>
      simp only [encW, size]
      have h := Bnd.bind (Bnd.wWrite [0xb7]) (fun _ => Bnd.bind (Bnd.wInt tk ht) (fun _ =>
        Bnd.bind (Bnd.wPushHandle hv) (fun r => Bnd.ite (c := (!IntKind.i64.inRange r) = true) (n := 9)
          (Bnd.mono (Bnd.fail .invalidHandleReference) (Nat.zero_le _))
          (Bnd.mono (Bnd.wInt .i64 r) (encInt_length_le .i64 r)))))
      refine Bnd.mono h ?_
      simp only [List.length_singleton]
      omega
    | _ => simp only [encW, size]; exact Bnd.mono (Bnd.fail _) (Nat.zero_le _)
  | .wrap t, v => by simp only [encW, size]; exact bnd_encW t v
  | .ref t, v => by simp only [encW, size]; exact bnd_encW t v
  | .table hash ents tys, v => by
    cases v with
    | list vs =>
      simp only [encW, size]
      have h := Bnd.bind (Bnd.wWrite [0xb5]) (fun _ => Bnd.bind (Bnd.wInt .u64 ((hash : Nat) : Int)) (fun _ =>
        Bnd.bind (Bnd.wInt .u64 ((activeCount vs : Nat) : Int)) (fun _ => bnd_encEntriesW ents tys vs)))
      refine Bnd.mono h ?_
      simp only [List.length_singleton, encSize_len]
      omega
    | _ => simp only [encW, size]; exact Bnd.fail _
theorem bnd_encProdW : ∀ (ts : List Ty) (vs : List Val), Bnd (encProdW ts vs) (sizeProd ts vs)
  | [], [] => by simp only [encProdW, sizeProd]; exact Bnd.pure _
  | [], _ :: _ => by simp only [encProdW, sizeProd]; exact Bnd.fail _
  | _ :: _, [] => by simp only [encProdW, sizeProd]; exact Bnd.fail _
  | t :: ts, v :: vs => by
    simp only [encProdW, sizeProd]
    exact Bnd.bind (bnd_encW t v) (fun _ => bnd_encProdW ts vs)
theorem bnd_encAltW : ∀ (ts : List Ty) (i : Nat) (v : Val), Bnd (encAltW ts i v) (sizeAlt ts i v)
  | [], _, _ => by simp only [encAltW, sizeAlt]; exact Bnd.fail _
  | t :: _, 0, v => by simp only [encAltW, sizeAlt]; exact bnd_encW t v
  | _ :: ts, i + 1, v => by simp only [encAltW, sizeAlt]; exact bnd_encAltW ts i v
theorem bnd_encEntriesW : ∀ (es : List (Nat × Bool)) (ts : List Ty) (vs : List Val),
    Bnd (encEntriesW es ts vs) (sizeEntries es ts vs)
  | [], [], [] => by simp only [encEntriesW, sizeEntries]; exact Bnd.pure _
  | (eid, d) :: es, t :: ts, v :: vs => by
    cases v with
    | tag tg x =>
      simp only [encEntriesW, sizeEntries]
      have hfr := Bnd.framed (size t x) (bnd_encW t x) (Nat.le_refl _)
      have hrest := bnd_encEntriesW es ts vs
      have e : (do wPush (size t x); encW t x; wPadPop; encEntriesW es ts vs) =
          ((do wPush (size t x); encW t x; wPadPop) >>= fun _ => encEntriesW es ts vs) := Bnd.bindAssoc3 _ _ _ _
      have h := Bnd.bind (Bnd.wInt .u64 ((eid : Nat) : Int)) (fun _ => Bnd.bind (Bnd.wInt .u64 ((size t x : Nat) : Int))
        (fun _ => Bnd.bind hfr (fun _ => hrest)))
      rw [e]
      refine Bnd.mono h ?_
      simp only [encSize_len]
      omega
    | nil => simp only [encEntriesW, sizeEntries]; exact Bnd.mono (bnd_encEntriesW es ts vs) (by omega)
    | int _ => simp only [encEntriesW, sizeEntries]; exact Bnd.mono (bnd_encEntriesW es ts vs) (by omega)
    | list _ => simp only [encEntriesW, sizeEntries]; exact Bnd.mono (bnd_encEntriesW es ts vs) (by omega)
  | [], [], _ :: _ => by simp only [encEntriesW, sizeEntries]; exact Bnd.fail _
  | [], _ :: _, _ => by simp only [encEntriesW, sizeEntries]; exact Bnd.fail _
  | _ :: _, [], _ => by simp only [encEntriesW, sizeEntries]; exact Bnd.fail _
  | _ :: _, _ :: _, [] => by simp only [encEntriesW, sizeEntries]; exact Bnd.fail _
end

end Nop
