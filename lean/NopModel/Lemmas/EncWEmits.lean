import NopModel.Lemmas.EncW
/-! `encW_emits`: whenever the pure encoder produces `bs`, the call-level writer, run on any
healthy writer with room for `bs`, issues calls that append exactly `bs`. -/
namespace Nop

theorem cons_eq_append {α} (a : α) (l : List α) : a :: l = [a] ++ l := rfl

/-- bring `p :: A ++ B ++ ..` into the shape `[p] ++ (A ++ (B ++ ..))` the call sequence has -/
macro "norm_bytes" : tactic => `(tactic| ((try simp only [List.cons_append, List.append_assoc]); rw [cons_eq_append]))

mutual
theorem encW_emits : ∀ (t : Ty) (v : Val) (h : HChan) (bs : Bytes) (h' : HChan),
    encode t v h = .ok (bs, h') → Emits (encW t v) () bs h h'
  | .bool, v, h, bs, h', he => by
    cases v with
    | int i =>
      simp only [encode, Except.ok.injEq, Prod.mk.injEq] at he
      obtain ⟨rfl, rfl⟩ := he
      simp only [encW]; exact Emits.wWrite _ _
    | _ => simp [encode] at he
  | .int k nom, v, h, bs, h', he => by
    cases v with
    | int i =>
      simp only [encode, Except.ok.injEq, Prod.mk.injEq] at he
      obtain ⟨rfl, rfl⟩ := he
      simp only [encW]; exact Emits.wInt _ _ _
    | _ => simp [encode] at he
  | .float w, v, h, bs, h', he => by
    cases v with
    | int i =>
      simp only [encode, Except.ok.injEq, Prod.mk.injEq] at he
      obtain ⟨rfl, rfl⟩ := he
      simp only [encW]
      norm_bytes
      exact Emits.bind (Emits.wWrite _ _) (Emits.wWrite _ _)
    | _ => simp [encode] at he
  | .str n cb, v, h, bs, h', he => by
    cases v with
    | list vs =>
      simp only [encode, Except.ok.injEq, Prod.mk.injEq] at he
      obtain ⟨rfl, rfl⟩ := he
      simp only [encW]
      norm_bytes
      exact Emits.bind (Emits.wWrite _ _) (Emits.bind (Emits.wInt _ _ _) (Emits.wWrite _ _))
    | _ => simp [encode] at he
  | .seq f e, v, h, bs, h', he => by
    cases v with
    | list vs =>
      simp only [encode] at he
      by_cases hl : lbufOver f vs.length = true
      · simp [hl] at he
      · simp only [hl, Bool.false_eq_true, ↓reduceIte] at he
        simp only [encW]
        by_cases hi : e.integral = true
        · simp only [hi, ↓reduceIte, Except.ok.injEq, Prod.mk.injEq] at he ⊢
          obtain ⟨rfl, rfl⟩ := he
          norm_bytes
          apply Emits.bind (Emits.wWrite _ _)
          simp only [hl, Bool.false_eq_true, ↓reduceIte]
          exact Emits.bind (Emits.wInt _ _ _) (Emits.wWrite _ _)
        · simp only [hi, Bool.false_eq_true, ↓reduceIte] at he ⊢
          cases ha : encAll (encode e) vs h with
          | error er => simp [ha] at he
          | ok r =>
            obtain ⟨b, h1⟩ := r
            simp only [ha, Except.ok.injEq, Prod.mk.injEq] at he
            obtain ⟨rfl, rfl⟩ := he
            norm_bytes
            apply Emits.bind (Emits.wWrite _ _)
            simp only [hl, Bool.false_eq_true, ↓reduceIte]
            apply Emits.bind (Emits.wInt _ _ _)
            exact Emits.forW (fun a h0 b h1 hf => encW_emits e a h0 b h1 hf) vs h b h1 ha
    | _ => simp [encode] at he
  | .prod k ts, v, h, bs, h', he => by
    cases v with
    | list vs =>
      simp only [encode] at he
      cases ha : encProd ts vs h with
      | error er => simp [ha] at he
      | ok r =>
        obtain ⟨b, h1⟩ := r
        simp only [ha, Except.ok.injEq, Prod.mk.injEq] at he
        obtain ⟨rfl, rfl⟩ := he
        simp only [encW]
        norm_bytes
        exact Emits.bind (Emits.wWrite _ _) (Emits.bind (Emits.wInt _ _ _) (encProdW_emits ts vs h b h1 ha))
    | _ => simp [encode] at he
  | .map o k v', v, h, bs, h', he => by
    cases v with
    | list kvs =>
      simp only [encode] at he
      cases ha : encAll (pairEnc (encode k) (encode v')) kvs h with
      | error er => simp [ha] at he
      | ok r =>
        obtain ⟨b, h1⟩ := r
        simp only [ha, Except.ok.injEq, Prod.mk.injEq] at he
        obtain ⟨rfl, rfl⟩ := he
        simp only [encW]
        norm_bytes
        apply Emits.bind (Emits.wWrite _ _)
        apply Emits.bind (Emits.wInt _ _ _)
        refine Emits.forW (f := pairEnc (encode k) (encode v')) ?_ kvs h b h1 ha
        intro kv h0 b0 h2 hp
        unfold pairEnc at hp
        cases hk : encode k (kvKey kv) h0 with
        | error er => simp [hk] at hp
        | ok rk =>
          obtain ⟨bk, hk1⟩ := rk
          simp only [hk] at hp
          cases hv : encode v' (kvVal kv) hk1 with
          | error er => simp [hv] at hp
          | ok rv =>
            obtain ⟨bv, hv1⟩ := rv
            simp only [hv, Except.ok.injEq, Prod.mk.injEq] at hp
            obtain ⟨rfl, rfl⟩ := hp
            exact Emits.bind (encW_emits k _ h0 bk hk1 hk) (encW_emits v' _ hk1 bv hv1 hv)
    | _ => simp [encode] at he
  | .opt t, v, h, bs, h', he => by
    cases v with
    | nil =>
      simp only [encode, Except.ok.injEq, Prod.mk.injEq] at he
      obtain ⟨rfl, rfl⟩ := he
      simp only [encW]; exact Emits.wWrite _ _
    | tag i x =>
      simp only [encode] at he
      simp only [encW]; exact encW_emits t x h bs h' he
    | _ => simp [encode] at he
  | .result en ek t, v, h, bs, h', he => by
    cases v with
    | tag i x =>
      by_cases hi : i = 0
      · subst hi
        cases x with
        | int e =>
          simp only [encode, Except.ok.injEq, Prod.mk.injEq] at he
          obtain ⟨rfl, rfl⟩ := he
          simp only [encW]
          norm_bytes
          exact Emits.bind (Emits.wWrite _ _) (Emits.wInt _ _ _)
        | _ => simp only [encode] at he <;> simp only [encW] <;> exact encW_emits t _ h bs h' he
      · have h1 : ∀ y, encode (.result en ek t) (.tag i y) h = encode t y h := by
          intro y; rw [encode]; intro e a b; exact absurd a hi
        have h2 : encW (.result en ek t) (.tag i x) = encW t x := by
          rw [encW]; intro e a b; exact absurd a hi
        rw [h1] at he
        rw [h2]
        exact encW_emits t x h bs h' he
    | _ => simp [encode] at he
  | .variant ts, v, h, bs, h', he => by
    cases v with
    | tag i x =>
      simp only [encode] at he
      simp only [encW]
      by_cases hi : i < 0
      · simp only [hi, ↓reduceIte, Except.ok.injEq, Prod.mk.injEq] at he ⊢
        obtain ⟨rfl, rfl⟩ := he
        norm_bytes
        exact Emits.bind (Emits.wWrite _ _) (Emits.bind (Emits.wInt _ _ _) (Emits.wWrite _ _))
      · simp only [hi, ↓reduceIte] at he ⊢
        cases ha : encAlt ts i.toNat x h with
        | error er => simp [ha] at he
        | ok r =>
          obtain ⟨b, h1⟩ := r
          simp only [ha, Except.ok.injEq, Prod.mk.injEq] at he
          obtain ⟨rfl, rfl⟩ := he
          norm_bytes
          exact Emits.bind (Emits.wWrite _ _) (Emits.bind (Emits.wInt _ _ _) (encAltW_emits ts _ x h b h1 ha))
    | _ => simp [encode] at he
  | .handle n ht tk, v, h, bs, h', he => by
    cases v with
    | int hv =>
      simp only [encode] at he
      cases hr : h.refs with
      | nil => simp [hr] at he
      | cons r0 rest =>
        cases r0 with
        | error er => simp [hr] at he
        | ok r =>
          simp only [hr] at he
          by_cases hin : IntKind.i64.inRange r = true
          · simp only [hin, Bool.not_true, Bool.false_eq_true, ↓reduceIte, Except.ok.injEq, Prod.mk.injEq] at he
            obtain ⟨rfl, rfl⟩ := he
            simp only [encW]
            norm_bytes
            apply Emits.bind (Emits.wWrite _ _)
            apply Emits.bind (Emits.wInt _ _ _)
            have hpush : Emits (wPushHandle hv) r [] h { refs := rest, pushed := h.pushed ++ [(hv, r)] } := by
              intro s hc hfit
              unfold wPushHandle
              simp only [preW_clean hfit.1, hc, hr]
              rw [acc_nil]
            have := Emits.bind (f := fun r => if !IntKind.i64.inRange r then MW.fail .invalidHandleReference else wInt .i64 r)
              hpush (c := ()) (b2 := encInt .i64 r) (h2 := { refs := rest, pushed := h.pushed ++ [(hv, r)] })
              (by simp only [hin, Bool.not_true, Bool.false_eq_true, ↓reduceIte]; exact Emits.wInt _ _ _)
            simpa using this
          · simp [hin] at he
    | _ => simp [encode] at he
  | .wrap t, v, h, bs, h', he => by
    simp only [encode] at he
    simp only [encW]; exact encW_emits t v h bs h' he
  | .ref t, v, h, bs, h', he => by
    simp only [encode] at he
    simp only [encW]; exact encW_emits t v h bs h' he
  | .table hash ents tys, v, h, bs, h', he => by
    cases v with
    | list vs =>
      simp only [encode] at he
      cases ha : encEntries ents tys vs h with
      | error er => simp [ha] at he
      | ok r =>
        obtain ⟨b, h1⟩ := r
        simp only [ha, Except.ok.injEq, Prod.mk.injEq] at he
        obtain ⟨rfl, rfl⟩ := he
        simp only [encW]
        norm_bytes
        exact Emits.bind (Emits.wWrite _ _) (Emits.bind (Emits.wInt _ _ _) (Emits.bind (Emits.wInt _ _ _)
          (encEntriesW_emits ents tys vs h b h1 ha)))
    | _ => simp [encode] at he
theorem encProdW_emits : ∀ (ts : List Ty) (vs : List Val) (h : HChan) (bs : Bytes) (h' : HChan),
    encProd ts vs h = .ok (bs, h') → Emits (encProdW ts vs) () bs h h'
  | [], [], h, bs, h', he => by
    simp only [encProd, Except.ok.injEq, Prod.mk.injEq] at he
    obtain ⟨rfl, rfl⟩ := he
    simp only [encProdW]; exact Emits.pure _ _
  | [], _ :: _, h, bs, h', he => by simp [encProd] at he
  | _ :: _, [], h, bs, h', he => by simp [encProd] at he
  | t :: ts, v :: vs, h, bs, h', he => by
    simp only [encProd] at he
    cases ha : encode t v h with
    | error er => simp [ha] at he
    | ok r =>
      obtain ⟨a, h1⟩ := r
      simp only [ha] at he
      cases hb : encProd ts vs h1 with
      | error er => simp [hb] at he
      | ok r2 =>
        obtain ⟨b, h2⟩ := r2
        simp only [hb, Except.ok.injEq, Prod.mk.injEq] at he
        obtain ⟨rfl, rfl⟩ := he
        simp only [encProdW]
        exact Emits.bind (encW_emits t v h a h1 ha) (encProdW_emits ts vs h1 b h2 hb)
theorem encAltW_emits : ∀ (ts : List Ty) (i : Nat) (v : Val) (h : HChan) (bs : Bytes) (h' : HChan),
    encAlt ts i v h = .ok (bs, h') → Emits (encAltW ts i v) () bs h h'
  | [], _, _, h, bs, h', he => by simp [encAlt] at he
  | t :: _, 0, v, h, bs, h', he => by
    simp only [encAlt] at he
    simp only [encAltW]; exact encW_emits t v h bs h' he
  | _ :: ts, i + 1, v, h, bs, h', he => by
    simp only [encAlt] at he
    simp only [encAltW]; exact encAltW_emits ts i v h bs h' he
theorem encEntriesW_emits : ∀ (es : List (Nat × Bool)) (ts : List Ty) (vs : List Val) (h : HChan) (bs : Bytes) (h' : HChan),
    encEntries es ts vs h = .ok (bs, h') → Emits (encEntriesW es ts vs) () bs h h'
  | [], [], [], h, bs, h', he => by
    simp only [encEntries, Except.ok.injEq, Prod.mk.injEq] at he
    obtain ⟨rfl, rfl⟩ := he
    simp only [encEntriesW]; exact Emits.pure _ _
  | (eid, d) :: es, t :: ts, v :: vs, h, bs, h', he => by
    cases v with
    | tag tg x =>
      simp only [encEntries] at he
      simp only [encEntriesW]
      cases ha : encode t x h with
      | error er => simp [ha] at he
      | ok r =>
        obtain ⟨vb, h1⟩ := r
        simp only [ha] at he
        by_cases hsz : size t x < vb.length
        · simp [hsz] at he
        · simp only [hsz, ↓reduceIte] at he
          cases hb : encEntries es ts vs h1 with
          | error er => simp [hb] at he
          | ok r2 =>
            obtain ⟨rest, h2⟩ := r2
            simp only [hb, Except.ok.injEq, Prod.mk.injEq] at he
            obtain ⟨rfl, rfl⟩ := he
            simp only [List.append_assoc]
            apply Emits.bind (Emits.wInt _ _ _)
            apply Emits.bind (Emits.wInt _ _ _)
            exact Emits.framedThen (size t x) (encW_emits t x h vb h1 ha) (by omega) (encEntriesW_emits es ts vs h1 rest h2 hb)
    | nil => simp only [encEntries] at he; simp only [encEntriesW]; exact encEntriesW_emits es ts vs h bs h' he
    | int _ => simp only [encEntries] at he; simp only [encEntriesW]; exact encEntriesW_emits es ts vs h bs h' he
    | list _ => simp only [encEntries] at he; simp only [encEntriesW]; exact encEntriesW_emits es ts vs h bs h' he
  | [], [], _ :: _, h, bs, h', he => by simp [encEntries] at he
  | [], _ :: _, _, h, bs, h', he => by simp [encEntries] at he
  | _ :: _, [], _, h, bs, h', he => by simp [encEntries] at he
  | _ :: _, _ :: _, [], h, bs, h', he => by simp [encEntries] at he
end

end Nop
