import NopModel.Endian
import NopModel.Lemmas.Wire
namespace Nop.Endian

theorem ofLE_lt (bs : Bytes) : ofLE bs < 256 ^ bs.length := by
  induction bs with
  | nil => simp [ofLE]
  | cons b r ih =>
    have hb := UInt8.toNat_lt b
    simp only [ofLE, List.length_cons, Nat.pow_succ]
    have : 256 ^ r.length * 256 = 256 * 256 ^ r.length := Nat.mul_comm _ _
    rw [this]
    have h2 : b.toNat + 256 * ofLE r < 256 + 256 * ofLE r := by omega
    have h3 : 256 + 256 * ofLE r = 256 * (ofLE r + 1) := by rw [Nat.mul_add]; omega
    have h4 : 256 * (ofLE r + 1) ≤ 256 * 256 ^ r.length := Nat.mul_le_mul_left _ (by omega)
    omega

theorem ofLE_append (a c : Bytes) : ofLE (a ++ c) = ofLE a + 256 ^ a.length * ofLE c := by
  induction a with
  | nil => simp [ofLE]
  | cons b r ih =>
    simp only [List.cons_append, ofLE, ih, List.length_cons, Nat.pow_succ]
    rw [Nat.mul_add, ← Nat.mul_assoc, Nat.mul_comm 256 (256 ^ r.length)]
    omega

theorem leBytes_ofLE : ∀ (bs : Bytes), leBytes bs.length (ofLE bs) = bs
  | [] => rfl
  | b :: r => by
    have hb := UInt8.toNat_lt b
    simp only [List.length_cons, leBytes, ofLE]
    have h1 : (b.toNat + 256 * ofLE r) % 256 = b.toNat := by omega
    have h2 : (b.toNat + 256 * ofLE r) / 256 = ofLE r := by omega
    rw [h1, h2, leBytes_ofLE r]
    congr 1
    apply UInt8.toNat_inj.1
    simp [UInt8.toNat_ofNat']

theorem pow256_eq (n : Nat) : 256 ^ n = 2 ^ (n * 8) := by
  rw [Nat.mul_comm, Nat.pow_mul]

/-- the little-endian shift-or reassembly computes the little-endian value -/
theorem orShift_little (i : Nat) (bs : Bytes) :
    orShift (fun i => i * 8) i bs = ofLE bs <<< (i * 8) := by
  induction bs generalizing i with
  | nil => simp [orShift, ofLE]
  | cons b r ih =>
    have hb := UInt8.toNat_lt b
    simp only [orShift, ih, ofLE]
    have hlt : b.toNat <<< (i * 8) < 2 ^ ((i + 1) * 8) := by
      rw [Nat.shiftLeft_eq, Nat.add_mul, Nat.pow_add]
      have : b.toNat * 2 ^ (i * 8) < 256 * 2 ^ (i * 8) := Nat.mul_lt_mul_of_pos_right hb (Nat.two_pow_pos _)
      rw [Nat.mul_comm (2 ^ (i * 8)) _]
      simpa using this
    rw [Nat.or_comm, ← Nat.shiftLeft_add_eq_or_of_lt hlt]
    simp only [Nat.shiftLeft_eq, Nat.add_mul, Nat.pow_add]
    have : (2 : Nat) ^ (1 * 8) = 256 := by decide
    rw [this]
    have e1 : 256 * ofLE r * 2 ^ (i * 8) = ofLE r * (2 ^ (i * 8) * 256) := by
      rw [Nat.mul_comm 256 (ofLE r), Nat.mul_assoc, Nat.mul_comm 256 _]
    rw [e1]
    omega

theorem fromLittleBytes_eq (bs : Bytes) : fromLittleBytes bs = ofLE bs := by
  simp [fromLittleBytes, orShift_little]

/-- the big-endian shift-or reassembly computes the value of the reversed byte list -/
theorem orShift_big (L i : Nat) (r : Bytes) (hL : L = i + r.length) :
    orShift (fun j => (L - j - 1) * 8) i r = ofLE r.reverse := by
  induction r generalizing i with
  | nil => simp [orShift, ofLE]
  | cons b r ih =>
    have hb := UInt8.toNat_lt b
    simp only [List.length_cons] at hL
    simp only [orShift, ih (i + 1) (by omega), List.reverse_cons, ofLE_append, List.length_reverse, ofLE,
      Nat.mul_zero, Nat.add_zero]
    have hs : L - i - 1 = r.length := by omega
    rw [hs]
    have hlt : ofLE r.reverse < 2 ^ (r.length * 8) := by
      have := ofLE_lt r.reverse
      rw [List.length_reverse, pow256_eq] at this
      exact this
    rw [← Nat.shiftLeft_add_eq_or_of_lt hlt, Nat.shiftLeft_eq, pow256_eq]
    rw [Nat.mul_comm b.toNat]
    omega

theorem fromBigBytes_eq (bs : Bytes) : fromBigBytes bs = ofLE bs.reverse := by
  unfold fromBigBytes
  exact orShift_big bs.length 0 bs (by simp)

end Nop.Endian
