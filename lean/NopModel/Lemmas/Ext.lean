import NopModel.Codec
import NopModel.Lemmas.Src
/-! The decoder never depends on bytes it does not consume: a successful read stays the
same read, with the same result, when more data follows (L3 of DESIGN.md).  C05 (a strict
prefix of a valid message is never accepted) is a corollary. -/
namespace Nop

def Src.ext (s : Src) (x : Bytes) : Src := { s with bytes := s.bytes ++ x }

@[simp] theorem ext_frames (s : Src) (x : Bytes) : (s.ext x).frames = s.frames := rfl
@[simp] theorem ext_fault (s : Src) (x : Bytes) : (s.ext x).fault = s.fault := rfl
@[simp] theorem ext_bytes (s : Src) (x : Bytes) : (s.ext x).bytes = s.bytes ++ x := rfl
@[simp] theorem ext_handles (s : Src) (x : Bytes) : (s.ext x).handles = s.handles := rfl
@[simp] theorem ext_ensureChecks (s : Src) (x : Bytes) : (s.ext x).ensureChecks = s.ensureChecks := rfl
@[simp] theorem ext_eof (s : Src) (x : Bytes) : (s.ext x).eof = s.eof := rfl

theorem ext_adv {s : Src} {n : Nat} (x : Bytes) (h : n ≤ s.bytes.length) :
    (s.ext x).adv n = (s.adv n).ext x := by
  cases s
  simp only [Src.ext, Src.adv, Src.mk.injEq, and_true, true_and] at *
  rw [List.drop_append_of_le_length h]

/-- success is stable under appending data; clean sources stay clean -/
def Ext {α} (m : M α) : Prop :=
  ∀ (s : Src) (a : α) (s' : Src) (x : Bytes), s.fault = .none → m s = (.ok a, s') →
    m (s.ext x) = (.ok a, s'.ext x) ∧ s'.fault = .none

namespace Ext
variable {α β : Type}

/-- close `eq ∧ clean` goals whatever `simp` left of the equation -/
macro "fin_ext " h:term : tactic =>
  `(tactic| first | exact ⟨rfl, $h⟩ | exact ⟨trivial, $h⟩ | exact $h | (refine ⟨?_, $h⟩; simp))

theorem pure (a : α) : Ext (Pure.pure a : M α) := by
  intro s b s' x hc h
  simp only [pure_run, Prod.mk.injEq, Except.ok.injEq] at h ⊢
  obtain ⟨rfl, rfl⟩ := h
  exact ⟨⟨rfl, rfl⟩, hc⟩

theorem fail (e : Err) : Ext (M.fail e : M α) := by
  intro s b s' x _ h
  simp at h

theorem bind {m : M α} {f : α → M β} (hm : Ext m) (hf : ∀ a, Ext (f a)) : Ext (m >>= f) := by
  intro s b s' x hc h
  rw [bind_run] at h
  cases hms : m s with
  | mk r s1 =>
    cases r with
    | error e => simp [hms] at h
    | ok a =>
      simp only [hms] at h
      obtain ⟨h1, hc1⟩ := hm s a s1 x hc hms
      obtain ⟨h2, hc2⟩ := hf a s1 b s' x hc1 h
      rw [bind_run, h1]
      exact ⟨h2, hc2⟩

theorem ite {c : Prop} [Decidable c] {a b : M α} (ha : Ext a) (hb : Ext b) : Ext (if c then a else b) := by
  split <;> assumption

theorem rRead (n : Nat) : Ext (Nop.rRead n) := by
  intro s a s' x hc h
  unfold Nop.rRead at h ⊢
  by_cases hf : framesOk n s.frames = true
  · simp only [hf, Bool.not_true, Bool.false_eq_true, ↓reduceIte, pre_clean hc] at h
    by_cases hl : s.bytes.length < n
    · simp [hl] at h
    · simp only [hl, ↓reduceIte, Prod.mk.injEq, Except.ok.injEq] at h
      obtain ⟨rfl, rfl⟩ := h
      have hc' : (s.ext x).fault = .none := hc
      simp only [ext_frames, hf, Bool.not_true, Bool.false_eq_true, ↓reduceIte, pre_clean hc']
      have : ¬ (s.ext x).bytes.length < n := by simp; omega
      simp only [this, ↓reduceIte]
      refine ⟨?_, hc⟩
      rw [ext_adv x (by omega)]
      simp [List.take_append_of_le_length (Nat.le_of_not_lt hl)]
  · simp [hf] at h

theorem rSkip (n : Nat) : Ext (Nop.rSkip n) := by
  intro s a s' x hc h
  unfold Nop.rSkip at h ⊢
  by_cases hf : framesOk n s.frames = true
  · simp only [hf, Bool.not_true, Bool.false_eq_true, ↓reduceIte, pre_clean hc] at h
    by_cases hl : s.bytes.length < n
    · simp [hl] at h
    · simp only [hl, ↓reduceIte, Prod.mk.injEq] at h
      obtain ⟨_, rfl⟩ := h
      have hc' : (s.ext x).fault = .none := hc
      simp only [ext_frames, hf, Bool.not_true, Bool.false_eq_true, ↓reduceIte, pre_clean hc']
      have : ¬ (s.ext x).bytes.length < n := by simp; omega
      simp only [this, ↓reduceIte]
      refine ⟨?_, hc⟩
      rw [ext_adv x (by omega)]
  · simp [hf] at h

theorem rEnsure (n : Nat) : Ext (Nop.rEnsure n) := by
  intro s a s' x hc h
  unfold Nop.rEnsure at h ⊢
  by_cases hf : framesOk n s.frames = true
  · simp only [hf, Bool.not_true, Bool.false_eq_true, ↓reduceIte, pre_clean hc] at h
    have hc' : (s.ext x).fault = .none := hc
    simp only [ext_frames, hf, Bool.not_true, Bool.false_eq_true, ↓reduceIte, pre_clean hc']
    by_cases hl : (s.ensureChecks && decide (s.bytes.length < n)) = true
    · simp [hl] at h
    · simp only [hl, Bool.false_eq_true, ↓reduceIte, Prod.mk.injEq] at h
      obtain ⟨_, rfl⟩ := h
      have : ¬ ((s.ext x).ensureChecks && decide ((s.ext x).bytes.length < n)) = true := by
        simp only [Bool.and_eq_true, decide_eq_true_eq, not_and, Nat.not_lt] at hl ⊢
        intro he
        have := hl he
        simp; omega
      rw [if_neg this]
      exact ⟨rfl, hc⟩
  · simp [hf] at h

theorem rGetHandle (r : Int) : Ext (Nop.rGetHandle r) := by
  intro s a s' x hc h
  unfold Nop.rGetHandle at h ⊢
  have hc' : (s.ext x).fault = .none := hc
  rw [pre_clean hc] at h
  rw [pre_clean hc']
  simp only [Prod.mk.injEq] at h ⊢
  obtain ⟨h1, rfl⟩ := h
  exact ⟨⟨h1, rfl⟩, hc⟩

theorem rPush (n : Nat) : Ext (Nop.rPush n) := by
  intro s a s' x hc h
  simp only [Nop.rPush, Prod.mk.injEq] at h
  obtain ⟨_, rfl⟩ := h
  exact ⟨rfl, hc⟩

theorem rPadPop : Ext Nop.rPadPop := by
  intro s a s' x hc h
  unfold Nop.rPadPop at h ⊢
  cases hfr : s.frames with
  | nil =>
    simp only [hfr, Prod.mk.injEq] at h
    obtain ⟨_, rfl⟩ := h
    simp only [ext_frames, hfr]
    fin_ext hc
  | cons b fs =>
    simp only [hfr] at h
    simp only [ext_frames, hfr]
    cases hsk : Nop.rSkip b { s with frames := fs } with
    | mk r s1 =>
      cases r with
      | error e => simp [hsk] at h
      | ok u =>
        simp only [hsk, Prod.mk.injEq] at h
        obtain ⟨_, rfl⟩ := h
        have := Ext.rSkip b { s with frames := fs } u s1 x hc hsk
        have e1 : ({ s with frames := fs } : Src).ext x = { s.ext x with frames := fs } := rfl
        rw [e1] at this
        rw [this.1]
        exact ⟨rfl, this.2⟩

theorem rByte : Ext Nop.rByte := by
  intro s a s' x hc h
  unfold Nop.rByte at h ⊢
  cases hr : Nop.rRead 1 s with
  | mk r s1 =>
    cases r with
    | error e => simp [hr] at h
    | ok bs =>
      simp only [hr, Prod.mk.injEq, Except.ok.injEq] at h
      obtain ⟨rfl, rfl⟩ := h
      obtain ⟨h1, h2⟩ := Ext.rRead 1 s bs s1 x hc hr
      rw [h1]
      exact ⟨rfl, h2⟩

theorem withPrefix {mt : UInt8 → Bool} {k : UInt8 → M α} (hk : ∀ p, Ext (k p)) : Ext (Nop.withPrefix mt k) := by
  intro s a s' x hc h
  unfold Nop.withPrefix at h ⊢
  cases hr : Nop.rByte s with
  | mk r s1 =>
    cases r with
    | error e => simp [hr] at h
    | ok p =>
      simp only [hr] at h
      obtain ⟨h1, h2⟩ := Ext.rByte s p s1 x hc hr
      rw [h1]
      by_cases hm : mt p = true
      · simp only [hm, ↓reduceIte] at h ⊢
        exact hk p s1 a s' x h2 h
      · simp [hm] at h

theorem decIntPayload (k : IntKind) (p : UInt8) : Ext (Nop.decIntPayload k p) := by
  intro s a s' x hc h
  unfold Nop.decIntPayload at h ⊢
  by_cases h0 : (intPayloadLen k p == 0) = true
  · simp only [h0, ↓reduceIte, Prod.mk.injEq, Except.ok.injEq] at h ⊢
    obtain ⟨rfl, rfl⟩ := h
    exact ⟨⟨rfl, rfl⟩, hc⟩
  · simp only [h0, Bool.false_eq_true, ↓reduceIte] at h ⊢
    cases hr : Nop.rRead (intPayloadLen k p) s with
    | mk r s1 =>
      cases r with
      | error e => simp [hr] at h
      | ok bs =>
        simp only [hr, Prod.mk.injEq, Except.ok.injEq] at h
        obtain ⟨rfl, rfl⟩ := h
        obtain ⟨h1, h2⟩ := Ext.rRead _ s bs s1 x hc hr
        rw [h1]
        exact ⟨rfl, h2⟩

theorem decInt (k : IntKind) : Ext (Nop.decInt k) :=
  Ext.withPrefix (fun p => Ext.decIntPayload k p)

theorem decSize : Ext Nop.decSize := by
  intro s a s' x hc h
  unfold Nop.decSize at h ⊢
  cases hr : Nop.decInt .u64 s with
  | mk r s1 =>
    cases r with
    | error e => simp [hr] at h
    | ok i =>
      simp only [hr, Prod.mk.injEq, Except.ok.injEq] at h
      obtain ⟨rfl, rfl⟩ := h
      obtain ⟨h1, h2⟩ := Ext.decInt .u64 s i s1 x hc hr
      rw [h1]
      exact ⟨rfl, h2⟩

theorem repM {f : M α} (hf : Ext f) : ∀ n, Ext (Nop.repM n f)
  | 0 => by
    intro s a s' x hc h
    simp only [Nop.repM, Prod.mk.injEq, Except.ok.injEq] at h ⊢
    obtain ⟨rfl, rfl⟩ := h
    exact ⟨⟨rfl, rfl⟩, hc⟩
  | n + 1 => by
    intro s a s' x hc h
    simp only [Nop.repM] at h ⊢
    cases hr : f s with
    | mk r s1 =>
      cases r with
      | error e => simp [hr] at h
      | ok b =>
        simp only [hr] at h
        obtain ⟨h1, h2⟩ := hf s b s1 x hc hr
        rw [h1]
        cases hr2 : Nop.repM n f s1 with
        | mk r2 s2 =>
          cases r2 with
          | error e => simp [hr2] at h
          | ok bs =>
            simp only [hr2, Prod.mk.injEq, Except.ok.injEq] at h
            obtain ⟨rfl, rfl⟩ := h
            obtain ⟨h3, h4⟩ := repM hf n s1 bs s2 x h2 hr2
            simp only [h3]
            fin_ext h4

theorem repP {f : α → M α} (d : α) (hf : ∀ a, Ext (f a)) : ∀ n pr, Ext (Nop.repP n pr d f)
  | 0, pr => by
    intro s a s' x hc h
    simp only [Nop.repP, Prod.mk.injEq, Except.ok.injEq] at h ⊢
    obtain ⟨rfl, rfl⟩ := h
    exact ⟨⟨rfl, rfl⟩, hc⟩
  | n + 1, pr => by
    intro s a s' x hc h
    simp only [Nop.repP, List.headD_eq_head?_getD] at h ⊢
    cases hr : f (pr.head?.getD d) s with
    | mk r s1 =>
      cases r with
      | error e => simp [hr] at h
      | ok b =>
        simp only [hr] at h
        obtain ⟨h1, h2⟩ := hf _ s b s1 x hc hr
        rw [h1]
        cases hr2 : Nop.repP n pr.tail d f s1 with
        | mk r2 s2 =>
          cases r2 with
          | error e => simp [hr2] at h
          | ok bs =>
            simp only [hr2, Prod.mk.injEq, Except.ok.injEq] at h
            obtain ⟨rfl, rfl⟩ := h
            obtain ⟨h3, h4⟩ := repP d hf n pr.tail s1 bs s2 x h2 hr2
            simp only [h3]
            fin_ext h4

theorem itM {f : α → M α} (hf : ∀ a, Ext (f a)) : ∀ n a, Ext (Nop.itM n f a)
  | 0, a => by
    intro s b s' x hc h
    simp only [Nop.itM, Prod.mk.injEq, Except.ok.injEq] at h ⊢
    obtain ⟨rfl, rfl⟩ := h
    exact ⟨⟨rfl, rfl⟩, hc⟩
  | n + 1, a => by
    intro s b s' x hc h
    simp only [Nop.itM] at h ⊢
    cases hr : f a s with
    | mk r s1 =>
      cases r with
      | error e => simp [hr] at h
      | ok a' =>
        simp only [hr] at h
        obtain ⟨h1, h2⟩ := hf a s a' s1 x hc hr
        rw [h1]
        exact itM hf n a' s1 b s' x h2 h

end Ext

end Nop
