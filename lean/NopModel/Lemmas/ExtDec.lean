import NopModel.Lemmas.Ext
namespace Nop

macro "ext_step" : tactic => `(tactic| first
  | exact Ext.pure _ | exact Ext.fail _ | exact Ext.rRead _ | exact Ext.rSkip _ | exact Ext.rEnsure _
  | exact Ext.rGetHandle _ | exact Ext.rPush _ | exact Ext.rPadPop | exact Ext.decInt _ | exact Ext.decSize
  | exact Ext.decIntPayload _ _ | exact Ext.rByte
  | apply Ext.bind | apply Ext.ite | apply Ext.withPrefix | apply Ext.repM | apply Ext.repP | apply Ext.itM
  | intro _)

theorem ext_decBin (f : Flavor) (e : Ty) : Ext (decBin f e) := by
  unfold decBin
  apply Ext.bind Ext.decSize
  intro sz
  cases f <;> simp only <;> repeat ext_step

theorem ext_skipEntry : Ext skipEntry := by
  unfold skipEntry
  repeat ext_step

mutual
theorem ext_decPayload : ∀ (t : Ty) (p : UInt8) (prior : Val), Ext (decPayload t p prior)
  | .bool, p, pr => by simp only [decPayload]; repeat ext_step
  | .int k nom, p, pr => by simp only [decPayload]; repeat ext_step
  | .float w, p, pr => by simp only [decPayload]; repeat ext_step
  | .str n cb, p, pr => by simp only [decPayload]; repeat ext_step
  | .seq f e, p, pr => by
    simp only [decPayload]
    split
    · exact ext_decBin f e
    · cases f <;> simp only
      · apply Ext.bind Ext.decSize; intro n
        apply Ext.bind
        · apply Ext.repM
          apply Ext.withPrefix; intro q; exact ext_decPayload e q _
        · intro _; exact Ext.pure _
      all_goals
        apply Ext.bind Ext.decSize; intro n
        apply Ext.ite (Ext.fail _)
        apply Ext.bind
        · apply Ext.repP
          intro a; apply Ext.withPrefix; intro q; exact ext_decPayload e q _
        · intro _; exact Ext.pure _
  | .prod k ts, p, pr => by
    simp only [decPayload]
    apply Ext.bind Ext.decSize; intro n
    apply Ext.ite (Ext.fail _)
    apply Ext.bind (ext_decProd ts _)
    intro _; exact Ext.pure _
  | .map o k v, p, pr => by
    simp only [decPayload]
    apply Ext.bind Ext.decSize; intro n
    apply Ext.bind
    · apply Ext.repM
      apply Ext.bind
      · apply Ext.withPrefix; intro q; exact ext_decPayload k q _
      · intro a
        apply Ext.bind
        · apply Ext.withPrefix; intro q; exact ext_decPayload v q _
        · intro _; exact Ext.pure _
    · intro _; exact Ext.pure _
  | .opt t, p, pr => by
    simp only [decPayload]
    apply Ext.ite (Ext.pure _)
    apply Ext.bind (ext_decPayload t p _)
    intro _; exact Ext.pure _
  | .result en ek t, p, pr => by
    simp only [decPayload]
    apply Ext.ite
    · repeat ext_step
    · apply Ext.bind (ext_decPayload t p _)
      intro _; exact Ext.pure _
  | .variant ts, p, pr => by
    simp only [decPayload]
    apply Ext.bind (Ext.decInt _); intro idx
    apply Ext.ite (Ext.fail _)
    apply Ext.ite
    · repeat ext_step
    · apply Ext.bind (ext_decAlt ts _ _)
      intro _; exact Ext.pure _
  | .handle pol ht tk, p, pr => by simp only [decPayload]; repeat ext_step
  | .wrap t, p, pr => by simp only [decPayload]; exact ext_decPayload t p pr
  | .ref t, p, pr => by simp only [decPayload]; exact ext_decPayload t p pr
  | .table hash ents tys, p, pr => by
    simp only [decPayload]
    apply Ext.bind (Ext.decInt _); intro h
    apply Ext.ite (Ext.fail _)
    apply Ext.bind Ext.decSize; intro n
    apply Ext.bind
    · apply Ext.itM
      intro cur
      apply Ext.bind (Ext.decInt _); intro id
      exact ext_decEntry ents tys _ cur
    · intro _; exact Ext.pure _
theorem ext_decProd : ∀ (ts : List Ty) (prs : List Val), Ext (decProd ts prs)
  | [], prs => by simp only [decProd]; exact Ext.pure _
  | t :: ts, prs => by
    simp only [decProd]
    apply Ext.bind
    · apply Ext.withPrefix; intro q; exact ext_decPayload t q _
    · intro v
      apply Ext.bind (ext_decProd ts _)
      intro _; exact Ext.pure _
theorem ext_decAlt : ∀ (ts : List Ty) (i : Nat) (pr : Option Val), Ext (decAlt ts i pr)
  | [], i, pr => by simp only [decAlt]; exact Ext.fail _
  | t :: ts, 0, pr => by
    simp only [decAlt]
    apply Ext.withPrefix; intro q; exact ext_decPayload t q _
  | t :: ts, i + 1, pr => by simp only [decAlt]; exact ext_decAlt ts i pr
theorem ext_decEntry : ∀ (ents : List (Nat × Bool)) (ts : List Ty) (id : Nat) (cur : List Val),
    Ext (decEntry ents ts id cur)
  | [], ts, id, cur => by
    simp only [decEntry]
    apply Ext.bind ext_skipEntry; intro _; exact Ext.pure _
  | (eid, del) :: es, [], id, cur => by
    simp only [decEntry]
    apply Ext.bind ext_skipEntry; intro _; exact Ext.pure _
  | (eid, del) :: es, t :: ts, id, [] => by
    simp only [decEntry]
    apply Ext.bind ext_skipEntry; intro _; exact Ext.pure _
  | (eid, del) :: es, t :: ts, id, c :: cs => by
    simp only [decEntry]
    apply Ext.ite
    · apply Ext.ite
      · apply Ext.bind ext_skipEntry; intro _; exact Ext.pure _
      · apply Ext.ite (Ext.fail _)
        apply Ext.bind Ext.decSize; intro sz
        apply Ext.bind (Ext.rPush _); intro _
        apply Ext.bind
        · apply Ext.withPrefix; intro q; exact ext_decPayload t q _
        · intro v
          apply Ext.bind Ext.rPadPop; intro _; exact Ext.pure _
    · apply Ext.bind (ext_decEntry es ts id cs)
      intro _; exact Ext.pure _
end

theorem ext_decInto (t : Ty) (prior : Val) : Ext (decInto t prior) :=
  Ext.withPrefix (fun p => ext_decPayload t p prior)

end Nop
