import NopModel.Fungible
namespace Nop

@[simp] theorem peel_wrap (t : Ty) : peel (.wrap t) = peel t := rfl

theorem peel_not_wrap : ∀ (t u : Ty), peel t ≠ .wrap u
  | .wrap t, u => by rw [peel_wrap]; exact peel_not_wrap t u
  | .bool, _ => by simp [peel]
  | .int _ _, _ => by simp [peel]
  | .float _, _ => by simp [peel]
  | .str _ _, _ => by simp [peel]
  | .seq _ _, _ => by simp [peel]
  | .prod _ _, _ => by simp [peel]
  | .map _ _ _, _ => by simp [peel]
  | .opt _, _ => by simp [peel]
  | .result _ _ _, _ => by simp [peel]
  | .variant _, _ => by simp [peel]
  | .handle _ _ _, _ => by simp [peel]
  | .ref _, _ => by simp [peel]
  | .table _ _ _, _ => by simp [peel]

theorem peel_of_not_wrap {t : Ty} (h : ∀ u, t ≠ .wrap u) : peel t = t := by
  cases t <;> first | rfl | exact absurd rfl (h _)

theorem peel_idem (t : Ty) : peel (peel t) = peel t :=
  peel_of_not_wrap (peel_not_wrap t)

/-- the relation sees its second argument only through `peel` -/
theorem fungible_peel_r : ∀ (a b : Ty), fungible a (peel b) = fungible a b
  | .wrap a, b => by simp only [fungible]; exact fungible_peel_r a b
  | .bool, b => by simp only [fungible, peel_idem]
  | .int _ _, b => by simp only [fungible, peel_idem]
  | .float _, b => by simp only [fungible, peel_idem]
  | .str _ _, b => by simp only [fungible, peel_idem]
  | .seq _ _, b => by simp only [fungible, peel_idem]
  | .prod _ _, b => by simp only [fungible, peel_idem]
  | .map _ _ _, b => by simp only [fungible, peel_idem]
  | .opt _, b => by simp only [fungible, peel_idem]
  | .result _ _ _, b => by simp only [fungible, peel_idem]
  | .variant _, b => by simp only [fungible, peel_idem]
  | .handle _ _ _, b => by simp only [fungible, peel_idem]
  | .ref _, b => by simp only [fungible, peel_idem]
  | .table _ _ _, b => by simp only [fungible, peel_idem]

theorem fungible_wrap_r (a b : Ty) : fungible a (.wrap b) = fungible a b := by
  rw [← fungible_peel_r a (.wrap b), peel_wrap, fungible_peel_r]

/-- ... and its first argument too -/
theorem fungible_peel_l : ∀ (a b : Ty), fungible (peel a) b = fungible a b
  | .wrap a, b => by rw [peel_wrap]; simp only [fungible]; exact fungible_peel_l a b
  | .bool, _ => rfl
  | .int _ _, _ => rfl
  | .float _, _ => rfl
  | .str _ _, _ => rfl
  | .seq _ _, _ => rfl
  | .prod _ _, _ => rfl
  | .map _ _ _, _ => rfl
  | .opt _, _ => rfl
  | .result _ _ _, _ => rfl
  | .variant _, _ => rfl
  | .handle _ _ _, _ => rfl
  | .ref _, _ => rfl
  | .table _ _ _, _ => rfl

theorem seqOk_refl (f : Flavor) : seqOk f f = true := by cases f <;> simp [seqOk]
theorem seqOk_symm (f g : Flavor) : seqOk f g = seqOk g f := by
  cases f <;> cases g <;> simp [seqOk] <;> exact Bool.beq_comm
theorem prodOk_refl (k : PKind) : prodOk k k = true := by cases k <;> rfl
theorem prodOk_symm (k l : PKind) : prodOk k l = prodOk l k := by cases k <;> cases l <;> rfl

/-! ### reflexive -/
mutual
theorem fungible_refl : ∀ (a : Ty), fungible a a = true
  | .wrap a => by rw [fungible_wrap_r]; simp only [fungible]; exact fungible_refl a
  | .bool => by simp [fungible, peel]
  | .int _ _ => by simp [fungible, peel]
  | .float _ => by simp [fungible, peel]
  | .str _ _ => by simp [fungible, peel]
  | .handle _ _ _ => by simp [fungible, peel]
  | .seq f e => by simp [fungible, peel, seqOk_refl, fungible_refl e]
  | .prod k ts => by simp [fungible, peel, prodOk_refl, fungL_refl ts]
  | .map _ k v => by simp [fungible, peel, fungible_refl k, fungible_refl v]
  | .opt t => by simp [fungible, peel, fungible_refl t]
  | .result _ _ t => by simp [fungible, peel, fungible_refl t]
  | .variant ts => by simp [fungible, peel, fungL_refl ts]
  | .ref t => by simp [fungible, peel, fungible_refl t]
  | .table _ _ ts => by simp [fungible, peel, fungL_refl ts]
theorem fungL_refl : ∀ (ts : List Ty), fungL ts ts = true
  | [] => rfl
  | t :: ts => by simp [fungL, fungible_refl t, fungL_refl ts]
end

end Nop

namespace Nop

theorem all_eq_fungAllR (a : Ty) (h : ∀ t, fungible a t = fungible t a) :
    ∀ ts : List Ty, ts.all (fun t => fungible a t) = fungAllR ts a
  | [] => rfl
  | t :: ts => by simp only [List.all_cons, fungAllR, h t, all_eq_fungAllR a h ts]

theorem seqTup_prod (f : Flavor) (n : Nat) : seqTup f n = seqTup f n := rfl

theorem beqc {α} [BEq α] [LawfulBEq α] (a b : α) : (a == b) = (b == a) := Bool.beq_comm

/-! ### symmetric -/
mutual
theorem fungible_symm : ∀ (a b : Ty), fungible a b = fungible b a
  | .wrap a, b => by simp only [fungible]; rw [fungible_wrap_r]; exact fungible_symm a b
  | .bool, b => by
    rw [← fungible_peel_l b]
    simp only [fungible]
    have hnw := peel_not_wrap b
    generalize peel b = b' at *
    cases b' with
    | wrap x => exact absurd rfl (hnw _)
    | bool => rfl
    | _ => simp [fungible, peel]
  | .int k n, b => by
    rw [← fungible_peel_l b]
    simp only [fungible]
    have hnw := peel_not_wrap b
    generalize peel b = b' at *
    cases b' with
    | wrap x => exact absurd rfl (hnw _)
    | int k' n' => simp only [fungible, peel]; rw [beqc k, beqc n]
    | _ => simp [fungible, peel]
  | .float w, b => by
    rw [← fungible_peel_l b]
    simp only [fungible]
    have hnw := peel_not_wrap b
    generalize peel b = b' at *
    cases b' with
    | wrap x => exact absurd rfl (hnw _)
    | float w' => simp only [fungible, peel]; rw [beqc w]
    | _ => simp [fungible, peel]
  | .str n cb, b => by
    rw [← fungible_peel_l b]
    simp only [fungible]
    have hnw := peel_not_wrap b
    generalize peel b = b' at *
    cases b' with
    | wrap x => exact absurd rfl (hnw _)
    | str n' cb' => simp only [fungible, peel]; rw [beqc n, beqc cb]
    | _ => simp [fungible, peel]
  | .handle p h k, b => by
    rw [← fungible_peel_l b]
    simp only [fungible]
    have hnw := peel_not_wrap b
    generalize peel b = b' at *
    cases b' with
    | wrap x => exact absurd rfl (hnw _)
    | handle p' h' k' => simp only [fungible, peel]; rw [beqc p, beqc h, beqc k]
    | _ => simp [fungible, peel]
  | .seq fa ea, b => by
    rw [← fungible_peel_l b]
    simp only [fungible]
    have hnw := peel_not_wrap b
    generalize peel b = b' at *
    cases b' with
    | wrap x => exact absurd rfl (hnw _)
    | seq fb eb => simp only [fungible, peel]; rw [seqOk_symm fa fb, fungible_symm ea eb, beqc ea.integral]
    | prod kb ts =>
      cases kb with
      | tuple => simp only [fungible, peel, BEq.rfl, Bool.true_and]; rw [all_eq_fungAllR ea (fun t => fungible_symm ea t)]
      | pair => simp [fungible, peel]
      | struct => simp [fungible, peel]
    | _ => simp [fungible, peel]
  | .prod ka as, b => by
    rw [← fungible_peel_l b]
    simp only [fungible]
    have hnw := peel_not_wrap b
    generalize peel b = b' at *
    cases b' with
    | wrap x => exact absurd rfl (hnw _)
    | prod kb bs => simp only [fungible, peel]; rw [prodOk_symm ka kb, fungL_symm as bs]
    | seq fb eb =>
      cases ka with
      | tuple => simp only [fungible, peel, BEq.rfl, Bool.true_and]; rw [fungAllR_symm as eb]
      | pair => simp [fungible, peel]
      | struct => simp [fungible, peel]
    | _ => simp [fungible, peel]
  | .map o k v, b => by
    rw [← fungible_peel_l b]
    simp only [fungible]
    have hnw := peel_not_wrap b
    generalize peel b = b' at *
    cases b' with
    | wrap x => exact absurd rfl (hnw _)
    | map o' k' v' => simp only [fungible, peel]; rw [fungible_symm k k', fungible_symm v v']
    | _ => simp [fungible, peel]
  | .opt t, b => by
    rw [← fungible_peel_l b]
    simp only [fungible]
    have hnw := peel_not_wrap b
    generalize peel b = b' at *
    cases b' with
    | wrap x => exact absurd rfl (hnw _)
    | opt t' => simp only [fungible, peel]; rw [fungible_symm t t']
    | _ => simp [fungible, peel]
  | .result en ek t, b => by
    rw [← fungible_peel_l b]
    simp only [fungible]
    have hnw := peel_not_wrap b
    generalize peel b = b' at *
    cases b' with
    | wrap x => exact absurd rfl (hnw _)
    | result en' ek' t' => simp only [fungible, peel]; rw [fungible_symm t t', beqc en, beqc ek]
    | _ => simp [fungible, peel]
  | .variant ts, b => by
    rw [← fungible_peel_l b]
    simp only [fungible]
    have hnw := peel_not_wrap b
    generalize peel b = b' at *
    cases b' with
    | wrap x => exact absurd rfl (hnw _)
    | variant ts' => simp only [fungible, peel]; rw [fungL_symm ts ts']
    | _ => simp [fungible, peel]
  | .ref t, b => by
    rw [← fungible_peel_l b]
    simp only [fungible]
    have hnw := peel_not_wrap b
    generalize peel b = b' at *
    cases b' with
    | wrap x => exact absurd rfl (hnw _)
    | ref t' => simp only [fungible, peel]; rw [fungible_symm t t']
    | _ => simp [fungible, peel]
  | .table h ea ta, b => by
    rw [← fungible_peel_l b]
    simp only [fungible]
    have hnw := peel_not_wrap b
    generalize peel b = b' at *
    cases b' with
    | wrap x => exact absurd rfl (hnw _)
    | table h' eb tb => simp only [fungible, peel]; rw [fungL_symm ta tb, beqc h, beqc ea]
    | _ => simp [fungible, peel]
theorem fungAllR_symm : ∀ (as : List Ty) (b : Ty), fungAllR as b = as.all (fun t => fungible b t)
  | [], _ => rfl
  | a :: as, b => by simp only [fungAllR, List.all_cons, fungible_symm a b, fungAllR_symm as b]
theorem fungL_symm : ∀ (as bs : List Ty), fungL as bs = fungL bs as
  | [], [] => rfl
  | [], _ :: _ => rfl
  | _ :: _, [] => rfl
  | a :: as, b :: bs => by simp only [fungL, fungible_symm a b, fungL_symm as bs]
end

end Nop
