import NopModel.Lemmas.Fungible
import NopModel.Lemmas.Raw
import NopModel.Codec
/-! Fungible types are wire-compatible: on every value that is well-typed for both, the two
encoders emit the same bytes (and hand the same handles to the writer) and report the same size. -/
namespace Nop

def Wire (a b : Ty) : Prop :=
  ∀ v, valid a v = true → valid b v = true → (∀ h, encode a v h = encode b v h) ∧ size a v = size b v

theorem Wire.rfl' (a : Ty) : Wire a a := fun _ _ _ => ⟨fun _ => rfl, rfl⟩

theorem encode_peel : ∀ (t : Ty) (v : Val) (h : HChan), encode t v h = encode (peel t) v h
  | .wrap t, v, h => by rw [peel_wrap, ← encode_peel t v h]; simp only [encode]
  | .bool, _, _ => rfl | .int _ _, _, _ => rfl | .float _, _, _ => rfl | .str _ _, _, _ => rfl
  | .seq _ _, _, _ => rfl | .prod _ _, _, _ => rfl | .map _ _ _, _, _ => rfl | .opt _, _, _ => rfl
  | .result _ _ _, _, _ => rfl | .variant _, _, _ => rfl | .handle _ _ _, _, _ => rfl | .ref _, _, _ => rfl
  | .table _ _ _, _, _ => rfl

theorem valid_peel : ∀ (t : Ty) (v : Val), valid t v = valid (peel t) v
  | .wrap t, v => by rw [peel_wrap, ← valid_peel t v]; simp only [valid]
  | .bool, _ => rfl | .int _ _, _ => rfl | .float _, _ => rfl | .str _ _, _ => rfl
  | .seq _ _, _ => rfl | .prod _ _, _ => rfl | .map _ _ _, _ => rfl | .opt _, _ => rfl
  | .result _ _ _, _ => rfl | .variant _, _ => rfl | .handle _ _ _, _ => rfl | .ref _, _ => rfl
  | .table _ _ _, _ => rfl

theorem size_peel : ∀ (t : Ty) (v : Val), size t v = size (peel t) v
  | .wrap t, v => by rw [peel_wrap, ← size_peel t v]; simp only [size]
  | .bool, _ => rfl | .int _ _, _ => rfl | .float _, _ => rfl | .str _ _, _ => rfl
  | .seq _ _, _ => rfl | .prod _ _, _ => rfl | .map _ _ _, _ => rfl | .opt _, _ => rfl
  | .result _ _ _, _ => rfl | .variant _, _ => rfl | .handle _ _ _, _ => rfl | .ref _, _ => rfl
  | .table _ _ _, _ => rfl

theorem Wire.of_peel {a b : Ty} (h : Wire a (peel b)) : Wire a b := by
  intro v hva hvb
  rw [valid_peel b] at hvb
  obtain ⟨h1, h2⟩ := h v hva hvb
  exact ⟨fun hc => by rw [h1 hc, ← encode_peel], by rw [h2, ← size_peel]⟩

theorem encAll_congr {α} {f g : α → HChan → Except Err (Bytes × HChan)} :
    ∀ (as : List α) (h : HChan), (∀ a ∈ as, ∀ h, f a h = g a h) → encAll f as h = encAll g as h
  | [], _, _ => rfl
  | a :: as, h, hfg => by
    simp only [encAll, hfg a (List.mem_cons_self ..)]
    cases g a h with
    | error e => rfl
    | ok r =>
      obtain ⟨b, h1⟩ := r
      simp only [encAll_congr as h1 (fun a' ha' => hfg a' (List.mem_cons_of_mem _ ha'))]

theorem sumMap_congr {α} {f g : α → Nat} : ∀ (as : List α), (∀ a ∈ as, f a = g a) → sumMap f as = sumMap g as
  | [], _ => rfl
  | a :: as, h => by
    simp only [sumMap, h a (List.mem_cons_self ..), sumMap_congr as (fun a' ha' => h a' (List.mem_cons_of_mem _ ha'))]

/-- two integral element types related by the trait are the same type -/
theorem integral_fungible_eq (a b : Ty) (ha : a.integral = true) (hb : b.integral = true) (hf : fungible a b = true) :
    a = b := by
  cases a <;> simp [Ty.integral] at ha
  · cases b <;> simp [Ty.integral, fungible, peel] at hb hf ⊢
  · rename_i k n
    cases b <;> simp [Ty.integral, fungible, peel] at hb hf ⊢
    exact hf

theorem valid_seq_not_over (f : Flavor) (e : Ty) (vs : List Val) (hv : valid (.seq f e) (.list vs) = true) :
    lbufOver f vs.length = false := by
  simp only [valid, Bool.and_eq_true] at hv
  cases f <;> simp [lbufOver] at hv ⊢
  rename_i cap sk unb
  intro hu
  have := hv.1.1.1
  simp [hu] at this
  omega

theorem validProd_length : ∀ (ts : List Ty) (vs : List Val), validProd ts vs = true → vs.length = ts.length
  | [], [], _ => rfl
  | _ :: ts, _ :: vs, h => by
    simp only [validProd, Bool.and_eq_true] at h
    simp [validProd_length ts vs h.2]
  | [], _ :: _, h => by simp [validProd] at h
  | _ :: _, [], h => by simp [validProd] at h

theorem fungL_length : ∀ (as bs : List Ty), fungL as bs = true → as.length = bs.length
  | [], [], _ => rfl
  | _ :: as, _ :: bs, h => by
    simp only [fungL, Bool.and_eq_true] at h
    simp [fungL_length as bs h.2]
  | [], _ :: _, h => by simp [fungL] at h
  | _ :: _, [], h => by simp [fungL] at h

/-- a sequence of `a`-elements against a tuple whose element types are all wire-compatible with `a` -/
theorem seq_vs_tuple (a : Ty) : ∀ (ts : List Ty) (vs : List Val), (∀ t ∈ ts, Wire a t) →
    allP (valid a) vs = true → validProd ts vs = true →
    (∀ h, encAll (encode a) vs h = encProd ts vs h) ∧ sumMap (size a) vs = sizeProd ts vs
  | [], [], _, _, _ => ⟨fun _ => rfl, rfl⟩
  | [], _ :: _, _, _, hv => by simp [validProd] at hv
  | _ :: _, [], _, _, hv => by simp [validProd] at hv
  | t :: ts, v :: vs, hw, ha, hv => by
    simp only [allP, Bool.and_eq_true] at ha
    simp only [validProd, Bool.and_eq_true] at hv
    obtain ⟨h1, h2⟩ := hw t (List.mem_cons_self ..) v ha.1 hv.1
    obtain ⟨i1, i2⟩ := seq_vs_tuple a ts vs (fun t' ht' => hw t' (List.mem_cons_of_mem _ ht')) ha.2 hv.2
    constructor
    · intro h
      simp only [encAll, encProd, h1 h]
      cases encode t v h with
      | error e => rfl
      | ok r => obtain ⟨b, h'⟩ := r; simp only [i1 h']
    · simp only [sumMap, sizeProd, h2, i2]

theorem tuple_vs_seq (b : Ty) : ∀ (ts : List Ty) (vs : List Val), (∀ t ∈ ts, Wire t b) →
    validProd ts vs = true → allP (valid b) vs = true →
    (∀ h, encProd ts vs h = encAll (encode b) vs h) ∧ sizeProd ts vs = sumMap (size b) vs
  | [], [], _, _, _ => ⟨fun _ => rfl, rfl⟩
  | [], _ :: _, _, hv, _ => by simp [validProd] at hv
  | _ :: _, [], _, hv, _ => by simp [validProd] at hv
  | t :: ts, v :: vs, hw, hv, ha => by
    simp only [allP, Bool.and_eq_true] at ha
    simp only [validProd, Bool.and_eq_true] at hv
    obtain ⟨h1, h2⟩ := hw t (List.mem_cons_self ..) v hv.1 ha.1
    obtain ⟨i1, i2⟩ := tuple_vs_seq b ts vs (fun t' ht' => hw t' (List.mem_cons_of_mem _ ht')) hv.2 ha.2
    constructor
    · intro h
      simp only [encAll, encProd, h1 h]
      cases encode b v h with
      | error e => rfl
      | ok r => obtain ⟨b', h'⟩ := r; simp only [i1 h']
    · simp only [sumMap, sizeProd, h2, i2]

end Nop

namespace Nop

theorem valid_tag_one {t : Ty} {i : Int} {x : Val} (hv : valid (.opt t) (.tag i x) = true) : i = 1 := by
  by_cases h1 : i = 1
  · exact h1
  · exfalso; revert hv; rw [valid]; simp
    all_goals (intros; simp_all)

theorem kv_shape {f : Val → Val → Bool} {kv : Val}
    (h : (match kv with | .list [a, b] => f a b | _ => false) = true) : ∃ x y, kv = .list [x, y] ∧ f x y = true := by
  cases kv with
  | list l =>
    match l, h with
    | [x, y], h => exact ⟨x, y, rfl, h⟩
  | _ => simp at h

mutual
theorem wire : ∀ (a b : Ty), fungible a b = true → Wire a b
  | .wrap a, b, hf => by
    have hw := wire a b (by simpa only [fungible] using hf)
    intro v hva hvb
    simp only [valid] at hva
    obtain ⟨h1, h2⟩ := hw v hva hvb
    exact ⟨fun h => by simp only [encode]; exact h1 h, by simp only [size]; exact h2⟩
  | .bool, b, hf => by
    apply Wire.of_peel
    simp only [fungible] at hf
    generalize peel b = b' at *
    cases b' <;> simp at hf
    exact Wire.rfl' _
  | .int k n, b, hf => by
    apply Wire.of_peel
    simp only [fungible] at hf
    generalize peel b = b' at *
    cases b' <;> simp at hf
    obtain ⟨rfl, rfl⟩ := hf
    exact Wire.rfl' _
  | .float w, b, hf => by
    apply Wire.of_peel
    simp only [fungible] at hf
    generalize peel b = b' at *
    cases b' <;> simp at hf
    subst hf
    exact Wire.rfl' _
  | .str n cb, b, hf => by
    apply Wire.of_peel
    simp only [fungible] at hf
    generalize peel b = b' at *
    cases b' <;> simp at hf
    obtain ⟨rfl, rfl⟩ := hf
    exact Wire.rfl' _
  | .handle p ht k, b, hf => by
    apply Wire.of_peel
    simp only [fungible] at hf
    generalize peel b = b' at *
    cases b' <;> simp at hf
    obtain ⟨⟨rfl, rfl⟩, rfl⟩ := hf
    exact Wire.rfl' _
  | .seq fa ea, b, hf => by
    apply Wire.of_peel
    simp only [fungible] at hf
    generalize peel b = b' at *
    cases b' with
    | seq fb eb =>
      simp only [Bool.and_eq_true, beq_iff_eq] at hf
      obtain ⟨⟨_, hint⟩, hfe⟩ := hf
      intro v hva hvb
      cases v with
      | list vs =>
        have hoa := valid_seq_not_over fa ea vs hva
        have hob := valid_seq_not_over fb eb vs hvb
        by_cases hi : ea.integral = true
        · have hib : eb.integral = true := by rw [← hint]; exact hi
          have := integral_fungible_eq ea eb hi hib hfe
          subst this
          refine ⟨fun h => ?_, ?_⟩
          · simp only [encode, hoa, hob, hi, ↓reduceIte, Bool.false_eq_true]
          · simp only [size, hi, ↓reduceIte]
        · have hi' : ea.integral = false := by simpa using hi
          have hib : eb.integral = false := by rw [← hint]; exact hi'
          have hw := wire ea eb hfe
          simp only [valid, Bool.and_eq_true] at hva hvb
          have hae := (allP_iff _ _).1 hva.1.2
          have hbe := (allP_iff _ _).1 hvb.1.2
          refine ⟨fun h => ?_, ?_⟩
          · simp only [encode, hoa, hob, hi', hib, ↓reduceIte, Bool.false_eq_true]
            rw [encAll_congr vs h (fun x hx hh => (hw x (hae x hx) (hbe x hx)).1 hh)]
          · simp only [size, hi', hib, ↓reduceIte, Bool.false_eq_true]
            rw [sumMap_congr vs (fun x hx => (hw x (hae x hx) (hbe x hx)).2)]
      | _ => simp [valid] at hva
    | prod kb ts =>
      cases kb with
      | tuple =>
        simp only [Bool.and_eq_true, Bool.not_eq_true', List.all_eq_true] at hf
        obtain ⟨⟨_, hint⟩, hall⟩ := hf
        intro v hva hvb
        cases v with
        | list vs =>
          have hoa := valid_seq_not_over fa ea vs hva
          simp only [valid, Bool.and_eq_true] at hva hvb
          have hlen := validProd_length ts vs hvb
          obtain ⟨e1, e2⟩ := seq_vs_tuple ea ts vs (fun t ht => wire ea t (hall t ht)) hva.1.2 hvb
          refine ⟨fun h => ?_, ?_⟩
          · have hts : (PKind.tuple == PKind.struct) = false := by decide
            simp only [encode, hoa, hint, ↓reduceIte, Bool.false_eq_true, e1 h, hts]
            rw [hlen]
          · simp only [size, hint, ↓reduceIte, Bool.false_eq_true, e2, hlen]
        | _ => simp [valid] at hva
      | pair => simp at hf
      | struct => simp at hf
    | _ => simp at hf
  | .prod ka as, b, hf => by
    apply Wire.of_peel
    simp only [fungible] at hf
    generalize peel b = b' at *
    cases b' with
    | prod kb bs =>
      simp only [Bool.and_eq_true] at hf
      obtain ⟨hk, hl⟩ := hf
      intro v hva hvb
      cases v with
      | list vs =>
        simp only [valid] at hva hvb
        obtain ⟨e1, e2⟩ := wireL as bs hl vs hva hvb
        have hlen := fungL_length as bs hl
        have hpre : (if ka == PKind.struct then (0xb9 : UInt8) else 0xba) = (if kb == PKind.struct then 0xb9 else 0xba) := by
          cases ka <;> cases kb <;> simp [prodOk] at hk ⊢
        refine ⟨fun h => ?_, ?_⟩
        · simp only [encode, e1 h, hlen, hpre]
        · simp only [size, e2, hlen]
      | _ => simp [valid] at hva
    | seq fb eb =>
      simp only [Bool.and_eq_true, beq_iff_eq, Bool.not_eq_true'] at hf
      obtain ⟨⟨⟨hk, _⟩, hint⟩, hall⟩ := hf
      subst hk
      intro v hva hvb
      cases v with
      | list vs =>
        have hob := valid_seq_not_over fb eb vs hvb
        simp only [valid, Bool.and_eq_true] at hva hvb
        have hlen := validProd_length as vs hva
        obtain ⟨e1, e2⟩ := tuple_vs_seq eb as vs (wireAllR as eb hall) hva hvb.1.2
        refine ⟨fun h => ?_, ?_⟩
        · have hts : (PKind.tuple == PKind.struct) = false := by decide
          simp only [encode, hob, hint, ↓reduceIte, Bool.false_eq_true, e1 h, hts]
          rw [hlen]
        · simp only [size, hint, ↓reduceIte, Bool.false_eq_true, e2, hlen]
      | _ => simp [valid] at hva
    | _ => simp at hf
  | .map o k v, b, hf => by
    apply Wire.of_peel
    simp only [fungible] at hf
    generalize peel b = b' at *
    cases b' with
    | map o' k' v' =>
      simp only [Bool.and_eq_true] at hf
      have hk := wire k k' hf.1
      have hv := wire v v' hf.2
      intro val hva hvb
      cases val with
      | list kvs =>
        simp only [valid, Bool.and_eq_true] at hva hvb
        have ha := (allP_iff _ _).1 hva.1.1
        have hb := (allP_iff _ _).1 hvb.1.1
        have hpair : ∀ kv ∈ kvs, (∀ h, pairEnc (encode k) (encode v) kv h = pairEnc (encode k') (encode v') kv h) ∧
            size k (kvKey kv) + size v (kvVal kv) = size k' (kvKey kv) + size v' (kvVal kv) := by
          intro kv hkv
          obtain ⟨x, y, rfl, h1⟩ := kv_shape (ha kv hkv)
          have h2 := hb _ hkv
          simp only [Bool.and_eq_true] at h1 h2
          obtain ⟨a1, a2⟩ := hk x h1.1 h2.1
          obtain ⟨b1, b2⟩ := hv y h1.2 h2.2
          refine ⟨fun h => ?_, ?_⟩
          · simp only [pairEnc, kvKey, kvVal, Val.elems, List.headD, List.tail, a1 h]
            cases encode k' x h with
            | error e => rfl
            | ok r => obtain ⟨bb, hh⟩ := r; simp only [b1 hh]
          · simp only [kvKey, kvVal, Val.elems, List.headD, List.tail, a2, b2]
        refine ⟨fun h => ?_, ?_⟩
        · simp only [encode]
          rw [encAll_congr kvs h (fun kv hkv hh => (hpair kv hkv).1 hh)]
        · simp only [size]
          rw [sumMap_congr kvs (fun kv hkv => (hpair kv hkv).2)]
      | _ => simp [valid] at hva
    | _ => simp at hf
  | .opt t, b, hf => by
    apply Wire.of_peel
    simp only [fungible] at hf
    generalize peel b = b' at *
    cases b' with
    | opt t' =>
      have hw := wire t t' hf
      intro v hva hvb
      cases v with
      | nil => exact ⟨fun _ => rfl, rfl⟩
      | tag i x =>
        have hi := valid_tag_one hva
        subst hi
        simp only [valid] at hva hvb
        obtain ⟨h1, h2⟩ := hw x hva hvb
        exact ⟨fun h => by simp only [encode]; exact h1 h, by simp only [size]; exact h2⟩
      | _ => simp [valid] at hva
    | _ => simp at hf
  | .result en ek t, b, hf => by
    apply Wire.of_peel
    simp only [fungible] at hf
    generalize peel b = b' at *
    cases b' with
    | result en' ek' t' =>
      simp only [Bool.and_eq_true, beq_iff_eq] at hf
      obtain ⟨⟨rfl, rfl⟩, hft⟩ := hf
      have hw := wire t t' hft
      intro v hva hvb
      cases v with
      | tag i x =>
        by_cases h0 : i = 0
        · subst h0
          cases x with
          | int e => exact ⟨fun _ => by simp only [encode], by simp only [size]⟩
          | _ => simp [valid] at hva
        · have hi : i = 1 := by
            by_cases h1 : i = 1
            · exact h1
            · exfalso; revert hva; rw [valid]; simp
              all_goals (intros; simp_all)
          subst hi
          simp only [valid] at hva hvb
          obtain ⟨h1, h2⟩ := hw x hva hvb
          have hen : ∀ (tt : Ty) h, encode (.result en ek tt) (.tag 1 x) h = encode tt x h := by
            intro tt h; rw [encode]; intro e a; exact absurd a (by decide)
          have hsz : ∀ (tt : Ty), size (.result en ek tt) (.tag 1 x) = size tt x := by
            intro tt; rw [size]; intro e a; exact absurd a (by decide)
          exact ⟨fun h => by rw [hen, hen]; exact h1 h, by rw [hsz, hsz]; exact h2⟩
      | _ => simp [valid] at hva
    | _ => simp at hf
  | .variant as, b, hf => by
    apply Wire.of_peel
    simp only [fungible] at hf
    generalize peel b = b' at *
    cases b' with
    | variant bs =>
      intro v hva hvb
      cases v with
      | tag i x =>
        simp only [valid] at hva hvb
        by_cases hneg : i < 0
        · exact ⟨fun h => by simp only [encode, hneg, ↓reduceIte], by simp only [size, hneg, ↓reduceIte]⟩
        · have hne : (i == -1) = false := by
            have : i ≠ -1 := by omega
            simpa using this
          simp only [hne, Bool.false_eq_true, ↓reduceIte, Bool.and_eq_true] at hva hvb
          obtain ⟨e1, e2⟩ := wireAlt as bs hf i.toNat x hva.2 hvb.2
          exact ⟨fun h => by simp only [encode, hneg, ↓reduceIte, e1 h], by simp only [size, hneg, ↓reduceIte, e2]⟩
      | _ => simp [valid] at hva
    | _ => simp at hf
  | .ref t, b, hf => by
    apply Wire.of_peel
    simp only [fungible] at hf
    generalize peel b = b' at *
    cases b' with
    | ref t' =>
      have hw := wire t t' hf
      intro v hva hvb
      simp only [valid] at hva hvb
      obtain ⟨h1, h2⟩ := hw v hva hvb
      exact ⟨fun h => by simp only [encode]; exact h1 h, by simp only [size]; exact h2⟩
    | _ => simp at hf
  | .table hs ea ta, b, hf => by
    apply Wire.of_peel
    simp only [fungible] at hf
    generalize peel b = b' at *
    cases b' with
    | table hs' eb tb =>
      simp only [Bool.and_eq_true, beq_iff_eq] at hf
      obtain ⟨⟨rfl, rfl⟩, hl⟩ := hf
      intro v hva hvb
      cases v with
      | list vs =>
        simp only [valid] at hva hvb
        obtain ⟨e1, e2⟩ := wireEntries ta tb hl ea vs hva hvb
        exact ⟨fun h => by simp only [encode, e1 h], by simp only [size, e2]⟩
      | _ => simp [valid] at hva
    | _ => simp at hf
theorem wireL : ∀ (as bs : List Ty), fungL as bs = true → ∀ (vs : List Val), validProd as vs = true → validProd bs vs = true →
    (∀ h, encProd as vs h = encProd bs vs h) ∧ sizeProd as vs = sizeProd bs vs
  | [], [], _, [], _, _ => ⟨fun _ => rfl, rfl⟩
  | [], [], _, _ :: _, hv, _ => by simp [validProd] at hv
  | [], _ :: _, hf, _, _, _ => by simp [fungL] at hf
  | _ :: _, [], hf, _, _, _ => by simp [fungL] at hf
  | _ :: _, _ :: _, _, [], hv, _ => by simp [validProd] at hv
  | a :: as, b :: bs, hf, v :: vs, hva, hvb => by
    simp only [fungL, Bool.and_eq_true] at hf
    simp only [validProd, Bool.and_eq_true] at hva hvb
    obtain ⟨h1, h2⟩ := wire a b hf.1 v hva.1 hvb.1
    obtain ⟨i1, i2⟩ := wireL as bs hf.2 vs hva.2 hvb.2
    constructor
    · intro h
      simp only [encProd, h1 h]
      cases encode b v h with
      | error e => rfl
      | ok r => obtain ⟨bb, h'⟩ := r; simp only [i1 h']
    · simp only [sizeProd, h2, i2]
theorem wireAllR : ∀ (as : List Ty) (b : Ty), fungAllR as b = true → ∀ t ∈ as, Wire t b
  | [], _, _, t, ht => by cases ht
  | a :: as, b, hf, t, ht => by
    simp only [fungAllR, Bool.and_eq_true] at hf
    rcases List.mem_cons.1 ht with h | h
    · rw [h]; exact wire a b hf.1
    · exact wireAllR as b hf.2 t h
theorem wireAlt : ∀ (as bs : List Ty), fungL as bs = true → ∀ (i : Nat) (x : Val), validAlt as i x = true → validAlt bs i x = true →
    (∀ h, encAlt as i x h = encAlt bs i x h) ∧ sizeAlt as i x = sizeAlt bs i x
  | [], _, _, _, _, hv, _ => by simp [validAlt] at hv
  | _ :: _, [], hf, _, _, _, _ => by simp [fungL] at hf
  | a :: as, b :: bs, hf, 0, x, hva, hvb => by
    simp only [fungL, Bool.and_eq_true] at hf
    simp only [validAlt] at hva hvb
    obtain ⟨h1, h2⟩ := wire a b hf.1 x hva hvb
    exact ⟨fun h => by simp only [encAlt]; exact h1 h, by simp only [sizeAlt]; exact h2⟩
  | a :: as, b :: bs, hf, i + 1, x, hva, hvb => by
    simp only [fungL, Bool.and_eq_true] at hf
    simp only [validAlt] at hva hvb
    obtain ⟨h1, h2⟩ := wireAlt as bs hf.2 i x hva hvb
    exact ⟨fun h => by simp only [encAlt]; exact h1 h, by simp only [sizeAlt]; exact h2⟩
theorem wireEntries : ∀ (as bs : List Ty), fungL as bs = true → ∀ (es : List (Nat × Bool)) (vs : List Val),
    validEntries es as vs = true → validEntries es bs vs = true →
    (∀ h, encEntries es as vs h = encEntries es bs vs h) ∧ sizeEntries es as vs = sizeEntries es bs vs
  | [], [], _, [], [], _, _ => ⟨fun _ => rfl, rfl⟩
  | [], [], _, [], _ :: _, hv, _ => by simp [validEntries] at hv
  | [], [], _, _ :: _, _, hv, _ => by simp [validEntries] at hv
  | [], _ :: _, hf, _, _, _, _ => by simp [fungL] at hf
  | _ :: _, [], hf, _, _, _, _ => by simp [fungL] at hf
  | _ :: _, _ :: _, _, [], _, hv, _ => by simp [validEntries] at hv
  | _ :: _, _ :: _, _, _ :: _, [], hv, _ => by simp [validEntries] at hv
  | a :: as, b :: bs, hf, (eid, del) :: es, v :: vs, hva, hvb => by
    simp only [fungL, Bool.and_eq_true] at hf
    cases v with
    | nil =>
      simp only [validEntries, Bool.true_and] at hva hvb
      obtain ⟨i1, i2⟩ := wireEntries as bs hf.2 es vs hva hvb
      exact ⟨fun h => by simp only [encEntries]; exact i1 h, by simp only [sizeEntries, i2]⟩
    | tag i x =>
      have hi : i = 1 := by
        by_cases h1 : i = 1
        · exact h1
        · exfalso; revert hva; rw [validEntries]; simp
          all_goals (intros; simp_all)
      subst hi
      simp only [validEntries, Bool.and_eq_true, Bool.not_eq_true', decide_eq_true_eq] at hva hvb
      obtain ⟨h1, h2⟩ := wire a b hf.1 x hva.1.1.2 hvb.1.1.2
      obtain ⟨i1, i2⟩ := wireEntries as bs hf.2 es vs hva.2 hvb.2
      constructor
      · intro h
        simp only [encEntries, h1 h, h2]
        cases encode b x h with
        | error e => rfl
        | ok r =>
          obtain ⟨vb, h'⟩ := r
          simp only [i1 h']
      · simp only [sizeEntries, h2, i2]
    | int _ => simp [validEntries] at hva
    | list _ => simp [validEntries] at hva
end

end Nop
