import NopModel.Handle
namespace Nop.UH

/-- every resource is in exactly one place: owned by exactly one handle object, closed exactly
once, or released to the caller -/
structure Inv (w : W) : Prop where
  range : ∀ v x, w.vars v = some x → x = -1 ∨ (0 ≤ x ∧ x < (w.next : Int))
  unique : ∀ v u x, w.vars v = some x → w.vars u = some x → x ≠ -1 → v = u
  closedOk : ∀ x ∈ w.closed, 0 ≤ x ∧ x < (w.next : Int) ∧ (∀ v, w.vars v ≠ some x) ∧ x ∉ w.released
  closedNodup : w.closed.Nodup
  releasedOk : ∀ x ∈ w.released, 0 ≤ x ∧ x < (w.next : Int) ∧ (∀ v, w.vars v ≠ some x)
  releasedNodup : w.released.Nodup
  total : ∀ x : Int, 0 ≤ x → x < (w.next : Int) → (∃ v, w.vars v = some x) ∨ x ∈ w.closed ∨ x ∈ w.released

theorem init_inv : Inv W.init := by
  constructor <;> simp [W.init]

@[simp] theorem set_vars (w : W) (v : Nat) (x : Option Int) (u : Nat) :
    (w.set v x).vars u = if u = v then x else w.vars u := rfl
@[simp] theorem set_next (w : W) (v : Nat) (x : Option Int) : (w.set v x).next = w.next := rfl
@[simp] theorem set_closed (w : W) (v : Nat) (x : Option Int) : (w.set v x).closed = w.closed := rfl
@[simp] theorem set_released (w : W) (v : Nat) (x : Option Int) : (w.set v x).released = w.released := rfl
@[simp] theorem closeVal_vars (w : W) (y : Int) : (closeVal w y).vars = w.vars := by unfold closeVal; split <;> rfl
@[simp] theorem closeVal_next (w : W) (y : Int) : (closeVal w y).next = w.next := by unfold closeVal; split <;> rfl
@[simp] theorem closeVal_released (w : W) (y : Int) : (closeVal w y).released = w.released := by unfold closeVal; split <;> rfl
theorem closeVal_closed (w : W) (y : Int) : (closeVal w y).closed = if y = -1 then w.closed else w.closed ++ [y] := by
  unfold closeVal; split <;> rfl

/-- closing the value held by `v` and storing `z` there, where `z` is empty or a value that no
object will hold twice afterwards; `others` lists what the remaining slots become -/
theorem inv_close_set {w : W} (h : Inv w) {v : Nat} {y : Int} (hv : w.vars v = some y) :
    Inv ((closeVal w y).set v (some (-1))) := by
  by_cases hy : y = -1
  · subst hy
    have e : closeVal w (-1) = w := by simp [closeVal]
    rw [e]
    constructor
    · intro u x hu; simp at hu; split at hu
      · left; simpa using hu.symm
      · exact h.range u x hu
    · intro a b x ha hb hx; simp at ha hb
      split at ha
      · simp at ha; omega
      · split at hb
        · simp at hb; omega
        · exact h.unique a b x ha hb hx
    · intro x hx; obtain ⟨a, b, c, d⟩ := h.closedOk x hx
      refine ⟨a, b, ?_, d⟩
      intro u; simp; split
      · intro hh; simp at hh; omega
      · exact c u
    · exact h.closedNodup
    · intro x hx; obtain ⟨a, b, c⟩ := h.releasedOk x hx
      refine ⟨a, b, ?_⟩
      intro u; simp; split
      · intro hh; simp at hh; omega
      · exact c u
    · exact h.releasedNodup
    · intro x h0 h1
      rcases h.total x h0 h1 with ⟨u, hu⟩ | hc
      · left; refine ⟨u, ?_⟩; simp; split
        · rename_i huv; subst huv; rw [hv] at hu; simp at hu; omega
        · exact hu
      · right; exact hc
  · have hr := h.range v y hv
    have hy0 : 0 ≤ y ∧ y < (w.next : Int) := by omega
    constructor
    · intro u x hu; simp at hu; split at hu
      · left; simpa using hu.symm
      · simpa using h.range u x hu
    · intro a b x ha hb hx; simp at ha hb
      split at ha
      · simp at ha; omega
      · split at hb
        · simp at hb; omega
        · exact h.unique a b x ha hb hx
    · intro x hx
      simp [closeVal_closed, hy] at hx
      rcases hx with hx | hx
      · obtain ⟨a, b, c, d⟩ := h.closedOk x hx
        refine ⟨a, by simpa using b, ?_, by simpa using d⟩
        intro u; simp; split
        · intro hh; simp at hh; omega
        · exact c u
      · subst hx
        refine ⟨hy0.1, by simpa using hy0.2, ?_, ?_⟩
        · intro u; simp; split
          · intro hh; simp at hh; omega
          · rename_i hne; intro hu; exact hne (h.unique u v x hu hv hy)
        · simp; intro hrel; exact (h.releasedOk x hrel).2.2 v hv
    · simp only [set_closed, closeVal_closed, hy, ↓reduceIte]
      refine List.nodup_append.2 ⟨h.closedNodup, by simp, ?_⟩
      intro a ha b hb; simp at hb; subst hb
      intro hab; subst hab
      exact (h.closedOk a ha).2.2.1 v hv
    · intro x hx; simp at hx; obtain ⟨a, b, c⟩ := h.releasedOk x hx
      refine ⟨a, by simpa using b, ?_⟩
      intro u; simp; split
      · intro hh; simp at hh; omega
      · exact c u
    · simpa using h.releasedNodup
    · intro x h0 h1
      simp at h1
      simp only [set_vars, set_closed, set_released, closeVal_closed, closeVal_released, closeVal_vars, hy, ↓reduceIte]
      rcases h.total x h0 h1 with ⟨u, hu⟩ | hc | hc
      · by_cases huv : u = v
        · subst huv; rw [hv] at hu; simp at hu; subst hu
          right; left; simp
        · left; exact ⟨u, by simp [huv, hu]⟩
      · right; left; simp [hc]
      · right; right; exact hc

/-- an empty handle object may appear, disappear or be replaced by `none` freely -/
theorem inv_set_empty {w : W} (h : Inv w) {v : Nat} (hv : w.vars v = none ∨ w.vars v = some (-1)) (z : Option Int)
    (hz : z = none ∨ z = some (-1)) : Inv (w.set v z) := by
  have hne : ∀ x : Int, x ≠ -1 → w.vars v ≠ some x := by
    intro x hx hh; rcases hv with h1 | h1 <;> rw [h1] at hh <;> simp at hh; omega
  have hz' : ∀ x : Int, z = some x → x = -1 := by
    intro x hx; rcases hz with h1 | h1 <;> rw [h1] at hx <;> simp at hx; omega
  constructor
  · intro u x hu; simp at hu; split at hu
    · left; exact hz' x hu
    · exact h.range u x hu
  · intro a b x ha hb hx; simp at ha hb
    split at ha
    · exact absurd (hz' x ha) hx
    · split at hb
      · exact absurd (hz' x hb) hx
      · exact h.unique a b x ha hb hx
  · intro x hx; obtain ⟨a, b, c, d⟩ := h.closedOk x hx
    refine ⟨a, b, ?_, d⟩
    intro u; simp; split
    · intro hh; have := hz' x hh; omega
    · exact c u
  · exact h.closedNodup
  · intro x hx; obtain ⟨a, b, c⟩ := h.releasedOk x hx
    refine ⟨a, b, ?_⟩
    intro u; simp; split
    · intro hh; have := hz' x hh; omega
    · exact c u
  · exact h.releasedNodup
  · intro x h0 h1
    rcases h.total x h0 h1 with ⟨u, hu⟩ | hc
    · left; refine ⟨u, ?_⟩; simp; split
      · rename_i huv; subst huv; exact absurd hu (hne x (by omega))
      · exact hu
    · right; exact hc

/-- moving the value of `src` into the empty (or absent) slot `v` -/
theorem inv_move {w : W} (h : Inv w) {v src : Nat} {x : Int} (hne : v ≠ src)
    (hv : w.vars v = none ∨ w.vars v = some (-1)) (hs : w.vars src = some x) :
    Inv ((w.set v (some x)).set src (some (-1))) := by
  have hvne : ∀ y : Int, y ≠ -1 → w.vars v ≠ some y := by
    intro y hy hh; rcases hv with h1 | h1 <;> rw [h1] at hh <;> simp at hh; omega
  constructor
  · intro u y hu; simp at hu
    split at hu
    · left; simpa using hu.symm
    · split at hu
      · simp at hu; subst hu; exact h.range src _ hs
      · exact h.range u y hu
  · intro a b y ha hb hy
    simp only [set_vars] at ha hb
    by_cases has : a = src
    · simp [has] at ha; omega
    · by_cases hbs : b = src
      · simp [hbs] at hb; omega
      · by_cases hav : a = v
        · by_cases hbv : b = v
          · rw [hav, hbv]
          · simp [hav, hne] at ha; simp [hbs, hbv] at hb; subst ha
            exact absurd (h.unique b src _ hb hs hy) hbs
        · by_cases hbv : b = v
          · simp [hbv, hne] at hb; simp [has, hav] at ha; subst hb
            exact absurd (h.unique a src _ ha hs hy) has
          · simp [has, hav] at ha; simp [hbs, hbv] at hb; exact h.unique a b y ha hb hy
  · intro y hy; obtain ⟨a, b, c, d⟩ := h.closedOk y hy
    refine ⟨a, b, ?_, d⟩
    intro u; simp; split
    · intro hh; simp at hh; omega
    · split
      · intro hh; simp at hh; subst hh; exact c src hs
      · exact c u
  · exact h.closedNodup
  · intro y hy; obtain ⟨a, b, c⟩ := h.releasedOk y hy
    refine ⟨a, b, ?_⟩
    intro u; simp; split
    · intro hh; simp at hh; omega
    · split
      · intro hh; simp at hh; subst hh; exact c src hs
      · exact c u
  · exact h.releasedNodup
  · intro y h0 h1
    rcases h.total y h0 h1 with ⟨u, hu⟩ | hc
    · left
      by_cases hus : u = src
      · subst hus; rw [hs] at hu; simp at hu; subst hu
        exact ⟨v, by simp [hne]⟩
      · by_cases huv : u = v
        · subst huv; exact absurd hu (hvne y (by omega))
        · exact ⟨u, by simp [hus, huv, hu]⟩
    · right; exact hc

theorem step_inv {w : W} (h : Inv w) (op : Op) : Inv (step w op).1 := by
  cases op with
  | mkEmpty v =>
    simp only [step]
    cases hv : w.vars v with
    | none => exact inv_set_empty h (Or.inl hv) _ (Or.inr rfl)
    | some y => exact h
  | mkValue v =>
    simp only [step]
    cases hv : w.vars v with
    | some y => exact h
    | none =>
      simp only
      constructor
      · intro u x hu; simp at hu; split at hu
        · simp at hu; subst hu; right; simp; omega
        · rcases h.range u x hu with h1 | h1
          · exact Or.inl h1
          · right; simp; omega
      · intro a b x ha hb hx; simp at ha hb
        split at ha
        · split at hb
          · rename_i h1 h2; rw [h1, h2]
          · simp at ha; subst ha
            have := h.range b _ hb; omega
        · split at hb
          · simp at hb; subst hb
            have := h.range a _ ha; omega
          · exact h.unique a b x ha hb hx
      · intro x hx; simp at hx; obtain ⟨a, b, c, d⟩ := h.closedOk x hx
        refine ⟨a, by simp; omega, ?_, by simpa using d⟩
        intro u; simp; split
        · intro hh; simp at hh; omega
        · exact c u
      · simpa using h.closedNodup
      · intro x hx; simp at hx; obtain ⟨a, b, c⟩ := h.releasedOk x hx
        refine ⟨a, by simp; omega, ?_⟩
        intro u; simp; split
        · intro hh; simp at hh; omega
        · exact c u
      · simpa using h.releasedNodup
      · intro x h0 h1
        simp at h1
        simp only [set_vars, set_closed, set_released]
        by_cases hx : x = (w.next : Int)
        · left; exact ⟨v, by simp [hx]⟩
        · rcases h.total x h0 (by omega) with ⟨u, hu⟩ | hc
          · left
            refine ⟨u, ?_⟩
            have : u ≠ v := by intro huv; subst huv; rw [hv] at hu; cases hu
            simp [this, hu]
          · right; exact hc
  | moveCtor v src =>
    simp only [step]
    cases hv : w.vars v with
    | some y => cases w.vars src <;> exact h
    | none =>
      cases hs : w.vars src with
      | none => exact h
      | some x =>
        simp only
        split
        · exact h
        · rename_i hne; exact inv_move h hne (Or.inl hv) hs
  | moveAssign v src =>
    simp only [step]
    cases hv : w.vars v with
    | none => cases w.vars src <;> exact h
    | some y =>
      cases hs : w.vars src with
      | none => exact h
      | some x =>
        simp only
        split
        · exact h
        · rename_i hne
          have h1 := inv_close_set h hv
          have hv1 : ((closeVal w y).set v (some (-1))).vars v = some (-1) := by simp
          have hsv : src ≠ v := fun hh => hne hh.symm
          have hs1 : ((closeVal w y).set v (some (-1))).vars src = some x := by
            simp [hsv, hs]
          have h2 := inv_move h1 hne (Or.inr hv1) hs1
          have e : (((closeVal w y).set v (some (-1))).set v (some x)) = (closeVal w y).set v (some x) := by
            simp only [W.set]; congr 1; funext u; simp; split <;> rfl
          rw [e] at h2; exact h2
  | close v =>
    simp only [step]
    cases hv : w.vars v with
    | none => exact h
    | some y => exact inv_close_set h hv
  | release v =>
    simp only [step]
    cases hv : w.vars v with
    | none => exact h
    | some y =>
      simp only
      by_cases hy : y = -1
      · subst hy
        simp only [↓reduceIte]
        exact inv_set_empty h (Or.inr hv) _ (Or.inr rfl)
      · have hr := h.range v y hv
        have hy0 : 0 ≤ y ∧ y < (w.next : Int) := by omega
        simp only [hy, ↓reduceIte]
        constructor
        · intro u x hu; simp at hu; split at hu
          · left; simpa using hu.symm
          · exact h.range u x hu
        · intro a b x ha hb hx; simp at ha hb
          split at ha
          · simp at ha; omega
          · split at hb
            · simp at hb; omega
            · exact h.unique a b x ha hb hx
        · intro x hx; simp at hx; obtain ⟨a, b, c, d⟩ := h.closedOk x hx
          refine ⟨a, by simpa using b, ?_, ?_⟩
          · intro u; simp; split
            · intro hh; simp at hh; omega
            · exact c u
          · simp; refine ⟨d, ?_⟩
            intro hxy; subst hxy; exact c v hv
        · simpa using h.closedNodup
        · intro x hx; simp at hx
          rcases hx with hx | hx
          · obtain ⟨a, b, c⟩ := h.releasedOk x hx
            refine ⟨a, by simpa using b, ?_⟩
            intro u; simp; split
            · intro hh; simp at hh; omega
            · exact c u
          · subst hx
            refine ⟨hy0.1, by simpa using hy0.2, ?_⟩
            intro u; simp; split
            · intro hh; simp at hh; omega
            · rename_i hne; intro hu; exact hne (h.unique u v x hu hv hy)
        · simp only
          refine List.nodup_append.2 ⟨h.releasedNodup, by simp, ?_⟩
          intro a ha b hb; simp at hb; subst hb
          intro hab; subst hab
          exact (h.releasedOk a ha).2.2 v hv
        · intro x h0 h1
          simp at h1
          simp only [set_vars, set_closed]
          rcases h.total x h0 h1 with ⟨u, hu⟩ | hc | hc
          · by_cases huv : u = v
            · subst huv; rw [hv] at hu; simp at hu; subst hu
              right; right; simp
            · left; exact ⟨u, by simp [huv, hu]⟩
          · right; left; exact hc
          · right; right; simp [hc]
  | destroy v =>
    simp only [step]
    cases hv : w.vars v with
    | none => exact h
    | some y =>
      simp only
      have h1 := inv_close_set h hv
      have hv1 : ((closeVal w y).set v (some (-1))).vars v = some (-1) := by simp
      have h2 := inv_set_empty h1 (Or.inr hv1) none (Or.inl rfl)
      have e : (((closeVal w y).set v (some (-1))).set v none) = (closeVal w y).set v none := by
        simp only [W.set]; congr 1; funext u; simp; split <;> rfl
      rw [e] at h2; exact h2
  | get v =>
    simp only [step]
    cases w.vars v <;> exact h

theorem run_inv {w : W} (h : Inv w) (ops : List Op) : Inv (run w ops) := by
  unfold run
  induction ops generalizing w with
  | nil => exact h
  | cons op ops ih => exact ih (step_inv h op)

end Nop.UH
