import NopModel.Lemmas.Src
namespace Nop

theorem decInt_prefix {k : IntKind} {p : UInt8} {pl rest : Bytes} {s : Src}
    (hc : s.fault = .none) (hb : s.bytes = p :: (pl ++ rest))
    (hl : pl.length = intPayloadLen k p) (hm : intMatch k p = true)
    (hf : framesOk (1 + pl.length) s.frames = true) :
    decInt k s = (.ok (intOfPayload k p pl), s.adv (1 + pl.length)) := by
  unfold decInt
  rw [withPrefix_ok hc hb (framesOk_mono (by omega) hf) hm]
  unfold decIntPayload
  by_cases h0 : intPayloadLen k p = 0
  · have : pl = [] := List.eq_nil_of_length_eq_zero (by omega)
    subst this
    simp [h0]
  · have hne : (intPayloadLen k p == 0) = false := by simp [h0]
    simp only [hne, Bool.false_eq_true, ↓reduceIte]
    have hb' : (s.adv 1).bytes = pl ++ rest := by simp [hb]
    have hf' : framesOk (intPayloadLen k p) (s.adv 1).frames = true := by
      rw [← hl]; exact framesOk_adv hf
    rw [rRead_ok (by simpa using hc) (by rw [hb', ← hl]; simp) hf']
    simp only [hb', adv_adv, ← hl, List.take_left']

private theorem u8_toNat {x : Nat} (h : x < 256) : (UInt8.ofNat x).toNat = x := by
  simp [UInt8.toNat_ofNat']; omega

/-- shape of an unsigned encoding: prefix, payload, and what a reader of kind `k` sees -/
theorem encUnsigned_shape {k : IntKind} (hk : k.signed = false) {x : Nat}
    (hx : x < 2 ^ k.bits) :
    ∃ p pl, encUnsigned x = p :: pl ∧ pl.length = intPayloadLen k p ∧ intMatch k p = true ∧
      intOfPayload k p pl = (x : Int) := by
  unfold encUnsigned
  by_cases h1 : x < 128
  · refine ⟨UInt8.ofNat x, [], by simp [h1], ?_, ?_, ?_⟩
    · simp [intPayloadLen, hk, u8_toNat (show x < 256 by omega), (show x ≠ 128 by omega),
        (show x ≠ 129 by omega), (show x ≠ 130 by omega), (show x ≠ 131 by omega)]
    · simp [intMatch, hk, u8_toNat (show x < 256 by omega), h1]
    · simp [intOfPayload, intPayloadLen, hk, u8_toNat (show x < 256 by omega), (show x ≠ 128 by omega),
        (show x ≠ 129 by omega), (show x ≠ 130 by omega), (show x ≠ 131 by omega)]
  · by_cases h2 : x < 256
    · refine ⟨0x80, leBytes 1 x, by simp [h1, h2], ?_, ?_, ?_⟩
      · simp [intPayloadLen, hk]
      · simp [intMatch, hk]
      · simp [intOfPayload, intPayloadLen, hk, ofLE_leBytes]; omega
    · by_cases h3 : x < 65536
      · have hb : 2 ≤ k.bytes := by
          cases k <;> simp_all [IntKind.bits, IntKind.bytes, IntKind.signed] <;> omega
        refine ⟨0x81, leBytes 2 x, by simp [h1, h2, h3], ?_, ?_, ?_⟩
        · simp [intPayloadLen, hk]
        · simp [intMatch, hk, hb]
        · simp [intOfPayload, intPayloadLen, hk, ofLE_leBytes]; omega
      · by_cases h4 : x < 4294967296
        · have hb : 4 ≤ k.bytes := by
            cases k <;> simp_all [IntKind.bits, IntKind.bytes, IntKind.signed] <;> omega
          refine ⟨0x82, leBytes 4 x, by simp [h1, h2, h3, h4], ?_, ?_, ?_⟩
          · simp [intPayloadLen, hk]
          · simp [intMatch, hk, hb]
          · simp [intOfPayload, intPayloadLen, hk, ofLE_leBytes]; omega
        · have hb : 8 ≤ k.bytes := by
            cases k <;> simp_all [IntKind.bits, IntKind.bytes, IntKind.signed] <;> omega
          have hx8 : x < 18446744073709551616 := by
            cases k <;> simp_all [IntKind.bits, IntKind.bytes, IntKind.signed] <;> omega
          refine ⟨0x83, leBytes 8 x, by simp [h1, h2, h3, h4], ?_, ?_, ?_⟩
          · simp [intPayloadLen, hk]
          · simp [intMatch, hk, hb]
          · simp [intOfPayload, intPayloadLen, hk, ofLE_leBytes]; omega


theorem ofLE_leBytes_toU (n : Nat) (i : Int) : ofLE (leBytes n (toU (8 * n) i)) = toU (8 * n) i := by
  apply ofLE_leBytes_of_lt
  have := toU_lt (8 * n) i
  rw [Nat.pow_mul] at this
  simpa using this

private theorem toU8_cases (i : Int) (lo : -128 ≤ i) (hi : i ≤ 127) :
    toU 8 i = if i < 0 then (i + 256).toNat else i.toNat := by
  unfold toU
  split
  · have : i % ((2 ^ 8 : Nat) : Int) = i + 256 := by
      rw [← Int.add_emod_right i]
      exact Int.emod_eq_of_lt (by omega) (by omega)
    rw [this]
  · rw [Int.emod_eq_of_lt (by omega) (by omega)]

private theorem toS_toU_8 {i : Int} (lo : -128 ≤ i) (hi : i < 128) : toS 8 (toU 8 i) = i :=
  toS_toU (b := 8) (by decide) (by simp; omega) (by simp; omega)
private theorem toS_toU_16 {i : Int} (lo : -32768 ≤ i) (hi : i < 32768) : toS 16 (toU 16 i) = i :=
  toS_toU (b := 16) (by decide) (by simp; omega) (by simp; omega)
private theorem toS_toU_32 {i : Int} (lo : -2147483648 ≤ i) (hi : i < 2147483648) : toS 32 (toU 32 i) = i :=
  toS_toU (b := 32) (by decide) (by simp; omega) (by simp; omega)
private theorem toS_toU_64 {i : Int} (lo : -9223372036854775808 ≤ i) (hi : i < 9223372036854775808) :
    toS 64 (toU 64 i) = i :=
  toS_toU (b := 64) (by decide) (by simp; omega) (by simp; omega)

theorem encSigned_shape {k : IntKind} (hk : k.signed = true) {i : Int}
    (lo : -((2 ^ (k.bits - 1) : Nat) : Int) ≤ i) (hi : i < ((2 ^ (k.bits - 1) : Nat) : Int)) :
    ∃ p pl, encSigned i = p :: pl ∧ pl.length = intPayloadLen k p ∧ intMatch k p = true ∧
      intOfPayload k p pl = i := by
  unfold encSigned
  by_cases h1 : -64 ≤ i ∧ i ≤ 127
  · have hu := toU8_cases i (by omega) (by omega)
    have hlt : toU 8 i < 256 := toU_lt 8 i
    have hn : (UInt8.ofNat (toU 8 i)).toNat = toU 8 i := u8_toNat hlt
    have hr : toU 8 i < 128 ∨ 192 ≤ toU 8 i := by
      rw [hu]; split <;> omega
    refine ⟨UInt8.ofNat (toU 8 i), [], by rw [if_pos h1], ?_, ?_, ?_⟩
    · simp only [intPayloadLen, hk, hn, List.length_nil, ↓reduceIte]
      rcases hr with hr | hr <;>
        simp [(show toU 8 i ≠ 132 by omega), (show toU 8 i ≠ 133 by omega), (show toU 8 i ≠ 134 by omega),
          (show toU 8 i ≠ 135 by omega)]
    · simp only [intMatch, hk, hn, ↓reduceIte]
      rcases hr with hr | hr <;> simp [hr]
    · have h0 : intPayloadLen k (UInt8.ofNat (toU 8 i)) = 0 := by
        simp only [intPayloadLen, hk, hn, ↓reduceIte]
        rcases hr with hr | hr <;>
          simp [(show toU 8 i ≠ 132 by omega), (show toU 8 i ≠ 133 by omega), (show toU 8 i ≠ 134 by omega),
            (show toU 8 i ≠ 135 by omega)]
      simp only [intOfPayload, hk, h0, hn, ↓reduceIte, BEq.rfl]
      exact toS_toU_8 (by omega) (by omega)
  · by_cases h2 : -128 ≤ i ∧ i ≤ 127
    · refine ⟨0x84, leBytes 1 (toU 8 i), by rw [if_neg h1, if_pos h2], ?_, ?_, ?_⟩
      · simp [intPayloadLen, hk]
      · simp [intMatch, hk]
      · simp only [intOfPayload, intPayloadLen, hk, ↓reduceIte]
        have := ofLE_leBytes_toU 1 i
        simp only [Nat.mul_one] at this
        simp [this]
        exact toS_toU_8 (by omega) (by omega)
    · by_cases h3 : -32768 ≤ i ∧ i ≤ 32767
      · have hb : 2 ≤ k.bytes := by
          have d2 : i < -128 ∨ 127 < i := by omega
          clear h1 h2
          cases k <;> simp only [IntKind.bits, IntKind.bytes, IntKind.signed] at * <;> first | omega | simp at *
        refine ⟨0x85, leBytes 2 (toU 16 i), by rw [if_neg h1, if_neg h2, if_pos h3], ?_, ?_, ?_⟩
        · simp [intPayloadLen, hk]
        · simp [intMatch, hk, hb]
        · simp only [intOfPayload, intPayloadLen, hk, ↓reduceIte]
          have := ofLE_leBytes_toU 2 i
          simp [this]
          exact toS_toU_16 (by omega) (by omega)
      · by_cases h4 : -2147483648 ≤ i ∧ i ≤ 2147483647
        · have hb : 4 ≤ k.bytes := by
            have d3 : i < -32768 ∨ 32767 < i := by omega
            clear h1 h2 h3
            cases k <;> simp only [IntKind.bits, IntKind.bytes, IntKind.signed] at * <;> first | omega | simp at *
          refine ⟨0x86, leBytes 4 (toU 32 i), by rw [if_neg h1, if_neg h2, if_neg h3, if_pos h4], ?_, ?_, ?_⟩
          · simp [intPayloadLen, hk]
          · simp [intMatch, hk, hb]
          · simp only [intOfPayload, intPayloadLen, hk, ↓reduceIte]
            have := ofLE_leBytes_toU 4 i
            simp [this]
            exact toS_toU_32 (by omega) (by omega)
        · have d4 : i < -2147483648 ∨ 2147483647 < i := by omega
          have hb : 8 ≤ k.bytes := by
            clear h1 h2 h3 h4
            cases k <;> simp only [IntKind.bits, IntKind.bytes, IntKind.signed] at * <;> first | omega | simp at *
          have hr : -9223372036854775808 ≤ i ∧ i < 9223372036854775808 := by
            clear h1 h2 h3 h4
            cases k <;> simp only [IntKind.bits, IntKind.bytes, IntKind.signed] at * <;> first | omega | simp at *
          refine ⟨0x87, leBytes 8 (toU 64 i), by rw [if_neg h1, if_neg h2, if_neg h3, if_neg h4], ?_, ?_, ?_⟩
          · simp [intPayloadLen, hk]
          · simp [intMatch, hk, hb]
          · simp only [intOfPayload, intPayloadLen, hk, ↓reduceIte]
            have := ofLE_leBytes_toU 8 i
            simp [this]
            exact toS_toU_64 (by omega) (by omega)

theorem encInt_shape {k : IntKind} {i : Int} (h : k.inRange i = true) :
    ∃ p pl, encInt k i = p :: pl ∧ pl.length = intPayloadLen k p ∧ intMatch k p = true ∧
      intOfPayload k p pl = i := by
  unfold encInt
  cases hk : k.signed
  · simp only [Bool.false_eq_true, ↓reduceIte]
    have hr : 0 ≤ i ∧ i < ((2 ^ k.bits : Nat) : Int) := by
      simp only [IntKind.inRange, IntKind.minVal, IntKind.maxVal, hk, Bool.false_eq_true, ↓reduceIte,
        Bool.and_eq_true, decide_eq_true_eq] at h
      have : 0 < 2 ^ k.bits := Nat.two_pow_pos _
      omega
    obtain ⟨p, pl, h1, h2, h3, h4⟩ := encUnsigned_shape hk (x := i.toNat) (by omega)
    exact ⟨p, pl, h1, h2, h3, by rw [h4]; omega⟩
  · simp only [↓reduceIte]
    have hr : -((2 ^ (k.bits - 1) : Nat) : Int) ≤ i ∧ i < ((2 ^ (k.bits - 1) : Nat) : Int) := by
      simp only [IntKind.inRange, IntKind.minVal, IntKind.maxVal, hk, ↓reduceIte,
        Bool.and_eq_true, decide_eq_true_eq] at h
      omega
    exact encSigned_shape hk hr.1 hr.2

/-- L1: an integer written as kind `k` is read back as kind `k`, consuming exactly its bytes. -/
theorem decInt_encInt {k : IntKind} {i : Int} {s : Src} {rest : Bytes}
    (hr : k.inRange i = true) (hc : s.fault = .none) (hb : s.bytes = encInt k i ++ rest)
    (hf : framesOk (encInt k i).length s.frames = true) :
    decInt k s = (.ok i, s.adv (encInt k i).length) := by
  obtain ⟨p, pl, h1, h2, h3, h4⟩ := encInt_shape hr
  rw [h1] at hb hf ⊢
  have := decInt_prefix (rest := rest) hc (by simpa using hb) h2 h3 (by simpa [Nat.add_comm] using hf)
  rw [this, h4]
  simp [Nat.add_comm]

theorem encInt_length_pos (k : IntKind) (i : Int) : 0 < (encInt k i).length := by
  unfold encInt encSigned encUnsigned
  repeat' split
  all_goals simp

end Nop
