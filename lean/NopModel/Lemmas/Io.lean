import NopModel.Io
namespace Nop.Io

theorem W_pos : 0 < W := Nat.two_pow_pos 64

theorem wsub_eq {a b : Nat} (h : b ≤ a) (_ha : a < W) : wsub a b = a - b := by
  simp [wsub, h]

theorem wadd_eq {a b : Nat} (h : a + b < W) : wadd a b = a + b := by
  simp [wadd, h]

/-- the definitions are `std::size_t` arithmetic: subtraction and addition modulo 2^64 -/
theorem wsub_mod {a b : Nat} (ha : a < W) (hb : b < W) : wsub a b = (a + W - b) % W := by
  unfold wsub
  split
  · have : a + W - b = (a - b) + W := by omega
    rw [this, Nat.add_mod_right, Nat.mod_eq_of_lt (by omega)]
  · rw [Nat.mod_eq_of_lt (by omega)]

theorem wadd_mod {a b : Nat} (ha : a < W) (hb : b < W) : wadd a b = (a + b) % W := by
  unfold wadd
  split
  · rw [Nat.mod_eq_of_lt (by assumption)]
  · have : a + b = (a + b - W) + W := by omega
    rw [this, Nat.add_mod_right, Nat.mod_eq_of_lt (by omega)]
    omega

/-- representation invariant of a bounded reader / writer -/
def Bounded.Inv {σ} (s : Bounded σ) : Prop := s.index ≤ s.size ∧ s.size < W

/-- remaining budget (as a natural number) -/
def Bounded.rem {σ} (s : Bounded σ) : Nat := s.size - s.index

theorem rem_eq {σ} {s : Bounded σ} (h : s.Inv) : wsub s.size s.index = s.rem := wsub_eq h.1 h.2

/-! ### BoundedReader -/
section reader
variable {σ : Type} (r : Rd σ)

/-- a call that would cross the limit fails with ReadLimitReached and touches nothing -/
theorem bounded_read_cross {s : Bounded σ} (h : s.Inv) {n : Nat} (hn : s.rem < n) :
    (boundedRd r).read n s = (.error .readLimitReached, s) := by
  simp only [boundedRd, rem_eq h, gt_iff_lt, hn, ↓reduceIte]
theorem bounded_skip_cross {s : Bounded σ} (h : s.Inv) {n : Nat} (hn : s.rem < n) :
    (boundedRd r).skip n s = (some .readLimitReached, s) := by
  simp only [boundedRd, rem_eq h, gt_iff_lt, hn, ↓reduceIte]
theorem bounded_ensure_cross {s : Bounded σ} (h : s.Inv) {n : Nat} (hn : s.rem < n) :
    (boundedRd r).ensure n s = (some .readLimitReached, s) := by
  simp only [boundedRd, rem_eq h, hn, ↓reduceIte]

/-- within the limit a call behaves exactly like the wrapped reader and is charged only on success -/
theorem bounded_read_within {s : Bounded σ} (h : s.Inv) {n : Nat} (hn : n ≤ s.rem) :
    (boundedRd r).read n s =
      match r.read n s.inner with
      | (.ok bs, i) => (.ok bs, { s with inner := i, index := s.index + n })
      | (.error e, i) => (.error e, { s with inner := i }) := by
  have hlt : ¬ n > s.rem := by omega
  have hw : wadd s.index n = s.index + n := wadd_eq (by unfold Bounded.rem Bounded.Inv at *; omega)
  simp only [boundedRd, rem_eq h, hlt, ↓reduceIte, hw]
  rcases r.read n s.inner with ⟨a | a, i⟩ <;> rfl
theorem bounded_skip_within {s : Bounded σ} (h : s.Inv) {n : Nat} (hn : n ≤ s.rem) :
    (boundedRd r).skip n s =
      match r.skip n s.inner with
      | (none, i) => (none, { s with inner := i, index := s.index + n })
      | (some e, i) => (some e, { s with inner := i }) := by
  have hlt : ¬ n > s.rem := by omega
  have hw : wadd s.index n = s.index + n := wadd_eq (by unfold Bounded.rem Bounded.Inv at *; omega)
  simp only [boundedRd, rem_eq h, hlt, ↓reduceIte, hw]
  rcases r.skip n s.inner with ⟨a | a, i⟩ <;> rfl
theorem bounded_ensure_within {s : Bounded σ} (h : s.Inv) {n : Nat} (hn : n ≤ s.rem) :
    (boundedRd r).ensure n s = ((r.ensure n s.inner).1, { s with inner := (r.ensure n s.inner).2 }) := by
  have hlt : ¬ s.rem < n := by omega
  simp only [boundedRd, rem_eq h, hlt, ↓reduceIte]

/-- ReadPadding skips exactly the remaining budget on the wrapped reader and ends at the limit -/
theorem readPadding_spec {s : Bounded σ} (h : s.Inv) :
    readPadding r s =
      match r.skip s.rem s.inner with
      | (none, i) => (none, { s with inner := i, index := s.size })
      | (some e, i) => (some e, { s with inner := i }) := by
  have hw : wadd s.index s.rem = s.size := by
    rw [wadd_eq (by unfold Bounded.rem Bounded.Inv at *; omega)]
    unfold Bounded.rem Bounded.Inv at *; omega
  simp only [readPadding, rem_eq h, hw]
  rcases r.skip s.rem s.inner with ⟨a | a, i⟩ <;> rfl

/-- operations on a bounded reader -/
inductive BOp | ensure (n : Nat) | read (n : Nat) | skip (n : Nat) | pad
  deriving Repr

def BOp.sizeOk : BOp → Prop
  | .ensure n | .read n | .skip n => n < W
  | .pad => True

def bstep (s : Bounded σ) : BOp → Bounded σ
  | .ensure n => ((boundedRd r).ensure n s).2
  | .read n => ((boundedRd r).read n s).2
  | .skip n => ((boundedRd r).skip n s).2
  | .pad => (readPadding r s).2

theorem bstep_ensure (s : Bounded σ) (n : Nat) : bstep r s (.ensure n) = ((boundedRd r).ensure n s).2 := rfl
theorem bstep_read (s : Bounded σ) (n : Nat) : bstep r s (.read n) = ((boundedRd r).read n s).2 := rfl
theorem bstep_skip (s : Bounded σ) (n : Nat) : bstep r s (.skip n) = ((boundedRd r).skip n s).2 := rfl
theorem bstep_pad (s : Bounded σ) : bstep r s .pad = (readPadding r s).2 := rfl

/-- the limit never changes, the index only grows, and never beyond the limit -/
theorem bstep_fields {s : Bounded σ} (h : s.Inv) (op : BOp) :
    (bstep r s op).size = s.size ∧ s.index ≤ (bstep r s op).index ∧ (bstep r s op).index ≤ s.size := by
  have hi : s.index ≤ s.size := h.1
  cases op with
  | ensure n =>
    by_cases hn : n ≤ s.rem
    · rw [bstep_ensure, bounded_ensure_within r h hn]
      exact ⟨rfl, Nat.le_refl _, hi⟩
    · rw [bstep_ensure, bounded_ensure_cross r h (Nat.lt_of_not_le hn)]
      exact ⟨rfl, Nat.le_refl _, hi⟩
  | read n =>
    by_cases hn : n ≤ s.rem
    · rw [bstep_read, bounded_read_within r h hn]
      rcases r.read n s.inner with ⟨a | a, i⟩
      · exact ⟨rfl, Nat.le_refl _, hi⟩
      · refine ⟨rfl, Nat.le_add_right _ _, ?_⟩
        show s.index + n ≤ s.size
        unfold Bounded.rem at hn; omega
    · rw [bstep_read, bounded_read_cross r h (Nat.lt_of_not_le hn)]
      exact ⟨rfl, Nat.le_refl _, hi⟩
  | skip n =>
    by_cases hn : n ≤ s.rem
    · rw [bstep_skip, bounded_skip_within r h hn]
      rcases r.skip n s.inner with ⟨a | a, i⟩
      · refine ⟨rfl, Nat.le_add_right _ _, ?_⟩
        show s.index + n ≤ s.size
        unfold Bounded.rem at hn; omega
      · exact ⟨rfl, Nat.le_refl _, hi⟩
    · rw [bstep_skip, bounded_skip_cross r h (Nat.lt_of_not_le hn)]
      exact ⟨rfl, Nat.le_refl _, hi⟩
  | pad =>
    rw [bstep_pad, readPadding_spec r h]
    rcases r.skip s.rem s.inner with ⟨a | a, i⟩
    · exact ⟨rfl, hi, Nat.le_refl _⟩
    · exact ⟨rfl, Nat.le_refl _, hi⟩

theorem bstep_inv {s : Bounded σ} (h : s.Inv) (op : BOp) : (bstep r s op).Inv := by
  obtain ⟨h1, _, h3⟩ := bstep_fields r h op
  exact ⟨by rw [h1]; exact h3, by rw [h1]; exact h.2⟩

theorem bsteps_inv {s : Bounded σ} (h : s.Inv) (ops : List BOp) : (ops.foldl (bstep r) s).Inv := by
  induction ops generalizing s with
  | nil => exact h
  | cons op ops ih => exact ih (bstep_inv r h op)

end reader

/-! ### confinement, measured on a wrapped reader that logs what it is asked to do -/

/-- bytes the wrapped (scripted) reader was made to consume = the bounded reader's index -/
def Confined (c0 : Nat) (s : Bounded Scripted) : Prop :=
  s.Inv ∧ consumed s.inner.log = c0 + s.index

theorem consumed_append (l1 l2 : List (Call × Bool)) : consumed (l1 ++ l2) = consumed l1 + consumed l2 := by
  induction l1 with
  | nil => simp [consumed]
  | cons x l1 ih =>
    obtain ⟨c, b⟩ := x
    cases c <;> cases b <;> simp [consumed, ih] <;> omega

theorem consumed_snoc (l : List (Call × Bool)) (c : Call) (b : Bool) :
    consumed (l ++ [(c, b)]) = consumed l + consumed [(c, b)] := consumed_append l _

theorem bstep_confined {c0 : Nat} {s : Bounded Scripted} (h : Confined c0 s) (op : BOp) :
    Confined c0 (bstep scriptedRd s op) := by
  refine ⟨bstep_inv scriptedRd h.1 op, ?_⟩
  obtain ⟨hi, hc⟩ := h
  have hrem : s.index + s.rem = s.size := by unfold Bounded.rem Bounded.Inv at *; omega
  cases op with
  | ensure n =>
    by_cases hn : n ≤ s.rem
    · rw [bstep_ensure, bounded_ensure_within scriptedRd hi hn]
      show consumed (scriptedRd.ensure n s.inner).2.log = c0 + s.index
      simp only [scriptedRd]
      rcases s.inner.answer with ⟨a, rest⟩
      show consumed (s.inner.log ++ [(Call.ensure n, a.isNone)]) = c0 + s.index
      rw [consumed_snoc, hc]
      cases a <;> simp [consumed]
    · rw [bstep_ensure, bounded_ensure_cross scriptedRd hi (Nat.lt_of_not_le hn)]; exact hc
  | read n =>
    by_cases hn : n ≤ s.rem
    · rw [bstep_read, bounded_read_within scriptedRd hi hn]
      simp only [scriptedRd]
      rcases s.inner.answer with ⟨a | e, rest⟩
      · show consumed (s.inner.log ++ [(Call.read n, true)]) = c0 + (s.index + n)
        rw [consumed_snoc, hc]; simp [consumed]; omega
      · show consumed (s.inner.log ++ [(Call.read n, false)]) = c0 + s.index
        rw [consumed_snoc, hc]; simp [consumed]
    · rw [bstep_read, bounded_read_cross scriptedRd hi (Nat.lt_of_not_le hn)]; exact hc
  | skip n =>
    by_cases hn : n ≤ s.rem
    · rw [bstep_skip, bounded_skip_within scriptedRd hi hn]
      simp only [scriptedRd]
      rcases s.inner.answer with ⟨a | e, rest⟩
      · show consumed (s.inner.log ++ [(Call.skip n, true)]) = c0 + (s.index + n)
        rw [consumed_snoc, hc]; simp [consumed]; omega
      · show consumed (s.inner.log ++ [(Call.skip n, false)]) = c0 + s.index
        rw [consumed_snoc, hc]; simp [consumed]
    · rw [bstep_skip, bounded_skip_cross scriptedRd hi (Nat.lt_of_not_le hn)]; exact hc
  | pad =>
    rw [bstep_pad, readPadding_spec scriptedRd hi]
    simp only [scriptedRd]
    rcases s.inner.answer with ⟨a | e, rest⟩
    · show consumed (s.inner.log ++ [(Call.skip s.rem, true)]) = c0 + s.size
      rw [consumed_snoc, hc]; simp [consumed]; omega
    · show consumed (s.inner.log ++ [(Call.skip s.rem, false)]) = c0 + s.index
      rw [consumed_snoc, hc]; simp [consumed]

theorem bsteps_confined {c0 : Nat} {s : Bounded Scripted} (h : Confined c0 s) (ops : List BOp) :
    Confined c0 (ops.foldl (bstep scriptedRd) s) := by
  induction ops generalizing s with
  | nil => exact h
  | cons op ops ih => exact ih (bstep_confined h op)

end Nop.Io

namespace Nop.Io

/-! ### BoundedWriter -/
section writer
variable {σ : Type} (w : Wr σ)

theorem boundedW_prepare_cross {s : Bounded σ} (h : s.Inv) {n : Nat} (hn : s.rem < n) :
    (boundedWr w).prepare n s = (some .writeLimitReached, s) := by
  simp only [boundedWr, rem_eq h, gt_iff_lt, hn, ↓reduceIte]
theorem boundedW_write_cross {s : Bounded σ} (h : s.Inv) {bs : Bytes} (hn : s.rem < bs.length) :
    (boundedWr w).write bs s = (some .writeLimitReached, s) := by
  simp only [boundedWr, rem_eq h, gt_iff_lt, hn, ↓reduceIte]
theorem boundedW_skip_cross {s : Bounded σ} (h : s.Inv) {n : Nat} (pad : UInt8) (hn : s.rem < n) :
    (boundedWr w).skip n pad s = (some .writeLimitReached, s) := by
  simp only [boundedWr, rem_eq h, gt_iff_lt, hn, ↓reduceIte]

theorem boundedW_prepare_within {s : Bounded σ} (h : s.Inv) {n : Nat} (hn : n ≤ s.rem) :
    (boundedWr w).prepare n s = ((w.prepare n s.inner).1, { s with inner := (w.prepare n s.inner).2 }) := by
  have hlt : ¬ n > s.rem := by omega
  simp only [boundedWr, rem_eq h, hlt, ↓reduceIte]
theorem boundedW_write_within {s : Bounded σ} (h : s.Inv) {bs : Bytes} (hn : bs.length ≤ s.rem) :
    (boundedWr w).write bs s =
      match w.write bs s.inner with
      | (none, i) => (none, { s with inner := i, index := s.index + bs.length })
      | (some e, i) => (some e, { s with inner := i }) := by
  have hlt : ¬ bs.length > s.rem := by omega
  have hw : wadd s.index bs.length = s.index + bs.length :=
    wadd_eq (by unfold Bounded.rem Bounded.Inv at *; omega)
  simp only [boundedWr, rem_eq h, hlt, ↓reduceIte, hw]
  rcases w.write bs s.inner with ⟨a | a, i⟩ <;> rfl
theorem boundedW_skip_within {s : Bounded σ} (h : s.Inv) {n : Nat} (pad : UInt8) (hn : n ≤ s.rem) :
    (boundedWr w).skip n pad s =
      match w.skip n pad s.inner with
      | (none, i) => (none, { s with inner := i, index := s.index + n })
      | (some e, i) => (some e, { s with inner := i }) := by
  have hlt : ¬ n > s.rem := by omega
  have hw : wadd s.index n = s.index + n := wadd_eq (by unfold Bounded.rem Bounded.Inv at *; omega)
  simp only [boundedWr, rem_eq h, hlt, ↓reduceIte, hw]
  rcases w.skip n pad s.inner with ⟨a | a, i⟩ <;> rfl

/-- WritePadding fills exactly the remaining budget with the requested byte and ends at the limit -/
theorem writePadding_spec {s : Bounded σ} (h : s.Inv) (pad : UInt8) :
    writePadding w pad s =
      match w.skip s.rem pad s.inner with
      | (none, i) => (none, { s with inner := i, index := s.size })
      | (some e, i) => (some e, { s with inner := i }) := by
  have hw : wadd s.index s.rem = s.size := by
    rw [wadd_eq (by unfold Bounded.rem Bounded.Inv at *; omega)]
    unfold Bounded.rem Bounded.Inv at *; omega
  simp only [writePadding, rem_eq h, hw]
  rcases w.skip s.rem pad s.inner with ⟨a | a, i⟩ <;> rfl

inductive WOp | prepare (n : Nat) | write (bs : Bytes) | skip (n : Nat) (pad : UInt8) | pad (pad : UInt8)

def wstep (s : Bounded σ) : WOp → Bounded σ
  | .prepare n => ((boundedWr w).prepare n s).2
  | .write bs => ((boundedWr w).write bs s).2
  | .skip n p => ((boundedWr w).skip n p s).2
  | .pad p => (writePadding w p s).2

theorem wstep_prepare (s : Bounded σ) (n : Nat) : wstep w s (.prepare n) = ((boundedWr w).prepare n s).2 := rfl
theorem wstep_write (s : Bounded σ) (bs : Bytes) : wstep w s (.write bs) = ((boundedWr w).write bs s).2 := rfl
theorem wstep_skip (s : Bounded σ) (n : Nat) (p : UInt8) : wstep w s (.skip n p) = ((boundedWr w).skip n p s).2 := rfl
theorem wstep_pad (s : Bounded σ) (p : UInt8) : wstep w s (.pad p) = (writePadding w p s).2 := rfl

theorem wstep_fields {s : Bounded σ} (h : s.Inv) (op : WOp) :
    (wstep w s op).size = s.size ∧ s.index ≤ (wstep w s op).index ∧ (wstep w s op).index ≤ s.size := by
  have hi : s.index ≤ s.size := h.1
  cases op with
  | prepare n =>
    by_cases hn : n ≤ s.rem
    · rw [wstep_prepare, boundedW_prepare_within w h hn]
      exact ⟨rfl, Nat.le_refl _, hi⟩
    · rw [wstep_prepare, boundedW_prepare_cross w h (Nat.lt_of_not_le hn)]
      exact ⟨rfl, Nat.le_refl _, hi⟩
  | write bs =>
    by_cases hn : bs.length ≤ s.rem
    · rw [wstep_write, boundedW_write_within w h hn]
      rcases w.write bs s.inner with ⟨a | a, i⟩
      · refine ⟨rfl, Nat.le_add_right _ _, ?_⟩
        show s.index + bs.length ≤ s.size
        unfold Bounded.rem at hn; omega
      · exact ⟨rfl, Nat.le_refl _, hi⟩
    · rw [wstep_write, boundedW_write_cross w h (Nat.lt_of_not_le hn)]
      exact ⟨rfl, Nat.le_refl _, hi⟩
  | skip n p =>
    by_cases hn : n ≤ s.rem
    · rw [wstep_skip, boundedW_skip_within w h p hn]
      rcases w.skip n p s.inner with ⟨a | a, i⟩
      · refine ⟨rfl, Nat.le_add_right _ _, ?_⟩
        show s.index + n ≤ s.size
        unfold Bounded.rem at hn; omega
      · exact ⟨rfl, Nat.le_refl _, hi⟩
    · rw [wstep_skip, boundedW_skip_cross w h p (Nat.lt_of_not_le hn)]
      exact ⟨rfl, Nat.le_refl _, hi⟩
  | pad p =>
    rw [wstep_pad, writePadding_spec w h]
    rcases w.skip s.rem p s.inner with ⟨a | a, i⟩
    · exact ⟨rfl, hi, Nat.le_refl _⟩
    · exact ⟨rfl, Nat.le_refl _, hi⟩

theorem wstep_inv {s : Bounded σ} (h : s.Inv) (op : WOp) : (wstep w s op).Inv := by
  obtain ⟨h1, _, h3⟩ := wstep_fields w h op
  exact ⟨by rw [h1]; exact h3, by rw [h1]; exact h.2⟩

theorem wsteps_inv {s : Bounded σ} (h : s.Inv) (ops : List WOp) : (ops.foldl (wstep w) s).Inv := by
  induction ops generalizing s with
  | nil => exact h
  | cons op ops ih => exact ih (wstep_inv w h op)

end writer

/-- bytes the wrapped (scripted) writer accepted = the bounded writer's index -/
theorem wstep_confined {c0 : Nat} {s : Bounded Scripted} (h : Confined c0 s) (op : WOp) :
    Confined c0 (wstep scriptedWr s op) := by
  refine ⟨wstep_inv scriptedWr h.1 op, ?_⟩
  obtain ⟨hi, hc⟩ := h
  have hrem : s.index + s.rem = s.size := by unfold Bounded.rem Bounded.Inv at *; omega
  cases op with
  | prepare n =>
    by_cases hn : n ≤ s.rem
    · show consumed ((boundedWr scriptedWr).prepare n s).2.inner.log = c0 + ((boundedWr scriptedWr).prepare n s).2.index
      rw [boundedW_prepare_within scriptedWr hi hn]
      show consumed (scriptedWr.prepare n s.inner).2.log = c0 + s.index
      simp only [scriptedWr]
      rcases s.inner.answer with ⟨a, rest⟩
      show consumed (s.inner.log ++ [(Call.prepare n, a.isNone)]) = c0 + s.index
      rw [consumed_snoc, hc]
      cases a <;> simp [consumed]
    · show consumed ((boundedWr scriptedWr).prepare n s).2.inner.log = c0 + ((boundedWr scriptedWr).prepare n s).2.index
      rw [boundedW_prepare_cross scriptedWr hi (Nat.lt_of_not_le hn)]; exact hc
  | write bs =>
    by_cases hn : bs.length ≤ s.rem
    · show consumed ((boundedWr scriptedWr).write bs s).2.inner.log = c0 + ((boundedWr scriptedWr).write bs s).2.index
      rw [boundedW_write_within scriptedWr hi hn]
      simp only [scriptedWr]
      rcases s.inner.answer with ⟨a | e, rest⟩
      · show consumed (s.inner.log ++ [(Call.write bs.length, true)]) = c0 + (s.index + bs.length)
        rw [consumed_snoc, hc]; simp [consumed]; omega
      · show consumed (s.inner.log ++ [(Call.write bs.length, false)]) = c0 + s.index
        rw [consumed_snoc, hc]; simp [consumed]
    · show consumed ((boundedWr scriptedWr).write bs s).2.inner.log = c0 + ((boundedWr scriptedWr).write bs s).2.index
      rw [boundedW_write_cross scriptedWr hi (Nat.lt_of_not_le hn)]; exact hc
  | skip n p =>
    by_cases hn : n ≤ s.rem
    · show consumed ((boundedWr scriptedWr).skip n p s).2.inner.log = c0 + ((boundedWr scriptedWr).skip n p s).2.index
      rw [boundedW_skip_within scriptedWr hi p hn]
      simp only [scriptedWr]
      rcases s.inner.answer with ⟨a | e, rest⟩
      · show consumed (s.inner.log ++ [(Call.skip n, true)]) = c0 + (s.index + n)
        rw [consumed_snoc, hc]; simp [consumed]; omega
      · show consumed (s.inner.log ++ [(Call.skip n, false)]) = c0 + s.index
        rw [consumed_snoc, hc]; simp [consumed]
    · show consumed ((boundedWr scriptedWr).skip n p s).2.inner.log = c0 + ((boundedWr scriptedWr).skip n p s).2.index
      rw [boundedW_skip_cross scriptedWr hi p (Nat.lt_of_not_le hn)]; exact hc
  | pad p =>
    show consumed (writePadding scriptedWr p s).2.inner.log = c0 + (writePadding scriptedWr p s).2.index
    rw [writePadding_spec scriptedWr hi]
    simp only [scriptedWr]
    rcases s.inner.answer with ⟨a | e, rest⟩
    · show consumed (s.inner.log ++ [(Call.skip s.rem, true)]) = c0 + s.size
      rw [consumed_snoc, hc]; simp [consumed]; omega
    · show consumed (s.inner.log ++ [(Call.skip s.rem, false)]) = c0 + s.index
      rw [consumed_snoc, hc]; simp [consumed]

theorem wsteps_confined {c0 : Nat} {s : Bounded Scripted} (h : Confined c0 s) (ops : List WOp) :
    Confined c0 (ops.foldl (wstep scriptedWr) s) := by
  induction ops generalizing s with
  | nil => exact h
  | cons op ops ih => exact ih (wstep_confined h op)

end Nop.Io
