import NopModel.Lemmas.Io
import NopModel.Lemmas.Wire
/-! C17: every shipped reader refines one byte-source contract, every writer one byte-sink
contract. -/
namespace Nop.Io

/-- the byte-source contract: the state is just the bytes that remain -/
def specRead (n : Nat) (rem : Bytes) : Option (Bytes × Bytes) :=
  if n ≤ rem.length then some (rem.take n, rem.drop n) else none

/-! ### BufferReader / PedanticBufferReader -/
def BufR.Inv (s : BufR) : Prop := s.index ≤ s.data.length ∧ s.data.length < W
def BufR.abs (s : BufR) : Bytes := s.data.drop s.index

theorem BufR.abs_length {s : BufR} (h : s.Inv) : s.abs.length = s.data.length - s.index := by
  simp [BufR.abs]

theorem buf_rem {s : BufR} (h : s.Inv) : wsub s.size s.index = s.abs.length := by
  rw [BufR.abs_length h]; exact wsub_eq h.1 h.2

theorem buf_read_ok {s : BufR} (h : s.Inv) {n : Nat} (hn : n ≤ s.abs.length) :
    ∃ s', bufRd.read n s = (.ok (s.abs.take n), s') ∧ s'.Inv ∧ s'.abs = s.abs.drop n := by
  have hlen := BufR.abs_length h
  have hlt : ¬ n > s.abs.length := by omega
  have hw : wadd s.index n = s.index + n := wadd_eq (by unfold BufR.Inv at h; omega)
  refine ⟨{ s with index := s.index + n }, ?_, ?_, ?_⟩
  · simp only [bufRd, buf_rem h, hlt, ↓reduceIte, hw]; rfl
  · unfold BufR.Inv at *; simp; omega
  · simp [BufR.abs, List.drop_drop, Nat.add_comm]

theorem buf_read_fail {s : BufR} (h : s.Inv) {n : Nat} (hn : s.abs.length < n) :
    bufRd.read n s = (.error .readLimitReached, s) := by
  simp only [bufRd, buf_rem h, gt_iff_lt, hn, ↓reduceIte]

theorem buf_skip_ok {s : BufR} (h : s.Inv) {n : Nat} (hn : n ≤ s.abs.length) :
    ∃ s', bufRd.skip n s = (none, s') ∧ s'.Inv ∧ s'.abs = s.abs.drop n := by
  have hlen := BufR.abs_length h
  have hlt : ¬ n > s.abs.length := by omega
  have hw : wadd s.index n = s.index + n := wadd_eq (by unfold BufR.Inv at h; omega)
  refine ⟨{ s with index := s.index + n }, ?_, ?_, ?_⟩
  · simp only [bufRd, buf_rem h, hlt, ↓reduceIte, hw]
  · unfold BufR.Inv at *; simp; omega
  · simp [BufR.abs, List.drop_drop, Nat.add_comm]

theorem buf_skip_fail {s : BufR} (h : s.Inv) {n : Nat} (hn : s.abs.length < n) :
    bufRd.skip n s = (some .readLimitReached, s) := by
  simp only [bufRd, buf_rem h, gt_iff_lt, hn, ↓reduceIte]

/-- `Ensure(n)` on a buffer reader succeeds exactly when `n` bytes remain -/
theorem buf_ensure_iff {s : BufR} (h : s.Inv) (n : Nat) :
    (bufRd.ensure n s).1 = none ↔ n ≤ s.abs.length := by
  simp only [bufRd, buf_rem h]
  split <;> simp <;> omega

/-! ### StreamReader -/
def StreamR.abs (s : StreamR) : Bytes := s.data.drop s.pos

theorem stream_read_ok {s : StreamR} (hf : s.failed = false) (hp : s.pos ≤ s.data.length) {n : Nat}
    (hn : n ≤ s.abs.length) :
    ∃ s', streamRd.read n s = (.ok (s.abs.take n), s') ∧ s'.failed = false ∧ s'.pos ≤ s'.data.length ∧
      s'.abs = s.abs.drop n := by
  have hlen : s.abs.length = s.data.length - s.pos := by simp [StreamR.abs]
  refine ⟨{ s with pos := s.pos + n }, ?_, hf, ?_, ?_⟩
  · simp only [streamRd, hf, Bool.false_eq_true, ↓reduceIte]
    rw [if_pos (by omega)]; rfl
  · simp; omega
  · simp [StreamR.abs, List.drop_drop, Nat.add_comm]

theorem stream_read_fail {s : StreamR} (hf : s.failed = false) {n : Nat} (hn : s.abs.length < n) :
    (streamRd.read n s).1 = .error .streamError ∧ (streamRd.read n s).2.failed = true := by
  have hlen : s.abs.length = s.data.length - s.pos := by simp [StreamR.abs]
  simp only [streamRd, hf, Bool.false_eq_true, ↓reduceIte]
  rw [if_neg (by omega)]
  exact ⟨rfl, rfl⟩

/-- once failed, a stream reader fails every later transfer (no byte is ever delivered again) -/
theorem stream_sticky {s : StreamR} (hf : s.failed = true) (n : Nat) :
    streamRd.read n s = (.error .streamError, s) ∧ streamRd.skip n s = (some .streamError, s) := by
  simp [streamRd, hf]

theorem stream_skip_ok {s : StreamR} (hf : s.failed = false) (hp : s.pos ≤ s.data.length) {n : Nat}
    (hn : n ≤ s.abs.length) :
    ∃ s', streamRd.skip n s = (none, s') ∧ s'.failed = false ∧ s'.abs = s.abs.drop n := by
  have hlen : s.abs.length = s.data.length - s.pos := by simp [StreamR.abs]
  refine ⟨{ s with pos := s.pos + n }, ?_, hf, ?_⟩
  · simp only [streamRd, hf, Bool.false_eq_true, ↓reduceIte]
    rw [if_pos (by omega)]
  · simp [StreamR.abs, List.drop_drop, Nat.add_comm]

theorem stream_skip_fail {s : StreamR} (hf : s.failed = false) {n : Nat} (hn : s.abs.length < n) :
    (streamRd.skip n s).1 = some .streamError := by
  have hlen : s.abs.length = s.data.length - s.pos := by simp [StreamR.abs]
  simp only [streamRd, hf, Bool.false_eq_true, ↓reduceIte]
  rw [if_neg (by omega)]

/-! ### FdReader -/
def FdR.abs (s : FdR) : Bytes := s.data.drop s.pos

theorem fd_read_ok {s : FdR} (hp : s.pos ≤ s.data.length) {n : Nat} (hn : n ≤ s.abs.length) :
    ∃ s', fdRd.read n s = (.ok (s.abs.take n), s') ∧ s'.pos ≤ s'.data.length ∧ s'.abs = s.abs.drop n := by
  have hlen : s.abs.length = s.data.length - s.pos := by simp [FdR.abs]
  refine ⟨{ s with pos := s.pos + n }, ?_, ?_, ?_⟩
  · simp only [fdRd]; rw [if_pos (by omega)]; rfl
  · simp; omega
  · simp [FdR.abs, List.drop_drop, Nat.add_comm]

theorem fd_read_fail {s : FdR} {n : Nat} (hn : s.abs.length < n) :
    (fdRd.read n s).1 = .error .readLimitReached := by
  have hlen : s.abs.length = s.data.length - s.pos := by simp [FdR.abs]
  simp only [fdRd]; rw [if_neg (by omega)]

/-! ### Writers -/

/-- checked buffer writers (Pedantic, Constexpr): a write is accepted iff it fits -/
theorem bufW_write_checked {s : BufW} (hc : s.checked = true) (hl : s.out.length ≤ s.cap) (hcap : s.cap < W)
    (bs : Bytes) :
    bufWr.write bs s =
      if bs.length ≤ s.cap - s.out.length then (none, { s with out := s.out ++ bs })
      else (some .writeLimitReached, s) := by
  simp only [bufWr, hc, ↓reduceIte, wsub_eq hl hcap]
  by_cases h : bs.length ≤ s.cap - s.out.length
  · rw [if_neg (by omega), if_pos h]
  · rw [if_pos (by omega), if_neg h]

theorem bufW_skip_checked {s : BufW} (hc : s.checked = true) (hl : s.out.length ≤ s.cap) (hcap : s.cap < W)
    (n : Nat) (pad : UInt8) :
    bufWr.skip n pad s =
      if n ≤ s.cap - s.out.length then (none, { s with out := s.out ++ List.replicate n pad })
      else (some .writeLimitReached, s) := by
  simp only [bufWr, hc, ↓reduceIte, wsub_eq hl hcap]
  by_cases h : n ≤ s.cap - s.out.length
  · rw [if_neg (by omega), if_pos h]
  · rw [if_pos (by omega), if_neg h]

/-- `Prepare(n)` succeeds exactly when `n` more bytes fit — for sizes up to 2^64-1 -/
theorem bufW_prepare_iff {s : BufW} (hl : s.out.length ≤ s.cap) (hcap : s.cap < W) (n : Nat) :
    (bufWr.prepare n s).1 = none ↔ n ≤ s.cap - s.out.length := by
  simp only [bufWr, wsub_eq hl hcap]
  split <;> simp <;> omega

/-- the unchecked BufferWriter stays inside its buffer as long as the bytes written after a
successful `Prepare(n)` do not exceed `n` -/
theorem bufW_unchecked_in_bounds {s : BufW} (hc : s.checked = false) (ho : s.oob = false)
    (bs : Bytes) (hfit : s.out.length + bs.length ≤ s.cap) :
    (bufWr.write bs s).1 = none ∧ (bufWr.write bs s).2.oob = false ∧
      (bufWr.write bs s).2.out = s.out ++ bs := by
  simp only [bufWr, hc, Bool.false_eq_true, ↓reduceIte, ho, Bool.false_or]
  refine ⟨trivial, ?_, trivial⟩
  simp; omega

/-- `ConstexprBufferWriter::WriteElement`: shifts by 0, 8, 16, ... truncated to a byte -/
def constexprElem : Nat → Nat → Bytes
  | 0, _ => []
  | w + 1, x => UInt8.ofNat x :: constexprElem w (x >>> 8)

/-- byte-wise compile-time element writes are the little-endian bytes `memcpy` produces on a
little-endian host -/
theorem constexprElem_eq_leBytes (w x : Nat) : constexprElem w x = leBytes w x := by
  induction w generalizing x with
  | zero => rfl
  | succ w ih =>
    simp only [constexprElem, leBytes, ih, Nat.shiftRight_eq_div_pow]
    congr 1
    apply UInt8.toNat_inj.1
    simp [UInt8.toNat_ofNat']

end Nop.Io
