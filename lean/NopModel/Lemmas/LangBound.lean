import NopModel.Lemmas.Snd
import NopModel.Lemmas.LangMinimal
import NopModel.Lemmas.RoundTrip
/-! The value a word of the language denotes is no bigger (in nodes: scalars, elements,
containers, table slots) than a type-dependent constant times the length of the word: a
successful read cannot have allocated more than that (C02). -/
namespace Nop

mutual
/-- number of nodes of a value: every scalar, every container, every element -/
def Val.nodes : Val → Nat
  | .int _ => 1
  | .nil => 1
  | .tag _ v => 1 + v.nodes
  | .list vs => 1 + nodesL vs
def nodesL : List Val → Nat
  | [] => 0
  | v :: vs => v.nodes + nodesL vs
end

mutual
/-- the type-dependent constant -/
def Ty.allocK : Ty → Nat
  | .bool => 1
  | .int _ _ => 1
  | .float _ => 1
  | .str _ _ => 1
  | .seq _ e => e.allocK
  | .prod _ ts => allocKL ts
  | .map _ k v => k.allocK + v.allocK + 1
  | .opt t => t.allocK + 1
  | .result _ _ t => t.allocK + 1
  | .variant ts => allocKL ts + 1
  | .handle _ _ _ => 1
  | .wrap t => t.allocK
  | .ref t => t.allocK
  | .table _ _ tys => allocKL tys + tys.length + 2
def allocKL : List Ty → Nat
  | [] => 1
  | t :: ts => t.allocK + allocKL ts
end

theorem allocKL_pos : ∀ (ts : List Ty), 1 ≤ allocKL ts
  | [] => by simp [allocKL]
  | t :: ts => by simp only [allocKL]; have := allocKL_pos ts; omega

theorem allocK_pos : ∀ (t : Ty), 1 ≤ t.allocK
  | .bool => by simp [Ty.allocK]
  | .int _ _ => by simp [Ty.allocK]
  | .float _ => by simp [Ty.allocK]
  | .str _ _ => by simp [Ty.allocK]
  | .seq _ e => by simp only [Ty.allocK]; exact allocK_pos e
  | .prod _ ts => by simp only [Ty.allocK]; exact allocKL_pos ts
  | .map _ k v => by simp [Ty.allocK]
  | .opt t => by simp [Ty.allocK]
  | .result _ _ t => by simp [Ty.allocK]
  | .variant ts => by simp [Ty.allocK]
  | .handle _ _ _ => by simp [Ty.allocK]
  | .wrap t => by simp only [Ty.allocK]; exact allocK_pos t
  | .ref t => by simp only [Ty.allocK]; exact allocK_pos t
  | .table _ _ tys => by simp [Ty.allocK]

theorem nodesL_rawElems (f : Bytes → Val) (hf : ∀ b, (f b).nodes = 1) (w : Nat) : ∀ n bs, nodesL (rawElems f w n bs) = n
  | 0, _ => rfl
  | n + 1, bs => by simp [rawElems, nodesL, hf, nodesL_rawElems f hf w n]; omega

theorem rawToVal_nodes (e : Ty) (b : Bytes) : (rawToVal e b).nodes = 1 := by
  unfold rawToVal; split <;> simp [Val.nodes]

theorem LInt_len_pos {k : IntKind} {i : Int} {bs : Bytes} (h : LInt k i bs) : 1 ≤ bs.length := by
  obtain ⟨p, pl, rfl, _⟩ := h; simp

theorem LSize_len_pos {n : Nat} {bs : Bytes} (h : LSize n bs) : 1 ≤ bs.length := by
  obtain ⟨i, hi, _⟩ := h; exact LInt_len_pos hi

/-- a run of encodings: total nodes bounded by `K` times total bytes -/
theorem LAll_nodes {L : Val → Bytes → Prop} {K : Nat} (h : ∀ a b, L a b → a.nodes ≤ K * b.length) :
    ∀ (as : List Val) (bs : Bytes), LAll L as bs → nodesL as ≤ K * bs.length
  | [], bs, hl => by simp [nodesL]
  | a :: as, bs, hl => by
    obtain ⟨b1, b2, rfl, ha, hrest⟩ := hl
    have h1 := h a b1 ha
    have h2 := LAll_nodes h as b2 hrest
    simp only [nodesL, List.length_append, Nat.mul_add]
    omega

theorem nodesL_filter_le (q : Val → Bool) : ∀ (l : List Val), nodesL (l.filter q) ≤ nodesL l
  | [] => by simp [nodesL]
  | a :: l => by
    have := nodesL_filter_le q l
    by_cases hq : q a = true
    · simp only [List.filter_cons, hq, ↓reduceIte, nodesL]; omega
    · simp only [List.filter_cons, hq, Bool.false_eq_true, ↓reduceIte, nodesL]; omega

theorem nodesL_dedup_le : ∀ (kvs : List Val), nodesL (dedupKeys kvs) ≤ nodesL kvs
  | [] => by simp [dedupKeys, nodesL]
  | kv :: rest => by
    have h1 := nodesL_dedup_le rest
    have h2 := nodesL_filter_le (fun kv' => !(kvKey kv' == kvKey kv)) (dedupKeys rest)
    simp only [dedupKeys, nodesL]
    omega


theorem nodesL_replicate_nil : ∀ n, nodesL (List.replicate n Val.nil) = n
  | 0 => rfl
  | n + 1 => by rw [List.replicate_succ, nodesL, nodesL_replicate_nil n]; simp [Val.nodes]; omega

theorem bnd_LPre_of {hs : List Int} {t : Ty}
    (h : ∀ (p : UInt8) (v : Val) (bs : Bytes), LangP hs t p v bs → v.nodes ≤ t.allocK * (1 + bs.length))
    (v : Val) (bs : Bytes) (hl : LPre (matchP t) (LangP hs t) v bs) : v.nodes ≤ t.allocK * bs.length ∧ 1 ≤ bs.length := by
  obtain ⟨p, pl, rfl, _, hp⟩ := hl
  have := h p v pl hp
  simp only [List.length_cons]
  constructor
  · rw [Nat.add_comm]; exact this
  · omega

theorem bnd_LIter_of {E : Nat → List Val → List Val → Bytes → Prop} {K : Nat}
    (hE : ∀ (id : Nat) (cur out : List Val) (bs : Bytes), E id cur out bs → nodesL out ≤ nodesL cur + K * bs.length) :
    ∀ (n : Nat) (cur out : List Val) (bs : Bytes), LIter E n cur out bs → nodesL out ≤ nodesL cur + K * bs.length
  | 0, cur, out, bs, h => by
    obtain ⟨rfl, rfl⟩ := h
    simp
  | n + 1, cur, out, bs, h => by
    obtain ⟨id, ib, b1, rest, cur', rfl, hid, he, hit⟩ := h
    have h1 := hE id.toNat cur cur' b1 he
    have h2 := bnd_LIter_of hE n cur' out rest hit
    simp only [List.length_append, Nat.mul_add]
    omega

mutual
theorem bnd_LangP (hs : List Int) : ∀ (t : Ty) (p : UInt8) (v : Val) (bs : Bytes),
    LangP hs t p v bs → v.nodes ≤ t.allocK * (1 + bs.length)
  | .bool, p, v, bs, h => by
    simp only [LangP] at h
    obtain ⟨rfl, rfl⟩ := h
    simp [Val.nodes, Ty.allocK]
  | .int k nom, p, v, bs, h => by
    simp only [LangP] at h
    obtain ⟨_, rfl⟩ := h
    simp [Val.nodes, Ty.allocK]
  | .float w, p, v, bs, h => by
    simp only [LangP] at h
    obtain ⟨_, rfl⟩ := h
    simp [Val.nodes, Ty.allocK]
  | .str n cb, p, v, bs, h => by
    simp only [LangP] at h
    obtain ⟨lb, szb, pl, rfl, hsz, hmod, hlen, rfl⟩ := h
    simp only [Val.nodes, Ty.allocK, Nat.one_mul, List.length_append]
    rw [nodesL_rawElems _ (by intro b; simp [Val.nodes])]
    have : lb / cb ≤ lb / cb * cb := by
      cases cb with
      | zero => simp
      | succ c => exact Nat.le_mul_of_pos_right _ (Nat.succ_pos c)
    omega
  | .seq f e, p, v, bs, h => by
    simp only [LangP] at h
    by_cases hi : e.integral = true
    · simp only [hi, ↓reduceIte] at h
      obtain ⟨sz, n, szb, pl, rfl, hsz, hbc, hlen, rfl⟩ := h
      simp only [Val.nodes, Ty.allocK, List.length_append]
      rw [nodesL_rawElems _ (rawToVal_nodes e)]
      have hw : 0 < e.width := width_pos e
      have h1 : n ≤ n * e.width := Nat.le_mul_of_pos_right _ hw
      have h2 := allocK_pos e
      have h3 : 1 + (szb.length + pl.length) ≤ e.allocK * (1 + (szb.length + pl.length)) := Nat.le_mul_of_pos_left _ h2
      omega
    · simp only [hi, Bool.false_eq_true, ↓reduceIte] at h
      obtain ⟨n, szb, body, vs, rfl, hsz, hcnt, hlen, hall, rfl⟩ := h
      simp only [Val.nodes, Ty.allocK, List.length_append]
      have h1 := LAll_nodes (K := e.allocK) (fun a b hab => (bnd_LPre_of (bnd_LangP hs e) a b hab).1) vs body hall
      have h2 := allocK_pos e
      simp only [Nat.mul_add, Nat.mul_one]
      omega
  | .prod k ts, p, v, bs, h => by
    simp only [LangP] at h
    obtain ⟨szb, body, vs, rfl, hsz, hp, rfl⟩ := h
    simp only [Val.nodes, Ty.allocK, List.length_append]
    have h1 := bnd_LangProd hs ts vs body hp
    have h2 := allocKL_pos ts
    simp only [Nat.mul_add, Nat.mul_one]
    omega
  | .map o k v', p, v, bs, h => by
    simp only [LangP] at h
    obtain ⟨n, szb, body, kvs, rfl, hsz, hlen, hall, rfl⟩ := h
    simp only [Val.nodes, Ty.allocK, List.length_append]
    have h1 := LAll_nodes (K := k.allocK + v'.allocK + 1) (fun kv b hkv => by
      obtain ⟨a, c, b1, b2, rfl, rfl, ha, hc⟩ := hkv
      obtain ⟨ha1, ha2⟩ := bnd_LPre_of (bnd_LangP hs k) a b1 ha
      obtain ⟨hc1, hc2⟩ := bnd_LPre_of (bnd_LangP hs v') c b2 hc
      simp only [Val.nodes, nodesL, List.length_append, Nat.mul_add, Nat.add_mul, Nat.one_mul]
      have : k.allocK * b1.length ≤ k.allocK * b1.length + k.allocK * b2.length := Nat.le_add_right _ _
      have : v'.allocK * b2.length ≤ v'.allocK * b1.length + v'.allocK * b2.length := Nat.le_add_left _ _
      omega) kvs body hall
    have h2 := nodesL_dedup_le kvs
    simp only [Nat.mul_add, Nat.mul_one] at h1 ⊢
    omega
  | .opt t, p, v, bs, h => by
    simp only [LangP] at h
    by_cases hp : (p == 0xbe) = true
    · simp only [hp, ↓reduceIte] at h
      obtain ⟨rfl, rfl⟩ := h
      simp [Val.nodes, Ty.allocK]
    · simp only [hp, Bool.false_eq_true, ↓reduceIte] at h
      obtain ⟨x, hx, rfl⟩ := h
      have := bnd_LangP hs t p x bs hx
      simp only [Val.nodes, Ty.allocK, Nat.add_mul, Nat.one_mul]
      omega
  | .result en ek t, p, v, bs, h => by
    simp only [LangP] at h
    by_cases hp : (p == 0xb6) = true
    · simp only [hp, ↓reduceIte] at h
      obtain ⟨e, he, rfl⟩ := h
      have := LInt_len_pos he
      have := allocK_pos t
      simp only [Val.nodes, Ty.allocK, Nat.add_mul, Nat.one_mul, Nat.mul_add, Nat.mul_one]
      omega
    · simp only [hp, Bool.false_eq_true, ↓reduceIte] at h
      obtain ⟨x, hx, rfl⟩ := h
      have := bnd_LangP hs t p x bs hx
      simp only [Val.nodes, Ty.allocK, Nat.add_mul, Nat.one_mul]
      omega
  | .variant ts, p, v, bs, h => by
    simp only [LangP] at h
    obtain ⟨idx, ib, rest, rfl, hidx, hlo, hhi, hcase⟩ := h
    have h1 := LInt_len_pos hidx
    have h2 := allocKL_pos ts
    rcases hcase with ⟨rfl, rfl, rfl⟩ | ⟨hpos, x, hx, rfl⟩
    · simp only [Val.nodes, Ty.allocK, List.length_append, Nat.add_mul, Nat.one_mul, Nat.mul_add, Nat.mul_one, List.length_singleton]
      omega
    · have := bnd_LangAlt hs ts idx.toNat x rest hx
      simp only [Val.nodes, Ty.allocK, List.length_append, Nat.add_mul, Nat.one_mul, Nat.mul_add, Nat.mul_one]
      omega
  | .handle n ht tk, p, v, bs, h => by
    simp only [LangP] at h
    obtain ⟨hb, rb, r, hv, rfl, _, _, _, rfl⟩ := h
    simp [Val.nodes, Ty.allocK]
  | .wrap t, p, v, bs, h => by
    simp only [LangP] at h
    simp only [Ty.allocK]; exact bnd_LangP hs t p v bs h
  | .ref t, p, v, bs, h => by
    simp only [LangP] at h
    simp only [Ty.allocK]; exact bnd_LangP hs t p v bs h
  | .table hash ents tys, p, v, bs, h => by
    simp only [LangP] at h
    obtain ⟨n, hb, szb, body, vs, rfl, hh, hsz, hit, rfl⟩ := h
    have h3 := bnd_LIter_of (K := allocKL tys) (fun id cur out b he => bnd_LangEntry hs ents tys id cur out b he) n _ vs body hit
    rw [nodesL_replicate_nil] at h3
    simp only [Val.nodes, Ty.allocK, List.length_append, Nat.add_mul, Nat.mul_add, Nat.mul_one]
    have : allocKL tys * body.length ≤ allocKL tys * hb.length + (allocKL tys * szb.length + allocKL tys * body.length) := by omega
    omega
theorem bnd_LangProd (hs : List Int) : ∀ (ts : List Ty) (vs : List Val) (bs : Bytes),
    LangProd hs ts vs bs → nodesL vs ≤ allocKL ts * bs.length
  | [], vs, bs, h => by
    simp only [LangProd] at h
    obtain ⟨rfl, rfl⟩ := h
    simp [nodesL]
  | t :: ts, vs, bs, h => by
    simp only [LangProd] at h
    obtain ⟨v, vs', b1, b2, rfl, rfl, hv, hrest⟩ := h
    have h1 := (bnd_LPre_of (bnd_LangP hs t) v b1 hv).1
    have h2 := bnd_LangProd hs ts vs' b2 hrest
    simp only [nodesL, allocKL, List.length_append, Nat.add_mul, Nat.mul_add]
    have : t.allocK * b1.length ≤ t.allocK * b1.length + t.allocK * b2.length := Nat.le_add_right _ _
    have : allocKL ts * b2.length ≤ allocKL ts * b1.length + allocKL ts * b2.length := Nat.le_add_left _ _
    omega
theorem bnd_LangAlt (hs : List Int) : ∀ (ts : List Ty) (i : Nat) (v : Val) (bs : Bytes),
    LangAlt hs ts i v bs → v.nodes ≤ allocKL ts * bs.length
  | [], i, v, bs, h => by simp [LangAlt] at h
  | t :: ts, 0, v, bs, h => by
    simp only [LangAlt] at h
    have h1 := (bnd_LPre_of (bnd_LangP hs t) v bs h).1
    simp only [allocKL, Nat.add_mul]
    omega
  | t :: ts, i + 1, v, bs, h => by
    simp only [LangAlt] at h
    have h1 := bnd_LangAlt hs ts i v bs h
    simp only [allocKL, Nat.add_mul]
    omega
theorem bnd_LangEntry (hs : List Int) : ∀ (es : List (Nat × Bool)) (ts : List Ty) (id : Nat) (cur out : List Val) (bs : Bytes),
    LangEntry hs es ts id cur out bs → nodesL out ≤ nodesL cur + allocKL ts * bs.length
  | (eid, del) :: es, t :: ts, id, c :: cs, out, bs, h => by
    simp only [LangEntry] at h
    by_cases hq : (eid == id) = true
    · simp only [hq, ↓reduceIte] at h
      by_cases hdel : del = true
      · simp only [hdel, ↓reduceIte] at h
        obtain ⟨_, rfl⟩ := h
        omega
      · simp only [hdel, Bool.false_eq_true, ↓reduceIte] at h
        obtain ⟨hnil, sz, szb, vb, pad, x, rfl, hsz, hx, hlen, rfl⟩ := h
        have hc : c = .nil := by cases c <;> simp [Val.isNil] at hnil ⊢
        subst hc
        have h1 := (bnd_LPre_of (bnd_LangP hs t) x vb hx).1
        simp only [nodesL, Val.nodes, allocKL, List.length_append, Nat.add_mul, Nat.mul_add]
        have : t.allocK * vb.length ≤ t.allocK * szb.length + (t.allocK * vb.length + t.allocK * pad.length) := by omega
        omega
    · simp only [hq, Bool.false_eq_true, ↓reduceIte] at h
      obtain ⟨r, hr, rfl⟩ := h
      have := bnd_LangEntry hs es ts id cs r bs hr
      simp only [nodesL, allocKL, Nat.add_mul]
      omega
  | [], ts, id, cur, out, bs, h => by
    simp only [LangEntry] at h
    obtain ⟨_, rfl⟩ := h
    omega
  | _ :: _, [], id, cur, out, bs, h => by
    simp only [LangEntry] at h
    obtain ⟨_, rfl⟩ := h
    omega
  | _ :: _, _ :: _, id, [], out, bs, h => by
    simp only [LangEntry] at h
    obtain ⟨_, rfl⟩ := h
    omega
end

end Nop
