import NopModel.Lemmas.Snd
import NopModel.Lemmas.DecOK
import NopModel.Lemmas.Loop
/-! Completeness of the decoder with respect to the documented language: every encoding in
`LangP` is accepted, yields the value it denotes and is consumed exactly — whatever the
destination held before, whatever follows, under any budgets that admit it. -/
namespace Nop

/-- all (handle, reference) pairs a handle table resolves -/
def psOf (hs : List Int) : List (Int × Int) :=
  (-1, -1) :: (List.range hs.length).map (fun i => (hs.getD i (-1), (i : Int)))

theorem resolves_psOf (hs : List Int) : Resolves hs (psOf hs) := by
  intro p hp
  simp only [psOf, List.mem_cons, List.mem_map, List.mem_range] at hp
  rcases hp with rfl | ⟨i, hi, rfl⟩
  · simp [resolveHandle]
  · simp only [resolveHandle]
    have h1 : ¬ ((i : Int) = -1) := by omega
    simp [h1, hi]

theorem mem_psOf {hs : List Int} {r hv : Int} (h : resolveHandle hs r = .ok hv) : (hv, r) ∈ psOf hs := by
  unfold resolveHandle at h
  by_cases h1 : r = -1
  · simp only [h1, ↓reduceIte, Except.ok.injEq] at h
    subst h1; subst h
    simp [psOf]
  · simp only [h1, ↓reduceIte] at h
    by_cases h2 : 0 ≤ r ∧ r.toNat < hs.length
    · simp only [h2, and_self, ↓reduceIte, Except.ok.injEq] at h
      subst h
      simp only [psOf, List.mem_cons, List.mem_map, List.mem_range]
      right
      exact ⟨r.toNat, h2.2, by rw [Int.toNat_of_nonneg h2.1]⟩
    · simp [h2] at h

namespace DecOK
variable {α β : Type} {ps : List (Int × Int)}

theorem decIntPayloadAny {k : IntKind} {p : UInt8} {bs : Bytes} (hl : bs.length = intPayloadLen k p) :
    DecOK (Nop.decIntPayload k p) (intOfPayload k p bs) bs ps := by
  intro s rest hc hb hf _
  unfold Nop.decIntPayload
  by_cases h0 : intPayloadLen k p = 0
  · have : bs = [] := List.eq_nil_of_length_eq_zero (by omega)
    subst this
    simp [h0]
  · have hne : (intPayloadLen k p == 0) = false := by simp [h0]
    simp only [hne, Bool.false_eq_true, ↓reduceIte]
    rw [rRead_ok hc (by rw [hb, ← hl]; simp) (by rw [← hl]; exact hf)]
    simp only [hb, ← hl, List.take_left']

theorem decIntAny {k : IntKind} {i : Int} {bs : Bytes} (h : LInt k i bs) : DecOK (Nop.decInt k) i bs ps := by
  obtain ⟨p, pl, rfl, hm, hl, rfl⟩ := h
  intro s rest hc hb hf _
  have := decInt_prefix (k := k) (p := p) (pl := pl) (rest := rest) hc (by simpa using hb) hl
    (by rw [Snd.intMatch_spec]; exact hm) (by simpa [Nat.add_comm] using hf)
  rw [this]
  simp [Nat.add_comm]

theorem decSizeAny {n : Nat} {bs : Bytes} (h : LSize n bs) : DecOK Nop.decSize n bs ps := by
  obtain ⟨i, hi, rfl⟩ := h
  intro s rest hc hb hf hr
  unfold Nop.decSize
  rw [decIntAny hi s rest hc hb hf hr]

theorem skip {bs : Bytes} {n : Nat} (hn : bs.length = n) : DecOK (rSkip n) () bs ps := by
  intro s rest hc hb hf _
  subst hn
  rw [rSkip_ok hc (by simp [hb]) hf]

theorem skipEntryAny {bs : Bytes} (h : LSkip bs) : DecOK Nop.skipEntry () bs ps := by
  obtain ⟨sz, szb, pl, rfl, hsz, hl⟩ := h
  unfold Nop.skipEntry
  exact bind (decSizeAny hsz) (skip hl) rfl

theorem repMAll {f : M α} {L : α → Bytes → Prop} (hf : ∀ a b, L a b → DecOK f a b ps) :
    ∀ (as : List α) (bs : Bytes), LAll L as bs → DecOK (Nop.repM as.length f) as bs ps
  | [], bs, h => by
    simp only [LAll] at h; subst h
    rw [List.length_nil, repM_zero]; exact pure _
  | a :: as, bs, h => by
    obtain ⟨b1, b2, rfl, ha, hrest⟩ := h
    rw [List.length_cons, repM_succ]
    exact bind (hf a b1 ha) (bind (repMAll hf as b2 hrest) (pure _) (by simp)) rfl

theorem repPAll {f : α → M α} {L : α → Bytes → Prop} (d : α) (hf : ∀ pr a b, L a b → DecOK (f pr) a b ps) :
    ∀ (as : List α) (prs : List α) (bs : Bytes), LAll L as bs → DecOK (Nop.repP as.length prs d f) as bs ps
  | [], prs, bs, h => by
    simp only [LAll] at h; subst h
    rw [List.length_nil, repP_zero]; exact pure _
  | a :: as, prs, bs, h => by
    obtain ⟨b1, b2, rfl, ha, hrest⟩ := h
    rw [List.length_cons, repP_succ]
    exact bind (hf _ a b1 ha) (bind (repPAll d hf as prs.tail b2 hrest) (pure _) (by simp)) rfl

theorem iterAll {g : Nat → List Val → M (List Val)} {E : Nat → List Val → List Val → Bytes → Prop}
    (hg : ∀ id cur out b, E id cur out b → DecOK (g id cur) out b ps) :
    ∀ (n : Nat) (cur out : List Val) (bs : Bytes), LIter E n cur out bs →
      DecOK (Nop.itM n (fun cur => do let id ← Nop.decInt .u64; g id.toNat cur) cur) out bs ps
  | 0, cur, out, bs, h => by
    obtain ⟨rfl, rfl⟩ := h
    rw [itM_zero]; exact pure _
  | n + 1, cur, out, bs, h => by
    obtain ⟨id, ib, b1, rest, cur', rfl, hid, he, hit⟩ := h
    rw [itM_succ]
    refine bind (bind (decIntAny hid) (hg _ _ _ _ he) rfl) (iterAll hg n cur' out rest hit) (by simp)

end DecOK

theorem cmp_elem {ps : List (Int × Int)} {hs : List Int} {t : Ty} {k : UInt8 → M Val} {v : Val} {bs : Bytes}
    (hk : ∀ p pl, LangP hs t p v pl → DecOK (k p) v pl ps) (h : LPre (matchP t) (LangP hs t) v bs) :
    DecOK (withPrefix (matchP t) k) v bs ps := by
  obtain ⟨p, pl, rfl, hm, hl⟩ := h
  exact DecOK.withPrefix hm (hk p pl hl)

theorem cmp_decBin {ps : List (Int × Int)} (f : Flavor) (e : Ty) (v : Val) (bs : Bytes)
    (h : ∃ (sz n : Nat) (szb pl : Bytes), bs = szb ++ pl ∧ LSize sz szb ∧
      binCount f e.width sz = some n ∧ pl.length = n * e.width ∧ v = .list (rawElems (rawToVal e) e.width n pl)) :
    DecOK (decBin f e) v bs ps := by
  obtain ⟨sz, n, szb, pl, rfl, hsz, hbc, hlen, rfl⟩ := h
  unfold decBin
  refine DecOK.bind (DecOK.decSizeAny hsz) ?_ rfl
  cases f with
  | vector =>
    simp only [binCount] at hbc ⊢
    by_cases hm : (sz % e.width != 0) = true
    · simp [hm] at hbc
    · simp only [hm, Bool.false_eq_true, ↓reduceIte, Option.some.injEq] at hbc ⊢
      subst hbc
      have hz : sz % e.width = 0 := by simpa using hm
      have hl2 : pl.length = sz := by rw [hlen]; exact Nat.div_mul_cancel (Nat.dvd_of_mod_eq_zero hz)
      exact DecOK.ensureThen (by omega) (DecOK.map (DecOK.read hl2))
  | array len =>
    simp only [binCount] at hbc ⊢
    by_cases hm : (sz != len * e.width) = true
    · simp [hm] at hbc
    · simp only [hm, Bool.false_eq_true, ↓reduceIte, Option.some.injEq] at hbc ⊢
      subst hbc
      exact DecOK.map (DecOK.read hlen)
  | carray len =>
    simp only [binCount] at hbc ⊢
    by_cases hm : (sz != len * e.width) = true
    · simp [hm] at hbc
    · simp only [hm, Bool.false_eq_true, ↓reduceIte, Option.some.injEq] at hbc ⊢
      subst hbc
      exact DecOK.map (DecOK.read hlen)
  | lbuf cap sk unb =>
    simp only [binCount] at hbc ⊢
    by_cases h1 : ((!unb && decide (sz > cap * e.width)) || sz % e.width != 0) = true
    · simp [h1] at hbc
    · rw [if_neg h1] at hbc ⊢
      by_cases h2 : (sk.maxVal : Int) < ((sz / e.width : Nat) : Int)
      · rw [if_pos h2] at hbc; cases hbc
      · rw [if_neg h2] at hbc ⊢
        simp only [Option.some.injEq] at hbc
        subst hbc
        exact DecOK.map (DecOK.read hlen)

mutual
theorem cmp_decPayload (hs : List Int) : ∀ (t : Ty) (p : UInt8) (prior v : Val) (bs : Bytes),
    LangP hs t p v bs → DecOK (decPayload t p prior) v bs (psOf hs)
  | .bool, p, pr, v, bs, h => by
    simp only [LangP] at h
    obtain ⟨rfl, rfl⟩ := h
    simp only [decPayload]; exact DecOK.pure _
  | .int k nom, p, pr, v, bs, h => by
    simp only [LangP] at h
    obtain ⟨hl, rfl⟩ := h
    simp only [decPayload]; exact DecOK.map (DecOK.decIntPayloadAny hl)
  | .float w, p, pr, v, bs, h => by
    simp only [LangP] at h
    obtain ⟨hl, rfl⟩ := h
    simp only [decPayload]; exact DecOK.map (DecOK.read hl)
  | .str n cb, p, pr, v, bs, h => by
    simp only [LangP] at h
    obtain ⟨lb, szb, pl, rfl, hsz, hmod, hlen, rfl⟩ := h
    simp only [decPayload]
    refine DecOK.bind (DecOK.decSizeAny hsz) ?_ rfl
    have hne : ¬ ((lb % cb != 0) = true) := by simp [hmod]
    rw [if_neg hne]
    refine DecOK.ensureThen ?_ (DecOK.map (DecOK.read hlen))
    rw [hlen]
    cases cb with
    | zero => simp
    | succ c => exact Nat.le_mul_of_pos_right _ (Nat.succ_pos c)
  | .seq f e, p, pr, v, bs, h => by
    simp only [LangP] at h
    simp only [decPayload]
    by_cases hi : e.integral = true
    · simp only [hi, ↓reduceIte] at h ⊢
      exact cmp_decBin f e v bs h
    · simp only [hi, Bool.false_eq_true, ↓reduceIte] at h ⊢
      obtain ⟨n, szb, body, vs, rfl, hsz, hcnt, hlen, hall, rfl⟩ := h
      have helem : ∀ pr' x b, LPre (matchP e) (LangP hs e) x b →
          DecOK (withPrefix (matchP e) (fun q => decPayload e q pr')) x b (psOf hs) :=
        fun pr' x b hx => cmp_elem (fun q pl hq => cmp_decPayload hs e q pr' x pl hq) hx
      subst hlen
      cases f with
      | vector =>
        simp only
        exact DecOK.bind (DecOK.decSizeAny hsz) (DecOK.map (DecOK.repMAll (helem (dflt e)) vs body hall)) rfl
      | array len =>
        simp only [countOk, beq_iff_eq] at hcnt ⊢
        refine DecOK.bind (DecOK.decSizeAny hsz) ?_ rfl
        have hne : ¬ ((vs.length != len) = true) := by simp [hcnt]
        rw [if_neg hne, ← hcnt]
        exact DecOK.map (DecOK.repPAll (dflt e) helem vs pr.elems body hall)
      | carray len =>
        simp only [countOk, beq_iff_eq] at hcnt ⊢
        refine DecOK.bind (DecOK.decSizeAny hsz) ?_ rfl
        have hne : ¬ ((vs.length != len) = true) := by simp [hcnt]
        rw [if_neg hne, ← hcnt]
        exact DecOK.map (DecOK.repPAll (dflt e) helem vs pr.elems body hall)
      | lbuf cap sk unb =>
        simp only [countOk] at hcnt ⊢
        refine DecOK.bind (DecOK.decSizeAny hsz) ?_ rfl
        have hne : ¬ (((!unb && decide (vs.length > cap)) || decide ((sk.maxVal : Int) < ((vs.length : Nat) : Int))) = true) := by
          intro hc; rw [hc] at hcnt; simp at hcnt
        rw [if_neg hne]
        exact DecOK.map (DecOK.repPAll (dflt e) helem vs pr.elems body hall)
  | .prod k ts, p, pr, v, bs, h => by
    simp only [LangP] at h
    obtain ⟨szb, body, vs, rfl, hsz, hp, rfl⟩ := h
    simp only [decPayload]
    refine DecOK.bind (DecOK.decSizeAny hsz) ?_ rfl
    have hne : ¬ ((ts.length != ts.length) = true) := by simp
    rw [if_neg hne]
    exact DecOK.map (cmp_decProd hs ts pr.elems vs body hp)
  | .map o k v', p, pr, v, bs, h => by
    simp only [LangP] at h
    obtain ⟨n, szb, body, kvs, rfl, hsz, hlen, hall, rfl⟩ := h
    simp only [decPayload]
    subst hlen
    refine DecOK.bind (DecOK.decSizeAny hsz) (DecOK.map (DecOK.repMAll ?_ kvs body hall)) rfl
    rintro kv b ⟨a, c, b1, b2, rfl, rfl, ha, hc⟩
    exact DecOK.bind (cmp_elem (fun q pl hq => cmp_decPayload hs k q _ a pl hq) ha)
      (DecOK.bind (cmp_elem (fun q pl hq => cmp_decPayload hs v' q _ c pl hq) hc) (DecOK.pure _) (by simp)) rfl
  | .opt t, p, pr, v, bs, h => by
    simp only [LangP] at h
    simp only [decPayload]
    by_cases hp : (p == 0xbe) = true
    · simp only [hp, ↓reduceIte] at h ⊢
      obtain ⟨rfl, rfl⟩ := h
      exact DecOK.pure _
    · simp only [hp, Bool.false_eq_true, ↓reduceIte] at h ⊢
      obtain ⟨x, hx, rfl⟩ := h
      exact DecOK.map (cmp_decPayload hs t p _ x bs hx)
  | .result en ek t, p, pr, v, bs, h => by
    simp only [LangP] at h
    simp only [decPayload]
    by_cases hp : (p == 0xb6) = true
    · simp only [hp, ↓reduceIte] at h ⊢
      obtain ⟨e, he, rfl⟩ := h
      exact DecOK.map (g := fun e => Val.tag 0 (.int e)) (DecOK.decIntAny he)
    · simp only [hp, Bool.false_eq_true, ↓reduceIte] at h ⊢
      obtain ⟨x, hx, rfl⟩ := h
      exact DecOK.map (cmp_decPayload hs t p _ x bs hx)
  | .variant ts, p, pr, v, bs, h => by
    simp only [LangP] at h
    obtain ⟨idx, ib, rest, rfl, hidx, hlo, hhi, hcase⟩ := h
    simp only [decPayload]
    refine DecOK.bind (DecOK.decIntAny hidx) ?_ rfl
    have hne : ¬ ((decide (idx < -1) || decide ((ts.length : Int) ≤ idx)) = true) := by
      simp only [Bool.or_eq_true, decide_eq_true_eq, not_or, Int.not_lt, Int.not_le]
      exact ⟨hlo, hhi⟩
    rw [if_neg hne]
    rcases hcase with ⟨rfl, rfl, rfl⟩ | ⟨hpos, x, hx, rfl⟩
    · simp only [BEq.rfl, ↓reduceIte]
      exact DecOK.withPrefix (by simp) (DecOK.pure _)
    · have h1 : ¬ ((idx == -1) = true) := by simp; omega
      rw [if_neg h1]
      exact DecOK.map (cmp_decAlt hs ts idx.toNat _ x rest hx)
  | .handle n ht tk, p, pr, v, bs, h => by
    simp only [LangP] at h
    obtain ⟨hb, rb, r, hv, rfl, hh, hr, hres, rfl⟩ := h
    simp only [decPayload]
    refine DecOK.bind (DecOK.decIntAny hh) ?_ rfl
    have hne : ¬ (((ht : Int) != (ht : Int)) = true) := by simp
    rw [if_neg hne]
    exact DecOK.bind (DecOK.decIntAny hr) (DecOK.map (DecOK.getHandle (mem_psOf hres))) (by simp)
  | .wrap t, p, pr, v, bs, h => by
    simp only [LangP] at h
    simp only [decPayload]; exact cmp_decPayload hs t p pr v bs h
  | .ref t, p, pr, v, bs, h => by
    simp only [LangP] at h
    simp only [decPayload]; exact cmp_decPayload hs t p pr v bs h
  | .table hash ents tys, p, pr, v, bs, h => by
    simp only [LangP] at h
    obtain ⟨n, hb, szb, body, vs, rfl, hh, hsz, hit, rfl⟩ := h
    simp only [decPayload]
    refine DecOK.bind (DecOK.decIntAny hh) ?_ rfl
    have hne : ¬ (((hash : Int) != (hash : Int)) = true) := by simp
    rw [if_neg hne]
    refine DecOK.bind (DecOK.decSizeAny hsz) (DecOK.map ?_) rfl
    exact DecOK.iterAll (g := fun id cur => decEntry ents tys id cur)
      (fun id cur out b he => cmp_decEntry hs ents tys id cur out b he) n _ vs body hit
theorem cmp_decProd (hs : List Int) : ∀ (ts : List Ty) (prs vs : List Val) (bs : Bytes),
    LangProd hs ts vs bs → DecOK (decProd ts prs) vs bs (psOf hs)
  | [], prs, vs, bs, h => by
    simp only [LangProd] at h
    obtain ⟨rfl, rfl⟩ := h
    simp only [decProd]; exact DecOK.pure _
  | t :: ts, prs, vs, bs, h => by
    simp only [LangProd] at h
    obtain ⟨v, vs', b1, b2, rfl, rfl, hv, hrest⟩ := h
    simp only [decProd]
    exact DecOK.bind (cmp_elem (fun q pl hq => cmp_decPayload hs t q _ v pl hq) hv)
      (DecOK.map (cmp_decProd hs ts prs.tail vs' b2 hrest)) rfl
theorem cmp_decAlt (hs : List Int) : ∀ (ts : List Ty) (i : Nat) (pr : Option Val) (v : Val) (bs : Bytes),
    LangAlt hs ts i v bs → DecOK (decAlt ts i pr) v bs (psOf hs)
  | [], i, pr, v, bs, h => by simp [LangAlt] at h
  | t :: _, 0, pr, v, bs, h => by
    simp only [LangAlt] at h
    simp only [decAlt]
    exact cmp_elem (fun q pl hq => cmp_decPayload hs t q _ v pl hq) h
  | _ :: ts, i + 1, pr, v, bs, h => by
    simp only [LangAlt] at h
    simp only [decAlt]; exact cmp_decAlt hs ts i pr v bs h
theorem cmp_decEntry (hs : List Int) : ∀ (es : List (Nat × Bool)) (ts : List Ty) (id : Nat) (cur out : List Val) (bs : Bytes),
    LangEntry hs es ts id cur out bs → DecOK (decEntry es ts id cur) out bs (psOf hs)
  | (eid, del) :: es, t :: ts, id, c :: cs, out, bs, h => by
    simp only [LangEntry] at h
    simp only [decEntry]
    by_cases hid : (eid == id) = true
    · simp only [hid, ↓reduceIte] at h ⊢
      by_cases hdel : del = true
      · simp only [hdel, ↓reduceIte] at h ⊢
        obtain ⟨hsk, rfl⟩ := h
        exact DecOK.map (g := fun _ => c :: cs) (DecOK.skipEntryAny hsk)
      · simp only [hdel, Bool.false_eq_true, ↓reduceIte] at h ⊢
        obtain ⟨hnil, sz, szb, vb, pad, x, rfl, hsz, hx, hlen, rfl⟩ := h
        have hne : ¬ ((!c.isNil) = true) := by simp [hnil]
        rw [if_neg hne]
        refine DecOK.bind (DecOK.decSizeAny hsz) ?_ rfl
        exact DecOK.framedPad (fun v => Val.tag 1 v :: cs)
          (cmp_elem (fun q pl hq => cmp_decPayload hs t q (dflt t) x pl hq) hx) pad hlen
    · simp only [hid, Bool.false_eq_true, ↓reduceIte] at h ⊢
      obtain ⟨r, hr, rfl⟩ := h
      exact DecOK.map (cmp_decEntry hs es ts id cs r bs hr)
  | [], ts, id, cur, out, bs, h => by
    simp only [LangEntry] at h
    obtain ⟨hsk, hout⟩ := h
    rw [hout]
    simp only [decEntry]
    exact DecOK.map (g := fun _ => cur) (DecOK.skipEntryAny hsk)
  | _ :: _, [], id, cur, out, bs, h => by
    simp only [LangEntry] at h
    obtain ⟨hsk, hout⟩ := h
    rw [hout]
    simp only [decEntry]
    exact DecOK.map (g := fun _ => cur) (DecOK.skipEntryAny hsk)
  | _ :: _, _ :: _, id, [], out, bs, h => by
    simp only [LangEntry] at h
    obtain ⟨hsk, rfl⟩ := h
    simp only [decEntry]
    exact DecOK.map (g := fun _ => []) (DecOK.skipEntryAny hsk)
end

end Nop
