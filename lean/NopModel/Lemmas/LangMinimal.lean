import NopModel.Lemmas.Snd
import NopModel.Lemmas.Minimal
import NopModel.Lemmas.SizeExact
/-! Among all words of the documented language that denote a value, none is shorter than
`size t v` - which is what the encoder emits for handle-free types (C06_size_exact): the
encoder's output is a shortest encoding. -/
namespace Nop

theorem encSize_mono {a b : Nat} (h : a ≤ b) : (encSize a).length ≤ (encSize b).length := by
  have e : ∀ n : Nat, encSize n = encUnsigned n := by
    intro n; simp [encSize, encInt, IntKind.signed]
  rw [e, e]
  unfold encUnsigned
  repeat' split
  all_goals simp [leBytes_length]
  all_goals omega

/-- an integer field in any admissible class is at least as long as the encoder's -/
theorem LInt_min {k : IntKind} {i : Int} {bs : Bytes} (h : LInt k i bs) : (encInt k i).length ≤ bs.length := by
  obtain ⟨p, pl, rfl, hm, hl, rfl⟩ := h
  have := C03_int_minimal' k p pl hl (by rw [Snd.intMatch_spec]; exact hm)
  simpa [Nat.add_comm] using this
where
  C03_int_minimal' (k : IntKind) (p : UInt8) (pl : Bytes)
      (hl : pl.length = intPayloadLen k p) (hm : intMatch k p = true) :
      (encInt k (intOfPayload k p pl)).length ≤ 1 + pl.length := by
    unfold encInt
    cases hs : k.signed
    · simpa [hs] using encInt_minimal_unsigned k hs p pl hl hm
    · simpa [hs] using encInt_minimal_signed k hs p pl hl hm

theorem u64_payload_nonneg (p : UInt8) (pl : Bytes) : 0 ≤ intOfPayload .u64 p pl := by
  unfold intOfPayload
  simp only [IntKind.signed, Bool.false_eq_true, ↓reduceIte]
  split <;> omega

theorem LSize_min {n : Nat} {bs : Bytes} (h : LSize n bs) : (encSize n).length ≤ bs.length := by
  obtain ⟨i, hi, rfl⟩ := h
  have hnn : 0 ≤ i := by
    obtain ⟨p, pl, _, _, _, rfl⟩ := hi
    exact u64_payload_nonneg p pl
  have : ((i.toNat : Nat) : Int) = i := Int.toNat_of_nonneg hnn
  have h2 := LInt_min hi
  unfold encSize
  rw [this]; exact h2


theorem LAll_sum {α} {L : α → Bytes → Prop} {g : α → Nat} (h : ∀ a b, L a b → g a ≤ b.length) :
    ∀ (as : List α) (bs : Bytes), LAll L as bs → sumMap g as ≤ bs.length
  | [], bs, hl => by simp [sumMap]
  | a :: as, bs, hl => by
    obtain ⟨b1, b2, rfl, ha, hrest⟩ := hl
    have := h a b1 ha
    have := LAll_sum h as b2 hrest
    simp only [sumMap, List.length_append]
    omega

theorem rawElems_len (f : Bytes → Val) (w : Nat) : ∀ n bs, (rawElems f w n bs).length = n
  | 0, _ => rfl
  | n + 1, bs => by simp [rawElems, rawElems_len f w n]

theorem sumMap_filter_le {α} (g : α → Nat) (q : α → Bool) : ∀ (l : List α), sumMap g (l.filter q) ≤ sumMap g l
  | [] => by simp [sumMap]
  | a :: l => by
    have := sumMap_filter_le g q l
    by_cases hq : q a = true
    · simp only [List.filter_cons, hq, ↓reduceIte, sumMap]; omega
    · simp only [List.filter_cons, hq, Bool.false_eq_true, ↓reduceIte, sumMap]; omega

theorem sumMap_dedup_le (g : Val → Nat) : ∀ (kvs : List Val), sumMap g (dedupKeys kvs) ≤ sumMap g kvs
  | [] => by simp [dedupKeys, sumMap]
  | kv :: rest => by
    have h1 := sumMap_dedup_le g rest
    have h2 := sumMap_filter_le g (fun kv' => !(kvKey kv' == kvKey kv)) (dedupKeys rest)
    simp only [dedupKeys, sumMap]
    omega

theorem filter_length_le' {α} (q : α → Bool) (l : List α) : (l.filter q).length ≤ l.length := List.length_filter_le q l

theorem dedup_length_le : ∀ (kvs : List Val), (dedupKeys kvs).length ≤ kvs.length
  | [] => by simp [dedupKeys]
  | kv :: rest => by
    have h1 := dedup_length_le rest
    have h2 := filter_length_le' (fun kv' => !(kvKey kv' == kvKey kv)) (dedupKeys rest)
    simp only [dedupKeys, List.length_cons]
    omega

theorem activeCount_replicate_nil : ∀ n, activeCount (List.replicate n Val.nil) = 0
  | 0 => rfl
  | n + 1 => by
    rw [List.replicate_succ, activeCount, activeCount_replicate_nil n]; rfl

theorem sizeEntries_nil_slots : ∀ (es : List (Nat × Bool)) (ts : List Ty) (n : Nat),
    sizeEntries es ts (List.replicate n Val.nil) = 0
  | [], _, _ => by rw [sizeEntries]; intros; simp_all
  | _ :: _, [], _ => by rw [sizeEntries]; intros; simp_all
  | _ :: _, _ :: _, 0 => by rw [List.replicate_zero, sizeEntries]; intros; simp_all
  | (eid, d) :: es, t :: ts, n + 1 => by
    rw [List.replicate_succ, sizeEntries, sizeEntries_nil_slots es ts n]
    intro i v h; cases h

theorem sizeEntries_replicate_nil (es : List (Nat × Bool)) (ts : List Ty) (n : Nat) :
    sizeEntries es ts (List.replicate n Val.nil) = 0 ∧ activeCount (List.replicate n Val.nil) = 0 :=
  ⟨sizeEntries_nil_slots es ts n, activeCount_replicate_nil n⟩

theorem min_LPre_of {hs : List Int} {t : Ty}
    (h : ∀ (p : UInt8) (v : Val) (bs : Bytes), matchP t p = true → LangP hs t p v bs → size t v ≤ 1 + bs.length)
    (v : Val) (bs : Bytes) (hl : LPre (matchP t) (LangP hs t) v bs) : size t v ≤ bs.length := by
  obtain ⟨p, pl, rfl, hm, hp⟩ := hl
  have := h p v pl hm hp
  simpa [Nat.add_comm] using this

theorem min_LIter_of {E : Nat → List Val → List Val → Bytes → Prop} {ents : List (Nat × Bool)} {tys : List Ty}
    (hE : ∀ (id : Nat) (cur out : List Val) (bs : Bytes) (idv : Int) (ib : Bytes), LInt .u64 idv ib → id = idv.toNat →
      E id cur out bs →
      sizeEntries ents tys out ≤ sizeEntries ents tys cur + ib.length + bs.length ∧ activeCount out ≤ activeCount cur + 1) :
    ∀ (n : Nat) (cur out : List Val) (bs : Bytes), LIter E n cur out bs →
      sizeEntries ents tys out ≤ sizeEntries ents tys cur + bs.length ∧ activeCount out ≤ activeCount cur + n
  | 0, cur, out, bs, h => by
    obtain ⟨rfl, rfl⟩ := h
    simp
  | n + 1, cur, out, bs, h => by
    obtain ⟨id, ib, b1, rest, cur', rfl, hid, he, hit⟩ := h
    have h1 := hE id.toNat cur cur' b1 id ib hid rfl he
    have h2 := min_LIter_of hE n cur' out rest hit
    simp only [List.length_append]
    omega

mutual
theorem min_LangP (hs : List Int) : ∀ (t : Ty), t.handleFree = true → ∀ (p : UInt8) (v : Val) (bs : Bytes),
    matchP t p = true → LangP hs t p v bs → size t v ≤ 1 + bs.length
  | .bool, _, p, v, bs, hm, h => by
    simp only [LangP] at h
    obtain ⟨rfl, rfl⟩ := h
    simp [size]
  | .int k nom, _, p, v, bs, hm, h => by
    simp only [LangP] at h
    obtain ⟨hl, rfl⟩ := h
    simp only [size]
    have hli : LInt k (intOfPayload k p bs) (p :: bs) :=
      ⟨p, bs, rfl, by rw [← Snd.intMatch_spec]; simpa [matchP] using hm, hl, rfl⟩
    have := LInt_min hli
    simpa [Nat.add_comm] using this
  | .float w, _, p, v, bs, hm, h => by
    simp only [LangP] at h
    obtain ⟨hl, rfl⟩ := h
    simp only [size]
    cases w <;> simp at hl ⊢ <;> omega
  | .str n cb, _, p, v, bs, hm, h => by
    simp only [LangP] at h
    obtain ⟨lb, szb, pl, rfl, hsz, hmod, hlen, rfl⟩ := h
    simp only [size, rawElems_len, List.length_append]
    have h1 := LSize_min hsz
    have h2 : lb / cb * cb = lb := Nat.div_mul_cancel (Nat.dvd_of_mod_eq_zero hmod)
    rw [h2] at hlen ⊢
    omega
  | .seq f e, hf, p, v, bs, hm, h => by
    simp only [LangP] at h
    by_cases hi : e.integral = true
    · simp only [hi, ↓reduceIte] at h
      obtain ⟨sz, n, szb, pl, rfl, hsz, hbc, hlen, rfl⟩ := h
      simp only [size, hi, ↓reduceIte, rawElems_len, List.length_append]
      have h1 := LSize_min hsz
      have hnw : n * e.width = sz := by
        cases f with
        | vector =>
          simp only [binCount] at hbc
          split at hbc
          · cases hbc
          · rename_i hmod
            simp only [Option.some.injEq] at hbc
            subst hbc
            have : sz % e.width = 0 := by simpa using hmod
            exact Nat.div_mul_cancel (Nat.dvd_of_mod_eq_zero this)
        | array len =>
          simp only [binCount] at hbc
          split at hbc
          · cases hbc
          · rename_i hne
            simp only [Option.some.injEq] at hbc
            subst hbc
            have : sz = len * e.width := by simpa using hne
            exact this.symm
        | carray len =>
          simp only [binCount] at hbc
          split at hbc
          · cases hbc
          · rename_i hne
            simp only [Option.some.injEq] at hbc
            subst hbc
            have : sz = len * e.width := by simpa using hne
            exact this.symm
        | lbuf cap sk unb =>
          simp only [binCount] at hbc
          split at hbc
          · cases hbc
          · rename_i h1'
            split at hbc
            · cases hbc
            · simp only [Option.some.injEq] at hbc
              subst hbc
              have : sz % e.width = 0 := by
                simp only [Bool.or_eq_true, not_or] at h1'
                simpa using h1'.2
              exact Nat.div_mul_cancel (Nat.dvd_of_mod_eq_zero this)
      rw [hnw] at hlen ⊢
      omega
    · simp only [hi, Bool.false_eq_true, ↓reduceIte] at h
      obtain ⟨n, szb, body, vs, rfl, hsz, hcnt, hlen, hall, rfl⟩ := h
      simp only [size, hi, Bool.false_eq_true, ↓reduceIte, List.length_append]
      have h1 := LSize_min hsz
      have hfe : e.handleFree = true := by simpa [Ty.handleFree] using hf
      have h2 := LAll_sum (g := size e) (fun a b hab => min_LPre_of (min_LangP hs e hfe) a b hab) vs body hall
      rw [hlen]
      omega
  | .prod k ts, hf, p, v, bs, hm, h => by
    simp only [LangP] at h
    obtain ⟨szb, body, vs, rfl, hsz, hp, rfl⟩ := h
    simp only [size, List.length_append]
    have h1 := LSize_min hsz
    have h2 := min_LangProd hs ts (by simpa [Ty.handleFree] using hf) vs body hp
    omega
  | .map o k v', hf, p, v, bs, hm, h => by
    simp only [LangP] at h
    obtain ⟨n, szb, body, kvs, rfl, hsz, hlen, hall, rfl⟩ := h
    simp only [size, List.length_append]
    have h1 := LSize_min hsz
    have hfk : k.handleFree = true ∧ v'.handleFree = true := by simpa [Ty.handleFree] using hf
    have h2 := LAll_sum (g := fun kv => size k (kvKey kv) + size v' (kvVal kv)) (fun kv b hkv => by
      obtain ⟨a, c, b1, b2, rfl, rfl, ha, hc⟩ := hkv
      have := min_LPre_of (min_LangP hs k hfk.1) a b1 ha
      have := min_LPre_of (min_LangP hs v' hfk.2) c b2 hc
      simp only [kvKey, kvVal, Val.elems, List.headD, List.tail, List.length_append]
      omega) kvs body hall
    have h3 := sumMap_dedup_le (fun kv => size k (kvKey kv) + size v' (kvVal kv)) kvs
    have h4 := encSize_mono (dedup_length_le kvs)
    rw [hlen] at h4
    omega
  | .opt t, hf, p, v, bs, hm, h => by
    simp only [LangP] at h
    by_cases hp : (p == 0xbe) = true
    · simp only [hp, ↓reduceIte] at h
      obtain ⟨rfl, rfl⟩ := h
      simp [size]
    · simp only [hp, Bool.false_eq_true, ↓reduceIte] at h
      obtain ⟨x, hx, rfl⟩ := h
      simp only [size]
      have hm' : matchP t p = true := by
        simp only [matchP, Bool.or_eq_true] at hm
        rcases hm with hm | hm
        · exact absurd hm hp
        · exact hm
      exact min_LangP hs t (by simpa [Ty.handleFree] using hf) p x bs hm' hx
  | .result en ek t, hf, p, v, bs, hm, h => by
    simp only [LangP] at h
    by_cases hp : (p == 0xb6) = true
    · simp only [hp, ↓reduceIte] at h
      obtain ⟨e, he, rfl⟩ := h
      simp only [size]
      have := LInt_min he
      omega
    · simp only [hp, Bool.false_eq_true, ↓reduceIte] at h
      obtain ⟨x, hx, rfl⟩ := h
      have hsize : size (.result en ek t) (.tag 1 x) = size t x := by
        rw [size]; intro e a b; exact absurd a (by decide)
      rw [hsize]
      have hm' : matchP t p = true := by
        simp only [matchP, Bool.or_eq_true] at hm
        rcases hm with hm | hm
        · exact absurd hm hp
        · exact hm
      exact min_LangP hs t (by simpa [Ty.handleFree] using hf) p x bs hm' hx
  | .variant ts, hf, p, v, bs, hm, h => by
    simp only [LangP] at h
    obtain ⟨idx, ib, rest, rfl, hidx, hlo, hhi, hcase⟩ := h
    have h1 := LInt_min hidx
    rcases hcase with ⟨rfl, rfl, rfl⟩ | ⟨hpos, x, hx, rfl⟩
    · simp only [size, List.length_append]
      simp at h1 ⊢
      omega
    · simp only [size, List.length_append]
      have hneg : ¬ idx < 0 := by omega
      simp only [hneg, ↓reduceIte]
      have := min_LangAlt hs ts (by simpa [Ty.handleFree] using hf) idx.toNat x rest hx
      omega
  | .handle n ht tk, hf, p, v, bs, hm, h => by simp [Ty.handleFree] at hf
  | .wrap t, hf, p, v, bs, hm, h => by
    simp only [LangP] at h
    simp only [size]
    exact min_LangP hs t (by simpa [Ty.handleFree] using hf) p v bs (by simpa [matchP] using hm) h
  | .ref t, hf, p, v, bs, hm, h => by
    simp only [LangP] at h
    simp only [size]
    exact min_LangP hs t (by simpa [Ty.handleFree] using hf) p v bs (by simpa [matchP] using hm) h
  | .table hash ents tys, hf, p, v, bs, hm, h => by
    simp only [LangP] at h
    obtain ⟨n, hb, szb, body, vs, rfl, hh, hsz, hit, rfl⟩ := h
    simp only [size, List.length_append]
    have h1 := LInt_min hh
    have h2 := LSize_min hsz
    have h3 := min_LIter_of (fun id cur out bs idv ib hid hidv he =>
      min_LangEntry hs ents tys (by simpa [Ty.handleFree] using hf) id cur out bs idv ib hid hidv he) n _ vs body hit
    have hz := sizeEntries_replicate_nil ents tys tys.length
    have h4 := encSize_mono (a := activeCount vs) (b := n) (by omega)
    omega
theorem min_LangProd (hs : List Int) : ∀ (ts : List Ty), handleFreeL ts = true → ∀ (vs : List Val) (bs : Bytes),
    LangProd hs ts vs bs → sizeProd ts vs ≤ bs.length
  | [], _, vs, bs, h => by
    simp only [LangProd] at h
    obtain ⟨rfl, rfl⟩ := h
    simp [sizeProd]
  | t :: ts, hf, vs, bs, h => by
    simp only [LangProd] at h
    obtain ⟨v, vs', b1, b2, rfl, rfl, hv, hrest⟩ := h
    have hf' : t.handleFree = true ∧ handleFreeL ts = true := by simpa [handleFreeL] using hf
    have h1 := min_LPre_of (min_LangP hs t hf'.1) v b1 hv
    have h2 := min_LangProd hs ts hf'.2 vs' b2 hrest
    simp only [sizeProd, List.length_append]
    omega
theorem min_LangAlt (hs : List Int) : ∀ (ts : List Ty), handleFreeL ts = true → ∀ (i : Nat) (v : Val) (bs : Bytes),
    LangAlt hs ts i v bs → sizeAlt ts i v ≤ bs.length
  | [], _, i, v, bs, h => by simp [LangAlt] at h
  | t :: ts, hf, 0, v, bs, h => by
    simp only [LangAlt] at h
    have hf' : t.handleFree = true ∧ handleFreeL ts = true := by simpa [handleFreeL] using hf
    simp only [sizeAlt]
    exact min_LPre_of (min_LangP hs t hf'.1) v bs h
  | t :: ts, hf, i + 1, v, bs, h => by
    simp only [LangAlt] at h
    have hf' : t.handleFree = true ∧ handleFreeL ts = true := by simpa [handleFreeL] using hf
    simp only [sizeAlt]
    exact min_LangAlt hs ts hf'.2 i v bs h
theorem min_LangEntry (hs : List Int) : ∀ (es : List (Nat × Bool)) (ts : List Ty), handleFreeL ts = true →
    ∀ (id : Nat) (cur out : List Val) (bs : Bytes) (idv : Int) (ib : Bytes), LInt .u64 idv ib → id = idv.toNat →
      LangEntry hs es ts id cur out bs →
      sizeEntries es ts out ≤ sizeEntries es ts cur + ib.length + bs.length ∧ activeCount out ≤ activeCount cur + 1
  | (eid, del) :: es, t :: ts, hf, id, c :: cs, out, bs, idv, ib, hid, hidv, h => by
    simp only [LangEntry] at h
    have hf' : t.handleFree = true ∧ handleFreeL ts = true := by simpa [handleFreeL] using hf
    by_cases hq : (eid == id) = true
    · simp only [hq, ↓reduceIte] at h
      by_cases hdel : del = true
      · simp only [hdel, ↓reduceIte] at h
        obtain ⟨_, rfl⟩ := h
        omega
      · simp only [hdel, Bool.false_eq_true, ↓reduceIte] at h
        obtain ⟨hnil, sz, szb, vb, pad, x, rfl, hsz, hx, hlen, rfl⟩ := h
        have hc : c = .nil := by cases c <;> simp [Val.isNil] at hnil ⊢
        subst hc
        have h1 := min_LPre_of (min_LangP hs t hf'.1) x vb hx
        have h2 := LSize_min hsz
        have h3 := encSize_mono (a := size t x) (b := sz) (by omega)
        have heid : eid = id := by simpa using hq
        have hnn : 0 ≤ idv := by
          obtain ⟨p, pl, _, _, _, rfl⟩ := hid
          exact u64_payload_nonneg p pl
        have h4 := LInt_min hid
        have hcast : ((eid : Nat) : Int) = idv := by rw [heid, hidv]; exact Int.toNat_of_nonneg hnn
        simp only [sizeEntries, activeCount, Val.isNil, List.length_append, hcast, Bool.false_eq_true, ↓reduceIte, if_true]
        unfold encSize at h2 h3 ⊢
        omega
    · simp only [hq, Bool.false_eq_true, ↓reduceIte] at h
      obtain ⟨r, hr, rfl⟩ := h
      have := min_LangEntry hs es ts hf'.2 id cs r bs idv ib hid hidv hr
      simp only [sizeEntries, activeCount]
      omega
  | [], ts, _, id, cur, out, bs, idv, ib, hid, hidv, h => by
    simp only [LangEntry] at h
    obtain ⟨_, rfl⟩ := h
    omega
  | _ :: _, [], _, id, cur, out, bs, idv, ib, hid, hidv, h => by
    simp only [LangEntry] at h
    obtain ⟨_, rfl⟩ := h
    omega
  | _ :: _, _ :: _, _, id, [], out, bs, idv, ib, hid, hidv, h => by
    simp only [LangEntry] at h
    obtain ⟨_, rfl⟩ := h
    omega
end

end Nop
