import NopModel.Lemmas.Snd
import NopModel.Lemmas.DecOK
/-! Soundness of the decoder with respect to the documented language: whatever `decPayload`
accepts is in `LangP`, and denotes the value returned. -/
namespace Nop

theorem snd_decBin (f : Flavor) (e : Ty) :
    Snd (decBin f e) (fun _ v bs => ∃ (sz n : Nat) (szb pl : Bytes), bs = szb ++ pl ∧ LSize sz szb ∧
      binCount f e.width sz = some n ∧ pl.length = n * e.width ∧ v = .list (rawElems (rawToVal e) e.width n pl)) := by
  unfold decBin
  cases f with
  | vector =>
    simp only
    apply Snd.mono (Snd.bind Snd.decSize (fun sz => Snd.guard (Snd.bind (Snd.rEnsure sz) (fun _ =>
      Snd.bind (Snd.rRead sz) (fun bs => Snd.pure _)))))
    rintro hs v bs ⟨sz, szb, b2, rfl, hsz, hmod, u, b3, b4, rfl, rfl, x, b5, b6, rfl, ⟨rfl, hlen⟩, rfl, rfl⟩
    have hm : sz % e.width = 0 := by simpa using hmod
    refine ⟨sz, sz / e.width, szb, x, by simp, hsz, by simp [binCount, hm], ?_, rfl⟩
    rw [hlen]; exact (Nat.div_mul_cancel (Nat.dvd_of_mod_eq_zero hm)).symm
  | array n =>
    simp only
    apply Snd.mono (Snd.bind Snd.decSize (fun sz => Snd.guard (Snd.bind (Snd.rRead (n * e.width)) (fun bs => Snd.pure _))))
    rintro hs v bs ⟨sz, szb, b2, rfl, hsz, hne, x, b5, b6, rfl, ⟨rfl, hlen⟩, rfl, rfl⟩
    have hm : sz = n * e.width := by simpa using hne
    exact ⟨sz, n, szb, x, by simp, hsz, by simp [binCount, hm], hlen, rfl⟩
  | carray n =>
    simp only
    apply Snd.mono (Snd.bind Snd.decSize (fun sz => Snd.guard (Snd.bind (Snd.rRead (n * e.width)) (fun bs => Snd.pure _))))
    rintro hs v bs ⟨sz, szb, b2, rfl, hsz, hne, x, b5, b6, rfl, ⟨rfl, hlen⟩, rfl, rfl⟩
    have hm : sz = n * e.width := by simpa using hne
    exact ⟨sz, n, szb, x, by simp, hsz, by simp [binCount, hm], hlen, rfl⟩
  | lbuf cap sk unb =>
    simp only
    apply Snd.mono (Snd.bind Snd.decSize (fun sz => Snd.guard (Snd.guard (Snd.bind (Snd.rRead (sz / e.width * e.width))
      (fun bs => Snd.pure _)))))
    rintro hs v bs ⟨sz, szb, b2, rfl, hsz, h1, h2, x, b5, b6, rfl, ⟨rfl, hlen⟩, rfl, rfl⟩
    refine ⟨sz, sz / e.width, szb, x, by simp, hsz, ?_, hlen, rfl⟩
    simp only [binCount]
    rw [if_neg (by simpa using h1), if_neg h2]

theorem snd_skipEntry : Snd skipEntry (fun _ _ bs => LSkip bs) := by
  unfold skipEntry
  apply Snd.mono (Snd.bind Snd.decSize (fun sz => Snd.rSkip sz))
  rintro hs u bs ⟨sz, szb, pl, rfl, hsz, hlen⟩
  exact ⟨sz, szb, pl, rfl, hsz, hlen⟩

/-- the element decoder `withPrefix (matchP t) (decPayload t · prior)` is sound for `LPre .. LangP` -/
theorem snd_elem {t : Ty} {k : UInt8 → M Val} (hk : ∀ p, Snd (k p) (fun hs v bs => LangP hs t p v bs)) :
    Snd (withPrefix (matchP t) k) (fun hs v bs => LPre (matchP t) (LangP hs t) v bs) :=
  Snd.mono (Snd.withPrefix hk) (fun _ _ _ h => h)

mutual
theorem snd_decPayload : ∀ (t : Ty) (p : UInt8) (prior : Val),
    Snd (decPayload t p prior) (fun hs v bs => LangP hs t p v bs)
  | .bool, p, pr => by
    simp only [decPayload]
    apply Snd.mono (Snd.pure _)
    rintro hs v bs ⟨rfl, rfl⟩
    simp [LangP]
  | .int k nom, p, pr => by
    simp only [decPayload]
    apply Snd.mono (Snd.map _ (Snd.decIntPayload k p))
    rintro hs v bs ⟨i, rfl, hl, rfl⟩
    simp [LangP, hl]
  | .float w, p, pr => by
    simp only [decPayload]
    apply Snd.mono (Snd.map _ (Snd.rRead _))
    rintro hs v bs ⟨x, rfl, rfl, hl⟩
    simp [LangP, hl]
  | .str n cb, p, pr => by
    simp only [decPayload]
    apply Snd.mono (Snd.bind Snd.decSize (fun lb => Snd.guard (Snd.bind (Snd.rEnsure _) (fun _ =>
      Snd.bind (Snd.rRead _) (fun bs => Snd.pure _)))))
    rintro hs v bs ⟨lb, szb, b2, rfl, hsz, hmod, u, b3, b4, rfl, rfl, x, b5, b6, rfl, ⟨rfl, hlen⟩, rfl, rfl⟩
    simp only [LangP]
    exact ⟨lb, szb, x, by simp, hsz, by simpa using hmod, hlen, rfl⟩
  | .seq f e, p, pr => by
    simp only [decPayload]
    by_cases hi : e.integral = true
    · simp only [hi, ↓reduceIte]
      apply Snd.mono (snd_decBin f e)
      intro hs v bs h
      simp only [LangP, hi, ↓reduceIte]
      exact h
    · simp only [hi, Bool.false_eq_true, ↓reduceIte]
      have helem : ∀ pr', Snd (withPrefix (matchP e) (fun q => decPayload e q pr'))
          (fun hs v bs => LPre (matchP e) (LangP hs e) v bs) :=
        fun pr' => snd_elem (fun q => snd_decPayload e q pr')
      cases f with
      | vector =>
        simp only
        apply Snd.mono (Snd.bind Snd.decSize (fun n => Snd.map _ (Snd.repM (helem (dflt e)) n)))
        rintro hs v bs ⟨n, szb, body, rfl, hsz, vs, rfl, hlen, hall⟩
        simp only [LangP, hi, Bool.false_eq_true, ↓reduceIte]
        exact ⟨n, szb, body, vs, rfl, hsz, rfl, hlen, hall, rfl⟩
      | array len =>
        simp only
        apply Snd.mono (Snd.bind Snd.decSize (fun n => Snd.guard (Snd.map _ (Snd.repP (dflt e) helem len pr.elems))))
        rintro hs v bs ⟨n, szb, body, rfl, hsz, hne, vs, rfl, hlen, hall⟩
        have hn : n = len := by simpa using hne
        simp only [LangP, hi, Bool.false_eq_true, ↓reduceIte]
        exact ⟨n, szb, body, vs, rfl, hsz, by simp [countOk, hn], by rw [hlen, hn], hall, rfl⟩
      | carray len =>
        simp only
        apply Snd.mono (Snd.bind Snd.decSize (fun n => Snd.guard (Snd.map _ (Snd.repP (dflt e) helem len pr.elems))))
        rintro hs v bs ⟨n, szb, body, rfl, hsz, hne, vs, rfl, hlen, hall⟩
        have hn : n = len := by simpa using hne
        simp only [LangP, hi, Bool.false_eq_true, ↓reduceIte]
        exact ⟨n, szb, body, vs, rfl, hsz, by simp [countOk, hn], by rw [hlen, hn], hall, rfl⟩
      | lbuf cap sk unb =>
        simp only
        apply Snd.mono (Snd.bind Snd.decSize (fun n => Snd.guard (Snd.map _ (Snd.repP (dflt e) helem n pr.elems))))
        rintro hs v bs ⟨n, szb, body, rfl, hsz, hne, vs, rfl, hlen, hall⟩
        simp only [LangP, hi, Bool.false_eq_true, ↓reduceIte]
        refine ⟨n, szb, body, vs, rfl, hsz, ?_, hlen, hall, rfl⟩
        simp only [countOk]
        rw [Bool.eq_false_iff.2 hne]; rfl
  | .prod k ts, p, pr => by
    simp only [decPayload]
    apply Snd.mono (Snd.bind Snd.decSize (fun n => Snd.guard (Snd.map _ (snd_decProd ts pr.elems))))
    rintro hs v bs ⟨n, szb, body, rfl, hsz, hne, vs, rfl, hp⟩
    have hn : n = ts.length := by simpa using hne
    simp only [LangP]
    exact ⟨szb, body, vs, rfl, hn ▸ hsz, hp, rfl⟩
  | .map o k v', p, pr => by
    simp only [decPayload]
    have hk := fun pr' => snd_elem (fun q => snd_decPayload k q pr')
    have hv := fun pr' => snd_elem (fun q => snd_decPayload v' q pr')
    have hkv := Snd.bind (hk (dflt k)) (fun a => Snd.bind (hv (dflt v')) (fun b => Snd.pure (Val.list [a, b])))
    apply Snd.mono (Snd.bind Snd.decSize (fun n => Snd.map _ (Snd.repM hkv n)))
    rintro hs v bs ⟨n, szb, body, rfl, hsz, kvs, rfl, hlen, hall⟩
    simp only [LangP]
    refine ⟨n, szb, body, kvs, rfl, hsz, hlen, ?_, rfl⟩
    clear hlen
    induction kvs generalizing body with
    | nil => exact hall
    | cons kv kvs ih =>
      obtain ⟨b1, b2, rfl, ⟨a, c1, c2, rfl, ha, c, c3, c4, rfl, hc, rfl, rfl⟩, hrest⟩ := hall
      exact ⟨c1 ++ (c3 ++ []), b2, rfl, ⟨a, c, c1, c3, rfl, by simp, ha, hc⟩, ih b2 hrest⟩
  | .opt t, p, pr => by
    simp only [decPayload]
    by_cases hp : (p == 0xbe) = true
    · simp only [hp, ↓reduceIte]
      apply Snd.mono (Snd.pure _)
      rintro hs v bs ⟨rfl, rfl⟩
      simp [LangP, hp]
    · simp only [hp, Bool.false_eq_true, ↓reduceIte]
      apply Snd.mono (Snd.map _ (snd_decPayload t p (dflt t)))
      rintro hs v bs ⟨x, rfl, hx⟩
      simp only [LangP, hp, Bool.false_eq_true, ↓reduceIte]
      exact ⟨x, hx, rfl⟩
  | .result en ek t, p, pr => by
    simp only [decPayload]
    by_cases hp : (p == 0xb6) = true
    · simp only [hp, ↓reduceIte]
      apply Snd.mono (Snd.map _ (Snd.decInt ek))
      rintro hs v bs ⟨e, rfl, he⟩
      simp only [LangP, hp, ↓reduceIte]
      exact ⟨e, he, rfl⟩
    · simp only [hp, Bool.false_eq_true, ↓reduceIte]
      apply Snd.mono (Snd.map _ (snd_decPayload t p (dflt t)))
      rintro hs v bs ⟨x, rfl, hx⟩
      simp only [LangP, hp, Bool.false_eq_true, ↓reduceIte]
      exact ⟨x, hx, rfl⟩
  | .variant ts, p, pr => by
    simp only [decPayload]
    have hstep : ∀ idx : Int, Snd (if (idx == -1) = true then
          withPrefix (fun p => p == 0xbe) (fun _ => (Pure.pure (Val.tag (-1) .nil) : M Val))
        else do
          let pr' : Option Val := match pr with
            | .tag i v => if i == idx then some v else none
            | _ => none
          let v ← decAlt ts idx.toNat pr'
          Pure.pure (Val.tag idx v))
        (fun hs v bs => (idx = -1 ∧ bs = [0xbe] ∧ v = .tag (-1) .nil) ∨
          (idx ≠ -1 ∧ ∃ x, LangAlt hs ts idx.toNat x bs ∧ v = .tag idx x)) := by
      intro idx
      by_cases h1 : (idx == -1) = true
      · rw [if_pos h1]
        apply Snd.mono (Snd.withPrefix (L := fun _ _ v bs => v = .tag (-1) .nil ∧ bs = []) (fun _ => Snd.pure _))
        rintro hs v bs ⟨q, pl, rfl, hq, rfl, rfl⟩
        have : q = 0xbe := by simpa using hq
        subst this
        exact Or.inl ⟨by simpa using h1, rfl, rfl⟩
      · rw [if_neg h1]
        apply Snd.mono (Snd.map _ (snd_decAlt ts idx.toNat _))
        rintro hs v bs ⟨x, rfl, hx⟩
        exact Or.inr ⟨by simpa using h1, x, hx, rfl⟩
    apply Snd.mono (Snd.bind (Snd.decInt .i32) (fun idx => Snd.guard (hstep idx)))
    rintro hs v bs ⟨idx, ib, rest, rfl, hidx, hrange, hcase⟩
    have hr : -1 ≤ idx ∧ idx < ts.length := by
      simp only [Bool.or_eq_true, decide_eq_true_eq, not_or, Int.not_lt] at hrange
      omega
    simp only [LangP]
    refine ⟨idx, ib, rest, rfl, hidx, hr.1, hr.2, ?_⟩
    rcases hcase with ⟨h1, h2, h3⟩ | ⟨h1, x, h2, h3⟩
    · exact Or.inl ⟨h1, h2, h3⟩
    · exact Or.inr ⟨by omega, x, h2, h3⟩
  | .handle n ht tk, p, pr => by
    simp only [decPayload]
    apply Snd.mono (Snd.bind (Snd.decInt tk) (fun h => Snd.guard (Snd.bind (Snd.decInt .i64) (fun r =>
      Snd.map _ (Snd.rGetHandle r)))))
    rintro hs v bs ⟨h, hb, b2, rfl, hh, hne, r, rb, b3, rfl, hr, hv, rfl, rfl, hres⟩
    have : h = (ht : Int) := by simpa using hne
    subst this
    simp only [LangP]
    exact ⟨hb, rb, r, hv, by simp, hh, hr, hres, rfl⟩
  | .wrap t, p, pr => by
    simp only [decPayload, LangP]; exact snd_decPayload t p pr
  | .ref t, p, pr => by
    simp only [decPayload, LangP]; exact snd_decPayload t p pr
  | .table hash ents tys, p, pr => by
    simp only [decPayload]
    apply Snd.mono (Snd.bind (Snd.decInt .u64) (fun h => Snd.guard (Snd.bind Snd.decSize (fun n =>
      Snd.map _ (Snd.iter (E := fun hs id cur out b => LangEntry hs ents tys id cur out b)
        (fun id cur => snd_decEntry ents tys id cur) n _)))))
    rintro hs v bs ⟨h, hb, b2, rfl, hh, hne, n, szb, body, rfl, hsz, vs, rfl, hit⟩
    have : h = (hash : Int) := by simpa using hne
    subst this
    simp only [LangP]
    exact ⟨n, hb, szb, body, vs, rfl, hh, hsz, hit, rfl⟩
theorem snd_decProd : ∀ (ts : List Ty) (prs : List Val),
    Snd (decProd ts prs) (fun hs vs bs => LangProd hs ts vs bs)
  | [], prs => by
    simp only [decProd]
    apply Snd.mono (Snd.pure _)
    rintro hs vs bs ⟨rfl, rfl⟩
    simp [LangProd]
  | t :: ts, prs => by
    simp only [decProd]
    apply Snd.mono (Snd.bind (snd_elem (fun q => snd_decPayload t q _)) (fun v => Snd.map _ (snd_decProd ts prs.tail)))
    rintro hs vs bs ⟨v, b1, b2, rfl, hv, vs', rfl, hrest⟩
    simp only [LangProd]
    exact ⟨v, vs', b1, b2, rfl, rfl, hv, hrest⟩
theorem snd_decAlt : ∀ (ts : List Ty) (i : Nat) (pr : Option Val),
    Snd (decAlt ts i pr) (fun hs v bs => LangAlt hs ts i v bs)
  | [], i, pr => by simp only [decAlt]; exact Snd.fail _ _
  | t :: _, 0, pr => by
    simp only [decAlt, LangAlt]
    exact snd_elem (fun q => snd_decPayload t q _)
  | _ :: ts, i + 1, pr => by
    simp only [decAlt, LangAlt]; exact snd_decAlt ts i pr
theorem snd_decEntry : ∀ (es : List (Nat × Bool)) (ts : List Ty) (id : Nat) (cur : List Val),
    Snd (decEntry es ts id cur) (fun hs out bs => LangEntry hs es ts id cur out bs)
  | (eid, del) :: es, t :: ts, id, c :: cs => by
    simp only [decEntry, LangEntry]
    by_cases hid : (eid == id) = true
    · simp only [hid, ↓reduceIte]
      by_cases hdel : del = true
      · simp only [hdel, ↓reduceIte]
        apply Snd.mono (Snd.map _ snd_skipEntry)
        rintro hs out bs ⟨u, rfl, hsk⟩
        exact ⟨hsk, rfl⟩
      · simp only [hdel, Bool.false_eq_true, ↓reduceIte]
        apply Snd.mono (Snd.guard (Snd.bind Snd.decSize (fun sz =>
          Snd.framed sz (fun v => Val.tag 1 v :: cs) (snd_elem (fun q => snd_decPayload t q (dflt t))))))
        rintro hs out bs ⟨hnil, sz, szb, b2, rfl, hsz, x, vb, pad, rfl, rfl, hx, hlen⟩
        exact ⟨by simpa using hnil, sz, szb, vb, pad, x, rfl, hsz, hx, hlen, rfl⟩
    · simp only [hid, Bool.false_eq_true, ↓reduceIte]
      apply Snd.mono (Snd.map _ (snd_decEntry es ts id cs))
      rintro hs out bs ⟨r, rfl, hr⟩
      exact ⟨r, hr, rfl⟩
  | [], ts, id, cur => by
    simp only [decEntry, LangEntry]
    apply Snd.mono (Snd.map _ snd_skipEntry)
    rintro hs out bs ⟨u, rfl, hsk⟩
    exact ⟨hsk, rfl⟩
  | _ :: _, [], id, cur => by
    simp only [decEntry, LangEntry]
    apply Snd.mono (Snd.map _ snd_skipEntry)
    rintro hs out bs ⟨u, rfl, hsk⟩
    exact ⟨hsk, rfl⟩
  | _ :: _, _ :: _, id, [] => by
    simp only [decEntry, LangEntry]
    apply Snd.mono (Snd.map _ snd_skipEntry)
    rintro hs out bs ⟨u, rfl, hsk⟩
    exact ⟨hsk, rfl⟩
end

/-- whatever a decoder run accepts in full is a word of the language: from the `DecOK` judgement of
the round-trip and cross-version theorems to membership in the grammar -/
theorem lang_of_decOK {t : Ty} {prior v : Val} {bs : Bytes} {ps : List (Int × Int)}
    (hd : DecOK (decInto t prior) v bs ps) (hs : List Int) (hr : Resolves hs ps) : Lang hs t v bs := by
  let s : Src := { bytes := bs, handles := hs }
  have hrun : decInto t prior s = (.ok v, s.adv bs.length) := hd s [] rfl (by simp [s]) rfl hr
  have hsnd : Snd (decInto t prior) (fun hs v bs => Lang hs t v bs) := by
    unfold decInto
    exact Snd.mono (Snd.withPrefix (fun p => snd_decPayload t p prior)) (fun _ _ _ h => h)
  obtain ⟨b1, rest, hb, hs', _, hl⟩ := hsnd s v _ rfl hrun
  have h3 : s.bytes = bs := rfl
  have hlen : b1.length = bs.length := by
    have h1 : (s.adv bs.length).bytes.length = (s.adv b1.length).bytes.length := by rw [← hs']
    simp only [adv_bytes, List.length_drop] at h1
    have h2 : b1.length ≤ s.bytes.length := by rw [hb]; simp
    rw [h3] at h1 h2
    omega
  rw [h3] at hb
  have hrest : rest = [] := by
    have : bs.length = b1.length + rest.length := by rw [hb]; simp
    exact List.eq_nil_of_length_eq_zero (by omega)
  subst hrest
  rw [List.append_nil] at hb
  rw [hb]; exact hl

end Nop
