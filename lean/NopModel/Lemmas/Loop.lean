import NopModel.Lemmas.Raw
namespace Nop

theorem repM_zero {α} (f : M α) : repM 0 f = (pure [] : M (List α)) := by
  funext s; simp [repM]

theorem repM_succ {α} (n : Nat) (f : M α) :
    repM (n + 1) f = (f >>= fun a => repM n f >>= fun as => pure (a :: as)) := by
  funext s
  simp only [repM, bind_run]
  cases f s with
  | mk r s' =>
    cases r with
    | error e => rfl
    | ok a =>
      simp only
      cases repM n f s' with
      | mk r2 s'' => cases r2 <;> rfl

theorem repP_zero {α} (pr : List α) (d : α) (f : α → M α) : repP 0 pr d f = (pure [] : M (List α)) := by
  funext s; simp [repP]

theorem repP_succ {α} (n : Nat) (pr : List α) (d : α) (f : α → M α) :
    repP (n + 1) pr d f = (f (pr.headD d) >>= fun a => repP n pr.tail d f >>= fun as => pure (a :: as)) := by
  funext s
  simp only [repP, bind_run]
  cases f (pr.headD d) s with
  | mk r s' =>
    cases r with
    | error e => rfl
    | ok a =>
      simp only
      cases repP n pr.tail d f s' with
      | mk r2 s'' => cases r2 <;> rfl

theorem itM_zero {α} (f : α → M α) (a : α) : itM 0 f a = (pure a : M α) := by
  funext s; simp [itM]

theorem itM_succ {α} (n : Nat) (f : α → M α) (a : α) :
    itM (n + 1) f a = (f a >>= fun a' => itM n f a') := by
  funext s
  simp only [itM, bind_run]
  cases f a s with
  | mk r s' => cases r <;> rfl

theorem repM_encAll {f : M Val} {enc : Val → HChan → Except Err (Bytes × HChan)}
    (hmono : ∀ a h b h', enc a h = .ok (b, h') → h.pushed <+: h'.pushed) :
    ∀ (as : List Val) (h : HChan) (bs : Bytes) (h' : HChan),
      (∀ a ∈ as, ∀ h b h', enc a h = .ok (b, h') → DecOK f a b h'.pushed) →
      encAll enc as h = .ok (bs, h') → DecOK (repM as.length f) as bs h'.pushed
  | [], h, bs, h', _, he => by
    simp only [encAll, Except.ok.injEq, Prod.mk.injEq] at he
    rw [← he.1, List.length_nil, repM_zero]
    exact DecOK.pure _
  | a :: as, h, bs, h', hd, he => by
    simp only [encAll] at he
    cases hfa : enc a h with
    | error e => simp [hfa] at he
    | ok r =>
      obtain ⟨b, h1⟩ := r
      simp only [hfa] at he
      cases hrest : encAll enc as h1 with
      | error e => simp [hrest] at he
      | ok r2 =>
        obtain ⟨bs', h2⟩ := r2
        simp only [hrest, Except.ok.injEq, Prod.mk.injEq] at he
        have ih := repM_encAll hmono as h1 bs' h2 (fun a' ha' => hd a' (List.mem_cons_of_mem _ ha')) hrest
        have h0 := hd a (List.mem_cons_self ..) h b h1 hfa
        have hm : h1.pushed <+: h2.pushed := encAll_mono as h1 bs' h2 (fun a _ => hmono a) hrest
        rw [← he.1, ← he.2, List.length_cons, repM_succ]
        exact DecOK.bind (h0.weaken hm) (DecOK.bind ih (DecOK.pure _) (by simp)) rfl

theorem repP_encAll {f : Val → M Val} {d : Val} {enc : Val → HChan → Except Err (Bytes × HChan)}
    (hmono : ∀ a h b h', enc a h = .ok (b, h') → h.pushed <+: h'.pushed) :
    ∀ (as : List Val) (h : HChan) (bs : Bytes) (h' : HChan) (pr : List Val),
      (∀ a ∈ as, ∀ p h b h', enc a h = .ok (b, h') → DecOK (f p) a b h'.pushed) →
      encAll enc as h = .ok (bs, h') → DecOK (repP as.length pr d f) as bs h'.pushed
  | [], h, bs, h', pr, _, he => by
    simp only [encAll, Except.ok.injEq, Prod.mk.injEq] at he
    rw [← he.1, List.length_nil, repP_zero]
    exact DecOK.pure _
  | a :: as, h, bs, h', pr, hd, he => by
    simp only [encAll] at he
    cases hfa : enc a h with
    | error e => simp [hfa] at he
    | ok r =>
      obtain ⟨b, h1⟩ := r
      simp only [hfa] at he
      cases hrest : encAll enc as h1 with
      | error e => simp [hrest] at he
      | ok r2 =>
        obtain ⟨bs', h2⟩ := r2
        simp only [hrest, Except.ok.injEq, Prod.mk.injEq] at he
        have ih := repP_encAll (f := f) (d := d) hmono as h1 bs' h2 pr.tail
          (fun a' ha' => hd a' (List.mem_cons_of_mem _ ha')) hrest
        have h0 := hd a (List.mem_cons_self ..) (pr.headD d) h b h1 hfa
        have hm : h1.pushed <+: h2.pushed := encAll_mono as h1 bs' h2 (fun a _ => hmono a) hrest
        rw [← he.1, ← he.2, List.length_cons, repP_succ]
        exact DecOK.bind (h0.weaken hm) (DecOK.bind ih (DecOK.pure _) (by simp)) rfl

/-- a value read through a `BoundedReader` of `sz ≥ its length` bytes, then `ReadPadding` over
whatever bytes fill the rest of the frame -/
theorem DecOK.framedPad {α β} {ps : List (Int × Int)} {m : M α} {a : α} {vb : Bytes} {sz : Nat} (g : α → β)
    (h : DecOK m a vb ps) (pad : Bytes) (hpadl : vb.length + pad.length = sz) :
    DecOK (rPush sz >>= fun _ => m >>= fun x => rPadPop >>= fun _ => Pure.pure (g x)) (g a)
      (vb ++ pad) ps := by
  have hsz : vb.length ≤ sz := by omega
  intro s rest hc hb hf hr
  have hlen : (vb ++ pad).length = sz := by
    simp; omega
  rw [hlen] at hf ⊢
  have hpush : rPush sz s = (.ok (), { s with frames := sz :: s.frames }) := rfl
  rw [bind_ok hpush]
  have hb1 : ({ s with frames := sz :: s.frames } : Src).bytes
      = vb ++ (pad ++ rest) := by
    simp [hb]
  have hf1 : framesOk vb.length ({ s with frames := sz :: s.frames } : Src).frames = true := by
    rw [framesOk_iff]
    intro b hbm
    simp only [List.mem_cons] at hbm
    rcases hbm with rfl | hbm
    · exact hsz
    · exact Nat.le_trans hsz ((framesOk_iff _ _).1 hf b hbm)
  rw [bind_ok (h _ _ (by simpa using hc) hb1 hf1 (by simpa using hr))]
  -- ReadPadding
  have hpad : rPadPop (({ s with frames := sz :: s.frames } : Src).adv vb.length)
      = (.ok (), s.adv sz) := by
    unfold rPadPop
    simp only [adv_frames, List.map_cons]
    have hskip := rSkip_ok (s := { (({ s with frames := sz :: s.frames } : Src).adv vb.length) with
        frames := s.frames.map (· - vb.length) }) (n := sz - vb.length)
      (by simpa using hc)
      (by simp [hb]; omega)
      (by
        apply framesOk_adv (a := vb.length)
        have : vb.length + (sz - vb.length) = sz := by omega
        rw [this]; exact hf)
    rw [hskip]
    simp only [Src.adv, List.drop_drop, List.map_map]
    congr 1
    · cases s; simp only [Src.mk.injEq, and_true]
      constructor
      · congr 1; omega
      · apply List.map_congr_left
        intro x _
        simp only [Function.comp]
        omega
  rw [bind_ok hpad]
  simp

/-- ... when the frame was filled by `WritePadding` (zero bytes) -/
theorem DecOK.framed {α β} {ps : List (Int × Int)} {m : M α} {a : α} {vb : Bytes} {sz : Nat} (g : α → β)
    (h : DecOK m a vb ps) (hsz : vb.length ≤ sz) :
    DecOK (rPush sz >>= fun _ => m >>= fun x => rPadPop >>= fun _ => Pure.pure (g x)) (g a)
      (vb ++ List.replicate (sz - vb.length) 0) ps :=
  DecOK.framedPad g h _ (by simp; omega)

end Nop
