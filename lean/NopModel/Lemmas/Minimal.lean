import NopModel.Lemmas.Int
import NopModel.Lemmas.Endian
/-! The encoder picks the narrowest integer class: no accepted encoding of the same value is
shorter. -/
namespace Nop

theorem encUnsigned_len (x : Nat) :
    (x < 128 → (encUnsigned x).length = 1) ∧ (x < 256 → (encUnsigned x).length ≤ 2) ∧
    (x < 65536 → (encUnsigned x).length ≤ 3) ∧ (x < 4294967296 → (encUnsigned x).length ≤ 5) ∧
    (encUnsigned x).length ≤ 9 := by
  unfold encUnsigned
  refine ⟨?_, ?_, ?_, ?_, ?_⟩ <;> (try intro h) <;> (repeat' split) <;> simp <;> omega

theorem encSigned_len (i : Int) :
    (-64 ≤ i ∧ i ≤ 127 → (encSigned i).length = 1) ∧ (-128 ≤ i ∧ i ≤ 127 → (encSigned i).length ≤ 2) ∧
    (-32768 ≤ i ∧ i ≤ 32767 → (encSigned i).length ≤ 3) ∧
    (-2147483648 ≤ i ∧ i ≤ 2147483647 → (encSigned i).length ≤ 5) ∧ (encSigned i).length ≤ 9 := by
  unfold encSigned
  refine ⟨?_, ?_, ?_, ?_, ?_⟩ <;> (try intro h) <;> (repeat' split) <;> simp <;> omega

private def pl4 (a b c d x : Nat) : Nat :=
  if (x == a) = true then 1 else if (x == b) = true then 2 else if (x == c) = true then 4
  else if (x == d) = true then 8 else 0

private theorem pl4_cases (a b c d x : Nat) :
    pl4 a b c d x = 0 ∨ pl4 a b c d x = 1 ∨ pl4 a b c d x = 2 ∨ pl4 a b c d x = 4 ∨ pl4 a b c d x = 8 := by
  unfold pl4
  by_cases h1 : (x == a) = true
  · exact Or.inr (Or.inl (by rw [if_pos h1]))
  · by_cases h2 : (x == b) = true
    · exact Or.inr (Or.inr (Or.inl (by rw [if_neg h1, if_pos h2])))
    · by_cases h3 : (x == c) = true
      · exact Or.inr (Or.inr (Or.inr (Or.inl (by rw [if_neg h1, if_neg h2, if_pos h3]))))
      · by_cases h4 : (x == d) = true
        · exact Or.inr (Or.inr (Or.inr (Or.inr (by rw [if_neg h1, if_neg h2, if_neg h3, if_pos h4]))))
        · exact Or.inl (by rw [if_neg h1, if_neg h2, if_neg h3, if_neg h4])

theorem payloadLen_cases (k : IntKind) (p : UInt8) :
    intPayloadLen k p = 0 ∨ intPayloadLen k p = 1 ∨ intPayloadLen k p = 2 ∨ intPayloadLen k p = 4 ∨
    intPayloadLen k p = 8 := by
  have e : intPayloadLen k p = if k.signed then pl4 0x84 0x85 0x86 0x87 p.toNat else pl4 0x80 0x81 0x82 0x83 p.toNat := rfl
  rw [e]
  split
  · exact pl4_cases _ _ _ _ _
  · exact pl4_cases _ _ _ _ _

theorem toS_bounds {b u : Nat} (hb : 0 < b) (hu : u < 2 ^ b) :
    -((2 ^ (b - 1) : Nat) : Int) ≤ toS b u ∧ toS b u < ((2 ^ (b - 1) : Nat) : Int) := by
  have h2 : 2 ^ b = 2 * 2 ^ (b - 1) := by
    cases b with
    | zero => omega
    | succ n => simp [Nat.pow_succ, Nat.mul_comm]
  unfold toS
  generalize 2 ^ (b - 1) = P at *
  split <;> omega

/-- minimality, unsigned kinds -/
theorem encInt_minimal_unsigned (k : IntKind) (hs : k.signed = false) (p : UInt8) (pl : Bytes)
    (hl : pl.length = intPayloadLen k p) (hm : intMatch k p = true) :
    (encUnsigned (intOfPayload k p pl).toNat).length ≤ 1 + pl.length := by
  have hb := UInt8.toNat_lt p
  have hle := Endian.ofLE_lt pl
  have hL := encUnsigned_len (intOfPayload k p pl).toNat
  simp only [intOfPayload, hs, Bool.false_eq_true, ↓reduceIte] at hL ⊢
  rcases payloadLen_cases k p with h0 | h1 | h2 | h4 | h8
  · -- fixint: only prefixes below 0x80 carry no payload and match an unsigned kind
    have hp : p.toNat < 128 := by
      unfold intMatch at hm
      unfold intPayloadLen at h0
      simp only [hs, Bool.false_eq_true, ↓reduceIte] at hm h0
      by_cases h : p.toNat < 128
      · exact h
      · exfalso
        simp only [h, decide_false, Bool.false_or] at hm
        repeat' split at h0
        all_goals simp_all
    simp only [h0, BEq.rfl, ↓reduceIte, Int.toNat_natCast] at hL ⊢
    rw [hL.1 hp]; omega
  · rw [h1] at hl
    simp only [h1] at hL ⊢
    have : ofLE pl < 256 := by rw [hl] at hle; simpa using hle
    simp only [show ((1 : Nat) == 0) = false from rfl, Bool.false_eq_true, ↓reduceIte, Int.toNat_natCast] at hL ⊢
    have := hL.2.1 this; omega
  · rw [h2] at hl
    simp only [h2] at hL ⊢
    have : ofLE pl < 65536 := by rw [hl] at hle; simpa using hle
    simp only [show ((2 : Nat) == 0) = false from rfl, Bool.false_eq_true, ↓reduceIte, Int.toNat_natCast] at hL ⊢
    have := hL.2.2.1 this; omega
  · rw [h4] at hl
    simp only [h4] at hL ⊢
    have : ofLE pl < 4294967296 := by rw [hl] at hle; simpa using hle
    simp only [show ((4 : Nat) == 0) = false from rfl, Bool.false_eq_true, ↓reduceIte, Int.toNat_natCast] at hL ⊢
    have := hL.2.2.2.1 this; omega
  · rw [h8] at hl
    simp only [h8] at hL ⊢
    simp only [show ((8 : Nat) == 0) = false from rfl, Bool.false_eq_true, ↓reduceIte, Int.toNat_natCast] at hL ⊢
    have := hL.2.2.2.2; omega

/-- minimality, signed kinds -/
theorem encInt_minimal_signed (k : IntKind) (hs : k.signed = true) (p : UInt8) (pl : Bytes)
    (hl : pl.length = intPayloadLen k p) (hm : intMatch k p = true) :
    (encSigned (intOfPayload k p pl)).length ≤ 1 + pl.length := by
  have hb := UInt8.toNat_lt p
  have hle := Endian.ofLE_lt pl
  have hL := encSigned_len (intOfPayload k p pl)
  simp only [intOfPayload, hs, ↓reduceIte] at hL ⊢
  rcases payloadLen_cases k p with h0 | h1 | h2 | h4 | h8
  · have hp : p.toNat < 128 ∨ 192 ≤ p.toNat := by
      unfold intMatch at hm
      unfold intPayloadLen at h0
      simp only [hs, ↓reduceIte] at hm h0
      by_cases h : p.toNat < 128
      · exact Or.inl h
      · by_cases h' : 192 ≤ p.toNat
        · exact Or.inr h'
        · exfalso
          simp only [h, h', decide_false, Bool.false_or] at hm
          repeat' split at h0
          all_goals simp_all
    simp only [h0, BEq.rfl, ↓reduceIte] at hL ⊢
    have hr : -64 ≤ toS 8 p.toNat ∧ toS 8 p.toNat ≤ 127 := by
      unfold toS
      simp only [show (2 : Nat) ^ (8 - 1) = 128 from rfl, show ((2 ^ 8 : Nat) : Int) = 256 from rfl]
      rcases hp with hp | hp
      · rw [if_pos hp]; omega
      · rw [if_neg (by omega)]; omega
    rw [hL.1 hr]; omega
  · rw [h1] at hl
    simp only [h1] at hL ⊢
    have hu : ofLE pl < 2 ^ 8 := by rw [hl] at hle; simpa using hle
    have hr := toS_bounds (b := 8) (by decide) hu
    simp only [show ((1 : Nat) == 0) = false from rfl, Bool.false_eq_true, ↓reduceIte, Nat.mul_one] at hL ⊢
    have := hL.2.1 ⟨by simpa using hr.1, by have := hr.2; simp at this; omega⟩
    omega
  · rw [h2] at hl
    simp only [h2] at hL ⊢
    have hu : ofLE pl < 2 ^ 16 := by rw [hl] at hle; simpa using hle
    have hr := toS_bounds (b := 16) (by decide) hu
    simp only [show ((2 : Nat) == 0) = false from rfl, Bool.false_eq_true, ↓reduceIte, Nat.reduceMul] at hL ⊢
    have := hL.2.2.1 ⟨by simpa using hr.1, by have := hr.2; simp at this; omega⟩
    omega
  · rw [h4] at hl
    simp only [h4] at hL ⊢
    have hu : ofLE pl < 2 ^ 32 := by rw [hl] at hle; simpa using hle
    have hr := toS_bounds (b := 32) (by decide) hu
    simp only [show ((4 : Nat) == 0) = false from rfl, Bool.false_eq_true, ↓reduceIte, Nat.reduceMul] at hL ⊢
    have := hL.2.2.2.1 ⟨by simpa using hr.1, by have := hr.2; simp at this; omega⟩
    omega
  · rw [h8] at hl
    simp only [h8] at hL ⊢
    simp only [show ((8 : Nat) == 0) = false from rfl, Bool.false_eq_true, ↓reduceIte] at hL ⊢
    have := hL.2.2.2.2; omega

end Nop
