import NopModel.Codec
import NopModel.Lemmas.Int
/-! The out-of-band channel only grows: `pushed` before a write is a prefix of `pushed` after. -/
namespace Nop

theorem encAll_mono {α} {f : α → HChan → Except Err (Bytes × HChan)} :
    ∀ (as : List α) (h : HChan) (bs : Bytes) (h' : HChan),
      (∀ a ∈ as, ∀ h b h', f a h = .ok (b, h') → h.pushed <+: h'.pushed) →
      encAll f as h = .ok (bs, h') → h.pushed <+: h'.pushed
  | [], h, bs, h', _, he => by
    simp only [encAll, Except.ok.injEq, Prod.mk.injEq] at he
    rw [← he.2]; exact List.prefix_refl _
  | a :: as, h, bs, h', hf, he => by
    simp only [encAll] at he
    cases hfa : f a h with
    | error e => simp [hfa] at he
    | ok r =>
      obtain ⟨b, h1⟩ := r
      simp only [hfa] at he
      cases hrest : encAll f as h1 with
      | error e => simp [hrest] at he
      | ok r2 =>
        obtain ⟨bs', h2⟩ := r2
        simp only [hrest, Except.ok.injEq, Prod.mk.injEq] at he
        have ih := encAll_mono as h1 bs' h2 (fun a' ha' => hf a' (List.mem_cons_of_mem _ ha')) hrest
        have h0 := hf a (List.mem_cons_self ..) h b h1 hfa
        rw [← he.2]; exact h0.trans ih

mutual
theorem encode_mono : ∀ (t : Ty) (v : Val) (h : HChan) (bs : Bytes) (h' : HChan),
    encode t v h = .ok (bs, h') → h.pushed <+: h'.pushed
  | .bool, v, h, bs, h', he => by
    cases v <;> simp [encode] at he
    rw [← he.2]; exact List.prefix_refl _
  | .int k nom, v, h, bs, h', he => by
    cases v <;> simp [encode] at he
    rw [← he.2]; exact List.prefix_refl _
  | .float w, v, h, bs, h', he => by
    cases v <;> simp [encode] at he
    rw [← he.2]; exact List.prefix_refl _
  | .str n cb, v, h, bs, h', he => by
    cases v <;> simp [encode] at he
    rw [← he.2]; exact List.prefix_refl _
  | .seq f e, v, h, bs, h', he => by
    cases v with
    | list vs =>
      simp only [encode] at he
      cases hov : lbufOver f vs.length with
      | true => simp [hov] at he
      | false =>
        cases hint : e.integral with
        | true =>
          simp only [hov, hint, Bool.false_eq_true, ↓reduceIte, Except.ok.injEq, Prod.mk.injEq] at he
          rw [← he.2]; exact List.prefix_refl _
        | false =>
          simp only [hov, hint, Bool.false_eq_true, ↓reduceIte] at he
          cases hall : encAll (encode e) vs h with
          | error er => simp [hall] at he
          | ok r =>
            obtain ⟨bs', h2⟩ := r
            simp only [hall, Except.ok.injEq, Prod.mk.injEq] at he
            rw [← he.2]
            exact encAll_mono vs h bs' h2 (fun a _ h b h' hab => encode_mono e a h b h' hab) hall
    | _ => simp [encode] at he
  | .prod k ts, v, h, bs, h', he => by
    cases v with
    | list vs =>
      simp only [encode] at he
      cases hp : encProd ts vs h with
      | error er => simp [hp] at he
      | ok r =>
        obtain ⟨bs', h2⟩ := r
        simp only [hp, Except.ok.injEq, Prod.mk.injEq] at he
        rw [← he.2]; exact encProd_mono ts vs h bs' h2 hp
    | _ => simp [encode] at he
  | .map o k v', v, h, bs, h', he => by
    cases v with
    | list kvs =>
      simp only [encode] at he
      cases hall : encAll (pairEnc (encode k) (encode v')) kvs h with
      | error er => simp [hall] at he
      | ok r =>
        obtain ⟨bs', h2⟩ := r
        simp only [hall, Except.ok.injEq, Prod.mk.injEq] at he
        rw [← he.2]
        refine encAll_mono kvs h bs' h2 ?_ hall
        intro kv _ h b h' hab
        simp only [pairEnc] at hab
        cases ha : encode k (kvKey kv) h with
        | error er => simp [ha] at hab
        | ok r1 =>
          obtain ⟨a, h1⟩ := r1
          simp only [ha] at hab
          cases hb : encode v' (kvVal kv) h1 with
          | error er => simp [hb] at hab
          | ok r2 =>
            obtain ⟨b', h2'⟩ := r2
            simp only [hb, Except.ok.injEq, Prod.mk.injEq] at hab
            rw [← hab.2]
            exact (encode_mono k _ _ _ _ ha).trans (encode_mono v' _ _ _ _ hb)
    | _ => simp [encode] at he
  | .opt t, v, h, bs, h', he => by
    cases v with
    | nil => simp [encode] at he; rw [← he.2]; exact List.prefix_refl _
    | tag i x => simp only [encode] at he; exact encode_mono t x h bs h' he
    | _ => simp [encode] at he
  | .result en ek t, v, h, bs, h', he => by
    cases v with
    | tag i x =>
      by_cases hi : i = 0
      · subst hi
        cases x with
        | int e =>
          simp only [encode, Except.ok.injEq, Prod.mk.injEq] at he
          rw [← he.2]; exact List.prefix_refl _
        | _ => simp only [encode] at he <;> exact encode_mono t _ h bs h' he
      · have : ∀ y, encode (.result en ek t) (.tag i y) h = encode t y h := by
          intro y; rw [encode]; intro e a b; exact absurd a hi
        rw [this] at he
        exact encode_mono t x h bs h' he
    | _ => simp [encode] at he
  | .variant ts, v, h, bs, h', he => by
    cases v with
    | tag i x =>
      simp only [encode] at he
      by_cases hi : i < 0
      · simp only [hi, ↓reduceIte, Except.ok.injEq, Prod.mk.injEq] at he
        rw [← he.2]; exact List.prefix_refl _
      · simp only [hi, ↓reduceIte] at he
        cases ha : encAlt ts i.toNat x h with
        | error er => simp [ha] at he
        | ok r =>
          obtain ⟨bs', h2⟩ := r
          simp only [ha, Except.ok.injEq, Prod.mk.injEq] at he
          rw [← he.2]; exact encAlt_mono ts i.toNat x h bs' h2 ha
    | _ => simp [encode] at he
  | .handle p ht tk, v, h, bs, h', he => by
    cases v with
    | int hv =>
      simp only [encode] at he
      split at he
      · simp at he
      · simp at he
      · split at he
        · simp at he
        · simp only [Except.ok.injEq, Prod.mk.injEq] at he
          rw [← he.2]; exact List.prefix_append _ _
    | _ => simp [encode] at he
  | .wrap t, v, h, bs, h', he => by
    simp only [encode] at he; exact encode_mono t v h bs h' he
  | .ref t, v, h, bs, h', he => by
    simp only [encode] at he; exact encode_mono t v h bs h' he
  | .table hash ents tys, v, h, bs, h', he => by
    cases v with
    | list vs =>
      simp only [encode] at he
      cases hp : encEntries ents tys vs h with
      | error er => simp [hp] at he
      | ok r =>
        obtain ⟨bs', h2⟩ := r
        simp only [hp, Except.ok.injEq, Prod.mk.injEq] at he
        rw [← he.2]; exact encEntries_mono ents tys vs h bs' h2 hp
    | _ => simp [encode] at he
theorem encProd_mono : ∀ (ts : List Ty) (vs : List Val) (h : HChan) (bs : Bytes) (h' : HChan),
    encProd ts vs h = .ok (bs, h') → h.pushed <+: h'.pushed
  | [], vs, h, bs, h', he => by
    cases vs <;> simp [encProd] at he
    rw [← he.2]; exact List.prefix_refl _
  | t :: ts, vs, h, bs, h', he => by
    cases vs with
    | nil => simp [encProd] at he
    | cons v vs =>
      simp only [encProd] at he
      cases ha : encode t v h with
      | error er => simp [ha] at he
      | ok r =>
        obtain ⟨a, h1⟩ := r
        simp only [ha] at he
        cases hb : encProd ts vs h1 with
        | error er => simp [hb] at he
        | ok r2 =>
          obtain ⟨b, h2⟩ := r2
          simp only [hb, Except.ok.injEq, Prod.mk.injEq] at he
          rw [← he.2]
          exact (encode_mono t v h a h1 ha).trans (encProd_mono ts vs h1 b h2 hb)
theorem encAlt_mono : ∀ (ts : List Ty) (i : Nat) (v : Val) (h : HChan) (bs : Bytes) (h' : HChan),
    encAlt ts i v h = .ok (bs, h') → h.pushed <+: h'.pushed
  | [], i, v, h, bs, h', he => by simp [encAlt] at he
  | t :: ts, 0, v, h, bs, h', he => by
    simp only [encAlt] at he; exact encode_mono t v h bs h' he
  | t :: ts, i + 1, v, h, bs, h', he => by
    simp only [encAlt] at he; exact encAlt_mono ts i v h bs h' he
theorem encEntries_mono : ∀ (ents : List (Nat × Bool)) (ts : List Ty) (vs : List Val) (h : HChan)
    (bs : Bytes) (h' : HChan),
    encEntries ents ts vs h = .ok (bs, h') → h.pushed <+: h'.pushed
  | [], ts, vs, h, bs, h', he => by
    cases ts <;> cases vs <;> simp [encEntries] at he
    rw [← he.2]; exact List.prefix_refl _
  | (eid, d) :: es, [], vs, h, bs, h', he => by simp [encEntries] at he
  | (eid, d) :: es, t :: ts, [], h, bs, h', he => by simp [encEntries] at he
  | (eid, d) :: es, t :: ts, v :: vs, h, bs, h', he => by
    simp only [encEntries] at he
    cases v with
    | tag i x =>
      simp only at he
      cases ha : encode t x h with
      | error er => simp [ha] at he
      | ok r =>
        obtain ⟨vb, h1⟩ := r
        simp only [ha] at he
        by_cases hsz : size t x < vb.length
        · simp [hsz] at he
        · simp only [hsz, ↓reduceIte] at he
          cases hb : encEntries es ts vs h1 with
          | error er => simp [hb] at he
          | ok r2 =>
            obtain ⟨rest, h2⟩ := r2
            simp only [hb, Except.ok.injEq, Prod.mk.injEq] at he
            rw [← he.2]
            exact (encode_mono t x h vb h1 ha).trans (encEntries_mono es ts vs h1 rest h2 hb)
    | int _ => simp only at he; exact encEntries_mono es ts vs h bs h' he
    | list _ => simp only at he; exact encEntries_mono es ts vs h bs h' he
    | nil => simp only at he; exact encEntries_mono es ts vs h bs h' he
end

end Nop
