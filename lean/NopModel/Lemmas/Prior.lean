import NopModel.Codec
import NopModel.Lemmas.Src
/-! C11: what `Read` returns does not depend on what the destination held before.
The model threads the prior contents exactly where the C++ reuses storage (array slots,
structure members, logical buffers, a variant whose index does not change); the theorems
show that no branch ever looks at them. -/
namespace Nop

theorem repP_congr {α} (n : Nat) (p1 p2 : List α) (d : α) (f : α → M α)
    (hf : ∀ a b, f a = f b) : repP n p1 d f = repP n p2 d f := by
  induction n generalizing p1 p2 with
  | zero => funext s; simp [repP]
  | succ n ih =>
    funext s
    simp only [repP]
    rw [hf (p1.headD d) (p2.headD d), ih p1.tail p2.tail]

mutual
theorem decPayload_prior : ∀ (t : Ty) (p : UInt8) (a b : Val), decPayload t p a = decPayload t p b
  | .bool, p, a, b => by simp [decPayload]
  | .int k nom, p, a, b => by simp [decPayload]
  | .float w, p, a, b => by simp [decPayload]
  | .str n cb, p, a, b => by simp [decPayload]
  | .seq f e, p, a, b => by
    simp only [decPayload]
    split
    · rfl
    · cases f with
      | vector => rfl
      | array n =>
        simp only
        congr 1; funext sz; split
        · rfl
        · congr 1
          exact repP_congr _ _ _ _ _ (fun x y => by
            congr 1; funext q; exact decPayload_prior e q x y)
      | carray n =>
        simp only
        congr 1; funext sz; split
        · rfl
        · congr 1
          exact repP_congr _ _ _ _ _ (fun x y => by
            congr 1; funext q; exact decPayload_prior e q x y)
      | lbuf cap sk unb =>
        simp only
        congr 1; funext sz; split
        · rfl
        · congr 1
          exact repP_congr _ _ _ _ _ (fun x y => by
            congr 1; funext q; exact decPayload_prior e q x y)
  | .prod k ts, p, a, b => by
    simp only [decPayload]
    congr 1; funext sz; split
    · rfl
    · congr 1
      exact decProd_prior ts a.elems b.elems
  | .map o k v, p, a, b => by simp [decPayload]
  | .opt t, p, a, b => by simp [decPayload]
  | .result en ek t, p, a, b => by simp [decPayload]
  | .variant ts, p, a, b => by
    simp only [decPayload]
    congr 1; funext idx
    split
    · rfl
    · split
      · rfl
      · congr 1
        exact decAlt_prior ts idx.toNat _ _
  | .handle pol ht tk, p, a, b => by simp [decPayload]
  | .wrap t, p, a, b => by simp only [decPayload]; exact decPayload_prior t p a b
  | .ref t, p, a, b => by simp only [decPayload]; exact decPayload_prior t p a b
  | .table hash ents tys, p, a, b => by simp [decPayload]
theorem decProd_prior : ∀ (ts : List Ty) (a b : List Val), decProd ts a = decProd ts b
  | [], a, b => by simp [decProd]
  | t :: ts, a, b => by
    simp only [decProd]
    have h1 : (withPrefix (matchP t) fun p => decPayload t p (a.headD (dflt t))) =
        (withPrefix (matchP t) fun p => decPayload t p (b.headD (dflt t))) := by
      congr 1; funext q; exact decPayload_prior t q _ _
    rw [h1, decProd_prior ts a.tail b.tail]
theorem decAlt_prior : ∀ (ts : List Ty) (i : Nat) (a b : Option Val), decAlt ts i a = decAlt ts i b
  | [], i, a, b => by simp [decAlt]
  | t :: ts, 0, a, b => by
    simp only [decAlt]
    congr 1; funext q; exact decPayload_prior t q _ _
  | t :: ts, i + 1, a, b => by
    simp only [decAlt]; exact decAlt_prior ts i a b
end

end Nop
