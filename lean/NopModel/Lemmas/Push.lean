import NopModel.Handles
import NopModel.Lemmas.Int
/-! Each handle in a written value is pushed exactly once, in encounter order. -/
namespace Nop

theorem encAll_pushes {α} {f : α → HChan → Except Err (Bytes × HChan)} {g : α → List Int} :
    ∀ (as : List α) (h : HChan) (bs : Bytes) (h' : HChan),
      (∀ a ∈ as, ∀ h b h', f a h = .ok (b, h') → Pushes (g a) h h') →
      encAll f as h = .ok (bs, h') → Pushes (as.flatMap g) h h'
  | [], h, bs, h', _, he => by
    simp only [encAll, Except.ok.injEq, Prod.mk.injEq] at he
    rw [← he.2]; exact Pushes.nil _
  | a :: as, h, bs, h', hf, he => by
    simp only [encAll] at he
    cases hfa : f a h with
    | error e => simp [hfa] at he
    | ok r =>
      obtain ⟨b, h1⟩ := r
      simp only [hfa] at he
      cases hrest : encAll f as h1 with
      | error e => simp [hrest] at he
      | ok r2 =>
        obtain ⟨bs', h2⟩ := r2
        simp only [hrest, Except.ok.injEq, Prod.mk.injEq] at he
        have ih := encAll_pushes as h1 bs' h2 (fun a' ha' => hf a' (List.mem_cons_of_mem _ ha')) hrest
        have h0 := hf a (List.mem_cons_self ..) h b h1 hfa
        rw [← he.2, List.flatMap_cons]; exact h0.append ih

mutual
theorem encode_pushes : ∀ (t : Ty) (v : Val) (h : HChan) (bs : Bytes) (h' : HChan),
    encode t v h = .ok (bs, h') → Pushes (handlesOf t v) h h'
  | .bool, v, h, bs, h', he => by
    cases v <;> simp [encode] at he
    rw [← he.2]; simp only [handlesOf]; exact Pushes.nil _
  | .int k nom, v, h, bs, h', he => by
    cases v <;> simp [encode] at he
    rw [← he.2]; simp only [handlesOf]; exact Pushes.nil _
  | .float w, v, h, bs, h', he => by
    cases v <;> simp [encode] at he
    rw [← he.2]; simp only [handlesOf]; exact Pushes.nil _
  | .str n cb, v, h, bs, h', he => by
    cases v <;> simp [encode] at he
    rw [← he.2]; simp only [handlesOf]; exact Pushes.nil _
  | .seq f e, v, h, bs, h', he => by
    cases v with
    | list vs =>
      simp only [encode] at he
      cases hov : lbufOver f vs.length with
      | true => simp [hov] at he
      | false =>
        cases hint : e.integral with
        | true =>
          simp only [hov, hint, Bool.false_eq_true, ↓reduceIte, Except.ok.injEq, Prod.mk.injEq] at he
          rw [← he.2]; simp only [handlesOf, hint, ↓reduceIte]; exact Pushes.nil _
        | false =>
          simp only [hov, hint, Bool.false_eq_true, ↓reduceIte] at he
          cases hall : encAll (encode e) vs h with
          | error er => simp [hall] at he
          | ok r =>
            obtain ⟨bs', h2⟩ := r
            simp only [hall, Except.ok.injEq, Prod.mk.injEq] at he
            rw [← he.2]
            simp only [handlesOf, hint, Bool.false_eq_true, ↓reduceIte]
            exact encAll_pushes vs h bs' h2 (fun a _ h b h' hab => encode_pushes e a h b h' hab) hall
    | _ => simp [encode] at he
  | .prod k ts, v, h, bs, h', he => by
    cases v with
    | list vs =>
      simp only [encode] at he
      cases hp : encProd ts vs h with
      | error er => simp [hp] at he
      | ok r =>
        obtain ⟨bs', h2⟩ := r
        simp only [hp, Except.ok.injEq, Prod.mk.injEq] at he
        rw [← he.2]; simp only [handlesOf]; exact encProd_pushes ts vs h bs' h2 hp
    | _ => simp [encode] at he
  | .map o k v', v, h, bs, h', he => by
    cases v with
    | list kvs =>
      simp only [encode] at he
      cases hall : encAll (pairEnc (encode k) (encode v')) kvs h with
      | error er => simp [hall] at he
      | ok r =>
        obtain ⟨bs', h2⟩ := r
        simp only [hall, Except.ok.injEq, Prod.mk.injEq] at he
        rw [← he.2]
        simp only [handlesOf]
        refine encAll_pushes kvs h bs' h2 ?_ hall
        intro kv _ h b h' hab
        simp only [pairEnc] at hab
        cases ha : encode k (kvKey kv) h with
        | error er => simp [ha] at hab
        | ok r1 =>
          obtain ⟨a, h1⟩ := r1
          simp only [ha] at hab
          cases hb : encode v' (kvVal kv) h1 with
          | error er => simp [hb] at hab
          | ok r2 =>
            obtain ⟨b', h2'⟩ := r2
            simp only [hb, Except.ok.injEq, Prod.mk.injEq] at hab
            rw [← hab.2]
            exact (encode_pushes k _ _ _ _ ha).append (encode_pushes v' _ _ _ _ hb)
    | _ => simp [encode] at he
  | .opt t, v, h, bs, h', he => by
    cases v with
    | nil => simp [encode] at he; rw [← he.2]; simp only [handlesOf]; exact Pushes.nil _
    | tag i x => simp only [encode] at he; simp only [handlesOf]; exact encode_pushes t x h bs h' he
    | _ => simp [encode] at he
  | .result en ek t, v, h, bs, h', he => by
    cases v with
    | tag i x =>
      by_cases hi : i = 0
      · subst hi
        cases x with
        | int e =>
          simp only [encode, Except.ok.injEq, Prod.mk.injEq] at he
          rw [← he.2]; simp only [handlesOf]; exact Pushes.nil _
        | _ => simp only [encode] at he <;> simp only [handlesOf] <;> exact encode_pushes t _ h bs h' he
      · have : ∀ y, encode (.result en ek t) (.tag i y) h = encode t y h := by
          intro y; rw [encode]; intro e a b; exact absurd a hi
        rw [this] at he
        have hh : ∀ y, handlesOf (.result en ek t) (.tag i y) = handlesOf t y := by
          intro y; rw [handlesOf]; intro e a b; exact absurd a hi
        rw [hh]
        exact encode_pushes t x h bs h' he
    | _ => simp [encode] at he
  | .variant ts, v, h, bs, h', he => by
    cases v with
    | tag i x =>
      simp only [encode] at he
      by_cases hi : i < 0
      · simp only [hi, ↓reduceIte, Except.ok.injEq, Prod.mk.injEq] at he
        rw [← he.2]; simp only [handlesOf, hi, ↓reduceIte]; exact Pushes.nil _
      · simp only [hi, ↓reduceIte] at he
        cases ha : encAlt ts i.toNat x h with
        | error er => simp [ha] at he
        | ok r =>
          obtain ⟨bs', h2⟩ := r
          simp only [ha, Except.ok.injEq, Prod.mk.injEq] at he
          rw [← he.2]; simp only [handlesOf, hi, ↓reduceIte]; exact encAlt_pushes ts i.toNat x h bs' h2 ha
    | _ => simp [encode] at he
  | .handle p ht tk, v, h, bs, h', he => by
    cases v with
    | int hv =>
      simp only [encode] at he
      split at he
      · simp at he
      · simp at he
      · rename_i r rest hrefs
        split at he
        · simp at he
        · simp only [Except.ok.injEq, Prod.mk.injEq] at he
          rw [← he.2]; simp only [handlesOf]
          exact ⟨[r], rfl, by simp [hrefs], by simp⟩
    | _ => simp [encode] at he
  | .wrap t, v, h, bs, h', he => by
    simp only [encode] at he; simp only [handlesOf]; exact encode_pushes t v h bs h' he
  | .ref t, v, h, bs, h', he => by
    simp only [encode] at he; simp only [handlesOf]; exact encode_pushes t v h bs h' he
  | .table hash ents tys, v, h, bs, h', he => by
    cases v with
    | list vs =>
      simp only [encode] at he
      cases hp : encEntries ents tys vs h with
      | error er => simp [hp] at he
      | ok r =>
        obtain ⟨bs', h2⟩ := r
        simp only [hp, Except.ok.injEq, Prod.mk.injEq] at he
        rw [← he.2]; simp only [handlesOf]; exact encEntries_pushes ents tys vs h bs' h2 hp
    | _ => simp [encode] at he
theorem encProd_pushes : ∀ (ts : List Ty) (vs : List Val) (h : HChan) (bs : Bytes) (h' : HChan),
    encProd ts vs h = .ok (bs, h') → Pushes (handlesProd ts vs) h h'
  | [], vs, h, bs, h', he => by
    cases vs <;> simp [encProd] at he
    rw [← he.2]; simp only [handlesProd]; exact Pushes.nil _
  | t :: ts, vs, h, bs, h', he => by
    cases vs with
    | nil => simp [encProd] at he
    | cons v vs =>
      simp only [encProd] at he
      cases ha : encode t v h with
      | error er => simp [ha] at he
      | ok r =>
        obtain ⟨a, h1⟩ := r
        simp only [ha] at he
        cases hb : encProd ts vs h1 with
        | error er => simp [hb] at he
        | ok r2 =>
          obtain ⟨b, h2⟩ := r2
          simp only [hb, Except.ok.injEq, Prod.mk.injEq] at he
          rw [← he.2]; simp only [handlesProd]
          exact (encode_pushes t v h a h1 ha).append (encProd_pushes ts vs h1 b h2 hb)
theorem encAlt_pushes : ∀ (ts : List Ty) (i : Nat) (v : Val) (h : HChan) (bs : Bytes) (h' : HChan),
    encAlt ts i v h = .ok (bs, h') → Pushes (handlesAlt ts i v) h h'
  | [], i, v, h, bs, h', he => by simp [encAlt] at he
  | t :: ts, 0, v, h, bs, h', he => by
    simp only [encAlt] at he; simp only [handlesAlt]; exact encode_pushes t v h bs h' he
  | t :: ts, i + 1, v, h, bs, h', he => by
    simp only [encAlt] at he; simp only [handlesAlt]; exact encAlt_pushes ts i v h bs h' he
theorem encEntries_pushes : ∀ (ents : List (Nat × Bool)) (ts : List Ty) (vs : List Val) (h : HChan)
    (bs : Bytes) (h' : HChan),
    encEntries ents ts vs h = .ok (bs, h') → Pushes (handlesEntries ts vs) h h'
  | [], ts, vs, h, bs, h', he => by
    cases ts <;> cases vs <;> simp [encEntries] at he
    rw [← he.2]; simp only [handlesEntries]; exact Pushes.nil _
  | (eid, d) :: es, [], vs, h, bs, h', he => by simp [encEntries] at he
  | (eid, d) :: es, t :: ts, [], h, bs, h', he => by simp [encEntries] at he
  | (eid, d) :: es, t :: ts, v :: vs, h, bs, h', he => by
    simp only [encEntries] at he
    cases v with
    | tag i x =>
      simp only at he
      cases ha : encode t x h with
      | error er => simp [ha] at he
      | ok r =>
        obtain ⟨vb, h1⟩ := r
        simp only [ha] at he
        by_cases hsz : size t x < vb.length
        · simp [hsz] at he
        · simp only [hsz, ↓reduceIte] at he
          cases hb : encEntries es ts vs h1 with
          | error er => simp [hb] at he
          | ok r2 =>
            obtain ⟨rest, h2⟩ := r2
            simp only [hb, Except.ok.injEq, Prod.mk.injEq] at he
            rw [← he.2]; simp only [handlesEntries]
            exact (encode_pushes t x h vb h1 ha).append (encEntries_pushes es ts vs h1 rest h2 hb)
    | int _ => simp only at he; simp only [handlesEntries, List.nil_append]; exact encEntries_pushes es ts vs h bs h' he
    | list _ => simp only at he; simp only [handlesEntries, List.nil_append]; exact encEntries_pushes es ts vs h bs h' he
    | nil => simp only at he; simp only [handlesEntries, List.nil_append]; exact encEntries_pushes es ts vs h bs h' he
end

end Nop
