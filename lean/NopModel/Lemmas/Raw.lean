import NopModel.Lemmas.DecOK
namespace Nop

theorem rawElems_flatMap (f : Bytes → Val) (g : Val → Bytes) (w : Nat) :
    ∀ (vs : List Val), (∀ v ∈ vs, (g v).length = w ∧ f (g v) = v) →
      rawElems f w vs.length (vs.flatMap g) = vs
  | [], _ => by simp [rawElems]
  | v :: vs, h => by
    have hv := h v (List.mem_cons_self ..)
    have ih := rawElems_flatMap f g w vs (fun x hx => h x (List.mem_cons_of_mem _ hx))
    simp only [List.length_cons, rawElems, List.flatMap_cons]
    rw [List.take_left' hv.1, List.drop_left' hv.1, hv.2, ih]

theorem flatMap_length_eq {α} (g : α → Bytes) (w : Nat) :
    ∀ (as : List α), (∀ a ∈ as, (g a).length = w) → (as.flatMap g).length = as.length * w
  | [], _ => by simp
  | a :: as, h => by
    have := flatMap_length_eq g w as (fun x hx => h x (List.mem_cons_of_mem _ hx))
    have := h a (List.mem_cons_self ..)
    simp only [List.flatMap_cons, List.length_append, List.length_cons, Nat.succ_mul]
    omega

theorem allP_iff {α} (f : α → Bool) (l : List α) : allP f l = true ↔ ∀ a ∈ l, f a = true := by
  induction l with
  | nil => simp [allP]
  | cons a l ih => simp [allP, ih]

theorem pow256 (n : Nat) : 256 ^ n = 2 ^ (8 * n) := by
  rw [Nat.pow_mul]

/-- string code units -/
theorem unit_roundtrip {cb : Nat} {v : Val} (hv : unitOk cb v = true) :
    (unitToRaw cb v).length = cb ∧ (fun b => Val.int (ofLE b)) (unitToRaw cb v) = v := by
  cases v with
  | int i =>
    simp only [unitOk, Bool.and_eq_true, decide_eq_true_eq] at hv
    have hu : toU (8 * cb) i = i.toNat := toU_of_nonneg hv.1 hv.2
    have hlt : i.toNat < 256 ^ cb := by rw [pow256]; omega
    refine ⟨by simp [unitToRaw], ?_⟩
    simp only [unitToRaw, hu, ofLE_leBytes_of_lt hlt]
    congr 1; omega
  | _ => simp [unitOk] at hv

/-- elements of BIN containers -/
theorem raw_roundtrip {e : Ty} (he : e.integral = true) {v : Val} (hv : valid e v = true) :
    (valToRaw e v).length = e.width ∧ rawToVal e (valToRaw e v) = v := by
  cases e with
  | bool =>
    cases v with
    | int i =>
      simp only [valid, Bool.or_eq_true, beq_iff_eq] at hv
      have hu : toU 8 i = i.toNat := toU_of_nonneg (by omega) (by simp; omega)
      refine ⟨by simp [valToRaw, Ty.width], ?_⟩
      simp only [valToRaw, rawToVal, Ty.width, Nat.mul_one, hu]
      rw [ofLE_leBytes_of_lt (by omega)]
      congr 1; omega
    | _ => simp [valid] at hv
  | int k nom =>
    cases v with
    | int i =>
      simp only [valid] at hv
      refine ⟨by simp [valToRaw, intToRaw, Ty.width], ?_⟩
      simp only [valToRaw, rawToVal, intToRaw, rawToInt]
      have hb : k.bits = 8 * k.bytes := rfl
      have hle : ofLE (leBytes k.bytes (toU k.bits i)) = toU k.bits i := by
        rw [hb]; exact ofLE_leBytes_toU k.bytes i
      rw [hle]
      congr 1
      cases hs : k.signed
      · simp only [IntKind.inRange, IntKind.minVal, IntKind.maxVal, hs, Bool.false_eq_true, ↓reduceIte,
          Bool.and_eq_true, decide_eq_true_eq] at hv
        simp only [Bool.false_eq_true, ↓reduceIte]
        have hp : 0 < 2 ^ k.bits := Nat.two_pow_pos _
        rw [toU_of_nonneg hv.1 (by omega)]
        omega
      · simp only [IntKind.inRange, IntKind.minVal, IntKind.maxVal, hs, ↓reduceIte,
          Bool.and_eq_true, decide_eq_true_eq] at hv
        simp only [↓reduceIte]
        have hpos : 0 < k.bits := by cases k <;> simp [IntKind.bits, IntKind.bytes]
        exact toS_toU hpos hv.1 (by omega)
    | _ => simp [valid] at hv
  | _ => simp [Ty.integral] at he

theorem filter_all {α} (p : α → Bool) (l : List α) (h : l.all p = true) : l.filter p = l := by
  rw [List.filter_eq_self]
  simpa [List.all_eq_true] using h

theorem dedupKeys_of_distinct : ∀ (kvs : List Val), keysDistinct kvs = true → dedupKeys kvs = kvs
  | [], _ => rfl
  | kv :: rest, h => by
    simp only [keysDistinct, Bool.and_eq_true] at h
    simp only [dedupKeys, dedupKeys_of_distinct rest h.2, filter_all _ _ h.1]

end Nop
