import NopModel.Lemmas.Loop
import NopModel.Lemmas.Size
namespace Nop

/-! monad laws for `M` (used to re-associate the entry search) -/
theorem M.bind_assoc {α β γ} (m : M α) (f : α → M β) (g : β → M γ) :
    (m >>= f) >>= g = m >>= fun a => f a >>= g := by
  funext s
  simp only [bind_run]
  cases m s with
  | mk r s' => cases r <;> rfl

theorem M.pure_bind {α β} (a : α) (f : α → M β) : (pure a : M α) >>= f = f a := by
  funext s; rfl

theorem decInto_def (t : Ty) (prior : Val) :
    decInto t prior = withPrefix (matchP t) (fun p => decPayload t p prior) := rfl

/-- the statement proved for every well-formed type by the mutual induction -/
def RT (t : Ty) : Prop :=
  ∀ (v : Val) (h : HChan) (bs : Bytes) (h' : HChan) (prior : Val),
    valid t v = true → encode t v h = .ok (bs, h') →
    ∃ p pl, bs = p :: pl ∧ matchP t p = true ∧ DecOK (decPayload t p prior) v pl h'.pushed

theorem RT.decInto {t : Ty} (hrt : RT t) {v : Val} {h : HChan} {bs : Bytes} {h' : HChan} (prior : Val)
    (hv : valid t v = true) (he : encode t v h = .ok (bs, h')) :
    DecOK (Nop.decInto t prior) v bs h'.pushed := by
  obtain ⟨p, pl, rfl, hm, hd⟩ := hrt v h bs h' prior hv he
  exact DecOK.withPrefix hm hd

/-- first byte of an integer encoding matches its own kind -/
theorem encInt_head {k : IntKind} {i : Int} (hr : k.inRange i = true) :
    ∃ p pl, encInt k i = p :: pl ∧ intMatch k p = true ∧
      ∀ ps, DecOK (decIntPayload k p) i pl ps := by
  obtain ⟨p, pl, h1, h2, h3, h4⟩ := encInt_shape hr
  refine ⟨p, pl, h1, h3, ?_⟩
  intro ps s rest hc hb hf _
  unfold decIntPayload
  by_cases h0 : intPayloadLen k p = 0
  · have : pl = [] := List.eq_nil_of_length_eq_zero (by omega)
    subst this
    simp [h0, ← h4]
  · have hne : (intPayloadLen k p == 0) = false := by simp [h0]
    simp only [hne, Bool.false_eq_true, ↓reduceIte]
    rw [rRead_ok hc (by rw [hb, ← h2]; simp) (by rw [← h2]; exact hf)]
    simp [hb, ← h2, h4]

theorem width_pos (t : Ty) : 0 < t.width := by
  cases t <;> simp [Ty.width]
  rename_i k _; cases k <;> simp [IntKind.bytes]

theorem rt_seq (f : Flavor) (e : Ty) (hrt : RT e) : RT (.seq f e) := by
  intro v h bs h' prior hv he
  cases v with
  | list vs =>
    simp only [valid, Bool.and_eq_true, decide_eq_true_eq] at hv
    obtain ⟨⟨hfl, hall⟩, hsz⟩ := hv
    have hall' := (allP_iff _ _).1 hall
    have hw := width_pos e
    simp only [encode] at he
    cases hov : lbufOver f vs.length with
    | true => simp [hov] at he
    | false =>
      cases hint : e.integral with
      | true =>
        simp only [hov, hint, Bool.false_eq_true, ↓reduceIte, Except.ok.injEq, Prod.mk.injEq] at he
        obtain ⟨rfl, rfl⟩ := he
        refine ⟨_, _, rfl, by simp [matchP, hint], ?_⟩
        have hlen : (vs.flatMap (valToRaw e)).length = vs.length * e.width :=
          flatMap_length_eq _ _ vs (fun a ha => (raw_roundtrip hint (hall' a ha)).1)
        have hraw := rawElems_flatMap (rawToVal e) (valToRaw e) e.width vs
          (fun a ha => raw_roundtrip hint (hall' a ha))
        have hmod : (vs.length * e.width % e.width != 0) = false := by simp
        have hdiv : vs.length * e.width / e.width = vs.length := Nat.mul_div_cancel _ hw
        have hread := DecOK.map (ps := h.pushed)
          (g := fun bs => Val.list (rawElems (rawToVal e) e.width vs.length bs)) (DecOK.read hlen)
        rw [hraw] at hread
        simp only [decPayload, hint, ↓reduceIte, decBin]
        refine DecOK.bind (DecOK.decSize hsz) ?_ rfl
        cases f with
        | vector =>
          simp only [hmod, Bool.false_eq_true, ↓reduceIte, hdiv]
          exact DecOK.ensureThen (by rw [hlen]; exact Nat.le_refl _) hread
        | array n =>
          simp only [beq_iff_eq] at hfl
          subst hfl
          simp only [bne_self_eq_false, Bool.false_eq_true, ↓reduceIte]
          exact hread
        | carray n =>
          simp only [beq_iff_eq] at hfl
          subst hfl
          simp only [bne_self_eq_false, Bool.false_eq_true, ↓reduceIte]
          exact hread
        | lbuf cap sk unb =>
          simp only [Bool.and_eq_true, Bool.or_eq_true, decide_eq_true_eq] at hfl
          have hc1 : ((!unb && decide (vs.length * e.width > cap * e.width)) ||
              vs.length * e.width % e.width != 0) = false := by
            simp only [hmod, Bool.or_false, Bool.and_eq_false_iff, Bool.not_eq_false', decide_eq_false_iff_not]
            rcases hfl.1 with hu | hc
            · exact Or.inl hu
            · right; intro hgt
              exact absurd (Nat.mul_le_mul_right e.width hc) (by omega)
          have hc2 : ¬ (sk.maxVal < (vs.length : Int)) := by omega
          simp only [hc1, Bool.false_eq_true, ↓reduceIte, hdiv, hc2]
          exact hread
      | false =>
        simp only [hov, hint, Bool.false_eq_true, ↓reduceIte] at he
        cases hall2 : encAll (encode e) vs h with
        | error er => simp [hall2] at he
        | ok r =>
          obtain ⟨ebs, h2⟩ := r
          simp only [hall2, Except.ok.injEq, Prod.mk.injEq] at he
          obtain ⟨rfl, rfl⟩ := he
          refine ⟨_, _, rfl, by simp [matchP, hint], ?_⟩
          have hn : vs.length < 2 ^ 64 := by
            have : vs.length ≤ vs.length * e.width := Nat.le_mul_of_pos_right _ hw
            omega
          simp only [decPayload, hint, Bool.false_eq_true, ↓reduceIte]
          cases f with
          | vector =>
            simp only
            refine DecOK.bind (DecOK.decSize hn) ?_ rfl
            refine DecOK.map (g := Val.list) ?_
            exact repM_encAll (f := withPrefix (matchP e) (fun p => decPayload e p (dflt e)))
              (fun a h b h' hab => encode_mono e a h b h' hab) vs h ebs h2
              (fun a ha h b h' hab => hrt.decInto (dflt e) (hall' a ha) hab) hall2
          | array n =>
            simp only [beq_iff_eq] at hfl
            subst hfl
            simp only
            refine DecOK.bind (DecOK.decSize hn) ?_ rfl
            simp only [bne_self_eq_false, Bool.false_eq_true, ↓reduceIte]
            refine DecOK.map (g := Val.list) ?_
            exact repP_encAll (f := fun pr => withPrefix (matchP e) (fun p => decPayload e p pr))
              (fun a h b h' hab => encode_mono e a h b h' hab) vs h ebs h2 prior.elems
              (fun a ha pr h b h' hab => hrt.decInto pr (hall' a ha) hab) hall2
          | carray n =>
            simp only [beq_iff_eq] at hfl
            subst hfl
            simp only
            refine DecOK.bind (DecOK.decSize hn) ?_ rfl
            simp only [bne_self_eq_false, Bool.false_eq_true, ↓reduceIte]
            refine DecOK.map (g := Val.list) ?_
            exact repP_encAll (f := fun pr => withPrefix (matchP e) (fun p => decPayload e p pr))
              (fun a h b h' hab => encode_mono e a h b h' hab) vs h ebs h2 prior.elems
              (fun a ha pr h b h' hab => hrt.decInto pr (hall' a ha) hab) hall2
          | lbuf cap sk unb =>
            simp only [Bool.and_eq_true, Bool.or_eq_true, decide_eq_true_eq] at hfl
            simp only
            refine DecOK.bind (DecOK.decSize hn) ?_ rfl
            have hc1 : ((!unb && decide (vs.length > cap)) || decide (sk.maxVal < (vs.length : Int))) = false := by
              simp only [Bool.or_eq_false_iff, Bool.and_eq_false_iff, Bool.not_eq_false', decide_eq_false_iff_not]
              refine ⟨?_, by omega⟩
              rcases hfl.1 with hu | hc
              · exact Or.inl hu
              · right; omega
            simp only [hc1, Bool.false_eq_true, ↓reduceIte]
            refine DecOK.map (g := Val.list) ?_
            exact repP_encAll (f := fun pr => withPrefix (matchP e) (fun p => decPayload e p pr))
              (fun a h b h' hab => encode_mono e a h b h' hab) vs h ebs h2 prior.elems
              (fun a ha pr h b h' hab => hrt.decInto pr (hall' a ha) hab) hall2
  | _ => simp [valid] at hv


theorem encSize_eq (n : Nat) : encSize n = encInt .u64 n := rfl

theorem u64_inRange {n : Nat} (hn : n < 2 ^ 64) : IntKind.u64.inRange (n : Int) = true := by
  simp [IntKind.inRange, IntKind.minVal, IntKind.maxVal, IntKind.signed, IntKind.bits, IntKind.bytes]
  omega

theorem i32_inRange {i : Int} (lo : -1 ≤ i) (hi : i < 2 ^ 31) : IntKind.i32.inRange i = true := by
  simp [IntKind.inRange, IntKind.minVal, IntKind.maxVal, IntKind.signed, IntKind.bits, IntKind.bytes]
  omega

theorem rt_bool : RT .bool := by
  intro v h bs h' prior hv he
  cases v with
  | int i =>
    simp only [valid, Bool.or_eq_true, beq_iff_eq] at hv
    simp only [encode, Except.ok.injEq, Prod.mk.injEq] at he
    obtain ⟨rfl, rfl⟩ := he
    rcases hv with rfl | rfl
    · exact ⟨0, [], rfl, by simp [matchP], by simpa [decPayload] using DecOK.pure (ps := h.pushed) (Val.int 0)⟩
    · exact ⟨1, [], rfl, by simp [matchP], by simpa [decPayload] using DecOK.pure (ps := h.pushed) (Val.int 1)⟩
  | _ => simp [valid] at hv

theorem rt_int (k : IntKind) (nom : Nom) : RT (.int k nom) := by
  intro v h bs h' prior hv he
  cases v with
  | int i =>
    simp only [valid] at hv
    simp only [encode, Except.ok.injEq, Prod.mk.injEq] at he
    obtain ⟨rfl, rfl⟩ := he
    obtain ⟨p, pl, h1, h2, h3⟩ := encInt_head hv
    refine ⟨p, pl, h1, by simpa [matchP] using h2, ?_⟩
    simp only [decPayload]
    exact DecOK.map (g := Val.int) (h3 _)
  | _ => simp [valid] at hv

theorem rt_float (w : Bool) : RT (.float w) := by
  intro v h bs h' prior hv he
  cases v with
  | int i =>
    simp only [valid, Bool.and_eq_true, decide_eq_true_eq] at hv
    simp only [encode, Except.ok.injEq, Prod.mk.injEq] at he
    obtain ⟨rfl, rfl⟩ := he
    refine ⟨_, _, rfl, by cases w <;> simp [matchP], ?_⟩
    simp only [decPayload]
    have hlt : i.toNat < 256 ^ (if w = true then 8 else 4) := by
      cases w <;> simp at hv ⊢ <;> omega
    have : Val.int i = Val.int (ofLE (leBytes (if w = true then 8 else 4) i.toNat)) := by
      rw [ofLE_leBytes_of_lt hlt]; congr 1; omega
    rw [this]
    exact DecOK.map (g := fun bs => Val.int (ofLE bs)) (DecOK.read (by simp))
  | _ => simp [valid] at hv

theorem rt_str (n cb : Nat) (hcb : 0 < cb) : RT (.str n cb) := by
  intro v h bs h' prior hv he
  cases v with
  | list vs =>
    simp only [valid, Bool.and_eq_true, decide_eq_true_eq] at hv
    simp only [encode, Except.ok.injEq, Prod.mk.injEq] at he
    obtain ⟨rfl, rfl⟩ := he
    refine ⟨_, _, rfl, by simp [matchP], ?_⟩
    have hall := (allP_iff _ _).1 hv.1
    have hlen : (vs.flatMap (unitToRaw cb)).length = vs.length * cb :=
      flatMap_length_eq _ _ vs (fun a ha => (unit_roundtrip (hall a ha)).1)
    have hraw := rawElems_flatMap (fun b => Val.int (ofLE b)) (unitToRaw cb) cb vs
      (fun a ha => unit_roundtrip (hall a ha))
    simp only [decPayload]
    refine DecOK.bind (DecOK.decSize hv.2) ?_ rfl
    have h1 : (vs.length * cb % cb != 0) = false := by simp
    have h2 : vs.length * cb / cb = vs.length := Nat.mul_div_cancel _ hcb
    simp only [h1, Bool.false_eq_true, ↓reduceIte, h2]
    refine DecOK.ensureThen (by rw [hlen]; exact Nat.le_mul_of_pos_right _ hcb) ?_
    have := DecOK.map (ps := h.pushed) (g := fun bs => Val.list (rawElems (fun b => Val.int (ofLE b)) cb vs.length bs))
      (DecOK.read hlen)
    rw [hraw] at this
    exact this
  | _ => simp [valid] at hv


theorem rtProd : ∀ (ts : List Ty), (∀ t ∈ ts, RT t) →
    ∀ (vs : List Val) (h : HChan) (bs : Bytes) (h' : HChan) (prs : List Val),
      validProd ts vs = true → encProd ts vs h = .ok (bs, h') → DecOK (decProd ts prs) vs bs h'.pushed
  | [], _, vs, h, bs, h', prs, hv, he => by
    cases vs with
    | nil =>
      simp only [encProd, Except.ok.injEq, Prod.mk.injEq] at he
      obtain ⟨rfl, rfl⟩ := he
      simpa [decProd] using DecOK.pure (ps := h.pushed) ([] : List Val)
    | cons _ _ => simp [validProd] at hv
  | t :: ts, hrt, vs, h, bs, h', prs, hv, he => by
    cases vs with
    | nil => simp [validProd] at hv
    | cons v vs =>
      simp only [validProd, Bool.and_eq_true] at hv
      simp only [encProd] at he
      cases ha : encode t v h with
      | error er => simp [ha] at he
      | ok r =>
        obtain ⟨a, h1⟩ := r
        simp only [ha] at he
        cases hb : encProd ts vs h1 with
        | error er => simp [hb] at he
        | ok r2 =>
          obtain ⟨b, h2⟩ := r2
          simp only [hb, Except.ok.injEq, Prod.mk.injEq] at he
          obtain ⟨rfl, rfl⟩ := he
          have h0 := (hrt t (List.mem_cons_self ..)).decInto (prs.headD (dflt t)) hv.1 ha
          have ih := rtProd ts (fun t' ht' => hrt t' (List.mem_cons_of_mem _ ht')) vs h1 b h2 prs.tail hv.2 hb
          have hm := encProd_mono ts vs h1 b h2 hb
          simp only [decProd]
          exact DecOK.bind (h0.weaken hm) (DecOK.bind ih (DecOK.pure _) (by simp)) rfl

theorem rt_prod (k : PKind) (ts : List Ty) (hlen : ts.length < 2 ^ 64) (hrt : ∀ t ∈ ts, RT t) :
    RT (.prod k ts) := by
  intro v h bs h' prior hv he
  cases v with
  | list vs =>
    simp only [valid] at hv
    simp only [encode] at he
    cases hp : encProd ts vs h with
    | error er => simp [hp] at he
    | ok r =>
      obtain ⟨ebs, h2⟩ := r
      simp only [hp, Except.ok.injEq, Prod.mk.injEq] at he
      obtain ⟨rfl, rfl⟩ := he
      refine ⟨_, _, rfl, by cases k <;> simp [matchP], ?_⟩
      simp only [decPayload]
      refine DecOK.bind (DecOK.decSize hlen) ?_ rfl
      simp only [bne_self_eq_false, Bool.false_eq_true, ↓reduceIte]
      exact DecOK.map (g := Val.list) (rtProd ts hrt vs h ebs h2 prior.elems hv hp)
  | _ => simp [valid] at hv

theorem pairEnc_mono {k v : Ty} (kv : Val) (h : HChan) (b : Bytes) (h' : HChan)
    (hab : pairEnc (encode k) (encode v) kv h = .ok (b, h')) : h.pushed <+: h'.pushed := by
  simp only [pairEnc] at hab
  cases ha : encode k (kvKey kv) h with
  | error er => simp [ha] at hab
  | ok r1 =>
    obtain ⟨a, h1⟩ := r1
    simp only [ha] at hab
    cases hb : encode v (kvVal kv) h1 with
    | error er => simp [hb] at hab
    | ok r2 =>
      obtain ⟨b', h2'⟩ := r2
      simp only [hb, Except.ok.injEq, Prod.mk.injEq] at hab
      rw [← hab.2]
      exact (encode_mono k _ _ _ _ ha).trans (encode_mono v _ _ _ _ hb)

theorem rt_map (o : Bool) (k v' : Ty) (hk : RT k) (hv' : RT v') : RT (.map o k v') := by
  intro v h bs h' prior hv he
  cases v with
  | list kvs =>
    simp only [valid, Bool.and_eq_true, decide_eq_true_eq] at hv
    obtain ⟨⟨hall, hdist⟩, hlen⟩ := hv
    have hall' := (allP_iff _ _).1 hall
    simp only [encode] at he
    cases hp : encAll (pairEnc (encode k) (encode v')) kvs h with
    | error er => simp [hp] at he
    | ok r =>
      obtain ⟨ebs, h2⟩ := r
      simp only [hp, Except.ok.injEq, Prod.mk.injEq] at he
      obtain ⟨rfl, rfl⟩ := he
      refine ⟨_, _, rfl, by simp [matchP], ?_⟩
      simp only [decPayload]
      refine DecOK.bind (DecOK.decSize hlen) ?_ rfl
      have hloop := repM_encAll
        (f := (withPrefix (matchP k) (fun p => decPayload k p (dflt k)) >>= fun a =>
               withPrefix (matchP v') (fun p => decPayload v' p (dflt v')) >>= fun b =>
               (Pure.pure (Val.list [a, b]) : M Val)))
        (fun a h b h' hab => pairEnc_mono a h b h' hab) kvs h ebs h2
        (by
          intro kv hkv h0 b h1 hab
          have hkvv := hall' kv hkv
          cases kv with
          | list l =>
            match l, hkvv with
            | [a, b0], hkvv =>
              simp only [Bool.and_eq_true] at hkvv
              simp only [pairEnc, kvKey, kvVal, Val.elems, List.headD_cons, List.tail_cons] at hab
              cases ha : encode k a h0 with
              | error er => simp [ha] at hab
              | ok r1 =>
                obtain ⟨ba, hm1⟩ := r1
                simp only [ha] at hab
                cases hb : encode v' b0 hm1 with
                | error er => simp [hb] at hab
                | ok r2 =>
                  obtain ⟨bb, hm2⟩ := r2
                  simp only [hb, Except.ok.injEq, Prod.mk.injEq] at hab
                  obtain ⟨rfl, rfl⟩ := hab
                  have d1 := (hk.decInto (dflt k) hkvv.1 ha).weaken (encode_mono v' _ _ _ _ hb)
                  have d2 := hv'.decInto (dflt v') hkvv.2 hb
                  exact DecOK.bind d1 (DecOK.bind d2 (DecOK.pure _) (by simp)) rfl
          | int _ => simp at hkvv
          | nil => simp at hkvv
          | tag _ _ => simp at hkvv) hp
      have := DecOK.map (g := fun kvs => Val.list (dedupKeys kvs)) hloop
      rw [dedupKeys_of_distinct kvs hdist] at this
      exact this
  | _ => simp [valid] at hv

theorem rt_opt (t : Ty) (hnil : matchP t 0xbe = false) (hrt : RT t) : RT (.opt t) := by
  intro v h bs h' prior hv he
  cases v with
  | nil =>
    simp only [encode, Except.ok.injEq, Prod.mk.injEq] at he
    obtain ⟨rfl, rfl⟩ := he
    exact ⟨0xbe, [], rfl, by simp [matchP], by simpa [decPayload] using DecOK.pure (ps := h.pushed) Val.nil⟩
  | tag i x =>
    have hi : i = 1 := by
      by_cases h1 : i = 1
      · exact h1
      · exfalso; revert hv; rw [valid]; simp
        all_goals (intros; simp_all)
    subst hi
    simp only [valid] at hv
    simp only [encode] at he
    obtain ⟨p, pl, h1, h2, h3⟩ := hrt x h bs h' (dflt t) hv he
    have hp : (p == 0xbe) = false := by
      cases hpe : p == 0xbe with
      | false => rfl
      | true => rw [beq_iff_eq] at hpe; rw [hpe, hnil] at h2; exact absurd h2 (by simp)
    refine ⟨p, pl, h1, by simp [matchP, h2], ?_⟩
    simp only [decPayload, hp, Bool.false_eq_true, ↓reduceIte]
    exact DecOK.map (g := Val.tag 1) h3
  | _ => simp [valid] at hv

theorem rt_result (en : Nat) (ek : IntKind) (t : Ty) (herr : matchP t 0xb6 = false) (hrt : RT t) :
    RT (.result en ek t) := by
  intro v h bs h' prior hv he
  cases v with
  | tag i x =>
    by_cases h0 : i = 0
    · subst h0
      cases x with
      | int e =>
        simp only [valid] at hv
        simp only [encode, Except.ok.injEq, Prod.mk.injEq] at he
        obtain ⟨rfl, rfl⟩ := he
        refine ⟨0xb6, _, rfl, by simp [matchP], ?_⟩
        simp only [decPayload, BEq.rfl, ↓reduceIte]
        exact DecOK.map (g := fun e => Val.tag 0 (Val.int e)) (DecOK.decInt hv)
      | _ => simp [valid] at hv
    · have hi : i = 1 := by
        by_cases h1 : i = 1
        · exact h1
        · exfalso; revert hv; rw [valid]; simp
          all_goals (intros; simp_all)
      subst hi
      simp only [valid] at hv
      have hen : encode (.result en ek t) (.tag 1 x) h = encode t x h := by
        rw [encode]; intro e a; exact absurd a (by decide)
      rw [hen] at he
      obtain ⟨p, pl, h1, h2, h3⟩ := hrt x h bs h' (dflt t) hv he
      have hp : (p == 0xb6) = false := by
        cases hpe : p == 0xb6 with
        | false => rfl
        | true => rw [beq_iff_eq] at hpe; rw [hpe, herr] at h2; exact absurd h2 (by simp)
      refine ⟨p, pl, h1, by simp [matchP, h2], ?_⟩
      simp only [decPayload, hp, Bool.false_eq_true, ↓reduceIte]
      exact DecOK.map (g := Val.tag 1) h3
  | _ => simp [valid] at hv

theorem validAlt_lt : ∀ (ts : List Ty) (i : Nat) (v : Val), validAlt ts i v = true → i < ts.length
  | [], _, _, h => by simp [validAlt] at h
  | _ :: _, 0, _, _ => by simp
  | _ :: ts, i + 1, v, h => by
    simp only [validAlt] at h
    have := validAlt_lt ts i v h
    simp; omega

theorem rtAlt : ∀ (ts : List Ty), (∀ t ∈ ts, RT t) →
    ∀ (i : Nat) (v : Val) (h : HChan) (bs : Bytes) (h' : HChan) (pr : Option Val),
      validAlt ts i v = true → encAlt ts i v h = .ok (bs, h') → DecOK (decAlt ts i pr) v bs h'.pushed
  | [], _, i, v, h, bs, h', pr, hv, _ => by simp [validAlt] at hv
  | t :: ts, hrt, 0, v, h, bs, h', pr, hv, he => by
    simp only [validAlt] at hv
    simp only [encAlt] at he
    simp only [decAlt]
    exact (hrt t (List.mem_cons_self ..)).decInto _ hv he
  | t :: ts, hrt, i + 1, v, h, bs, h', pr, hv, he => by
    simp only [validAlt] at hv
    simp only [encAlt] at he
    simp only [decAlt]
    exact rtAlt ts (fun t' ht' => hrt t' (List.mem_cons_of_mem _ ht')) i v h bs h' pr hv he

theorem rt_variant (ts : List Ty) (hlen : ts.length ≤ 2 ^ 31) (hrt : ∀ t ∈ ts, RT t) : RT (.variant ts) := by
  intro v h bs h' prior hv he
  cases v with
  | tag i x =>
    simp only [valid] at hv
    simp only [encode] at he
    by_cases hneg : i = -1
    · subst hneg
      simp only [BEq.rfl, ↓reduceIte] at hv
      cases x with
      | nil =>
        simp only [show ((-1 : Int) < 0) from by decide, ↓reduceIte, Except.ok.injEq, Prod.mk.injEq] at he
        obtain ⟨rfl, rfl⟩ := he
        refine ⟨0xb8, _, rfl, by simp [matchP], ?_⟩
        simp only [decPayload]
        refine DecOK.bind (DecOK.decInt (i32_inRange (by decide) (by decide))) ?_ rfl
        have c1 : (decide ((-1 : Int) < -1) || decide ((ts.length : Int) ≤ -1)) = false := by
          simp; omega
        simp only [c1, Bool.false_eq_true, ↓reduceIte, BEq.rfl]
        exact DecOK.withPrefix (by simp) (DecOK.pure _)
      | _ => simp [Val.isNil] at hv
    · have hne : (i == -1) = false := by simp [hneg]
      simp only [hne, Bool.false_eq_true, ↓reduceIte, Bool.and_eq_true, decide_eq_true_eq] at hv
      have hnn : ¬ i < 0 := by omega
      simp only [hnn, ↓reduceIte] at he
      cases ha : encAlt ts i.toNat x h with
      | error er => simp [ha] at he
      | ok r =>
        obtain ⟨abs, h2⟩ := r
        simp only [ha, Except.ok.injEq, Prod.mk.injEq] at he
        obtain ⟨rfl, rfl⟩ := he
        have hlt := validAlt_lt ts i.toNat x hv.2
        refine ⟨0xb8, _, rfl, by simp [matchP], ?_⟩
        simp only [decPayload]
        refine DecOK.bind (DecOK.decInt (i32_inRange (by omega) (by omega))) ?_ rfl
        have c1 : (decide (i < -1) || decide ((ts.length : Int) ≤ i)) = false := by
          simp; omega
        simp only [c1, Bool.false_eq_true, ↓reduceIte, hne]
        exact DecOK.map (g := Val.tag i) (rtAlt ts hrt i.toNat x h abs h2 _ hv.2 ha)
  | _ => simp [valid] at hv

theorem rt_handle (p ht : Nat) (tk : IntKind) (hk : tk.inRange (ht : Int) = true) : RT (.handle p ht tk) := by
  intro v h bs h' prior hv he
  cases v with
  | int hval =>
    simp only [encode] at he
    split at he
    · simp at he
    · simp at he
    · rename_i r rest hrefs
      split at he
      · simp at he
      · rename_i hr
        simp only [Bool.not_eq_true, Bool.not_eq_false'] at hr
        simp only [Except.ok.injEq, Prod.mk.injEq] at he
        obtain ⟨rfl, rfl⟩ := he
        refine ⟨0xb7, _, rfl, by simp [matchP], ?_⟩
        simp only [decPayload]
        refine DecOK.bind (DecOK.decInt hk) ?_ rfl
        simp only [bne_self_eq_false, Bool.false_eq_true, ↓reduceIte]
        refine DecOK.bind (DecOK.decInt hr) ?_ (List.append_nil _).symm
        exact DecOK.map (g := Val.int) (DecOK.getHandle (by simp))
  | _ => simp [valid] at hv

theorem M.bind_pure {α} (m : M α) : (m >>= fun a => (pure a : M α)) = m := by
  funext s
  simp only [bind_run]
  cases m s with
  | mk r s' => cases r <;> rfl

/-- `ReadEntryForId` walks past entries with other ids, leaving their slots untouched -/
theorem decEntry_prefix (se : List (Nat × Bool)) (st : List Ty) (id : Nat) (sc : List Val) :
    ∀ (pe : List (Nat × Bool)) (pt : List Ty) (pv : List Val),
      pe.length = pt.length → pt.length = pv.length → (∀ e ∈ pe, e.1 ≠ id) →
      decEntry (pe ++ se) (pt ++ st) id (pv ++ sc) = (decEntry se st id sc >>= fun r => pure (pv ++ r))
  | [], [], [], _, _, _ => by
    simp only [List.nil_append]
    exact (M.bind_pure _).symm
  | (eid, d) :: pe, t :: pt, c :: pv, h1, h2, hne => by
    have hid : (eid == id) = false := by
      have := hne (eid, d) (List.mem_cons_self ..)
      simpa using this
    simp only [List.cons_append, decEntry, hid, Bool.false_eq_true, ↓reduceIte]
    rw [decEntry_prefix se st id sc pe pt pv (by simpa using h1) (by simpa using h2)
      (fun e he => hne e (List.mem_cons_of_mem _ he))]
    rw [M.bind_assoc]
    rfl
  | [], _ :: _, _, h1, _, _ => by simp at h1
  | _ :: _, [], _, h1, _, _ => by simp at h1
  | [], [], _ :: _, _, h2, _ => by simp at h2
  | _ :: _, _ :: _, [], _, h2, _ => by simp at h2

theorem rtEntries : ∀ (st : List Ty), (∀ t ∈ st, RT t) →
    ∀ (se : List (Nat × Bool)) (sv : List Val) (pe : List (Nat × Bool)) (pt : List Ty) (pv : List Val)
      (h : HChan) (ebs : Bytes) (h' : HChan),
      pe.length = pt.length → pt.length = pv.length →
      (∀ e ∈ pe, ∀ e' ∈ se, e.1 ≠ e'.1) → idsDistinct se = true → (∀ e ∈ se, e.1 < 2 ^ 64) →
      validEntries se st sv = true → encEntries se st sv h = .ok (ebs, h') →
      DecOK (itM (activeCount sv)
          (fun cur => decInt .u64 >>= fun id => decEntry (pe ++ se) (pt ++ st) id.toNat cur)
          (pv ++ List.replicate sv.length .nil)) (pv ++ sv) ebs h'.pushed
  | [], _, se, sv, pe, pt, pv, h, ebs, h', _, _, _, _, _, hv, he => by
    cases se with
    | nil =>
      cases sv with
      | nil =>
        simp only [encEntries, Except.ok.injEq, Prod.mk.injEq] at he
        obtain ⟨rfl, rfl⟩ := he
        simp only [activeCount, itM_zero, List.length_nil, List.replicate_zero]
        exact DecOK.pure _
      | cons _ _ => simp [validEntries] at hv
    | cons e _ => obtain ⟨_, _⟩ := e; simp [validEntries] at hv
  | t :: st, hrt, se, sv, pe, pt, pv, h, ebs, h', hl1, hl2, hdis, hids, hlt, hv, he => by
    cases se with
    | nil => simp [validEntries] at hv
    | cons e se =>
      obtain ⟨eid, del⟩ := e
      cases sv with
      | nil => simp [validEntries] at hv
      | cons v sv =>
        simp only [idsDistinct, Bool.and_eq_true, List.all_eq_true, bne_iff_ne, ne_eq] at hids
        have hdis' : ∀ e ∈ pe ++ [(eid, del)], ∀ e' ∈ se, e.1 ≠ e'.1 := by
          intro e hem e' hem'
          rw [List.mem_append] at hem
          rcases hem with hem | hem
          · exact hdis e hem e' (List.mem_cons_of_mem _ hem')
          · simp only [List.mem_singleton] at hem
            subst hem
            exact fun heq => hids.1 e' hem' heq.symm
        have hlt' : ∀ e ∈ se, e.1 < 2 ^ 64 := fun e hem => hlt e (List.mem_cons_of_mem _ hem)
        have hrt' : ∀ t' ∈ st, RT t' := fun t' ht' => hrt t' (List.mem_cons_of_mem _ ht')
        have hA1 : (pe ++ [(eid, del)]) ++ se = pe ++ (eid, del) :: se := by simp
        have hA2 : (pt ++ [t]) ++ st = pt ++ t :: st := by simp
        cases v with
        | nil =>
          simp only [validEntries, Bool.true_and] at hv
          simp only [encEntries] at he
          have ih := rtEntries st hrt' se sv (pe ++ [(eid, del)]) (pt ++ [t]) (pv ++ [Val.nil]) h ebs h'
            (by simp [hl1]) (by simp [hl2]) hdis' hids.2 hlt' hv he
          simp only [hA1, hA2, List.append_assoc, List.singleton_append] at ih
          simpa [activeCount, Val.isNil, List.replicate_succ] using ih
        | tag i x =>
          have hi : i = 1 := by
            by_cases h1 : i = 1
            · exact h1
            · exfalso; revert hv; rw [validEntries]; simp
              all_goals (intros; simp_all)
          subst hi
          simp only [validEntries, Bool.and_eq_true, Bool.not_eq_true', decide_eq_true_eq] at hv
          obtain ⟨⟨⟨hdel, hvx⟩, hsz⟩, hvrest⟩ := hv
          subst hdel
          simp only [encEntries] at he
          cases ha : encode t x h with
          | error er => simp [ha] at he
          | ok r =>
            obtain ⟨vb, h1⟩ := r
            simp only [ha] at he
            by_cases hbig : size t x < vb.length
            · simp [hbig] at he
            · simp only [hbig, ↓reduceIte] at he
              cases hb : encEntries se st sv h1 with
              | error er => simp [hb] at he
              | ok r2 =>
                obtain ⟨rest, h2⟩ := r2
                simp only [hb, Except.ok.injEq, Prod.mk.injEq] at he
                obtain ⟨rfl, rfl⟩ := he
                have ih := rtEntries st hrt' se sv (pe ++ [(eid, false)]) (pt ++ [t]) (pv ++ [Val.tag 1 x]) h1 rest h2
                  (by simp [hl1]) (by simp [hl2]) hdis' hids.2 hlt' hvrest hb
                simp only [hA1, hA2, List.append_assoc, List.singleton_append] at ih
                have hm := encEntries_mono se st sv h1 rest h2 hb
                -- the step that reads this entry
                have hstep : DecOK
                    (decInt .u64 >>= fun id => decEntry (pe ++ (eid, false) :: se) (pt ++ t :: st) id.toNat
                      (pv ++ Val.nil :: List.replicate sv.length Val.nil))
                    (pv ++ Val.tag 1 x :: List.replicate sv.length Val.nil)
                    (encInt .u64 eid ++ (encSize (size t x) ++ (vb ++ List.replicate (size t x - vb.length) 0)))
                    h1.pushed := by
                  refine DecOK.bind (DecOK.decInt (u64_inRange (hlt (eid, false) (List.mem_cons_self ..)))) ?_ rfl
                  simp only [Int.toNat_natCast]
                  rw [decEntry_prefix ((eid, false) :: se) (t :: st) eid (Val.nil :: List.replicate sv.length Val.nil)
                    pe pt pv hl1 hl2 (fun e hem => hdis e hem (eid, false) (List.mem_cons_self ..))]
                  refine DecOK.map (g := fun r => pv ++ r) (a := Val.tag 1 x :: List.replicate sv.length Val.nil) ?_
                  simp only [decEntry, BEq.rfl, ↓reduceIte, Bool.false_eq_true, Val.isNil, Bool.not_true]
                  refine DecOK.bind (DecOK.decSize hsz) ?_ rfl
                  exact DecOK.framed (fun v => Val.tag 1 v :: List.replicate sv.length Val.nil)
                    ((hrt t (List.mem_cons_self ..)).decInto (dflt t) hvx ha) (by omega)
                simp only [activeCount, Val.isNil, Bool.false_eq_true, ↓reduceIte, Nat.add_comm 1, itM_succ,
                  List.length_cons, List.replicate_succ]
                refine DecOK.bind (hstep.weaken hm) ih ?_
                simp [List.append_assoc]
        | int _ => simp [validEntries] at hv
        | list _ => simp [validEntries] at hv

theorem validEntries_length : ∀ (es : List (Nat × Bool)) (ts : List Ty) (vs : List Val),
    validEntries es ts vs = true → vs.length = ts.length
  | [], [], [], _ => rfl
  | (_, _) :: es, _ :: ts, _ :: vs, h => by
    simp only [validEntries, Bool.and_eq_true] at h
    simp [validEntries_length es ts vs h.2]
  | [], [], _ :: _, h => by simp [validEntries] at h
  | [], _ :: _, _, h => by simp [validEntries] at h
  | _ :: _, [], _, h => by simp [validEntries] at h
  | _ :: _, _ :: _, [], h => by simp [validEntries] at h

theorem activeCount_le : ∀ (vs : List Val), activeCount vs ≤ vs.length
  | [] => by simp [activeCount]
  | v :: vs => by
    have := activeCount_le vs
    simp only [activeCount, List.length_cons]
    split <;> omega

theorem rt_table (hash : Nat) (ents : List (Nat × Bool)) (tys : List Ty)
    (hh : hash < 2 ^ 64) (hd : idsDistinct ents = true) (hlt : ∀ e ∈ ents, e.1 < 2 ^ 64)
    (hn : tys.length < 2 ^ 64) (hrt : ∀ t ∈ tys, RT t) : RT (.table hash ents tys) := by
  intro v h bs h' prior hv he
  cases v with
  | list vs =>
    simp only [valid] at hv
    simp only [encode] at he
    cases hp : encEntries ents tys vs h with
    | error er => simp [hp] at he
    | ok r =>
      obtain ⟨ebs, h2⟩ := r
      simp only [hp, Except.ok.injEq, Prod.mk.injEq] at he
      obtain ⟨rfl, rfl⟩ := he
      refine ⟨0xb5, _, rfl, by simp [matchP], ?_⟩
      have hlen := validEntries_length ents tys vs hv
      have hac : activeCount vs < 2 ^ 64 := by
        have := activeCount_le vs; omega
      simp only [decPayload]
      refine DecOK.bind (b2 := encSize (activeCount vs) ++ ebs) (DecOK.decInt (u64_inRange hh)) ?_
        (by simp [List.append_assoc])
      simp only [bne_self_eq_false, Bool.false_eq_true, ↓reduceIte]
      refine DecOK.bind (DecOK.decSize hac) ?_ rfl
      refine DecOK.map (g := Val.list) ?_
      have := rtEntries tys hrt ents vs [] [] [] h ebs h2 rfl rfl (by simp) hd hlt hv hp
      simpa [hlen] using this
  | _ => simp [valid] at hv

/-! ### assembling: every well-formed type satisfies `RT` -/

mutual
theorem rt : ∀ (t : Ty), t.wf = true → RT t
  | .bool, _ => rt_bool
  | .int k nom, _ => rt_int k nom
  | .float w, _ => rt_float w
  | .str n cb, hwf => rt_str n cb (by simpa [Ty.wf] using hwf)
  | .seq f e, hwf => rt_seq f e (rt e (by simpa [Ty.wf] using hwf))
  | .prod k ts, hwf => by
    simp only [Ty.wf, Bool.and_eq_true, decide_eq_true_eq] at hwf
    exact rt_prod k ts hwf.1.2 (rtL ts hwf.1.1)
  | .map o k v, hwf => by
    simp only [Ty.wf, Bool.and_eq_true] at hwf
    exact rt_map o k v (rt k hwf.1) (rt v hwf.2)
  | .opt t, hwf => by
    simp only [Ty.wf, Bool.and_eq_true, Bool.not_eq_true'] at hwf
    exact rt_opt t hwf.2 (rt t hwf.1)
  | .result en ek t, hwf => by
    simp only [Ty.wf, Bool.and_eq_true, Bool.not_eq_true'] at hwf
    exact rt_result en ek t hwf.2 (rt t hwf.1)
  | .variant ts, hwf => by
    simp only [Ty.wf, Bool.and_eq_true, decide_eq_true_eq] at hwf
    exact rt_variant ts hwf.2 (rtL ts hwf.1)
  | .handle p ht tk, hwf => rt_handle p ht tk (by simpa [Ty.wf] using hwf)
  | .wrap t, hwf => by
    have hrt := rt t (by simpa [Ty.wf] using hwf)
    intro v h bs h' prior hv he
    simp only [valid] at hv
    simp only [encode] at he
    obtain ⟨p, pl, h1, h2, h3⟩ := hrt v h bs h' prior hv he
    exact ⟨p, pl, h1, by simpa [matchP] using h2, by simpa [decPayload] using h3⟩
  | .ref t, hwf => by
    have hrt := rt t (by simpa [Ty.wf] using hwf)
    intro v h bs h' prior hv he
    simp only [valid] at hv
    simp only [encode] at he
    obtain ⟨p, pl, h1, h2, h3⟩ := hrt v h bs h' prior hv he
    exact ⟨p, pl, h1, by simpa [matchP] using h2, by simpa [decPayload] using h3⟩
  | .table hash ents tys, hwf => by
    simp only [Ty.wf, Bool.and_eq_true, decide_eq_true_eq, List.all_eq_true] at hwf
    obtain ⟨⟨⟨⟨⟨hw, hh⟩, _⟩, hd⟩, hlt⟩, hn⟩ := hwf
    exact rt_table hash ents tys hh hd hlt hn (rtL tys hw)
theorem rtL : ∀ (ts : List Ty), wfL ts = true → ∀ t ∈ ts, RT t
  | [], _, t, ht => by simp at ht
  | t0 :: ts, hwf, t, ht => by
    simp only [wfL, Bool.and_eq_true] at hwf
    rcases List.mem_cons.1 ht with h0 | ht'
    · rw [h0]; exact rt t0 hwf.1
    · exact rtL ts hwf.2 t ht'
end

end Nop
