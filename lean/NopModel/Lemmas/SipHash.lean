import NopModel.SipHash
namespace Nop.Sip

theorem byteAt_drop (buf : Bytes) (off i : Nat) : byteAt buf (off + i) = byteAt (buf.drop off) i := by
  simp [byteAt, List.getD_eq_getElem?_getD, List.getElem?_drop]

theorem readBlock_cons (b0 b1 b2 b3 b4 b5 b6 b7 : UInt8) (rest : Bytes) :
    readBlock (b0 :: b1 :: b2 :: b3 :: b4 :: b5 :: b6 :: b7 :: rest) 0 =
      leWord [b0, b1, b2, b3, b4, b5, b6, b7] := by
  have h1 : readBlock (b0 :: b1 :: b2 :: b3 :: b4 :: b5 :: b6 :: b7 :: rest) 0 =
      (b7.toUInt64 <<< 56) ||| (b6.toUInt64 <<< 48) ||| (b5.toUInt64 <<< 40) ||| (b4.toUInt64 <<< 32) |||
      (b3.toUInt64 <<< 24) ||| (b2.toUInt64 <<< 16) ||| (b1.toUInt64 <<< 8) ||| (b0.toUInt64 <<< 0) := rfl
  have h2 : leWord [b0, b1, b2, b3, b4, b5, b6, b7] =
      (b0.toUInt64 <<< 0) ||| ((b1.toUInt64 <<< 8) ||| ((b2.toUInt64 <<< 16) ||| ((b3.toUInt64 <<< 24) |||
      ((b4.toUInt64 <<< 32) ||| ((b5.toUInt64 <<< 40) ||| ((b6.toUInt64 <<< 48) ||| ((b7.toUInt64 <<< 56) ||| 0))))))) := rfl
  rw [h1, h2, UInt64.or_zero]
  generalize b0.toUInt64 <<< 0 = a0
  generalize b1.toUInt64 <<< 8 = a1
  generalize b2.toUInt64 <<< 16 = a2
  generalize b3.toUInt64 <<< 24 = a3
  generalize b4.toUInt64 <<< 32 = a4
  generalize b5.toUInt64 <<< 40 = a5
  generalize b6.toUInt64 <<< 48 = a6
  generalize b7.toUInt64 <<< 56 = a7
  ac_rfl

theorem readBlock_eq (buf : Bytes) (off : Nat) (h : off + 8 ≤ buf.length) :
    readBlock buf off = leWord ((buf.drop off).take 8) := by
  have hl : 8 ≤ (buf.drop off).length := by simp; omega
  have e : readBlock buf off = readBlock (buf.drop off) 0 := by
    unfold readBlock
    simp only [byteAt_drop buf off, Nat.zero_add]
  rw [e]
  match hm : buf.drop off, hl with
  | b0 :: b1 :: b2 :: b3 :: b4 :: b5 :: b6 :: b7 :: rest, _ =>
    rw [readBlock_cons]
    rfl

theorem tailWord_eq (buf : Bytes) (endOff left : Nat) (b : UInt64)
    (hlen : (buf.drop endOff).length = left) (hlt : left < 8) :
    tailWord buf endOff left b = b ||| leWord (buf.drop endOff) := by
  have e : ∀ i, byteAt buf (endOff + i) = byteAt (buf.drop endOff) i := byteAt_drop buf endOff
  unfold tailWord
  simp only [e]
  match hm : buf.drop endOff, left, hlen, hlt with
  | [], 0, _, _ =>
    show b = b ||| 0
    rw [UInt64.or_zero]
  | [b0], 1, _, _ =>
    show b ||| (b0.toUInt64 <<< 0) = b ||| ((b0.toUInt64 <<< 0) ||| 0)
    rw [UInt64.or_zero]
  | [b0, b1], 2, _, _ =>
    show b ||| (b1.toUInt64 <<< 8) ||| (b0.toUInt64 <<< 0) =
      b ||| ((b0.toUInt64 <<< 0) ||| ((b1.toUInt64 <<< 8) ||| 0))
    rw [UInt64.or_zero]
    generalize b0.toUInt64 <<< 0 = a0
    generalize b1.toUInt64 <<< 8 = a1
    ac_rfl
  | [b0, b1, b2], 3, _, _ =>
    show b ||| (b2.toUInt64 <<< 16) ||| (b1.toUInt64 <<< 8) ||| (b0.toUInt64 <<< 0) =
      b ||| ((b0.toUInt64 <<< 0) ||| ((b1.toUInt64 <<< 8) ||| ((b2.toUInt64 <<< 16) ||| 0)))
    rw [UInt64.or_zero]
    generalize b0.toUInt64 <<< 0 = a0
    generalize b1.toUInt64 <<< 8 = a1
    generalize b2.toUInt64 <<< 16 = a2
    ac_rfl
  | [b0, b1, b2, b3], 4, _, _ =>
    show b ||| (b3.toUInt64 <<< 24) ||| (b2.toUInt64 <<< 16) ||| (b1.toUInt64 <<< 8) ||| (b0.toUInt64 <<< 0) =
      b ||| ((b0.toUInt64 <<< 0) ||| ((b1.toUInt64 <<< 8) ||| ((b2.toUInt64 <<< 16) ||| ((b3.toUInt64 <<< 24) ||| 0))))
    rw [UInt64.or_zero]
    generalize b0.toUInt64 <<< 0 = a0
    generalize b1.toUInt64 <<< 8 = a1
    generalize b2.toUInt64 <<< 16 = a2
    generalize b3.toUInt64 <<< 24 = a3
    ac_rfl
  | [b0, b1, b2, b3, b4], 5, _, _ =>
    show b ||| (b4.toUInt64 <<< 32) ||| (b3.toUInt64 <<< 24) ||| (b2.toUInt64 <<< 16) ||| (b1.toUInt64 <<< 8) |||
        (b0.toUInt64 <<< 0) =
      b ||| ((b0.toUInt64 <<< 0) ||| ((b1.toUInt64 <<< 8) ||| ((b2.toUInt64 <<< 16) ||| ((b3.toUInt64 <<< 24) |||
        ((b4.toUInt64 <<< 32) ||| 0)))))
    rw [UInt64.or_zero]
    generalize b0.toUInt64 <<< 0 = a0
    generalize b1.toUInt64 <<< 8 = a1
    generalize b2.toUInt64 <<< 16 = a2
    generalize b3.toUInt64 <<< 24 = a3
    generalize b4.toUInt64 <<< 32 = a4
    ac_rfl
  | [b0, b1, b2, b3, b4, b5], 6, _, _ =>
    show b ||| (b5.toUInt64 <<< 40) ||| (b4.toUInt64 <<< 32) ||| (b3.toUInt64 <<< 24) ||| (b2.toUInt64 <<< 16) |||
        (b1.toUInt64 <<< 8) ||| (b0.toUInt64 <<< 0) =
      b ||| ((b0.toUInt64 <<< 0) ||| ((b1.toUInt64 <<< 8) ||| ((b2.toUInt64 <<< 16) ||| ((b3.toUInt64 <<< 24) |||
        ((b4.toUInt64 <<< 32) ||| ((b5.toUInt64 <<< 40) ||| 0))))))
    rw [UInt64.or_zero]
    generalize b0.toUInt64 <<< 0 = a0
    generalize b1.toUInt64 <<< 8 = a1
    generalize b2.toUInt64 <<< 16 = a2
    generalize b3.toUInt64 <<< 24 = a3
    generalize b4.toUInt64 <<< 32 = a4
    generalize b5.toUInt64 <<< 40 = a5
    ac_rfl
  | [b0, b1, b2, b3, b4, b5, b6], 7, _, _ =>
    show b ||| (b6.toUInt64 <<< 48) ||| (b5.toUInt64 <<< 40) ||| (b4.toUInt64 <<< 32) ||| (b3.toUInt64 <<< 24) |||
        (b2.toUInt64 <<< 16) ||| (b1.toUInt64 <<< 8) ||| (b0.toUInt64 <<< 0) =
      b ||| ((b0.toUInt64 <<< 0) ||| ((b1.toUInt64 <<< 8) ||| ((b2.toUInt64 <<< 16) ||| ((b3.toUInt64 <<< 24) |||
        ((b4.toUInt64 <<< 32) ||| ((b5.toUInt64 <<< 40) ||| ((b6.toUInt64 <<< 48) ||| 0)))))))
    rw [UInt64.or_zero]
    generalize b0.toUInt64 <<< 0 = a0
    generalize b1.toUInt64 <<< 8 = a1
    generalize b2.toUInt64 <<< 16 = a2
    generalize b3.toUInt64 <<< 24 = a3
    generalize b4.toUInt64 <<< 32 = a4
    generalize b5.toUInt64 <<< 40 = a5
    generalize b6.toUInt64 <<< 48 = a6
    ac_rfl

theorem absorbWords_short (s : St) (m : Bytes) (h : m.length < 8) : absorbWords s m = (s, m) := by
  rw [absorbWords]; simp; omega

theorem absorbWords_long (s : St) (m : Bytes) (h : 8 ≤ m.length) :
    absorbWords s m = absorbWords (absorb s (leWord (m.take 8))) (m.drop 8) := by
  rw [absorbWords]; simp [h]

/-- the offset loop absorbs exactly the complete little-endian words -/
theorem blockLoop_eq (buf : Bytes) : ∀ (n off : Nat) (s : St), off + 8 * n ≤ buf.length →
    buf.length - (off + 8 * n) < 8 →
    absorbWords s (buf.drop off) = (blockLoop buf n off s, buf.drop (off + 8 * n))
  | 0, off, s, _, h2 => by
    rw [absorbWords_short s _ (by simp; omega)]
    simp [blockLoop]
  | n + 1, off, s, h1, h2 => by
    rw [absorbWords_long s _ (by simp; omega), List.drop_drop]
    rw [← readBlock_eq buf off (by omega)]
    have := blockLoop_eq buf n (off + 8) (absorb s (readBlock buf off)) (by omega) (by omega)
    rw [this]
    simp only [blockLoop]
    congr 2
    omega

end Nop.Sip

namespace Nop.Sip

/-- **The code computes SipHash-2-4**, for every message and every key. -/
theorem compute_eq (buf : Bytes) (k0 k1 : UInt64) : compute buf k0 k1 = sipHash24 k0 k1 buf := by
  unfold compute sipHash24
  have hdiv : 8 * ((buf.length - buf.length % 8) / 8) = buf.length - buf.length % 8 := by omega
  have hloop := blockLoop_eq buf ((buf.length - buf.length % 8) / 8) 0 (init k0 k1) (by omega) (by omega)
  simp only [List.drop_zero, Nat.zero_add, hdiv] at hloop
  have htail := tailWord_eq buf (buf.length - buf.length % 8) (buf.length % 8)
    (UInt64.ofNat buf.length <<< 56) (by simp; omega) (by omega)
  simp only [hloop, htail]
  rw [UInt64.or_comm]

end Nop.Sip
