import NopModel.Codec
import NopModel.Lemmas.Int
namespace Nop

theorem encInt_length_le (k : IntKind) (i : Int) : (encInt k i).length ≤ 9 := by
  unfold encInt encSigned encUnsigned
  repeat' split
  all_goals simp

theorem encAll_length {α} {f : α → HChan → Except Err (Bytes × HChan)} {g : α → Nat} :
    ∀ (as : List α) (h : HChan) (bs : Bytes) (h' : HChan),
      (∀ a ∈ as, ∀ h b h', f a h = .ok (b, h') → b.length ≤ g a) →
      encAll f as h = .ok (bs, h') → bs.length ≤ sumMap g as
  | [], h, bs, h', _, he => by
    simp only [encAll, Except.ok.injEq, Prod.mk.injEq] at he
    simp [← he.1, sumMap]
  | a :: as, h, bs, h', hf, he => by
    simp only [encAll] at he
    cases hfa : f a h with
    | error e => simp [hfa] at he
    | ok r =>
      obtain ⟨b, h1⟩ := r
      simp only [hfa] at he
      cases hrest : encAll f as h1 with
      | error e => simp [hrest] at he
      | ok r2 =>
        obtain ⟨bs', h2⟩ := r2
        simp only [hrest, Except.ok.injEq, Prod.mk.injEq] at he
        have ih := encAll_length as h1 bs' h2 (fun a' ha' => hf a' (List.mem_cons_of_mem _ ha')) hrest
        have h0 := hf a (List.mem_cons_self ..) h b h1 hfa
        rw [← he.1]
        simp only [List.length_append, sumMap]
        omega

theorem flatMap_length_le {α} (f : α → Bytes) (w : Nat) (hf : ∀ a, (f a).length ≤ w) :
    ∀ (as : List α), (as.flatMap f).length ≤ as.length * w
  | [] => by simp
  | a :: as => by
    have := flatMap_length_le f w hf as
    have := hf a
    simp only [List.flatMap_cons, List.length_append, List.length_cons, Nat.succ_mul]
    omega

theorem unitToRaw_length_le (cb : Nat) (v : Val) : (unitToRaw cb v).length ≤ cb := by
  unfold unitToRaw; split <;> simp

theorem valToRaw_length_le (t : Ty) (v : Val) : (valToRaw t v).length ≤ t.width := by
  unfold valToRaw
  split
  · simp [intToRaw, Ty.width]
  · simp
  · simp

mutual
/-- C06 core: the encoder never emits more bytes than `Size` announces. -/
theorem encode_length_le : ∀ (t : Ty) (v : Val) (h : HChan) (bs : Bytes) (h' : HChan),
    encode t v h = .ok (bs, h') → bs.length ≤ size t v
  | .bool, v, h, bs, h', he => by
    cases v <;> simp [encode] at he
    simp [← he.1, size]
  | .int k nom, v, h, bs, h', he => by
    cases v <;> simp [encode] at he
    simp [← he.1, size]
  | .float w, v, h, bs, h', he => by
    cases v <;> simp [encode] at he
    rw [← he.1]; cases w <;> simp [size]
  | .str n cb, v, h, bs, h', he => by
    cases v <;> simp [encode] at he
    rename_i vs
    rw [← he.1]
    have := flatMap_length_le (unitToRaw cb) cb (unitToRaw_length_le cb) vs
    simp only [size, List.length_cons, List.length_append]; omega
  | .seq f e, v, h, bs, h', he => by
    cases v with
    | list vs =>
      simp only [encode] at he
      cases hov : lbufOver f vs.length with
      | true => simp [hov] at he
      | false =>
        cases hint : e.integral with
        | true =>
          simp only [hov, hint, Bool.false_eq_true, ↓reduceIte, Except.ok.injEq, Prod.mk.injEq] at he
          rw [← he.1]
          have := flatMap_length_le (valToRaw e) e.width (valToRaw_length_le e) vs
          simp only [size, hint, ↓reduceIte, List.length_cons, List.length_append]; omega
        | false =>
          simp only [hov, hint, Bool.false_eq_true, ↓reduceIte] at he
          cases hall : encAll (encode e) vs h with
          | error er => simp [hall] at he
          | ok r =>
            obtain ⟨bs', h2⟩ := r
            simp only [hall, Except.ok.injEq, Prod.mk.injEq] at he
            rw [← he.1]
            have := encAll_length (g := size e) vs h bs' h2
              (fun a _ h b h' hab => encode_length_le e a h b h' hab) hall
            simp only [size, hint, Bool.false_eq_true, ↓reduceIte, List.length_cons, List.length_append]; omega
    | _ => simp [encode] at he
  | .prod k ts, v, h, bs, h', he => by
    cases v with
    | list vs =>
      simp only [encode] at he
      cases hp : encProd ts vs h with
      | error er => simp [hp] at he
      | ok r =>
        obtain ⟨bs', h2⟩ := r
        simp only [hp, Except.ok.injEq, Prod.mk.injEq] at he
        rw [← he.1]
        have := encProd_length_le ts vs h bs' h2 hp
        simp only [size, List.length_cons, List.length_append]; omega
    | _ => simp [encode] at he
  | .map o k v', v, h, bs, h', he => by
    cases v with
    | list kvs =>
      simp only [encode] at he
      cases hall : encAll (pairEnc (encode k) (encode v')) kvs h with
      | error er => simp [hall] at he
      | ok r =>
        obtain ⟨bs', h2⟩ := r
        simp only [hall, Except.ok.injEq, Prod.mk.injEq] at he
        rw [← he.1]
        have := encAll_length (g := fun kv => size k (kvKey kv) + size v' (kvVal kv)) kvs h bs' h2
          (by
            intro kv _ h b h' hab
            simp only [pairEnc] at hab
            cases ha : encode k (kvKey kv) h with
            | error er => simp [ha] at hab
            | ok r1 =>
              obtain ⟨a, h1⟩ := r1
              simp only [ha] at hab
              cases hb : encode v' (kvVal kv) h1 with
              | error er => simp [hb] at hab
              | ok r2 =>
                obtain ⟨b', h2'⟩ := r2
                simp only [hb, Except.ok.injEq, Prod.mk.injEq] at hab
                have := encode_length_le k _ _ _ _ ha
                have := encode_length_le v' _ _ _ _ hb
                rw [← hab.1]; simp only [List.length_append]; omega) hall
        simp only [size, List.length_cons, List.length_append]; omega
    | _ => simp [encode] at he
  | .opt t, v, h, bs, h', he => by
    cases v with
    | nil => simp [encode] at he; simp [← he.1, size]
    | tag i x => simp only [encode] at he; simpa [size] using encode_length_le t x h bs h' he
    | _ => simp [encode] at he
  | .result en ek t, v, h, bs, h', he => by
    cases v with
    | tag i x =>
      by_cases hi : i = 0
      · subst hi
        cases x with
        | int e =>
          simp only [encode, Except.ok.injEq, Prod.mk.injEq] at he
          rw [← he.1]; simp only [size, List.length_cons]; omega
        | _ => simp only [encode] at he <;> simpa [size] using encode_length_le t _ h bs h' he
      · have : ∀ y, encode (.result en ek t) (.tag i y) h = encode t y h := by
          intro y; rw [encode]; intro e a b; exact absurd a hi
        rw [this] at he
        have h2 : ∀ y, size (.result en ek t) (.tag i y) = size t y := by
          intro y; rw [size]; intro e a b; exact absurd a hi
        rw [h2]; exact encode_length_le t x h bs h' he
    | _ => simp [encode] at he
  | .variant ts, v, h, bs, h', he => by
    cases v with
    | tag i x =>
      simp only [encode] at he
      by_cases hi : i < 0
      · simp only [hi, ↓reduceIte, Except.ok.injEq, Prod.mk.injEq] at he
        rw [← he.1]; simp only [size, hi, ↓reduceIte, List.length_cons, List.length_append, List.length_nil]; omega
      · simp only [hi, ↓reduceIte] at he
        cases ha : encAlt ts i.toNat x h with
        | error er => simp [ha] at he
        | ok r =>
          obtain ⟨bs', h2⟩ := r
          simp only [ha, Except.ok.injEq, Prod.mk.injEq] at he
          rw [← he.1]
          have := encAlt_length_le ts i.toNat x h bs' h2 ha
          simp only [size, hi, ↓reduceIte, List.length_cons, List.length_append]; omega
    | _ => simp [encode] at he
  | .handle p ht tk, v, h, bs, h', he => by
    cases v with
    | int hv =>
      simp only [encode] at he
      split at he
      · simp at he
      · simp at he
      · split at he
        · simp at he
        · simp only [Except.ok.injEq, Prod.mk.injEq] at he
          rw [← he.1]
          have := encInt_length_le .i64 ‹Int›
          simp only [size, List.length_cons, List.length_append]; omega
    | _ => simp [encode] at he
  | .wrap t, v, h, bs, h', he => by
    simp only [encode] at he; simpa [size] using encode_length_le t v h bs h' he
  | .ref t, v, h, bs, h', he => by
    simp only [encode] at he; simpa [size] using encode_length_le t v h bs h' he
  | .table hash ents tys, v, h, bs, h', he => by
    cases v with
    | list vs =>
      simp only [encode] at he
      cases hp : encEntries ents tys vs h with
      | error er => simp [hp] at he
      | ok r =>
        obtain ⟨bs', h2⟩ := r
        simp only [hp, Except.ok.injEq, Prod.mk.injEq] at he
        rw [← he.1]
        have := encEntries_length_le ents tys vs h bs' h2 hp
        simp only [size, List.length_cons, List.length_append]; omega
    | _ => simp [encode] at he
theorem encProd_length_le : ∀ (ts : List Ty) (vs : List Val) (h : HChan) (bs : Bytes) (h' : HChan),
    encProd ts vs h = .ok (bs, h') → bs.length ≤ sizeProd ts vs
  | [], vs, h, bs, h', he => by
    cases vs <;> simp [encProd] at he
    simp [← he.1, sizeProd]
  | t :: ts, vs, h, bs, h', he => by
    cases vs with
    | nil => simp [encProd] at he
    | cons v vs =>
      simp only [encProd] at he
      cases ha : encode t v h with
      | error er => simp [ha] at he
      | ok r =>
        obtain ⟨a, h1⟩ := r
        simp only [ha] at he
        cases hb : encProd ts vs h1 with
        | error er => simp [hb] at he
        | ok r2 =>
          obtain ⟨b, h2⟩ := r2
          simp only [hb, Except.ok.injEq, Prod.mk.injEq] at he
          have := encode_length_le t v h a h1 ha
          have := encProd_length_le ts vs h1 b h2 hb
          rw [← he.1]; simp only [sizeProd, List.length_append]; omega
theorem encAlt_length_le : ∀ (ts : List Ty) (i : Nat) (v : Val) (h : HChan) (bs : Bytes) (h' : HChan),
    encAlt ts i v h = .ok (bs, h') → bs.length ≤ sizeAlt ts i v
  | [], i, v, h, bs, h', he => by simp [encAlt] at he
  | t :: ts, 0, v, h, bs, h', he => by
    simp only [encAlt] at he; simpa [sizeAlt] using encode_length_le t v h bs h' he
  | t :: ts, i + 1, v, h, bs, h', he => by
    simp only [encAlt] at he; simpa [sizeAlt] using encAlt_length_le ts i v h bs h' he
theorem encEntries_length_le : ∀ (ents : List (Nat × Bool)) (ts : List Ty) (vs : List Val) (h : HChan)
    (bs : Bytes) (h' : HChan),
    encEntries ents ts vs h = .ok (bs, h') → bs.length ≤ sizeEntries ents ts vs
  | [], ts, vs, h, bs, h', he => by
    cases ts <;> cases vs <;> simp [encEntries] at he
    simp [← he.1, sizeEntries]
  | (eid, d) :: es, [], vs, h, bs, h', he => by simp [encEntries] at he
  | (eid, d) :: es, t :: ts, [], h, bs, h', he => by simp [encEntries] at he
  | (eid, d) :: es, t :: ts, v :: vs, h, bs, h', he => by
    simp only [encEntries] at he
    cases v with
    | tag i x =>
      simp only at he
      cases ha : encode t x h with
      | error er => simp [ha] at he
      | ok r =>
        obtain ⟨vb, h1⟩ := r
        simp only [ha] at he
        by_cases hsz : size t x < vb.length
        · simp [hsz] at he
        · simp only [hsz, ↓reduceIte] at he
          cases hb : encEntries es ts vs h1 with
          | error er => simp [hb] at he
          | ok r2 =>
            obtain ⟨rest, h2⟩ := r2
            simp only [hb, Except.ok.injEq, Prod.mk.injEq] at he
            have := encEntries_length_le es ts vs h1 rest h2 hb
            rw [← he.1]
            simp only [sizeEntries, List.length_append, List.length_replicate]
            omega
    | int _ => simp only at he; simpa [sizeEntries] using encEntries_length_le es ts vs h bs h' he
    | list _ => simp only at he; simpa [sizeEntries] using encEntries_length_le es ts vs h bs h' he
    | nil => simp only at he; simpa [sizeEntries] using encEntries_length_le es ts vs h bs h' he
end

end Nop
