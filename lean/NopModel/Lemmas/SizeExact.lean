import NopModel.Lemmas.Size
import NopModel.Lemmas.Raw
/-! `Size(value)` is exactly the number of bytes `Write` emits when the type has no handles. -/
namespace Nop

mutual
def Ty.handleFree : Ty → Bool
  | .handle _ _ _ => false
  | .seq _ e => e.handleFree
  | .prod _ ts => handleFreeL ts
  | .map _ k v => k.handleFree && v.handleFree
  | .opt t => t.handleFree
  | .result _ _ t => t.handleFree
  | .variant ts => handleFreeL ts
  | .wrap t => t.handleFree
  | .ref t => t.handleFree
  | .table _ _ tys => handleFreeL tys
  | _ => true
def handleFreeL : List Ty → Bool
  | [] => true
  | t :: ts => t.handleFree && handleFreeL ts
end

theorem encAll_length_eq {α} {f : α → HChan → Except Err (Bytes × HChan)} {g : α → Nat} :
    ∀ (as : List α) (h : HChan) (bs : Bytes) (h' : HChan),
      (∀ a ∈ as, ∀ h b h', f a h = .ok (b, h') → b.length = g a) →
      encAll f as h = .ok (bs, h') → bs.length = sumMap g as
  | [], h, bs, h', _, he => by
    simp only [encAll, Except.ok.injEq, Prod.mk.injEq] at he
    simp [← he.1, sumMap]
  | a :: as, h, bs, h', hf, he => by
    simp only [encAll] at he
    cases hfa : f a h with
    | error e => simp [hfa] at he
    | ok r =>
      obtain ⟨b, h1⟩ := r
      simp only [hfa] at he
      cases hrest : encAll f as h1 with
      | error e => simp [hrest] at he
      | ok r2 =>
        obtain ⟨bs', h2⟩ := r2
        simp only [hrest, Except.ok.injEq, Prod.mk.injEq] at he
        have ih := encAll_length_eq as h1 bs' h2 (fun a' ha' => hf a' (List.mem_cons_of_mem _ ha')) hrest
        have h0 := hf a (List.mem_cons_self ..) h b h1 hfa
        rw [← he.1]
        simp only [List.length_append, sumMap]
        omega

mutual
theorem encode_length_eq : ∀ (t : Ty), t.handleFree = true → ∀ (v : Val) (h : HChan) (bs : Bytes) (h' : HChan),
    valid t v = true → encode t v h = .ok (bs, h') → bs.length = size t v
  | .bool, _, v, h, bs, h', hv, he => by
    cases v <;> simp [encode] at he
    simp [← he.1, size]
  | .int k nom, _, v, h, bs, h', hv, he => by
    cases v <;> simp [encode] at he
    simp [← he.1, size]
  | .float w, _, v, h, bs, h', hv, he => by
    cases v <;> simp [encode] at he
    rw [← he.1]; cases w <;> simp [size]
  | .str n cb, _, v, h, bs, h', hv, he => by
    cases v with
    | list vs =>
      simp only [valid, Bool.and_eq_true, decide_eq_true_eq] at hv
      simp only [encode, Except.ok.injEq, Prod.mk.injEq] at he
      rw [← he.1]
      have hall := (allP_iff _ _).1 hv.1
      have := flatMap_length_eq (unitToRaw cb) cb vs (fun a ha => (unit_roundtrip (hall a ha)).1)
      simp only [size, List.length_cons, List.length_append]; omega
    | _ => simp [valid] at hv
  | .seq f e, hf, v, h, bs, h', hv, he => by
    cases v with
    | list vs =>
      simp only [Ty.handleFree] at hf
      simp only [valid, Bool.and_eq_true, decide_eq_true_eq] at hv
      have hall := (allP_iff _ _).1 hv.1.2
      simp only [encode] at he
      cases hov : lbufOver f vs.length with
      | true => simp [hov] at he
      | false =>
        cases hint : e.integral with
        | true =>
          simp only [hov, hint, Bool.false_eq_true, ↓reduceIte, Except.ok.injEq, Prod.mk.injEq] at he
          rw [← he.1]
          have := flatMap_length_eq (valToRaw e) e.width vs (fun a ha => (raw_roundtrip hint (hall a ha)).1)
          simp only [size, hint, ↓reduceIte, List.length_cons, List.length_append]; omega
        | false =>
          simp only [hov, hint, Bool.false_eq_true, ↓reduceIte] at he
          cases hall2 : encAll (encode e) vs h with
          | error er => simp [hall2] at he
          | ok r =>
            obtain ⟨bs', h2⟩ := r
            simp only [hall2, Except.ok.injEq, Prod.mk.injEq] at he
            rw [← he.1]
            have := encAll_length_eq (g := size e) vs h bs' h2
              (fun a ha h b h' hab => encode_length_eq e hf a h b h' (hall a ha) hab) hall2
            simp only [size, hint, Bool.false_eq_true, ↓reduceIte, List.length_cons, List.length_append]; omega
    | _ => simp [valid] at hv
  | .prod k ts, hf, v, h, bs, h', hv, he => by
    cases v with
    | list vs =>
      simp only [Ty.handleFree] at hf
      simp only [valid] at hv
      simp only [encode] at he
      cases hp : encProd ts vs h with
      | error er => simp [hp] at he
      | ok r =>
        obtain ⟨bs', h2⟩ := r
        simp only [hp, Except.ok.injEq, Prod.mk.injEq] at he
        rw [← he.1]
        have := encProd_length_eq ts hf vs h bs' h2 hv hp
        simp only [size, List.length_cons, List.length_append]; omega
    | _ => simp [valid] at hv
  | .map o k v', hf, v, h, bs, h', hv, he => by
    cases v with
    | list kvs =>
      simp only [Ty.handleFree, Bool.and_eq_true] at hf
      simp only [valid, Bool.and_eq_true, decide_eq_true_eq] at hv
      have hall := (allP_iff _ _).1 hv.1.1
      simp only [encode] at he
      cases hall2 : encAll (pairEnc (encode k) (encode v')) kvs h with
      | error er => simp [hall2] at he
      | ok r =>
        obtain ⟨bs', h2⟩ := r
        simp only [hall2, Except.ok.injEq, Prod.mk.injEq] at he
        rw [← he.1]
        have := encAll_length_eq (g := fun kv => size k (kvKey kv) + size v' (kvVal kv)) kvs h bs' h2
          (by
            intro kv hkv h0 b h1 hab
            have hkvv := hall kv hkv
            cases kv with
            | list l =>
              match l, hkvv with
              | [a, b0], hkvv =>
                simp only [Bool.and_eq_true] at hkvv
                simp only [pairEnc, kvKey, kvVal, Val.elems, List.headD_cons, List.tail_cons] at hab ⊢
                cases ha : encode k a h0 with
                | error er => simp [ha] at hab
                | ok r1 =>
                  obtain ⟨ba, hm1⟩ := r1
                  simp only [ha] at hab
                  cases hb : encode v' b0 hm1 with
                  | error er => simp [hb] at hab
                  | ok r2 =>
                    obtain ⟨bb, hm2⟩ := r2
                    simp only [hb, Except.ok.injEq, Prod.mk.injEq] at hab
                    have := encode_length_eq k hf.1 a h0 ba hm1 hkvv.1 ha
                    have := encode_length_eq v' hf.2 b0 hm1 bb hm2 hkvv.2 hb
                    rw [← hab.1]; simp only [List.length_append]; omega
            | int _ => simp at hkvv
            | nil => simp at hkvv
            | tag _ _ => simp at hkvv) hall2
        simp only [size, List.length_cons, List.length_append]; omega
    | _ => simp [valid] at hv
  | .opt t, hf, v, h, bs, h', hv, he => by
    simp only [Ty.handleFree] at hf
    cases v with
    | nil => simp [encode] at he; simp [← he.1, size]
    | tag i x =>
      have hi : i = 1 := by
        by_cases h1 : i = 1
        · exact h1
        · exfalso; revert hv; rw [valid]; simp
          all_goals (intros; simp_all)
      subst hi
      simp only [valid] at hv
      simp only [encode] at he
      simpa [size] using encode_length_eq t hf x h bs h' hv he
    | _ => simp [valid] at hv
  | .result en ek t, hf, v, h, bs, h', hv, he => by
    simp only [Ty.handleFree] at hf
    cases v with
    | tag i x =>
      by_cases h0 : i = 0
      · subst h0
        cases x with
        | int e =>
          simp only [encode, Except.ok.injEq, Prod.mk.injEq] at he
          rw [← he.1]; simp only [size, List.length_cons]; omega
        | _ => simp [valid] at hv
      · have hi : i = 1 := by
          by_cases h1 : i = 1
          · exact h1
          · exfalso; revert hv; rw [valid]; simp
            all_goals (intros; simp_all)
        subst hi
        simp only [valid] at hv
        have hen : encode (.result en ek t) (.tag 1 x) h = encode t x h := by
          rw [encode]; intro e a; exact absurd a (by decide)
        rw [hen] at he
        have hsz : size (.result en ek t) (.tag 1 x) = size t x := by
          rw [size]; intro e a; exact absurd a (by decide)
        rw [hsz]; exact encode_length_eq t hf x h bs h' hv he
    | _ => simp [valid] at hv
  | .variant ts, hf, v, h, bs, h', hv, he => by
    simp only [Ty.handleFree] at hf
    cases v with
    | tag i x =>
      simp only [valid] at hv
      simp only [encode] at he
      by_cases hi : i < 0
      · simp only [hi, ↓reduceIte, Except.ok.injEq, Prod.mk.injEq] at he
        rw [← he.1]; simp only [size, hi, ↓reduceIte, List.length_cons, List.length_append, List.length_nil]; omega
      · simp only [hi, ↓reduceIte] at he
        have hne : (i == -1) = false := by simp; omega
        simp only [hne, Bool.false_eq_true, ↓reduceIte, Bool.and_eq_true, decide_eq_true_eq] at hv
        cases ha : encAlt ts i.toNat x h with
        | error er => simp [ha] at he
        | ok r =>
          obtain ⟨bs', h2⟩ := r
          simp only [ha, Except.ok.injEq, Prod.mk.injEq] at he
          rw [← he.1]
          have := encAlt_length_eq ts hf i.toNat x h bs' h2 hv.2 ha
          simp only [size, hi, ↓reduceIte, List.length_cons, List.length_append]; omega
    | _ => simp [valid] at hv
  | .handle p ht tk, hf, v, h, bs, h', hv, he => by simp [Ty.handleFree] at hf
  | .wrap t, hf, v, h, bs, h', hv, he => by
    simp only [Ty.handleFree] at hf
    simp only [valid] at hv
    simp only [encode] at he; simpa [size] using encode_length_eq t hf v h bs h' hv he
  | .ref t, hf, v, h, bs, h', hv, he => by
    simp only [Ty.handleFree] at hf
    simp only [valid] at hv
    simp only [encode] at he; simpa [size] using encode_length_eq t hf v h bs h' hv he
  | .table hash ents tys, hf, v, h, bs, h', hv, he => by
    cases v with
    | list vs =>
      simp only [encode] at he
      cases hp : encEntries ents tys vs h with
      | error er => simp [hp] at he
      | ok r =>
        obtain ⟨bs', h2⟩ := r
        simp only [hp, Except.ok.injEq, Prod.mk.injEq] at he
        rw [← he.1]
        have := encEntries_length_eq ents tys vs h bs' h2 hp
        simp only [size, List.length_cons, List.length_append]; omega
    | _ => simp [valid] at hv
theorem encProd_length_eq : ∀ (ts : List Ty), handleFreeL ts = true → ∀ (vs : List Val) (h : HChan) (bs : Bytes)
    (h' : HChan), validProd ts vs = true → encProd ts vs h = .ok (bs, h') → bs.length = sizeProd ts vs
  | [], _, vs, h, bs, h', hv, he => by
    cases vs <;> simp [encProd] at he
    simp [← he.1, sizeProd]
  | t :: ts, hf, vs, h, bs, h', hv, he => by
    simp only [handleFreeL, Bool.and_eq_true] at hf
    cases vs with
    | nil => simp [encProd] at he
    | cons v vs =>
      simp only [validProd, Bool.and_eq_true] at hv
      simp only [encProd] at he
      cases ha : encode t v h with
      | error er => simp [ha] at he
      | ok r =>
        obtain ⟨a, h1⟩ := r
        simp only [ha] at he
        cases hb : encProd ts vs h1 with
        | error er => simp [hb] at he
        | ok r2 =>
          obtain ⟨b, h2⟩ := r2
          simp only [hb, Except.ok.injEq, Prod.mk.injEq] at he
          have := encode_length_eq t hf.1 v h a h1 hv.1 ha
          have := encProd_length_eq ts hf.2 vs h1 b h2 hv.2 hb
          rw [← he.1]; simp only [sizeProd, List.length_append]; omega
theorem encAlt_length_eq : ∀ (ts : List Ty), handleFreeL ts = true → ∀ (i : Nat) (v : Val) (h : HChan)
    (bs : Bytes) (h' : HChan), validAlt ts i v = true → encAlt ts i v h = .ok (bs, h') →
    bs.length = sizeAlt ts i v
  | [], _, i, v, h, bs, h', hv, he => by simp [encAlt] at he
  | t :: ts, hf, 0, v, h, bs, h', hv, he => by
    simp only [handleFreeL, Bool.and_eq_true] at hf
    simp only [validAlt] at hv
    simp only [encAlt] at he; simpa [sizeAlt] using encode_length_eq t hf.1 v h bs h' hv he
  | t :: ts, hf, i + 1, v, h, bs, h', hv, he => by
    simp only [handleFreeL, Bool.and_eq_true] at hf
    simp only [validAlt] at hv
    simp only [encAlt] at he; simpa [sizeAlt] using encAlt_length_eq ts hf.2 i v h bs h' hv he
/-- entries are framed to their declared size whether or not the value contains handles -/
theorem encEntries_length_eq : ∀ (ents : List (Nat × Bool)) (ts : List Ty) (vs : List Val) (h : HChan)
    (bs : Bytes) (h' : HChan),
    encEntries ents ts vs h = .ok (bs, h') → bs.length = sizeEntries ents ts vs
  | [], ts, vs, h, bs, h', he => by
    cases ts <;> cases vs <;> simp [encEntries] at he
    simp [← he.1, sizeEntries]
  | (eid, d) :: es, [], vs, h, bs, h', he => by simp [encEntries] at he
  | (eid, d) :: es, t :: ts, [], h, bs, h', he => by simp [encEntries] at he
  | (eid, d) :: es, t :: ts, v :: vs, h, bs, h', he => by
    simp only [encEntries] at he
    cases v with
    | tag i x =>
      simp only at he
      cases ha : encode t x h with
      | error er => simp [ha] at he
      | ok r =>
        obtain ⟨vb, h1⟩ := r
        simp only [ha] at he
        by_cases hsz : size t x < vb.length
        · simp [hsz] at he
        · simp only [hsz, ↓reduceIte] at he
          cases hb : encEntries es ts vs h1 with
          | error er => simp [hb] at he
          | ok r2 =>
            obtain ⟨rest, h2⟩ := r2
            simp only [hb, Except.ok.injEq, Prod.mk.injEq] at he
            have := encEntries_length_eq es ts vs h1 rest h2 hb
            rw [← he.1]
            simp only [sizeEntries, List.length_append, List.length_replicate]
            omega
    | int _ => simp only at he; simpa [sizeEntries] using encEntries_length_eq es ts vs h bs h' he
    | list _ => simp only at he; simpa [sizeEntries] using encEntries_length_eq es ts vs h bs h' he
    | nil => simp only at he; simpa [sizeEntries] using encEntries_length_eq es ts vs h bs h' he
end

end Nop
