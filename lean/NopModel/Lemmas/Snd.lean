import NopModel.Lang
import NopModel.Lemmas.Src
import NopModel.Lemmas.Conf
import NopModel.Lemmas.Loop
/-! Soundness judgement: "whenever `m` succeeds on a clean source, the bytes it consumed are in
the language `R` and denote the value it returned" — with its combinators, from which
`C04_sound` is assembled. -/
namespace Nop

/-- every successful run of `m` from a clean source consumed a prefix `bs` of the input,
within every enclosing budget, left the source exactly `bs.length` further, and `R` relates
the handle table, the result and `bs` -/
def Snd {α} (m : M α) (R : List Int → α → Bytes → Prop) : Prop :=
  ∀ (s : Src) (a : α) (s' : Src), s.fault = .none → m s = (.ok a, s') →
    ∃ bs rest, s.bytes = bs ++ rest ∧ s' = s.adv bs.length ∧ framesOk bs.length s.frames = true ∧
      R s.handles a bs

namespace Snd
variable {α β : Type}

theorem pure (a : α) : Snd (Pure.pure a : M α) (fun _ x bs => x = a ∧ bs = []) := by
  intro s x s' _ h
  simp only [pure_run, Prod.mk.injEq, Except.ok.injEq] at h
  obtain ⟨rfl, rfl⟩ := h
  exact ⟨[], s.bytes, rfl, by simp, framesOk_zero _, rfl, rfl⟩

theorem fail (e : Err) (R : List Int → α → Bytes → Prop) : Snd (M.fail e : M α) R := by
  intro s x s' _ h
  simp at h

theorem mono {m : M α} {R R' : List Int → α → Bytes → Prop} (h : Snd m R)
    (hr : ∀ hs a bs, R hs a bs → R' hs a bs) : Snd m R' := by
  intro s a s' hc hm
  obtain ⟨bs, rest, h1, h2, h3, h4⟩ := h s a s' hc hm
  exact ⟨bs, rest, h1, h2, h3, hr _ _ _ h4⟩

theorem bind {m : M α} {f : α → M β} {R : List Int → α → Bytes → Prop} {S : α → List Int → β → Bytes → Prop}
    (hm : Snd m R) (hf : ∀ a, Snd (f a) (S a)) :
    Snd (m >>= f) (fun hs c bs => ∃ a b1 b2, bs = b1 ++ b2 ∧ R hs a b1 ∧ S a hs c b2) := by
  intro s c s' hc h
  rw [bind_run] at h
  cases hms : m s with
  | mk r1 s1 =>
    cases r1 with
    | error e => simp [hms] at h
    | ok a =>
      simp only [hms] at h
      obtain ⟨b1, rest1, hb1, hs1, hf1, hr1⟩ := hm s a s1 hc hms
      have hc1 : s1.fault = .none := by rw [hs1]; simpa using hc
      obtain ⟨b2, rest2, hb2, hs2, hf2, hr2⟩ := hf a s1 c s' hc1 h
      have hbytes1 : s1.bytes = rest1 := by rw [hs1]; simp [hb1]
      refine ⟨b1 ++ b2, rest2, ?_, ?_, ?_, a, b1, b2, rfl, hr1, ?_⟩
      · rw [hb1, List.append_assoc, ← hb2, hbytes1]
      · rw [hs2, hs1, adv_adv, List.length_append]
      · rw [List.length_append]
        apply framesOk_add hf1
        rw [hs1] at hf2; simpa using hf2
      · rw [hs1] at hr2; simpa using hr2

theorem ite {c : Prop} [Decidable c] {a b : M α} {R : List Int → α → Bytes → Prop}
    (ha : Snd a R) (hb : Snd b R) : Snd (if c then a else b) R := by
  split <;> assumption

theorem rRead (n : Nat) : Snd (Nop.rRead n) (fun _ x bs => x = bs ∧ bs.length = n) := by
  intro s x s' hc h
  unfold Nop.rRead at h
  by_cases hf : framesOk n s.frames = true
  · simp only [hf, Bool.not_true, Bool.false_eq_true, ↓reduceIte, pre_clean hc] at h
    by_cases hl : s.bytes.length < n
    · simp [hl] at h
    · simp only [hl, ↓reduceIte, Prod.mk.injEq, Except.ok.injEq] at h
      obtain ⟨rfl, rfl⟩ := h
      have hlen : (s.bytes.take n).length = n := by simp; omega
      exact ⟨s.bytes.take n, s.bytes.drop n, (List.take_append_drop n s.bytes).symm, by rw [hlen], by rw [hlen]; exact hf, rfl, hlen⟩
  · simp [hf] at h

theorem rSkip (n : Nat) : Snd (Nop.rSkip n) (fun _ _ bs => bs.length = n) := by
  intro s x s' hc h
  unfold Nop.rSkip at h
  by_cases hf : framesOk n s.frames = true
  · simp only [hf, Bool.not_true, Bool.false_eq_true, ↓reduceIte, pre_clean hc] at h
    by_cases hl : s.bytes.length < n
    · simp [hl] at h
    · simp only [hl, ↓reduceIte, Prod.mk.injEq, Except.ok.injEq] at h
      obtain ⟨_, rfl⟩ := h
      have hlen : (s.bytes.take n).length = n := by simp; omega
      exact ⟨s.bytes.take n, s.bytes.drop n, (List.take_append_drop n s.bytes).symm, by rw [hlen], by rw [hlen]; exact hf, hlen⟩
  · simp [hf] at h

theorem rEnsure (n : Nat) : Snd (Nop.rEnsure n) (fun _ _ bs => bs = []) := by
  intro s x s' hc h
  unfold Nop.rEnsure at h
  by_cases hf : framesOk n s.frames = true
  · simp only [hf, Bool.not_true, Bool.false_eq_true, ↓reduceIte, pre_clean hc] at h
    split at h
    · simp at h
    · simp only [Prod.mk.injEq, Except.ok.injEq] at h
      obtain ⟨_, rfl⟩ := h
      exact ⟨[], s.bytes, rfl, by simp, framesOk_zero _, rfl⟩
  · simp [hf] at h

theorem rGetHandle (r : Int) : Snd (Nop.rGetHandle r) (fun hs x bs => bs = [] ∧ resolveHandle hs r = .ok x) := by
  intro s x s' hc h
  unfold Nop.rGetHandle at h
  simp only [pre_clean hc, Prod.mk.injEq] at h
  obtain ⟨h1, rfl⟩ := h
  exact ⟨[], s.bytes, rfl, by simp, framesOk_zero _, rfl, h1⟩

theorem rByte : Snd Nop.rByte (fun _ p bs => bs = [p]) := by
  intro s p s' hc h
  unfold Nop.rByte at h
  cases hr : Nop.rRead 1 s with
  | mk r1 s1 =>
    cases r1 with
    | error e => simp [hr] at h
    | ok b =>
      simp only [hr, Prod.mk.injEq, Except.ok.injEq] at h
      obtain ⟨rfl, rfl⟩ := h
      obtain ⟨bs, rest, h1, h2, h3, h4, h5⟩ := rRead 1 s b s1 hc hr
      subst h4
      refine ⟨b, rest, h1, h2, h3, ?_⟩
      match b, h5 with
      | [x], _ => rfl

theorem withPrefix {mt : UInt8 → Bool} {k : UInt8 → M α} {L : UInt8 → List Int → α → Bytes → Prop}
    (hk : ∀ p, Snd (k p) (L p)) :
    Snd (Nop.withPrefix mt k) (fun hs a bs => ∃ p pl, bs = p :: pl ∧ mt p = true ∧ L p hs a pl) := by
  have e : Nop.withPrefix mt k = (Nop.rByte >>= fun p => if mt p then k p else M.fail .unexpectedEncodingType) := by
    funext s
    unfold Nop.withPrefix
    rw [bind_run]
    cases Nop.rByte s with
    | mk r s' =>
      cases r with
      | error e => rfl
      | ok p => simp only; split <;> rfl
  rw [e]
  have hb := bind (f := fun p => if mt p then k p else M.fail .unexpectedEncodingType)
    (S := fun p hs a bs => mt p = true ∧ L p hs a bs) rByte (fun p => by
    by_cases hm : mt p = true
    · simp only [hm, ↓reduceIte]
      exact mono (hk p) (fun _ _ _ h => ⟨trivial, h⟩)
    · simp only [hm, Bool.false_eq_true, ↓reduceIte]
      exact fail _ _)
  apply mono hb
  rintro hs a bs ⟨p, b1, b2, rfl, rfl, hm, hl⟩
  exact ⟨p, b2, rfl, hm, hl⟩

theorem decIntPayload (k : IntKind) (p : UInt8) :
    Snd (Nop.decIntPayload k p) (fun _ i bs => bs.length = intPayloadLen k p ∧ i = intOfPayload k p bs) := by
  intro s i s' hc h
  unfold Nop.decIntPayload at h
  by_cases h0 : (intPayloadLen k p == 0) = true
  · simp only [h0, ↓reduceIte, Prod.mk.injEq, Except.ok.injEq] at h
    obtain ⟨rfl, rfl⟩ := h
    have : intPayloadLen k p = 0 := by simpa using h0
    exact ⟨[], s.bytes, rfl, by simp, framesOk_zero _, by simp [this], rfl⟩
  · simp only [h0, Bool.false_eq_true, ↓reduceIte] at h
    cases hr : Nop.rRead (intPayloadLen k p) s with
    | mk r1 s1 =>
      cases r1 with
      | error e => simp [hr] at h
      | ok b =>
        simp only [hr, Prod.mk.injEq, Except.ok.injEq] at h
        obtain ⟨rfl, rfl⟩ := h
        obtain ⟨bs, rest, h1, h2, h3, h4, h5⟩ := rRead _ s b s1 hc hr
        subst h4
        exact ⟨b, rest, h1, h2, h3, h5, rfl⟩

/-- `Match` agrees with the documented rule on every prefix byte -/
theorem intMatch_spec (k : IntKind) (p : UInt8) : intMatch k p = specIntAccept k p.toNat := by
  have tbl : (IntKind.all.all fun k => (List.range 256).all fun n =>
      intMatch k (UInt8.ofNat n) == specIntAccept k n) = true := by decide +kernel
  have hk : k ∈ IntKind.all := by cases k <;> simp [IntKind.all]
  have h1 := List.all_eq_true.1 tbl k hk
  have h2 := List.all_eq_true.1 h1 p.toNat (List.mem_range.2 (UInt8.toNat_lt p))
  have hp : UInt8.ofNat p.toNat = p := UInt8.toNat_inj.1 (by simp [UInt8.toNat_ofNat'])
  rw [hp] at h2
  exact beq_iff_eq.1 h2

theorem decInt (k : IntKind) : Snd (Nop.decInt k) (fun _ i bs => LInt k i bs) := by
  unfold Nop.decInt
  apply mono (withPrefix (fun p => decIntPayload k p))
  rintro hs i bs ⟨p, pl, rfl, hm, hl, hi⟩
  exact ⟨p, pl, rfl, by rw [← intMatch_spec]; exact hm, hl, hi⟩

theorem decSize : Snd Nop.decSize (fun _ n bs => LSize n bs) := by
  intro s n s' hc h
  unfold Nop.decSize at h
  cases hr : Nop.decInt .u64 s with
  | mk r1 s1 =>
    cases r1 with
    | error e => simp [hr] at h
    | ok i =>
      simp only [hr, Prod.mk.injEq, Except.ok.injEq] at h
      obtain ⟨rfl, rfl⟩ := h
      obtain ⟨bs, rest, h1, h2, h3, h4⟩ := decInt .u64 s i s1 hc hr
      exact ⟨bs, rest, h1, h2, h3, i, h4, rfl⟩

theorem repM {f : M α} {R : List Int → α → Bytes → Prop} (hf : Snd f R) :
    ∀ n, Snd (Nop.repM n f) (fun hs as bs => as.length = n ∧ LAll (R hs) as bs)
  | 0 => by
    rw [repM_zero]
    apply mono (pure _)
    rintro hs as bs ⟨rfl, rfl⟩
    exact ⟨rfl, rfl⟩
  | n + 1 => by
    rw [repM_succ]
    have h := bind hf (fun a => bind (repM hf n) (fun as => pure (a :: as)))
    apply mono h
    rintro hs as bs ⟨a, b1, b2, rfl, hr, as', b3, b4, rfl, ⟨hlen, hall⟩, rfl, rfl⟩
    refine ⟨by simp [hlen], b1, b3 ++ [], rfl, hr, ?_⟩
    simpa using hall

theorem repP {f : α → M α} {R : List Int → α → Bytes → Prop} (d : α) (hf : ∀ pr, Snd (f pr) R) :
    ∀ n prs, Snd (Nop.repP n prs d f) (fun hs as bs => as.length = n ∧ LAll (R hs) as bs)
  | 0, prs => by
    rw [repP_zero]
    apply mono (pure _)
    rintro hs as bs ⟨rfl, rfl⟩
    exact ⟨rfl, rfl⟩
  | n + 1, prs => by
    rw [repP_succ]
    have h := bind (hf (prs.headD d)) (fun a => bind (repP d hf n prs.tail) (fun as => pure (a :: as)))
    apply mono h
    rintro hs as bs ⟨a, b1, b2, rfl, hr, as', b3, b4, rfl, ⟨hlen, hall⟩, rfl, rfl⟩
    refine ⟨by simp [hlen], b1, b3 ++ [], rfl, hr, ?_⟩
    simpa using hall

/-- the table's entry loop: an id, then whatever `g` reads for that id -/
theorem iter {g : Nat → List Val → M (List Val)} {E : List Int → Nat → List Val → List Val → Bytes → Prop}
    (hg : ∀ id cur, Snd (g id cur) (fun hs out b => E hs id cur out b)) :
    ∀ n cur, Snd (Nop.itM n (fun cur => do let id ← Nop.decInt .u64; g id.toNat cur) cur)
      (fun hs out bs => LIter (E hs) n cur out bs)
  | 0, cur => by
    rw [itM_zero]
    apply mono (pure _)
    rintro hs out bs ⟨rfl, rfl⟩
    exact ⟨rfl, rfl⟩
  | n + 1, cur => by
    rw [itM_succ]
    have h := bind (bind (decInt .u64) (fun id => hg id.toNat cur)) (fun cur' => iter hg n cur')
    apply mono h
    rintro hs out bs ⟨cur', b1, b2, rfl, ⟨id, ib, be, rfl, hid, he⟩, hit⟩
    exact ⟨id, ib, be, b2, cur', by simp, hid, he, hit⟩

/-- a table entry's payload: a `BoundedReader` of the declared size around `m`, then the padding -/
theorem framed {m : M α} {R : List Int → α → Bytes → Prop} (sz : Nat) (g : α → β) (hm : Snd m R) :
    Snd (do Nop.rPush sz; let v ← m; Nop.rPadPop; Pure.pure (g v))
      (fun hs b bs => ∃ v vb pad, b = g v ∧ bs = vb ++ pad ∧ R hs v vb ∧ vb.length + pad.length = sz) := by
  intro s b s' hc h
  rw [bind_run] at h
  simp only [Nop.rPush] at h
  rw [bind_run] at h
  cases hms : m { s with frames := sz :: s.frames } with
  | mk r1 s1 =>
    cases r1 with
    | error e => simp [hms] at h
    | ok v =>
      simp only [hms] at h
      obtain ⟨vb, rest1, hb1, hs1, hf1, hr1⟩ := hm { s with frames := sz :: s.frames } v s1 hc hms
      have hle : vb.length ≤ sz := by
        have := (framesOk_iff _ _).1 hf1 sz (by simp)
        exact this
      have hf1' : framesOk vb.length s.frames = true := by
        rw [framesOk_iff] at hf1 ⊢
        intro x hx; exact hf1 x (by simp [hx])
      rw [bind_run] at h
      subst hs1
      unfold Nop.rPadPop at h
      simp only [Src.adv, List.map_cons] at h
      split at h
      · rename_i u s2 hsk0
        simp only [pure_run, Prod.mk.injEq, Except.ok.injEq] at h
        obtain ⟨rfl, rfl⟩ := h
        split at hsk0
        case h_2 => simp at hsk0
        rename_i u' s2' hsk
        simp only [Prod.mk.injEq, Except.ok.injEq] at hsk0
        obtain ⟨_, rfl⟩ := hsk0
        obtain ⟨pad, rest2, hb2, hs2, hf2, hlen2⟩ := rSkip _ _ u' s2' (by exact hc) hsk
        simp only at hb2 hs2 hf2
        have hb1' : s.bytes = vb ++ rest1 := hb1
        have hdrop : s.bytes.drop vb.length = rest1 := by rw [hb1']; simp
        rw [hdrop] at hb2
        refine ⟨vb ++ pad, rest2, ?_, ?_, ?_, v, vb, pad, rfl, rfl, hr1, by omega⟩
        · rw [hb1', hb2, List.append_assoc]
        · rw [hs2]
          simp only [Src.adv, List.drop_drop, List.map_map, List.length_append, Src.mk.injEq, true_and, and_true]
          apply List.map_congr_left
          intro x _
          simp only [Function.comp]
          omega
        · rw [List.length_append]
          exact framesOk_add hf1' hf2
      · simp at h

end Snd
end Nop

namespace Nop
namespace Snd
variable {α β : Type}

/-- a rejecting check in front of `b`: the condition did not hold -/
theorem guard {c : Prop} [Decidable c] {e : Err} {b : M α} {R : List Int → α → Bytes → Prop} (hb : Snd b R) :
    Snd (if c then M.fail e else b) (fun hs a bs => ¬ c ∧ R hs a bs) := by
  by_cases hc : c
  · rw [if_pos hc]; exact fail _ _
  · rw [if_neg hc]; exact mono hb (fun _ _ _ h => ⟨hc, h⟩)

/-- `m`, then a pure function of its result -/
theorem map {m : M α} {R : List Int → α → Bytes → Prop} (g : α → β) (hm : Snd m R) :
    Snd (m >>= fun a => Pure.pure (g a)) (fun hs b bs => ∃ a, b = g a ∧ R hs a bs) := by
  apply mono (bind hm (fun a => pure (g a)))
  rintro hs b bs ⟨a, b1, b2, rfl, hr, rfl, rfl⟩
  exact ⟨a, rfl, by simpa using hr⟩

end Snd
end Nop
