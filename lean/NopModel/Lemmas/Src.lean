import NopModel.Src
import NopModel.Lemmas.Wire
namespace Nop

theorem pre_clean {s : Src} (h : s.fault = .none) : s.pre = (none, s) := by
  unfold Src.pre; rw [h]

@[simp] theorem adv_bytes (s : Src) (n : Nat) : (s.adv n).bytes = s.bytes.drop n := rfl
@[simp] theorem adv_frames (s : Src) (n : Nat) : (s.adv n).frames = s.frames.map (· - n) := rfl
@[simp] theorem adv_fault (s : Src) (n : Nat) : (s.adv n).fault = s.fault := rfl
@[simp] theorem adv_eof (s : Src) (n : Nat) : (s.adv n).eof = s.eof := rfl
@[simp] theorem adv_ensureChecks (s : Src) (n : Nat) : (s.adv n).ensureChecks = s.ensureChecks := rfl
@[simp] theorem adv_handles (s : Src) (n : Nat) : (s.adv n).handles = s.handles := rfl

@[simp] theorem adv_zero (s : Src) : s.adv 0 = s := by
  cases s; simp [Src.adv]

theorem adv_adv (s : Src) (a b : Nat) : (s.adv a).adv b = s.adv (a + b) := by
  cases s
  simp only [Src.adv, List.drop_drop, List.map_map, Src.mk.injEq, true_and, and_true]
  apply List.map_congr_left
  intro x _
  simp only [Function.comp]
  omega

theorem framesOk_iff (n : Nat) (fs : List Nat) : framesOk n fs = true ↔ ∀ b ∈ fs, n ≤ b := by
  simp [framesOk, List.all_eq_true]

theorem framesOk_mono {m n : Nat} {fs : List Nat} (h : m ≤ n) (hf : framesOk n fs = true) :
    framesOk m fs = true := by
  rw [framesOk_iff] at *
  intro b hb
  exact Nat.le_trans h (hf b hb)

theorem framesOk_adv {a b : Nat} {fs : List Nat} (hf : framesOk (a + b) fs = true) :
    framesOk b (fs.map (· - a)) = true := by
  rw [framesOk_iff] at *
  intro x hx
  rw [List.mem_map] at hx
  obtain ⟨y, hy, rfl⟩ := hx
  have := hf y hy
  omega

theorem framesOk_zero (fs : List Nat) : framesOk 0 fs = true := by
  rw [framesOk_iff]; intro b _; exact Nat.zero_le b

theorem rRead_ok {s : Src} {n : Nat} (hc : s.fault = .none) (hl : n ≤ s.bytes.length)
    (hf : framesOk n s.frames = true) : rRead n s = (.ok (s.bytes.take n), s.adv n) := by
  unfold rRead
  simp only [hf, Bool.not_true, Bool.false_eq_true, ↓reduceIte, pre_clean hc]
  have : ¬ s.bytes.length < n := by omega
  simp [this]

theorem rSkip_ok {s : Src} {n : Nat} (hc : s.fault = .none) (hl : n ≤ s.bytes.length)
    (hf : framesOk n s.frames = true) : rSkip n s = (.ok (), s.adv n) := by
  unfold rSkip
  simp only [hf, Bool.not_true, Bool.false_eq_true, ↓reduceIte, pre_clean hc]
  have : ¬ s.bytes.length < n := by omega
  simp [this]

theorem rEnsure_ok {s : Src} {n : Nat} (hc : s.fault = .none) (hl : n ≤ s.bytes.length)
    (hf : framesOk n s.frames = true) : rEnsure n s = (.ok (), s) := by
  unfold rEnsure
  simp only [hf, Bool.not_true, Bool.false_eq_true, ↓reduceIte, pre_clean hc]
  have : ¬ s.bytes.length < n := by omega
  simp [this]

theorem rByte_ok {s : Src} {p : UInt8} {r : Bytes} (hc : s.fault = .none) (hb : s.bytes = p :: r)
    (hf : framesOk 1 s.frames = true) : rByte s = (.ok p, s.adv 1) := by
  unfold rByte
  rw [rRead_ok hc (by rw [hb]; simp) hf]
  simp [hb]

theorem withPrefix_ok {α} {s : Src} {p : UInt8} {r : Bytes} {mt : UInt8 → Bool} {k : UInt8 → M α}
    (hc : s.fault = .none) (hb : s.bytes = p :: r) (hf : framesOk 1 s.frames = true) (hm : mt p = true) :
    withPrefix mt k s = k p (s.adv 1) := by
  unfold withPrefix
  rw [rByte_ok hc hb hf]
  simp [hm]

/-- bind on a successful first step -/
theorem bind_ok {α β} {x : M α} {f : α → M β} {s s' : Src} {a : α} (h : x s = (.ok a, s')) :
    (x >>= f) s = f a s' := by
  show M.bind x f s = _
  unfold M.bind; rw [h]

theorem bind_err {α β} {x : M α} {f : α → M β} {s s' : Src} {e : Err} (h : x s = (.error e, s')) :
    (x >>= f) s = (.error e, s') := by
  show M.bind x f s = _
  unfold M.bind; rw [h]

@[simp] theorem pure_run {α} (a : α) (s : Src) : (pure a : M α) s = (.ok a, s) := rfl
@[simp] theorem fail_run {α} (e : Err) (s : Src) : (M.fail e : M α) s = (.error e, s) := rfl

theorem bind_run {α β} (x : M α) (f : α → M β) (s : Src) :
    (x >>= f) s = match x s with
      | (.ok a, s') => f a s'
      | (.error e, s') => (.error e, s') := rfl

end Nop
