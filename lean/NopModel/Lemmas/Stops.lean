import NopModel.Codec
import NopModel.Lemmas.Src
/-! C10 on the read side: an error reported by the underlying reader stops the operation,
is returned unchanged, and no further call reaches the reader.  The fault script in `Src`
(`armed k e` → `dead e` → `zombie e`) records exactly that. -/
namespace Nop

/-- no injected failure has happened yet -/
def Src.live (e : Err) (s : Src) : Prop := s.fault = .none ∨ ∃ k, s.fault = .armed k e

/-- outcome of running `m` from a live state: either still live, or the injected failure
happened, nothing was called afterwards, and `m` returned exactly that error -/
def Stopped {α} (e : Err) (r : Except Err α) (s' : Src) : Prop :=
  s'.live e ∨ (s'.fault = .dead e ∧ r = .error e)

def Stops {α} (m : M α) : Prop :=
  ∀ (e : Err) (s : Src) (r : Except Err α) (s' : Src), s.live e → m s = (r, s') → Stopped e r s'

theorem live_pre {e : Err} {s : Src} (h : s.live e) :
    (∃ s1, s.pre = (none, s1) ∧ s1.live e ∧ s1.bytes = s.bytes ∧ s1.frames = s.frames ∧ s1.eof = s.eof
        ∧ s1.ensureChecks = s.ensureChecks ∧ s1.handles = s.handles) ∨
    (s.pre = (some e, { s with fault := .dead e })) := by
  unfold Src.pre
  rcases h with h | ⟨k, h⟩
  · left; exact ⟨s, by rw [h], Or.inl h, rfl, rfl, rfl, rfl, rfl⟩
  · cases k with
    | zero => right; rw [h]
    | succ k =>
      left
      exact ⟨{ s with fault := .armed k e }, by rw [h], Or.inr ⟨k, rfl⟩, rfl, rfl, rfl, rfl, rfl⟩

namespace Stops
variable {α β : Type}

theorem pure (a : α) : Stops (Pure.pure a : M α) := by
  intro e0 s r s' hl h
  simp only [pure_run, Prod.mk.injEq] at h
  obtain ⟨_, rfl⟩ := h
  exact Or.inl hl

theorem fail (e : Err) : Stops (M.fail e : M α) := by
  intro e0 s r s' hl h
  simp only [fail_run, Prod.mk.injEq] at h
  obtain ⟨_, rfl⟩ := h
  exact Or.inl hl

theorem bind {m : M α} {f : α → M β} (hm : Stops m) (hf : ∀ a, Stops (f a)) : Stops (m >>= f) := by
  intro e0 s r s' hl h
  rw [bind_run] at h
  cases hms : m s with
  | mk r1 s1 =>
    have h1 := hm e0 s r1 s1 hl hms
    cases r1 with
    | error e =>
      simp only [hms, Prod.mk.injEq] at h
      obtain ⟨rfl, rfl⟩ := h
      rcases h1 with h1 | ⟨hd, he⟩
      · exact Or.inl h1
      · right; exact ⟨hd, by simpa using he⟩
    | ok a =>
      simp only [hms] at h
      rcases h1 with h1 | ⟨_, he⟩
      · exact hf a e0 s1 r s' h1 h
      · simp at he

theorem ite {c : Prop} [Decidable c] {a b : M α} (ha : Stops a) (hb : Stops b) : Stops (if c then a else b) := by
  split <;> assumption

/-- shape shared by Read / Skip / Ensure: budget check, fault script, then a pure outcome -/
theorem prim {g : Src → Except Err α × Src} (n : Nat)
    (hg : ∀ s1, (g s1).2.fault = s1.fault) :
    Stops (fun s => if !framesOk n s.frames then (.error .readLimitReached, s) else
      match s.pre with
      | (some e, s') => (.error e, s')
      | (none, s') => g s') := by
  intro e0 s r s' hl h
  simp only at h
  split at h
  · simp only [Prod.mk.injEq] at h; obtain ⟨_, rfl⟩ := h; exact Or.inl hl
  · rcases live_pre hl with ⟨s1, hp, hl1, _⟩ | hp
    · rw [hp] at h
      simp only at h
      have hfe : s'.fault = s1.fault := by
        have := hg s1
        rw [h] at this
        exact this
      left
      unfold Src.live at hl1 ⊢
      rw [hfe]; exact hl1
    · rw [hp] at h
      simp only [Prod.mk.injEq] at h
      obtain ⟨rfl, rfl⟩ := h
      right; exact ⟨rfl, rfl⟩

theorem rRead (n : Nat) : Stops (Nop.rRead n) := by
  have := prim (α := Bytes) n (g := fun s' =>
    if s'.bytes.length < n then (.error s'.eof, s') else (.ok (s'.bytes.take n), s'.adv n))
    (by intro s1; split <;> rfl)
  exact this

theorem rSkip (n : Nat) : Stops (Nop.rSkip n) := by
  have := prim (α := Unit) n (g := fun s' =>
    if s'.bytes.length < n then (.error s'.eof, s') else (.ok (), s'.adv n))
    (by intro s1; split <;> rfl)
  exact this

theorem rEnsure (n : Nat) : Stops (Nop.rEnsure n) := by
  have := prim (α := Unit) n (g := fun s' =>
    if s'.ensureChecks && s'.bytes.length < n then (.error s'.eof, s') else (.ok (), s'))
    (by intro s1; split <;> rfl)
  exact this

theorem rGetHandle (ref : Int) : Stops (Nop.rGetHandle ref) := by
  intro e0 s r s' hl h
  unfold Nop.rGetHandle at h
  rcases live_pre hl with ⟨s1, hp, hl1, _⟩ | hp
  · rw [hp] at h
    simp only [Prod.mk.injEq] at h
    obtain ⟨_, rfl⟩ := h
    exact Or.inl hl1
  · rw [hp] at h
    simp only [Prod.mk.injEq] at h
    obtain ⟨rfl, rfl⟩ := h
    right; exact ⟨rfl, rfl⟩

theorem rPush (n : Nat) : Stops (Nop.rPush n) := by
  intro e0 s r s' hl h
  simp only [Nop.rPush, Prod.mk.injEq] at h
  obtain ⟨_, rfl⟩ := h
  exact Or.inl hl

theorem rPadPop : Stops Nop.rPadPop := by
  intro e0 s r s' hl h
  unfold Nop.rPadPop at h
  cases hfr : s.frames with
  | nil =>
    simp only [hfr, Prod.mk.injEq] at h
    obtain ⟨_, rfl⟩ := h
    exact Or.inl hl
  | cons b fs =>
    simp only [hfr] at h
    cases hsk : Nop.rSkip b { s with frames := fs } with
    | mk r1 s1 =>
      have h1 := Stops.rSkip b e0 { s with frames := fs } r1 s1 hl hsk
      cases r1 with
      | ok u =>
        simp only [hsk, Prod.mk.injEq] at h
        obtain ⟨rfl, rfl⟩ := h
        rcases h1 with h1 | ⟨_, he⟩
        · exact Or.inl h1
        · simp at he
      | error e =>
        simp only [hsk, Prod.mk.injEq] at h
        obtain ⟨rfl, rfl⟩ := h
        rcases h1 with h1 | ⟨hd, he⟩
        · exact Or.inl h1
        · right; exact ⟨hd, by simpa using he⟩

theorem map_ok {m : M α} {g : α → β} (hm : Stops m)
    {m' : M β} (h : ∀ s, m' s = match m s with
      | (.ok a, s') => (.ok (g a), s')
      | (.error e, s') => (.error e, s')) : Stops m' := by
  intro e0 s r s' hl hr
  rw [h s] at hr
  cases hms : m s with
  | mk r1 s1 =>
    have h1 := hm e0 s r1 s1 hl hms
    cases r1 with
    | ok a =>
      simp only [hms, Prod.mk.injEq] at hr
      obtain ⟨rfl, rfl⟩ := hr
      rcases h1 with h1 | ⟨_, he⟩
      · exact Or.inl h1
      · simp at he
    | error e =>
      simp only [hms, Prod.mk.injEq] at hr
      obtain ⟨rfl, rfl⟩ := hr
      rcases h1 with h1 | ⟨hd, he⟩
      · exact Or.inl h1
      · right; exact ⟨hd, by simpa using he⟩

theorem rByte : Stops Nop.rByte :=
  map_ok (g := fun bs => bs.headD 0) (Stops.rRead 1) (fun s => by
    unfold Nop.rByte; cases Nop.rRead 1 s with | mk r s' => cases r <;> rfl)

theorem withPrefix {mt : UInt8 → Bool} {k : UInt8 → M α} (hk : ∀ p, Stops (k p)) :
    Stops (Nop.withPrefix mt k) := by
  have : Nop.withPrefix mt k = (Nop.rByte >>= fun p => if mt p then k p else M.fail .unexpectedEncodingType) := by
    funext s
    unfold Nop.withPrefix
    rw [bind_run]
    cases Nop.rByte s with
    | mk r s' =>
      cases r with
      | error e => rfl
      | ok p => simp only; split <;> rfl
  rw [this]
  exact bind rByte (fun p => ite (hk p) (fail _))

theorem decIntPayload (k : IntKind) (p : UInt8) : Stops (Nop.decIntPayload k p) := by
  unfold Nop.decIntPayload
  by_cases h0 : (intPayloadLen k p == 0) = true
  · intro e0 s r s' hl h
    simp only [h0, ↓reduceIte, Prod.mk.injEq] at h
    obtain ⟨_, rfl⟩ := h
    exact Or.inl hl
  · simp only [h0, Bool.false_eq_true, ↓reduceIte]
    exact map_ok (g := fun bs => intOfPayload k p bs) (Stops.rRead _) (fun s => by
      cases Nop.rRead (intPayloadLen k p) s with | mk r s' => cases r <;> rfl)

theorem decInt (k : IntKind) : Stops (Nop.decInt k) :=
  Stops.withPrefix (fun p => Stops.decIntPayload k p)

theorem decSize : Stops Nop.decSize :=
  map_ok (g := fun i => i.toNat) (Stops.decInt .u64) (fun s => by
    unfold Nop.decSize; cases Nop.decInt .u64 s with | mk r s' => cases r <;> rfl)

end Stops
end Nop
