import NopModel.Lemmas.Stops
import NopModel.Lemmas.Loop
namespace Nop

namespace Stops
variable {α : Type}
theorem repM {f : M α} (hf : Stops f) : ∀ n, Stops (Nop.repM n f)
  | 0 => by rw [repM_zero]; exact Stops.pure _
  | n + 1 => by
    rw [repM_succ]
    exact Stops.bind hf (fun a => Stops.bind (repM hf n) (fun _ => Stops.pure _))
theorem repP {f : α → M α} (d : α) (hf : ∀ a, Stops (f a)) : ∀ n pr, Stops (Nop.repP n pr d f)
  | 0, pr => by rw [repP_zero]; exact Stops.pure _
  | n + 1, pr => by
    rw [repP_succ]
    exact Stops.bind (hf _) (fun a => Stops.bind (repP d hf n _) (fun _ => Stops.pure _))
theorem itM {f : α → M α} (hf : ∀ a, Stops (f a)) : ∀ n a, Stops (Nop.itM n f a)
  | 0, a => by rw [itM_zero]; exact Stops.pure _
  | n + 1, a => by
    rw [itM_succ]
    exact Stops.bind (hf a) (fun a' => itM hf n a')
end Stops

macro "stops_step" : tactic => `(tactic| first
  | exact Stops.pure _ | exact Stops.fail _ | exact Stops.rRead _ | exact Stops.rSkip _ | exact Stops.rEnsure _
  | exact Stops.rGetHandle _ | exact Stops.rPush _ | exact Stops.rPadPop | exact Stops.decInt _ | exact Stops.decSize
  | exact Stops.decIntPayload _ _ | exact Stops.rByte
  | apply Stops.bind | apply Stops.ite | apply Stops.withPrefix | apply Stops.repM | apply Stops.repP | apply Stops.itM
  | intro _)

theorem stops_decBin (f : Flavor) (e : Ty) : Stops (decBin f e) := by
  unfold decBin
  apply Stops.bind Stops.decSize
  intro sz
  cases f <;> simp only <;> repeat stops_step

theorem stops_skipEntry : Stops skipEntry := by
  unfold skipEntry
  repeat stops_step

mutual
theorem stops_decPayload : ∀ (t : Ty) (p : UInt8) (prior : Val), Stops (decPayload t p prior)
  | .bool, p, pr => by simp only [decPayload]; repeat stops_step
  | .int k nom, p, pr => by simp only [decPayload]; repeat stops_step
  | .float w, p, pr => by simp only [decPayload]; repeat stops_step
  | .str n cb, p, pr => by simp only [decPayload]; repeat stops_step
  | .seq f e, p, pr => by
    simp only [decPayload]
    split
    · exact stops_decBin f e
    · cases f <;> simp only
      · apply Stops.bind Stops.decSize; intro n
        apply Stops.bind
        · apply Stops.repM
          apply Stops.withPrefix; intro q; exact stops_decPayload e q _
        · intro _; exact Stops.pure _
      all_goals
        apply Stops.bind Stops.decSize; intro n
        apply Stops.ite (Stops.fail _)
        apply Stops.bind
        · apply Stops.repP
          intro a; apply Stops.withPrefix; intro q; exact stops_decPayload e q _
        · intro _; exact Stops.pure _
  | .prod k ts, p, pr => by
    simp only [decPayload]
    apply Stops.bind Stops.decSize; intro n
    apply Stops.ite (Stops.fail _)
    apply Stops.bind (stops_decProd ts _)
    intro _; exact Stops.pure _
  | .map o k v, p, pr => by
    simp only [decPayload]
    apply Stops.bind Stops.decSize; intro n
    apply Stops.bind
    · apply Stops.repM
      apply Stops.bind
      · apply Stops.withPrefix; intro q; exact stops_decPayload k q _
      · intro a
        apply Stops.bind
        · apply Stops.withPrefix; intro q; exact stops_decPayload v q _
        · intro _; exact Stops.pure _
    · intro _; exact Stops.pure _
  | .opt t, p, pr => by
    simp only [decPayload]
    apply Stops.ite (Stops.pure _)
    apply Stops.bind (stops_decPayload t p _)
    intro _; exact Stops.pure _
  | .result en ek t, p, pr => by
    simp only [decPayload]
    apply Stops.ite
    · repeat stops_step
    · apply Stops.bind (stops_decPayload t p _)
      intro _; exact Stops.pure _
  | .variant ts, p, pr => by
    simp only [decPayload]
    apply Stops.bind (Stops.decInt _); intro idx
    apply Stops.ite (Stops.fail _)
    apply Stops.ite
    · repeat stops_step
    · apply Stops.bind (stops_decAlt ts _ _)
      intro _; exact Stops.pure _
  | .handle pol ht tk, p, pr => by simp only [decPayload]; repeat stops_step
  | .wrap t, p, pr => by simp only [decPayload]; exact stops_decPayload t p pr
  | .ref t, p, pr => by simp only [decPayload]; exact stops_decPayload t p pr
  | .table hash ents tys, p, pr => by
    simp only [decPayload]
    apply Stops.bind (Stops.decInt _); intro h
    apply Stops.ite (Stops.fail _)
    apply Stops.bind Stops.decSize; intro n
    apply Stops.bind
    · apply Stops.itM
      intro cur
      apply Stops.bind (Stops.decInt _); intro id
      exact stops_decEntry ents tys _ cur
    · intro _; exact Stops.pure _
theorem stops_decProd : ∀ (ts : List Ty) (prs : List Val), Stops (decProd ts prs)
  | [], prs => by simp only [decProd]; exact Stops.pure _
  | t :: ts, prs => by
    simp only [decProd]
    apply Stops.bind
    · apply Stops.withPrefix; intro q; exact stops_decPayload t q _
    · intro v
      apply Stops.bind (stops_decProd ts _)
      intro _; exact Stops.pure _
theorem stops_decAlt : ∀ (ts : List Ty) (i : Nat) (pr : Option Val), Stops (decAlt ts i pr)
  | [], i, pr => by simp only [decAlt]; exact Stops.fail _
  | t :: ts, 0, pr => by
    simp only [decAlt]
    apply Stops.withPrefix; intro q; exact stops_decPayload t q _
  | t :: ts, i + 1, pr => by simp only [decAlt]; exact stops_decAlt ts i pr
theorem stops_decEntry : ∀ (ents : List (Nat × Bool)) (ts : List Ty) (id : Nat) (cur : List Val),
    Stops (decEntry ents ts id cur)
  | [], ts, id, cur => by
    simp only [decEntry]
    apply Stops.bind stops_skipEntry; intro _; exact Stops.pure _
  | (eid, del) :: es, [], id, cur => by
    simp only [decEntry]
    apply Stops.bind stops_skipEntry; intro _; exact Stops.pure _
  | (eid, del) :: es, t :: ts, id, [] => by
    simp only [decEntry]
    apply Stops.bind stops_skipEntry; intro _; exact Stops.pure _
  | (eid, del) :: es, t :: ts, id, c :: cs => by
    simp only [decEntry]
    apply Stops.ite
    · apply Stops.ite
      · apply Stops.bind stops_skipEntry; intro _; exact Stops.pure _
      · apply Stops.ite (Stops.fail _)
        apply Stops.bind Stops.decSize; intro sz
        apply Stops.bind (Stops.rPush _); intro _
        apply Stops.bind
        · apply Stops.withPrefix; intro q; exact stops_decPayload t q _
        · intro v
          apply Stops.bind Stops.rPadPop; intro _; exact Stops.pure _
    · apply Stops.bind (stops_decEntry es ts id cs)
      intro _; exact Stops.pure _
end

theorem stops_decInto (t : Ty) (prior : Val) : Stops (decInto t prior) :=
  Stops.withPrefix (fun p => stops_decPayload t p prior)

end Nop
