import NopModel.Variant
namespace Nop.Life

/-! ### bookkeeping lemmas about the variant table -/

theorem get_set_eq (w : World) (v : Nat) (s : Option VState) (h : v < w.vars.length) :
    (w.set v s).get v = s := by
  simp [World.get, World.set, List.getD_eq_getElem?_getD, h]

theorem get_set_ne (w : World) (v u : Nat) (s : Option VState) (h : u ≠ v) :
    (w.set v s).get u = w.get u := by
  simp [World.get, World.set, List.getD_eq_getElem?_getD, List.getElem?_set_ne (Ne.symm h)]

theorem get_some_lt {w : World} {v : Nat} {s : VState} (h : w.get v = some s) : v < w.vars.length := by
  unfold World.get at h
  by_cases hv : v < w.vars.length
  · exact hv
  · simp [List.getD_eq_getElem?_getD, List.getElem?_eq_none (Nat.le_of_not_lt hv)] at h

/-- variant `v` owns the tracked element `id` -/
def Owns (w : World) (v id : Nat) : Prop :=
  ∃ s e, w.get v = some s ∧ s.slot = some e ∧ w.tracked e.alt = true ∧ e.id = id

/-- a variant object is well formed: empty with index -1 and nothing constructed, or exactly
one constructed element sitting in the member that `index_` names -/
def VOk (w : World) (s : VState) : Prop :=
  (s.index = -1 ∧ s.slot = none) ∨ (∃ e, s.slot = some e ∧ (e.alt : Int) = s.index ∧ e.alt < w.n)

structure Inv (w : World) : Prop where
  noUB : w.ub = false
  ok : ∀ v s, w.get v = some s → VOk w s
  ownedLive : ∀ v id, Owns w v id → id ∈ w.live
  liveOwned : ∀ id, id ∈ w.live → ∃ v, Owns w v id
  unique : ∀ v1 v2 id, Owns w v1 id → Owns w v2 id → v1 = v2
  nodup : w.live.Nodup
  fresh : ∀ id, id ∈ w.live → id < w.nextId

end Nop.Life

namespace Nop.Life

theorem Owns_congr {w1 w2 : World} (hv : w1.vars = w2.vars) (ht : w1.tracked = w2.tracked) (v id : Nat) :
    Owns w1 v id ↔ Owns w2 v id := by
  unfold Owns World.get; rw [hv, ht]

theorem owns_set_ne {w : World} {v u : Nat} {x : Option VState} (h : u ≠ v) (id : Nat) :
    Owns (w.set v x) u id ↔ Owns w u id := by
  unfold Owns
  rw [get_set_ne w v u x h]
  rfl

theorem owns_set_eq {w : World} {v : Nat} {s : VState} (hv : v < w.vars.length) (id : Nat) :
    Owns (w.set v (some s)) v id ↔ ∃ e, s.slot = some e ∧ w.tracked e.alt = true ∧ e.id = id := by
  unfold Owns
  rw [get_set_eq w v _ hv]
  constructor
  · rintro ⟨s', e, hs, he, ht, hid⟩
    cases hs
    exact ⟨e, he, ht, hid⟩
  · rintro ⟨e, he, ht, hid⟩
    exact ⟨s, e, rfl, he, ht, hid⟩

theorem not_owns_set_none {w : World} {v : Nat} (hv : v < w.vars.length) (id : Nat) :
    ¬ Owns (w.set v none) v id := by
  unfold Owns
  rw [get_set_eq w v _ hv]
  rintro ⟨s, e, hs, _⟩
  cases hs

/-- `set` only touches `vars` -/
@[simp] theorem set_n (w : World) (v : Nat) (x) : (w.set v x).n = w.n := rfl
@[simp] theorem set_tracked (w : World) (v : Nat) (x) : (w.set v x).tracked = w.tracked := rfl
@[simp] theorem set_live (w : World) (v : Nat) (x) : (w.set v x).live = w.live := rfl
@[simp] theorem set_ub (w : World) (v : Nat) (x) : (w.set v x).ub = w.ub := rfl
@[simp] theorem set_nextId (w : World) (v : Nat) (x) : (w.set v x).nextId = w.nextId := rfl
@[simp] theorem set_vars_length (w : World) (v : Nat) (x) : (w.set v x).vars.length = w.vars.length := by
  simp [World.set]

theorem set_set (w : World) (v : Nat) (x y : Option VState) : (w.set v x).set v y = w.set v y := by
  simp [World.set, List.set_set]

theorem set_get_self {w : World} {v : Nat} {s : VState} (h : w.get v = some s) : w.set v (some s) = w := by
  have hv := get_some_lt h
  cases w with
  | mk n tr vars nx lv lg ub =>
    simp only [World.set, World.mk.injEq, true_and, and_true]
    simp only [World.get, List.getD_eq_getElem?_getD, List.getElem?_eq_getElem hv, Option.getD_some] at h
    apply List.ext_getElem (by simp)
    intro i h1 h2
    by_cases hi : i = v
    · subst hi; simp [h]
    · simp [List.getElem_set_ne (Ne.symm hi)]

/-- the world with variant `v` holding the empty state -/
def emptyV : VState := { index := -1, slot := none }

/-- worlds that differ only in the event log have the same invariant -/
theorem inv_log {w : World} (h : Inv w) (l : List Ev) : Inv { w with log := l } :=
  ⟨h.noUB, h.ok, h.ownedLive, h.liveOwned, h.unique, h.nodup, h.fresh⟩

/-- replacing the state of `v` by one that owns the same tracked element (or none, as before) -/
theorem inv_same_owner {w : World} {v : Nat} {s s' : VState} (hv : v < w.vars.length)
    (h : Inv (w.set v (some s))) (hok : VOk w s')
    (hown : ∀ id, (∃ e, s'.slot = some e ∧ w.tracked e.alt = true ∧ e.id = id) ↔
                  (∃ e, s.slot = some e ∧ w.tracked e.alt = true ∧ e.id = id)) :
    Inv (w.set v (some s')) := by
  have key : ∀ u id, Owns (w.set v (some s')) u id ↔ Owns (w.set v (some s)) u id := by
    intro u id
    by_cases huv : u = v
    · subst huv; rw [owns_set_eq hv, owns_set_eq hv]; exact hown id
    · rw [owns_set_ne huv, owns_set_ne huv]
  constructor
  · exact h.noUB
  · intro u su hu
    by_cases huv : u = v
    · subst huv; rw [get_set_eq _ _ _ hv] at hu; cases hu; exact hok
    · rw [get_set_ne _ _ _ _ huv] at hu
      exact h.ok u su (by rw [get_set_ne _ _ _ _ huv]; exact hu)
  · intro u id hu; exact h.ownedLive u id ((key u id).1 hu)
  · intro id hid
    obtain ⟨u, hu⟩ := h.liveOwned id hid
    exact ⟨u, (key u id).2 hu⟩
  · intro v1 v2 id h1 h2; exact h.unique v1 v2 id ((key v1 id).1 h1) ((key v2 id).1 h2)
  · exact h.nodup
  · exact h.fresh

theorem emptyV_ok (w : World) : VOk w emptyV := Or.inl ⟨rfl, rfl⟩

/-- **Step A**: destroying the content of variant `v` (whatever well-formed state it is in). -/
theorem inv_destruct {w : World} {v : Nat} {s : VState} (hv : v < w.vars.length)
    (h : Inv (w.set v (some s))) :
    Inv ((vDestruct w s).1.set v (some emptyV)) ∧ (vDestruct w s).2 = emptyV ∧
    (vDestruct w s).1.vars = w.vars ∧ (vDestruct w s).1.n = w.n ∧ (vDestruct w s).1.tracked = w.tracked := by
  have hok := h.ok v s (get_set_eq w v _ hv)
  rcases hok with ⟨hi, hs⟩ | ⟨e, hs, ha, hn⟩
  · -- already empty: nothing happens
    have hd : vDestruct w s = (w, emptyV) := by
      unfold vDestruct
      have : ¬ (0 ≤ s.index ∧ s.index < (w.n : Int)) := by rw [hi]; omega
      simp only [this, ↓reduceIte, emptyV]
      cases s; simp_all
    rw [hd]
    refine ⟨?_, rfl, rfl, rfl, rfl⟩
    refine inv_same_owner hv h (Or.inl ⟨rfl, rfl⟩) ?_
    intro id
    constructor
    · rintro ⟨e', he', _⟩; simp [emptyV] at he'
    · rintro ⟨e', he', _⟩; rw [hs] at he'; cases he'
  · have hidx : 0 ≤ s.index ∧ s.index < (w.n : Int) := by
      simp only [set_n] at hn; omega
    have hd : vDestruct w s = (destroyElem w e, emptyV) := by
      unfold vDestruct
      simp only [hidx, and_self, ↓reduceIte, hs, ha, emptyV]
    rw [hd]
    refine ⟨?_, rfl, ?_, ?_, ?_⟩
    · by_cases ht : w.tracked e.alt = true
      · -- tracked element: it is live, it dies
        have hown : Owns (w.set v (some s)) v e.id := (owns_set_eq hv e.id).2 ⟨e, hs, ht, rfl⟩
        have hlive : e.id ∈ w.live := h.ownedLive v e.id hown
        have hde : destroyElem w e = { w with live := w.live.erase e.id, log := w.log ++ [.dtor e.id] } := by
          unfold destroyElem
          simp [ht, hlive]
        rw [hde]
        constructor
        · exact h.noUB
        · intro u su hu
          by_cases huv : u = v
          · subst huv
            rw [get_set_eq _ _ _ (by simpa using hv)] at hu
            cases hu; exact Or.inl ⟨rfl, rfl⟩
          · rw [get_set_ne _ _ _ _ huv] at hu
            have := h.ok u su (by rw [get_set_ne _ _ _ _ huv]; exact hu)
            exact this
        · intro u id hu
          have huv : u ≠ v := by
            intro heq; subst heq
            rw [owns_set_eq (by simpa using hv)] at hu
            obtain ⟨e', he', _⟩ := hu
            simp [emptyV] at he'
          have hold : Owns (w.set v (some s)) u id := by
            rw [owns_set_ne huv] at hu ⊢
            exact (Owns_congr rfl rfl u id).1 hu
          have hne : id ≠ e.id := by
            intro heq; subst heq
            exact huv (h.unique u v _ hold hown)
          exact (List.mem_erase_of_ne hne).2 (h.ownedLive u id hold)
        · intro id hid
          have hid' : id ∈ w.live := List.mem_of_mem_erase hid
          have hne : id ≠ e.id := by
            intro heq; subst heq
            exact (List.Nodup.mem_erase_iff h.nodup).1 hid |>.1 rfl
          obtain ⟨u, hu⟩ := h.liveOwned id hid'
          have huv : u ≠ v := by
            intro heq; subst heq
            rw [owns_set_eq hv] at hu
            obtain ⟨e', he', _, hid2⟩ := hu
            rw [hs] at he'; cases he'; exact hne hid2.symm
          refine ⟨u, ?_⟩
          rw [owns_set_ne huv] at hu ⊢
          exact (Owns_congr rfl rfl u id).2 hu
        · intro v1 v2 id h1 h2
          have n1 : v1 ≠ v := by
            intro heq; subst heq
            rw [owns_set_eq (by simpa using hv)] at h1
            obtain ⟨e', he', _⟩ := h1; simp [emptyV] at he'
          have n2 : v2 ≠ v := by
            intro heq; subst heq
            rw [owns_set_eq (by simpa using hv)] at h2
            obtain ⟨e', he', _⟩ := h2; simp [emptyV] at he'
          rw [owns_set_ne n1] at h1
          rw [owns_set_ne n2] at h2
          exact h.unique v1 v2 id ((owns_set_ne n1 id).2 ((Owns_congr rfl rfl v1 id).1 h1))
            ((owns_set_ne n2 id).2 ((Owns_congr rfl rfl v2 id).1 h2))
        · exact h.nodup.erase _
        · intro id hid
          exact h.fresh id (List.mem_of_mem_erase hid)
      · -- trivially destructible alternative: no bookkeeping changes
        have hde : destroyElem w e = w := by unfold destroyElem; simp [ht]
        rw [hde]
        constructor
        · exact h.noUB
        · intro u su hu
          by_cases huv : u = v
          · subst huv
            rw [get_set_eq _ _ _ hv] at hu
            cases hu; exact Or.inl ⟨rfl, rfl⟩
          · rw [get_set_ne _ _ _ _ huv] at hu
            exact h.ok u su (by rw [get_set_ne _ _ _ _ huv]; exact hu)
        · intro u id hu
          have huv : u ≠ v := by
            intro heq; subst heq
            rw [owns_set_eq hv] at hu
            obtain ⟨e', he', _⟩ := hu; simp [emptyV] at he'
          rw [owns_set_ne huv] at hu
          exact h.ownedLive u id ((owns_set_ne huv id).2 hu)
        · intro id hid
          obtain ⟨u, hu⟩ := h.liveOwned id hid
          have huv : u ≠ v := by
            intro heq; subst heq
            rw [owns_set_eq hv] at hu
            obtain ⟨e', he', ht', _⟩ := hu
            rw [hs] at he'; cases he'; exact ht ht'
          exact ⟨u, (owns_set_ne huv id).2 ((owns_set_ne huv id).1 hu)⟩
        · intro v1 v2 id h1 h2
          have n1 : v1 ≠ v := by
            intro heq; subst heq
            rw [owns_set_eq hv] at h1
            obtain ⟨e', he', _⟩ := h1; simp [emptyV] at he'
          have n2 : v2 ≠ v := by
            intro heq; subst heq
            rw [owns_set_eq hv] at h2
            obtain ⟨e', he', _⟩ := h2; simp [emptyV] at he'
          exact h.unique v1 v2 id ((owns_set_ne n1 id).2 ((owns_set_ne n1 id).1 h1))
            ((owns_set_ne n2 id).2 ((owns_set_ne n2 id).1 h2))
        · exact h.nodup
        · exact h.fresh
    · unfold destroyElem; split <;> (try split) <;> rfl
    · unfold destroyElem; split <;> (try split) <;> rfl
    · unfold destroyElem; split <;> (try split) <;> rfl

end Nop.Life

namespace Nop.Life

/-- **Step B**: constructing an element of alternative `a` into the (empty) variant `v`. -/
theorem inv_construct {w : World} {v : Nat} (hv : v < w.vars.length) (h : Inv (w.set v (some emptyV)))
    (a : Nat) (x : Int) (t : Bool) (ha : a < w.n) :
    (∀ w' e, construct w a x t = (w', some e) →
      Inv (w'.set v (some { index := a, slot := some e })) ∧ w'.vars = w.vars ∧ w'.n = w.n ∧ w'.tracked = w.tracked) ∧
    (∀ w', construct w a x t = (w', none) → w' = w) := by
  unfold construct
  by_cases ht : w.tracked a = true
  · by_cases hth : t = true
    · simp [ht, hth]
    · simp only [ht, hth, Bool.false_and, Bool.false_eq_true, ↓reduceIte, Prod.mk.injEq, Option.some.injEq,
        reduceCtorEq, and_false, false_imp_iff, implies_true, and_true]
      rintro w' e ⟨rfl, rfl⟩
      refine ⟨?_, rfl, rfl, rfl⟩
      have hnew : w.nextId ∉ w.live := fun hm => Nat.lt_irrefl _ (h.fresh _ hm)
      have hvempty : ∀ id, ¬ Owns (w.set v (some emptyV)) v id := by
        intro id ho
        rw [owns_set_eq hv] at ho
        obtain ⟨e', he', _⟩ := ho; simp [emptyV] at he'
      have ownV : ∀ id, Owns (w.grow.set v (some { index := (a : Int), slot := some ⟨a, w.nextId, x⟩ })) v id ↔
          id = w.nextId := by
        intro id
        rw [owns_set_eq (show v < w.grow.vars.length from hv)]
        constructor
        · rintro ⟨e', he', _, hid⟩; simp at he'; rw [← he'] at hid; exact hid.symm
        · intro hid; exact ⟨⟨a, w.nextId, x⟩, rfl, ht, hid.symm⟩
      have ownU : ∀ u id, u ≠ v → (Owns (w.grow.set v (some { index := (a : Int), slot := some ⟨a, w.nextId, x⟩ })) u id ↔
          Owns (w.set v (some emptyV)) u id) := by
        intro u id huv
        rw [owns_set_ne huv, owns_set_ne huv]
        exact Owns_congr rfl rfl u id
      constructor
      · exact h.noUB
      · intro u su hu
        by_cases huv : u = v
        · rw [huv, get_set_eq _ _ _ (show v < w.grow.vars.length from hv)] at hu
          cases hu
          exact Or.inr ⟨_, rfl, rfl, ha⟩
        · rw [get_set_ne _ _ _ _ huv] at hu
          exact h.ok u su (by rw [get_set_ne _ _ _ _ huv]; exact hu)
      · intro u id hu
        by_cases huv : u = v
        · rw [huv] at hu; rw [(ownV id).1 hu]; simp [World.grow]
        · exact List.mem_append_left _ (h.ownedLive u id ((ownU u id huv).1 hu))
      · intro id hid
        rcases List.mem_append.1 hid with hid | hid
        · obtain ⟨u, hu⟩ := h.liveOwned id hid
          have huv : u ≠ v := fun heq => hvempty id (heq ▸ hu)
          exact ⟨u, (ownU u id huv).2 hu⟩
        · simp at hid; exact ⟨v, (ownV id).2 hid⟩
      · intro v1 v2 id h1 h2
        by_cases hid : id = w.nextId
        · have e1 : v1 = v := by
            apply Classical.byContradiction; intro hne
            have := h.ownedLive v1 id ((ownU v1 id hne).1 h1)
            exact hnew (hid ▸ this)
          have e2 : v2 = v := by
            apply Classical.byContradiction; intro hne
            have := h.ownedLive v2 id ((ownU v2 id hne).1 h2)
            exact hnew (hid ▸ this)
          rw [e1, e2]
        · have n1 : v1 ≠ v := fun heq => hid ((ownV id).1 (heq ▸ h1))
          have n2 : v2 ≠ v := fun heq => hid ((ownV id).1 (heq ▸ h2))
          exact h.unique v1 v2 id ((ownU v1 id n1).1 h1) ((ownU v2 id n2).1 h2)
      · exact List.nodup_append.2 ⟨h.nodup, by simp, by
          intro a' ha' b hb; simp at hb; subst hb; intro heq; exact hnew (heq ▸ ha')⟩
      · intro id hid
        rcases List.mem_append.1 hid with hid | hid
        · exact Nat.lt_succ_of_lt (h.fresh id hid)
        · simp at hid; subst hid; exact Nat.lt_succ_self _
  · have htf : w.tracked a = false := by simpa using ht
    simp only [htf, Bool.and_false, Bool.false_eq_true, ↓reduceIte, Prod.mk.injEq, Option.some.injEq,
      reduceCtorEq, and_false, false_imp_iff, implies_true, and_true]
    rintro w' e ⟨rfl, rfl⟩
    refine ⟨?_, rfl, rfl, rfl⟩
    refine inv_same_owner hv h (Or.inr ⟨_, rfl, rfl, ha⟩) ?_
    intro id
    constructor
    · rintro ⟨e', he', ht', _⟩
      simp at he'; rw [← he'] at ht'; simp [htf] at ht'
    · rintro ⟨e', he', _⟩; simp [emptyV] at he'

end Nop.Life

namespace Nop.Life

/-- a Variant object comes into existence, empty -/
theorem inv_add {w : World} {v : Nat} (hv : v < w.vars.length) (hnone : w.get v = none) (h : Inv w) :
    Inv (w.set v (some emptyV)) := by
  have key : ∀ u id, Owns (w.set v (some emptyV)) u id ↔ Owns w u id := by
    intro u id
    by_cases huv : u = v
    · rw [huv, owns_set_eq hv]
      constructor
      · rintro ⟨e, he, _⟩; simp [emptyV] at he
      · rintro ⟨s, e, hs, _⟩; rw [hnone] at hs; cases hs
    · rw [owns_set_ne huv]
  constructor
  · exact h.noUB
  · intro u su hu
    by_cases huv : u = v
    · rw [huv, get_set_eq _ _ _ hv] at hu; cases hu; exact emptyV_ok _
    · rw [get_set_ne _ _ _ _ huv] at hu; exact h.ok u su hu
  · intro u id hu; exact h.ownedLive u id ((key u id).1 hu)
  · intro id hid; obtain ⟨u, hu⟩ := h.liveOwned id hid; exact ⟨u, (key u id).2 hu⟩
  · intro v1 v2 id h1 h2; exact h.unique v1 v2 id ((key v1 id).1 h1) ((key v2 id).1 h2)
  · exact h.nodup
  · exact h.fresh

/-- an empty Variant object goes away -/
theorem inv_remove {w : World} {v : Nat} (hv : v < w.vars.length) (h : Inv (w.set v (some emptyV))) :
    Inv (w.set v none) := by
  have key : ∀ u id, Owns (w.set v none) u id ↔ Owns (w.set v (some emptyV)) u id := by
    intro u id
    by_cases huv : u = v
    · rw [huv, owns_set_eq hv]
      constructor
      · intro ho; exact absurd ho (not_owns_set_none hv id)
      · rintro ⟨e, he, _⟩; simp [emptyV] at he
    · rw [owns_set_ne huv, owns_set_ne huv]
  constructor
  · exact h.noUB
  · intro u su hu
    by_cases huv : u = v
    · rw [huv, get_set_eq _ _ _ hv] at hu; cases hu
    · rw [get_set_ne _ _ _ _ huv] at hu
      exact h.ok u su (by rw [get_set_ne _ _ _ _ huv]; exact hu)
  · intro u id hu; exact h.ownedLive u id ((key u id).1 hu)
  · intro id hid; obtain ⟨u, hu⟩ := h.liveOwned id hid; exact ⟨u, (key u id).2 hu⟩
  · intro v1 v2 id h1 h2; exact h.unique v1 v2 id ((key v1 id).1 h1) ((key v2 id).1 h2)
  · exact h.nodup
  · exact h.fresh

/-- facts about a well-formed, engaged variant -/
theorem vok_engaged {w : World} {s : VState} (h : VOk w s) (hi : 0 ≤ s.index ∧ s.index < (w.n : Int)) :
    ∃ e, s.slot = some e ∧ (e.alt : Int) = s.index ∧ e.alt < w.n ∧ s.index.toNat = e.alt := by
  rcases h with ⟨h1, _⟩ | ⟨e, he, ha, hn⟩
  · omega
  · exact ⟨e, he, ha, hn, by omega⟩

theorem vok_index {w : World} {s : VState} (h : VOk w s) : s.index = -1 ∨ (0 ≤ s.index ∧ s.index < (w.n : Int)) := by
  rcases h with ⟨h1, _⟩ | ⟨e, _, ha, hn⟩
  · exact Or.inl h1
  · right; omega

/-- the error code of a disengaged Result is irrelevant to the storage invariant -/
theorem inv_empty_err {w : World} {v : Nat} (hv : v < w.vars.length) (h : Inv (w.set v (some emptyV))) (e : Int) :
    Inv (w.set v (some { index := -1, slot := none, err := e })) := by
  refine inv_same_owner hv h (Or.inl ⟨rfl, rfl⟩) ?_
  intro id
  constructor
  · rintro ⟨e', he', _⟩; simp at he'
  · rintro ⟨e', he', _⟩; simp [emptyV] at he'

/-- **Step C**: `Variant::Assign(TypeTag<T>, value)`. -/
theorem inv_assign {w : World} {v : Nat} {s : VState} (hv : v < w.vars.length) (h : Inv (w.set v (some s)))
    (a : Nat) (x : Int) (t : Bool) (ha : a < w.n) :
    Inv ((vAssign w s a x t).1.set v (some (vAssign w s a x t).2)) ∧ (vAssign w s a x t).1.vars = w.vars ∧
      (vAssign w s a x t).1.n = w.n := by
  have hok := h.ok v s (get_set_eq w v _ hv)
  unfold vAssign
  by_cases hidx : s.index = (a : Int)
  · -- same alternative: element assignment in place
    obtain ⟨e, he, hea, _, _⟩ := vok_engaged hok ⟨by omega, by simp; omega⟩
    simp only [hidx, ↓reduceIte, he]
    refine ⟨?_, by split <;> rfl, by split <;> rfl⟩
    have hbase : Inv (w.set v (some { index := (a : Int), slot := some { e with val := x }, err := s.err })) := by
      refine inv_same_owner hv h (Or.inr ⟨_, rfl, by simp; omega, by simp; exact ‹e.alt < (w.set v (some s)).n›⟩) ?_
      intro id
      constructor
      · rintro ⟨e', he', ht, hid⟩
        simp at he'; subst he'
        exact ⟨e, he, ht, hid⟩
      · rintro ⟨e', he', ht, hid⟩
        rw [he] at he'; cases he'
        exact ⟨{ e with val := x }, rfl, ht, hid⟩
    split
    · exact inv_log hbase _
    · exact hbase
  · simp only [hidx, ↓reduceIte]
    obtain ⟨h1, h2, h3, h4, h5⟩ := inv_destruct hv h
    rw [h2] at *
    have hv1 : v < (vDestruct w s).1.vars.length := by rw [h3]; exact hv
    obtain ⟨hc1, hc2⟩ := inv_construct hv1 h1 a x t (by rw [h4]; exact ha)
    unfold vConstruct
    cases hcon : construct (vDestruct w s).1 a x t with
    | mk w2 r =>
      cases r with
      | some e =>
        obtain ⟨hi, hvars, hn, _⟩ := hc1 w2 e hcon
        simp only [h2]
        exact ⟨hi, by rw [hvars, h3], by rw [hn, h4]⟩
      | none =>
        have := hc2 w2 hcon
        subst this
        simp only [h2]
        exact ⟨h1, h3, h4⟩

end Nop.Life

namespace Nop.Life

theorem set_out_of_range (w : World) (v : Nat) (x : Option VState) (h : ¬ v < w.vars.length) : w.set v x = w := by
  cases w; simp only [World.set, World.mk.injEq, true_and, and_true]
  exact List.set_eq_of_length_le (Nat.le_of_not_lt h)

/-- the shape of the world (number of alternatives, which are tracked, number of variant
slots) never changes -/
def SameShape (w w' : World) : Prop := w'.n = w.n ∧ w'.tracked = w.tracked ∧ w'.vars.length = w.vars.length

theorem destruct_shape (w : World) (s : VState) :
    (vDestruct w s).1.n = w.n ∧ (vDestruct w s).1.tracked = w.tracked ∧ (vDestruct w s).1.vars = w.vars := by
  unfold vDestruct destroyElem
  repeat' split
  all_goals exact ⟨rfl, rfl, rfl⟩

/-- **Every operation preserves the invariant.** -/
theorem step_inv {w : World} (h : Inv w) (op : Op) : Inv (step w op).1 := by
  cases op with
  | mkEmpty v =>
    simp only [step]
    cases hg : w.get v with
    | some s => exact h
    | none =>
      simp only
      split
      · rename_i hv; exact inv_add hv hg h
      · exact h
  | mkValue v a x t =>
    simp only [step]
    cases hg : w.get v with
    | some s => exact h
    | none =>
      simp only
      split
      · rename_i hc
        obtain ⟨ha, hv⟩ := hc
        obtain ⟨hc1, hc2⟩ := inv_construct hv (inv_add hv hg h) a x t ha
        cases hcon : construct w a x t with
        | mk w2 r =>
          cases r with
          | some e => exact (hc1 w2 e hcon).1
          | none => rw [hc2 w2 hcon]; exact h
      · exact h
  | mkCopy v src t =>
    simp only [step]
    cases hg : w.get v with
    | some s => cases w.get src <;> exact h
    | none =>
      cases hs : w.get src with
      | none => exact h
      | some s =>
        simp only
        split
        · exact h
        · rename_i hv
          have hv : v < w.vars.length := by simpa using hv
          have hoks := h.ok src s hs
          split
          · rename_i hi
            obtain ⟨e, he, _, hn, htn⟩ := vok_engaged hoks hi
            simp only [he]
            obtain ⟨hc1, hc2⟩ := inv_construct hv (inv_add hv hg h) s.index.toNat e.val t (by rw [htn]; exact hn)
            cases hcon : construct w s.index.toNat e.val t with
            | mk w2 r =>
              cases r with
              | some e' =>
                have := (hc1 w2 e' hcon).1
                have hcast : ((s.index.toNat : Nat) : Int) = s.index := by omega
                rw [hcast] at this; exact this
              | none => rw [hc2 w2 hcon]; exact h
          · rename_i hi
            have hm1 : s.index = -1 := by
              rcases vok_index hoks with h1 | h1
              · exact h1
              · exact absurd h1 hi
            show Inv (w.set v (some { index := s.index, slot := none, err := s.err }))
            rw [hm1]; exact inv_empty_err hv (inv_add hv hg h) s.err
  | mkMove v src t =>
    simp only [step]
    cases hg : w.get v with
    | some s => cases w.get src <;> exact h
    | none =>
      cases hs : w.get src with
      | none => exact h
      | some s =>
        simp only
        split
        · exact h
        · rename_i hv
          have hv : v < w.vars.length := by simpa using hv
          have hoks := h.ok src s hs
          split
          · rename_i hi
            obtain ⟨e, he, _, hn, htn⟩ := vok_engaged hoks hi
            simp only [he]
            obtain ⟨hc1, hc2⟩ := inv_construct hv (inv_add hv hg h) s.index.toNat e.val t (by rw [htn]; exact hn)
            cases hcon : construct w s.index.toNat e.val t with
            | mk w2 r =>
              cases r with
              | some e' =>
                have := (hc1 w2 e' hcon).1
                have hcast : ((s.index.toNat : Nat) : Int) = s.index := by omega
                rw [hcast] at this; exact this
              | none => rw [hc2 w2 hcon]; exact h
          · rename_i hi
            have hm1 : s.index = -1 := by
              rcases vok_index hoks with h1 | h1
              · exact h1
              · exact absurd h1 hi
            show Inv (w.set v (some { index := s.index, slot := none }))
            rw [hm1]; exact inv_add hv hg h
  | assignValue v a x t =>
    simp only [step]
    cases hg : w.get v with
    | none => exact h
    | some s =>
      simp only
      split
      · rename_i ha
        have hv := get_some_lt hg
        exact (inv_assign hv (by rw [set_get_self hg]; exact h) a x t ha).1
      · exact h
  | assignCopy v src t =>
    simp only [step]
    cases hg : w.get v with
    | none => cases w.get src <;> exact h
    | some s =>
      cases hs : w.get src with
      | none => exact h
      | some o =>
        simp only
        have hv := get_some_lt hg
        have hself : Inv (w.set v (some s)) := by rw [set_get_self hg]; exact h
        have hoko := h.ok src o hs
        split
        · rename_i hi
          obtain ⟨e, he, _, hn, htn⟩ := vok_engaged hoko hi
          simp only [he]
          exact (inv_assign hv hself o.index.toNat e.val t (by rw [htn]; exact hn)).1
        · obtain ⟨h1, h2, _⟩ := inv_destruct hv hself
          rw [h2]; exact h1
  | assignMove v src t =>
    simp only [step]
    cases hg : w.get v with
    | none => cases w.get src <;> exact h
    | some s =>
      cases hs : w.get src with
      | none => exact h
      | some o =>
        simp only
        have hv := get_some_lt hg
        have hself : Inv (w.set v (some s)) := by rw [set_get_self hg]; exact h
        have hoko := h.ok src o hs
        split
        · rename_i hi
          obtain ⟨e, he, _, hn, htn⟩ := vok_engaged hoko hi
          simp only [he]
          exact (inv_assign hv hself o.index.toNat e.val t (by rw [htn]; exact hn)).1
        · obtain ⟨h1, h2, _⟩ := inv_destruct hv hself
          rw [h2]; exact h1
  | assignEmpty v =>
    simp only [step]
    cases hg : w.get v with
    | none => exact h
    | some s =>
      simp only
      have hv := get_some_lt hg
      obtain ⟨h1, h2, _⟩ := inv_destruct hv (by rw [set_get_self hg]; exact h)
      rw [h2]; exact h1
  | become v i t =>
    simp only [step]
    cases hg : w.get v with
    | none => exact h
    | some s =>
      simp only
      have hv := get_some_lt hg
      split
      · obtain ⟨h1, h2, h3, h4, h5⟩ := inv_destruct hv (by rw [set_get_self hg]; exact h)
        split
        · rename_i hi
          have hv1 : v < (vDestruct w s).1.vars.length := by rw [h3]; exact hv
          obtain ⟨hc1, hc2⟩ := inv_construct hv1 h1 i.toNat 0 t (by rw [h4]; omega)
          cases hcon : construct (vDestruct w s).1 i.toNat 0 t with
          | mk w2 r =>
            cases r with
            | some e =>
              have := (hc1 w2 e hcon).1
              have hcast : ((i.toNat : Nat) : Int) = i := by omega
              rw [hcast] at this; exact this
            | none => rw [hc2 w2 hcon, h2]; exact h1
        · rw [h2]; exact h1
      · exact h
  | visit v =>
    simp only [step]
    cases hg : w.get v with
    | none => exact h
    | some s =>
      simp only
      have hoks := h.ok v s hg
      split
      · rename_i hi
        obtain ⟨e, he, hea, _, _⟩ := vok_engaged hoks hi
        simp only [he, hea, ↓reduceIte]; exact h
      · exact h
  | get v a =>
    simp only [step]
    cases hg : w.get v with
    | none => exact h
    | some s =>
      simp only
      have hoks := h.ok v s hg
      split
      · rename_i hi
        rcases hoks with ⟨h1, _⟩ | ⟨e, he, _, _⟩
        · omega
        · simp only [he]; exact h
      · exact h
  | destroy v =>
    simp only [step]
    cases hg : w.get v with
    | none => exact h
    | some s =>
      simp only
      have hv := get_some_lt hg
      obtain ⟨h1, _, h3, _⟩ := inv_destruct hv (by rw [set_get_self hg]; exact h)
      have hv1 : v < (vDestruct w s).1.vars.length := by rw [h3]; exact hv
      exact inv_remove hv1 h1
  | oMoveAssign v src t => exact h
  | rMoveCtor v src t => exact h
  | rMkErr v e => exact h
  | rAssignErr v e => exact h
  | rAssignCopy v src t => exact h
  | has v => exact h
  | errOf v => exact h
  | cMkCopy v src conv t => exact h
  | cAssign v src conv t => exact h
  | cMoveAssign v src conv t => exact h

theorem get_congr {w1 w2 : World} (hv : w1.vars = w2.vars) (v : Nat) : w1.get v = w2.get v := by
  simp only [World.get, hv]

/-- destroying variant `v`'s content and recording an error code in it -/
theorem inv_destruct_err {w : World} {v : Nat} {s : VState} (hg : w.get v = some s) (h : Inv w) (e : Int) :
    Inv ((vDestruct w s).1.set v (some { (vDestruct w s).2 with err := e })) := by
  have hv := get_some_lt hg
  obtain ⟨h1, h2, h3, _⟩ := inv_destruct hv (by rw [set_get_self hg]; exact h)
  rw [h2]
  have hv1 : v < (vDestruct w s).1.vars.length := by rw [h3]; exact hv
  exact inv_empty_err hv1 h1 e

/-- after variant `v` took a new state, destroying the (distinct) source `src` -/
theorem inv_destruct_src {w2 : World} {src : Nat} {o : VState} (hg : w2.get src = some o) (h : Inv w2) :
    Inv ((vDestruct w2 o).1.set src (some (vDestruct w2 o).2)) := by
  have hv := get_some_lt hg
  obtain ⟨h1, h2, _⟩ := inv_destruct hv (by rw [set_get_self hg]; exact h)
  rw [h2]; exact h1

/-- resetting a disengaged object (Result::Destruct on an Error/Empty state) -/
theorem inv_reset {w : World} {src : Nat} {o : VState} (h : Inv w) (hs : w.get src = some o)
    (hi : ¬ (0 ≤ o.index ∧ o.index < (w.n : Int))) :
    Inv (w.set src (some { index := -1, slot := none, err := 0 })) := by
  have hoko := h.ok src o hs
  have hvs := get_some_lt hs
  have hoe : Inv (w.set src (some o)) := by rw [set_get_self hs]; exact h
  refine inv_same_owner hvs hoe (Or.inl ⟨rfl, rfl⟩) ?_
  intro id
  constructor
  · rintro ⟨e', he', _⟩; simp at he'
  · rintro ⟨e', he', _⟩
    rcases hoko with ⟨_, hsl⟩ | ⟨e2, _, ha2, hn2⟩
    · rw [hsl] at he'; cases he'
    · exact absurd ⟨by omega, by omega⟩ hi

/-- **Every operation of the Optional / Entry / Result instance preserves the invariant too.** -/
theorem step2_inv {w : World} (h : Inv w) (op : Op) : Inv (step2 w op).1 := by
  cases op with
  | oMoveAssign v src t =>
    simp only [step2]
    cases hg : w.get v with
    | none => cases w.get src <;> exact h
    | some s =>
      cases hs : w.get src with
      | none => exact h
      | some o =>
        simp only
        have hv := get_some_lt hg
        have hself : Inv (w.set v (some s)) := by rw [set_get_self hg]; exact h
        have hoko := h.ok src o hs
        split
        · exact h
        · rename_i hne
          split
          · rename_i hi
            obtain ⟨e, he, _, hn, htn⟩ := vok_engaged hoko hi
            simp only [he]
            obtain ⟨ha1, ha2, _⟩ := inv_assign hv hself o.index.toNat e.val t (by rw [htn]; exact hn)
            have hsrc : ((vAssign w s o.index.toNat e.val t).1.set v (some (vAssign w s o.index.toNat e.val t).2)).get src
                = some o := by
              rw [get_set_ne _ _ _ _ (fun hh => hne hh.symm), get_congr ha2]; exact hs
            split
            · exact ha1
            · exact inv_destruct_src hsrc ha1
          · rename_i hi
            have h1 := inv_destruct_err hg h o.err
            have hsrc : ((vDestruct w s).1.set v (some { (vDestruct w s).2 with err := o.err })).get src = some o := by
              rw [get_set_ne _ _ _ _ (fun hh => hne hh.symm), get_congr (destruct_shape w s).2.2]; exact hs
            exact inv_reset h1 hsrc (by simpa [World.set, (destruct_shape w s).1] using hi)
  | rMoveCtor v src t =>
    simp only [step2]
    cases hg : w.get v with
    | some s => cases w.get src <;> exact h
    | none =>
      cases hs : w.get src with
      | none => exact h
      | some o =>
        simp only
        have hoko := h.ok src o hs
        split
        · exact h
        · rename_i hc
          have hv : v < w.vars.length := by
            by_cases hh : v < w.vars.length
            · exact hh
            · exact absurd (Or.inl hh) hc
          have hne : v ≠ src := fun hh => hc (Or.inr hh)
          split
          · rename_i hi
            obtain ⟨e, he, _, hn, htn⟩ := vok_engaged hoko hi
            simp only [he]
            obtain ⟨hc1, hc2⟩ := inv_construct hv (inv_add hv hg h) o.index.toNat e.val t (by rw [htn]; exact hn)
            cases hcon : construct w o.index.toNat e.val t with
            | mk w1 r =>
              cases r with
              | some e' =>
                obtain ⟨hi1, hvars, _⟩ := hc1 w1 e' hcon
                have hcast : ((o.index.toNat : Nat) : Int) = o.index := by omega
                rw [hcast] at hi1
                simp only
                have hsrc : (w1.set v (some { index := o.index, slot := some e' })).get src = some o := by
                  rw [get_set_ne _ _ _ _ (fun hh => hne hh.symm), get_congr hvars]; exact hs
                exact inv_destruct_src hsrc hi1
              | none => rw [hc2 w1 hcon]; exact h
          · rename_i hi
            have h1 := inv_empty_err hv (inv_add hv hg h) o.err
            have hsrc : (w.set v (some { index := -1, slot := none, err := o.err })).get src = some o := by
              rw [get_set_ne _ _ _ _ (fun hh => hne hh.symm)]; exact hs
            exact inv_reset h1 hsrc (by simpa [World.set] using hi)
  | rMkErr v e =>
    simp only [step2]
    cases hg : w.get v with
    | some s => exact h
    | none =>
      simp only
      split
      · rename_i hv; exact inv_empty_err hv (inv_add hv hg h) e
      · exact h
  | rAssignErr v e =>
    simp only [step2]
    cases hg : w.get v with
    | none => exact h
    | some s => exact inv_destruct_err hg h e
  | rAssignCopy v src t =>
    simp only [step2]
    cases hg : w.get v with
    | none => cases w.get src <;> exact h
    | some s =>
      cases hs : w.get src with
      | none => exact h
      | some o =>
        simp only
        have hv := get_some_lt hg
        have hself : Inv (w.set v (some s)) := by rw [set_get_self hg]; exact h
        have hoko := h.ok src o hs
        split
        · exact h
        · split
          · rename_i hi
            obtain ⟨e, he, _, hn, htn⟩ := vok_engaged hoko hi
            simp only [he]
            exact (inv_assign hv hself o.index.toNat e.val t (by rw [htn]; exact hn)).1
          · exact inv_destruct_err hg h o.err
  | cMkCopy v src conv t =>
    simp only [step2]
    cases hg : w.get v with
    | some s => cases w.get src <;> exact h
    | none =>
      cases hs : w.get src with
      | none => exact h
      | some o =>
        simp only
        split
        · exact h
        · rename_i hv
          have hv : v < w.vars.length := by simpa using hv
          have hoko := h.ok src o hs
          split
          · rename_i hi
            obtain ⟨e, he, _, hn, htn⟩ := vok_engaged hoko hi
            simp only [he]
            split
            · rename_i ha
              obtain ⟨hc1, hc2⟩ := inv_construct hv (inv_add hv hg h) (conv.getD e.alt w.n) e.val t ha
              cases hcon : construct w (conv.getD e.alt w.n) e.val t with
              | mk w2 r =>
                cases r with
                | some e' => exact (hc1 w2 e' hcon).1
                | none => rw [hc2 w2 hcon]; exact h
            · exact h
          · exact inv_add hv hg h
  | cAssign v src conv t =>
    simp only [step2]
    cases hg : w.get v with
    | none => cases w.get src <;> exact h
    | some s =>
      cases hs : w.get src with
      | none => exact h
      | some o =>
        simp only
        have hv := get_some_lt hg
        have hself : Inv (w.set v (some s)) := by rw [set_get_self hg]; exact h
        have hoko := h.ok src o hs
        split
        · rename_i hi
          obtain ⟨e, he, _, hn, htn⟩ := vok_engaged hoko hi
          simp only [he]
          split
          · rename_i ha
            exact (inv_assign hv hself (conv.getD e.alt w.n) e.val t ha).1
          · exact h
        · obtain ⟨h1, h2, _⟩ := inv_destruct hv hself
          rw [h2]; exact h1
  | cMoveAssign v src conv t =>
    simp only [step2]
    cases hg : w.get v with
    | none => cases w.get src <;> exact h
    | some s =>
      cases hs : w.get src with
      | none => exact h
      | some o =>
        simp only
        have hv := get_some_lt hg
        have hself : Inv (w.set v (some s)) := by rw [set_get_self hg]; exact h
        have hoko := h.ok src o hs
        split
        · exact h
        · rename_i hne
          split
          · rename_i hi
            obtain ⟨e, he, _, hn, htn⟩ := vok_engaged hoko hi
            simp only [he]
            split
            · rename_i ha
              obtain ⟨ha1, ha2, _⟩ := inv_assign hv hself (conv.getD e.alt w.n) e.val t ha
              have hsrc : ((vAssign w s (conv.getD e.alt w.n) e.val t).1.set v
                  (some (vAssign w s (conv.getD e.alt w.n) e.val t).2)).get src = some o := by
                rw [get_set_ne _ _ _ _ (fun hh => hne hh.symm), get_congr ha2]; exact hs
              split
              · exact ha1
              · exact inv_destruct_src hsrc ha1
            · exact h
          · obtain ⟨h1, h2, _⟩ := inv_destruct hv hself
            rw [h2]; exact h1
  | has v =>
    simp only [step2]
    cases w.get v <;> exact h
  | errOf v =>
    simp only [step2]
    cases w.get v <;> exact h
  | mkEmpty v => exact step_inv h _
  | mkValue v a x t => exact step_inv h _
  | mkCopy v src t => exact step_inv h _
  | mkMove v src t => exact step_inv h _
  | assignValue v a x t => exact step_inv h _
  | assignCopy v src t => exact step_inv h _
  | assignMove v src t => exact step_inv h _
  | assignEmpty v => exact step_inv h _
  | become v i t => exact step_inv h _
  | visit v => exact step_inv h _
  | get v a => exact step_inv h _
  | destroy v => exact step_inv h _

theorem run_inv {w : World} (h : Inv w) (ops : List Op) : Inv (run w ops) := by
  unfold run
  induction ops generalizing w with
  | nil => exact h
  | cons op ops ih => exact ih (step2_inv h op)


theorem init_inv (n : Nat) (tr : Nat → Bool) (k : Nat) : Inv (World.init n tr k) := by
  have hget : ∀ v, (World.init n tr k).get v = none := by
    intro v
    simp only [World.get, World.init, List.getD_eq_getElem?_getD]
    by_cases hv : v < k
    · simp [List.getElem?_replicate, hv]
    · rw [List.getElem?_eq_none (by simp; omega)]; rfl
  constructor
  · rfl
  · intro v s hs; rw [hget] at hs; cases hs
  · rintro v id ⟨s, e, hs, _⟩; rw [hget] at hs; cases hs
  · intro id hid; simp [World.init] at hid
  · rintro v1 v2 id ⟨s, e, hs, _⟩; rw [hget] at hs; cases hs
  · simp [World.init]
  · intro id hid; simp [World.init] at hid

end Nop.Life
