import NopModel.Wire
namespace Nop

@[simp] theorem leBytes_length (n x : Nat) : (leBytes n x).length = n := by
  induction n generalizing x with
  | zero => rfl
  | succ n ih => simp [leBytes, ih]

theorem ofLE_leBytes (n x : Nat) : ofLE (leBytes n x) = x % 256 ^ n := by
  induction n generalizing x with
  | zero => simp [leBytes, ofLE, Nat.mod_one]
  | succ n ih =>
    simp only [leBytes, ofLE, ih]
    have h1 : (UInt8.ofNat (x % 256)).toNat = x % 256 := by
      simp [UInt8.toNat_ofNat']
    rw [h1, Nat.pow_succ]
    have := Nat.mod_mul_right_div_self x 256 (256 ^ n)
    rw [Nat.mul_comm (256 ^ n) 256]
    have h2 : x % (256 * 256 ^ n) = x % 256 + 256 * (x / 256 % 256 ^ n) := by
      rw [Nat.mod_mul]
    omega

theorem ofLE_leBytes_of_lt {n x : Nat} (h : x < 256 ^ n) : ofLE (leBytes n x) = x := by
  rw [ofLE_leBytes, Nat.mod_eq_of_lt h]

theorem toU_lt (b : Nat) (i : Int) : toU b i < 2 ^ b := by
  unfold toU
  have hp : (0 : Int) < ((2 ^ b : Nat) : Int) := by
    have : 0 < 2 ^ b := Nat.two_pow_pos b
    omega
  have h1 := Int.emod_lt_of_pos i hp
  have h2 := Int.emod_nonneg i (Int.ne_of_gt hp)
  omega

theorem toS_toU {b : Nat} (hb : 0 < b) {i : Int}
    (lo : -((2 ^ (b - 1) : Nat) : Int) ≤ i) (hi : i < ((2 ^ (b - 1) : Nat) : Int)) :
    toS b (toU b i) = i := by
  have h2 : 2 ^ b = 2 * 2 ^ (b - 1) := by
    cases b with
    | zero => omega
    | succ n => simp [Nat.pow_succ, Nat.mul_comm]
  unfold toS toU
  rw [h2]
  generalize 2 ^ (b - 1) = P at *
  have hP : 0 < P := by omega
  by_cases hneg : i < 0
  · have : i % ((2 * P : Nat) : Int) = i + ((2 * P : Nat) : Int) := by
      rw [← Int.add_emod_right i]
      exact Int.emod_eq_of_lt (by omega) (by omega)
    rw [this]
    have hnn : 0 ≤ i + ((2 * P : Nat) : Int) := by omega
    have e : ((i + ((2 * P : Nat) : Int)).toNat : Int) = i + ((2 * P : Nat) : Int) := Int.toNat_of_nonneg hnn
    split
    · omega
    · omega
  · have : i % ((2 * P : Nat) : Int) = i := Int.emod_eq_of_lt (by omega) (by omega)
    rw [this]
    have e : ((i.toNat : Nat) : Int) = i := Int.toNat_of_nonneg (by omega)
    split
    · omega
    · omega

theorem toU_of_nonneg {b : Nat} {i : Int} (h0 : 0 ≤ i) (h1 : i < ((2 ^ b : Nat) : Int)) :
    toU b i = i.toNat := by
  unfold toU
  rw [Int.emod_eq_of_lt h0 h1]

end Nop
