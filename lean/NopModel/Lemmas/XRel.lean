import NopModel.Lemmas.RoundTrip
/-! Reading as `b` what was written as `a`, with the value seen through a transformer `f`
(identity for fungible types, the cross-version projection for table definitions), and the
contexts that preserve it: structures / tuples, vectors, optionals. -/
namespace Nop

def XR (a b : Ty) (f : Val → Val) : Prop :=
  ∀ (v : Val) (h : HChan) (bs : Bytes) (h' : HChan) (prior : Val), valid a v = true → encode a v h = .ok (bs, h') →
    DecOK (decInto b prior) (f v) bs h'.pushed

theorem XR.refl (t : Ty) (hwf : t.wf = true) : XR t t id :=
  fun _ _ _ _ prior hv he => (rt t hwf).decInto prior hv he

theorem repM_encAll_map {f : M Val} {enc : Val → HChan → Except Err (Bytes × HChan)} {g : Val → Val}
    (hmono : ∀ a h b h', enc a h = .ok (b, h') → h.pushed <+: h'.pushed) :
    ∀ (as : List Val) (h : HChan) (bs : Bytes) (h' : HChan),
      (∀ a ∈ as, ∀ h b h', enc a h = .ok (b, h') → DecOK f (g a) b h'.pushed) →
      encAll enc as h = .ok (bs, h') → DecOK (repM as.length f) (as.map g) bs h'.pushed
  | [], h, bs, h', _, he => by
    simp only [encAll, Except.ok.injEq, Prod.mk.injEq] at he
    rw [← he.1, List.length_nil, repM_zero]
    exact DecOK.pure _
  | a :: as, h, bs, h', hd, he => by
    simp only [encAll] at he
    cases hfa : enc a h with
    | error e => simp [hfa] at he
    | ok r =>
      obtain ⟨b, h1⟩ := r
      simp only [hfa] at he
      cases hrest : encAll enc as h1 with
      | error e => simp [hrest] at he
      | ok r2 =>
        obtain ⟨bs', h2⟩ := r2
        simp only [hrest, Except.ok.injEq, Prod.mk.injEq] at he
        have ih := repM_encAll_map hmono as h1 bs' h2 (fun a' ha' => hd a' (List.mem_cons_of_mem _ ha')) hrest
        have h0 := hd a (List.mem_cons_self ..) h b h1 hfa
        have hm : h1.pushed <+: h2.pushed := encAll_mono as h1 bs' h2 (fun a _ => hmono a) hrest
        rw [← he.1, ← he.2, List.length_cons, repM_succ, List.map_cons]
        exact DecOK.bind (h0.weaken hm) (DecOK.bind ih (DecOK.pure _) (by simp)) rfl

/-- **vector** of non-integral elements -/
theorem XR.vector {a b : Ty} {g : Val → Val} (hab : XR a b g) (ha : a.integral = false) (hb : b.integral = false) :
    XR (.seq .vector a) (.seq .vector b) (fun v => .list (v.elems.map g)) := by
  intro v h bs h' prior hv he
  cases v with
  | list vs =>
    simp only [valid, Bool.and_eq_true, decide_eq_true_eq] at hv
    obtain ⟨⟨_, hall⟩, hsz⟩ := hv
    have hall' := (allP_iff _ _).1 hall
    have hw := width_pos a
    simp only [encode, lbufOver, ha, Bool.false_eq_true, ↓reduceIte] at he
    cases hall2 : encAll (encode a) vs h with
    | error er => simp [hall2] at he
    | ok r =>
      obtain ⟨ebs, h2⟩ := r
      simp only [hall2, Except.ok.injEq, Prod.mk.injEq] at he
      obtain ⟨rfl, rfl⟩ := he
      have hn : vs.length < 2 ^ 64 := by
        have : vs.length ≤ vs.length * a.width := Nat.le_mul_of_pos_right _ hw
        omega
      refine DecOK.withPrefix (p := 0xba) (by simp [matchP, hb]) ?_
      simp only [decPayload, hb, Bool.false_eq_true, ↓reduceIte]
      refine DecOK.bind (DecOK.decSize hn) ?_ rfl
      refine DecOK.map (g := Val.list) ?_
      exact repM_encAll_map (f := withPrefix (matchP b) (fun p => decPayload b p (dflt b)))
        (fun x h b' h' hab' => encode_mono a x h b' h' hab') vs h ebs h2
        (fun x hx h b' h' hab' => hab x h b' h' (dflt b) (hall' x hx) hab') hall2
  | _ => simp [valid] at hv

/-- apply a list of transformers position-wise -/
def applyAll : List (Val → Val) → List Val → List Val
  | f :: fs, v :: vs => f v :: applyAll fs vs
  | _, _ => []

theorem xProd : ∀ (abfs : List (Ty × Ty × (Val → Val))), (∀ x ∈ abfs, XR x.1 x.2.1 x.2.2) →
    ∀ (vs : List Val) (h : HChan) (bs : Bytes) (h' : HChan) (prs : List Val),
      validProd (abfs.map (·.1)) vs = true → encProd (abfs.map (·.1)) vs h = .ok (bs, h') →
      DecOK (decProd (abfs.map (·.2.1)) prs) (applyAll (abfs.map (·.2.2)) vs) bs h'.pushed
  | [], _, vs, h, bs, h', prs, hv, he => by
    cases vs with
    | nil =>
      simp only [List.map_nil, encProd, Except.ok.injEq, Prod.mk.injEq] at he
      obtain ⟨rfl, rfl⟩ := he
      simpa [decProd, applyAll] using DecOK.pure (ps := h.pushed) ([] : List Val)
    | cons _ _ => simp [validProd] at hv
  | (a, b, g) :: rest, hx, vs, h, bs, h', prs, hv, he => by
    cases vs with
    | nil => simp [validProd] at hv
    | cons v vs =>
      simp only [List.map_cons, validProd, Bool.and_eq_true] at hv
      simp only [List.map_cons, encProd] at he
      cases ha : encode a v h with
      | error er => simp [ha] at he
      | ok r =>
        obtain ⟨ab, h1⟩ := r
        simp only [ha] at he
        cases hb : encProd (rest.map (·.1)) vs h1 with
        | error er => simp [hb] at he
        | ok r2 =>
          obtain ⟨bb, h2⟩ := r2
          simp only [hb, Except.ok.injEq, Prod.mk.injEq] at he
          obtain ⟨rfl, rfl⟩ := he
          have h0 := hx (a, b, g) (List.mem_cons_self ..) v h ab h1 (prs.headD (dflt b)) hv.1 ha
          have ih := xProd rest (fun x hx' => hx x (List.mem_cons_of_mem _ hx')) vs h1 bb h2 prs.tail hv.2 hb
          have hm := encProd_mono (rest.map (·.1)) vs h1 bb h2 hb
          simp only [List.map_cons, decProd, applyAll]
          exact DecOK.bind (h0.weaken hm) (DecOK.bind ih (DecOK.pure _) (by simp)) rfl

/-- **structure / tuple / pair**: member-wise -/
theorem XR.prod (k : PKind) (abfs : List (Ty × Ty × (Val → Val))) (hx : ∀ x ∈ abfs, XR x.1 x.2.1 x.2.2)
    (hlen : abfs.length < 2 ^ 64) :
    XR (.prod k (abfs.map (·.1))) (.prod k (abfs.map (·.2.1))) (fun v => .list (applyAll (abfs.map (·.2.2)) v.elems)) := by
  intro v h bs h' prior hv he
  cases v with
  | list vs =>
    simp only [valid] at hv
    simp only [encode] at he
    cases hp : encProd (abfs.map (·.1)) vs h with
    | error er => simp [hp] at he
    | ok r =>
      obtain ⟨ebs, h2⟩ := r
      simp only [hp, Except.ok.injEq, Prod.mk.injEq] at he
      obtain ⟨rfl, rfl⟩ := he
      refine DecOK.withPrefix (p := if k == .struct then 0xb9 else 0xba) (by cases k <;> simp [matchP]) ?_
      simp only [decPayload, List.length_map]
      refine DecOK.bind (DecOK.decSize hlen) ?_ rfl
      simp only [bne_self_eq_false, Bool.false_eq_true, ↓reduceIte]
      exact DecOK.map (g := Val.list) (xProd abfs hx vs h ebs h2 prior.elems hv hp)
  | _ => simp [valid] at hv

/-- what an Optional holds, seen through `g` -/
def optMap (g : Val → Val) : Val → Val
  | .tag _ x => .tag 1 (g x)
  | v => v

/-- **Optional** -/
theorem XR.opt {a b : Ty} {g : Val → Val} (hab : XR a b g) (hnil : matchP b 0xbe = false) :
    XR (.opt a) (.opt b) (optMap g) := by
  intro v h bs h' prior hv he
  cases v with
  | nil =>
    simp only [encode, Except.ok.injEq, Prod.mk.injEq] at he
    obtain ⟨rfl, rfl⟩ := he
    refine DecOK.withPrefix (p := 0xbe) (by simp [matchP]) ?_
    simpa [decPayload, optMap] using DecOK.pure (ps := h.pushed) Val.nil
  | tag i x =>
    have hi : i = 1 := by
      by_cases h1 : i = 1
      · exact h1
      · exfalso; revert hv; rw [valid]; simp
        all_goals (intros; simp_all)
    subst hi
    simp only [valid] at hv
    simp only [encode] at he
    -- the inner read, through its own prefix byte
    intro s rest hc hb hf hr
    have hin := hab x h bs h' (dflt b) hv he s rest hc hb hf hr
    -- bs is non-empty and its first byte matches b but is not NIL
    unfold decInto at hin ⊢
    unfold withPrefix at hin ⊢
    cases hrb : rByte s with
    | mk r s1 =>
      rw [hrb] at hin
      cases r with
      | error e => simp at hin
      | ok p =>
        simp only at hin ⊢
        by_cases hm : matchP b p = true
        · have hp : (p == 0xbe) = false := by
            cases hpe : p == 0xbe with
            | false => rfl
            | true => rw [beq_iff_eq] at hpe; rw [hpe, hnil] at hm; exact absurd hm (by simp)
          simp only [hm, ↓reduceIte] at hin
          simp only [matchP, hm, Bool.or_true, ↓reduceIte, decPayload, hp, Bool.false_eq_true, bind_run, hin, optMap]
          rfl
        · simp [hm] at hin
  | _ => simp [valid] at hv

end Nop

namespace Nop

/-- **value wrapper** on either side: a wrapper is its wrapped type on the wire -/
theorem decInto_wrap (t : Ty) (prior : Val) : decInto (.wrap t) prior = decInto t prior := by
  funext s
  simp only [decInto, withPrefix, matchP, decPayload]
  cases rByte s with
  | mk r s1 => cases r <;> rfl

theorem XR.wrap_r {a b : Ty} {g : Val → Val} (hab : XR a b g) : XR a (.wrap b) g := by
  intro v h bs h' prior hv he
  rw [decInto_wrap]
  exact hab v h bs h' prior hv he

theorem XR.wrap_l {a b : Ty} {g : Val → Val} (hab : XR a b g) : XR (.wrap a) b g := by
  intro v h bs h' prior hv he
  simp only [valid] at hv
  simp only [encode] at he
  exact hab v h bs h' prior hv he

/-- the alternatives of a Variant, position-wise -/
theorem xAlt : ∀ (abfs : List (Ty × Ty × (Val → Val))), (∀ x ∈ abfs, XR x.1 x.2.1 x.2.2) →
    ∀ (i : Nat) (v : Val) (h : HChan) (bs : Bytes) (h' : HChan) (pr : Option Val),
      validAlt (abfs.map (·.1)) i v = true → encAlt (abfs.map (·.1)) i v h = .ok (bs, h') →
      DecOK (decAlt (abfs.map (·.2.1)) i pr) (((abfs.map (·.2.2)).getD i id) v) bs h'.pushed
  | [], _, i, v, h, bs, h', pr, hv, _ => by simp [validAlt] at hv
  | (a, b, g) :: rest, hx, 0, v, h, bs, h', pr, hv, he => by
    simp only [List.map_cons, validAlt] at hv
    simp only [List.map_cons, encAlt] at he
    simp only [List.map_cons, decAlt, List.getD_cons_zero]
    exact hx (a, b, g) (List.mem_cons_self ..) v h bs h' _ hv he
  | (a, b, g) :: rest, hx, i + 1, v, h, bs, h', pr, hv, he => by
    simp only [List.map_cons, validAlt] at hv
    simp only [List.map_cons, encAlt] at he
    simp only [List.map_cons, decAlt, List.getD_cons_succ]
    exact xAlt rest (fun x hx' => hx x (List.mem_cons_of_mem _ hx')) i v h bs h' pr hv he

/-- what a Variant holds, seen through the transformer of its active alternative -/
def varMap (fs : List (Val → Val)) : Val → Val
  | .tag i x => if i < 0 then .tag i x else .tag i ((fs.getD i.toNat id) x)
  | v => v

/-- **Variant**: alternative-wise -/
theorem XR.variant (abfs : List (Ty × Ty × (Val → Val))) (hx : ∀ x ∈ abfs, XR x.1 x.2.1 x.2.2)
    (hlen : abfs.length ≤ 2 ^ 31) :
    XR (.variant (abfs.map (·.1))) (.variant (abfs.map (·.2.1))) (varMap (abfs.map (·.2.2))) := by
  intro v h bs h' prior hv he
  cases v with
  | tag i x =>
    simp only [valid] at hv
    simp only [encode] at he
    by_cases hneg : i = -1
    · subst hneg
      simp only [BEq.rfl, ↓reduceIte] at hv
      cases x with
      | nil =>
        simp only [show ((-1 : Int) < 0) from by decide, ↓reduceIte, Except.ok.injEq, Prod.mk.injEq] at he
        obtain ⟨rfl, rfl⟩ := he
        refine DecOK.withPrefix (p := 0xb8) (by simp [matchP]) ?_
        simp only [decPayload, List.length_map]
        refine DecOK.bind (DecOK.decInt (i32_inRange (by decide) (by decide))) ?_ rfl
        have c1 : (decide ((-1 : Int) < -1) || decide ((abfs.length : Int) ≤ -1)) = false := by
          simp; omega
        simp only [c1, Bool.false_eq_true, ↓reduceIte, BEq.rfl, varMap, show ((-1 : Int) < 0) from by decide]
        exact DecOK.withPrefix (by simp) (DecOK.pure _)
      | _ => simp [Val.isNil] at hv
    · have hne : (i == -1) = false := by simp [hneg]
      simp only [hne, Bool.false_eq_true, ↓reduceIte, Bool.and_eq_true, decide_eq_true_eq] at hv
      have hnn : ¬ i < 0 := by omega
      simp only [hnn, ↓reduceIte] at he
      cases ha : encAlt (abfs.map (·.1)) i.toNat x h with
      | error er => simp [ha] at he
      | ok r =>
        obtain ⟨abs, h2⟩ := r
        simp only [ha, Except.ok.injEq, Prod.mk.injEq] at he
        obtain ⟨rfl, rfl⟩ := he
        have hlt := validAlt_lt (abfs.map (·.1)) i.toNat x hv.2
        simp only [List.length_map] at hlt
        refine DecOK.withPrefix (p := 0xb8) (by simp [matchP]) ?_
        simp only [decPayload, List.length_map]
        refine DecOK.bind (DecOK.decInt (i32_inRange (by omega) (by omega))) ?_ rfl
        have c1 : (decide (i < -1) || decide ((abfs.length : Int) ≤ i)) = false := by
          simp; omega
        simp only [c1, Bool.false_eq_true, ↓reduceIte, hne, varMap, hnn]
        exact DecOK.map (g := Val.tag i) (xAlt abfs hx i.toNat x h abs h2 _ hv.2 ha)
  | _ => simp [valid] at hv

/-- what a Result holds, seen through `g` -/
def resMap (g : Val → Val) : Val → Val
  | .tag 0 e => .tag 0 e
  | .tag _ x => .tag 1 (g x)
  | v => v

/-- **Result** -/
theorem XR.result {a b : Ty} {g : Val → Val} (en : Nat) (ek : IntKind) (hab : XR a b g) (herr : matchP b 0xb6 = false) :
    XR (.result en ek a) (.result en ek b) (resMap g) := by
  intro v h bs h' prior hv he
  cases v with
  | tag i x =>
    by_cases h0 : i = 0
    · subst h0
      cases x with
      | int e =>
        simp only [valid] at hv
        simp only [encode, Except.ok.injEq, Prod.mk.injEq] at he
        obtain ⟨rfl, rfl⟩ := he
        refine DecOK.withPrefix (p := 0xb6) (by simp [matchP]) ?_
        simp only [decPayload, BEq.rfl, ↓reduceIte, resMap]
        exact DecOK.map (g := fun e => Val.tag 0 (Val.int e)) (DecOK.decInt hv)
      | _ => simp [valid] at hv
    · have hi : i = 1 := by
        by_cases h1 : i = 1
        · exact h1
        · exfalso; revert hv; rw [valid]; simp
          all_goals (intros; simp_all)
      subst hi
      simp only [valid] at hv
      have hen : encode (.result en ek a) (.tag 1 x) h = encode a x h := by
        rw [encode]; intro e a'; exact absurd a' (by decide)
      rw [hen] at he
      intro s rest hc hb hf hr
      have hin := hab x h bs h' (dflt b) hv he s rest hc hb hf hr
      unfold decInto at hin ⊢
      unfold withPrefix at hin ⊢
      cases hrb : rByte s with
      | mk r s1 =>
        rw [hrb] at hin
        cases r with
        | error e => simp at hin
        | ok p =>
          simp only at hin ⊢
          by_cases hm : matchP b p = true
          · have hp : (p == 0xb6) = false := by
              cases hpe : p == 0xb6 with
              | false => rfl
              | true => rw [beq_iff_eq] at hpe; rw [hpe, herr] at hm; exact absurd hm (by simp)
            simp only [hm, ↓reduceIte] at hin
            simp only [matchP, hm, Bool.or_true, ↓reduceIte, decPayload, hp, Bool.false_eq_true, bind_run, hin]
            rfl
          · simp [hm] at hin
  | _ => simp [valid] at hv

end Nop

namespace Nop

theorem repP_encAll_map {f : Val → M Val} {d : Val} {enc : Val → HChan → Except Err (Bytes × HChan)} {g : Val → Val}
    (hmono : ∀ a h b h', enc a h = .ok (b, h') → h.pushed <+: h'.pushed) :
    ∀ (as : List Val) (h : HChan) (bs : Bytes) (h' : HChan) (pr : List Val),
      (∀ a ∈ as, ∀ p h b h', enc a h = .ok (b, h') → DecOK (f p) (g a) b h'.pushed) →
      encAll enc as h = .ok (bs, h') → DecOK (repP as.length pr d f) (as.map g) bs h'.pushed
  | [], h, bs, h', pr, _, he => by
    simp only [encAll, Except.ok.injEq, Prod.mk.injEq] at he
    rw [← he.1, List.length_nil, repP_zero]
    exact DecOK.pure _
  | a :: as, h, bs, h', pr, hd, he => by
    simp only [encAll] at he
    cases hfa : enc a h with
    | error e => simp [hfa] at he
    | ok r =>
      obtain ⟨b, h1⟩ := r
      simp only [hfa] at he
      cases hrest : encAll enc as h1 with
      | error e => simp [hrest] at he
      | ok r2 =>
        obtain ⟨bs', h2⟩ := r2
        simp only [hrest, Except.ok.injEq, Prod.mk.injEq] at he
        have ih := repP_encAll_map (f := f) (d := d) (g := g) hmono as h1 bs' h2 pr.tail
          (fun a' ha' => hd a' (List.mem_cons_of_mem _ ha')) hrest
        have h0 := hd a (List.mem_cons_self ..) (pr.headD d) h b h1 hfa
        have hm : h1.pushed <+: h2.pushed := encAll_mono as h1 bs' h2 (fun a _ => hmono a) hrest
        rw [← he.1, ← he.2, List.length_cons, repP_succ, List.map_cons]
        exact DecOK.bind (h0.weaken hm) (DecOK.bind ih (DecOK.pure _) (by simp)) rfl

/-- **std::array / C array** of non-integral elements (same length on both sides) -/
theorem XR.array {a b : Ty} {g : Val → Val} (fa fb : Flavor) (n : Nat)
    (hfa : fa = .array n ∨ fa = .carray n) (hfb : fb = .array n ∨ fb = .carray n)
    (hab : XR a b g) (ha : a.integral = false) (hb : b.integral = false) :
    XR (.seq fa a) (.seq fb b) (fun v => .list (v.elems.map g)) := by
  intro v h bs h' prior hv he
  cases v with
  | list vs =>
    have hlen : vs.length = n := by
      simp only [valid, Bool.and_eq_true] at hv
      rcases hfa with rfl | rfl <;> simpa using hv.1.1
    have hall' : ∀ x ∈ vs, valid a x = true := by
      simp only [valid, Bool.and_eq_true] at hv
      exact (allP_iff _ _).1 hv.1.2
    have hsz : vs.length * a.width < 2 ^ 64 := by
      simp only [valid, Bool.and_eq_true, decide_eq_true_eq] at hv
      exact hv.2
    have hw := width_pos a
    have hov : lbufOver fa vs.length = false := by rcases hfa with rfl | rfl <;> rfl
    simp only [encode, hov, ha, Bool.false_eq_true, ↓reduceIte] at he
    cases hall2 : encAll (encode a) vs h with
    | error er => simp [hall2] at he
    | ok r =>
      obtain ⟨ebs, h2⟩ := r
      simp only [hall2, Except.ok.injEq, Prod.mk.injEq] at he
      obtain ⟨rfl, rfl⟩ := he
      have hn : vs.length < 2 ^ 64 := by
        have : vs.length ≤ vs.length * a.width := Nat.le_mul_of_pos_right _ hw
        omega
      refine DecOK.withPrefix (p := 0xba) (by simp [matchP, hb]) ?_
      have hloop := repP_encAll_map (d := dflt b) (g := g)
        (f := fun pr => withPrefix (matchP b) (fun p => decPayload b p pr))
        (fun x h b' h' hab' => encode_mono a x h b' h' hab') vs h ebs h2 prior.elems
        (fun x hx pr h b' h' hab' => hab x h b' h' pr (hall' x hx) hab') hall2
      rcases hfb with rfl | rfl
      all_goals
        simp only [decPayload, hb, Bool.false_eq_true, ↓reduceIte]
        refine DecOK.bind (DecOK.decSize hn) ?_ rfl
        simp only [hlen, bne_self_eq_false, Bool.false_eq_true, ↓reduceIte]
        rw [hlen] at hloop
        exact DecOK.map (g := Val.list) hloop
  | _ => simp [valid] at hv

/-- a map entry `(l k v)` with its mapped value seen through `g` -/
def kvMap (g : Val → Val) : Val → Val
  | .list [a, b] => .list [a, g b]
  | v => v

theorem kvKey_kvMap (g : Val → Val) (kv : Val) : kvKey (kvMap g kv) = kvKey kv := by
  cases kv with
  | list l =>
    match l with
    | [] => rfl
    | [_] => rfl
    | [_, _] => rfl
    | _ :: _ :: _ :: _ => rfl
  | _ => rfl

theorem keysDistinct_map (g : Val → Val) : ∀ (kvs : List Val), keysDistinct kvs = true → keysDistinct (kvs.map (kvMap g)) = true
  | [], _ => rfl
  | kv :: rest, h => by
    simp only [keysDistinct, Bool.and_eq_true, List.all_eq_true] at h
    simp only [List.map_cons, keysDistinct, Bool.and_eq_true, List.all_eq_true, List.mem_map]
    refine ⟨?_, keysDistinct_map g rest h.2⟩
    rintro x ⟨y, hy, rfl⟩
    rw [kvKey_kvMap, kvKey_kvMap]
    exact h.1 y hy

/-- **std::map / std::unordered_map**: same key type, mapped values through `g` -/
theorem XR.map {k a b : Ty} {g : Val → Val} (o o' : Bool) (hk : XR k k id) (hab : XR a b g) :
    XR (.map o k a) (.map o' k b) (fun v => .list (v.elems.map (kvMap g))) := by
  intro v h bs h' prior hv he
  cases v with
  | list kvs =>
    simp only [valid, Bool.and_eq_true, decide_eq_true_eq] at hv
    obtain ⟨⟨hall, hdist⟩, hlen⟩ := hv
    have hall' := (allP_iff _ _).1 hall
    simp only [encode] at he
    cases hp : encAll (pairEnc (encode k) (encode a)) kvs h with
    | error er => simp [hp] at he
    | ok r =>
      obtain ⟨ebs, h2⟩ := r
      simp only [hp, Except.ok.injEq, Prod.mk.injEq] at he
      obtain ⟨rfl, rfl⟩ := he
      refine DecOK.withPrefix (p := 0xbb) (by simp [matchP]) ?_
      simp only [decPayload]
      refine DecOK.bind (DecOK.decSize hlen) ?_ rfl
      have hloop := repM_encAll_map (g := kvMap g)
        (f := (withPrefix (matchP k) (fun p => decPayload k p (dflt k)) >>= fun x =>
               withPrefix (matchP b) (fun p => decPayload b p (dflt b)) >>= fun y =>
               (Pure.pure (Val.list [x, y]) : M Val)))
        (fun x h b' h' hab' => pairEnc_mono x h b' h' hab') kvs h ebs h2
        (by
          intro kv hkv h0 bb h1 hab'
          have hkvv := hall' kv hkv
          cases kv with
          | list l =>
            match l, hkvv with
            | [x, y], hkvv =>
              simp only [Bool.and_eq_true] at hkvv
              simp only [pairEnc, kvKey, kvVal, Val.elems, List.headD_cons, List.tail_cons] at hab'
              cases hx : encode k x h0 with
              | error er => simp [hx] at hab'
              | ok r1 =>
                obtain ⟨ba, hm1⟩ := r1
                simp only [hx] at hab'
                cases hy : encode a y hm1 with
                | error er => simp [hy] at hab'
                | ok r2 =>
                  obtain ⟨bb2, hm2⟩ := r2
                  simp only [hy, Except.ok.injEq, Prod.mk.injEq] at hab'
                  obtain ⟨rfl, rfl⟩ := hab'
                  have d1 := (hk x h0 ba hm1 (dflt k) hkvv.1 hx).weaken (encode_mono a _ _ _ _ hy)
                  have d2 := hab y hm1 bb2 hm2 (dflt b) hkvv.2 hy
                  exact DecOK.bind d1 (DecOK.bind d2 (DecOK.pure _) (by simp)) rfl
          | int _ => simp at hkvv
          | nil => simp at hkvv
          | tag _ _ => simp at hkvv) hp
      have := DecOK.map (g := fun kvs => Val.list (dedupKeys kvs)) hloop
      rw [dedupKeys_of_distinct _ (keysDistinct_map g kvs hdist)] at this
      exact this
  | _ => simp [valid] at hv

end Nop
