import NopModel.Lemmas.RoundTrip
/-! Reading as `b` what was written as `a`, with the value seen through a transformer `f`
(identity for fungible types, the cross-version projection for table definitions), and the
contexts that preserve it: structures / tuples, vectors, optionals. -/
namespace Nop

def XR (a b : Ty) (f : Val → Val) : Prop :=
  ∀ (v : Val) (h : HChan) (bs : Bytes) (h' : HChan) (prior : Val), valid a v = true → encode a v h = .ok (bs, h') →
    DecOK (decInto b prior) (f v) bs h'.pushed

theorem XR.refl (t : Ty) (hwf : t.wf = true) : XR t t id :=
  fun _ _ _ _ prior hv he => (rt t hwf).decInto prior hv he

theorem repM_encAll_map {f : M Val} {enc : Val → HChan → Except Err (Bytes × HChan)} {g : Val → Val}
    (hmono : ∀ a h b h', enc a h = .ok (b, h') → h.pushed <+: h'.pushed) :
    ∀ (as : List Val) (h : HChan) (bs : Bytes) (h' : HChan),
      (∀ a ∈ as, ∀ h b h', enc a h = .ok (b, h') → DecOK f (g a) b h'.pushed) →
      encAll enc as h = .ok (bs, h') → DecOK (repM as.length f) (as.map g) bs h'.pushed
  | [], h, bs, h', _, he => by
    simp only [encAll, Except.ok.injEq, Prod.mk.injEq] at he
    rw [← he.1, List.length_nil, repM_zero]
    exact DecOK.pure _
  | a :: as, h, bs, h', hd, he => by
    simp only [encAll] at he
    cases hfa : enc a h with
    | error e => simp [hfa] at he
    | ok r =>
      obtain ⟨b, h1⟩ := r
      simp only [hfa] at he
      cases hrest : encAll enc as h1 with
      | error e => simp [hrest] at he
      | ok r2 =>
        obtain ⟨bs', h2⟩ := r2
        simp only [hrest, Except.ok.injEq, Prod.mk.injEq] at he
        have ih := repM_encAll_map hmono as h1 bs' h2 (fun a' ha' => hd a' (List.mem_cons_of_mem _ ha')) hrest
        have h0 := hd a (List.mem_cons_self ..) h b h1 hfa
        have hm : h1.pushed <+: h2.pushed := encAll_mono as h1 bs' h2 (fun a _ => hmono a) hrest
        rw [← he.1, ← he.2, List.length_cons, repM_succ, List.map_cons]
        exact DecOK.bind (h0.weaken hm) (DecOK.bind ih (DecOK.pure _) (by simp)) rfl

/-- **vector** of non-integral elements -/
theorem XR.vector {a b : Ty} {g : Val → Val} (hab : XR a b g) (ha : a.integral = false) (hb : b.integral = false) :
    XR (.seq .vector a) (.seq .vector b) (fun v => .list (v.elems.map g)) := by
  intro v h bs h' prior hv he
  cases v with
  | list vs =>
    simp only [valid, Bool.and_eq_true, decide_eq_true_eq] at hv
    obtain ⟨⟨_, hall⟩, hsz⟩ := hv
    have hall' := (allP_iff _ _).1 hall
    have hw := width_pos a
    simp only [encode, lbufOver, ha, Bool.false_eq_true, ↓reduceIte] at he
    cases hall2 : encAll (encode a) vs h with
    | error er => simp [hall2] at he
    | ok r =>
      obtain ⟨ebs, h2⟩ := r
      simp only [hall2, Except.ok.injEq, Prod.mk.injEq] at he
      obtain ⟨rfl, rfl⟩ := he
      have hn : vs.length < 2 ^ 64 := by
        have : vs.length ≤ vs.length * a.width := Nat.le_mul_of_pos_right _ hw
        omega
      refine DecOK.withPrefix (p := 0xba) (by simp [matchP, hb]) ?_
      simp only [decPayload, hb, Bool.false_eq_true, ↓reduceIte]
      refine DecOK.bind (DecOK.decSize hn) ?_ rfl
      refine DecOK.map (g := Val.list) ?_
      exact repM_encAll_map (f := withPrefix (matchP b) (fun p => decPayload b p (dflt b)))
        (fun x h b' h' hab' => encode_mono a x h b' h' hab') vs h ebs h2
        (fun x hx h b' h' hab' => hab x h b' h' (dflt b) (hall' x hx) hab') hall2
  | _ => simp [valid] at hv

/-- apply a list of transformers position-wise -/
def applyAll : List (Val → Val) → List Val → List Val
  | f :: fs, v :: vs => f v :: applyAll fs vs
  | _, _ => []

theorem xProd : ∀ (abfs : List (Ty × Ty × (Val → Val))), (∀ x ∈ abfs, XR x.1 x.2.1 x.2.2) →
    ∀ (vs : List Val) (h : HChan) (bs : Bytes) (h' : HChan) (prs : List Val),
      validProd (abfs.map (·.1)) vs = true → encProd (abfs.map (·.1)) vs h = .ok (bs, h') →
      DecOK (decProd (abfs.map (·.2.1)) prs) (applyAll (abfs.map (·.2.2)) vs) bs h'.pushed
  | [], _, vs, h, bs, h', prs, hv, he => by
    cases vs with
    | nil =>
      simp only [List.map_nil, encProd, Except.ok.injEq, Prod.mk.injEq] at he
      obtain ⟨rfl, rfl⟩ := he
      simpa [decProd, applyAll] using DecOK.pure (ps := h.pushed) ([] : List Val)
    | cons _ _ => simp [validProd] at hv
  | (a, b, g) :: rest, hx, vs, h, bs, h', prs, hv, he => by
    cases vs with
    | nil => simp [validProd] at hv
    | cons v vs =>
      simp only [List.map_cons, validProd, Bool.and_eq_true] at hv
      simp only [List.map_cons, encProd] at he
      cases ha : encode a v h with
      | error er => simp [ha] at he
      | ok r =>
        obtain ⟨ab, h1⟩ := r
        simp only [ha] at he
        cases hb : encProd (rest.map (·.1)) vs h1 with
        | error er => simp [hb] at he
        | ok r2 =>
          obtain ⟨bb, h2⟩ := r2
          simp only [hb, Except.ok.injEq, Prod.mk.injEq] at he
          obtain ⟨rfl, rfl⟩ := he
          have h0 := hx (a, b, g) (List.mem_cons_self ..) v h ab h1 (prs.headD (dflt b)) hv.1 ha
          have ih := xProd rest (fun x hx' => hx x (List.mem_cons_of_mem _ hx')) vs h1 bb h2 prs.tail hv.2 hb
          have hm := encProd_mono (rest.map (·.1)) vs h1 bb h2 hb
          simp only [List.map_cons, decProd, applyAll]
          exact DecOK.bind (h0.weaken hm) (DecOK.bind ih (DecOK.pure _) (by simp)) rfl

/-- **structure / tuple / pair**: member-wise -/
theorem XR.prod (k : PKind) (abfs : List (Ty × Ty × (Val → Val))) (hx : ∀ x ∈ abfs, XR x.1 x.2.1 x.2.2)
    (hlen : abfs.length < 2 ^ 64) :
    XR (.prod k (abfs.map (·.1))) (.prod k (abfs.map (·.2.1))) (fun v => .list (applyAll (abfs.map (·.2.2)) v.elems)) := by
  intro v h bs h' prior hv he
  cases v with
  | list vs =>
    simp only [valid] at hv
    simp only [encode] at he
    cases hp : encProd (abfs.map (·.1)) vs h with
    | error er => simp [hp] at he
    | ok r =>
      obtain ⟨ebs, h2⟩ := r
      simp only [hp, Except.ok.injEq, Prod.mk.injEq] at he
      obtain ⟨rfl, rfl⟩ := he
      refine DecOK.withPrefix (p := if k == .struct then 0xb9 else 0xba) (by cases k <;> simp [matchP]) ?_
      simp only [decPayload, List.length_map]
      refine DecOK.bind (DecOK.decSize hlen) ?_ rfl
      simp only [bne_self_eq_false, Bool.false_eq_true, ↓reduceIte]
      exact DecOK.map (g := Val.list) (xProd abfs hx vs h ebs h2 prior.elems hv hp)
  | _ => simp [valid] at hv

/-- what an Optional holds, seen through `g` -/
def optMap (g : Val → Val) : Val → Val
  | .tag _ x => .tag 1 (g x)
  | v => v

/-- **Optional** -/
theorem XR.opt {a b : Ty} {g : Val → Val} (hab : XR a b g) (hnil : matchP b 0xbe = false) :
    XR (.opt a) (.opt b) (optMap g) := by
  intro v h bs h' prior hv he
  cases v with
  | nil =>
    simp only [encode, Except.ok.injEq, Prod.mk.injEq] at he
    obtain ⟨rfl, rfl⟩ := he
    refine DecOK.withPrefix (p := 0xbe) (by simp [matchP]) ?_
    simpa [decPayload, optMap] using DecOK.pure (ps := h.pushed) Val.nil
  | tag i x =>
    have hi : i = 1 := by
      by_cases h1 : i = 1
      · exact h1
      · exfalso; revert hv; rw [valid]; simp
        all_goals (intros; simp_all)
    subst hi
    simp only [valid] at hv
    simp only [encode] at he
    -- the inner read, through its own prefix byte
    intro s rest hc hb hf hr
    have hin := hab x h bs h' (dflt b) hv he s rest hc hb hf hr
    -- bs is non-empty and its first byte matches b but is not NIL
    unfold decInto at hin ⊢
    unfold withPrefix at hin ⊢
    cases hrb : rByte s with
    | mk r s1 =>
      rw [hrb] at hin
      cases r with
      | error e => simp at hin
      | ok p =>
        simp only at hin ⊢
        by_cases hm : matchP b p = true
        · have hp : (p == 0xbe) = false := by
            cases hpe : p == 0xbe with
            | false => rfl
            | true => rw [beq_iff_eq] at hpe; rw [hpe, hnil] at hm; exact absurd hm (by simp)
          simp only [hm, ↓reduceIte] at hin
          simp only [matchP, hm, Bool.or_true, ↓reduceIte, decPayload, hp, Bool.false_eq_true, bind_run, hin, optMap]
          rfl
        · simp [hm] at hin
  | _ => simp [valid] at hv

end Nop
