import NopModel.Lemmas.XRel
/-! Cross-version table reading: entries are matched by id, whatever the two definitions'
orders; unknown and deleted ids are skipped by their declared size. -/
namespace Nop

/-- reading as `b` what was written as `a` gives back the same (abstract) value -/
def XRT (a b : Ty) : Prop :=
  ∀ (v : Val) (h : HChan) (bs : Bytes) (h' : HChan), valid a v = true → encode a v h = .ok (bs, h') →
    DecOK (decInto b (dflt b)) v bs h'.pushed

theorem XRT.refl (t : Ty) (hwf : t.wf = true) : XRT t t :=
  fun _ _ _ _ hv he => (rt t hwf).decInto (dflt t) hv he

theorem DecOK.skip {ps : List (Int × Int)} {bs : Bytes} {n : Nat} (hn : bs.length = n) : DecOK (rSkip n) () bs ps := by
  intro s rest hc hb hf _
  rw [rSkip_ok hc (by rw [hb]; simp; omega) (by rw [← hn]; exact hf), hn]

theorem DecOK.skipEntry {ps : List (Int × Int)} {body : Bytes} {sz : Nat} (hsz : sz < 2 ^ 64) (hb : body.length = sz) :
    DecOK Nop.skipEntry () (encSize sz ++ body) ps := by
  unfold Nop.skipEntry
  exact DecOK.bind (DecOK.decSize hsz) (DecOK.skip hb) rfl

theorem idsDistinct_cons (e : Nat × Bool) (es : List (Nat × Bool)) :
    idsDistinct (e :: es) = true ↔ (∀ e' ∈ es, e'.1 ≠ e.1) ∧ idsDistinct es = true := by
  obtain ⟨i, d⟩ := e
  simp [idsDistinct]

theorem idsDistinct_append : ∀ (pe se : List (Nat × Bool)), idsDistinct (pe ++ se) = true →
    idsDistinct pe = true ∧ idsDistinct se = true ∧ ∀ a ∈ pe, ∀ b ∈ se, a.1 ≠ b.1
  | [], se, h => ⟨rfl, by simpa using h, by simp⟩
  | e :: pe, se, h => by
    rw [List.cons_append, idsDistinct_cons] at h
    obtain ⟨h1, h2, h3⟩ := idsDistinct_append pe se h.2
    refine ⟨(idsDistinct_cons e pe).2 ⟨fun e' he' => h.1 e' (List.mem_append_left _ he'), h1⟩, h2, ?_⟩
    intro a ha b hb
    rw [List.mem_cons] at ha
    rcases ha with rfl | ha
    · exact fun heq => h.1 b (List.mem_append_right _ hb) heq.symm
    · exact h3 a ha b hb

theorem split_at {α} (l : List α) (n : Nat) (h : n < l.length) :
    ∃ pt tm st, l = pt ++ tm :: st ∧ pt.length = n :=
  ⟨l.take n, l[n], l.drop (n + 1), by rw [List.getElem_cons_drop, List.take_append_drop], by simp; omega⟩

/-- an id that the reader does not have, or has marked deleted: the entry is skipped and the
reader's slots are left as they were -/
theorem decEntry_skip {ps : List (Int × Int)} (id sz : Nat) (body : Bytes) (hsz : sz < 2 ^ 64) (hb : body.length = sz) :
    ∀ (eR : List (Nat × Bool)) (tR : List Ty) (cur : List Val),
      (∀ e ∈ eR, e.1 = id → e.2 = true) →
      DecOK (decEntry eR tR id cur) cur (encSize sz ++ body) ps
  | [], tR, cur, _ => by
    have : decEntry [] tR id cur = (Nop.skipEntry >>= fun _ => pure cur) := by
      cases tR <;> cases cur <;> first | rfl | (unfold decEntry; rfl)
    rw [this]
    exact DecOK.bind (DecOK.skipEntry hsz hb) (DecOK.pure _) (List.append_nil _).symm
  | (eid, del) :: es, [], cur, _ => by
    have : decEntry ((eid, del) :: es) [] id cur = (Nop.skipEntry >>= fun _ => pure cur) := by
      cases cur <;> first | rfl | (unfold decEntry; rfl)
    rw [this]
    exact DecOK.bind (DecOK.skipEntry hsz hb) (DecOK.pure _) (List.append_nil _).symm
  | (eid, del) :: es, t :: ts, [], _ => by
    have : decEntry ((eid, del) :: es) (t :: ts) id [] = (Nop.skipEntry >>= fun _ => pure []) := by
      first | rfl | (unfold decEntry; rfl)
    rw [this]
    exact DecOK.bind (DecOK.skipEntry hsz hb) (DecOK.pure _) (List.append_nil _).symm
  | (eid, del) :: es, t :: ts, c :: cs, hdel => by
    simp only [decEntry]
    by_cases hid : eid = id
    · have hd : del = true := hdel (eid, del) (List.mem_cons_self ..) hid
      subst hd
      simp only [hid, BEq.rfl, ↓reduceIte]
      exact DecOK.bind (DecOK.skipEntry hsz hb) (DecOK.pure _) (List.append_nil _).symm
    · have : (eid == id) = false := by simpa using hid
      simp only [this, Bool.false_eq_true, ↓reduceIte]
      exact DecOK.map (g := fun r => c :: r)
        (decEntry_skip id sz body hsz hb es ts cs (fun e he => hdel e (List.mem_cons_of_mem _ he)))

/-- the entry's id is active in the reader, at a slot that is still empty -/
theorem decEntry_hit {ps : List (Int × Int)} (id sz : Nat) (t : Ty) (x : Val) (vb : Bytes)
    (pe se : List (Nat × Bool)) (pt st : List Ty) (pv sc : List Val)
    (hl1 : pe.length = pt.length) (hl2 : pt.length = pv.length) (hne : ∀ e ∈ pe, e.1 ≠ id)
    (hsz : sz < 2 ^ 64) (hle : vb.length ≤ sz) (hd : DecOK (decInto t (dflt t)) x vb ps) :
    DecOK (decEntry (pe ++ (id, false) :: se) (pt ++ t :: st) id (pv ++ Val.nil :: sc))
      (pv ++ Val.tag 1 x :: sc) (encSize sz ++ (vb ++ List.replicate (sz - vb.length) 0)) ps := by
  rw [decEntry_prefix ((id, false) :: se) (t :: st) id (Val.nil :: sc) pe pt pv hl1 hl2 hne]
  refine DecOK.map (g := fun r => pv ++ r) (a := Val.tag 1 x :: sc) ?_
  simp only [decEntry, BEq.rfl, ↓reduceIte, Bool.false_eq_true, Val.isNil, Bool.not_true]
  refine DecOK.bind (DecOK.decSize hsz) ?_ rfl
  exact DecOK.framed (fun v => Val.tag 1 v :: sc) hd hle

/-- the non-empty entries a writer emits: id ↦ value, in the writer's declaration order -/
def present : List (Nat × Bool) → List Val → List (Nat × Val)
  | (id, _) :: es, .tag _ x :: vs => (id, x) :: present es vs
  | _ :: es, _ :: vs => present es vs
  | _, _ => []

/-- ... each seen through the transformer `F id` of its entry type pair -/
def presentF (F : Nat → Val → Val) : List (Nat × Bool) → List Val → List (Nat × Val)
  | (id, _) :: es, .tag _ x :: vs => (id, F id x) :: presentF F es vs
  | _ :: es, _ :: vs => presentF F es vs
  | _, _ => []

theorem presentF_id : ∀ (es : List (Nat × Bool)) (vs : List Val), presentF (fun _ x => x) es vs = present es vs
  | [], _ => by simp [presentF, present]
  | _ :: _, [] => by simp [presentF, present]
  | (id, d) :: es, v :: vs => by
    cases v <;> simp [presentF, present, presentF_id es vs]

/-- what the reader's slot for entry `e` holds after the writer's entries `done` were read -/
def xslot (done : List (Nat × Val)) (e : Nat × Bool) : Val :=
  if e.2 then .nil else
    match done.lookup e.1 with
    | some x => .tag 1 x
    | none => .nil

theorem lookup_append_none {done : List (Nat × Val)} {k : Nat} (h : done.lookup k = none) (rest : List (Nat × Val)) :
    (done ++ rest).lookup k = rest.lookup k := by
  induction done with
  | nil => rfl
  | cons p done ih =>
    obtain ⟨a, b⟩ := p
    cases hk : (k == a) with
    | true => simp [List.lookup_cons, hk] at h
    | false =>
      simp only [List.lookup_cons, hk] at h
      simp only [List.cons_append, List.lookup_cons, hk]
      exact ih h

theorem lookup_append_some {done : List (Nat × Val)} {k : Nat} {x : Val} (h : done.lookup k = some x) (rest : List (Nat × Val)) :
    (done ++ rest).lookup k = some x := by
  induction done with
  | nil => cases h
  | cons p done ih =>
    obtain ⟨a, b⟩ := p
    cases hk : (k == a) with
    | true =>
      simp only [List.lookup_cons, hk] at h
      simp only [List.cons_append, List.lookup_cons, hk]
      exact h
    | false =>
      simp only [List.lookup_cons, hk] at h
      simp only [List.cons_append, List.lookup_cons, hk]
      exact ih h

theorem xslot_snoc_ne (done : List (Nat × Val)) (id : Nat) (x : Val) (e : Nat × Bool) (hne : e.2 = true ∨ e.1 ≠ id) :
    xslot (done ++ [(id, x)]) e = xslot done e := by
  unfold xslot
  rcases hne with hd | hne
  · simp [hd]
  · cases hl : done.lookup e.1 with
    | some y => rw [lookup_append_some hl]
    | none =>
      rw [lookup_append_none hl]
      have : (e.1 == id) = false := by simpa using hne
      simp [List.lookup, this]

theorem xslot_snoc_eq (done : List (Nat × Val)) (id : Nat) (x : Val) (hl : done.lookup id = none) :
    xslot (done ++ [(id, x)]) (id, false) = .tag 1 x := by
  unfold xslot
  rw [lookup_append_none hl]
  simp [List.lookup]

theorem xslot_none (done : List (Nat × Val)) (id : Nat) (d : Bool) (hl : done.lookup id = none) :
    xslot done (id, d) = .nil := by
  unfold xslot; simp [hl]

theorem lookup_snoc_none {done : List (Nat × Val)} {id k : Nat} {x : Val} (hl : done.lookup k = none) (hne : k ≠ id) :
    (done ++ [(id, x)]).lookup k = none := by
  rw [lookup_append_none hl]
  have : (k == id) = false := by simpa using hne
  simp [List.lookup, this]

/-- the reader's loop over the entries one writer definition emitted -/
theorem xEntriesF (F : Nat → Val → Val) (eR : List (Nat × Bool)) (tR : List Ty) (hlenR : eR.length = tR.length) (hdR : idsDistinct eR = true) :
    ∀ (tW : List Ty) (eW : List (Nat × Bool)) (vw : List Val) (done : List (Nat × Val)) (h : HChan) (ebs : Bytes) (h' : HChan),
      (∀ e ∈ eW, e.1 < 2 ^ 64) → idsDistinct eW = true → (∀ e ∈ eW, done.lookup e.1 = none) →
      (∀ p ∈ eW.zip tW, ∀ q ∈ eR.zip tR, p.1.1 = q.1.1 → q.1.2 = false → XR p.2 q.2 (F p.1.1)) →
      validEntries eW tW vw = true → encEntries eW tW vw h = .ok (ebs, h') →
      DecOK (itM (activeCount vw) (fun cur => decInt .u64 >>= fun id => decEntry eR tR id.toNat cur) (eR.map (xslot done)))
        (eR.map (xslot (done ++ presentF F eW vw))) ebs h'.pushed
  | [], eW, vw, done, h, ebs, h', _, _, _, _, hv, he => by
    cases eW with
    | nil =>
      cases vw with
      | nil =>
        simp only [encEntries, Except.ok.injEq, Prod.mk.injEq] at he
        obtain ⟨rfl, rfl⟩ := he
        simp only [activeCount, itM_zero, presentF, List.append_nil]
        exact DecOK.pure _
      | cons _ _ => simp [validEntries] at hv
    | cons e _ => obtain ⟨_, _⟩ := e; simp [validEntries] at hv
  | t :: tW, eW, vw, done, h, ebs, h', hlt, hdW, hdone, hx, hv, he => by
    cases eW with
    | nil => simp [validEntries] at hv
    | cons e eW =>
      obtain ⟨id, del⟩ := e
      cases vw with
      | nil => simp [validEntries] at hv
      | cons v vw =>
        rw [idsDistinct_cons] at hdW
        have hlt' : ∀ e ∈ eW, e.1 < 2 ^ 64 := fun e hem => hlt e (List.mem_cons_of_mem _ hem)
        have hx' : ∀ p ∈ eW.zip tW, ∀ q ∈ eR.zip tR, p.1.1 = q.1.1 → q.1.2 = false → XR p.2 q.2 (F p.1.1) :=
          fun p hp => hx p (by simp only [List.zip_cons_cons]; exact List.mem_cons_of_mem _ hp)
        cases v with
        | nil =>
          simp only [validEntries, Bool.true_and] at hv
          simp only [encEntries] at he
          have ih := xEntriesF F eR tR hlenR hdR tW eW vw done h ebs h' hlt' hdW.2
            (fun e hem => hdone e (List.mem_cons_of_mem _ hem)) hx' hv he
          simpa [activeCount, Val.isNil, presentF] using ih
        | tag i x =>
          have hi : i = 1 := by
            by_cases h1 : i = 1
            · exact h1
            · exfalso; revert hv; rw [validEntries]; simp
              all_goals (intros; simp_all)
          subst hi
          simp only [validEntries, Bool.and_eq_true, Bool.not_eq_true', decide_eq_true_eq] at hv
          obtain ⟨⟨⟨hdel, hvx⟩, hsz⟩, hvrest⟩ := hv
          subst hdel
          simp only [encEntries] at he
          cases ha : encode t x h with
          | error er => simp [ha] at he
          | ok r =>
            obtain ⟨vb, h1⟩ := r
            simp only [ha] at he
            by_cases hbig : size t x < vb.length
            · simp [hbig] at he
            · simp only [hbig, ↓reduceIte] at he
              cases hb : encEntries eW tW vw h1 with
              | error er => simp [hb] at he
              | ok r2 =>
                obtain ⟨rest, h2⟩ := r2
                simp only [hb, Except.ok.injEq, Prod.mk.injEq] at he
                obtain ⟨rfl, rfl⟩ := he
                have hidlt : id < 2 ^ 64 := hlt (id, false) (List.mem_cons_self ..)
                have hdid : done.lookup id = none := hdone (id, false) (List.mem_cons_self ..)
                have hdone' : ∀ e ∈ eW, (done ++ [(id, F id x)]).lookup e.1 = none := fun e hem =>
                  lookup_snoc_none (hdone e (List.mem_cons_of_mem _ hem)) (hdW.1 e hem)
                have ih := xEntriesF F eR tR hlenR hdR tW eW vw (done ++ [(id, F id x)]) h1 rest h2 hlt' hdW.2 hdone' hx' hvrest hb
                have hm := encEntries_mono eW tW vw h1 rest h2 hb
                have hfin : done ++ presentF F ((id, false) :: eW) (Val.tag 1 x :: vw) = (done ++ [(id, F id x)]) ++ presentF F eW vw := by
                  simp [presentF]
                rw [hfin]
                -- the step that reads (or skips) this entry
                have hstep : DecOK
                    (decInt .u64 >>= fun id' => decEntry eR tR id'.toNat (eR.map (xslot done)))
                    (eR.map (xslot (done ++ [(id, F id x)])))
                    (encInt .u64 id ++ (encSize (size t x) ++ (vb ++ List.replicate (size t x - vb.length) 0)))
                    h1.pushed := by
                  refine DecOK.bind (DecOK.decInt (u64_inRange hidlt)) ?_ rfl
                  simp only [Int.toNat_natCast]
                  by_cases hact : (id, false) ∈ eR
                  · obtain ⟨pe, se, hsplit⟩ := List.append_of_mem hact
                    have hlpe : pe.length < tR.length := by rw [← hlenR, hsplit]; simp
                    obtain ⟨pt, tm, st, htR, hptl⟩ := split_at tR pe.length hlpe
                    subst hsplit
                    subst htR
                    obtain ⟨_, hds, hcross⟩ := idsDistinct_append pe ((id, false) :: se) hdR
                    rw [idsDistinct_cons] at hds
                    have hpe : ∀ e ∈ pe, e.1 ≠ id := fun e he => hcross e he (id, false) (List.mem_cons_self ..)
                    have hse : ∀ e ∈ se, e.1 ≠ id := hds.1
                    have hmem : ((id, false), tm) ∈ (pe ++ (id, false) :: se).zip (pt ++ tm :: st) := by
                      rw [List.zip_append (by omega)]
                      exact List.mem_append_right _ (by simp)
                    have hxrt : XR t tm (F id) := hx ((id, false), t) (by simp) _ hmem rfl rfl
                    have hcur : (pe ++ (id, false) :: se).map (xslot done) =
                        pe.map (xslot done) ++ Val.nil :: se.map (xslot done) := by
                      rw [List.map_append, List.map_cons, xslot_none done id false hdid]
                    have hnew : (pe ++ (id, false) :: se).map (xslot (done ++ [(id, F id x)])) =
                        pe.map (xslot done) ++ Val.tag 1 (F id x) :: se.map (xslot done) := by
                      rw [List.map_append, List.map_cons, xslot_snoc_eq done id (F id x) hdid]
                      congr 1
                      · exact List.map_congr_left (fun e he => xslot_snoc_ne done id (F id x) e (Or.inr (hpe e he)))
                      · congr 1
                        exact List.map_congr_left (fun e he => xslot_snoc_ne done id (F id x) e (Or.inr (hse e he)))
                    rw [hcur, hnew]
                    exact decEntry_hit id (size t x) tm (F id x) vb pe se pt st
                      (pe.map (xslot done)) (se.map (xslot done)) (by omega) (by simp; omega) hpe hsz (by omega)
                      (hxrt x h vb h1 (dflt tm) hvx ha)
                  · have hdel : ∀ e ∈ eR, e.1 = id → e.2 = true := by
                      intro e he heq
                      obtain ⟨a, b⟩ := e
                      cases b with
                      | true => rfl
                      | false => simp only at heq; subst heq; exact absurd he hact
                    have hsame : eR.map (xslot (done ++ [(id, F id x)])) = eR.map (xslot done) := by
                      apply List.map_congr_left
                      intro e he
                      apply xslot_snoc_ne
                      by_cases h1 : e.1 = id
                      · exact Or.inl (hdel e he h1)
                      · exact Or.inr h1
                    rw [hsame]
                    exact decEntry_skip id (size t x) _ hsz (by simp; omega) eR tR _ hdel
                simp only [activeCount, Val.isNil, Bool.false_eq_true, ↓reduceIte, Nat.add_comm 1, itM_succ]
                refine DecOK.bind (hstep.weaken hm) ih ?_
                simp [List.append_assoc]
        | int _ => simp [validEntries] at hv
        | list _ => simp [validEntries] at hv

/-- the same with identical values across (`XRT`: same or fungible entry types) -/
theorem xEntries (eR : List (Nat × Bool)) (tR : List Ty) (hlenR : eR.length = tR.length) (hdR : idsDistinct eR = true)
    (tW : List Ty) (eW : List (Nat × Bool)) (vw : List Val) (done : List (Nat × Val)) (h : HChan) (ebs : Bytes) (h' : HChan)
    (hlt : ∀ e ∈ eW, e.1 < 2 ^ 64) (hdW : idsDistinct eW = true) (hdone : ∀ e ∈ eW, done.lookup e.1 = none)
    (hx : ∀ p ∈ eW.zip tW, ∀ q ∈ eR.zip tR, p.1.1 = q.1.1 → q.1.2 = false → XR p.2 q.2 id)
    (hv : validEntries eW tW vw = true) (he : encEntries eW tW vw h = .ok (ebs, h')) :
    DecOK (itM (activeCount vw) (fun cur => decInt .u64 >>= fun id => decEntry eR tR id.toNat cur) (eR.map (xslot done)))
      (eR.map (xslot (done ++ present eW vw))) ebs h'.pushed := by
  have := xEntriesF (fun _ x => x) eR tR hlenR hdR tW eW vw done h ebs h' hlt hdW hdone hx hv he
  rwa [presentF_id] at this

end Nop
