/-
  The 18 relational operators of `nop::Optional` (include/nop/types/optional.h:372-514),
  written as the code writes them: through `empty()` and `get()` and the element type's
  own `==` and `<` only. Operands: `none` = empty Optional, `some x` = Optional holding x;
  a plain value operand is an `Int`.
-/
namespace Nop.Cmp

abbrev O := Option Int

-- Optional ⋈ Optional   (branches in the code's order; `get()` is only reached when non-empty)
def ooEq : O → O → Bool
  | none, some _ => false | some _, none => false        -- a.empty() != b.empty()
  | none, none => true                                    -- a.empty()
  | some x, some y => x == y                              -- a.get() == b.get()
def ooNe (a b : O) : Bool := !(ooEq a b)
def ooLt : O → O → Bool
  | _, none => false                                      -- b.empty()
  | none, some _ => true                                  -- a.empty()
  | some x, some y => decide (x < y)                      -- a.get() < b.get()
def ooGt (a b : O) : Bool := ooLt b a
def ooLe (a b : O) : Bool := !(ooLt b a)
def ooGe (a b : O) : Bool := !(ooLt a b)

-- Optional ⋈ value: `!a.empty() ? <expr on a.get()> : <constant>`
def ovEq : O → Int → Bool | some x, b => x == b | none, _ => false
def ovNe (a : O) (b : Int) : Bool := !(ovEq a b)
def ovLt : O → Int → Bool | some x, b => decide (x < b) | none, _ => true
def ovGt : O → Int → Bool | some x, b => decide (b < x) | none, _ => false
def ovLe : O → Int → Bool | some x, b => !(decide (b < x)) | none, _ => true
def ovGe : O → Int → Bool | some x, b => !(decide (x < b)) | none, _ => false

-- value ⋈ Optional
def voEq : Int → O → Bool | a, some y => a == y | _, none => false
def voNe (a : Int) (b : O) : Bool := !(voEq a b)
def voLt : Int → O → Bool | a, some y => decide (a < y) | _, none => false
def voGt : Int → O → Bool | a, some y => decide (y < a) | _, none => true
def voLe : Int → O → Bool | a, some y => !(decide (y < a)) | _, none => false
def voGe : Int → O → Bool | a, some y => !(decide (a < y)) | _, none => true

/-- the specification: position in the total order "empty, then the values in their order" -/
def rank : O → Int × Int
  | none => (0, 0)
  | some x => (1, x)

def specLt (a b : O) : Bool :=
  match a, b with
  | none, none => false
  | none, some _ => true
  | some _, none => false
  | some x, some y => decide (x < y)

def specEq (a b : O) : Bool := decide (a = b)

/-- operator name → result, for the driver -/
def evalOp (name : String) (a b : O) : Option Bool :=
  match name, a, b with
  | "oo==", a, b => some (ooEq a b) | "oo!=", a, b => some (ooNe a b) | "oo<", a, b => some (ooLt a b)
  | "oo>", a, b => some (ooGt a b) | "oo<=", a, b => some (ooLe a b) | "oo>=", a, b => some (ooGe a b)
  | "ov==", a, some y => some (ovEq a y) | "ov!=", a, some y => some (ovNe a y) | "ov<", a, some y => some (ovLt a y)
  | "ov>", a, some y => some (ovGt a y) | "ov<=", a, some y => some (ovLe a y) | "ov>=", a, some y => some (ovGe a y)
  | "vo==", some x, b => some (voEq x b) | "vo!=", some x, b => some (voNe x b) | "vo<", some x, b => some (voLt x b)
  | "vo>", some x, b => some (voGt x b) | "vo<=", some x, b => some (voLe x b) | "vo>=", some x, b => some (voGe x b)
  | _, _, _ => none

end Nop.Cmp
