import NopModel.Lemmas.Int
/-! C01 — round trip. -/
namespace Nop

/-- Integers of every kind, written with the minimal class, read back to the same value
consuming exactly the bytes written, from any clean source with enough budget. -/
theorem C01_int_roundtrip (k : IntKind) (i : Int) (s : Src) (rest : Bytes)
    (hr : k.inRange i = true) (hc : s.fault = .none) (hb : s.bytes = encInt k i ++ rest)
    (hf : framesOk (encInt k i).length s.frames = true) :
    decInt k s = (.ok i, s.adv (encInt k i).length) :=
  decInt_encInt hr hc hb hf

example : IntKind.i16.inRange (-32768) = true := by decide

end Nop
