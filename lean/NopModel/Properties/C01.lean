import NopModel.Lemmas.RoundTrip
/-! C01 — Round trip: Read(Write(v)) = v, consuming exactly the bytes written.
Property theorems only; the induction lives in Lemmas/RoundTrip.lean. -/
namespace Nop

/-- **Round trip, every type, every value, every reader configuration.**
For every well-formed schema `t` and well-typed value `v`: if `Write` succeeds producing
`bs`, then `Read` into a destination holding *any* prior value, from *any* clean byte source
that starts with `bs` — whatever follows (`rest`), whatever the reader's end-of-data error
and `Ensure` policy (buffer / pedantic / stream / fd), inside any stack of `BoundedReader`s
whose budgets admit `bs`, with a handle table that resolves the references the writer
returned — succeeds, yields `v`, and consumes exactly `bs.length` bytes. -/
theorem C01_roundtrip (t : Ty) (hwf : t.wf = true) (v : Val) (h : HChan) (bs : Bytes) (h' : HChan)
    (prior : Val) (hv : valid t v = true) (he : encode t v h = .ok (bs, h'))
    (s : Src) (rest : Bytes) (hc : s.fault = .none) (hb : s.bytes = bs ++ rest)
    (hf : framesOk bs.length s.frames = true) (hr : Resolves s.handles h'.pushed) :
    decInto t prior s = (.ok v, s.adv bs.length) :=
  (rt t hwf).decInto prior hv he s rest hc hb hf hr

/-- Several values of one type written back to back on one stream read back in order. -/
theorem C01_stream (t : Ty) (hwf : t.wf = true) (vs : List Val) (h : HChan) (bs : Bytes) (h' : HChan)
    (hv : ∀ v ∈ vs, valid t v = true) (he : encAll (encode t) vs h = .ok (bs, h'))
    (s : Src) (rest : Bytes) (hc : s.fault = .none) (hb : s.bytes = bs ++ rest)
    (hf : framesOk bs.length s.frames = true) (hr : Resolves s.handles h'.pushed) :
    repM vs.length (dec t) s = (.ok vs, s.adv bs.length) :=
  repM_encAll (f := dec t) (fun a h b h' hab => encode_mono t a h b h' hab) vs h bs h'
    (fun a ha _ _ _ hab => (rt t hwf).decInto (dflt t) (hv a ha) hab) he s rest hc hb hf hr

/-- **The encoding is a prefix code.** If the encoding of one well-typed value is an initial
segment of the encoding of another (same type, same handle table on the reading side), the two
encodings are the same bytes and the two values are equal: no valid message is a strict prefix
of another, and no two distinct values share an encoding. -/
theorem C01_prefix_free (t : Ty) (hwf : t.wf = true) (v1 v2 : Val) (h : HChan) (bs1 rest : Bytes)
    (h1 h2 : HChan) (hv1 : valid t v1 = true) (hv2 : valid t v2 = true)
    (he1 : encode t v1 h = .ok (bs1, h1)) (he2 : encode t v2 h = .ok (bs1 ++ rest, h2))
    (tbl : List Int) (hr1 : Resolves tbl h1.pushed) (hr2 : Resolves tbl h2.pushed) :
    rest = [] ∧ v1 = v2 := by
  let s : Src := { bytes := bs1 ++ rest, handles := tbl }
  have d1 := C01_roundtrip t hwf v1 h bs1 h1 (dflt t) hv1 he1 s rest rfl rfl (by simp [s, framesOk]) hr1
  have d2 := C01_roundtrip t hwf v2 h (bs1 ++ rest) h2 (dflt t) hv2 he2 s [] rfl (by simp [s]) (by simp [s, framesOk]) hr2
  rw [d1] at d2
  have hv : v1 = v2 := by
    have := congrArg (fun r => r.1) d2
    simpa using this
  have hb : (s.adv bs1.length).bytes = (s.adv (bs1 ++ rest).length).bytes := by
    have := congrArg (fun r => r.2.bytes) d2
    simpa using this
  refine ⟨?_, hv⟩
  simpa [s, Src.adv] using hb

/-- **Injectivity** (the case `rest = []`): equal bytes, equal values. -/
theorem C01_encode_injective (t : Ty) (hwf : t.wf = true) (v1 v2 : Val) (h : HChan) (bs : Bytes)
    (h1 h2 : HChan) (hv1 : valid t v1 = true) (hv2 : valid t v2 = true)
    (he1 : encode t v1 h = .ok (bs, h1)) (he2 : encode t v2 h = .ok (bs, h2))
    (tbl : List Int) (hr1 : Resolves tbl h1.pushed) (hr2 : Resolves tbl h2.pushed) :
    v1 = v2 :=
  (C01_prefix_free t hwf v1 v2 h bs [] h1 h2 hv1 hv2 he1 (by simpa using he2) tbl hr1 hr2).2

/-- Integers of every kind (the base case, stated on its own). -/
theorem C01_int_roundtrip (k : IntKind) (i : Int) (s : Src) (rest : Bytes)
    (hr : k.inRange i = true) (hc : s.fault = .none) (hb : s.bytes = encInt k i ++ rest)
    (hf : framesOk (encInt k i).length s.frames = true) :
    decInt k s = (.ok i, s.adv (encInt k i).length) :=
  decInt_encInt hr hc hb hf

/-- Logical buffers whose size member exceeds the capacity are refused by `Write`. -/
theorem C01_lbuf_over_capacity (cap : Nat) (sk : IntKind) (e : Ty) (vs : List Val) (h : HChan)
    (hover : cap < vs.length) :
    encode (.seq (.lbuf cap sk false) e) (.list vs) h = .error .invalidContainerLength := by
  simp [encode, lbufOver, hover]

/-- K1 (known finding, machine-checked): without the `wf` side condition the format is
ambiguous — an engaged outer `Optional` holding an empty inner one and an empty outer
`Optional` have the same encoding. -/
theorem C01_nested_optional_not_injective :
    encode (.opt (.opt (.int .i32 .plain))) (.tag 1 .nil) {} =
      encode (.opt (.opt (.int .i32 .plain))) .nil {} := by
  simp [encode]

/-! non-vacuity: a nested table value meets every hypothesis -/
example :
    let t : Ty := .table 7 [(1, false), (5, true), (9, false)]
      [.seq .vector (.int .u16 .plain), .int .u8 .plain, .opt (.str 0 1)]
    let v : Val := .list [.tag 1 (.list [.int 1, .int 300]), .nil, .tag 1 (.tag 1 (.list [.int 104]))]
    t.wf = true ∧ valid t v = true ∧ ∃ bs h', encode t v {} = .ok (bs, h') := by
  refine ⟨by decide, by decide, _, _, rfl⟩

/-- non-vacuity of `C01_prefix_free` / `C01_encode_injective` -/
example :
    let t : Ty := .seq .vector (.int .u16 .plain)
    let v : Val := .list [.int 1, .int 300]
    t.wf = true ∧ valid t v = true ∧ ∃ bs h', encode t v {} = .ok (bs, h') ∧ Resolves [] h'.pushed := by
  refine ⟨by decide, by decide, _, _, rfl, ?_⟩
  intro p hp; simp at hp

end Nop
