import NopModel.Lemmas.ConsumeDec
import NopModel.Lemmas.LangSound
import NopModel.Lemmas.LangBound
/-! C02 — hostile input on bounded readers. **Partial**: the theorems cover the logic that
makes the code safe (forward-only consumption inside the source, capacity checks before any
element store, `Ensure` before any length-driven allocation, totality); actual memory
errors and undefined behaviour in the C++ are only observed, by sanitizers, on the inputs
the correspondence check runs. -/
namespace Nop

/-- **No out-of-bounds reads.** For every type, destination contents, byte string and reader
configuration (including fault scripts): whatever `Read` returns, the bytes that remain are a
suffix of the bytes supplied — the reader never moves backwards or past the end, and (by
construction of `rRead`) every byte delivered is a byte of the source. -/
theorem C02_forward_only (t : Ty) (prior : Val) (s : Src) :
    (decInto t prior s).2.bytes <:+ s.bytes :=
  fwd_decInto t prior s _ _ rfl

/-- **Termination**: `Read` is a total function of (type, destination, source) — the model is
defined by structural recursion on the schema and on the element counts it reads, with no
fuel and no `partial`; Lean's acceptance of the definition is the termination proof. -/
theorem C02_total (t : Ty) (prior : Val) (s : Src) : ∃ r s', decInto t prior s = (r, s') :=
  ⟨_, _, rfl⟩

theorem rawElems_length (f : Bytes → Val) (w : Nat) : ∀ n bs, (rawElems f w n bs).length = n
  | 0, _ => rfl
  | n + 1, bs => by simp [rawElems, rawElems_length f w n]

theorem repP_length {α} (d : α) (f : α → M α) : ∀ (n : Nat) (pr : List α) (s : Src) (l : List α) (s' : Src),
    repP n pr d f s = (.ok l, s') → l.length = n
  | 0, pr, s, l, s', h => by
    simp only [repP, Prod.mk.injEq, Except.ok.injEq] at h; rw [← h.1]; rfl
  | n + 1, pr, s, l, s', h => by
    simp only [repP] at h
    split at h
    · rename_i a s1 _
      split at h
      · rename_i as s2 hr
        simp only [Prod.mk.injEq, Except.ok.injEq] at h
        rw [← h.1]; simp [repP_length d f n _ _ _ _ hr]
      · simp at h
    · simp at h

/-- unfolding helper: a successful bind -/
theorem bind_ok_inv {α β} {m : M α} {f : α → M β} {s s' : Src} {b : β}
    (h : (m >>= f) s = (.ok b, s')) : ∃ a s1, m s = (.ok a, s1) ∧ f a s1 = (.ok b, s') := by
  rw [bind_run] at h
  cases hm : m s with
  | mk r s1 =>
    cases r with
    | error e => simp [hm] at h
    | ok a => exact ⟨a, s1, rfl, by simpa [hm] using h⟩

/-- **No writes outside the destination (fixed arrays).** A successful read into
`std::array<T,n>` / `T[n]` stores exactly `n` elements: the length check precedes the first
element store. -/
theorem C02_array_exact (n : Nat) (e : Ty) (p : UInt8) (prior : Val) (s : Src) (vs : List Val) (s' : Src)
    (h : decPayload (.seq (.array n) e) p prior s = (.ok (.list vs), s')) : vs.length = n := by
  simp only [decPayload] at h
  by_cases hint : e.integral = true
  · simp only [hint, ↓reduceIte, decBin] at h
    obtain ⟨sz, s1, _, h⟩ := bind_ok_inv h
    by_cases hc : (sz != n * e.width) = true
    · simp [hc] at h
    · simp only [hc, Bool.false_eq_true, ↓reduceIte] at h
      obtain ⟨bs, s2, _, h⟩ := bind_ok_inv h
      simp only [pure_run, Prod.mk.injEq, Except.ok.injEq, Val.list.injEq] at h
      rw [← h.1]; exact rawElems_length _ _ _ _
  · simp only [hint, Bool.false_eq_true, ↓reduceIte] at h
    obtain ⟨sz, s1, _, h⟩ := bind_ok_inv h
    by_cases hc : (sz != n) = true
    · simp [hc] at h
    · simp only [hc, Bool.false_eq_true, ↓reduceIte] at h
      obtain ⟨l, s2, hr, h⟩ := bind_ok_inv h
      simp only [pure_run, Prod.mk.injEq, Except.ok.injEq, Val.list.injEq] at h
      rw [← h.1]; exact repP_length _ _ _ _ _ _ _ hr

/-- **No writes outside the destination (bounded logical buffers).** A successful read into
an (array, size) pair of capacity `cap` stores at most `cap` elements. -/
theorem C02_lbuf_within_capacity (cap : Nat) (sk : IntKind) (e : Ty) (p : UInt8) (prior : Val) (s : Src)
    (vs : List Val) (s' : Src)
    (h : decPayload (.seq (.lbuf cap sk false) e) p prior s = (.ok (.list vs), s')) : vs.length ≤ cap := by
  have hw : 0 < e.width := by
    cases e <;> simp [Ty.width]
    rename_i k _; cases k <;> simp [IntKind.bytes]
  simp only [decPayload] at h
  by_cases hint : e.integral = true
  · simp only [hint, ↓reduceIte, decBin] at h
    obtain ⟨sz, s1, _, h⟩ := bind_ok_inv h
    simp only [Bool.not_false, Bool.true_and] at h
    by_cases hc : (decide (sz > cap * e.width) || sz % e.width != 0) = true
    · simp [hc] at h
    · simp only [hc, Bool.false_eq_true, ↓reduceIte] at h
      by_cases hc2 : sk.maxVal < ((sz / e.width : Nat) : Int)
      · rw [if_pos hc2] at h; simp at h
      · rw [if_neg hc2] at h
        obtain ⟨bs, s2, _, h⟩ := bind_ok_inv h
        simp only [pure_run, Prod.mk.injEq, Except.ok.injEq, Val.list.injEq] at h
        rw [← h.1, rawElems_length]
        simp only [Bool.or_eq_true, decide_eq_true_eq, not_or, Nat.not_lt] at hc
        have h1 : sz ≤ cap * e.width := hc.1
        exact (Nat.div_le_iff_le_mul_add_pred hw).2 (by
          have : cap * e.width = e.width * cap := Nat.mul_comm _ _
          omega)
  · simp only [hint, Bool.false_eq_true, ↓reduceIte] at h
    obtain ⟨sz, s1, _, h⟩ := bind_ok_inv h
    simp only [Bool.not_false, Bool.true_and] at h
    by_cases hc : (decide (sz > cap) || decide (sk.maxVal < (sz : Int))) = true
    · simp [hc] at h
    · simp only [hc, Bool.false_eq_true, ↓reduceIte] at h
      obtain ⟨l, s2, hr, h⟩ := bind_ok_inv h
      simp only [pure_run, Prod.mk.injEq, Except.ok.injEq, Val.list.injEq] at h
      rw [← h.1, repP_length _ _ _ _ _ _ _ hr]
      simp only [Bool.or_eq_true, decide_eq_true_eq, not_or, Nat.not_lt] at hc
      exact hc.1

/-- **`Ensure` guards length-driven allocation.** On a bounded (checking) reader, when the
announced size exceeds the bytes that remain, `Ensure` fails with ReadLimitReached and the
continuation — `resize(length)` followed by the block read in vector.h / string.h — never
runs. -/
theorem C02_ensure_blocks {α} (k : Unit → M α) (s : Src) (n : Nat) (hc : s.fault = .none)
    (hchk : s.ensureChecks = true) (heof : s.eof = .readLimitReached) (hn : s.bytes.length < n) :
    (rEnsure n >>= k) s = (.error .readLimitReached, s) := by
  rw [bind_run]
  unfold rEnsure
  by_cases hf : framesOk n s.frames = true
  · simp [hf, pre_clean hc, hchk, hn, heof]
  · simp [hf]

/-- **What a successful read builds is bounded by what it consumed.** For every type there is a
constant (`Ty.allocK`: nesting depth of sum types, number of table slots) such that, whatever
the bytes, the destination's prior contents and the reader configuration, a successful `Read`
that consumed `n` bytes returns a value of at most `allocK t * n` nodes (scalars, elements,
containers, table slots): no length field, count, id or index in the input can make the
decoder build more than a constant multiple of the bytes it was actually given. -/
theorem C02_allocation_bounded (t : Ty) (prior : Val) (s : Src) (v : Val) (s' : Src) (hc : s.fault = .none)
    (h : decInto t prior s = (.ok v, s')) :
    v.nodes ≤ t.allocK * (s.bytes.length - s'.bytes.length) := by
  have hs : Snd (decInto t prior) (fun hs v bs => Lang hs t v bs) := by
    unfold decInto
    exact Snd.mono (Snd.withPrefix (fun p => snd_decPayload t p prior)) (fun _ _ _ h => h)
  obtain ⟨bs, rest, hb, hs', _, hl⟩ := hs s v s' hc h
  have hlen : s.bytes.length - s'.bytes.length = bs.length := by
    have h1 : s'.bytes.length = s.bytes.length - bs.length := by rw [hs']; simp
    have h2 : s.bytes.length = bs.length + rest.length := by rw [hb]; simp
    omega
  rw [hlen]
  exact (bnd_LPre_of (bnd_LangP s.handles t) v bs hl).1

/-- non-vacuity: an inflated length (2^64-1) in front of 2 bytes is refused with
ReadLimitReached by a buffer reader -/
example : decInto (.seq .vector (.int .u8 .plain)) (.list [])
    ({ bytes := [0xbc, 0x83, 0xff, 0xff, 0xff, 0xff, 0xff, 0xff, 0xff, 0xff, 1, 2] } : Src) =
    (.error .readLimitReached, { bytes := [1, 2] }) := by rfl

end Nop
