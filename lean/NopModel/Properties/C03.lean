import NopModel.Lemmas.RoundTrip
import NopModel.Lemmas.Minimal
import NopModel.Lemmas.LangSound
import NopModel.Lemmas.LangMinimal
/-! C03 — the encoder emits exactly the documented wire format, minimal integer classes.
The model encoder is the schema-directed reference the implementation is compared with byte
for byte on every run; these theorems state what that reference guarantees. -/
namespace Nop

/-- **Minimal integer class.** Among *all* byte strings the decoder of kind `k` accepts
(prefix `p` of a class of the right signedness no wider than `k`, payload `pl` of that
class's width), none is shorter than what the encoder emits for the value they denote.
Values, lengths, counts, ids, hashes, indices and handle references all go through `encInt`. -/
theorem C03_int_minimal (k : IntKind) (p : UInt8) (pl : Bytes)
    (hl : pl.length = intPayloadLen k p) (hm : intMatch k p = true) :
    (encInt k (intOfPayload k p pl)).length ≤ 1 + pl.length := by
  unfold encInt
  cases hs : k.signed
  · simpa [hs] using encInt_minimal_unsigned k hs p pl hl hm
  · simpa [hs] using encInt_minimal_signed k hs p pl hl hm

/-- what the encoder emits is in the decoder's language and starts with a prefix that the
documented `Match` of the type admits -/
theorem C03_prefix_conforms (t : Ty) (hwf : t.wf = true) (v : Val) (h : HChan) (bs : Bytes) (h' : HChan)
    (hv : valid t v = true) (he : encode t v h = .ok (bs, h')) :
    ∃ p pl, bs = p :: pl ∧ matchP t p = true := by
  obtain ⟨p, pl, h1, h2, _⟩ := rt t hwf v h bs h' (dflt t) hv he
  exact ⟨p, pl, h1, h2⟩

/-! Documented layouts, stated outright (each is the definition of the reference encoder
specialised to one container kind). -/

/-- strings: STR, byte length (not character count), raw little-endian code units -/
theorem C03_layout_string (n cb : Nat) (vs : List Val) (h : HChan) :
    encode (.str n cb) (.list vs) h = .ok (0xbd :: encSize (vs.length * cb) ++ vs.flatMap (unitToRaw cb), h) := rfl

/-- integral elements: BIN, byte length, raw little-endian elements -/
theorem C03_layout_binary (e : Ty) (he : e.integral = true) (vs : List Val) (h : HChan) :
    encode (.seq .vector e) (.list vs) h =
      .ok (0xbc :: encSize (vs.length * e.width) ++ vs.flatMap (valToRaw e), h) := by
  simp [encode, lbufOver, he]

/-- optional: NIL when empty, otherwise the value's own encoding -/
theorem C03_layout_optional (t : Ty) (v : Val) (h : HChan) :
    encode (.opt t) .nil h = .ok ([0xbe], h) ∧ encode (.opt t) (.tag 1 v) h = encode t v h := ⟨rfl, rfl⟩

/-- result: ERR followed by the error code, or the value's own encoding -/
theorem C03_layout_result (en : Nat) (ek : IntKind) (t : Ty) (e : Int) (h : HChan) :
    encode (.result en ek t) (.tag 0 (.int e)) h = .ok (0xb6 :: encInt ek e, h) := rfl

/-- empty variant: VAR, index -1, NIL -/
theorem C03_layout_empty_variant (ts : List Ty) (h : HChan) :
    encode (.variant ts) (.tag (-1) .nil) h = .ok ([0xb8, 0xff, 0xbe], h) := by
  simp [encode, encInt, encSigned, IntKind.signed, toU]

/-- handle: HND, type tag, then exactly the reference the writer returned -/
theorem C03_layout_handle (pol ht : Nat) (tk : IntKind) (hv r : Int) (rest : List (Except Err Int))
    (pushed : List (Int × Int)) (hr : IntKind.i64.inRange r = true) :
    encode (.handle pol ht tk) (.int hv) { refs := .ok r :: rest, pushed } =
      .ok (0xb7 :: encInt tk ht ++ encInt .i64 r, { refs := rest, pushed := pushed ++ [(hv, r)] }) := by
  simp [encode, hr]

/-- tables omit empty (and deleted) entries entirely -/
theorem C03_layout_empty_entry (eid : Nat) (d : Bool) (es : List (Nat × Bool)) (t : Ty) (ts : List Ty)
    (vs : List Val) (h : HChan) :
    encEntries ((eid, d) :: es) (t :: ts) (.nil :: vs) h = encEntries es ts vs h := rfl

/-- writing the same object twice produces the same bytes: `Write` is a function of the type,
the value and the references the writer hands back -/
theorem C03_deterministic (t : Ty) (v : Val) (h1 h2 : HChan) (heq : h1 = h2) :
    encode t v h1 = encode t v h2 := by rw [heq]

/-- **The encoder's output is in the documented language.** For every well-formed schema and
well-typed value, what `Write` emits is a well-formed encoding of the type under docs/format.md
(the grammar `Lang` of NopModel/Lang.lean) and denotes exactly the value written - for any
handle table that resolves the references the writer handed back. -/
theorem C03_in_documented_language (t : Ty) (hwf : t.wf = true) (v : Val) (h : HChan) (bs : Bytes) (h' : HChan)
    (hv : valid t v = true) (he : encode t v h = .ok (bs, h')) (hs : List Int) (hr : Resolves hs h'.pushed) :
    Lang hs t v bs := by
  let s : Src := { bytes := bs, handles := hs }
  have hd : decInto t (dflt t) s = (.ok v, s.adv bs.length) :=
    (rt t hwf).decInto (dflt t) hv he s [] rfl (by simp [s]) rfl hr
  have hsnd : Snd (decInto t (dflt t)) (fun hs v bs => Lang hs t v bs) := by
    unfold decInto
    exact Snd.mono (Snd.withPrefix (fun p => snd_decPayload t p (dflt t))) (fun _ _ _ h => h)
  obtain ⟨b1, rest, hb, hs', _, hl⟩ := hsnd s v _ rfl hd
  have hlen : b1.length = bs.length := by
    have h1 : (s.adv bs.length).bytes.length = (s.adv b1.length).bytes.length := by rw [← hs']
    simp only [adv_bytes, List.length_drop] at h1
    have h2 : b1.length ≤ s.bytes.length := by rw [hb]; simp
    have h3 : s.bytes.length = bs.length := rfl
    omega
  have hrest : rest = [] := by
    have h3 : s.bytes = bs := rfl
    rw [h3] at hb
    have : bs.length = b1.length + rest.length := by rw [hb]; simp
    exact List.eq_nil_of_length_eq_zero (by omega)
  subst hrest
  have h3 : s.bytes = bs := rfl
  rw [h3, List.append_nil] at hb
  rw [hb]; exact hl

/-- **The encoder's output is a shortest encoding.** For a handle-free type, no word of the
documented language that denotes the same value - whichever integer classes it uses for values,
lengths, counts, ids, hashes and indices, however it pads, orders or duplicates table and map
entries - is shorter than what `Write` emits: minimal integer classes everywhere, no padding, no
superfluous entries. (Handles are excluded because `Size` reserves nine bytes for a reference
that may encode in fewer, and table entries are padded to `Size`.) -/
theorem C03_shortest_encoding (t : Ty) (hf : t.handleFree = true) (v : Val) (h : HChan) (bs : Bytes) (h' : HChan)
    (hv : valid t v = true) (he : encode t v h = .ok (bs, h')) (hs : List Int) (bs' : Bytes)
    (hl : Lang hs t v bs') : bs.length ≤ bs'.length := by
  rw [encode_length_eq t hf v h bs h' hv he]
  exact min_LPre_of (min_LangP hs t hf) v bs' hl

example : encInt .i32 (-65) = [0x84, 0xbf] ∧ encInt .u64 65536 = [0x82, 0, 0, 1, 0] := by decide

end Nop
