import NopModel.Lemmas.RoundTrip
import NopModel.Lemmas.ExtDec
import NopModel.Lemmas.LangSound
import NopModel.Lemmas.LangComplete
/-! C04 — the decoder accepts exactly the documented language and reports the right error.
The documented language is the grammar `Lang` of NopModel/Lang.lean (written from
docs/format.md, independently of the decoder's control flow). `C04_sound` and `C04_complete`
prove the two inclusions for every type of the grammar, every destination content, every
reader configuration; `C04_accepts_iff` is the "exactly when" of the property on a plain
buffer; `C04_unambiguous` says an input has at most one reading. The error category is proved
for each kind of single defect at the position where it occurs. -/
namespace Nop

/-- **Integer classes**: `Match` agrees with the documented rule (`specIntAccept`, Lang.lean) on
every prefix byte. -/
theorem C04_int_classes (k : IntKind) (p : UInt8) : intMatch k p = specIntAccept k p.toNat :=
  Snd.intMatch_spec k p

/-- **Any admissible class is accepted** and denotes `intOfPayload`: non-minimal encodings of
integer fields are read, consuming exactly prefix + payload. -/
theorem C04_int_any_class (k : IntKind) (p : UInt8) (pl rest : Bytes) (s : Src)
    (hc : s.fault = .none) (hb : s.bytes = p :: (pl ++ rest)) (hl : pl.length = intPayloadLen k p)
    (hm : intMatch k p = true) (hf : framesOk (1 + pl.length) s.frames = true) :
    decInt k s = (.ok (intOfPayload k p pl), s.adv (1 + pl.length)) :=
  decInt_prefix hc hb hl hm hf

/-- **Wrong or reserved prefix** → UnexpectedEncodingType, for every type. -/
theorem C04_wrong_prefix (t : Ty) (prior : Val) (s : Src) (p : UInt8) (rest : Bytes)
    (hc : s.fault = .none) (hb : s.bytes = p :: rest) (hf : framesOk 1 s.frames = true)
    (hm : matchP t p = false) :
    (decInto t prior s).1 = .error .unexpectedEncodingType := by
  unfold decInto withPrefix
  rw [rByte_ok hc hb hf]
  simp [hm]

/-- **Too-wide class** for an integer destination → UnexpectedEncodingType (instance of the above). -/
theorem C04_too_wide_class : (decInto (.int .u16 .plain) (.int 0) ({ bytes := [0x82, 1, 0, 0, 0] } : Src)).1 =
    .error .unexpectedEncodingType := by rfl

/-- **Wrong fixed length** of an array → InvalidContainerLength. -/
theorem C04_array_length (n : Nat) (e : Ty) (he : e.integral = false) (prior : Val) (s : Src) (m : Nat)
    (s1 : Src) (hsz : decSize s = (.ok m, s1)) (hne : m ≠ n) :
    (decPayload (.seq (.array n) e) 0xba prior s).1 = .error .invalidContainerLength := by
  simp only [decPayload, he, Bool.false_eq_true, ↓reduceIte]
  rw [bind_ok hsz]
  have : (m != n) = true := by simpa using hne
  simp [this]

/-- **Wrong member count** of a structure → InvalidMemberCount; of a tuple/pair → InvalidContainerLength. -/
theorem C04_member_count (k : PKind) (ts : List Ty) (prior : Val) (s : Src) (m : Nat) (s1 : Src)
    (hsz : decSize s = (.ok m, s1)) (hne : m ≠ ts.length) :
    (decPayload (.prod k ts) (if k == .struct then 0xb9 else 0xba) prior s).1 =
      .error (if k == .struct then .invalidMemberCount else .invalidContainerLength) := by
  simp only [decPayload]
  rw [bind_ok hsz]
  have : (m != ts.length) = true := by simpa using hne
  simp [this]

/-- **String byte length not a multiple of the character size** → InvalidStringLength. -/
theorem C04_string_length (nom cb : Nat) (prior : Val) (s : Src) (m : Nat) (s1 : Src)
    (hsz : decSize s = (.ok m, s1)) (hne : m % cb ≠ 0) :
    (decPayload (.str nom cb) 0xbd prior s).1 = .error .invalidStringLength := by
  simp only [decPayload]
  rw [bind_ok hsz]
  have : (m % cb != 0) = true := by simpa using hne
  simp [this]

/-- **BIN byte length not a multiple of the element size** → InvalidContainerLength. -/
theorem C04_binary_length (e : Ty) (he : e.integral = true) (prior : Val) (s : Src) (m : Nat) (s1 : Src)
    (hsz : decSize s = (.ok m, s1)) (hne : m % e.width ≠ 0) :
    (decPayload (.seq .vector e) 0xbc prior s).1 = .error .invalidContainerLength := by
  simp only [decPayload, he, ↓reduceIte, decBin]
  rw [bind_ok hsz]
  have : (m % e.width != 0) = true := by simpa using hne
  simp [this]

/-- **Logical-buffer length above capacity** → InvalidContainerLength. -/
theorem C04_lbuf_over_capacity (cap : Nat) (sk : IntKind) (e : Ty) (he : e.integral = false) (prior : Val)
    (s : Src) (m : Nat) (s1 : Src) (hsz : decSize s = (.ok m, s1)) (hgt : cap < m) :
    (decPayload (.seq (.lbuf cap sk false) e) 0xba prior s).1 = .error .invalidContainerLength := by
  simp only [decPayload, he, Bool.false_eq_true, ↓reduceIte]
  rw [bind_ok hsz]
  simp [hgt]

/-- **Out-of-range variant index** → UnexpectedVariantType. -/
theorem C04_variant_index (ts : List Ty) (prior : Val) (s : Src) (i : Int) (s1 : Src)
    (hi : decInt .i32 s = (.ok i, s1)) (hbad : i < -1 ∨ (ts.length : Int) ≤ i) :
    (decPayload (.variant ts) 0xb8 prior s).1 = .error .unexpectedVariantType := by
  simp only [decPayload]
  rw [bind_ok hi]
  have : (decide (i < -1) || decide ((ts.length : Int) ≤ i)) = true := by
    rcases hbad with h | h <;> simp [h]
  simp [this]

/-- **Mismatched handle type** → UnexpectedHandleType. -/
theorem C04_handle_type (pol ht : Nat) (tk : IntKind) (prior : Val) (s : Src) (x : Int) (s1 : Src)
    (hx : decInt tk s = (.ok x, s1)) (hne : x ≠ (ht : Int)) :
    (decPayload (.handle pol ht tk) 0xb7 prior s).1 = .error .unexpectedHandleType := by
  simp only [decPayload]
  rw [bind_ok hx]
  have : (x != (ht : Int)) = true := by simpa using hne
  simp [this]

/-- **Budget exceeded** inside a table entry → ReadLimitReached, without touching the wrapped reader. -/
theorem C04_read_limit (s : Src) (n b : Nat) (fs : List Nat) (hfr : s.frames = b :: fs) (hlt : b < n) :
    rRead n s = (.error .readLimitReached, s) := by
  unfold rRead
  have : framesOk n s.frames = false := by
    rw [hfr]; simp [framesOk]; intro h; omega
  simp [this]

/-- errors inside a value propagate outward unchanged (context lemma): a failing first step
is the result of the whole -/
theorem C04_error_propagates {α β} (m : M α) (f : α → M β) (s s' : Src) (e : Err)
    (h : m s = (.error e, s')) : (m >>= f) s = (.error e, s') := bind_err h

/-- **Soundness: the decoder accepts only the documented language.** Whatever the type, the
destination's prior contents and the reader configuration (end-of-data policy, Ensure policy,
BoundedReader budgets, handle table): if `Read` succeeds from a healthy source, the bytes it
consumed form a well-formed encoding of the type under docs/format.md (`Lang`), the value
returned is the value those bytes denote, the source is left exactly after that encoding, and
every enclosing budget admitted it. -/
theorem C04_sound (t : Ty) (prior : Val) (s : Src) (v : Val) (s' : Src) (hc : s.fault = .none)
    (h : decInto t prior s = (.ok v, s')) :
    ∃ bs rest, s.bytes = bs ++ rest ∧ s' = s.adv bs.length ∧ framesOk bs.length s.frames = true ∧
      Lang s.handles t v bs := by
  have hs : Snd (decInto t prior) (fun hs v bs => Lang hs t v bs) := by
    unfold decInto
    exact Snd.mono (Snd.withPrefix (fun p => snd_decPayload t p prior)) (fun _ _ _ h => h)
  exact hs s v s' hc h

/-- **Completeness: every well-formed encoding is accepted.** If `bs` is in the documented
language of `t` and denotes `v`, then on any healthy source that starts with `bs` - followed by
anything, under any budgets that admit `bs`, into a destination holding anything - `Read`
succeeds, yields `v` and consumes exactly `bs`. -/
theorem C04_complete (hs : List Int) (t : Ty) (v : Val) (bs : Bytes) (h : Lang hs t v bs) (prior : Val)
    (s : Src) (rest : Bytes) (hc : s.fault = .none) (hb : s.bytes = bs ++ rest)
    (hf : framesOk bs.length s.frames = true) (hh : s.handles = hs) :
    decInto t prior s = (.ok v, s.adv bs.length) := by
  have hd : DecOK (decInto t prior) v bs (psOf hs) := by
    unfold decInto
    exact cmp_elem (fun q pl hq => cmp_decPayload hs t q prior v pl hq) h
  exact hd s rest hc hb hf (by rw [hh]; exact resolves_psOf hs)

/-- **Exactly when.** On a healthy plain reader (no enclosing budget): `Read` succeeds with
value `v` having consumed `n` bytes if and only if the first `n` bytes of the input are a
well-formed encoding of the type denoting `v`. -/
theorem C04_accepts_iff (t : Ty) (prior : Val) (s : Src) (hc : s.fault = .none) (hfr : s.frames = [])
    (v : Val) (n : Nat) (hn : n ≤ s.bytes.length) :
    decInto t prior s = (.ok v, s.adv n) ↔ Lang s.handles t v (s.bytes.take n) := by
  constructor
  · intro h
    obtain ⟨bs, rest, hb, hs', _, hl⟩ := C04_sound t prior s v (s.adv n) hc h
    have hlen : bs.length = n := by
      have h1 : (s.adv n).bytes.length = (s.adv bs.length).bytes.length := by rw [← hs']
      simp only [adv_bytes, List.length_drop] at h1
      have h2 : bs.length ≤ s.bytes.length := by rw [hb]; simp
      omega
    have : s.bytes.take n = bs := by rw [hb, ← hlen]; simp
    rw [this]; exact hl
  · intro h
    have := C04_complete s.handles t v (s.bytes.take n) h prior s (s.bytes.drop n) hc
      (List.take_append_drop n s.bytes).symm (by rw [hfr]; rfl) rfl
    rw [this]
    congr 2
    simp; omega

/-- **An input has at most one reading**: two well-formed encodings of the same type that are
both prefixes of one byte string are the same encoding and denote the same value. -/
theorem C04_unambiguous (hs : List Int) (t : Ty) (v v' : Val) (bs bs' r r' : Bytes)
    (h : Lang hs t v bs) (h' : Lang hs t v' bs') (he : bs ++ r = bs' ++ r') : v = v' ∧ bs = bs' := by
  let s : Src := { bytes := bs ++ r, handles := hs }
  have h1 := C04_complete hs t v bs h (dflt t) s r rfl rfl rfl rfl
  have h2 := C04_complete hs t v' bs' h' (dflt t) s r' rfl he rfl rfl
  rw [h1] at h2
  simp only [Prod.mk.injEq, Except.ok.injEq] at h2
  obtain ⟨hv, hs2⟩ := h2
  refine ⟨hv, ?_⟩
  have hl : (s.adv bs.length).bytes.length = (s.adv bs'.length).bytes.length := by rw [hs2]
  simp only [adv_bytes, List.length_drop] at hl
  have hlen : bs.length = bs'.length := by
    have e1 : s.bytes.length = bs.length + r.length := by simp [s]
    have e2 : s.bytes.length = bs'.length + r'.length := by simp [s, he]
    omega
  exact List.append_inj_left he hlen

/-- non-vacuity of the grammar: a non-minimal size class (U16 for the count 2) inside a vector
of optional strings is in the language, and the decoder reads it -/
example : decInto (.seq .vector (.opt (.str 0 1))) (.list [])
    ({ bytes := [0xba, 0x81, 2, 0, 0xbe, 0xbd, 1, 104, 7] } : Src) =
    (.ok (.list [.nil, .tag 1 (.list [.int 104])]), { bytes := [7] }) := by rfl

/-- non-vacuity -/
example : specIntAccept .i16 0x85 = true ∧ specIntAccept .i16 0x86 = false ∧ specIntAccept .u32 0xc5 = false := by
  decide

end Nop
