import NopModel.Lemmas.RoundTrip
import NopModel.Lemmas.ExtDec
/-! C04 — the decoder accepts exactly the documented language and reports the right error.
**Partial**: the integer-class language is decided completely (all 256 prefixes × 8 kinds),
completeness on everything the encoder emits is C01, acceptance of every admissible
(non-minimal) integer class is proved for integer fields, and the error category is proved
for each kind of single defect at the position where it occurs; the full two-way
equivalence with an independent grammar for composite types rests on the correspondence. -/
namespace Nop

/-- the documented rule: an integer of kind `k` accepts a fixint (negative fixints only for
signed kinds) or an explicit class of the *same signedness* that is *no wider* than `k` -/
def specIntAccept (k : IntKind) (n : Nat) : Bool :=
  if n < 0x80 then true
  else if 0xc0 ≤ n then k.signed
  else if 0x80 ≤ n && n ≤ 0x83 then !k.signed && 2 ^ (n - 0x80) ≤ k.bytes
  else if 0x84 ≤ n && n ≤ 0x87 then k.signed && 2 ^ (n - 0x84) ≤ k.bytes
  else false

/-- **Integer classes**: `Match` agrees with the documented rule on every prefix byte. -/
theorem C04_int_classes (k : IntKind) (p : UInt8) : intMatch k p = specIntAccept k p.toNat := by
  have tbl : (IntKind.all.all fun k => (List.range 256).all fun n =>
      intMatch k (UInt8.ofNat n) == specIntAccept k n) = true := by decide +kernel
  have hk : k ∈ IntKind.all := by cases k <;> simp [IntKind.all]
  have h1 := List.all_eq_true.1 tbl k hk
  have h2 := List.all_eq_true.1 h1 p.toNat (List.mem_range.2 (UInt8.toNat_lt p))
  have hp : UInt8.ofNat p.toNat = p := UInt8.toNat_inj.1 (by simp [UInt8.toNat_ofNat'])
  rw [hp] at h2
  exact beq_iff_eq.1 h2

/-- **Any admissible class is accepted** and denotes `intOfPayload`: non-minimal encodings of
integer fields are read, consuming exactly prefix + payload. -/
theorem C04_int_any_class (k : IntKind) (p : UInt8) (pl rest : Bytes) (s : Src)
    (hc : s.fault = .none) (hb : s.bytes = p :: (pl ++ rest)) (hl : pl.length = intPayloadLen k p)
    (hm : intMatch k p = true) (hf : framesOk (1 + pl.length) s.frames = true) :
    decInt k s = (.ok (intOfPayload k p pl), s.adv (1 + pl.length)) :=
  decInt_prefix hc hb hl hm hf

/-- **Wrong or reserved prefix** → UnexpectedEncodingType, for every type. -/
theorem C04_wrong_prefix (t : Ty) (prior : Val) (s : Src) (p : UInt8) (rest : Bytes)
    (hc : s.fault = .none) (hb : s.bytes = p :: rest) (hf : framesOk 1 s.frames = true)
    (hm : matchP t p = false) :
    (decInto t prior s).1 = .error .unexpectedEncodingType := by
  unfold decInto withPrefix
  rw [rByte_ok hc hb hf]
  simp [hm]

/-- **Too-wide class** for an integer destination → UnexpectedEncodingType (instance of the above). -/
theorem C04_too_wide_class : (decInto (.int .u16 .plain) (.int 0) ({ bytes := [0x82, 1, 0, 0, 0] } : Src)).1 =
    .error .unexpectedEncodingType := by rfl

/-- **Wrong fixed length** of an array → InvalidContainerLength. -/
theorem C04_array_length (n : Nat) (e : Ty) (he : e.integral = false) (prior : Val) (s : Src) (m : Nat)
    (s1 : Src) (hsz : decSize s = (.ok m, s1)) (hne : m ≠ n) :
    (decPayload (.seq (.array n) e) 0xba prior s).1 = .error .invalidContainerLength := by
  simp only [decPayload, he, Bool.false_eq_true, ↓reduceIte]
  rw [bind_ok hsz]
  have : (m != n) = true := by simpa using hne
  simp [this]

/-- **Wrong member count** of a structure → InvalidMemberCount; of a tuple/pair → InvalidContainerLength. -/
theorem C04_member_count (k : PKind) (ts : List Ty) (prior : Val) (s : Src) (m : Nat) (s1 : Src)
    (hsz : decSize s = (.ok m, s1)) (hne : m ≠ ts.length) :
    (decPayload (.prod k ts) (if k == .struct then 0xb9 else 0xba) prior s).1 =
      .error (if k == .struct then .invalidMemberCount else .invalidContainerLength) := by
  simp only [decPayload]
  rw [bind_ok hsz]
  have : (m != ts.length) = true := by simpa using hne
  simp [this]

/-- **String byte length not a multiple of the character size** → InvalidStringLength. -/
theorem C04_string_length (nom cb : Nat) (prior : Val) (s : Src) (m : Nat) (s1 : Src)
    (hsz : decSize s = (.ok m, s1)) (hne : m % cb ≠ 0) :
    (decPayload (.str nom cb) 0xbd prior s).1 = .error .invalidStringLength := by
  simp only [decPayload]
  rw [bind_ok hsz]
  have : (m % cb != 0) = true := by simpa using hne
  simp [this]

/-- **BIN byte length not a multiple of the element size** → InvalidContainerLength. -/
theorem C04_binary_length (e : Ty) (he : e.integral = true) (prior : Val) (s : Src) (m : Nat) (s1 : Src)
    (hsz : decSize s = (.ok m, s1)) (hne : m % e.width ≠ 0) :
    (decPayload (.seq .vector e) 0xbc prior s).1 = .error .invalidContainerLength := by
  simp only [decPayload, he, ↓reduceIte, decBin]
  rw [bind_ok hsz]
  have : (m % e.width != 0) = true := by simpa using hne
  simp [this]

/-- **Logical-buffer length above capacity** → InvalidContainerLength. -/
theorem C04_lbuf_over_capacity (cap : Nat) (sk : IntKind) (e : Ty) (he : e.integral = false) (prior : Val)
    (s : Src) (m : Nat) (s1 : Src) (hsz : decSize s = (.ok m, s1)) (hgt : cap < m) :
    (decPayload (.seq (.lbuf cap sk false) e) 0xba prior s).1 = .error .invalidContainerLength := by
  simp only [decPayload, he, Bool.false_eq_true, ↓reduceIte]
  rw [bind_ok hsz]
  simp [hgt]

/-- **Out-of-range variant index** → UnexpectedVariantType. -/
theorem C04_variant_index (ts : List Ty) (prior : Val) (s : Src) (i : Int) (s1 : Src)
    (hi : decInt .i32 s = (.ok i, s1)) (hbad : i < -1 ∨ (ts.length : Int) ≤ i) :
    (decPayload (.variant ts) 0xb8 prior s).1 = .error .unexpectedVariantType := by
  simp only [decPayload]
  rw [bind_ok hi]
  have : (decide (i < -1) || decide ((ts.length : Int) ≤ i)) = true := by
    rcases hbad with h | h <;> simp [h]
  simp [this]

/-- **Mismatched handle type** → UnexpectedHandleType. -/
theorem C04_handle_type (pol ht : Nat) (tk : IntKind) (prior : Val) (s : Src) (x : Int) (s1 : Src)
    (hx : decInt tk s = (.ok x, s1)) (hne : x ≠ (ht : Int)) :
    (decPayload (.handle pol ht tk) 0xb7 prior s).1 = .error .unexpectedHandleType := by
  simp only [decPayload]
  rw [bind_ok hx]
  have : (x != (ht : Int)) = true := by simpa using hne
  simp [this]

/-- **Budget exceeded** inside a table entry → ReadLimitReached, without touching the wrapped reader. -/
theorem C04_read_limit (s : Src) (n b : Nat) (fs : List Nat) (hfr : s.frames = b :: fs) (hlt : b < n) :
    rRead n s = (.error .readLimitReached, s) := by
  unfold rRead
  have : framesOk n s.frames = false := by
    rw [hfr]; simp [framesOk]; intro h; omega
  simp [this]

/-- errors inside a value propagate outward unchanged (context lemma): a failing first step
is the result of the whole -/
theorem C04_error_propagates {α β} (m : M α) (f : α → M β) (s s' : Src) (e : Err)
    (h : m s = (.error e, s')) : (m >>= f) s = (.error e, s') := bind_err h

/-- non-vacuity -/
example : specIntAccept .i16 0x85 = true ∧ specIntAccept .i16 0x86 = false ∧ specIntAccept .u32 0xc5 = false := by
  decide

end Nop
