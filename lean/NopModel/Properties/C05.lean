import NopModel.Lemmas.ExtDec
import NopModel.Lemmas.RoundTrip
/-! C05 — a truncated message is never reported as successfully decoded. -/
namespace Nop

/-- the same source with only its first `k` bytes available -/
def Src.cut (s : Src) (k : Nat) : Src := { s with bytes := s.bytes.take k }

/-- **Truncation.** If reading type `t` from a clean source succeeds and consumes *all* of its
bytes, then reading from any strict prefix of those bytes fails — for every reader
configuration (end-of-data error, `Ensure` policy, enclosing `BoundedReader` budgets), every
destination contents, and for the *reader's* type `t` (so cuts inside padding or inside
entries that `t` skips are covered). -/
theorem C05_truncation (t : Ty) (prior : Val) (s : Src) (v : Val) (s' : Src)
    (hc : s.fault = .none) (hd : decInto t prior s = (.ok v, s')) (hall : s'.bytes = [])
    (k : Nat) (hk : k < s.bytes.length) :
    ∃ e s2, decInto t prior (s.cut k) = (.error e, s2) := by
  cases hcut : decInto t prior (s.cut k) with
  | mk r s2 =>
    cases r with
    | error e => exact ⟨e, s2, rfl⟩
    | ok v2 =>
      exfalso
      have hx := (ext_decInto t prior (s.cut k) v2 s2 (s.bytes.drop k) hc hcut).1
      have hs : (s.cut k).ext (s.bytes.drop k) = s := by
        cases s; simp [Src.cut, Src.ext]
      rw [hs, hd] at hx
      have hb : s'.bytes = s2.bytes ++ s.bytes.drop k := by
        have := congrArg (fun r => r.2.bytes) hx
        simpa using this
      rw [hall] at hb
      have hd0 : s.bytes.drop k = [] := (List.append_eq_nil_iff.1 hb.symm).2
      have := congrArg List.length hd0
      simp at this
      omega

/-- The truncation argument for any reader computation that is stable under appended data. -/
theorem trunc_of_ext {α} (m : M α) (hm : Ext m) (s : Src) (a : α) (s' : Src)
    (hc : s.fault = .none) (hd : m s = (.ok a, s')) (hall : s'.bytes = [])
    (k : Nat) (hk : k < s.bytes.length) :
    ∃ e s2, m (s.cut k) = (.error e, s2) := by
  cases hcut : m (s.cut k) with
  | mk r s2 =>
    cases r with
    | error e => exact ⟨e, s2, rfl⟩
    | ok v2 =>
      exfalso
      have hx := (hm (s.cut k) v2 s2 (s.bytes.drop k) hc hcut).1
      have hs : (s.cut k).ext (s.bytes.drop k) = s := by
        cases s; simp [Src.cut, Src.ext]
      rw [hs, hd] at hx
      have hb : s'.bytes = s2.bytes ++ s.bytes.drop k := by
        have := congrArg (fun r => r.2.bytes) hx
        simpa using this
      rw [hall] at hb
      have hd0 : s.bytes.drop k = [] := (List.append_eq_nil_iff.1 hb.symm).2
      have := congrArg List.length hd0
      simp at this
      omega

/-- **Truncation of a stream of messages.** If reading `n` values of type `t` back to back
succeeds and consumes all of the bytes, then reading `n` values from any strict prefix fails:
a cut anywhere in a sequence of messages — inside any one of them or exactly between two — is
never reported as `n` successfully decoded messages. -/
theorem C05_truncation_stream (t : Ty) (n : Nat) (s : Src) (vs : List Val) (s' : Src)
    (hc : s.fault = .none) (hd : repM n (dec t) s = (.ok vs, s')) (hall : s'.bytes = [])
    (k : Nat) (hk : k < s.bytes.length) :
    ∃ e s2, repM n (dec t) (s.cut k) = (.error e, s2) :=
  trunc_of_ext _ (Ext.repM (ext_decInto t (dflt t)) n) s vs s' hc hd hall k hk

/-- Corollary with C01: every strict prefix of the encoding of a value is rejected. -/
theorem C05_valid_prefix_rejected (t : Ty) (hwf : t.wf = true) (v : Val) (h : HChan) (bs : Bytes)
    (h' : HChan) (prior : Val) (hv : valid t v = true) (he : encode t v h = .ok (bs, h'))
    (s : Src) (hc : s.fault = .none) (hb : s.bytes = bs)
    (hf : framesOk bs.length s.frames = true) (hr : Resolves s.handles h'.pushed)
    (k : Nat) (hk : k < bs.length) :
    ∃ e s2, decInto t prior (s.cut k) = (.error e, s2) := by
  have hd := (rt t hwf).decInto prior hv he s [] hc (by simpa using hb) hf hr
  refine C05_truncation t prior s v _ hc hd ?_ k (by rw [hb]; exact hk)
  simp [hb]

/-- Corollary with `C01_stream`: every strict prefix of `n` valid messages written back to
back is rejected when read as `n` messages. -/
theorem C05_valid_stream_prefix_rejected (t : Ty) (hwf : t.wf = true) (vs : List Val) (h : HChan)
    (bs : Bytes) (h' : HChan) (hv : ∀ v ∈ vs, valid t v = true)
    (he : encAll (encode t) vs h = .ok (bs, h'))
    (s : Src) (hc : s.fault = .none) (hb : s.bytes = bs)
    (hf : framesOk bs.length s.frames = true) (hr : Resolves s.handles h'.pushed)
    (k : Nat) (hk : k < bs.length) :
    ∃ e s2, repM vs.length (dec t) (s.cut k) = (.error e, s2) := by
  have hd := repM_encAll (f := dec t) (fun a h b h' hab => encode_mono t a h b h' hab) vs h bs h'
    (fun a ha _ _ _ hab => (rt t hwf).decInto (dflt t) (hv a ha) hab) he s [] hc (by simpa using hb) hf hr
  refine C05_truncation_stream t vs.length s vs _ hc hd ?_ k (by rw [hb]; exact hk)
  simp [hb]

/-- non-vacuity of the stream theorem: two messages, six bytes, all consumed -/
example : repM 2 (dec (.int .u16 .plain)) ({ bytes := [0x81, 0x34, 0x12, 0x81, 0x01, 0x00] } : Src) =
    (.ok [.int 0x1234, .int 1], { bytes := [] }) := by rfl

/-- non-vacuity: a 3-byte message whose 2-byte prefix is rejected -/
example : decInto (.int .u16 .plain) (.int 0) ({ bytes := [0x81, 0x34, 0x12] } : Src) =
    (.ok (.int 0x1234), { bytes := [] }) := by rfl

end Nop
