import NopModel.Lemmas.Size
import NopModel.Lemmas.SizeExact
import NopModel.Lemmas.EncWBound
/-! C06 — GetSize never under-estimates; buffer writes never exceed capacity. -/
namespace Nop

/-- For every type term, value and handle-channel state: if `Write` succeeds, the bytes
it emitted are at most `Size(value)`. -/
theorem C06_size_upper (t : Ty) (v : Val) (h : HChan) (bs : Bytes) (h' : HChan)
    (he : encode t v h = .ok (bs, h')) : bs.length ≤ size t v :=
  encode_length_le t v h bs h' he

/-- ... and exactly `Size(value)` for every type that contains no handles. -/
theorem C06_size_exact (t : Ty) (hf : t.handleFree = true) (v : Val) (h : HChan) (bs : Bytes) (h' : HChan)
    (hv : valid t v = true) (he : encode t v h = .ok (bs, h')) : bs.length = size t v :=
  encode_length_eq t hf v h bs h' hv he

/-- Inside a table the declared size of each entry equals the bytes that follow it (value
plus padding): the encoded entry list is exactly as long as `Size` computes it — with or
without handles inside the entries. -/
theorem C06_entry_frame (ents : List (Nat × Bool)) (ts : List Ty) (vs : List Val) (h : HChan)
    (bs : Bytes) (h' : HChan) (he : encEntries ents ts vs h = .ok (bs, h')) :
    bs.length = sizeEntries ents ts vs :=
  encEntries_length_eq ents ts vs h bs h' he

/-- `Serializer::Write` on a buffer writer with `room` bytes left: `Prepare(Size(v))`, then
the encoding. -/
def serializerWrite (room : Nat) (t : Ty) (v : Val) (h : HChan) : Except Err (Bytes × HChan) :=
  if room < size t v then .error .writeLimitReached else encode t v h

/-- With at least `GetSize(v)` bytes of room `Write` behaves as the plain encoder (it never
fails for lack of space) and everything it writes fits in the room. -/
theorem C06_buffer_write_fits (room : Nat) (t : Ty) (v : Val) (h : HChan) (hroom : size t v ≤ room) :
    serializerWrite room t v h = encode t v h ∧
    ∀ bs h', encode t v h = .ok (bs, h') → bs.length ≤ room := by
  refine ⟨by simp [serializerWrite]; omega, ?_⟩
  intro bs h' he
  exact Nat.le_trans (encode_length_le t v h bs h' he) hroom

/-- With less room `Write` returns WriteLimitReached and writes nothing. -/
theorem C06_buffer_write_refused (room : Nat) (t : Ty) (v : Val) (h : HChan) (hroom : room < size t v) :
    serializerWrite room t v h = .error .writeLimitReached := by
  simp [serializerWrite, hroom]

/-- **On every path the writer is handed at most `Size(value)` bytes.** Whatever the type and the
value (well-typed or not), whatever the writer's state (armed fault script, budgets of enclosing
BoundedWriters, capacity, handle answers), success or failure: the calls `Encoding<T>::Write`
issues append at most `size t v` bytes and never remove any. -/
theorem C06_write_bounded_on_every_path (t : Ty) (v : Val) (s : Snk) (r : Except Err Unit) (s' : Snk)
    (h : encW t v s = (r, s')) :
    s.out.length ≤ s'.out.length ∧ s'.out.length ≤ s.out.length + size t v := by
  obtain ⟨h1, h2, _⟩ := bnd_encW t v s r s' h
  exact ⟨h1, h2⟩

/-- **An unchecked `BufferWriter` is never written past its end.** `BufferWriter::Write` and
`Skip` do not look at the capacity (`checked := false`); only `Prepare` does. Because
`Serializer::Write` calls `Prepare(Size(value))` first and no path emits more than that, the
bytes accepted never exceed the capacity `c` - for every type, every value, every outcome
(including a handle writer failing half-way and values the encoder refuses). -/
theorem C06_unchecked_writer_within_capacity (t : Ty) (v : Val) (s : Snk) (c : Nat)
    (hcap : s.cap = some c) (hle : s.out.length ≤ c) (r : Except Err Unit) (s' : Snk)
    (h : serialize t v s = (r, s')) : s'.out.length ≤ c := by
  unfold serialize at h
  rw [bindW_run] at h
  obtain ⟨p1, p2, p3, p4, _⟩ := preW_same s
  unfold wPrepare at h
  by_cases hf : framesOk (size t v) s.frames = true
  · simp only [hf, Bool.not_true, Bool.false_eq_true, ↓reduceIte] at h
    cases hp : s.pre with
    | mk e s1 =>
      rw [hp] at h p1 p3
      simp only at p1 p3
      cases e with
      | some e =>
        simp only [Prod.mk.injEq] at h
        obtain ⟨_, rfl⟩ := h
        rw [p1]; exact hle
      | none =>
        simp only at h
        by_cases hr : s1.room (size t v) = true
        · simp only [hr, ↓reduceIte] at h
          obtain ⟨_, h2, _⟩ := bnd_encW t v s1 r s' h
          have : s1.out.length + size t v ≤ c := by
            unfold Snk.room at hr
            rw [p3, hcap] at hr
            simpa using hr
          omega
        · simp only [hr, Bool.false_eq_true, ↓reduceIte, Prod.mk.injEq] at h
          obtain ⟨_, rfl⟩ := h
          rw [p1]; exact hle
  · simp only [hf, Bool.not_false, ↓reduceIte, Prod.mk.injEq] at h
    obtain ⟨_, rfl⟩ := h
    exact hle

/-- non-vacuity: an unchecked 9-byte buffer, a value of size 9 (string entry in a table): all 9
bytes land inside; with 8 bytes `Prepare` refuses and nothing is written -/
example : (serialize (.table 5 [(1, false)] [.str 0 1]) (.list [.tag 1 (.list [.int 104, .int 105])])
    ({ cap := some 9, checked := false } : Snk)).2.out = [0xb5, 5, 1, 1, 4, 0xbd, 2, 104, 105] ∧
    (serialize (.table 5 [(1, false)] [.str 0 1]) (.list [.tag 1 (.list [.int 104, .int 105])])
    ({ cap := some 8, checked := false } : Snk)) = (.error .writeLimitReached, { cap := some 8, checked := false }) := by
  constructor <;> rfl

/-- non-vacuity: a concrete nested value is encodable and the bound is attained -/
example : ∃ bs h', encode (.seq .vector (.prod .struct [.int .i16 .plain, .opt (.float false)]))
    (.list [.list [.int (-200), .tag 1 (.int 1065353216)], .list [.int 5, .nil]]) {} = .ok (bs, h')
    ∧ bs.length = 16 := by
  refine ⟨_, _, rfl, ?_⟩
  decide

/-- a handle's `Size` over-estimates by design: 9 bytes are reserved for the reference -/
example : ∃ bs h', encode (.handle 0 0 .u64) (.int 5) { refs := [.ok 3] } = .ok (bs, h') ∧
    bs.length = 3 ∧ size (.handle 0 0 .u64) (.int 5) = 11 := ⟨_, _, rfl, by decide, by decide⟩

end Nop
