import NopModel.Lemmas.Size
/-! C06 — GetSize never under-estimates. Property theorems only; lemmas live in Lemmas/. -/
namespace Nop

/-- For every type term, value and handle-channel state: if `Write` succeeds, the bytes
it emitted are at most `Size(value)`. -/
theorem C06_size_upper (t : Ty) (v : Val) (h : HChan) (bs : Bytes) (h' : HChan)
    (he : encode t v h = .ok (bs, h')) : bs.length ≤ size t v :=
  encode_length_le t v h bs h' he

/-- non-vacuity: a concrete nested value is encodable and the bound is attained -/
example : ∃ bs h', encode (.seq .vector (.prod .struct [.int .i16 .plain, .opt (.float false)]))
    (.list [.list [.int (-200), .tag 1 (.int 1065353216)], .list [.int 5, .nil]]) {} = .ok (bs, h')
    ∧ bs.length = 16 := by
  refine ⟨_, _, rfl, ?_⟩
  decide

end Nop
