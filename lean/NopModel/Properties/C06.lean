import NopModel.Lemmas.Size
import NopModel.Lemmas.SizeExact
/-! C06 — GetSize never under-estimates; buffer writes never exceed capacity. -/
namespace Nop

/-- For every type term, value and handle-channel state: if `Write` succeeds, the bytes
it emitted are at most `Size(value)`. -/
theorem C06_size_upper (t : Ty) (v : Val) (h : HChan) (bs : Bytes) (h' : HChan)
    (he : encode t v h = .ok (bs, h')) : bs.length ≤ size t v :=
  encode_length_le t v h bs h' he

/-- ... and exactly `Size(value)` for every type that contains no handles. -/
theorem C06_size_exact (t : Ty) (hf : t.handleFree = true) (v : Val) (h : HChan) (bs : Bytes) (h' : HChan)
    (hv : valid t v = true) (he : encode t v h = .ok (bs, h')) : bs.length = size t v :=
  encode_length_eq t hf v h bs h' hv he

/-- Inside a table the declared size of each entry equals the bytes that follow it (value
plus padding): the encoded entry list is exactly as long as `Size` computes it — with or
without handles inside the entries. -/
theorem C06_entry_frame (ents : List (Nat × Bool)) (ts : List Ty) (vs : List Val) (h : HChan)
    (bs : Bytes) (h' : HChan) (he : encEntries ents ts vs h = .ok (bs, h')) :
    bs.length = sizeEntries ents ts vs :=
  encEntries_length_eq ents ts vs h bs h' he

/-- `Serializer::Write` on a buffer writer with `room` bytes left: `Prepare(Size(v))`, then
the encoding. -/
def serializerWrite (room : Nat) (t : Ty) (v : Val) (h : HChan) : Except Err (Bytes × HChan) :=
  if room < size t v then .error .writeLimitReached else encode t v h

/-- With at least `GetSize(v)` bytes of room `Write` behaves as the plain encoder (it never
fails for lack of space) and everything it writes fits in the room. -/
theorem C06_buffer_write_fits (room : Nat) (t : Ty) (v : Val) (h : HChan) (hroom : size t v ≤ room) :
    serializerWrite room t v h = encode t v h ∧
    ∀ bs h', encode t v h = .ok (bs, h') → bs.length ≤ room := by
  refine ⟨by simp [serializerWrite]; omega, ?_⟩
  intro bs h' he
  exact Nat.le_trans (encode_length_le t v h bs h' he) hroom

/-- With less room `Write` returns WriteLimitReached and writes nothing. -/
theorem C06_buffer_write_refused (room : Nat) (t : Ty) (v : Val) (h : HChan) (hroom : room < size t v) :
    serializerWrite room t v h = .error .writeLimitReached := by
  simp [serializerWrite, hroom]

/-- non-vacuity: a concrete nested value is encodable and the bound is attained -/
example : ∃ bs h', encode (.seq .vector (.prod .struct [.int .i16 .plain, .opt (.float false)]))
    (.list [.list [.int (-200), .tag 1 (.int 1065353216)], .list [.int 5, .nil]]) {} = .ok (bs, h')
    ∧ bs.length = 16 := by
  refine ⟨_, _, rfl, ?_⟩
  decide

/-- a handle's `Size` over-estimates by design: 9 bytes are reserved for the reference -/
example : ∃ bs h', encode (.handle 0 0 .u64) (.int 5) { refs := [.ok 3] } = .ok (bs, h') ∧
    bs.length = 3 ∧ size (.handle 0 0 .u64) (.int 5) = 11 := ⟨_, _, rfl, by decide, by decide⟩

end Nop
