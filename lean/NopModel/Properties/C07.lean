import NopModel.Lemmas.XVer
import NopModel.Lemmas.LangSound
/-! C07 — Tables stay readable across definition versions in both directions. -/
namespace Nop

theorem map_xslot_nil : ∀ (eR : List (Nat × Bool)), eR.map (xslot []) = List.replicate eR.length Val.nil
  | [] => rfl
  | e :: eR => by simp [List.replicate_succ, map_xslot_nil eR, xslot]

theorem wfL_mem : ∀ (ts : List Ty) (t : Ty), wfL ts = true → t ∈ ts → t.wf = true
  | [], _, _, hm => by cases hm
  | t' :: ts, t, hl, hm => by
    simp only [wfL, Bool.and_eq_true] at hl
    rcases List.mem_cons.1 hm with rfl | hm
    · exact hl.1
    · exact wfL_mem ts t hl.2 hm

theorem xslot_cons_ne (done : List (Nat × Val)) (id eid : Nat) (y : Val) (d : Bool) (hne : id ≠ eid) :
    xslot ((eid, y) :: done) (id, d) = xslot done (id, d) := by
  have hk : (id == eid) = false := by simpa using hne
  unfold xslot
  simp only [List.lookup_cons, hk]

/-- **Cross-version read**, in relational form. Writer definition `(eW, tW)` and reader
definition `(eR, tR)` of the same table (same hash): any two well-formed entry lists - any
subsets of a pool of ids, in any orders, with any entries marked deleted on either side - such
that an id active in both has entry types related by `XR ... (F id)`: what the writer's type
wrote, the reader's type reads as `F id` of the value (`F id = id` for the same or a fungible
type; for an entry that is itself a table whose definition changed, `F id` is that table's own
cross-version projection - this theorem again). Then whatever the writer wrote (`vw`: each entry
empty or holding a value) is read successfully by the reader from any clean source, followed by
any further data, inside any admissible stack of bounded readers, into a destination holding
anything: the reader ends **exactly after the table** and holds, for each of its entries,
`xslot`: the (projected) value if the id is active in both and the writer's entry was
non-empty, otherwise empty. -/
theorem C07_cross_version_xr (F : Nat → Val → Val) (hash : Nat) (eW eR : List (Nat × Bool)) (tW tR : List Ty)
    (hwfW : (Ty.table hash eW tW).wf = true) (hwfR : (Ty.table hash eR tR).wf = true)
    (hx : ∀ p ∈ eW.zip tW, ∀ q ∈ eR.zip tR, p.1.1 = q.1.1 → q.1.2 = false → XR p.2 q.2 (F p.1.1)) :
    XR (.table hash eW tW) (.table hash eR tR) (fun v => .list (eR.map (xslot (presentF F eW v.elems)))) := by
  intro v h bs h' prior hv he
  simp only [Ty.wf, Bool.and_eq_true, decide_eq_true_eq, beq_iff_eq, List.all_eq_true] at hwfW hwfR
  obtain ⟨⟨⟨⟨⟨_, hhW⟩, _⟩, hdW⟩, hltW⟩, _⟩ := hwfW
  obtain ⟨⟨⟨⟨⟨_, _⟩, hlR⟩, hdR⟩, _⟩, hnR⟩ := hwfR
  cases v with
  | list vw =>
    simp only [valid] at hv
    simp only [encode] at he
    cases hp : encEntries eW tW vw h with
    | error er => simp [hp] at he
    | ok r =>
      obtain ⟨ebs, h2⟩ := r
      simp only [hp, Except.ok.injEq, Prod.mk.injEq] at he
      obtain ⟨rfl, rfl⟩ := he
      have hlen := validEntries_length eW tW vw hv
      have hac : activeCount vw < 2 ^ 64 := by
        have := activeCount_le vw
        have : tW.length < 2 ^ 64 := by assumption
        omega
      refine DecOK.withPrefix (p := 0xb5) (by simp [matchP]) ?_
      simp only [decPayload]
      refine DecOK.bind (b2 := encSize (activeCount vw) ++ ebs) (DecOK.decInt (u64_inRange hhW)) ?_
        (by simp [List.append_assoc])
      simp only [bne_self_eq_false, Bool.false_eq_true, ↓reduceIte]
      refine DecOK.bind (DecOK.decSize hac) ?_ rfl
      refine DecOK.map (g := Val.list) ?_
      have := xEntriesF F eR tR hlR hdR tW eW vw [] h ebs h2 (fun e he => by simpa using hltW e he) hdW
        (fun _ _ => rfl) hx hv hp
      have hinit : eR.map (xslot []) = List.replicate tR.length Val.nil := by
        rw [← hlR]; exact map_xslot_nil eR
      rw [hinit] at this
      simpa [Val.elems] using this
  | _ => simp [valid] at hv

/-- **Cross-version read** with the values carried across unchanged (every id active in both has
the same or a fungible entry type: `XR ... id`). -/
theorem C07_cross_version (hash : Nat) (eW eR : List (Nat × Bool)) (tW tR : List Ty)
    (hwfW : (Ty.table hash eW tW).wf = true) (hwfR : (Ty.table hash eR tR).wf = true)
    (hx : ∀ p ∈ eW.zip tW, ∀ q ∈ eR.zip tR, p.1.1 = q.1.1 → q.1.2 = false → XR p.2 q.2 id)
    (vw : List Val) (h : HChan) (bs : Bytes) (h' : HChan) (prior : Val)
    (hv : valid (.table hash eW tW) (.list vw) = true) (he : encode (.table hash eW tW) (.list vw) h = .ok (bs, h'))
    (s : Src) (rest : Bytes) (hc : s.fault = .none) (hb : s.bytes = bs ++ rest)
    (hf : framesOk bs.length s.frames = true) (hr : Resolves s.handles h'.pushed) :
    decInto (.table hash eR tR) prior s = (.ok (.list (eR.map (xslot (present eW vw)))), s.adv bs.length) := by
  have := C07_cross_version_xr (fun _ x => x) hash eW eR tW tR hwfW hwfR hx (.list vw) h bs h' prior hv he s rest hc hb hf hr
  simpa [presentF_id, Val.elems] using this

/-! ### Version pairs nested inside other values -/

/-- ... in a **structure / tuple**, followed (and preceded) by further members -/
theorem C07_nested_in_structure (k : PKind) (abfs : List (Ty × Ty × (Val → Val))) (hx : ∀ x ∈ abfs, XR x.1 x.2.1 x.2.2)
    (hlen : abfs.length < 2 ^ 64) :
    XR (.prod k (abfs.map (·.1))) (.prod k (abfs.map (·.2.1))) (fun v => .list (applyAll (abfs.map (·.2.2)) v.elems)) :=
  XR.prod k abfs hx hlen

/-- ... in a **vector** -/
theorem C07_nested_in_vector (a b : Ty) (g : Val → Val) (hab : XR a b g) (ha : a.integral = false) (hb : b.integral = false) :
    XR (.seq .vector a) (.seq .vector b) (fun v => .list (v.elems.map g)) :=
  XR.vector hab ha hb

/-- ... in an **Optional** -/
theorem C07_nested_in_optional (a b : Ty) (g : Val → Val) (hab : XR a b g) (hnil : matchP b 0xbe = false) :
    XR (.opt a) (.opt b) (optMap g) :=
  XR.opt hab hnil

/-- ... in a **std::array / C array** -/
theorem C07_nested_in_array (a b : Ty) (g : Val → Val) (fa fb : Flavor) (n : Nat)
    (hfa : fa = .array n ∨ fa = .carray n) (hfb : fb = .array n ∨ fb = .carray n)
    (hab : XR a b g) (ha : a.integral = false) (hb : b.integral = false) :
    XR (.seq fa a) (.seq fb b) (fun v => .list (v.elems.map g)) :=
  XR.array fa fb n hfa hfb hab ha hb

/-- ... as the mapped value of a **map / unordered_map** -/
theorem C07_nested_in_map (k a b : Ty) (g : Val → Val) (o o' : Bool) (hk : XR k k id) (hab : XR a b g) :
    XR (.map o k a) (.map o' k b) (fun v => .list (v.elems.map (kvMap g))) :=
  XR.map o o' hk hab

/-- ... in a **Variant** alternative -/
theorem C07_nested_in_variant (abfs : List (Ty × Ty × (Val → Val))) (hx : ∀ x ∈ abfs, XR x.1 x.2.1 x.2.2)
    (hlen : abfs.length ≤ 2 ^ 31) :
    XR (.variant (abfs.map (·.1))) (.variant (abfs.map (·.2.1))) (varMap (abfs.map (·.2.2))) :=
  XR.variant abfs hx hlen

/-- ... in a **Result** value -/
theorem C07_nested_in_result (a b : Ty) (g : Val → Val) (en : Nat) (ek : IntKind) (hab : XR a b g)
    (herr : matchP b 0xb6 = false) : XR (.result en ek a) (.result en ek b) (resMap g) :=
  XR.result en ek hab herr

/-- ... behind a **value wrapper** on either side -/
theorem C07_nested_in_wrapper (a b : Ty) (g : Val → Val) (hab : XR a b g) :
    XR (.wrap a) (.wrap b) g := XR.wrap_l (XR.wrap_r hab)

/-- ... in **another table's entry**: `C07_cross_version_xr` itself, with `F id` the inner pair's
projection. Worked instance (hypotheses discharged): an outer table whose entry 1 holds a table
that gained entry 7 and lost entry 1, next to an unchanged entry 2; the outer reader also lists
its entries in the other order. -/
example :
    let u8 := Ty.int .u8 .plain
    let Wi := Ty.table 200 [(1, false), (2, false)] [u8, u8]
    let Ri := Ty.table 200 [(2, false), (7, false)] [u8, u8]
    let G : Val → Val := fun v => .list ([(2, false), (7, false)].map (xslot (presentF (fun _ x => x) [(1, false), (2, false)] v.elems)))
    let F : Nat → Val → Val := fun id => if id = 1 then G else fun x => x
    XR (.table 300 [(1, false), (2, false)] [Wi, u8]) (.table 300 [(2, false), (1, false)] [u8, Ri])
      (fun v => .list ([(2, false), (1, false)].map (xslot (presentF F [(1, false), (2, false)] v.elems)))) := by
  intro u8 Wi Ri G F
  have hin : XR Wi Ri G := by
    refine C07_cross_version_xr (fun _ x => x) 200 _ _ _ _ (by decide) (by decide) ?_
    intro p hp q hq hid hact
    simp only [List.zip_cons_cons, List.zip_nil_right, List.mem_cons, List.not_mem_nil, or_false] at hp hq
    rcases hp with rfl | rfl <;> rcases hq with rfl | rfl <;> simp at hid
    exact XR.refl _ (by decide)
  refine C07_cross_version_xr F 300 _ _ _ _ (by decide) (by decide) ?_
  intro p hp q hq hid hact
  simp only [List.zip_cons_cons, List.zip_nil_right, List.mem_cons, List.not_mem_nil, or_false] at hp hq
  rcases hp with rfl | rfl <;> rcases hq with rfl | rfl <;> simp at hid
  · exact hin
  · exact XR.refl _ (by decide)


/-- both definitions are the same apart from adding, removing, deleting and reordering entries:
every id active in both has the same (well-formed) entry type — no further hypothesis needed -/
theorem C07_same_types (hash : Nat) (eW eR : List (Nat × Bool)) (tW tR : List Ty)
    (hwfW : (Ty.table hash eW tW).wf = true) (hwfR : (Ty.table hash eR tR).wf = true)
    (hsame : ∀ p ∈ eW.zip tW, ∀ q ∈ eR.zip tR, p.1.1 = q.1.1 → q.1.2 = false → p.2 = q.2)
    (vw : List Val) (h : HChan) (bs : Bytes) (h' : HChan) (prior : Val)
    (hv : valid (.table hash eW tW) (.list vw) = true) (he : encode (.table hash eW tW) (.list vw) h = .ok (bs, h'))
    (s : Src) (rest : Bytes) (hc : s.fault = .none) (hb : s.bytes = bs ++ rest)
    (hf : framesOk bs.length s.frames = true) (hr : Resolves s.handles h'.pushed) :
    decInto (.table hash eR tR) prior s = (.ok (.list (eR.map (xslot (present eW vw)))), s.adv bs.length) := by
  refine C07_cross_version hash eW eR tW tR hwfW hwfR ?_ vw h bs h' prior hv he s rest hc hb hf hr
  intro p hp q hq hid hact
  rw [hsame p hp q hq hid hact]
  have hwq : q.2.wf = true := by
    simp only [Ty.wf, Bool.and_eq_true] at hwfR
    exact wfL_mem tR q.2 hwfR.1.1.1.1.1 (List.of_mem_zip hq).2
  exact XR.refl q.2 hwq

/-- entries the reader has marked deleted read as nothing -/
theorem C07_deleted_skipped (done : List (Nat × Val)) (id : Nat) : xslot done (id, true) = .nil := rfl

/-- **every entry active in both carries its value across unchanged** -/
theorem C07_value_carried : ∀ (eW : List (Nat × Bool)) (vw : List Val) (id : Nat) (d : Bool) (x : Val),
    idsDistinct eW = true → ((id, d), Val.tag 1 x) ∈ eW.zip vw →
    xslot (present eW vw) (id, false) = .tag 1 x
  | [], _, _, _, _, _, hm => by simp at hm
  | _ :: _, [], _, _, _, _, hm => by simp at hm
  | (eid, ed) :: eW, v :: vw, id, d, x, hd, hm => by
    rw [idsDistinct_cons] at hd
    simp only [List.zip_cons_cons, List.mem_cons, Prod.mk.injEq] at hm
    rcases hm with ⟨⟨rfl, rfl⟩, rfl⟩ | hm
    · simp [present, xslot, List.lookup_cons]
    · have hne : id ≠ eid := fun heq => hd.1 _ (List.of_mem_zip hm).1 heq
      have ih := C07_value_carried eW vw id d x hd.2 hm
      cases v with
      | tag i y => simp only [present]; rw [xslot_cons_ne _ _ _ _ _ hne]; exact ih
      | nil => simpa only [present] using ih
      | int _ => simpa only [present] using ih
      | list _ => simpa only [present] using ih

/-- **entries the writer lacked or left empty read as empty** -/
theorem C07_absent_empty : ∀ (eW : List (Nat × Bool)) (vw : List Val) (id : Nat) (d : Bool),
    (∀ p ∈ eW.zip vw, p.1.1 = id → p.2 = Val.nil) → xslot (present eW vw) (id, d) = .nil
  | [], _, _, d, _ => by cases d <;> simp [present, xslot]
  | _ :: _, [], _, d, _ => by cases d <;> simp [present, xslot]
  | (eid, ed) :: eW, v :: vw, id, d, hm => by
    have ih := C07_absent_empty eW vw id d (fun p hp => hm p (by simp only [List.zip_cons_cons]; exact List.mem_cons_of_mem _ hp))
    cases d with
    | true => rfl
    | false =>
      by_cases hid : eid = id
      · have := hm ((eid, ed), v) (by simp) hid
        simp only at this; subst this
        simpa [present] using ih
      · have hne : id ≠ eid := fun h => hid h.symm
        cases v with
        | tag i y => simp only [present]; rw [xslot_cons_ne _ _ _ _ _ hne]; exact ih
        | nil => simpa only [present] using ih
        | int _ => simpa only [present] using ih
        | list _ => simpa only [present] using ih

/-- non-vacuity: writer {1:u8, 2:str(deleted), 3:u8, 5:u8} in that order, reader {5:u8, 9:u8, 1:u8 deleted, 3:u8}:
3 and 5 are carried across (in the reader's order), 1 is skipped, 9 stays empty, the reader
consumes the whole table and stops before the trailing byte -/
example :
    let W := Ty.table 7 [(1, false), (2, true), (3, false), (5, false)] [.int .u8 .plain, .str 0 1, .int .u8 .plain, .int .u8 .plain]
    let R := Ty.table 7 [(5, false), (9, false), (1, true), (3, false)] [.int .u8 .plain, .int .u8 .plain, .int .u8 .plain, .int .u8 .plain]
    let vw := Val.list [.tag 1 (.int 10), .nil, .tag 1 (.int 30), .tag 1 (.int 50)]
    (match encode W vw {} with
     | .ok (bs, _) =>
       (match decInto R (dflt R) { bytes := bs ++ [0xEE] } with
        | (.ok v, s') => some (v, s'.bytes)
        | _ => none)
     | .error _ => none) = some (.list [.tag 1 (.int 50), .nil, .nil, .tag 1 (.int 30)], [0xEE]) := by
  rfl

/-- **What one version writes is a well-formed message of the other version.** Under the
hypotheses of `C07_cross_version_xr`: the bytes written with the writer's definition are a word of
the documented language *of the reader's table type* (docs/format.md read for that type: entries
the reader does not know or has deleted are the grammar's skipped wire entries, reordering is the
grammar's any-order rule) and denote exactly the cross-version value - for any handle table that
resolves the writer's references. -/
theorem C07_in_other_versions_language (F : Nat → Val → Val) (hash : Nat) (eW eR : List (Nat × Bool)) (tW tR : List Ty)
    (hwfW : (Ty.table hash eW tW).wf = true) (hwfR : (Ty.table hash eR tR).wf = true)
    (hx : ∀ p ∈ eW.zip tW, ∀ q ∈ eR.zip tR, p.1.1 = q.1.1 → q.1.2 = false → XR p.2 q.2 (F p.1.1))
    (v : Val) (h : HChan) (bs : Bytes) (h' : HChan) (hv : valid (.table hash eW tW) v = true)
    (he : encode (.table hash eW tW) v h = .ok (bs, h')) (hs : List Int) (hr : Resolves hs h'.pushed) :
    Lang hs (.table hash eR tR) (.list (eR.map (xslot (presentF F eW v.elems)))) bs :=
  lang_of_decOK (C07_cross_version_xr F hash eW eR tW tR hwfW hwfR hx v h bs h' (dflt (.table hash eR tR)) hv he) hs hr

end Nop
