import NopModel.Lemmas.XVer
import NopModel.Properties.C04
import NopModel.Properties.C01
import NopModel.Lemmas.ConfDec
/-! C08 — Table framing is validated: hash, duplicate ids, entry sizes, padding. -/
namespace Nop

/-- **Hash mismatch → InvalidTableHash, before any entry is read**: the reader has consumed the
hash and nothing else. -/
theorem C08_hash_mismatch (hash : Nat) (eR : List (Nat × Bool)) (tR : List Ty) (prior : Val) (s s1 : Src) (x : Int)
    (hx : decInt .u64 s = (.ok x, s1)) (hne : x ≠ (hash : Int)) :
    decPayload (.table hash eR tR) 0xb5 prior s = (.error .invalidTableHash, s1) := by
  simp only [decPayload]
  rw [bind_ok hx]
  have : (x != (hash : Int)) = true := by simpa using hne
  simp [this, M.fail]

/-- **A recognised active id that occurs again → DuplicateTableEntry**, whatever order the
entries come in and whatever the entry holds: the slot is no longer empty. Nothing of the
duplicate is consumed. -/
theorem C08_duplicate (id : Nat) (t : Ty) (c : Val) (pe se : List (Nat × Bool)) (pt st : List Ty) (pv sc : List Val)
    (hl1 : pe.length = pt.length) (hl2 : pt.length = pv.length) (hne : ∀ e ∈ pe, e.1 ≠ id)
    (hc : c.isNil = false) (s : Src) :
    decEntry (pe ++ (id, false) :: se) (pt ++ t :: st) id (pv ++ c :: sc) s = (.error .duplicateTableEntry, s) := by
  rw [decEntry_prefix ((id, false) :: se) (t :: st) id (c :: sc) pe pt pv hl1 hl2 hne]
  have : decEntry ((id, false) :: se) (t :: st) id (c :: sc) s = (.error .duplicateTableEntry, s) := by
    simp [decEntry, hc, M.fail]
  exact bind_err this

/-- **A declared size larger than the value is accepted and exactly the surplus is skipped**,
whatever bytes fill the surplus: the reader ends right after the `sz` declared bytes. -/
theorem C08_surplus_skipped {ps : List (Int × Int)} (id sz : Nat) (t : Ty) (x : Val) (vb pad : Bytes)
    (pe se : List (Nat × Bool)) (pt st : List Ty) (pv sc : List Val)
    (hl1 : pe.length = pt.length) (hl2 : pt.length = pv.length) (hne : ∀ e ∈ pe, e.1 ≠ id)
    (hsz : sz < 2 ^ 64) (hpad : vb.length + pad.length = sz) (hd : DecOK (decInto t (dflt t)) x vb ps) :
    DecOK (decEntry (pe ++ (id, false) :: se) (pt ++ t :: st) id (pv ++ Val.nil :: sc))
      (pv ++ Val.tag 1 x :: sc) (encSize sz ++ (vb ++ pad)) ps := by
  rw [decEntry_prefix ((id, false) :: se) (t :: st) id (Val.nil :: sc) pe pt pv hl1 hl2 hne]
  refine DecOK.map (g := fun r => pv ++ r) (a := Val.tag 1 x :: sc) ?_
  simp only [decEntry, BEq.rfl, ↓reduceIte, Bool.false_eq_true, Val.isNil, Bool.not_true]
  refine DecOK.bind (DecOK.decSize hsz) ?_ rfl
  exact DecOK.framedPad (fun v => Val.tag 1 v :: sc) hd pad hpad

/-- **Entries are accepted in any order**: this is C07 with a writer definition that is a
permutation of the reader's (`xEntries` matches by id, not by position). -/
theorem C08_any_order (eR : List (Nat × Bool)) (tR : List Ty) (hlenR : eR.length = tR.length) (hdR : idsDistinct eR = true)
    (tW : List Ty) (eW : List (Nat × Bool)) (vw : List Val) (h : HChan) (ebs : Bytes) (h' : HChan)
    (hlt : ∀ e ∈ eW, e.1 < 2 ^ 64) (hdW : idsDistinct eW = true)
    (hx : ∀ p ∈ eW.zip tW, ∀ q ∈ eR.zip tR, p.1.1 = q.1.1 → q.1.2 = false → XR p.2 q.2 id)
    (hv : validEntries eW tW vw = true) (he : encEntries eW tW vw h = .ok (ebs, h')) :
    DecOK (itM (activeCount vw) (fun cur => decInt .u64 >>= fun id => decEntry eR tR id.toNat cur) (eR.map (xslot [])))
      (eR.map (xslot (present eW vw))) ebs h'.pushed := by
  simpa using xEntries eR tR hlenR hdR tW eW vw [] h ebs h' hlt hdW (fun _ _ => rfl) hx hv he

/-- **A decoding error inside an entry is the entry's result**: not confined to, nor masked
by, the entry's byte frame (no padding is skipped, the error is not replaced). -/
theorem C08_entry_error (id sz : Nat) (t : Ty) (se : List (Nat × Bool)) (st : List Ty) (sc : List Val)
    (s s1 s2 : Src) (e : Err) (hsz : decSize s = (.ok sz, s1))
    (hin : decInto t (dflt t) { s1 with frames := sz :: s1.frames } = (.error e, s2)) :
    decEntry ((id, false) :: se) (t :: st) id (Val.nil :: sc) s = (.error e, s2) := by
  simp only [decEntry, BEq.rfl, ↓reduceIte, Bool.false_eq_true, Val.isNil, Bool.not_true]
  rw [bind_ok hsz]
  have hpush : rPush sz s1 = (.ok (), { s1 with frames := sz :: s1.frames }) := rfl
  rw [bind_ok hpush]
  exact bind_err hin

/-- ... and the result of the loop over entries, wherever in the table it happens ... -/
theorem C08_loop_error {α} (f : α → M α) (a : α) (s s' : Src) (e : Err) (n : Nat) (h : f a s = (.error e, s')) :
    itM (n + 1) f a s = (.error e, s') := by
  simp [itM, h]

theorem C08_loop_step {α} (f : α → M α) (a a' : α) (s s' : Src) (n : Nat) (h : f a s = (.ok a', s')) :
    itM (n + 1) f a s = itM n f a' s' := by
  simp [itM, h]

/-- ... and of the whole table read. -/
theorem C08_table_error (hash : Nat) (eR : List (Nat × Bool)) (tR : List Ty) (prior : Val) (s s1 s2 s3 : Src) (n : Nat) (e : Err)
    (hh : decInt .u64 s = (.ok (hash : Int), s1)) (hn : decSize s1 = (.ok n, s2))
    (hloop : itM n (fun cur => decInt .u64 >>= fun id => decEntry eR tR id.toNat cur) (List.replicate tR.length .nil) s2
      = (.error e, s3)) :
    decPayload (.table hash eR tR) 0xb5 prior s = (.error e, s3) := by
  simp only [decPayload]
  rw [bind_ok hh]
  simp only [bne_self_eq_false, Bool.false_eq_true, ↓reduceIte]
  rw [bind_ok hn]
  exact bind_err hloop

/-- the first primitive read that would cross the declared size fails with ReadLimitReached
without touching the underlying reader -/
theorem C08_crossing_read_fails (s : Src) (n b : Nat) (fs : List Nat) (hfr : s.frames = b :: fs) (hlt : b < n) :
    rRead n s = (.error .readLimitReached, s) :=
  C04_read_limit s n b fs hfr hlt

/-- **A declared size smaller than the value needs is rejected**, for every type and value:
inside a `BoundedReader` of `sz` bytes, reading a value whose encoding `vb` is longer than `sz`
never succeeds - whatever follows the value and whatever budgets enclose the entry. (A successful
read is confined to its budgets and does not depend on the outer ones, `conf_decInto`; without
the entry's budget the read consumes exactly `vb`, C01.) -/
theorem C08_smaller_size (t : Ty) (hwf : t.wf = true) (x : Val) (hv : valid t x = true) (h : HChan) (vb : Bytes)
    (h' : HChan) (he : encode t x h = .ok (vb, h')) (sz : Nat) (hlt : sz < vb.length)
    (s : Src) (rest : Bytes) (hc : s.fault = .none) (hb : s.bytes = vb ++ rest) (hr : Resolves s.handles h'.pushed)
    (prior : Val) :
    ∃ e s', decInto t prior (s.withFrames (sz :: s.frames)) = (.error e, s') := by
  cases hrun : decInto t prior (s.withFrames (sz :: s.frames)) with
  | mk r s' =>
    cases r with
    | error e => exact ⟨e, s', rfl⟩
    | ok a =>
      exfalso
      obtain ⟨c, hcl, hbytes, hfo, _, hloose⟩ := conf_decInto t prior _ a s' hrun
      have hcsz : c ≤ sz := (framesOk_iff c (sz :: s.frames)).1 hfo sz (List.mem_cons_self ..)
      have hl := hloose [] (sz :: s.frames) rfl
      simp only [wf_wf, List.map_nil] at hl
      have hrt := C01_roundtrip t hwf x h vb h' prior hv he (s.withFrames []) rest hc hb (by simp [framesOk]) hr
      rw [hrt] at hl
      have hbl := congrArg (fun p : Except Err Val × Src => p.2.bytes.length) hl
      simp only [adv_bytes, wf_bytes, List.length_drop, hbytes, hb, List.length_append] at hbl
      simp only [wf_bytes, hb, List.length_append] at hcl
      omega

/-- ... hence the entry, and with it (C08_loop_error, C08_table_error) the whole table read,
fails: a recognised active entry whose declared size is smaller than its value is an error. -/
theorem C08_entry_too_small (id sz : Nat) (t : Ty) (hwf : t.wf = true) (x : Val) (hv : valid t x = true) (h : HChan)
    (vb : Bytes) (h' : HChan) (he : encode t x h = .ok (vb, h')) (hsz : sz < 2 ^ 64) (hlt : sz < vb.length)
    (se : List (Nat × Bool)) (st : List Ty) (sc : List Val)
    (s : Src) (rest : Bytes) (hc : s.fault = .none) (hb : s.bytes = encSize sz ++ (vb ++ rest))
    (hf : framesOk (encSize sz).length s.frames = true) (hr : Resolves s.handles h'.pushed) :
    ∃ e s', decEntry ((id, false) :: se) (t :: st) id (Val.nil :: sc) s = (.error e, s') := by
  have hds := DecOK.decSize (ps := h'.pushed) hsz s (vb ++ rest) hc hb hf hr
  obtain ⟨e, s', hin⟩ := C08_smaller_size t hwf x hv h vb h' he sz hlt (s.adv (encSize sz).length) rest
    (by simpa using hc) (by simp [hb]) (by simpa using hr) (dflt t)
  exact ⟨e, s', C08_entry_error id sz t se st sc s _ s' e hds hin⟩

/-- non-vacuity: a table {1:u8, 2:u8}; entry 1 twice → DuplicateTableEntry; wrong hash →
InvalidTableHash; entry 1 declared 3 bytes for a 1-byte value followed by junk → accepted and
the junk skipped; entry 1 declared 0 bytes → rejected -/
example :
    let R := Ty.table 7 [(1, false), (2, false)] [.int .u8 .plain, .int .u8 .plain]
    let run (bs : Bytes) := match decInto R (dflt R) { bytes := bs } with
      | (.ok v, s') => Except.ok (v, s'.bytes.length)
      | (.error e, _) => Except.error e
    run [0xb5, 7, 2, 1, 1, 5, 1, 1, 6] = .error .duplicateTableEntry ∧
    run [0xb5, 8, 1, 1, 1, 5] = .error .invalidTableHash ∧
    run [0xb5, 7, 1, 1, 3, 5, 0xAA, 0xBB, 0xCC] = .ok (.list [.tag 1 (.int 5), .nil], 1) ∧
    run [0xb5, 7, 1, 1, 0, 5] = .error .readLimitReached := by
  refine ⟨rfl, rfl, rfl, rfl⟩

end Nop
