import NopModel.Lemmas.FungibleWire
import NopModel.Lemmas.XVer
import NopModel.Properties.C01
/-! C09 — IsFungible<A,B> implies wire compatibility; it is reflexive and symmetric.
`fungible` is the trait as a function on schema terms (NopModel/Fungible.lean); that it *is* the
trait is checked on every run by evaluating `nop::IsFungible` on generated type pairs. -/
namespace Nop

/-- **IsFungible<A,A> is true**, for every type. -/
theorem C09_reflexive (a : Ty) : fungible a a = true := fungible_refl a

/-- **IsFungible<A,B> equals IsFungible<B,A>**, for every pair of types. -/
theorem C09_symmetric (a b : Ty) : fungible a b = fungible b a := fungible_symm a b

/-- **Fungible types are wire-compatible**: on every value that is well-typed for both (an `A`
value whose element counts fit `B`'s fixed sizes and capacities) the two encoders emit the same
bytes, hand the same handles to the writer, and report the same size — for every writer state. -/
theorem C09_same_wire (a b : Ty) (hf : fungible a b = true) (v : Val) (hva : valid a v = true) (hvb : valid b v = true) :
    (∀ h, encode a v h = encode b v h) ∧ size a v = size b v :=
  wire a b hf v hva hvb

/-- **... so every such encoding of an `A` value decodes as `B` to the corresponding value, and
re-encoding that `B` value reproduces the same bytes** (with C01 for `B`). -/
theorem C09_decodes_and_reencodes (a b : Ty) (hf : fungible a b = true) (hwb : b.wf = true) (v : Val)
    (hva : valid a v = true) (hvb : valid b v = true) (h : HChan) (bs : Bytes) (h' : HChan)
    (he : encode a v h = .ok (bs, h')) (prior : Val)
    (s : Src) (rest : Bytes) (hc : s.fault = .none) (hb : s.bytes = bs ++ rest)
    (hfr : framesOk bs.length s.frames = true) (hr : Resolves s.handles h'.pushed) :
    decInto b prior s = (.ok v, s.adv bs.length) ∧ encode b v h = .ok (bs, h') := by
  have hw := (wire a b hf v hva hvb).1 h
  rw [hw] at he
  exact ⟨C01_roundtrip b hwb v h bs h' prior hvb he s rest hc hb hfr hr, he⟩

/-- a fungible replacement of an entry type is admissible in the cross-version theorem (C07) -/
theorem C09_entry_replacement (a b : Ty) (hf : fungible a b = true) (hwb : b.wf = true)
    (hfit : ∀ v, valid a v = true → valid b v = true) : XR a b id := by
  intro v h bs h' prior hva he
  have hvb := hfit v hva
  have hw := (wire a b hf v hva hvb).1 h
  rw [hw] at he
  exact (rt b hwb).decInto prior hvb he

/-! The pairs the documentation declares fungible evaluate to true (and near misses to false). -/
section documented
private abbrev i32 := Ty.int .i32 .plain
private abbrev u8 := Ty.int .u8 .plain
private abbrev str := Ty.str 0 1
private abbrev e2 := Ty.int .i32 (.enum 2)

-- vector / std::array / C array with matching elements
example : fungible (.seq .vector i32) (.seq (.array 3) i32) = true := rfl
example : fungible (.seq (.carray 3) i32) (.seq (.array 3) i32) = true := rfl
example : fungible (.seq (.carray 3) i32) (.seq .vector i32) = true := rfl
example : fungible (.seq (.array 3) i32) (.seq (.array 4) i32) = false := rfl
-- ... tuple / pair with matching (non-integral) elements
example : fungible (.seq .vector str) (.prod .tuple [str, str, str]) = true := rfl
example : fungible (.seq (.array 2) str) (.prod .tuple [str, str]) = true := rfl
example : fungible (.prod .pair [u8, str]) (.prod .tuple [u8, str]) = true := rfl
example : fungible (.seq (.array 2) str) (.prod .tuple [str, str, str]) = false := rfl
-- integral elements are a BINARY container, tuples of them an ARRAY: not interchangeable
example : fungible (.seq .vector i32) (.prod .tuple [i32, i32]) = false := rfl
example : fungible (.seq .vector i32) (.seq .vector (.wrap i32)) = false := rfl
example : fungible (.seq .vector i32) (.seq .vector e2) = false := rfl
-- map / unordered_map
example : fungible (.map true u8 str) (.map false u8 str) = true := rfl
-- logical buffer / vector, logical buffers of the same capacity with different size members
example : fungible (.seq (.lbuf 4 .u8 false) i32) (.seq .vector i32) = true := rfl
example : fungible (.seq (.lbuf 4 .u8 false) i32) (.seq (.lbuf 4 .i64 false) i32) = true := rfl
example : fungible (.seq (.lbuf 4 .u8 false) i32) (.seq (.lbuf 5 .u8 false) i32) = false := rfl
-- value wrapper / wrapped type
example : fungible (.wrap u8) u8 = true := rfl
example : fungible u8 (.wrap (.wrap u8)) = true := rfl
example : fungible (.opt (.wrap str)) (.opt str) = true := rfl
-- member-wise fungible structures; a structure is not a tuple
example : fungible (.prod .struct [u8, .seq .vector str]) (.prod .struct [.wrap u8, .seq (.array 2) str]) = true := rfl
example : fungible (.prod .struct [u8, str]) (.prod .tuple [u8, str]) = false := rfl
-- tables: same hash, same ids and states, entry-wise
example : fungible (.table 5 [(1, false), (2, false)] [u8, .seq .vector str])
    (.table 5 [(1, false), (2, false)] [.wrap u8, .seq (.array 2) str]) = true := rfl
example : fungible (.table 5 [(1, false)] [u8]) (.table 6 [(1, false)] [u8]) = false := rfl
example : fungible (.table 5 [(1, false)] [u8]) (.table 5 [(2, false)] [u8]) = false := rfl
-- Optional / Result / Variant element-wise
example : fungible (.variant [.seq .vector i32, .prod .pair [str, str]]) (.variant [.seq (.array 2) i32, .prod .tuple [str, str]]) = true := rfl
example : fungible (.result 2 .i32 u8) (.result 1 .u8 u8) = false := rfl
end documented

/-- non-vacuity of the wire theorem: a vector of two strings and a two-string tuple -/
example :
    let a := Ty.seq .vector (Ty.str 0 1)
    let b := Ty.prod .tuple [Ty.str 0 1, Ty.str 0 1]
    let v := Val.list [.list [.int 104], .list []]
    fungible a b = true ∧ valid a v = true ∧ valid b v = true ∧
      (match encode a v {} with | .ok (bs, _) => bs | .error _ => []) = [0xba, 2, 0xbd, 1, 104, 0xbd, 0] := by
  refine ⟨rfl, rfl, rfl, rfl⟩

/-- **Not transitive** (machine-checked negative fact; the real trait agrees, checked with
`static_assert` on `std::tuple<float,float>`, `std::vector<float>`, `std::tuple<float,float,float>`):
fungibility is reflexive and symmetric but *not* an equivalence relation — a vector is fungible
with tuples of every length, two tuples of different lengths are not fungible with each other.
So the property's "same wire format" is a statement about the *values both types can hold*
(`C09_same_wire` takes `valid a v` and `valid b v`), not about the types' whole value sets. -/
theorem C09_not_transitive :
    let f32 : Ty := .float false
    fungible (.prod .tuple [f32, f32]) (.seq .vector f32) = true ∧
    fungible (.seq .vector f32) (.prod .tuple [f32, f32, f32]) = true ∧
    fungible (.prod .tuple [f32, f32]) (.prod .tuple [f32, f32, f32]) = false := by decide

end Nop
