import NopModel.Lemmas.StopsDec
import NopModel.Lemmas.EncWEmits
import NopModel.Lemmas.Size
import NopModel.Rpc
import NopModel.Lemmas.RoundTrip
/-! C10 — I/O errors propagate verbatim and stop the operation (read side, then write side). -/
namespace Nop

/-- **Read faults.** Arm the underlying reader to fail its `k`-th call (counted over the calls
that actually reach it: `Ensure`, `Read`, `Skip`, `GetHandle`, including those forwarded by
`BoundedReader`s) with error `e`.  Whatever the type, destination contents, bytes and reader
configuration, `Read` ends in one of two ways: the failing call was never reached (the
script is still armed), or it was reached, *no further call was issued* (the script is
`dead`, not `zombie`) and `Read` returned exactly `e`.  In particular success is never
reported after a failed call. -/
theorem C10_read_stops (t : Ty) (prior : Val) (s : Src) (k : Nat) (e : Err)
    (hs : s.fault = .armed k e) (r : Except Err Val) (s' : Src) (h : decInto t prior s = (r, s')) :
    (s'.fault = .none ∨ ∃ j, s'.fault = .armed j e) ∨ (s'.fault = .dead e ∧ r = .error e) :=
  stops_decInto t prior e s r s' (Or.inr ⟨k, hs⟩) h

/-- a source that was never armed stays clean: the script is inert for ordinary reads -/
theorem C10_clean_stays_clean (t : Ty) (prior : Val) (s : Src) (hs : s.fault = .none)
    (r : Except Err Val) (s' : Src) (h : decInto t prior s = (r, s')) : s'.fault = .none := by
  rcases stops_decInto t prior .ioError s r s' (Or.inl hs) h with hl | ⟨hd, _⟩
  · rcases hl with hl | ⟨j, hj⟩
    · exact hl
    · exfalso
      rcases stops_decInto t prior .streamError s r s' (Or.inl hs) h with hl2 | ⟨hd2, _⟩
      · rcases hl2 with hl2 | ⟨j2, hj2⟩
        · rw [hl2] at hj; cases hj
        · rw [hj2] at hj; cases hj
      · rw [hd2] at hj; cases hj
  · exfalso
    rcases stops_decInto t prior .streamError s r s' (Or.inl hs) h with hl2 | ⟨hd2, _⟩
    · rcases hl2 with hl2 | ⟨j2, hj2⟩
      · rw [hl2] at hd; cases hd
      · rw [hj2] at hd; cases hd
    · rw [hd2] at hd; cases hd

/-- non-vacuity: failing the 2nd call (the payload read of a U16) yields that error, armed
script consumed, nothing after it -/
example : decInto (.int .u16 .plain) (.int 0)
    ({ bytes := [0x81, 0x34, 0x12], fault := .armed 1 .ioError } : Src) =
    (.error .ioError, { bytes := [0x34, 0x12], fault := .dead .ioError }) := by rfl

/-! ### write side: the call-level writer `serialize` / `encW` (EncW.lean) -/

/-- **Write faults.** Arm the underlying writer to fail its `k`-th call (counted over the calls
that actually reach it: `Prepare`, `Write(byte)`, `Write(begin, end)`, `Skip`, `PushHandle`,
including those forwarded by the `BoundedWriter`s of table entries) with error `e`.  Whatever
the type, the value (well-typed or not), the writer's capacity, budgets and handle channel,
`Serializer::Write` ends in one of two ways: the failing call was never reached (the script is
still armed), or it was reached, *no further call was issued* (`dead`, not `zombie`) and
`Write` returned exactly `e`.  Success is never reported after a failed call. -/
theorem C10_write_stops (t : Ty) (v : Val) (s : Snk) (k : Nat) (e : Err)
    (hs : s.fault = .armed k e) (r : Except Err Unit) (s' : Snk) (h : serialize t v s = (r, s')) :
    (s'.fault = .none ∨ ∃ j, s'.fault = .armed j e) ∨ (s'.fault = .dead e ∧ r = .error e) :=
  stopsW_serialize t v e s r s' (Or.inr ⟨k, hs⟩) h

/-- the same for a bare `Encoding<T>::Write` (no `Prepare`), e.g. an element inside a container -/
theorem C10_write_stops_element (t : Ty) (v : Val) (s : Snk) (k : Nat) (e : Err)
    (hs : s.fault = .armed k e) (r : Except Err Unit) (s' : Snk) (h : encW t v s = (r, s')) :
    (s'.fault = .none ∨ ∃ j, s'.fault = .armed j e) ∨ (s'.fault = .dead e ∧ r = .error e) :=
  stopsW_encW t v e s r s' (Or.inr ⟨k, hs⟩) h

/-- **The call-level writer is the pure encoder.** Whenever `encode` (the function every other
theorem is stated on) yields `bs`, `Serializer::Write` on any healthy writer with room and
budgets for `Size(value)` bytes succeeds, the calls it issued appended exactly `bs`, every
enclosing budget was charged `bs.length`, and the handle channel is the pure encoder's. -/
theorem C10_write_refines (t : Ty) (v : Val) (h : HChan) (bs : Bytes) (h' : HChan)
    (he : encode t v h = .ok (bs, h')) (s : Snk) (hc : s.chan = h) (hfit : s.fits (size t v)) :
    serialize t v s = (.ok (), { s.acc bs with chan := h' }) := by
  have hle : bs.length ≤ size t v := encode_length_le t v h bs h' he
  unfold serialize
  rw [bindW_run]
  have hp : wPrepare (size t v) s = (.ok (), s) := by
    unfold wPrepare
    simp only [hfit.2.2, Bool.not_true, Bool.false_eq_true, ↓reduceIte, preW_clean hfit.1, hfit.2.1]
  rw [hp]
  exact encW_emits t v h bs h' he s hc ⟨hfit.1, room_mono hle hfit.2.1, framesOk_mono hle hfit.2.2⟩

/-- **End to end at call level.** `Serializer::Write` on any healthy writer with room (any
stack of `BoundedWriter`s, checked or unchecked, whatever is already in the sink), followed by
`Deserializer::Read` — into a destination holding any prior value, through any reader
configuration — of exactly the bytes the writer's calls appended plus anything after them,
yields the value written and consumes exactly the appended bytes. The two halves are
`C10_write_refines` (calls add up to `encode`) and the round-trip induction. -/
theorem C10_write_then_read (t : Ty) (hwf : t.wf = true) (v : Val) (hv : valid t v = true)
    (h : HChan) (bs : Bytes) (h' : HChan) (he : encode t v h = .ok (bs, h'))
    (w : Snk) (hc : w.chan = h) (hfit : w.fits (size t v))
    (prior : Val) (s : Src) (rest : Bytes) (hcs : s.fault = .none)
    (hb : w.out ++ s.bytes = (serialize t v w).2.out ++ rest)
    (hf : framesOk bs.length s.frames = true) (hr : Resolves s.handles h'.pushed) :
    (serialize t v w).1 = .ok () ∧ decInto t prior s = (.ok v, s.adv bs.length) := by
  have hw := C10_write_refines t v h bs h' he w hc hfit
  rw [hw] at hb ⊢
  refine ⟨rfl, ?_⟩
  have hb' : s.bytes = bs ++ rest := by
    simpa [Snk.acc, List.append_assoc] using hb
  exact (rt t hwf).decInto prior hv he s rest hcs hb' hf hr

/-- non-vacuity of `C10_write_then_read`: an empty unbounded healthy sink fits and the write succeeds -/
example :
    let t : Ty := .seq .vector (.int .u16 .plain)
    let v : Val := .list [.int 1, .int 300]
    ({} : Snk).fits (size t v) ∧ (serialize t v {}).1 = .ok () := by
  refine ⟨⟨rfl, by decide, by decide⟩, by rfl⟩

/-- a writer without room for `Size(value)` refuses in `Prepare`: nothing is written -/
theorem C10_write_no_room (t : Ty) (v : Val) (s : Snk) (hc : s.fault = .none) (hr : s.room (size t v) = false) :
    serialize t v s = (.error .writeLimitReached, s) := by
  unfold serialize
  rw [bindW_run]
  unfold wPrepare
  by_cases hf : framesOk (size t v) s.frames = true
  · simp only [hf, Bool.not_true, Bool.false_eq_true, ↓reduceIte, preW_clean hc, hr]
  · simp only [hf, Bool.not_false, ↓reduceIte]

/-! ### RPC request (`SimpleMethodSender::SendMethod`): two `Serializer::Write`s -/

/-- selector, then the argument tuple, each through `Serializer::Write` -/
def Rpc.sendW (sk : IntKind) (m : Rpc.Method) (args : Val) : MW Unit := do
  serialize (.int sk .plain) (.int m.sel)
  serialize m.argsTy args

/-- **Send faults.** Failing any call the sender's writer receives while a request is written
makes `SendMethod` stop there with exactly that error: the argument tuple is not started after a
failed selector write, nothing follows a failed argument write. -/
theorem C10_send_stops (sk : IntKind) (m : Rpc.Method) (args : Val) (s : Snk) (k : Nat) (e : Err)
    (hs : s.fault = .armed k e) (r : Except Err Unit) (s' : Snk) (h : Rpc.sendW sk m args s = (r, s')) :
    (s'.fault = .none ∨ ∃ j, s'.fault = .armed j e) ∨ (s'.fault = .dead e ∧ r = .error e) :=
  (StopsW.bind (stopsW_serialize _ _) (fun _ => stopsW_serialize _ _)) e s r s' (Or.inr ⟨k, hs⟩) h

theorem fits_after {s : Snk} {A : Bytes} {a b : Nat} (h1 : HChan) (h : s.fits (a + b)) (hA : A.length ≤ a) :
    ({ s.acc A with chan := h1 } : Snk).fits b := by
  have h2 : s.fits (A.length + b) :=
    ⟨h.1, room_mono (by omega) h.2.1, framesOk_mono (by omega) h.2.2⟩
  exact fits_right h1 h2

/-- **The request on the wire is the pure `request`** (the bytes C14's dispatcher theorems are
stated on): on a healthy writer with room for both parts, the calls of `SendMethod` append
exactly `request sk m args`. -/
theorem C10_send_refines (sk : IntKind) (m : Rpc.Method) (args : Val) (req : Bytes)
    (hreq : Rpc.request sk m args = .ok req) (s : Snk) (hc : s.chan = {})
    (hfit : s.fits (size (.int sk .plain) (.int m.sel) + size m.argsTy args)) :
    ∃ h', Rpc.sendW sk m args s = (.ok (), { s.acc req with chan := h' }) := by
  unfold Rpc.request at hreq
  cases hea : encode m.argsTy args {} with
  | error e => simp [hea] at hreq
  | ok r =>
    obtain ⟨abs, ha⟩ := r
    simp only [hea, Except.ok.injEq] at hreq
    subst hreq
    have hsel : encode (.int sk .plain) (.int (m.sel : Int)) {} = .ok (encInt sk m.sel, {}) := rfl
    have h1 := C10_write_refines _ _ _ _ _ hsel s hc (fits_left hfit)
    have hle : (encInt sk (m.sel : Int)).length ≤ size (.int sk .plain) (.int m.sel) :=
      encode_length_le _ _ _ _ _ hsel
    have h2 := C10_write_refines _ _ _ _ _ hea { s.acc (encInt sk m.sel) with chan := {} } rfl
      (fits_after {} hfit hle)
    refine ⟨ha, ?_⟩
    unfold Rpc.sendW
    rw [bindW_run, h1]
    simp only
    rw [h2, acc_chan]

/-- non-vacuity: a table entry holding a string; failing the 9th call (the string's payload
block, inside the entry's BoundedWriter) returns that error, nothing after it; the bytes before
it were accepted -/
example : serialize (.table 5 [(1, false)] [.str 0 1]) (.list [.tag 1 (.list [.int 104, .int 105])])
    ({ fault := .armed 8 .ioError } : Snk) =
    (.error .ioError, { out := [0xb5, 5, 1, 1, 4, 0xbd, 2], frames := [2], fault := .dead .ioError }) := by rfl

/-- ... and without a fault the calls add up to the pure encoder's bytes -/
example : serialize (.table 5 [(1, false)] [.str 0 1]) (.list [.tag 1 (.list [.int 104, .int 105])]) ({} : Snk) =
    (.ok (), { out := [0xb5, 5, 1, 1, 4, 0xbd, 2, 104, 105] }) := by rfl

end Nop
