import NopModel.Lemmas.StopsDec
/-! C10 — I/O errors propagate verbatim and stop the operation (read side). -/
namespace Nop

/-- **Read faults.** Arm the underlying reader to fail its `k`-th call (counted over the calls
that actually reach it: `Ensure`, `Read`, `Skip`, `GetHandle`, including those forwarded by
`BoundedReader`s) with error `e`.  Whatever the type, destination contents, bytes and reader
configuration, `Read` ends in one of two ways: the failing call was never reached (the
script is still armed), or it was reached, *no further call was issued* (the script is
`dead`, not `zombie`) and `Read` returned exactly `e`.  In particular success is never
reported after a failed call. -/
theorem C10_read_stops (t : Ty) (prior : Val) (s : Src) (k : Nat) (e : Err)
    (hs : s.fault = .armed k e) (r : Except Err Val) (s' : Src) (h : decInto t prior s = (r, s')) :
    (s'.fault = .none ∨ ∃ j, s'.fault = .armed j e) ∨ (s'.fault = .dead e ∧ r = .error e) :=
  stops_decInto t prior e s r s' (Or.inr ⟨k, hs⟩) h

/-- a source that was never armed stays clean: the script is inert for ordinary reads -/
theorem C10_clean_stays_clean (t : Ty) (prior : Val) (s : Src) (hs : s.fault = .none)
    (r : Except Err Val) (s' : Src) (h : decInto t prior s = (r, s')) : s'.fault = .none := by
  rcases stops_decInto t prior .ioError s r s' (Or.inl hs) h with hl | ⟨hd, _⟩
  · rcases hl with hl | ⟨j, hj⟩
    · exact hl
    · exfalso
      rcases stops_decInto t prior .streamError s r s' (Or.inl hs) h with hl2 | ⟨hd2, _⟩
      · rcases hl2 with hl2 | ⟨j2, hj2⟩
        · rw [hl2] at hj; cases hj
        · rw [hj2] at hj; cases hj
      · rw [hd2] at hj; cases hj
  · exfalso
    rcases stops_decInto t prior .streamError s r s' (Or.inl hs) h with hl2 | ⟨hd2, _⟩
    · rcases hl2 with hl2 | ⟨j2, hj2⟩
      · rw [hl2] at hd; cases hd
      · rw [hj2] at hd; cases hd
    · rw [hd2] at hd; cases hd

/-- non-vacuity: failing the 2nd call (the payload read of a U16) yields that error, armed
script consumed, nothing after it -/
example : decInto (.int .u16 .plain) (.int 0)
    ({ bytes := [0x81, 0x34, 0x12], fault := .armed 1 .ioError } : Src) =
    (.error .ioError, { bytes := [0x34, 0x12], fault := .dead .ioError }) := by rfl

end Nop
