import NopModel.Lemmas.Prior
/-! C11 — decoding depends only on the bytes, not on the destination's prior contents. -/
namespace Nop

/-- **Prior independence.** For every type, every pair of prior destination contents
(valid, or left behind by a failed read — any `Val` at all), `Read` is the *same function*
of the byte source: same status, same value, same final reader state, for every source
(any bytes, any reader configuration, any fault script). The model threads the prior value
exactly where the C++ reuses storage, which is what makes this non-trivial. -/
theorem C11_prior_independent (t : Ty) (p1 p2 : Val) : decInto t p1 = decInto t p2 := by
  unfold decInto
  congr 1
  funext q
  exact decPayload_prior t q p1 p2

/-- in particular: reading into any existing object equals reading into a fresh one -/
theorem C11_same_as_fresh (t : Ty) (p : Val) (s : Src) : decInto t p s = dec t s := by
  unfold dec
  rw [C11_prior_independent t p (dflt t)]

/-- the prior value really is threaded: an array slot decode receives the old element -/
example : decPayload (.seq (.array 1) (.opt (.int .u8 .plain))) 0xba (.list [.tag 1 (.int 7)])
    ({ bytes := [0x01, 0xbe] } : Src) = (.ok (.list [.nil]), { bytes := [] }) := by rfl

end Nop
