import NopModel.Lemmas.Variant
/-! C12 — a Variant always holds exactly one live alternative or none.
World = several interacting `Variant` objects over alternatives some of which track their own
lifetime; operations: construction (default, from a value, copy, move), assignment (element,
copy, move — including self-assignment — and `EmptyVariant`), `Become` (in and out of range),
`Visit`, `get`, destruction, each optionally with "the next element constructor throws". -/
namespace Nop.Life

/-- **Invariant over all histories.** After any finite sequence of operations from the initial
world: no operation ever touched a dead or wrongly-typed object; every Variant is either empty
with `index() == -1` and nothing constructed, or holds exactly one constructed element, in the
member its index names; every live tracked element is owned by exactly one Variant and every
owned element is live (nothing leaked, nothing destroyed twice). -/
theorem C12_inv (n : Nat) (tracked : Nat → Bool) (k : Nat) (ops : List Op) :
    Inv (run (World.init n tracked k) ops) :=
  run_inv (init_inv n tracked k) ops

/-- **Every element constructed is destroyed exactly once**: whenever no Variant object is left,
no tracked element is live — and no destructor ever ran on a dead object (`ub = false`). -/
theorem C12_balanced (n : Nat) (tracked : Nat → Bool) (k : Nat) (ops : List Op)
    (hgone : ∀ v, (run (World.init n tracked k) ops).get v = none) :
    (run (World.init n tracked k) ops).live = [] ∧ (run (World.init n tracked k) ops).ub = false := by
  have h := C12_inv n tracked k ops
  refine ⟨?_, h.noUB⟩
  apply List.eq_nil_iff_forall_not_mem.2
  intro id hid
  obtain ⟨v, s, e, hs, _⟩ := h.liveOwned id hid
  rw [hgone v] at hs; cases hs

/-- **Visit** calls the visitor exactly once: with the active element when engaged, with
`EmptyVariant` when empty; it changes nothing. -/
theorem C12_visit_once {w : World} (h : Inv w) (v : Nat) (s : VState) (hs : w.get v = some s) :
    (step w (.visit v)).1 = w ∧
    ((s.index = -1 ∧ (step w (.visit v)).2 = .visited none) ∨
     (∃ e, s.slot = some e ∧ (e.alt : Int) = s.index ∧ (step w (.visit v)).2 = .visited (some e))) := by
  have hok := h.ok v s hs
  simp only [step, hs]
  rcases vok_index hok with hi | hi
  · have : ¬ (0 ≤ s.index ∧ s.index < (w.n : Int)) := by omega
    rw [if_neg this]
    exact ⟨rfl, Or.inl ⟨hi, rfl⟩⟩
  · obtain ⟨e, he, hea, _, _⟩ := vok_engaged hok hi
    rw [if_pos hi]
    simp only [he, hea, ↓reduceIte]
    exact ⟨trivial, Or.inr ⟨e, rfl, hea, rfl⟩⟩

/-- **get<T>()** is non-null exactly when `T` is the active alternative. -/
theorem C12_get_iff {w : World} (h : Inv w) (v a : Nat) (s : VState) (hs : w.get v = some s) :
    (∃ e, (step w (.get v a)).2 = .got (some e) ∧ e.alt = a) ↔ s.index = (a : Int) := by
  have hok := h.ok v s hs
  simp only [step, hs]
  constructor
  · rintro ⟨e, he, _⟩
    by_cases hi : s.index = (a : Int)
    · exact hi
    · simp [hi] at he
  · intro hi
    rcases hok with ⟨h1, _⟩ | ⟨e, he, hea, _⟩
    · omega
    · simp only [hi, ↓reduceIte, he]
      exact ⟨e, rfl, by omega⟩

/-- **Become with an out-of-range index leaves the Variant empty.** -/
theorem C12_become_oob_empty {w : World} (h : Inv w) (v : Nat) (s : VState) (hs : w.get v = some s) (i : Int)
    (t : Bool) (hoob : i < -1 ∨ (w.n : Int) ≤ i) :
    (step w (.become v i t)).1.get v = some emptyV := by
  have hv := get_some_lt hs
  have hok := h.ok v s hs
  have hne : i ≠ s.index := by rcases vok_index hok with h1 | h1 <;> omega
  obtain ⟨_, h2, h3, _⟩ := inv_destruct hv (by rw [set_get_self hs]; exact h)
  have hr : ¬ (0 ≤ i ∧ i < (w.n : Int)) := by omega
  simp only [step, hs, ne_eq, hne, not_false_eq_true, ↓reduceIte, hr, h2]
  exact get_set_eq _ _ _ (by rw [h3]; exact hv)

/-- **Copies compare equal to their source**: a copy-constructed Variant has the source's index
and an element with the source's value. -/
theorem C12_copy_equal {w : World} (h : Inv w) (v src : Nat) (hv : v < w.vars.length) (hnone : w.get v = none)
    (s : VState) (hs : w.get src = some s) :
    ∃ s', (step w (.mkCopy v src false)).1.get v = some s' ∧ s'.index = s.index ∧
      s'.slot.map (·.val) = s.slot.map (·.val) := by
  have hok := h.ok src s hs
  simp only [step, hnone, hs, hv, not_true_eq_false, ↓reduceIte]
  rcases vok_index hok with hi | hi
  · have hr : ¬ (0 ≤ s.index ∧ s.index < (w.n : Int)) := by omega
    have hsl : s.slot = none := by
      rcases hok with ⟨_, h2⟩ | ⟨e, _, hea, hn⟩
      · exact h2
      · omega
    simp only [hr, ↓reduceIte]
    exact ⟨_, get_set_eq _ _ _ hv, rfl, by simp [hsl]⟩
  · obtain ⟨e, he, hea, hn, htn⟩ := vok_engaged hok hi
    simp only [hi, and_self, ↓reduceIte, he]
    unfold construct
    by_cases ht : w.tracked s.index.toNat = true
    · simp only [Bool.false_and, Bool.false_eq_true, ↓reduceIte, ht]
      exact ⟨_, get_set_eq _ _ _ (show v < w.grow.vars.length from hv), rfl, by simp⟩
    · simp only [Bool.false_and, Bool.false_eq_true, ↓reduceIte, ht]
      exact ⟨_, get_set_eq _ _ _ hv, rfl, by simp⟩

/-- non-vacuity: a history with a throwing constructor during assignment between different
alternatives, then self-assignment, Become out of range and destruction -/
example :
    let ops : List Op := [.mkValue 0 0 7 false, .mkValue 1 1 9 false, .assignCopy 0 1 true, .assignCopy 1 1 false,
      .become 1 5 false, .destroy 0, .destroy 1]
    let w := run (World.init 3 (fun a => a < 2) 2) ops
    w.live = [] ∧ w.ub = false ∧ w.log.length = 5 := by decide

end Nop.Life
