import NopModel.Lemmas.Variant
import NopModel.OptCmp
import NopModel.Wire
/-! C13 — Optional, Entry and Result keep a consistent state and element lifetime.
`Optional<T>` and `Entry<T,Id>` (which derives from it) are the one-alternative instance of the
storage discipline of `Nop.Life` (`index = 0` ⇔ `!empty()`), `Result<E,T>` adds the error code
(`err`, 0 = `ErrorEnum::None`). The invariant theorem is the same induction as for Variant,
extended over the Optional/Result specific operations (`step2`). -/
namespace Nop.Life

/-- **Invariant over all histories** of Optional / Entry / Result (and Variant) operations. -/
theorem C13_inv (n : Nat) (tracked : Nat → Bool) (k : Nat) (ops : List Op) :
    Inv (run (World.init n tracked k) ops) :=
  run_inv (init_inv n tracked k) ops

/-- **Exactly one of nothing, an error, or one alive value.** In every reachable world each
object is in exactly one of the three states, and the value state holds exactly one constructed
element in the member the index names. -/
theorem C13_tristate {w : World} (h : Inv w) (v : Nat) (s : VState) (hs : w.get v = some s) :
    (s.index = -1 ∧ s.slot = none ∧ s.err = 0) ∨          -- Empty
    (s.index = -1 ∧ s.slot = none ∧ s.err ≠ 0) ∨          -- Error (≠ None)
    (∃ e, s.slot = some e ∧ (e.alt : Int) = s.index ∧ e.alt < w.n) := by
  rcases h.ok v s hs with ⟨h1, h2⟩ | ⟨e, he, ha, hn⟩
  · by_cases he : s.err = 0
    · exact Or.inl ⟨h1, h2, he⟩
    · exact Or.inr (Or.inl ⟨h1, h2, he⟩)
  · exact Or.inr (Or.inr ⟨e, he, ha, hn⟩)

/-- **Constructed and destroyed in matched pairs**: once no object is left, no tracked value is
alive, and no destructor or accessor ever touched a dead value. -/
theorem C13_balanced (n : Nat) (tracked : Nat → Bool) (k : Nat) (ops : List Op)
    (hgone : ∀ v, (run (World.init n tracked k) ops).get v = none) :
    (run (World.init n tracked k) ops).live = [] ∧ (run (World.init n tracked k) ops).ub = false := by
  have h := C13_inv n tracked k ops
  refine ⟨?_, h.noUB⟩
  apply List.eq_nil_iff_forall_not_mem.2
  intro id hid
  obtain ⟨v, s, e, hs, _⟩ := h.liveOwned id hid
  rw [hgone v] at hs; cases hs

/-- **Moving from an object by assignment leaves it empty** (and, for Result, without error):
`a = std::move(b)` with `&a != &b`, whatever the states of `a` and `b` (value, error or empty),
when the element's constructor does not throw. -/
theorem C13_move_assign_empties {w : World} (h : Inv w) (v src : Nat) (s o : VState) (hne : v ≠ src)
    (hs : w.get v = some s) (ho : w.get src = some o) :
    (step2 w (.oMoveAssign v src false)).1.get src = some emptyV := by
  have hoko := h.ok src o ho
  have hv := get_some_lt hs
  have hself : Inv (w.set v (some s)) := by rw [set_get_self hs]; exact h
  simp only [step2, hs, ho, hne, ↓reduceIte]
  by_cases hi : 0 ≤ o.index ∧ o.index < (w.n : Int)
  · obtain ⟨e, he, _, hn, htn⟩ := vok_engaged hoko hi
    simp only [hi, and_self, ↓reduceIte, he, Bool.false_and, Bool.false_eq_true]
    obtain ⟨ha1, ha2, _⟩ := inv_assign hv hself o.index.toNat e.val false (by rw [htn]; exact hn)
    have hsrc : ((vAssign w s o.index.toNat e.val false).1.set v (some (vAssign w s o.index.toNat e.val false).2)).get src
        = some o := by
      rw [get_set_ne _ _ _ _ (fun hh => hne hh.symm), get_congr ha2]; exact ho
    have hvs := get_some_lt hsrc
    obtain ⟨_, h2, h3, _⟩ := inv_destruct hvs (by rw [set_get_self hsrc]; exact ha1)
    rw [h2]
    exact get_set_eq _ _ _ (by rw [h3]; exact hvs)
  · simp only [hi, ↓reduceIte]
    have hvs := get_some_lt ho
    exact get_set_eq _ _ _ (by simpa [World.set, (destruct_shape w s).2.2] using hvs)

/-- a disengaged source of `Result` move-assignment is also left Empty: `other.Destruct()`
resets its error. (Stated on the Result move constructor, which is `*this = std::move(other)`.) -/
theorem C13_result_move_ctor_empties {w : World} (h : Inv w) (v src : Nat) (o : VState)
    (hv : v < w.vars.length) (hne : v ≠ src) (hs : w.get v = none) (ho : w.get src = some o) :
    (step2 w (.rMoveCtor v src false)).1.get src = some emptyV := by
  have hoko := h.ok src o ho
  have hc : ¬ (¬ v < w.vars.length ∨ v = src) := by
    intro hh; rcases hh with hh | hh
    · exact hh hv
    · exact hne hh
  simp only [step2, hs, ho, hc, ↓reduceIte]
  have hvs := get_some_lt ho
  by_cases hi : 0 ≤ o.index ∧ o.index < (w.n : Int)
  · obtain ⟨e, he, _, hn, htn⟩ := vok_engaged hoko hi
    simp only [hi, and_self, ↓reduceIte, he]
    obtain ⟨hc1, hc2⟩ := inv_construct hv (inv_add hv hs h) o.index.toNat e.val false (by rw [htn]; exact hn)
    cases hcon : construct w o.index.toNat e.val false with
    | mk w1 r =>
      cases r with
      | some e' =>
        obtain ⟨hi1, hvars, _⟩ := hc1 w1 e' hcon
        have hcast : ((o.index.toNat : Nat) : Int) = o.index := by omega
        rw [hcast] at hi1
        simp only
        have hsrc : (w1.set v (some { index := o.index, slot := some e' })).get src = some o := by
          rw [get_set_ne _ _ _ _ (fun hh => hne hh.symm), get_congr hvars]; exact ho
        have hvs2 := get_some_lt hsrc
        obtain ⟨_, h2, h3, _⟩ := inv_destruct hvs2 (by rw [set_get_self hsrc]; exact hi1)
        rw [h2]
        exact get_set_eq _ _ _ (by rw [h3]; exact hvs2)
      | none =>
        exfalso
        unfold construct at hcon
        simp at hcon
        split at hcon <;> simp at hcon
  · simp only [hi, ↓reduceIte]
    exact get_set_eq _ _ _ (by simpa [World.set] using hvs)

/-- **has_value / empty / operator bool report the state**: true exactly when a value is alive. -/
theorem C13_has_value {w : World} (h : Inv w) (v : Nat) (s : VState) (hs : w.get v = some s) :
    (step2 w (.has v)).1 = w ∧ (step2 w (.has v)).2 = .flag s.slot.isSome := by
  simp only [step2, hs, true_and]
  rcases h.ok v s hs with ⟨h1, h2⟩ | ⟨e, he, ha, hn⟩
  · simp [h1, h2]
  · have : 0 ≤ s.index := by omega
    simp [this, he]

/-- **has_error / error() report the state**: `has_error()` exactly in the Error state, and
`error()` is that error there and `ErrorEnum::None` (0) in the other two states. -/
theorem C13_error {w : World} (h : Inv w) (v : Nat) (s : VState) (hs : w.get v = some s) :
    (step2 w (.errOf v)).1 = w ∧
    (step2 w (.errOf v)).2 = .error (decide (s.slot = none ∧ s.err ≠ 0)) (if s.slot = none then s.err else 0) := by
  simp only [step2, hs, true_and]
  rcases h.ok v s hs with ⟨h1, h2⟩ | ⟨e, he, ha, hn⟩
  · simp [h1, h2]
  · have : ¬ s.index < 0 := by omega
    simp [this, he]

/-- `Result(ErrorEnum)` / `r = ErrorEnum`: the object ends in Error with exactly that code, or in
Empty when the code is `None`; a previously held value is destroyed (by `C13_inv`). -/
theorem C13_assign_error {w : World} (h : Inv w) (v : Nat) (s : VState) (hs : w.get v = some s) (e : Int) :
    (step2 w (.rAssignErr v e)).1.get v = some { index := -1, slot := none, err := e } := by
  have hv := get_some_lt hs
  obtain ⟨_, h2, h3, _⟩ := inv_destruct hv (by rw [set_get_self hs]; exact h)
  simp only [step2, hs, h2]
  exact get_set_eq _ _ _ (by rw [h3]; exact hv)

/-- non-vacuity: a Result history through all three states with a throwing constructor -/
example :
    let ops : List Op := [.rMkErr 0 5, .mkValue 1 0 7 false, .assignValue 0 0 3 true, .oMoveAssign 0 1 false,
      .rAssignCopy 1 0 false, .rAssignErr 0 9, .rMoveCtor 2 0 false, .destroy 0, .destroy 1, .destroy 2]
    let w := run (World.init 1 (fun _ => true) 3) ops
    w.live = [] ∧ w.ub = false ∧ w.vars = [none, none, none] := by decide

end Nop.Life

namespace Nop.Cmp

/-! ### The 18 comparison operators -/

/-- `<` on two Optionals is the strict total order "empty first, then by value" -/
theorem C13_lt_spec (a b : O) : ooLt a b = specLt a b := by
  cases a <;> cases b <;> simp [ooLt, specLt]

theorem C13_eq_spec (a b : O) : ooEq a b = specEq a b := by
  cases a <;> cases b <;> simp [ooEq, specEq]
  rename_i x y
  by_cases h : x = y <;> simp [h]

/-- the specification order is a strict total order with empty below every value -/
theorem C13_order_total (a b : O) : specLt a b ∨ a = b ∨ specLt b a := by
  cases a <;> cases b <;> simp [specLt]; omega

theorem C13_order_irrefl (a : O) : specLt a a = false := by
  cases a <;> simp [specLt]

theorem C13_order_trans (a b c : O) (h1 : specLt a b) (h2 : specLt b c) : specLt a c := by
  cases a <;> cases b <;> cases c <;> simp_all [specLt]; omega

theorem C13_order_asymm (a b : O) (h1 : specLt a b) : specLt b a = false := by
  cases a <;> cases b <;> simp_all [specLt]; omega

theorem C13_empty_least (x : Int) : specLt none (some x) = true ∧ specLt (some x) none = false := by
  simp [specLt]

/-- all six Optional–Optional operators are the ones that order induces -/
theorem C13_oo_ops (a b : O) :
    ooEq a b = decide (a = b) ∧ ooNe a b = decide (a ≠ b) ∧ ooLt a b = specLt a b ∧ ooGt a b = specLt b a ∧
    ooLe a b = (specLt a b || decide (a = b)) ∧ ooGe a b = (specLt b a || decide (a = b)) := by
  cases a <;> cases b <;> simp [ooEq, ooNe, ooLt, ooGt, ooLe, ooGe, specLt]
  rename_i x y
  rcases Int.lt_trichotomy x y with h | h | h
  · have h1 : ¬ y < x := by omega
    have h2 : ¬ x = y := by omega
    simp [h, h1, h2]
  · subst h; simp
  · have h1 : ¬ x < y := by omega
    have h2 : ¬ x = y := by omega
    simp [h, h1, h2]

/-- **consistency**: the Optional–value and value–Optional operators give the Optional–Optional
result on the value wrapped in an Optional -/
theorem C13_ov_consistent (a : O) (y : Int) :
    ovEq a y = ooEq a (some y) ∧ ovNe a y = ooNe a (some y) ∧ ovLt a y = ooLt a (some y) ∧
    ovGt a y = ooGt a (some y) ∧ ovLe a y = ooLe a (some y) ∧ ovGe a y = ooGe a (some y) := by
  cases a <;> simp [ovEq, ovNe, ovLt, ovGt, ovLe, ovGe, ooEq, ooNe, ooLt, ooGt, ooLe, ooGe]

theorem C13_vo_consistent (x : Int) (b : O) :
    voEq x b = ooEq (some x) b ∧ voNe x b = ooNe (some x) b ∧ voLt x b = ooLt (some x) b ∧
    voGt x b = ooGt (some x) b ∧ voLe x b = ooLe (some x) b ∧ voGe x b = ooGe (some x) b := by
  cases b <;> simp [voEq, voNe, voLt, voGt, voLe, voGe, ooEq, ooNe, ooLt, ooGt, ooLe, ooGe]

end Nop.Cmp

namespace Nop

/-- **Status<T> error messages are defined for every ErrorStatus** (the model's table; that it
is the code's table is the generated obligation `gen_messages_defined`). -/
theorem C13_messages_defined (e : Err) : e.message ≠ "" ∧ (e ≠ .none → e.message ≠ "Unknown Error") := by
  cases e <;> exact ⟨by decide, by decide⟩

end Nop
