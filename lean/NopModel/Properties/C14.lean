import NopModel.Rpc
import NopModel.Properties.C01
import NopModel.Lemmas.Push
import NopModel.Lemmas.FungibleWire
/-! C14 — RPC dispatch calls exactly the selected handler with the sent arguments. -/
namespace Nop.Rpc
open Nop

/-- selectors of the bound methods are pairwise distinct (the static uniqueness checks of
`InterfaceAPI` / `InterfaceBindings`) -/
def Distinct (bs : List Bound) : Prop := bs.Pairwise (fun a b => a.m.sel ≠ b.m.sel)

theorem lookup_mem {bs : List Bound} (hd : Distinct bs) {b : Bound} (hb : b ∈ bs) :
    ∃ b', lookup bs (b.m.sel : Int) = some b' ∧ b'.m.sel = b.m.sel ∧ b' ∈ bs ∧ (b' = b) := by
  induction bs with
  | nil => cases hb
  | cons c cs ih =>
    unfold Distinct at hd
    rw [List.pairwise_cons] at hd
    rcases List.mem_cons.1 hb with rfl | hmem
    · exact ⟨b, by simp [lookup, List.find?_cons], rfl, List.mem_cons_self .., rfl⟩
    · have hne : c.m.sel ≠ b.m.sel := hd.1 b hmem
      obtain ⟨b', h1, h2, h3, h4⟩ := ih hd.2 hmem
      refine ⟨b', ?_, h2, List.mem_cons_of_mem _ h3, h4⟩
      have : ((c.m.sel : Int) == (b.m.sel : Int)) = false := by
        simp; exact_mod_cast hne
      simp only [lookup, List.find?_cons, this]
      exact h1

theorem lookup_none {bs : List Bound} {sel : Int} (h : ∀ b ∈ bs, (b.m.sel : Int) ≠ sel) : lookup bs sel = none := by
  simp only [lookup, List.find?_eq_none]
  intro b hb
  simpa using h b hb

/-- with no out-of-band channel (`refs = []`) a successful write pushed nothing -/
theorem pushed_nil {t : Ty} {v : Val} {bs : Bytes} {h' : HChan} (he : encode t v {} = .ok (bs, h')) : h'.pushed = [] := by
  obtain ⟨rs, _, hrefs, hp⟩ := encode_pushes t v {} bs h' he
  have : rs = [] := by
    cases rs with
    | nil => rfl
    | cons r rs => simp at hrefs
  subst this
  simpa using hp

/-- **Exactly the selected handler, exactly once, with the sent arguments; its return value is
what is sent back and what the caller's Invoke returns; exactly the request is consumed.**
For any set of bound handlers with distinct selectors, any bound method `b`, any well-typed
arguments and any handler whose result is a well-typed value of the return type: dispatching the
bytes `SendMethod` wrote (followed by anything - e.g. the next request) calls `b`'s handler
once with the caller's arguments and no other handler, sends `encode ret (handler args)`, leaves
the reader exactly after the request; and reading that reply as the return type (what
`GetReturn` does) gives `handler args`, consuming exactly the reply. -/
theorem C14_call (sk : IntKind) (bs : List Bound) (hd : Distinct bs) (b : Bound) (hb : b ∈ bs)
    (hsel : sk.inRange (b.m.sel : Int) = true)
    (hwa : b.m.argsTy.wf = true) (hwr : b.m.ret.wf = true)
    (args : Val) (hva : valid b.m.argsTy args = true) (req : Bytes) (hreq : request sk b.m args = .ok req)
    (hvr : valid b.m.ret (b.handler args) = true) (out : Bytes) (hch : HChan)
    (hout : encode b.m.ret (b.handler args) {} = .ok (out, hch))
    (s : Src) (rest : Bytes) (hc : s.fault = .none) (hbytes : s.bytes = req ++ rest) (hfr : s.frames = []) :
    dispatch sk bs s = ({ status := none, calls := [(b.m.sel, args)], sent := out }, s.adv req.length) ∧
    (∀ (c : Src) (rest' : Bytes), c.fault = .none → c.bytes = out ++ rest' → framesOk out.length c.frames = true →
      readReply b.m c = (.ok (b.handler args), c.adv out.length)) := by
  unfold request at hreq
  cases hea : encode b.m.argsTy args {} with
  | error e => simp [hea] at hreq
  | ok r =>
    obtain ⟨abs, ha⟩ := r
    simp only [hea, Except.ok.injEq] at hreq
    subst hreq
    have hpa : ha.pushed = [] := pushed_nil hea
    have hpo : hch.pushed = [] := pushed_nil hout
    constructor
    · unfold dispatch
      have h1 : decInt sk s = (.ok (b.m.sel : Int), s.adv (encInt sk b.m.sel).length) :=
        DecOK.decInt (ps := []) hsel s (abs ++ rest) hc (by rw [hbytes]; simp) (by rw [hfr]; rfl) (fun _ h => by cases h)
      rw [h1]
      obtain ⟨b', hl, _, _, rfl⟩ := lookup_mem hd hb
      simp only [hl]
      have h2 := C01_roundtrip b'.m.argsTy hwa args {} abs ha (dflt b'.m.argsTy) hva hea
        (s.adv (encInt sk b'.m.sel).length) rest (by simpa [Src.adv] using hc)
        (by simp [Src.adv, hbytes]) (by simp [Src.adv, hfr, framesOk]) (by rw [hpa]; intro p hp; cases hp)
      rw [h2]
      simp only [hout]
      congr 1
      simp [Src.adv, List.drop_drop, hfr]
    · intro c rest' hcc hcb hcf
      exact C01_roundtrip b.m.ret hwr (b.handler args) {} out hch (dflt b.m.ret) hvr hout c rest' hcc hcb hcf
        (by rw [hpo]; intro p hp; cases hp)

/-- **A selector with no bound handler yields InvalidInterfaceMethod; no handler runs and
nothing is sent back** (only the selector has been consumed). -/
theorem C14_unbound (sk : IntKind) (bs : List Bound) (s s1 : Src) (sel : Int)
    (hsel : decInt sk s = (.ok sel, s1)) (hno : ∀ b ∈ bs, (b.m.sel : Int) ≠ sel) :
    dispatch sk bs s = ({ status := some .invalidInterfaceMethod, calls := [], sent := [] }, s1) := by
  unfold dispatch
  rw [hsel]
  simp only [lookup_none hno]

/-- **A request whose arguments fail to decode yields that decode error; no handler runs and
nothing is sent back.** -/
theorem C14_bad_arguments (sk : IntKind) (bs : List Bound) (s s1 s2 : Src) (sel : Int) (b : Bound) (e : Err)
    (hsel : decInt sk s = (.ok sel, s1)) (hl : lookup bs sel = some b)
    (hargs : decInto b.m.argsTy (dflt b.m.argsTy) s1 = (.error e, s2)) :
    dispatch sk bs s = ({ status := some e, calls := [], sent := [] }, s2) := by
  unfold dispatch
  rw [hsel]
  simp only [hl, hargs]

/-- a selector that cannot be read is the dispatcher's result as well -/
theorem C14_bad_selector (sk : IntKind) (bs : List Bound) (s s1 : Src) (e : Err) (hsel : decInt sk s = (.error e, s1)) :
    dispatch sk bs s = ({ status := some e, calls := [], sent := [] }, s1) := by
  unfold dispatch
  rw [hsel]

/-- in every case at most one handler runs, and none unless the dispatch reached its call -/
theorem C14_at_most_one (sk : IntKind) (bs : List Bound) (s : Src) :
    (dispatch sk bs s).1.calls.length ≤ 1 ∧ ((dispatch sk bs s).1.sent ≠ [] → (dispatch sk bs s).1.status = none) := by
  unfold dispatch
  repeat' split
  all_goals simp

/-- **Successive calls on one connection stay in frame**: if the first request is served
successfully the remaining ones are served from exactly where it ended. -/
theorem C14_in_frame (sk : IntKind) (bs : List Bound) (n : Nat) (s s1 : Src) (r : Res)
    (h : dispatch sk bs s = (r, s1)) (hok : r.status = none) :
    serve sk bs (n + 1) s = (r :: (serve sk bs n s1).1, (serve sk bs n s1).2) := by
  simp only [serve, h, hok]

/-- **Fungible / conforming argument substitutions**: a caller (or a handler) whose argument
types are fungible with the protocol's produces (expects) the very same request bytes, so every
statement above applies unchanged: for argument tuples related by `IsFungible` and a value
well-typed for both, `SendMethod` writes the same request. -/
theorem C14_fungible_arguments (sk : IntKind) (m m' : Method) (hsel : m.sel = m'.sel)
    (hf : fungible m.argsTy m'.argsTy = true) (args : Val)
    (hv : valid m.argsTy args = true) (hv' : valid m'.argsTy args = true) :
    request sk m args = request sk m' args := by
  unfold request
  rw [(wire m.argsTy m'.argsTy hf args hv hv').1 {}, hsel]

/-- non-vacuity: two bound methods, two requests back to back followed by an unknown selector -/
example :
    let add : Bound := { m := { sel := 300, args := [.int .i32 .plain, .int .i32 .plain], ret := .int .i64 .plain },
                         handler := fun v => match v with | .list [.int a, .int b] => .int (a + b) | _ => .int 0 }
    let name : Bound := { m := { sel := 7, args := [], ret := .str 0 1 }, handler := fun _ => .list [.int 104, .int 105] }
    let bs := [add, name]
    let r1 := match request .u64 add.m (.list [.int 2, .int 40]) with | .ok b => b | .error _ => []
    let r2 := match request .u64 name.m (.list []) with | .ok b => b | .error _ => []
    let (rs, s') := serve .u64 bs 3 { bytes := r1 ++ r2 ++ [9, 0xba, 0] }
    (rs.map (fun r => (r.status, r.calls.map (·.1), r.sent)), s'.bytes) =
      ([(none, [300], [42]), (none, [7], [0xbd, 2, 104, 105]), (some .invalidInterfaceMethod, [], [])], [0xba, 0]) := by
  rfl

end Nop.Rpc
