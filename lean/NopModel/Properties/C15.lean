import NopModel.Lemmas.Push
import NopModel.Lemmas.Handle
import NopModel.Properties.C01
import NopModel.Properties.C04
/-! C15 — Handles travel out of band intact; UniqueHandle closes exactly once. -/
namespace Nop

/-- **Each handle is pushed exactly once, in encounter order, with the reference the writer
returned.** For every type, value and writer channel: a successful `Write` consumed exactly
one writer answer per handle of the value (in order) and appended to the push log exactly the
value's handles in encounter order (`handlesOf`), each paired with the reference the writer
returned for it. -/
theorem C15_push_once_in_order (t : Ty) (v : Val) (h : HChan) (bs : Bytes) (h' : HChan)
    (he : encode t v h = .ok (bs, h')) :
    ∃ rs : List Int, rs.length = (handlesOf t v).length ∧ h.refs = rs.map Except.ok ++ h'.refs ∧
      h'.pushed = h.pushed ++ (handlesOf t v).zip rs :=
  encode_pushes t v h bs h' he

/-- in particular the handles handed over are exactly the handles of the value, in order -/
theorem C15_pushed_values (t : Ty) (v : Val) (refs : List (Except Err Int)) (bs : Bytes) (h' : HChan)
    (he : encode t v { refs := refs, pushed := [] } = .ok (bs, h')) :
    h'.pushed.map Prod.fst = handlesOf t v := by
  obtain ⟨rs, hl, _, hp⟩ := encode_pushes t v _ bs h' he
  rw [hp]
  simp only [List.nil_append]
  rw [List.map_fst_zip (by omega)]

/-- **Exactly the returned reference is encoded after the type tag**: the wire form of a handle
is HND, the policy's handle type, then the reference `PushHandle` returned. -/
theorem C15_wire (pol ht : Nat) (tk : IntKind) (hv r : Int) (rest : List (Except Err Int)) (ps : List (Int × Int))
    (hr : IntKind.i64.inRange r = true) :
    encode (.handle pol ht tk) (.int hv) { refs := .ok r :: rest, pushed := ps } =
      .ok (0xb7 :: encInt tk ht ++ encInt .i64 r, { refs := rest, pushed := ps ++ [(hv, r)] }) := by
  simp [encode, hr]

/-- a failing `PushHandle` is returned unchanged and nothing is emitted for that handle -/
theorem C15_push_error (pol ht : Nat) (tk : IntKind) (hv : Int) (e : Err) (rest : List (Except Err Int))
    (ps : List (Int × Int)) :
    encode (.handle pol ht tk) (.int hv) { refs := .error e :: rest, pushed := ps } = .error e := by
  simp [encode]

/-- **On read the type tag is validated** (restated from C04). -/
theorem C15_tag_checked (pol ht : Nat) (tk : IntKind) (prior : Val) (s : Src) (x : Int) (s1 : Src)
    (hx : decInt tk s = (.ok x, s1)) (hne : x ≠ (ht : Int)) :
    (decPayload (.handle pol ht tk) 0xb7 prior s).1 = .error .unexpectedHandleType :=
  C04_handle_type pol ht tk prior s x s1 hx hne

/-- **The encoded reference is resolved through the reader and a resolution error is returned
unchanged**: after a matching type tag and a decoded reference `r`, the result of reading the
handle is exactly what the reader's `GetHandle(r)` gives — the handle, or its error. -/
theorem C15_resolution (pol ht : Nat) (tk : IntKind) (prior : Val) (s s1 s2 : Src) (r : Int)
    (h1 : decInt tk s = (.ok (ht : Int), s1)) (h2 : decInt .i64 s1 = (.ok r, s2)) (hc : s2.fault = .none) :
    decPayload (.handle pol ht tk) 0xb7 prior s =
      (match resolveHandle s2.handles r with
       | .ok hv => (.ok (.int hv), s2)
       | .error e => (.error e, s2)) := by
  simp only [decPayload]
  rw [bind_ok h1]
  simp only [bne_self_eq_false, Bool.false_eq_true, ↓reduceIte]
  rw [bind_ok h2]
  simp only [bind_run, rGetHandle, pre_clean hc]
  cases resolveHandle s2.handles r <;> rfl

/-- **A value with handles round-trips to handles denoting the same resources** (also inside
table entries: `t` ranges over the whole grammar): C01 with the reader resolving every
reference the writer returned to the handle it was returned for. -/
theorem C15_roundtrip (t : Ty) (hwf : t.wf = true) (v : Val) (h : HChan) (bs : Bytes) (h' : HChan)
    (prior : Val) (hv : valid t v = true) (he : encode t v h = .ok (bs, h'))
    (s : Src) (rest : Bytes) (hc : s.fault = .none) (hb : s.bytes = bs ++ rest)
    (hf : framesOk bs.length s.frames = true) (hr : Resolves s.handles h'.pushed) :
    decInto t prior s = (.ok v, s.adv bs.length) :=
  C01_roundtrip t hwf v h bs h' prior hv he s rest hc hb hf hr

/-- non-vacuity: a table whose entries hold a handle and a vector of handles, in a structure
after another handle: pushes are 7 (member), 8 (entry 1), 9 and 10 (entry 2), in that order -/
example :
    let H := Ty.handle 0 0 .u64
    let t := Ty.prod .struct [H, .table 9 [(1, false), (2, false)] [H, .seq .vector H]]
    let v := Val.list [.int 7, .list [.tag 0 (.int 8), .tag 0 (.list [.int 9, .int 10])]]
    handlesOf t v = [7, 8, 9, 10] ∧
    (match encode t v { refs := [.ok 40, .ok 41, .ok 42, .ok 43, .ok 44] } with
     | .ok (_, h') => (h'.pushed, h'.refs.length)
     | .error _ => ([], 0)) = ([(7, 40), (8, 41), (9, 42), (10, 43)], 1) := by
  exact ⟨rfl, rfl⟩

end Nop

namespace Nop.UH

/-- **Invariant over all ownership histories**: after any finite sequence of construct / move /
assign / release / close / destroy over any number of UniqueHandles, every resource created is in
exactly one place — owned by exactly one handle object, or closed exactly once, or released to
the caller and never closed. -/
theorem C15_unique_inv (ops : List Op) : Inv (run W.init ops) := run_inv init_inv ops

/-- **Closes exactly once, never what was released or moved away.** -/
theorem C15_close_once (ops : List Op) :
    (run W.init ops).closed.Nodup ∧
    (∀ x ∈ (run W.init ops).closed, x ∉ (run W.init ops).released ∧ ∀ v, (run W.init ops).vars v ≠ some x) :=
  let h := C15_unique_inv ops
  ⟨h.closedNodup, fun x hx => ⟨(h.closedOk x hx).2.2.2, (h.closedOk x hx).2.2.1⟩⟩

/-- once no handle object is left, every resource that was ever owned has been closed exactly
once — unless it was released, in which case it was never closed -/
theorem C15_all_closed (ops : List Op) (hgone : ∀ v, (run W.init ops).vars v = none) (x : Int)
    (h0 : 0 ≤ x) (h1 : x < ((run W.init ops).next : Int)) :
    ((run W.init ops).closed.count x = 1 ∧ x ∉ (run W.init ops).released) ∨
    (x ∈ (run W.init ops).released ∧ (run W.init ops).closed.count x = 0) := by
  have h := C15_unique_inv ops
  rcases h.total x h0 h1 with ⟨v, hv⟩ | hc | hr
  · rw [hgone v] at hv; cases hv
  · left
    exact ⟨by rw [h.closedNodup.count]; simp [hc], (h.closedOk x hc).2.2.2⟩
  · right
    refine ⟨hr, List.count_eq_zero.2 ?_⟩
    intro hc; exact (h.closedOk x hc).2.2.2 hr

/-- move-assignment closes what the target owned and takes over the source's resource; the
source is left empty -/
theorem C15_move_assign (w : W) (v src : Nat) (y x : Int) (hne : v ≠ src) (hv : w.vars v = some y)
    (hs : w.vars src = some x) :
    (step w (.moveAssign v src)).1.vars v = some x ∧ (step w (.moveAssign v src)).1.vars src = some (-1) ∧
    (step w (.moveAssign v src)).1.closed = if y = -1 then w.closed else w.closed ++ [y] := by
  have hsv : src ≠ v := fun h => hne h.symm
  simp [step, hv, hs, hne, hsv, closeVal_closed]

/-- non-vacuity: move chains, self move-assignment, release, close twice, destruction -/
example :
    let ops : List Op := [.mkValue 0, .mkValue 1, .moveAssign 0 1, .moveAssign 0 0, .moveCtor 2 0, .destroy 0, .mkValue 0,
      .release 0, .close 2, .close 2, .destroy 0, .destroy 1, .destroy 2]
    let w := run W.init ops
    w.closed = [0, 1] ∧ w.released = [2] ∧ w.next = 3 := by decide

end Nop.UH
