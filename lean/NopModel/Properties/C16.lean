import NopModel.Lemmas.Io
import NopModel.Lemmas.ConfDec
/-! C16 — BoundedReader / BoundedWriter confine all traffic to their byte limit.
All statements hold for every limit `< 2^64`, every call sequence, every size (up to
2^64-1 and beyond), and every wrapped reader/writer — including one that fails at
arbitrary calls (`Scripted`). -/
namespace Nop.Io

/-- **Confinement (reader).** Over a wrapped reader that logs and answers each call
arbitrarily: after any sequence of Ensure/Read/Skip/ReadPadding calls, the bytes the
wrapped reader was made to consume equal the bounded reader's index, which never exceeds
the limit. -/
theorem C16_reader_confined (limit : Nat) (hl : limit < W) (inner : Scripted) (ops : List BOp) :
    let s := ops.foldl (bstep scriptedRd) { inner, size := limit, index := 0 }
    consumed s.inner.log = consumed inner.log + s.index ∧ s.index ≤ limit ∧ s.size = limit := by
  have h0 : Confined (consumed inner.log) ({ inner, size := limit, index := 0 } : Bounded Scripted) :=
    ⟨⟨Nat.zero_le _, hl⟩, rfl⟩
  have h := bsteps_confined h0 ops
  have hsz : (ops.foldl (bstep scriptedRd) ({ inner, size := limit, index := 0 } : Bounded Scripted)).size = limit := by
    have : ∀ (ops : List BOp) (s : Bounded Scripted), s.Inv → (ops.foldl (bstep scriptedRd) s).size = s.size := by
      intro ops
      induction ops with
      | nil => intro s _; rfl
      | cons op ops ih =>
        intro s hs
        simp only [List.foldl_cons]
        rw [ih _ (bstep_inv scriptedRd hs op)]
        exact (bstep_fields scriptedRd hs op).1
    exact this ops _ h0.1
  refine ⟨h.2, ?_, hsz⟩
  have := h.1.1
  rw [hsz] at this
  exact this

/-- **A call that would cross the limit** returns ReadLimitReached and leaves the bounded
reader *and the wrapped reader* exactly as they were (for any wrapped reader). -/
theorem C16_reader_cross_untouched {σ} (r : Rd σ) (s : Bounded σ) (h : s.Inv) (n : Nat) (hn : s.rem < n) :
    (boundedRd r).read n s = (.error .readLimitReached, s) ∧
    (boundedRd r).skip n s = (some .readLimitReached, s) ∧
    (boundedRd r).ensure n s = (some .readLimitReached, s) :=
  ⟨bounded_read_cross r h hn, bounded_skip_cross r h hn, bounded_ensure_cross r h hn⟩

/-- **Within the limit** a call behaves exactly like the wrapped reader and is charged to
the budget only when it succeeds. -/
theorem C16_reader_transparent {σ} (r : Rd σ) (s : Bounded σ) (h : s.Inv) (n : Nat) (hn : n ≤ s.rem) :
    (boundedRd r).read n s =
      (match r.read n s.inner with
       | (.ok bs, i) => (.ok bs, { s with inner := i, index := s.index + n })
       | (.error e, i) => (.error e, { s with inner := i })) ∧
    (boundedRd r).skip n s =
      (match r.skip n s.inner with
       | (none, i) => (none, { s with inner := i, index := s.index + n })
       | (some e, i) => (some e, { s with inner := i })) :=
  ⟨bounded_read_within r h hn, bounded_skip_within r h hn⟩

/-- **ReadPadding** skips exactly the remaining budget on the wrapped reader and leaves the
bounded reader at its limit. -/
theorem C16_read_padding {σ} (r : Rd σ) (s : Bounded σ) (h : s.Inv) :
    readPadding r s =
      match r.skip s.rem s.inner with
      | (none, i) => (none, { s with inner := i, index := s.size })
      | (some e, i) => (some e, { s with inner := i }) :=
  readPadding_spec r h

/-- **Confinement (writer)**, symmetric. -/
theorem C16_writer_confined (limit : Nat) (hl : limit < W) (inner : Scripted) (ops : List WOp) :
    let s := ops.foldl (wstep scriptedWr) { inner, size := limit, index := 0 }
    consumed s.inner.log = consumed inner.log + s.index ∧ s.index ≤ s.size := by
  have h0 : Confined (consumed inner.log) ({ inner, size := limit, index := 0 } : Bounded Scripted) :=
    ⟨⟨Nat.zero_le _, hl⟩, rfl⟩
  have h := wsteps_confined h0 ops
  exact ⟨h.2, h.1.1⟩

theorem C16_writer_cross_untouched {σ} (w : Wr σ) (s : Bounded σ) (h : s.Inv) (n : Nat) (pad : UInt8)
    (bs : Bytes) (hn : s.rem < n) (hb : s.rem < bs.length) :
    (boundedWr w).prepare n s = (some .writeLimitReached, s) ∧
    (boundedWr w).write bs s = (some .writeLimitReached, s) ∧
    (boundedWr w).skip n pad s = (some .writeLimitReached, s) :=
  ⟨boundedW_prepare_cross w h hn, boundedW_write_cross w h hb, boundedW_skip_cross w h pad hn⟩

/-- **WritePadding** pads with the requested byte up to exactly the limit. -/
theorem C16_write_padding {σ} (w : Wr σ) (s : Bounded σ) (h : s.Inv) (pad : UInt8) :
    writePadding w pad s =
      match w.skip s.rem pad s.inner with
      | (none, i) => (none, { s with inner := i, index := s.size })
      | (some e, i) => (some e, { s with inner := i }) :=
  writePadding_spec w h pad

/-- The pre-fix `Prepare` (`index_ + size > size_` with wrap-around) accepted sizes near 2^64:
machine-checked counterexample (D8), and the repaired check rejects it. -/
theorem C16_legacy_prepare_wraps :
    let index := 8; let size := 16; let n := W - 1
    (decide (wadd index n > size) = false) ∧ (decide (n > wsub size index) = true) := by
  simp [wadd, wsub, W]

/-- non-vacuity: the invariant holds for a fresh bounded reader -/
example : ({ inner := (⟨[], []⟩ : Scripted), size := 10, index := 0 } : Bounded Scripted).Inv :=
  ⟨Nat.zero_le _, by simp [W]⟩

end Nop.Io

namespace Nop

/-- **The deserializer itself stays inside every enclosing BoundedReader**: for every type,
destination, source and stack of budgets (table-entry frames, user-supplied bounded readers),
a successful `Read` consumed no more than any of the budgets, charged each of them exactly what
it consumed, and would have succeeded identically had the outer budgets not been there. -/
theorem C16_decoder_confined (t : Ty) (prior : Val) (s : Src) (a : Val) (s' : Src)
    (h : decInto t prior s = (.ok a, s')) :
    ∃ c, s'.bytes = s.bytes.drop c ∧ (∀ b ∈ s.frames, c ≤ b) ∧ s'.frames = s.frames.map (· - c) ∧
      ∀ I O, s.frames = I ++ O → decInto t prior (s.withFrames I) = (.ok a, s'.withFrames (I.map (· - c))) := by
  obtain ⟨c, _, hb, hf, hfr, hl⟩ := conf_decInto t prior s a s' h
  exact ⟨c, hb, (framesOk_iff c s.frames).1 hf, hfr, hl⟩

end Nop
