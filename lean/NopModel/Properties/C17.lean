import NopModel.Lemmas.IoSpec
/-! C17 — all readers and all writers implement one byte-source / byte-sink contract.
`abs` maps each reader state to the bytes that remain; every shipped reader delivers
exactly `specRead` of that, in order, and fails exactly when the contract fails. -/
namespace Nop.Io

/-- Buffer / Pedantic readers: a transfer of `n` bytes succeeds iff `n` bytes remain, delivers
exactly the next `n` bytes of the source, and advances by `n`; otherwise ReadLimitReached
with the state untouched. Same for Skip. -/
theorem C17_buffer_reader_refines (s : BufR) (h : s.Inv) (n : Nat) :
    (n ≤ s.abs.length → ∃ s', bufRd.read n s = (.ok (s.abs.take n), s') ∧ s'.Inv ∧ s'.abs = s.abs.drop n) ∧
    (s.abs.length < n → bufRd.read n s = (.error .readLimitReached, s)) ∧
    (n ≤ s.abs.length → ∃ s', bufRd.skip n s = (none, s') ∧ s'.Inv ∧ s'.abs = s.abs.drop n) ∧
    (s.abs.length < n → bufRd.skip n s = (some .readLimitReached, s)) :=
  ⟨buf_read_ok h, buf_read_fail h, buf_skip_ok h, buf_skip_fail h⟩

/-- `Ensure(n)` on a bounded (buffer) reader succeeds exactly when `n` bytes remain. -/
theorem C17_ensure_iff (s : BufR) (h : s.Inv) (n : Nat) : (bufRd.ensure n s).1 = none ↔ n ≤ s.abs.length :=
  buf_ensure_iff h n

/-- Stream reader: same bytes in the same order; at exhaustion StreamError, and from then
on every transfer fails (never a byte that is not in the source). -/
theorem C17_stream_reader_refines (s : StreamR) (hf : s.failed = false) (hp : s.pos ≤ s.data.length) (n : Nat) :
    (n ≤ s.abs.length → ∃ s', streamRd.read n s = (.ok (s.abs.take n), s') ∧ s'.failed = false ∧
        s'.pos ≤ s'.data.length ∧ s'.abs = s.abs.drop n) ∧
    (s.abs.length < n → (streamRd.read n s).1 = .error .streamError ∧ (streamRd.read n s).2.failed = true) ∧
    (n ≤ s.abs.length → ∃ s', streamRd.skip n s = (none, s') ∧ s'.failed = false ∧ s'.abs = s.abs.drop n) ∧
    (s.abs.length < n → (streamRd.skip n s).1 = some .streamError) :=
  ⟨stream_read_ok hf hp, stream_read_fail hf, stream_skip_ok hf hp, stream_skip_fail hf⟩

theorem C17_stream_sticky (s : StreamR) (hf : s.failed = true) (n : Nat) :
    streamRd.read n s = (.error .streamError, s) ∧ streamRd.skip n s = (some .streamError, s) :=
  stream_sticky hf n

/-- Fd reader: same bytes in the same order; ReadLimitReached at end of file. -/
theorem C17_fd_reader_refines (s : FdR) (hp : s.pos ≤ s.data.length) (n : Nat) :
    (n ≤ s.abs.length → ∃ s', fdRd.read n s = (.ok (s.abs.take n), s') ∧ s'.pos ≤ s'.data.length ∧
        s'.abs = s.abs.drop n) ∧
    (s.abs.length < n → (fdRd.read n s).1 = .error .readLimitReached) :=
  ⟨fd_read_ok hp, fd_read_fail⟩

/-- Checked writers (Pedantic, Constexpr) refuse exactly the calls that exceed capacity and
otherwise append exactly the bytes given (Skip: `n` copies of the padding byte). -/
theorem C17_checked_writer (s : BufW) (hc : s.checked = true) (hl : s.out.length ≤ s.cap) (hcap : s.cap < W)
    (bs : Bytes) (n : Nat) (pad : UInt8) :
    bufWr.write bs s = (if bs.length ≤ s.cap - s.out.length then (none, { s with out := s.out ++ bs })
      else (some .writeLimitReached, s)) ∧
    bufWr.skip n pad s = (if n ≤ s.cap - s.out.length then (none, { s with out := s.out ++ List.replicate n pad })
      else (some .writeLimitReached, s)) ∧
    ((bufWr.prepare n s).1 = none ↔ n ≤ s.cap - s.out.length) :=
  ⟨bufW_write_checked hc hl hcap bs, bufW_skip_checked hc hl hcap n pad, bufW_prepare_iff hl hcap n⟩

/-- The unchecked BufferWriter refuses exactly in `Prepare`; writes that stay within what
`Prepare` admitted never leave the buffer. -/
theorem C17_unchecked_writer (s : BufW) (hc : s.checked = false) (ho : s.oob = false) (hl : s.out.length ≤ s.cap)
    (hcap : s.cap < W) (n : Nat) (bs : Bytes) (hprep : (bufWr.prepare n s).1 = none) (hfit : bs.length ≤ n) :
    (bufWr.write bs s).1 = none ∧ (bufWr.write bs s).2.oob = false ∧ (bufWr.write bs s).2.out = s.out ++ bs := by
  have := (bufW_prepare_iff hl hcap n).1 hprep
  exact bufW_unchecked_in_bounds hc ho bs (by omega)

/-- Bytes produced by compile-time serialization (byte-wise shifts) equal the run-time
little-endian representation, for every element width and value. -/
theorem C17_constexpr_eq_runtime (w x : Nat) : constexprElem w x = leBytes w x :=
  constexprElem_eq_leBytes w x

example : (⟨[1, 2, 3], 1⟩ : BufR).Inv := ⟨by decide, by simp [W]⟩

end Nop.Io
