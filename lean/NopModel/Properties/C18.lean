import NopModel.Lemmas.SipHash
/-! C18 — table hashes and method selectors are stable SipHash-2-4 values of the names. -/
namespace Nop.Sip

/-- **`SipHash::Compute` is SipHash-2-4**: for byte strings of every length and every 128-bit
key, the code's block loop + `ReadBlock` shift-or + fall-through tail switch + finalisation
equals the textbook definition. (The same `constexpr` function is evaluated at compile time
and at run time, so the two agree by construction; the correspondence check compares both
with this model.) -/
theorem C18_compute_eq (m : Bytes) (k0 k1 : UInt64) : compute m k0 k1 = sipHash24 k0 k1 m :=
  compute_eq m k0 k1

/-- The hash a `NOP_TABLE_NS(name, ...)` table carries on the wire is SipHash-2-4 of the
name **including its terminating NUL** under the table keys — a pure function of the name. -/
theorem C18_table_hash (name : Bytes) :
    tableHash name = sipHash24 kTableKey0 kTableKey1 (name ++ [0]) := compute_eq _ _ _

/-- Interface hash, and method selector = SipHash-2-4 of the method name keyed by the
interface hash, truncated to the selector width. -/
theorem C18_selector (iface method : Bytes) :
    interfaceHash iface = sipHash24 kInterfaceKey0 kInterfaceKey1 (iface ++ [0]) ∧
    methodSelector64 iface method =
      sipHash24 (sipHash24 kInterfaceKey0 kInterfaceKey1 (iface ++ [0])) kInterfaceKey1 (method ++ [0]) ∧
    methodSelector32 iface method = (methodSelector64 iface method).toUInt32 := by
  refine ⟨compute_eq _ _ _, ?_, rfl⟩
  unfold methodSelector64 interfaceHash
  rw [compute_eq, compute_eq]
  rfl

/-! Tests of the *specification* against the reference vectors of the SipHash paper
(key 00 01 .. 0f, message 00 01 .. len-1); labelled as tests, not as the unbounded claim. -/
def refKey0 : UInt64 := 0x0706050403020100
def refKey1 : UInt64 := 0x0f0e0d0c0b0a0908
def refMsg (n : Nat) : Bytes := (List.range n).map UInt8.ofNat

example : sipHash24 refKey0 refKey1 (refMsg 0) = 0x726fdb47dd0e0e31 := by decide +kernel
example : sipHash24 refKey0 refKey1 (refMsg 1) = 0x74f839c593dc67fd := by decide +kernel
example : sipHash24 refKey0 refKey1 (refMsg 7) = 0xab0200f58b01d137 := by decide +kernel
example : sipHash24 refKey0 refKey1 (refMsg 8) = 0x93f5f5799a932462 := by decide +kernel
example : sipHash24 refKey0 refKey1 (refMsg 15) = 0xa129ca6149be45e5 := by decide +kernel
example : sipHash24 refKey0 refKey1 (refMsg 63) = 0x958a324ceb064572 := by decide +kernel
example : compute (refMsg 15) refKey0 refKey1 = 0xa129ca6149be45e5 := by decide +kernel

/-- D7 (fixed): with `char` bytes sign-extended into the block word the result is not
SipHash-2-4: a one-byte message 0xe9 as the legacy tail switch saw it -/
example : finish (absorb (init kTableKey0 kTableKey1) (((1 : UInt64) <<< 56) ||| 0xffffffffffffffe9)) ≠
    sipHash24 kTableKey0 kTableKey1 [0xe9] := by decide +kernel

end Nop.Sip
