import NopModel.Threads
/-! C19 — No hidden shared state across threads; ThreadLocal is per thread and slot.
**Partial.** What the theorems carry: for a system whose state is a product of private
components (one per thread for serializers, readers, writers and value objects; one per
(thread, T, Slot) for ThreadLocal) *every* interleaving gives every owner exactly the results
of running its own operations alone, and leaves every other owner's state untouched. That the
library *is* such a product — no hidden shared component — is a fact about the C++ that the
model cannot exhibit: it is tied by the static-storage inventory of the headers (regenerated
and compared on every run) and by running the workloads concurrently under ThreadSanitizer. -/
namespace Nop.Threads

variable {κ σ op obs : Type} [DecidableEq κ]

/-- an event of key `k` changes nothing of any other key -/
theorem C19_private (S : Sys κ σ op obs) (g : κ → σ) (e : Ev κ op) (k : κ) (hk : k ≠ e.1) :
    (stepAt S g e).1 k = g k := by
  simp [stepAt, hk]

theorem stepAt_own (S : Sys κ σ op obs) (g : κ → σ) (e : Ev κ op) :
    (stepAt S g e).1 e.1 = (S.step (g e.1) e.2).1 ∧ (stepAt S g e).2 = (S.step (g e.1) e.2).2 := by
  simp [stepAt]

/-- **Noninterference for every schedule.** In any interleaving of the operations of any
number of owners, the final state of owner `k` and the sequence of results it observed are
exactly those of running `k`'s own operations, in their order, alone. -/
theorem C19_noninterference (S : Sys κ σ op obs) (k : κ) :
    ∀ (es : List (Ev κ op)) (g : κ → σ),
      ((run S g es).1 k, ((run S g es).2.filter (fun p => p.1 = k)).map (·.2)) =
        runAlone S (g k) ((es.filter (fun e => e.1 = k)).map (·.2))
  | [], g => rfl
  | e :: es, g => by
    have ih := C19_noninterference S k es (stepAt S g e).1
    by_cases hk : e.1 = k
    · have h1 := (stepAt_own S g e).1
      have h2 := (stepAt_own S g e).2
      simp only [run, List.filter_cons, hk, decide_true, ↓reduceIte, List.map_cons, runAlone]
      rw [hk] at h1
      rw [h1] at ih
      rw [← ih, h2, hk]
    · have hne : k ≠ e.1 := fun h => hk h.symm
      have h1 := C19_private S g e k hne
      simp only [run, List.filter_cons, hk, decide_false, Bool.false_eq_true, ↓reduceIte]
      rw [h1] at ih
      exact ih

/-- two schedules that give owner `k` the same operations in the same order are
indistinguishable to `k`, whatever everybody else does and however the events interleave -/
theorem C19_schedule_independent (S : Sys κ σ op obs) (k : κ) (es es' : List (Ev κ op)) (g g' : κ → σ)
    (hg : g k = g' k) (hops : (es.filter (fun e => e.1 = k)).map (·.2) = (es'.filter (fun e => e.1 = k)).map (·.2)) :
    ((run S g es).1 k, ((run S g es).2.filter (fun p => p.1 = k)).map (·.2)) =
    ((run S g' es').1 k, ((run S g' es').2.filter (fun p => p.1 = k)).map (·.2)) := by
  rw [C19_noninterference, C19_noninterference, hg, hops]

/-! ### ThreadLocal<T, Slot> -/

/-- **Initialisation, writes and Clear in one thread or slot are never observable from
another**: the ThreadLocal instance of noninterference, keys = (thread, slot). -/
theorem C19_threadlocal_private (k : Nat × Nat) (es : List (Ev (Nat × Nat) TLOp)) (g : Nat × Nat → Option Int) :
    ((run (tlSys (Nat × Nat)) g es).1 k, ((run (tlSys (Nat × Nat)) g es).2.filter (fun p => p.1 = k)).map (·.2)) =
      runAlone (tlSys (Nat × Nat)) (g k) ((es.filter (fun e => e.1 = k)).map (·.2)) :=
  C19_noninterference (tlSys (Nat × Nat)) k es g

/-- **The first initialisation in a thread wins until Clear**: once a value is there, any
sequence of Initialize / Get leaves it there. -/
theorem C19_first_init_wins (x : Int) : ∀ (ops : List TLOp), (∀ o ∈ ops, o ≠ .clear) →
    (runAlone (tlSys Nat) (some x) ops).1 = some x ∧ ∀ r ∈ (runAlone (tlSys Nat) (some x) ops).2, r = some x
  | [], _ => ⟨rfl, by simp [runAlone]⟩
  | o :: ops, h => by
    have hne : o ≠ .clear := h o (List.mem_cons_self ..)
    have ih := C19_first_init_wins x ops (fun o' ho' => h o' (List.mem_cons_of_mem _ ho'))
    cases o with
    | clear => exact absurd rfl hne
    | init v => simpa [runAlone, tlSys, tlStep] using ih
    | get => simpa [runAlone, tlSys, tlStep] using ih

theorem C19_init_after_clear (s : Option Int) (v : Int) :
    (runAlone (tlSys Nat) s [.clear, .init v, .get]).2 = [none, some v, some v] := by
  cases s <;> rfl

/-- non-vacuity: two threads and two slots interleaved -/
example :
    let es : List (Ev (Nat × Nat) TLOp) :=
      [((0, 0), .init 1), ((1, 0), .init 2), ((0, 1), .init 3), ((0, 0), .init 9), ((1, 0), .clear), ((0, 0), .get), ((1, 0), .get)]
    ((run (tlSys (Nat × Nat)) (fun _ => none) es).2.map (·.2)) = [some 1, some 2, some 3, some 1, none, some 1, none] := by
  decide

end Nop.Threads
