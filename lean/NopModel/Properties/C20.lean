import NopModel.Lemmas.Endian
/-! C20 — HostEndian conversions are correct byte-order maps for ints and floats.
`n` is `sizeof(T)` (any width, in particular 1, 2, 4, 8), `x` the value's `8n`-bit pattern
(for `float`/`double` the bit pattern: the floating-point specialization runs the same
byte reassembly through the integral converter, so all patterns incl. NaN payloads are
covered), `littleHost` the byte order of the machine. -/
namespace Nop.Endian

/-- On a little-endian host the little-endian conversions are the identity (on `n`-byte
patterns) and the big-endian conversions reverse the object's bytes. -/
theorem C20_le_host (n x : Nat) :
    fromLittle true n x = x % 256 ^ n ∧ fromBig true n x = byteReverse n x := by
  simp [fromLittle, fromBig, hostBytes, fromLittleBytes_eq, fromBigBytes_eq, ofLE_leBytes, byteReverse]

/-- Conversely on a big-endian host. -/
theorem C20_be_host (n x : Nat) :
    fromBig false n x = x % 256 ^ n ∧ fromLittle false n x = byteReverse n x := by
  simp [fromLittle, fromBig, hostBytes, fromLittleBytes_eq, fromBigBytes_eq, ofLE_leBytes, byteReverse]

/-- reversing bytes twice is the identity -/
theorem byteReverse_involutive (n x : Nat) : byteReverse n (byteReverse n x) = x % 256 ^ n := by
  unfold byteReverse
  have h := leBytes_ofLE (leBytes n x).reverse
  simp only [List.length_reverse, leBytes_length] at h
  rw [h, List.reverse_reverse, ofLE_leBytes]

/-- `To*` and `From*` are the same map (as in the header) and mutual inverses on `n`-byte
patterns, on either kind of host. -/
theorem C20_inverse (littleHost : Bool) (n x : Nat) (hx : x < 256 ^ n) :
    fromBig littleHost n (fromBig littleHost n x) = x ∧
    fromLittle littleHost n (fromLittle littleHost n x) = x := by
  cases littleHost
  · have h := C20_be_host n x
    have hr := byteReverse_involutive n x
    rw [Nat.mod_eq_of_lt hx] at h hr
    refine ⟨?_, ?_⟩
    · rw [h.1, h.1]
    · rw [h.2, (C20_be_host n (byteReverse n x)).2, hr]
  · have h := C20_le_host n x
    have hr := byteReverse_involutive n x
    rw [Nat.mod_eq_of_lt hx] at h hr
    refine ⟨?_, ?_⟩
    · rw [h.2, (C20_le_host n (byteReverse n x)).2, hr]
    · rw [h.1, h.1]

/-- the result of a conversion is again an `n`-byte pattern -/
theorem byteReverse_lt (n x : Nat) : byteReverse n x < 256 ^ n := by
  have := ofLE_lt (leBytes n x).reverse
  simpa [byteReverse] using this

/-- D6 (fixed): the float specialization used to call the *opposite* integral converter.
Machine-checked: on a little-endian host that makes `FromLittle(1.0f)` the byte-reversed
pattern instead of the identity. -/
theorem C20_legacy_float_swapped :
    fromBigBytes (hostBytes true 4 0x3f800000) = 0x0000803f ∧ fromLittle true 4 0x3f800000 = 0x3f800000 := by
  decide

example : fromBig true 4 0x11223344 = 0x44332211 := by decide
example : fromBig true 8 0x7ff8000000000001 = 0x010000000000f87f := by decide

end Nop.Endian
