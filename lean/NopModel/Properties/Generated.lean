import NopModel.Generated
import NopModel.Wire
import NopModel.SipHash
/-! Proof obligations tying the model's constants to what /repo says *now*: `Generated.lean`
is rewritten from the headers and docs/format.md on every run, and these theorems are
re-checked. Built as a separate target so that a changed constant breaks exactly the
properties that depend on it. -/
namespace Nop

/-- every `EncodingByte` enumerator has the value the model uses -/
theorem gen_prefix_table : Generated.encodingBytes = prefixTable := by decide

/-- `BaseEncodingSize` of all 256 prefix bytes -/
theorem gen_base_encoding_size :
    (List.range 256).map (fun b => baseEncodingSize (UInt8.ofNat b)) = Generated.baseEncodingSize := by
  decide +kernel

/-- `ErrorStatus` enumerators, their numeric values and their messages -/
theorem gen_error_status :
    Err.all.map (fun e => (e.name, e.code, e.message)) = Generated.errorStatus := by decide

/-- no `ErrorStatus` falls through to "Unknown Error" (C13) -/
theorem gen_messages_defined : ∀ r ∈ Generated.errorStatus, r.2.2 ≠ "Unknown Error" := by decide

/-- docs/format.md's prefix table is the one the model transcribes ... -/
theorem gen_doc_table :
    Generated.docPrefixes.map (fun r => (r.2.1, r.2.2.1, r.2.2.2)) = docTable.map (fun r => (r.1, r.2.1, r.2.2.1)) := by
  decide

/-- ... and agrees with the code: each documented row starts at its enumerator's value -/
theorem gen_doc_matches_code : ∀ r ∈ docTable, (r.2.2.2, r.2.1) ∈ prefixTable := by decide

/-- ranges end where the code's Max enumerators say -/
theorem gen_doc_range_ends :
    ("PositiveFixIntMax", 0x7f) ∈ prefixTable ∧ ("ReservedMax", 0xb4) ∈ prefixTable ∧
    ("NegativeFixIntMax", 0xff) ∈ prefixTable := by decide

theorem gen_keys :
    Generated.tableKey0 = Sip.kTableKey0.toNat ∧ Generated.tableKey1 = Sip.kTableKey1.toNat ∧
    Generated.interfaceKey0 = Sip.kInterfaceKey0.toNat ∧ Generated.interfaceKey1 = Sip.kInterfaceKey1.toNat := by
  decide

theorem gen_misc :
    Generated.sizeofSizeType = 8 ∧ Generated.emptyVariantIndex = -1 ∧ Generated.emptyHandleReference = -1 := by
  decide

end Nop
