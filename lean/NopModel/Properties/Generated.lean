import NopModel.Generated
import NopModel.Wire
import NopModel.SipHash
import NopModel.Codec
/-! Proof obligations tying the model's constants to what /repo says *now*: `Generated.lean`
is rewritten from the headers and docs/format.md on every run, and these theorems are
re-checked. Built as a separate target so that a changed constant breaks exactly the
properties that depend on it. -/
namespace Nop

/-- every `EncodingByte` enumerator has the value the model uses -/
theorem gen_prefix_table : Generated.encodingBytes = prefixTable := by decide

/-- `BaseEncodingSize` of all 256 prefix bytes -/
theorem gen_base_encoding_size :
    (List.range 256).map (fun b => baseEncodingSize (UInt8.ofNat b)) = Generated.baseEncodingSize := by
  decide +kernel

/-- `ErrorStatus` enumerators, their numeric values and their messages -/
theorem gen_error_status :
    Err.all.map (fun e => (e.name, e.code, e.message)) = Generated.errorStatus := by decide

/-- no `ErrorStatus` falls through to "Unknown Error" (C13) -/
theorem gen_messages_defined : ∀ r ∈ Generated.errorStatus, r.2.2 ≠ "Unknown Error" := by decide

/-- docs/format.md's prefix table is the one the model transcribes ... -/
theorem gen_doc_table :
    Generated.docPrefixes.map (fun r => (r.2.1, r.2.2.1, r.2.2.2)) = docTable.map (fun r => (r.1, r.2.1, r.2.2.1)) := by
  decide

/-- ... and agrees with the code: each documented row starts at its enumerator's value -/
theorem gen_doc_matches_code : ∀ r ∈ docTable, (r.2.2.2, r.2.1) ∈ prefixTable := by decide

/-- ranges end where the code's Max enumerators say -/
theorem gen_doc_range_ends :
    ("PositiveFixIntMax", 0x7f) ∈ prefixTable ∧ ("ReservedMax", 0xb4) ∈ prefixTable ∧
    ("NegativeFixIntMax", 0xff) ∈ prefixTable := by decide

theorem gen_keys :
    Generated.tableKey0 = Sip.kTableKey0.toNat ∧ Generated.tableKey1 = Sip.kTableKey1.toNat ∧
    Generated.interfaceKey0 = Sip.kInterfaceKey0.toNat ∧ Generated.interfaceKey1 = Sip.kInterfaceKey1.toNat := by
  decide

theorem gen_misc :
    Generated.sizeofSizeType = 8 ∧ Generated.emptyVariantIndex = -1 ∧ Generated.emptyHandleReference = -1 := by
  decide

/-- the 256-entry `Match` table of a model type -/
def matchTable (t : Ty) : List Bool := (List.range 256).map (fun b => matchP t (UInt8.ofNat b))

/-- **`Match` of the real encodings, executed on all 256 prefix bytes, is the model's `matchP`**:
the eight integer kinds, bool, float, double, string, integral and non-integral vectors and
arrays, map, tuple, pair, Optional (of an integer and of a string) and Variant. With
`C04_int_classes` this ties the documented integer-class rule to the source exhaustively, with
no sampling. -/
theorem gen_match_tables :
    Generated.matchTables =
      IntKind.all.map (fun k => (k.name, matchTable (.int k .plain))) ++
      [("bool", matchTable .bool), ("f32", matchTable (.float false)), ("f64", matchTable (.float true)),
       ("string", matchTable (.str 0 1)),
       ("vector_u8", matchTable (.seq .vector (.int .u8 .plain))), ("vector_string", matchTable (.seq .vector (.str 0 1))),
       ("array_i16_2", matchTable (.seq (.array 2) (.int .i16 .plain))), ("array_string_2", matchTable (.seq (.array 2) (.str 0 1))),
       ("map", matchTable (.map true (.int .u8 .plain) (.str 0 1))),
       ("tuple", matchTable (.prod .tuple [.int .u8 .plain, .str 0 1])),
       ("pair", matchTable (.prod .pair [.int .u8 .plain, .str 0 1])),
       ("optional_u16", matchTable (.opt (.int .u16 .plain))), ("optional_string", matchTable (.opt (.str 0 1))),
       ("variant", matchTable (.variant [.int .i32 .plain, .str 0 1]))] := by
  decide +kernel

/-- the model's `encInt` emits prefix `r.2.2.1` and `r.2.2.2` bytes for value `r.2.1` of kind `r.1` -/
def pointOk (r : String × Int × Nat × Nat) : Bool :=
  match IntKind.ofName? r.1 with
  | some k => (encInt k r.2.1).head? == some (UInt8.ofNat r.2.2.1) && (encInt k r.2.1).length == r.2.2.2
  | none => false

/-- **The class and the size the real integer encoders choose at every class boundary** (and
one step on either side, for each of the eight kinds) are the model's `encInt` -/
theorem gen_prefix_points : Generated.prefixPoints.all pointOk = true := by
  decide +kernel

end Nop
