import NopModel.Codec
/-!
  The RPC layer (include/nop/rpc/interface.h, simple_method_sender.h, simple_method_receiver.h)
  over the codec model: `InterfaceBindings::operator()` reads the selector, walks the bindings,
  `Helper::Dispatch` reads the argument tuple, calls the handler, sends the return value;
  `SimpleMethodSender::SendMethod` writes selector and argument tuple and reads the return.
-/
namespace Nop.Rpc

structure Method where
  sel : Nat                 -- InterfaceMethod::Selector
  args : List Ty            -- protocol argument types: the wire type is their tuple
  ret : Ty

/-- a handler bound to a method; it receives the decoded argument tuple (a `.list`) -/
structure Bound where
  m : Method
  handler : Val → Val

def Method.argsTy (m : Method) : Ty := .prod .tuple m.args

structure Res where
  status : Option Err              -- what the dispatcher returns (none = success)
  calls : List (Nat × Val)         -- handlers that ran: (selector, argument tuple), in order
  sent : Bytes                     -- what was written back to the caller
  deriving Inhabited

/-- `DispatchTable`: the binding whose method matches the selector -/
def lookup (bs : List Bound) (sel : Int) : Option Bound :=
  bs.find? (fun b => (b.m.sel : Int) == sel)

/-- `InterfaceBindings::operator()(receiver, passthrough...)` for one incoming request -/
def dispatch (sk : IntKind) (bs : List Bound) (s : Src) : Res × Src :=
  match decInt sk s with
  | (.error e, s1) => ({ status := some e, calls := [], sent := [] }, s1)
  | (.ok sel, s1) =>
    match lookup bs sel with
    | none => ({ status := some .invalidInterfaceMethod, calls := [], sent := [] }, s1)
    | some b =>
      match decInto b.m.argsTy (dflt b.m.argsTy) s1 with
      | (.error e, s2) => ({ status := some e, calls := [], sent := [] }, s2)
      | (.ok v, s2) =>
        match encode b.m.ret (b.handler v) {} with
        | .ok (out, _) => ({ status := none, calls := [(b.m.sel, v)], sent := out }, s2)
        | .error e => ({ status := some e, calls := [(b.m.sel, v)], sent := [] }, s2)

/-- `SimpleMethodSender::SendMethod`, the request half: selector then argument tuple -/
def request (sk : IntKind) (m : Method) (args : Val) : Except Err Bytes :=
  match encode m.argsTy args {} with
  | .ok (bs, _) => .ok (encInt sk m.sel ++ bs)
  | .error e => .error e

/-- ... and the reply half: `GetReturn` reads a `Return` -/
def readReply (m : Method) : M Val := decInto m.ret (dflt m.ret)

/-- serve `n` requests back to back on one connection -/
def serve (sk : IntKind) (bs : List Bound) : Nat → Src → List Res × Src
  | 0, s => ([], s)
  | n + 1, s =>
    let (r, s1) := dispatch sk bs s
    match r.status with
    | some _ => ([r], s1)            -- the connection is not served past a failed dispatch
    | none => let (rs, s2) := serve sk bs n s1; (r :: rs, s2)

end Nop.Rpc
