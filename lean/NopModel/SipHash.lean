/-
  `SipHash::Compute` (include/nop/utility/sip_hash.h): the code's shape — block loop by
  offset with `ReadBlock` shift-or, a fall-through `switch` on the left-over length,
  finalisation — and, separately, textbook SipHash-2-4 as the specification.
-/
import NopModel.Wire
namespace Nop.Sip

structure St where
  v0 : UInt64
  v1 : UInt64
  v2 : UInt64
  v3 : UInt64
  deriving Repr, DecidableEq

def rotl (x : UInt64) (b : UInt64) : UInt64 := (x <<< b) ||| (x >>> (64 - b))

/-- `SipHash::Round` -/
def round (s : St) : St :=
  let v0 := s.v0 + s.v1
  let v1 := rotl s.v1 13
  let v1 := v1 ^^^ v0
  let v0 := rotl v0 32
  let v2 := s.v2 + s.v3
  let v3 := rotl s.v3 16
  let v3 := v3 ^^^ v2
  let v0 := v0 + v3
  let v3 := rotl v3 21
  let v3 := v3 ^^^ v0
  let v2 := v2 + v1
  let v1 := rotl v1 17
  let v1 := v1 ^^^ v2
  let v2 := rotl v2 32
  ⟨v0, v1, v2, v3⟩

def init (k0 k1 : UInt64) : St :=
  ⟨0x736f6d6570736575 ^^^ k0, 0x646f72616e646f6d ^^^ k1, 0x6c7967656e657261 ^^^ k0, 0x7465646279746573 ^^^ k1⟩

/-- absorb one 64-bit word: `v3 ^= m; Round; Round; v0 ^= m` -/
def absorb (s : St) (m : UInt64) : St :=
  let s := { s with v3 := s.v3 ^^^ m }
  let s := round (round s)
  { s with v0 := s.v0 ^^^ m }

def finish (s : St) : UInt64 :=
  let s := { s with v2 := s.v2 ^^^ 0xff }
  let s := round (round (round (round s)))
  s.v0 ^^^ s.v1 ^^^ s.v2 ^^^ s.v3

def byteAt (buf : Bytes) (i : Nat) : UInt64 := (buf.getD i 0).toUInt64

/-! ### the code's shape -/

/-- `ReadBlock(buffer, offset)` -/
def readBlock (buf : Bytes) (off : Nat) : UInt64 :=
  (byteAt buf (off + 7) <<< 56) ||| (byteAt buf (off + 6) <<< 48) ||| (byteAt buf (off + 5) <<< 40) |||
  (byteAt buf (off + 4) <<< 32) ||| (byteAt buf (off + 3) <<< 24) ||| (byteAt buf (off + 2) <<< 16) |||
  (byteAt buf (off + 1) <<< 8) ||| (byteAt buf (off + 0) <<< 0)

/-- the `for (offset = 0; offset < kEndOffset; offset += 8)` loop, `n` iterations from `off` -/
def blockLoop (buf : Bytes) : Nat → Nat → St → St
  | 0, _, s => s
  | n + 1, off, s => blockLoop buf n (off + 8) (absorb s (readBlock buf off))

/-- the `switch (kLeftOver)` with its fall-through cases -/
def tailWord (buf : Bytes) (endOff left : Nat) (b : UInt64) : UInt64 :=
  let b := if left ≥ 7 then b ||| (byteAt buf (endOff + 6) <<< 48) else b
  let b := if left ≥ 6 then b ||| (byteAt buf (endOff + 5) <<< 40) else b
  let b := if left ≥ 5 then b ||| (byteAt buf (endOff + 4) <<< 32) else b
  let b := if left ≥ 4 then b ||| (byteAt buf (endOff + 3) <<< 24) else b
  let b := if left ≥ 3 then b ||| (byteAt buf (endOff + 2) <<< 16) else b
  let b := if left ≥ 2 then b ||| (byteAt buf (endOff + 1) <<< 8) else b
  let b := if left ≥ 1 then b ||| (byteAt buf (endOff + 0) <<< 0) else b
  b

/-- `SipHash::Compute(buffer, k0, k1)` -/
def compute (buf : Bytes) (k0 k1 : UInt64) : UInt64 :=
  let len := buf.length
  let left := len % 8
  let endOff := len - left
  let b : UInt64 := (UInt64.ofNat len) <<< 56
  let s := blockLoop buf (endOff / 8) 0 (init k0 k1)
  let b := tailWord buf endOff left b
  finish (absorb s b)

/-! ### textbook SipHash-2-4 -/

/-- little-endian value of up to 8 bytes: byte `i` contributes `b_i · 2^(8i)` -/
def leWordAux : Nat → Bytes → UInt64
  | _, [] => 0
  | i, b :: r => (b.toUInt64 <<< UInt64.ofNat (8 * i)) ||| leWordAux (i + 1) r
def leWord (bs : Bytes) : UInt64 := leWordAux 0 bs

/-- absorb all complete 8-byte words, return the state and the (< 8 byte) remainder -/
def absorbWords (s : St) (m : Bytes) : St × Bytes :=
  if h : 8 ≤ m.length then
    absorbWords (absorb s (leWord (m.take 8))) (m.drop 8)
  else (s, m)
termination_by m.length
decreasing_by simp; omega

/-- SipHash-2-4 (Aumasson & Bernstein): message words little-endian, final word = remaining
bytes with the message length (mod 256) in the top byte, 2 compression rounds per word,
`v2 ^= 0xff`, 4 finalisation rounds, output `v0^v1^v2^v3` -/
def sipHash24 (k0 k1 : UInt64) (m : Bytes) : UInt64 :=
  let (s, rest) := absorbWords (init k0 k1) m
  let last := leWord rest ||| ((UInt64.ofNat m.length) <<< 56)
  finish (absorb s last)

/-! ### libnop's uses -/
def kTableKey0 : UInt64 := 0xbaadf00ddeadbeef
def kTableKey1 : UInt64 := 0x0123456789abcdef
def kInterfaceKey0 : UInt64 := 0xdeadcafebaadf00d
def kInterfaceKey1 : UInt64 := 0x0123456789abcdef

/-- a C string literal as the macros see it: the characters and the terminating NUL -/
def cstr (name : Bytes) : Bytes := name ++ [0]

/-- `NOP_TABLE_NS(name, ...)` -/
def tableHash (name : Bytes) : UInt64 := compute (cstr name) kTableKey0 kTableKey1
/-- `NOP_INTERFACE(name)` -/
def interfaceHash (name : Bytes) : UInt64 := compute (cstr name) kInterfaceKey0 kInterfaceKey1
/-- `NOP_METHOD(name, ...)` with a 64-bit selector, and its truncation for NOP_INTERFACE32 -/
def methodSelector64 (iface method : Bytes) : UInt64 := compute (cstr method) (interfaceHash iface) kInterfaceKey1
def methodSelector32 (iface method : Bytes) : UInt32 := (methodSelector64 iface method).toUInt32

end Nop.Sip
