/-
  Byte source model: what every libnop reader looks like to `Encoding<T>::Read`.

  * `bytes`        the bytes that remain in the underlying source,
  * `frames`       remaining budgets of the enclosing `BoundedReader`s, innermost first
                   (`BoundedReader<BoundedReader<R>>` for nested table entries),
  * `eof`          the error the underlying reader reports when data runs out
                   (`ReadLimitReached` for buffer and fd readers, `StreamError` for streams),
  * `ensureChecks` whether the underlying `Ensure` looks at the remaining data (buffer
                   readers) or always succeeds (stream and fd readers, by documented design),
  * `handles`      the out-of-band handle table `GetHandle` resolves references in,
  * `fault`        fault-injection script for C10: the k-th call that reaches the
                   underlying reader fails with a chosen error.
-/
import NopModel.Wire
namespace Nop

inductive Fault
  | none
  | armed (k : Nat) (e : Err)   -- k more successful base calls, then fail with e
  | dead (e : Err)              -- the injected failure has happened
  | zombie (e : Err)            -- a base call was issued after the failure
  deriving DecidableEq, Repr, Inhabited

structure Src where
  bytes : Bytes
  frames : List Nat := []
  eof : Err := .readLimitReached
  ensureChecks : Bool := true
  handles : List Int := []
  fault : Fault := .none
  deriving Repr, Inhabited

/-- state-and-error monad over a byte source; the state is returned on error too -/
def M (α : Type) := Src → Except Err α × Src

@[inline] def M.pure {α} (a : α) : M α := fun s => (.ok a, s)
@[inline] def M.bind {α β} (x : M α) (f : α → M β) : M β := fun s =>
  match x s with
  | (.ok a, s') => f a s'
  | (.error e, s') => (.error e, s')
@[inline] def M.fail {α} (e : Err) : M α := fun s => (.error e, s)

instance : Monad M where
  pure := M.pure
  bind := M.bind

/-- every enclosing budget admits `n` more bytes -/
def framesOk (n : Nat) (fs : List Nat) : Bool := fs.all (fun b => n ≤ b)

/-- consume `n` bytes: from the source and from every enclosing budget -/
def Src.adv (s : Src) (n : Nat) : Src :=
  { s with bytes := s.bytes.drop n, frames := s.frames.map (· - n) }

/-- prologue of a call that reaches the underlying reader: consult the fault script -/
def Src.pre (s : Src) : Option Err × Src :=
  match s.fault with
  | .none => (none, s)
  | .armed 0 e => (some e, { s with fault := .dead e })
  | .armed (k + 1) e => (none, { s with fault := .armed k e })
  | .dead e => (some e, { s with fault := .zombie e })
  | .zombie e => (some e, s)

/-- `Reader::Ensure(n)`; a `BoundedReader` checks its budget first and only then forwards -/
def rEnsure (n : Nat) : M Unit := fun s =>
  if !framesOk n s.frames then (.error .readLimitReached, s) else
  match s.pre with
  | (some e, s') => (.error e, s')
  | (none, s') =>
    if s'.ensureChecks && s'.bytes.length < n then (.error s'.eof, s') else (.ok (), s')

/-- `Reader::Read` of `n` bytes (one byte, or a block of `n / sizeof(T)` elements) -/
def rRead (n : Nat) : M Bytes := fun s =>
  if !framesOk n s.frames then (.error .readLimitReached, s) else
  match s.pre with
  | (some e, s') => (.error e, s')
  | (none, s') =>
    if s'.bytes.length < n then (.error s'.eof, s') else (.ok (s'.bytes.take n), s'.adv n)

/-- `Reader::Skip(n)` -/
def rSkip (n : Nat) : M Unit := fun s =>
  if !framesOk n s.frames then (.error .readLimitReached, s) else
  match s.pre with
  | (some e, s') => (.error e, s')
  | (none, s') =>
    if s'.bytes.length < n then (.error s'.eof, s') else (.ok (), s'.adv n)

/-- the harness' handle table: reference -1 is the empty handle, 0..n-1 index the table -/
def resolveHandle (hs : List Int) (ref : Int) : Except Err Int :=
  if ref = -1 then .ok (-1)
  else if 0 ≤ ref ∧ ref.toNat < hs.length then .ok (hs.getD ref.toNat (-1))
  else .error .invalidHandleReference

/-- `Reader::GetHandle(ref)`; a `BoundedReader` forwards without touching its budget -/
def rGetHandle (ref : Int) : M Int := fun s =>
  match s.pre with
  | (some e, s') => (.error e, s')
  | (none, s') => (resolveHandle s'.handles ref, s')

/-- construct `BoundedReader{reader, n}` -/
def rPush (n : Nat) : M Unit := fun s => (.ok (), { s with frames := n :: s.frames })

/-- `BoundedReader::ReadPadding()` and drop the bounded reader: the remaining budget is
skipped on the wrapped reader (so it is checked against the outer budgets only). -/
def rPadPop : M Unit := fun s =>
  match s.frames with
  | [] => (.ok (), s)
  | b :: fs =>
    match rSkip b { s with frames := fs } with
    | (.ok _, s') => (.ok (), s')
    | (.error e, s') => (.error e, { s' with frames := b :: s'.frames })

/-- read one byte -/
def rByte : M UInt8 := fun s =>
  match rRead 1 s with
  | (.ok bs, s') => (.ok (bs.headD 0), s')
  | (.error e, s') => (.error e, s')

/-- read a prefix byte, test it with `Match`, continue with `ReadPayload`
(`EncodingIO<T>::Read`) -/
def withPrefix {α} (mt : UInt8 → Bool) (k : UInt8 → M α) : M α := fun s =>
  match rByte s with
  | (.ok p, s') => if mt p then k p s' else (.error .unexpectedEncodingType, s')
  | (.error e, s') => (.error e, s')

/-- `Encoding<intN_t>::ReadPayload` -/
def decIntPayload (k : IntKind) (p : UInt8) : M Int := fun s =>
  if intPayloadLen k p == 0 then (.ok (intOfPayload k p []), s) else
  match rRead (intPayloadLen k p) s with
  | (.ok bs, s') => (.ok (intOfPayload k p bs), s')
  | (.error e, s') => (.error e, s')

/-- `Encoding<intN_t>::Read` -/
def decInt (k : IntKind) : M Int := withPrefix (intMatch k) (decIntPayload k)

/-- `Encoding<SizeType>::Read` (SizeType = uint64_t on this platform) -/
def decSize : M Nat := fun s =>
  match decInt .u64 s with
  | (.ok i, s') => (.ok i.toNat, s')
  | (.error e, s') => (.error e, s')

/-- run `f` `n` times, collecting results (a `for` loop that stops at the first error) -/
def repM {α} (n : Nat) (f : M α) : M (List α) := fun s =>
  match n with
  | 0 => (.ok [], s)
  | n + 1 =>
    match f s with
    | (.ok a, s') =>
      match repM n f s' with
      | (.ok as, s'') => (.ok (a :: as), s'')
      | (.error e, s'') => (.error e, s'')
    | (.error e, s') => (.error e, s')

/-- run `f` on `n` successive slots of an existing array (`priors`, padded with `d`) -/
def repP {α} (n : Nat) (priors : List α) (d : α) (f : α → M α) : M (List α) := fun s =>
  match n with
  | 0 => (.ok [], s)
  | n + 1 =>
    match f (priors.headD d) s with
    | (.ok a, s') =>
      match repP n priors.tail d f s' with
      | (.ok as, s'') => (.ok (a :: as), s'')
      | (.error e, s'') => (.error e, s'')
    | (.error e, s') => (.error e, s')

/-- iterate a state-transforming step `n` times -/
def itM {α} (n : Nat) (f : α → M α) (a : α) : M α := fun s =>
  match n with
  | 0 => (.ok a, s)
  | n + 1 =>
    match f a s with
    | (.ok a', s') => itM n f a' s'
    | (.error e, s') => (.error e, s')

end Nop
