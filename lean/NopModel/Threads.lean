/-!
  C19: schedules. A system of threads whose state is a product of per-thread (and, for
  `ThreadLocal<T, Slot>`, per-(thread, slot)) components with no shared component.
  `ThreadLocal`: `GetValue()` returns the address of a function-local `static thread_local
  Optional<T>` — one per thread and per (T, Slot) instantiation; `Setup` assigns only when empty.
-/
namespace Nop.Threads

/-- a system with one private state per key (a key = a thread, or a (thread, slot) pair) -/
structure Sys (κ σ op obs : Type) where
  step : σ → op → σ × obs

variable {κ σ op obs : Type} [DecidableEq κ]

/-- one event of a schedule: the key whose owner acts, and the operation -/
abbrev Ev (κ op : Type) := κ × op

def stepAt (S : Sys κ σ op obs) (g : κ → σ) (e : Ev κ op) : (κ → σ) × obs :=
  let r := S.step (g e.1) e.2
  (fun k => if k = e.1 then r.1 else g k, r.2)

/-- run a schedule (any interleaving) from a global state; the observation of every event -/
def run (S : Sys κ σ op obs) : (κ → σ) → List (Ev κ op) → (κ → σ) × List (κ × obs)
  | g, [] => (g, [])
  | g, e :: es =>
    let (g1, o) := stepAt S g e
    let (g2, os) := run S g1 es
    (g2, (e.1, o) :: os)

/-- run one key's operations alone -/
def runAlone (S : Sys κ σ op obs) : σ → List op → σ × List obs
  | s, [] => (s, [])
  | s, o :: os =>
    let r := S.step s o
    let (s2, rest) := runAlone S r.1 os
    (s2, r.2 :: rest)

/-- `ThreadLocal<T, Slot>` for one (thread, T, Slot): the thread_local Optional<T> -/
inductive TLOp
  | init (v : Int)     -- constructor / Initialize(v): Setup assigns only when empty
  | get                -- Get()
  | clear              -- Clear()
  deriving Repr, DecidableEq

/-- observation: the value `Get()` would return afterwards (none = empty) -/
def tlStep (s : Option Int) : TLOp → Option Int × Option Int
  | .init v => match s with
    | none => (some v, some v)
    | some x => (some x, some x)
  | .get => (s, s)
  | .clear => (none, none)

def tlSys (κ : Type) : Sys κ (Option Int) TLOp (Option Int) := { step := tlStep }

end Nop.Threads
