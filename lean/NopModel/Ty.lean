/-
  Schema (`Ty`) and value (`Val`) terms.

  `Ty` mirrors the set of C++ types libnop can serialize; nominal tags (`Nom`, the
  string's character type, enum/handle-policy ids) are consulted only by `isFungible`.
  `Val` is one untyped rose tree so that fungible types share values.
-/
import NopModel.Wire
namespace Nop

/-- nominal flavour of an integer-encoded scalar -/
inductive Nom
  | plain            -- intN_t / uintN_t / size_t
  | char             -- `char` (encoded as uint8_t, is_integral)
  | enum (n : Nat)   -- enum #n (not is_integral)
  deriving DecidableEq, Repr, Inhabited

inductive Flavor
  | vector
  | array (n : Nat)                                   -- std::array<T, n>
  | carray (n : Nat)                                  -- T[n]
  | lbuf (cap : Nat) (sk : IntKind) (unb : Bool)      -- (array, size) member pair
  deriving DecidableEq, Repr, Inhabited

inductive PKind | pair | tuple | struct
  deriving DecidableEq, Repr, Inhabited

inductive Ty
  | bool
  | int (k : IntKind) (nom : Nom)
  | float (wide : Bool)
  | str (nom : Nat) (cb : Nat)                 -- basic_string<CharT>, sizeof(CharT) = cb
  | seq (f : Flavor) (e : Ty)
  | prod (k : PKind) (ts : List Ty)
  | map (ord : Bool) (k v : Ty)
  | opt (t : Ty)
  | result (en : Nat) (ek : IntKind) (t : Ty)  -- Result<enum #en : ek, T>
  | variant (ts : List Ty)
  | handle (policy : Nat) (htype : Nat) (tk : IntKind)
  | wrap (t : Ty)                              -- NOP_VALUE wrapper
  | ref (t : Ty)                               -- std::reference_wrapper<T>
  | table (hash : Nat) (ents : List (Nat × Bool)) (tys : List Ty)  -- (id, deleted) ‖ entry types
  deriving Repr, Inhabited

inductive Val
  | int (i : Int)
  | list (vs : List Val)
  | nil
  | tag (i : Int) (v : Val)
  deriving Repr, Inhabited

namespace Val
def elems : Val → List Val
  | .list vs => vs
  | _ => []

mutual
def beq : Val → Val → Bool
  | .int a, .int b => a == b
  | .nil, .nil => true
  | .tag i a, .tag j b => i == j && beq a b
  | .list as, .list bs => beqList as bs
  | _, _ => false
def beqList : List Val → List Val → Bool
  | [], [] => true
  | a :: as, b :: bs => beq a b && beqList as bs
  | _, _ => false
end
instance : BEq Val := ⟨beq⟩

def isNil : Val → Bool
  | .nil => true
  | _ => false
end Val

namespace Ty

/-- `std::is_integral` of the C++ type -/
def integral : Ty → Bool
  | .bool => true
  | .int _ .plain => true
  | .int _ .char => true
  | _ => false

/-- `sizeof` of an integral element type -/
def width : Ty → Nat
  | .bool => 1
  | .int k _ => k.bytes
  | _ => 1

end Ty

/-- a default-constructed C++ object of the type -/
def dflt : Ty → Val
  | .bool => .int 0
  | .int _ _ => .int 0
  | .float _ => .int 0
  | .str _ _ => .list []
  | .seq (.array n) e => .list (List.replicate n (dflt e))
  | .seq (.carray n) e => .list (List.replicate n (dflt e))
  | .seq _ _ => .list []
  | .prod _ ts => .list (dfltL ts)
  | .map _ _ _ => .list []
  | .opt _ => .nil
  | .result _ _ _ => .tag 0 (.int 0)
  | .variant _ => .tag (-1) .nil
  | .handle _ _ _ => .int (-1)
  | .wrap t => dflt t
  | .ref t => dflt t
  | .table _ _ tys => .list (List.replicate tys.length .nil)
where dfltL : List Ty → List Val
  | [] => []
  | t :: ts => dflt t :: dfltL ts

end Nop
